/-
C03 over histories with GC cycles — OpenStore on a torn span log and the core of the crash analysis,
against the package `FlushPack`.
Core Lean only.
-/
import Sth.Lemmas.C03Scan4
import Sth.Lemmas.C03Stream4
import Sth.Lemmas.C03Flush4

namespace Sth

/-! ### OpenStore on a torn span log -/

theorem recover_torn4 (c : Cfg) (hc : c.Legal) (d : Disk) (pf Pm first M : Nat)
    (sp : Nat → List GSpan) (junk : Nat → Bytes)
    (hih : d.ihdr = some ⟨c.bits, c.ifs, first, hdrPfs c⟩) (hsn : d.snap = none)
    (hph : c.kind = .mh → d.phdr = some ⟨c.pfs, pf⟩) (hle : c.kind = .mh → pf ≤ Pm)
    (hall : c.kind = .mh → ∀ f, pf ≤ f → f ≤ Pm → d.pfiles.get? f ≠ none)
    (hno : c.kind = .mh → d.pfiles.get? (Pm + 1) = none) (hfM : first ≤ M)
    (hfiles : ∀ f, first ≤ f → f ≤ M → d.ifiles.get? f = some (gbytes (sp f) ++ junk f))
    (hnoI : d.ifiles.get? (M + 1) = none)
    (hok : ∀ f, first ≤ f → f ≤ M → ∀ s ∈ sp f, IdxSpanOK c.bits s)
    (hj : ∀ f, first ≤ f → f ≤ M → IsTorn c.bits (junk f)) :
    ∃ cf pfn plen files' fr,
      openStoreR c d = ({ d with free := fr, cidfile := cf, snap := none, ifiles := files' },
        .ok (openMem c (setAll [] (rangeLive c.ifs sp first (M + 1 - first))) M
          (fileOf files' M).length pfn plen)) ∧
      (c.kind = .mh → cf = d.cidfile ∧ pfn = Pm ∧ plen = (fileOf d.pfiles Pm).length) ∧
      (c.kind = .cid → cf = some (d.cidfile.getD []) ∧ pfn = 0 ∧
        plen = (d.cidfile.getD []).length) ∧
      (∀ f, first ≤ f → f ≤ M → files'.get? f = some (gbytes (sp f))) ∧
      (∀ f, (f < first ∨ M < f) → files'.get? f = d.ifiles.get? f) := by
  obtain ⟨cf, pfn, plen, files', bk, o1, o2, o3, o4, o5, o6⟩ := openStore_ok4 c hc (openFreelist d) Pm pf M
    hph hle hall hno
    (Q := fun files' bk => bk = setAll [] (rangeLive c.ifs sp first (M + 1 - first)) ∧
      (∀ f, first ≤ f → f ≤ M → files'.get? f = some (gbytes (sp f))) ∧
      (∀ f, (f < first ∨ M < f) → files'.get? f = d.ifiles.get? f))
    (by
      intro dP e1 e2 e3
      obtain ⟨files', q1, q2, q3⟩ := openIndex_torn4 c hc dP first M sp junk (by rw [e1]; exact hih)
        (by rw [e2]; exact hsn) hfM (by rw [e3]; exact hfiles) (by rw [e3]; exact hnoI) hok hj
      refine ⟨files', _, q1, rfl, q2, ?_⟩
      intro f hf
      rw [q3 f hf, e3]; rfl)
  subst o4
  exact ⟨cf, pfn, plen, files', _, o1, o2, o3, o5, o6⟩

/-- what the recovered state satisfies besides the observational invariant (GC histories) -/
structure RecInv4 (c : Cfg) (m : Mem) (d : Disk) (n B : Nat) : Prop where
  kind : m.kind = c.kind
  imm : m.imm = c.imm
  bits : m.bits = c.bits
  p : PInv m d
  i : IInv m d
  y : YInv c ⟨c, m, d⟩
  cnt : Cnt m n B
  inext : m.inext = []

theorem pri_new4 {c : Cfg} {m2 : Mem} {d2 dR : Disk} (hk2 : m2.kind = c.kind)
    (hpm : m2.pmax = hdrPfs c) {bkR : NMap Nat} {NR ilR pfnR plenR : Nat} {blk : Block} {k v : Bytes}
    (hmh : c.kind = .mh → (∀ f, dR.pfiles.get? f = d2.pfiles.get? f) ∧ pfnR = m2.precFileNum ∧
      plenR = m2.precPos)
    (hcid : c.kind = .cid → dR.cidfile = some (d2.cidfile.getD []) ∧ plenR = m2.precPos)
    (ht : thrOK m2 blk) (hd : diskRead m2.kind m2.pmax d2 blk = .got k v) :
    priGet (openMem c bkR NR ilR pfnR plenR) dR blk = .got k v := by
  rw [hk2, hpm] at hd
  apply openMem_priGet
  · unfold thrOK at ht ⊢
    rw [openMem_thr]
    unfold thr at ht
    rw [hk2, hpm] at ht
    rcases (by cases c.kind <;> simp : c.kind = .mh ∨ c.kind = .cid) with hk | hk
    · simp only [hk] at ht ⊢
      obtain ⟨_, e1, e2⟩ := hmh hk
      rw [e1, e2]
      exact ht
    · simp only [hk] at ht ⊢
      obtain ⟨_, e2⟩ := hcid hk
      rw [e2]
      exact ht
  · rcases (by cases c.kind <;> simp : c.kind = .mh ∨ c.kind = .cid) with hk | hk
    · rw [hk] at hd ⊢
      have hext : FilesExt d2.pfiles dR.pfiles := by
        intro f file hf
        exact ⟨[], by rw [(hmh hk).1 f, hf, List.append_nil]⟩
      exact diskRead_mh_mono hext hd
    · rw [hk] at hd ⊢
      cases hcf : d2.cidfile with
      | none => unfold diskRead at hd; simp [hcf] at hd
      | some file =>
        have h2 : dR.cidfile = some (file ++ []) := by
          rw [(hcid hk).1, hcf]; simp
        exact diskRead_cid_mono hcf h2 hd

theorem contig_unique4 {fs : NMap Bytes} {pf A B : Nat} (hA0 : pf ≤ A) (hB0 : pf ≤ B)
    (hA : ∀ f, pf ≤ f → f ≤ A → fs.get? f ≠ none) (hA' : fs.get? (A + 1) = none)
    (hB : ∀ f, pf ≤ f → f ≤ B → fs.get? f ≠ none) (hB' : fs.get? (B + 1) = none) : A = B := by
  rcases Nat.lt_trichotomy A B with h | h | h
  · exact absurd hA' (hB _ (by omega) (by omega))
  · exact h
  · exact absurd hB' (hA _ (by omega) (by omega))

/-! ### the core -/

section
variable {c : Cfg} {U : List (Bytes × Bytes)} {s : SState} {spec specD : Spec} {n B : Nat}

theorem crash_core4 (hc : c.Legal) (hU : Univ c.kind U) {first pf : Nat} {m1 m2 : Mem} {d1 d2 : Disk}
    (hF : FlushPack c U s spec n B first pf m1 d1 m2 d2) {dOld : Disk} {mOld : Mem}
    (hold : openStoreR c s.d = (dOld, .ok mOld)) (hAold : SInv U mOld dOld specD)
    (fr : Option Bytes) (hFr : OptExt s.d.free fr) (k : Nat) (early : Bool) :
    ∃ dr mr, ∃ newB : List Nat,
      openStoreR c (crashImage s.d (appendStream s.d { d2 with free := fr }) k early) =
        (dr, .ok mr) ∧ RecInv4 c mr dr n B ∧
      ∀ b, (b ∉ newB → BucketSame c.kind mr dr mOld dOld b) ∧
        (b ∈ newB → BucketSame c.kind mr dr m2 d2 b) := by
  have hd2 := hF.hd2
  have hin := hF.hin
  have hpn := hF.hpn
  have hR := hF.hR
  obtain ⟨PI', sI⟩ := hF.sI
  obtain ⟨sp, hl⟩ := hF.ilog
  have hd2p : d2.pfiles = d1.pfiles := by
    have := congrArg Disk.pfiles hd2; exact this
  have hd2c : d2.cidfile = d1.cidfile := by
    have := congrArg Disk.cidfile hd2; exact this
  have hd' : ({ d2 with free := fr } : Disk) =
      { s.d with pfiles := d1.pfiles, cidfile := d1.cidfile, ifiles := d2.ifiles, free := fr } := by
    conv => lhs; rw [hd2]
  obtain ⟨fiP, cf, fiI, fr', hEq, cP, cC, cI, _, hphase, _⟩ :=
    crashImage_form4 s.d d1.pfiles d1.cidfile d2.ifiles fr hF.sP hF.sC (Or.inr ⟨_, _, _, sI⟩) hFr k early
  rw [hd', hEq]
  have hk2 : m2.kind = c.kind := hF.kind2
  have hfN : first ≤ s.m.ifileNum := hl.le
  -- the recovery of the old disk, explicitly
  have hSold : DiskShape c s.m s.d := by
    refine ⟨hF.sbits, hF.simax, hF.snap, ⟨first, sp, hF.ihdr, ?_⟩, hF.ino, ?_, ?_⟩
    · show IdxLogT s.m.bits s.m.imax s.m.ifileNum s.d.ifiles (tbl s.m) first sp
      rw [hF.sbits, hF.simax]; exact hl
    · intro hk
      obtain ⟨P', segP, _⟩ := hF.smh hk
      exact ⟨pf, hF.phdr hk, segP.lo, segP.all⟩
    · intro hk
      obtain ⟨P', segP, _⟩ := hF.smh hk
      exact segP.above _ (Nat.lt_succ_self _)
  obtain ⟨cfO, pfnO, plenO, filesO, bkO, frO, eqO, oO2, oO3, oO4, oO5⟩ := recover_form4 hc hSold
  rw [eqO] at hold
  simp only [Prod.mk.injEq, Except.ok.injEq] at hold
  obtain ⟨rfl, rfl⟩ := hold
  have htbl0 : ∀ b, tblOf s.m.buckets [] b = tbl s.m b := fun _ => rfl
  -- the index files of the image
  have hidx : ∃ (M : Nat) (spI : Nat → List GSpan) (junk : Nat → Bytes) (blks : List (Nat × Nat)),
      first ≤ M ∧
      (∀ f, first ≤ f → f ≤ M → fiI.get? f = some (gbytes (spI f) ++ junk f)) ∧
      (∀ f, M < f → fiI.get? f = none) ∧ (∀ f, f < first → fiI.get? f = none) ∧
      (∀ f, first ≤ f → f ≤ M → ∀ s ∈ spI f, IdxSpanOK c.bits s) ∧ (∀ f, IsTorn c.bits (junk f)) ∧
      (∀ b, ((setAll [] (rangeLive c.ifs spI first (M + 1 - first))).get? b).getD 0 =
        tblOf s.m.buckets blks b) ∧
      (∀ b, tblOf s.m.buckets blks b ≠ 0 → ∃ f off body, first ≤ f ∧ f ≤ M ∧
        (off, body) ∈ liveAt 0 (spI f) ∧ leDec (body.take 4) = b ∧
        tblOf s.m.buckets blks b = f * c.ifs + off + 4) ∧
      (∀ f, first ≤ f → f ≤ M → ∀ x ∈ liveAt 0 (spI f),
        x.1 < c.ifs ∧ f * c.ifs + x.1 + 4 ≤ tblOf s.m.buckets blks (leDec (x.2.take 4))) ∧
      (∀ files' : NMap Bytes, (∀ f, first ≤ f → f ≤ M → files'.get? f = some (gbytes (spI f))) →
        FilesExt s.d.ifiles files' ∧
        ∀ x ∈ blks, ∃ rl, s.m.inext.get? x.1 = some rl ∧
          readDiskBucket files' c.ifs x.2 = .ok (some rl)) ∧
      (blks = [] ∨ ((∀ n, fiP.get? n = d1.pfiles.get? n) ∧ cf = d1.cidfile)) := by
    rcases hphase with hlit | hpc
    · refine ⟨s.m.ifileNum, sp, fun _ => [], [], hfN, ?_, ?_, ?_, hl.ok, fun _ => isTorn_nil _, ?_, ?_,
        ?_, ?_, Or.inl rfl⟩
      · intro f h1 h2; rw [hlit, hl.files f h1 h2, List.append_nil]
      · intro f hf; rw [hlit]; exact hF.ino _ hf
      · intro f hf; rw [hlit]; exact hl.gone f hf
      · intro b; rw [htbl0]; exact scan_tbl hl b
      · intro b hb; rw [htbl0] at hb ⊢; exact hl.t1 b hb
      · intro f h1 h2 x hx; rw [htbl0]; exact hl.t2 f h1 h2 x hx
      · intro files' hf'
        refine ⟨?_, by simp⟩
        intro f file hfile
        have hff : f ≤ s.m.ifileNum := by
          rcases Nat.lt_or_ge s.m.ifileNum f with h | h
          · rw [hF.ino f h] at hfile; cases hfile
          · exact h
        have hf1 : first ≤ f := by
          rcases Nat.lt_or_ge f first with h | h
          · rw [hl.gone f h] at hfile; cases hfile
          · exact h
        rw [hl.files f hf1 hff] at hfile
        cases hfile
        exact ⟨[], by rw [hf' f hf1 hff, List.append_nil]⟩
    · obtain ⟨M, spI, junk, blks, g0, g1, g2, gB, g3, g4, g5, gt1, gt2, g6⟩ := hF.himg fiI cI
      exact ⟨M, spI, junk, blks, g0, g1, g2, gB, g3, g4, g5, gt1, gt2, g6, Or.inr hpc⟩
  obtain ⟨M, spI, junk, blks, g0, g1, g2, gB, g3, g4, g5, gt1, gt2, g6, hblk⟩ := hidx
  -- the primary files of the image
  have hPm : ∃ Pm, c.kind = .mh → pf ≤ s.m.pfileNum ∧ s.m.pfileNum ≤ Pm ∧ Pm ≤ m2.pfileNum ∧
      (∀ f, pf ≤ f → f ≤ Pm → ∃ j, fiP.get? f = some (fileOf s.d.pfiles f ++ j)) ∧
      (∀ f, Pm < f → fiP.get? f = none) := by
    rcases (by cases c.kind <;> simp : c.kind = .mh ∨ c.kind = .cid) with hk | hk
    · obtain ⟨P', segP, _⟩ := hF.smh hk
      obtain ⟨Mp, h1, h1', h2, h3⟩ := cutImg_ext4 segP cP
      refine ⟨Mp, fun _ => ⟨segP.lo, h1, ?_, h2, h3⟩⟩
      have hP'le : P' ≤ m2.pfileNum := by
        rcases Nat.lt_or_ge m2.pfileNum P' with h | h
        · have := (hF.allocMh hk).2.2.2.1 P' h
          rw [hd2p] at this
          exact absurd this (segP.all' P' (by have := segP.lo; have := segP.le; omega) (Nat.le_refl _))
        · exact h
      omega
    · have hno : ¬ c.kind = .mh := by rw [hk]; intro h; cases h
      exact ⟨0, fun hk' => absurd hk' hno⟩
  obtain ⟨Pm, hPm⟩ := hPm
  obtain ⟨cfR, pfnR, plenR, filesR, frR, eqR, r2, r3, r5, r6⟩ :=
    recover_torn4 c hc { s.d with pfiles := fiP, cidfile := cf, ifiles := fiI, free := fr' } pf Pm first M
      spI junk hF.ihdr hF.snap hF.phdr
      (fun hk => by have := hPm hk; omega)
      (fun hk f hf1 hf => by
        obtain ⟨j, hj⟩ := (hPm hk).2.2.2.1 f hf1 hf
        show fiP.get? f ≠ none
        rw [hj]; simp)
      (fun hk => (hPm hk).2.2.2.2 _ (by omega)) g0 g1 (g2 _ (by omega)) g3 (fun f _ _ => g4 f)
  have htblR : ∀ b, tbl (openMem c (setAll [] (rangeLive c.ifs spI first (M + 1 - first))) M
      (fileOf filesR M).length pfnR plenR) b = tblOf s.m.buckets blks b := fun b => g5 b
  refine ⟨_, _, blks.map (·.1), eqR, ?_, ?_⟩
  · -- the invariants of the recovered state
    have hMle : M ≤ m2.ifileNum := by
      have hsub := cutImg_sub (fs := s.d.ifiles) (fs' := d2.ifiles) (fi := fiI) (by
        intro f hf
        have hff : f ≤ s.m.ifileNum := by
          rcases Nat.lt_or_ge s.m.ifileNum f with h | h
          · exact absurd (hF.ino f h) hf
          · exact h
        have hf1 : first ≤ f := by
          rcases Nat.lt_or_ge f first with h | h
          · exact absurd (hl.gone f h) hf
          · exact h
        exact sI.all' f hf1 (by have := sI.le; omega)) cI M (by rw [g1 M g0 (Nat.le_refl _)]; simp)
      rcases Nat.lt_or_ge m2.ifileNum M with h | h
      · exact absurd (hF.ino2 M h) hsub
      · exact h
    have hcfle : (cf.getD []).length ≤ (d1.cidfile.getD []).length := by
      rcases cC with hcc | ⟨g, t, e1, hcc⟩
      · rw [hcc]
        rcases hF.sC with h | ⟨g, h⟩
        · rw [h]; exact Nat.le_refl _
        · rw [h]; simp
      · rw [hcc, e1]
        simp only [Option.getD_some, List.length_append, List.length_take]
        omega
    refine ⟨rfl, rfl, rfl, ?_, ?_, ?_, ?_, rfl⟩
    · -- PInv
      refine ⟨?_, fun r hr => (by cases hr), fun r hr => (by cases hr), fun r hr => (by cases hr), ?_, ?_⟩
      · intro hk
        have hk' : c.kind = .mh := hk
        show 1 ≤ hdrPfs c
        unfold hdrPfs; simp only [hk']
        exact hc.2.2.2.2.1
      · intro hk
        have hk' : c.kind = .mh := hk
        obtain ⟨_, q2, q3⟩ := r2 hk'
        refine ⟨⟨rfl, rfl⟩, ?_, ?_⟩
        · show (fileOf fiP pfnR).length = plenR
          rw [q3, q2]
        · intro f hf
          show fiP.get? f = none
          have hf' : pfnR < f := hf
          rw [q2] at hf'
          exact (hPm hk').2.2.2.2 f hf'
      · intro hk
        have hk' : c.kind = .cid := hk
        obtain ⟨q1, _, q3⟩ := r3 hk'
        show (cfR.getD []).length = plenR
        rw [q1, q3]; rfl
    · -- IInv
      refine ⟨hc.2.2.1, fun b rl hb => (by cases hb), rfl, ?_, setAll_sorted _ _ NMap.sorted_nil⟩
      intro f hf
      show filesR.get? f = none
      rw [r6 f (Or.inr hf)]
      exact g2 f hf
    · -- YInv
      refine ⟨rfl, rfl, rfl, rfl, ⟨first, spI, hF.ihdr, ?_⟩, ?_, fun b rl hb => (by cases hb)⟩
      · show IdxLogT c.bits c.ifs M filesR (tbl (openMem c _ M _ pfnR plenR)) first spI
        have ht : tbl (openMem c (setAll [] (rangeLive c.ifs spI first (M + 1 - first))) M
            (fileOf filesR M).length pfnR plenR) = tblOf s.m.buckets blks := funext htblR
        rw [ht]
        refine ⟨g0, ?_, r5, g3, gt1, gt2⟩
        intro f hf
        rw [r6 f (Or.inl hf)]
        exact gB f hf
      · intro hk
        obtain ⟨_, q2, _⟩ := r2 hk
        refine ⟨pf, hF.phdr hk, by show pf ≤ pfnR; rw [q2]; have := hPm hk; omega, ?_⟩
        intro f hf1 hf
        have hf' : f ≤ pfnR := hf
        rw [q2] at hf'
        obtain ⟨j, hj⟩ := (hPm hk).2.2.2.1 f hf1 hf'
        show fiP.get? f ≠ none
        rw [hj]; simp
    · -- Cnt
      refine ⟨?_, ?_, ?_⟩
      · intro hk
        have hk' : c.kind = .mh := hk
        obtain ⟨_, q2, _⟩ := r2 hk'
        have ha := hF.allocMh hk'
        have hc2 := hF.cntMh hk'
        refine ⟨?_, ?_⟩
        · show pfnR ≤ n
          rw [q2]
          have := (hPm hk').2.2.1
          have := ha.1
          omega
        · show hdrPfs c ≤ 1073741824
          rw [← hF.pmax2]; exact hc2.2
      · intro hk
        have hk' : c.kind = .cid := hk
        obtain ⟨_, _, q3⟩ := r3 hk'
        have ha' := hF.allocCid hk'
        have hc2 := hF.cntCid hk'
        show plenR ≤ B
        rw [q3]
        show (cf.getD []).length ≤ B
        rw [hd2c] at ha'
        omega
      · show M + 0 ≤ n
        have := hF.cntI2
        omega
  · -- the buckets
    intro b
    obtain ⟨hfe, hbl⟩ := g6 filesR r5
    have hgetD : ∀ b, (((setAll [] (rangeLive c.ifs spI first (M + 1 - first))).get? b).getD 0) =
        ((setAll s.m.buckets blks).get? b).getD 0 := fun b => g5 b
    constructor
    · -- the bucket was not reached by the flush: it reads what the old disk reads
      intro hnb
      have heq : (setAll s.m.buckets blks).get? b = s.m.buckets.get? b := by
        rcases setAll_get? blks s.m.buckets b with ⟨_, heq⟩ | ⟨pos, hmem, _⟩
        · exact heq
        · exact absurd (List.mem_map.mpr ⟨(b, pos), hmem, rfl⟩) hnb
      have hlexMh : c.kind = .mh → pfnO < pfnR ∨ (pfnO = pfnR ∧ plenO ≤ plenR) := by
        intro hk
        obtain ⟨h0, h1, _, h2, h3⟩ := hPm hk
        obtain ⟨_, e2, e3⟩ := oO2 hk
        obtain ⟨_, q2, q3⟩ := r2 hk
        rw [e2, q2, e3, q3]
        rcases Nat.lt_or_ge s.m.pfileNum Pm with h | h
        · left; exact h
        · right
          have hPe : s.m.pfileNum = Pm := by omega
          refine ⟨hPe, ?_⟩
          obtain ⟨j, hj⟩ := h2 Pm (by omega) (Nat.le_refl _)
          have : fileOf fiP Pm = fileOf s.d.pfiles Pm ++ j := fileOf_some hj
          show (fileOf s.d.pfiles s.m.pfileNum).length ≤ (fileOf fiP Pm).length
          rw [this, hPe, List.length_append]
          omega
      have hcidO : c.kind = .cid → ∃ file g, cfO = some file ∧ cfR = some (file ++ g) ∧
          plenO ≤ plenR := by
        intro hk
        obtain ⟨e1, _, e3⟩ := oO3 hk
        obtain ⟨q1, _, q3⟩ := r3 hk
        rcases cC with hcc | ⟨g, t, _, hcc⟩
        · refine ⟨s.d.cidfile.getD [], [], e1, ?_, ?_⟩
          · rw [q1, List.append_nil]
            show some (cf.getD []) = _
            rw [hcc]
          · rw [e3, q3]
            show (s.d.cidfile.getD []).length ≤ (cf.getD []).length
            rw [hcc]
            exact Nat.le_refl _
        · refine ⟨s.d.cidfile.getD [], g.take t, e1, ?_, ?_⟩
          · rw [q1]
            show some (cf.getD []) = _
            rw [hcc]; rfl
          · rw [e3, q3]
            show (s.d.cidfile.getD []).length ≤ (cf.getD []).length
            rw [hcc]
            simp
      obtain ⟨orl, a1, _, a3⟩ := hAold.recs b
      have a1' : readDiskBucket s.d.ifiles c.ifs (tbl s.m b) = .ok orl := by
        have := a1
        rw [openMem_idxRecords] at this
        have e : readDiskBucket filesO c.ifs ((bkO.get? b).getD 0) = .ok orl := this
        rw [oO5 b, readDiskBucket_congr oO4] at e
        exact e
      refine ⟨orl, ?_, a1, ?_⟩
      · rw [openMem_idxRecords]
        show readDiskBucket filesR c.ifs
          (((setAll [] (rangeLive c.ifs spI first (M + 1 - first))).get? b).getD 0) = _
        rw [hgetD, heq]
        exact readDiskBucket_mono hfe a1'
      · intro e he
        have hBk := a3 e he
        obtain ⟨key, val, dig, b1, b2, _, _, _⟩ := hBk.ex
        refine ⟨key, val, dig, ?_, b1, (hU.dig b2).1, ?_⟩
        · apply pri_old hBk.below b1
          · intro hk
            obtain ⟨h0, h1, _, h2, h3⟩ := hPm hk
            obtain ⟨P', segP, _⟩ := hF.smh hk
            refine ⟨?_, hlexMh hk⟩
            intro f file hf
            have hf' : s.d.pfiles.get? f = some file := hf
            have hfP : f ≤ s.m.pfileNum := by
              rcases Nat.lt_or_ge s.m.pfileNum f with h | h
              · rw [segP.above f h] at hf'; cases hf'
              · exact h
            have hf1 : pf ≤ f := by
              rcases Nat.lt_or_ge f pf with h | h
              · rw [segP.gone f h] at hf'; cases hf'
              · exact h
            obtain ⟨j, hj⟩ := h2 f hf1 (by omega)
            exact ⟨j, by show fiP.get? f = _; rw [hj, fileOf_some hf']⟩
          · intro hk
            exact hcidO hk
        · intro hbel
          apply below_mono (m := openMem c (setAll [] (rangeLive c.ifs spI first (M + 1 - first))) M
            (fileOf filesR M).length pfnR plenR) hbel rfl rfl
          · intro hk
            exact hlexMh hk
          · intro hk
            obtain ⟨_, _, _, _, h⟩ := hcidO hk
            exact h
    · -- the bucket's new record is whole in the image: it reads what the flushed state reads
      intro hb
      obtain ⟨x, hx, hxb⟩ := List.mem_map.mp hb
      rcases setAll_get? blks s.m.buckets b with ⟨hnone, _⟩ | ⟨pos, hmem, heq⟩
      · exact absurd (by rw [← hxb]; exact hx) (hnone x.2)
      have hpc : (∀ n, fiP.get? n = d1.pfiles.get? n) ∧ cf = d1.cidfile := by
        rcases hblk with h | h
        · rw [h] at hmem; cases hmem
        · exact h
      have hnewMh : c.kind = .mh → (∀ f, fiP.get? f = d2.pfiles.get? f) ∧ pfnR = m2.precFileNum ∧
          plenR = m2.precPos := by
        intro hk
        obtain ⟨_, q2, q3⟩ := r2 hk
        obtain ⟨a1, a2, a3, a4, a5, a6⟩ := hF.allocMh hk
        have hfiP : ∀ f, fiP.get? f = d2.pfiles.get? f := fun f => by rw [hpc.1, hd2p]
        have hPm2 : Pm = m2.pfileNum := by
          apply contig_unique4 (fs := fiP) (pf := pf) (by have := hPm hk; omega) a5
          · intro f hf1 hf
            obtain ⟨j, hj⟩ := (hPm hk).2.2.2.1 f hf1 hf
            rw [hj]; simp
          · exact (hPm hk).2.2.2.2 _ (by omega)
          · intro f hf1 hf
            rw [hfiP]; exact a6 f hf1 hf
          · rw [hfiP]; exact a4 _ (Nat.lt_succ_self _)
        refine ⟨hfiP, by rw [q2, hPm2, a1], ?_⟩
        rw [q3, hPm2]
        have : fileOf fiP m2.pfileNum = fileOf d2.pfiles m2.pfileNum := by
          unfold fileOf; rw [hfiP]
        show (fileOf fiP m2.pfileNum).length = m2.precPos
        rw [this, a3, a2]
      have hnewCid : c.kind = .cid → cfR = some (d2.cidfile.getD []) ∧ plenR = m2.precPos := by
        intro hk
        obtain ⟨q1, _, q3⟩ := r3 hk
        refine ⟨?_, ?_⟩
        · rw [q1]
          show some (cf.getD []) = _
          rw [hpc.2, hd2c]
        · rw [q3]
          show (cf.getD []).length = _
          rw [hpc.2, ← hd2c]
          exact hF.allocCid hk
      obtain ⟨rl, n1, n2⟩ := hbl (b, pos) hmem
      simp only at n1 n2
      have hidx2 : idxRecords m2 d2 b = .ok (some rl) := by
        rw [hR b]; unfold idxRecords; rw [n1]
      refine ⟨some rl, ?_, hidx2, ?_⟩
      · rw [openMem_idxRecords]
        show readDiskBucket filesR c.ifs
          (((setAll [] (rangeLive c.ifs spI first (M + 1 - first))).get? b).getD 0) = _
        rw [hgetD, heq]
        exact n2
      · intro e he
        obtain ⟨orl', c1, _, c3⟩ := hF.a2.recs b
        have c1' : idxRecords m2 d2 b = .ok orl' := c1
        rw [hidx2] at c1'
        cases c1'
        have hBk := c3 e he
        obtain ⟨key, val, dig, b1, b2, _, _, _⟩ := hBk.ex
        have b1' : priGet m2 d2 e.blk = .got key val := b1
        have hent : IsEnt m2 d2 e.blk := ⟨b, rl, e, hidx2, he, rfl⟩
        obtain ⟨ht, hdr⟩ := hF.entDisk e.blk hent key val b1'
        refine ⟨key, val, dig, ?_, b1', (hU.dig b2).1, ?_⟩
        · exact pri_new4 hk2 hF.pmax2 hnewMh hnewCid ht hdr
        · intro hbel
          apply below_mono (m := openMem c (setAll [] (rangeLive c.ifs spI first (M + 1 - first))) M
            (fileOf filesR M).length pfnR plenR) hbel hk2.symm hF.pmax2.symm
          · intro hkm
            have hk : c.kind = .mh := by rw [← hk2]; exact hkm
            obtain ⟨_, e1, e2⟩ := hnewMh hk
            right
            exact ⟨by show m2.precFileNum = pfnR; rw [e1],
              by show m2.precPos ≤ plenR; rw [e2]; exact Nat.le_refl _⟩
          · intro hkm
            have hk : c.kind = .cid := by rw [← hk2]; exact hkm
            obtain ⟨_, e2⟩ := hnewCid hk
            show m2.precPos ≤ plenR
            rw [e2]
            exact Nat.le_refl _

end

end Sth
