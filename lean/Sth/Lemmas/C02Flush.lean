/-
C02 — the log invariant of the index files and its maintenance by `idxFlush`; existence of all primary
files up to the current one; the extended invariant and the "flush both" lemma shared by Store.Flush
and Store.Close.
Core Lean only.
-/
import Sth.Lemmas.C02Log
import Sth.Lemmas.C01

namespace Sth

/-! ### appending a record to a log -/

theorem scanTo_append (max : Nat) {lg lg' : Nat → List LRec} {N : Nat} {r : LRec}
    (hlow : ∀ f, f < N → lg' f = lg f) (hN : lg' N = lg N ++ [r]) :
    scanTo max lg' N = (scanTo max lg N).set r.1 (N * max + (logBytes (lg N)).length + 4) := by
  cases N with
  | zero =>
    simp only [scanTo, hN, scanRecs_append, scanRecs]
    simp
  | succ k =>
    simp only [scanTo, hN, scanRecs_append, scanRecs]
    rw [scanTo_congr max k (fun f hf => hlow f (by omega))]
    simp

theorem scanTo_newfile (max : Nat) {lg lg' : Nat → List LRec} {N : Nat} {r : LRec}
    (hlow : ∀ f, f ≤ N → lg' f = lg f) (hN : lg' (N + 1) = [r]) :
    scanTo max lg' (N + 1) = (scanTo max lg N).set r.1 ((N + 1) * max + 0 + 4) := by
  simp only [scanTo, hN, scanRecs]
  rw [scanTo_congr max N hlow]

theorem setAll_snoc (bk : NMap Nat) (blks : List (Nat × Nat)) (x : Nat × Nat) :
    setAll bk (blks ++ [x]) = (setAll bk blks).set x.1 x.2 := by
  unfold setAll; rw [List.foldl_append]; rfl

theorem setAll_congr : ∀ (blks : List (Nat × Nat)) (a b : NMap Nat),
    (∀ k, (a.get? k).getD 0 = (b.get? k).getD 0) →
    ∀ k, ((setAll a blks).get? k).getD 0 = ((setAll b blks).get? k).getD 0
  | [], _, _, h => h
  | x :: blks, a, b, h => by
    apply setAll_congr blks (a.set x.1 x.2) (b.set x.1 x.2)
    intro k
    rw [NMap.get?_set, NMap.get?_set]
    split
    · rfl
    · exact h k

/-! ### the log invariant -/

/-- `lg` describes the index files `0..ifileNum`, and the bucket table is what a scan of it builds
    (up to absent / zero entries) -/
structure LogAt (lg : Nat → List LRec) (m : Mem) (d : Disk) : Prop where
  files : ∀ f, f ≤ m.ifileNum → d.ifiles.get? f = some (logBytes (lg f))
  recs : ∀ f, f ≤ m.ifileNum → ∀ r ∈ lg f, RecLogOK m.bits r
  table : ∀ b, (m.buckets.get? b).getD 0 = ((scanTo m.imax lg m.ifileNum).get? b).getD 0

def LogInv (m : Mem) (d : Disk) : Prop := ∃ lg, LogAt lg m d

theorem LogInv.frame {m m' : Mem} {d d' : Disk} (h : LogInv m d) (hd : d'.ifiles = d.ifiles)
    (h1 : m'.ifileNum = m.ifileNum) (h2 : m'.bits = m.bits) (h3 : m'.imax = m.imax)
    (h4 : m'.buckets = m.buckets) : LogInv m' d' := by
  obtain ⟨lg, hl⟩ := h
  exact ⟨lg, by rw [h1, hd]; exact hl.files, by rw [h1, h2]; exact hl.recs,
    by rw [h1, h3, h4]; exact hl.table⟩

/-! ### one step of the index flush, explicitly -/

/-- the index files after a rollover and one appended record -/
abbrev rollFiles (fs : NMap Bytes) (n : Nat) (rec_ : Bytes) : NMap Bytes :=
  (fs.set n []).set n (fileOf (fs.set n []) n ++ rec_)

theorem istep_roll {pool : NMap RecordList} {m : Mem} {d : Disk} {blks : List (Nat × Nat)} {b : Nat}
    {rl : RecordList} (hg : pool.get? b = some rl) (hroll : m.ilength ≥ m.imax)
    (hnone : d.ifiles.get? (m.ifileNum + 1) = none) :
    iflushStep pool (m, d, blks) b =
      ({ m with ifileNum := m.ifileNum + 1, ilength := 0 + (idxRecBytes b rl).length },
       { d with ifiles := rollFiles d.ifiles (m.ifileNum + 1) (idxRecBytes b rl) },
       blks ++ [(b, (m.ifileNum + 1) * m.imax + 0 + 4)]) := by
  unfold iflushStep
  simp only [hg, hroll, has_eq_false hnone, if_true, Bool.false_eq_true, if_false]
  rfl

theorem istep_noroll {pool : NMap RecordList} {m : Mem} {d : Disk} {blks : List (Nat × Nat)} {b : Nat}
    {rl : RecordList} (hg : pool.get? b = some rl) (hroll : ¬ m.ilength ≥ m.imax) :
    iflushStep pool (m, d, blks) b =
      ({ m with ifileNum := m.ifileNum, ilength := m.ilength + (idxRecBytes b rl).length },
       { d with ifiles := d.ifiles.set m.ifileNum (fileOf d.ifiles m.ifileNum ++ idxRecBytes b rl) },
       blks ++ [(b, m.ifileNum * m.imax + m.ilength + 4)]) := by
  unfold iflushStep
  simp only [hg, hroll, if_false]
  rfl

/-- the state of the fold: log, file length, no later files, and the abstract table -/
structure LogFold (bits : Nat) (T0 : NMap Nat) (lg : Nat → List LRec) (m : Mem) (d : Disk)
    (blks : List (Nat × Nat)) : Prop where
  files : ∀ f, f ≤ m.ifileNum → d.ifiles.get? f = some (logBytes (lg f))
  recs : ∀ f, f ≤ m.ifileNum → ∀ r ∈ lg f, RecLogOK bits r
  len : (fileOf d.ifiles m.ifileNum).length = m.ilength
  noFiles : ∀ f, m.ifileNum < f → d.ifiles.get? f = none
  table : scanTo m.imax lg m.ifileNum = setAll T0 blks

theorem istep_log {bits : Nat} {T0 : NMap Nat} {pool : NMap RecordList} {m : Mem} {d : Disk}
    {blks : List (Nat × Nat)} {lg : Nat → List LRec} {b : Nat} {rl : RecordList}
    (hg : pool.get? b = some rl) (hok : RecLogOK bits (b, rl)) (h : LogFold bits T0 lg m d blks) :
    ∃ lg', LogFold bits T0 lg' (iflushStep pool (m, d, blks) b).1 (iflushStep pool (m, d, blks) b).2.1
      (iflushStep pool (m, d, blks) b).2.2 ∧
      (iflushStep pool (m, d, blks) b).1.imax = m.imax := by
  by_cases hroll : m.ilength ≥ m.imax
  · have hnone : d.ifiles.get? (m.ifileNum + 1) = none := h.noFiles _ (by omega)
    rw [istep_roll hg hroll hnone]
    refine ⟨fun f => if f = m.ifileNum + 1 then [(b, rl)] else lg f, ?_, rfl⟩
    constructor
    · intro f hf
      simp only at hf ⊢
      by_cases hff : f = m.ifileNum + 1
      · rw [if_pos hff, hff, NMap.get?_set_eq, fileOf_some (NMap.get?_set_eq _ _ _)]
        simp [logBytes]
      · rw [if_neg hff, NMap.get?_set_ne _ _ hff, NMap.get?_set_ne _ _ hff]
        exact h.files f (by omega)
    · intro f hf r hr
      simp only at hf hr
      by_cases hff : f = m.ifileNum + 1
      · rw [if_pos hff] at hr
        simp only [List.mem_singleton] at hr
        rw [hr]; exact hok
      · rw [if_neg hff] at hr
        exact h.recs f (by omega) r hr
    · simp only
      rw [fileOf_some (NMap.get?_set_eq _ _ _), fileOf_some (NMap.get?_set_eq _ _ _)]
      simp
    · intro f hf
      simp only at hf ⊢
      rw [NMap.get?_set_ne _ _ (by omega), NMap.get?_set_ne _ _ (by omega)]
      exact h.noFiles f (by omega)
    · simp only
      rw [scanTo_newfile (lg := lg) (r := (b, rl)) m.imax
        (fun f hf => if_neg (by omega)) (by simp), h.table, setAll_snoc]
  · rw [istep_noroll hg hroll]
    refine ⟨fun f => if f = m.ifileNum then lg m.ifileNum ++ [(b, rl)] else lg f, ?_, rfl⟩
    have hlast := h.files m.ifileNum (Nat.le_refl _)
    constructor
    · intro f hf
      simp only at hf ⊢
      by_cases hff : f = m.ifileNum
      · rw [if_pos hff, hff, NMap.get?_set_eq, fileOf_some hlast, logBytes_append]
        simp [logBytes]
      · rw [if_neg hff, NMap.get?_set_ne _ _ hff]
        exact h.files f hf
    · intro f hf r hr
      simp only at hf hr
      by_cases hff : f = m.ifileNum
      · rw [if_pos hff] at hr
        simp only [List.mem_append, List.mem_singleton] at hr
        rcases hr with hr | hr
        · exact h.recs _ (Nat.le_refl _) r hr
        · rw [hr]; exact hok
      · rw [if_neg hff] at hr
        exact h.recs f hf r hr
    · simp only
      rw [fileOf_some (NMap.get?_set_eq _ _ _)]
      simp [h.len]
    · intro f hf
      simp only at hf ⊢
      rw [NMap.get?_set_ne _ _ (by omega)]
      exact h.noFiles f hf
    · simp only
      rw [scanTo_append (lg := lg) (r := (b, rl)) m.imax
        (fun f hf => if_neg (by omega)) (by simp), h.table, setAll_snoc]
      have : (logBytes (lg m.ifileNum)).length = m.ilength := by
        rw [← h.len, fileOf_some hlast]
      rw [this]

theorem ifold_log {bits : Nat} {T0 : NMap Nat} {pool : NMap RecordList}
    (hpool : ∀ b rl, pool.get? b = some rl → RecLogOK bits (b, rl)) :
    ∀ (order : List Nat) (m : Mem) (d : Disk) (blks : List (Nat × Nat)) (lg : Nat → List LRec),
      LogFold bits T0 lg m d blks →
      ∃ lg', LogFold bits T0 lg' (order.foldl (iflushStep pool) (m, d, blks)).1
          (order.foldl (iflushStep pool) (m, d, blks)).2.1
          (order.foldl (iflushStep pool) (m, d, blks)).2.2 ∧
        (order.foldl (iflushStep pool) (m, d, blks)).1.imax = m.imax
  | [], m, d, blks, lg, h => ⟨lg, h, rfl⟩
  | b :: order, m, d, blks, lg, h => by
    rw [List.foldl_cons]
    cases hg : pool.get? b with
    | none =>
      rw [iflushStep_none hg]
      exact ifold_log hpool order m d blks lg h
    | some rl =>
      obtain ⟨lg1, h1, e1⟩ := istep_log hg (hpool b rl hg) h
      obtain ⟨lg2, h2, e2⟩ := ifold_log hpool order _ _ _ lg1 h1
      exact ⟨lg2, h2, by rw [e2, e1]⟩

theorem idxFlush_log {m : Mem} {d : Disk} {order : List Nat} (hI : IInv m d) (hL : LogInv m d)
    (hpool : ∀ b rl, m.inext.get? b = some rl → RecLogOK m.bits (b, rl)) :
    LogInv (idxFlush m d order).1 (idxFlush m d order).2 ∧
      (idxFlush m d order).1.bits = m.bits ∧ (idxFlush m d order).1.imax = m.imax := by
  by_cases hne : m.inext.isEmpty = true
  · rw [idxFlush_empty hne]
    exact ⟨hL, rfl, rfl⟩
  · have hne' : m.inext.isEmpty = false := by simpa using hne
    obtain ⟨lg, hl⟩ := hL
    have h0 : LogFold m.bits (scanTo m.imax lg m.ifileNum) lg { m with icur := m.inext, inext := [] }
        d [] := ⟨hl.files, hl.recs, hI.len, hI.noFiles, rfl⟩
    obtain ⟨lg', h1, e1⟩ := ifold_log (T0 := scanTo m.imax lg m.ifileNum) hpool order _ d [] lg h0
    rw [idxFlush_eq hne']
    -- the fold keeps `bits` and `buckets`
    have hkeep : ∀ (order : List Nat) (acc : Mem × Disk × List (Nat × Nat)),
        (order.foldl (iflushStep m.inext) acc).1.bits = acc.1.bits ∧
        (order.foldl (iflushStep m.inext) acc).1.buckets = acc.1.buckets := by
      intro order
      induction order with
      | nil => intro acc; exact ⟨rfl, rfl⟩
      | cons b order ih =>
        intro acc
        rw [List.foldl_cons]
        obtain ⟨i1, i2⟩ := ih (iflushStep m.inext acc b)
        rw [i1, i2]
        obtain ⟨am, ad, ab⟩ := acc
        cases hg : m.inext.get? b with
        | none => rw [iflushStep_none hg]; exact ⟨rfl, rfl⟩
        | some rl =>
          by_cases hroll : am.ilength ≥ am.imax
          · unfold iflushStep; simp [hg, hroll]
          · unfold iflushStep; simp [hg, hroll]
    obtain ⟨k1, k2⟩ := hkeep order ({ m with icur := m.inext, inext := [] }, d, [])
    refine ⟨⟨lg', ?_, ?_, ?_⟩, k1, e1⟩
    · exact h1.files
    · intro f hf r hr
      have := h1.recs f hf r hr
      show RecLogOK (order.foldl (iflushStep m.inext) _).1.bits r
      rw [k1]; exact this
    · intro b
      show ((setAll _ _).get? b).getD 0 = _
      have e2 : (order.foldl (iflushStep m.inext) ({ m with icur := m.inext, inext := [] }, d, [])).1.imax
          = m.imax := e1
      simp only
      rw [h1.table, k2]
      exact setAll_congr _ _ _ hl.table b

/-! ### all primary files up to the current one exist -/

theorem pstepMh_all {m m' : Mem} {d d' : Disk} {r : PRec} (h : pstepMh (m, d) r = some (m', d'))
    (hall : ∀ f, f ≤ m.pfileNum → d.pfiles.get? f ≠ none) :
    ∀ f, f ≤ m'.pfileNum → d'.pfiles.get? f ≠ none := by
  unfold pstepMh at h
  simp only at h
  split at h
  · cases h
  · by_cases hroll : m.plength ≥ m.pmax
    · simp only [hroll, if_true, Option.some.injEq, Prod.mk.injEq] at h
      obtain ⟨rfl, rfl⟩ := h
      intro f hf
      simp only at hf ⊢
      by_cases hff : f = m.pfileNum + 1
      · rw [hff, NMap.get?_set_eq]; simp
      · rw [NMap.get?_set_ne _ _ hff, NMap.get?_set_ne _ _ hff]
        exact hall f (by omega)
    · simp only [hroll, if_false, Option.some.injEq, Prod.mk.injEq] at h
      obtain ⟨rfl, rfl⟩ := h
      intro f hf
      simp only at hf ⊢
      by_cases hff : f = m.pfileNum
      · rw [hff, NMap.get?_set_eq]; simp
      · rw [NMap.get?_set_ne _ _ hff]
        exact hall f hf

theorem pfold_all : ∀ (recs : List PRec) (m m' : Mem) (d d' : Disk),
    recs.foldlM pstepMh (m, d) = some (m', d') →
    (∀ f, f ≤ m.pfileNum → d.pfiles.get? f ≠ none) →
    ∀ f, f ≤ m'.pfileNum → d'.pfiles.get? f ≠ none
  | [], m, m', d, d', h, hall => by
    simp only [List.foldlM, pure, Option.some.injEq, Prod.mk.injEq] at h
    obtain ⟨rfl, rfl⟩ := h
    exact hall
  | r :: recs, m, m', d, d', h, hall => by
    rw [List.foldlM_cons] at h
    cases hs : pstepMh (m, d) r with
    | none => rw [hs] at h; cases h
    | some md =>
      obtain ⟨m1, d1⟩ := md
      rw [hs] at h
      exact pfold_all recs m1 m' d1 d' h (pstepMh_all hs hall)

theorem priFlush_all {m m' : Mem} {d d' : Disk} (h : priFlush m d = some (m', d'))
    (hall : m.kind = .mh → ∀ f, f ≤ m.pfileNum → d.pfiles.get? f ≠ none) :
    m.kind = .mh → ∀ f, f ≤ m'.pfileNum → d'.pfiles.get? f ≠ none := by
  intro hk
  by_cases hne : m.pnext.isEmpty = true
  · rw [priFlush_empty hne] at h
    simp only [Option.some.injEq, Prod.mk.injEq] at h
    obtain ⟨rfl, rfl⟩ := h
    exact hall hk
  · have hne' : m.pnext.isEmpty = false := by simpa using hne
    rw [priFlush_mh_eq hk hne'] at h
    exact pfold_all _ _ _ _ _ h (hall hk)

end Sth
