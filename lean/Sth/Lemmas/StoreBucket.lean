/-
Bucket / stripped-key lemmas: digests that land in the same bucket share the bytes that
`stripKey` removes, so prefix-freeness survives stripping.
-/
import Sth.Model.Store
import Sth.Lemmas.LexMore

namespace Sth

/-- equality modulo `2^bits` descends to any smaller power of two -/
theorem mod_pow_of_mod_pow {x y bits k : Nat} (hk : k ≤ bits)
    (h : x % 2 ^ bits = y % 2 ^ bits) : x % 2 ^ k = y % 2 ^ k := by
  have hd : 2 ^ k ∣ 2 ^ bits := Nat.pow_dvd_pow 2 hk
  rw [← Nat.mod_mod_of_dvd x hd, ← Nat.mod_mod_of_dvd y hd, h]

theorem bucketOfKey_some {bits : Nat} {a : Bytes} {n : Nat} (h : bucketOfKey bits a = some n) :
    4 ≤ a.length ∧ n = leDec (a.take 4) % 2 ^ bits := by
  unfold bucketOfKey at h
  split at h
  · cases h
  · injection h with h
    exact ⟨by omega, h.symm⟩

/-- two digests in the same bucket agree on the bytes that `stripKey` removes -/
theorem bucket_take_eq (bits : Nat) (h8 : 8 ≤ bits) (h31 : bits ≤ 31) (a b : Bytes)
    (ha : bytesOK a) (hb : bytesOK b) (n : Nat)
    (h1 : bucketOfKey bits a = some n) (h2 : bucketOfKey bits b = some n) :
    a.take (bits / 8) = b.take (bits / 8) := by
  obtain ⟨hla, hna⟩ := bucketOfKey_some h1
  obtain ⟨hlb, hnb⟩ := bucketOfKey_some h2
  have heq : leDec (a.take 4) % 2 ^ bits = leDec (b.take 4) % 2 ^ bits := by
    rw [← hna, ← hnb]
  match a, b, ha, hb, hla, hlb, heq with
  | a0 :: a1 :: a2 :: a3 :: ar, b0 :: b1 :: b2 :: b3 :: br, ha, hb, _, _, heq =>
    have ha0 : a0 < 256 := ha a0 (by simp)
    have ha1 : a1 < 256 := ha a1 (by simp)
    have ha2 : a2 < 256 := ha a2 (by simp)
    have hb0 : b0 < 256 := hb b0 (by simp)
    have hb1 : b1 < 256 := hb b1 (by simp)
    have hb2 : b2 < 256 := hb b2 (by simp)
    simp only [List.take_succ_cons, List.take_zero, leDec] at heq
    obtain ⟨j, hj⟩ : ∃ j, bits / 8 = j := ⟨_, rfl⟩
    rw [hj]
    have hj3 : j = 1 ∨ j = 2 ∨ j = 3 := by omega
    rcases hj3 with rfl | rfl | rfl
    · have h := mod_pow_of_mod_pow (k := 8) (by omega) heq
      have e : (2 : Nat) ^ 8 = 256 := by decide
      rw [e] at h
      have : a0 = b0 := by omega
      simp [this]
    · have h := mod_pow_of_mod_pow (k := 16) (by omega) heq
      have e : (2 : Nat) ^ 16 = 65536 := by decide
      rw [e] at h
      have : a0 = b0 ∧ a1 = b1 := by omega
      simp [this.1, this.2]
    · have h := mod_pow_of_mod_pow (k := 24) (by omega) heq
      have e : (2 : Nat) ^ 24 = 16777216 := by decide
      rw [e] at h
      have : a0 = b0 ∧ a1 = b1 ∧ a2 = b2 := by omega
      simp [this.1, this.2.1, this.2.2]

theorem drop_not_pfx (j : Nat) (a b : Bytes) (ht : a.take j = b.take j) (hn : ¬ pfx a b) :
    ¬ pfx (a.drop j) (b.drop j) := by
  induction j generalizing a b with
  | zero => simpa using hn
  | succ j ih =>
    cases a with
    | nil => exact absurd (by simp [pfx]) hn
    | cons x xs =>
      cases b with
      | nil => simp at ht
      | cons y ys =>
        simp only [List.take_succ_cons, List.cons.injEq] at ht
        simp only [List.drop_succ_cons]
        apply ih xs ys ht.2
        intro hp
        exact hn (by simp [pfx, ht.1, hp])

/-- digests in one bucket that are not prefix-related stay so after stripping -/
theorem strip_apart (bits : Nat) (h8 : 8 ≤ bits) (h31 : bits ≤ 31) (a b : Bytes)
    (ha : bytesOK a) (hb : bytesOK b) (n : Nat)
    (h1 : bucketOfKey bits a = some n) (h2 : bucketOfKey bits b = some n) (hap : apart a b) :
    apart (a.drop (bits / 8)) (b.drop (bits / 8)) := by
  have ht := bucket_take_eq bits h8 h31 a b ha hb n h1 h2
  exact ⟨drop_not_pfx _ a b ht hap.1, drop_not_pfx _ b a ht.symm hap.2⟩

theorem stripKey_of_bucket (bits : Nat) (h31 : bits ≤ 31) (a : Bytes) (n : Nat)
    (h1 : bucketOfKey bits a = some n) :
    stripKey bits a = some (a.drop (bits / 8)) ∧ a.drop (bits / 8) ≠ [] ∧ 4 ≤ a.length := by
  obtain ⟨hla, _⟩ := bucketOfKey_some h1
  have hj : bits / 8 ≤ 3 := by omega
  refine ⟨?_, ?_, hla⟩
  · unfold stripKey
    rw [if_neg (by omega)]
  · intro h
    have := congrArg List.length h
    simp at this
    omega

theorem bucket_lt (bits : Nat) (a : Bytes) (n : Nat) (h1 : bucketOfKey bits a = some n) :
    n < 2 ^ bits := by
  obtain ⟨_, hn⟩ := bucketOfKey_some h1
  rw [hn]
  exact Nat.mod_lt _ (Nat.two_pow_pos bits)

end Sth
