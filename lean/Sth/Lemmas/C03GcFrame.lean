/-
C03 — every call of the store, the two garbage collectors included, keeps the disk well-formed in the
sense the crash analysis needs: an index header exists, no snapshot is lying around, the file tables are
sorted.  No invariant is needed: the calls only ever `set` / `del` entries of the file tables.
Core Lean only.
-/
import Sth.Lemmas.C03Keep
import Sth.Lemmas.C04M3

namespace Sth

/-- well-formed disk, GC histories included -/
structure DiskG (d : Disk) : Prop where
  ihdr : d.ihdr ≠ none
  snap : d.snap = none
  sp : NMap.Sorted d.pfiles
  si : NMap.Sorted d.ifiles

/-- `d'` is as well-formed as `d` -/
def GKeeps (d d' : Disk) : Prop := DiskG d → DiskG d'

theorem GKeeps.refl (d : Disk) : GKeeps d d := fun h => h
theorem GKeeps.trans {a b c : Disk} (h1 : GKeeps a b) (h2 : GKeeps b c) : GKeeps a c :=
  fun h => h2 (h1 h)

theorem NMap.sorted_del {α : Type} {m : NMap α} (k : Nat) (h : NMap.Sorted m) : NMap.Sorted (m.del k) :=
  NMap.sorted_filter _ h

/-- changing the primary files by `set`/`del`, and anything that is not looked at -/
theorem gkeeps_p {d : Disk} {pf : NMap Bytes} {ph : Option PriHeader} {cf fr fg : Option Bytes}
    (h : NMap.Sorted d.pfiles → NMap.Sorted pf) :
    GKeeps d { d with pfiles := pf, phdr := ph, cidfile := cf, free := fr, freeGc := fg } :=
  fun hd => ⟨hd.ihdr, hd.snap, h hd.sp, hd.si⟩

theorem gkeeps_i {d : Disk} {fi : NMap Bytes} {ih : IdxHeader}
    (h : NMap.Sorted d.ifiles → NMap.Sorted fi) :
    GKeeps d { d with ifiles := fi, ihdr := some ih } :=
  fun hd => ⟨by simp, hd.snap, hd.sp, h hd.si⟩

theorem gkeeps_i' {d : Disk} {fi : NMap Bytes} (h : NMap.Sorted d.ifiles → NMap.Sorted fi) :
    GKeeps d { d with ifiles := fi } :=
  fun hd => ⟨hd.ihdr, hd.snap, hd.sp, h hd.si⟩

/-! ### flushes -/

theorem pstepMh_keeps {m m' : Mem} {d d' : Disk} {r : PRec} (h : pstepMh (m, d) r = some (m', d')) :
    GKeeps d d' := by
  unfold pstepMh at h
  simp only at h
  split at h
  · cases h
  · by_cases hroll : m.plength ≥ m.pmax
    · simp only [hroll, if_true, Option.some.injEq, Prod.mk.injEq] at h
      obtain ⟨_, rfl⟩ := h
      exact gkeeps_p (d := d) (ph := d.phdr) (cf := d.cidfile) (fr := d.free) (fg := d.freeGc)
        (fun hs => NMap.sorted_set _ _ (NMap.sorted_set _ _ hs))
    · simp only [hroll, if_false, Option.some.injEq, Prod.mk.injEq] at h
      obtain ⟨_, rfl⟩ := h
      exact gkeeps_p (d := d) (ph := d.phdr) (cf := d.cidfile) (fr := d.free) (fg := d.freeGc)
        (fun hs => NMap.sorted_set _ _ hs)

theorem pfold_keeps : ∀ (recs : List PRec) (m m' : Mem) (d d' : Disk),
    recs.foldlM pstepMh (m, d) = some (m', d') → GKeeps d d'
  | [], m, m', d, d', h => by
    simp only [List.foldlM, pure, Option.some.injEq, Prod.mk.injEq] at h
    obtain ⟨_, rfl⟩ := h
    exact GKeeps.refl d
  | r :: recs, m, m', d, d', h => by
    rw [List.foldlM_cons] at h
    cases hs : pstepMh (m, d) r with
    | none => rw [hs] at h; cases h
    | some md =>
      obtain ⟨m1, d1⟩ := md
      rw [hs] at h
      exact (pstepMh_keeps hs).trans (pfold_keeps recs m1 m' d1 d' h)

theorem priFlush_keeps {m m' : Mem} {d d' : Disk} (h : priFlush m d = some (m', d')) :
    GKeeps d d' ∧ m'.inext = m.inext ∧ m'.pnext = [] := by
  by_cases hne : m.pnext.isEmpty = true
  · rw [priFlush_empty hne] at h
    simp only [Option.some.injEq, Prod.mk.injEq] at h
    obtain ⟨rfl, rfl⟩ := h
    exact ⟨GKeeps.refl d, rfl, List.isEmpty_iff.mp hne⟩
  · have hne' : m.pnext.isEmpty = false := by simpa using hne
    rcases kind_cases m with hk | hk
    · rw [priFlush_mh_eq hk hne'] at h
      refine ⟨pfold_keeps _ _ _ _ _ h, ?_⟩
      -- the fold only changes the file number and length
      have hkeep : ∀ (recs : List PRec) (m m' : Mem) (d d' : Disk),
          recs.foldlM pstepMh (m, d) = some (m', d') → m'.inext = m.inext ∧ m'.pnext = m.pnext := by
        intro recs
        induction recs with
        | nil =>
          intro m m' d d' h
          simp only [List.foldlM, pure, Option.some.injEq, Prod.mk.injEq] at h
          obtain ⟨rfl, _⟩ := h
          exact ⟨rfl, rfl⟩
        | cons r recs ih =>
          intro m m' d d' h
          rw [List.foldlM_cons] at h
          cases hs : pstepMh (m, d) r with
          | none => rw [hs] at h; cases h
          | some md =>
            obtain ⟨m1, d1⟩ := md
            rw [hs] at h
            obtain ⟨i1, i2⟩ := ih m1 m' d1 d' h
            have : m1.inext = m.inext ∧ m1.pnext = m.pnext := by
              unfold pstepMh at hs
              simp only at hs
              split at hs
              · cases hs
              · simp only [Option.some.injEq, Prod.mk.injEq] at hs
                obtain ⟨rfl, _⟩ := hs
                exact ⟨rfl, rfl⟩
            exact ⟨i1.trans this.1, i2.trans this.2⟩
      exact hkeep _ _ _ _ _ h
    · rw [priFlush_cid_eq hk hne'] at h
      simp only [Option.some.injEq, Prod.mk.injEq] at h
      obtain ⟨rfl, rfl⟩ := h
      exact ⟨gkeeps_p (d := d) (ph := d.phdr) (fr := d.free) (fg := d.freeGc) (fun hs => hs), rfl, rfl⟩

theorem ifold_keeps {pool : NMap RecordList} : ∀ (order : List Nat) (acc : Mem × Disk × List (Nat × Nat)),
    GKeeps acc.2.1 (order.foldl (iflushStep pool) acc).2.1
  | [], acc => GKeeps.refl _
  | b :: order, acc => by
    rw [List.foldl_cons]
    refine GKeeps.trans ?_ (ifold_keeps order _)
    obtain ⟨m, d, blks⟩ := acc
    unfold iflushStep
    simp only
    split
    · exact GKeeps.refl d
    · split
      · split
        · exact gkeeps_i' (fun hs => NMap.sorted_set _ _ hs)
        · exact gkeeps_i' (fun hs => NMap.sorted_set _ _ (NMap.sorted_set _ _ hs))
      · exact gkeeps_i' (fun hs => NMap.sorted_set _ _ hs)

theorem idxFlush_keeps (m : Mem) (d : Disk) (order : List Nat) : GKeeps d (idxFlush m d order).2 := by
  by_cases hne : m.inext.isEmpty = true
  · rw [idxFlush_empty hne]; exact GKeeps.refl d
  · have hne' : m.inext.isEmpty = false := by simpa using hne
    rw [idxFlush_eq hne']
    exact ifold_keeps (pool := m.inext) order ({ m with icur := m.inext, inext := [] }, d, [])

theorem flFlush_keeps (m : Mem) (d : Disk) : GKeeps d (flFlush m d).2 := by
  obtain ⟨fl, fr, _, e⟩ := flFlush_ext m d
  rw [e]
  exact gkeeps_p (d := d) (ph := d.phdr) (cf := d.cidfile) (fg := d.freeGc) (fun hs => hs)

theorem storeFlush_keeps {m m' : Mem} {d d' : Disk} {order : List Nat}
    (h : storeFlush m d order = some (m', d')) : GKeeps d d' := by
  unfold storeFlush at h
  split at h
  · unfold commit at h
    cases hp : priFlush m d with
    | none => rw [hp] at h; cases h
    | some md =>
      obtain ⟨m1, d1⟩ := md
      rw [hp] at h
      simp only [Option.some.injEq] at h
      have e : d' = (flFlush (idxFlush m1 d1 order).1 (idxFlush m1 d1 order).2).2 := by
        rw [h]
      rw [e]
      exact (priFlush_keeps hp).1.trans ((idxFlush_keeps m1 d1 order).trans (flFlush_keeps _ _))
  · simp only [Option.some.injEq, Prod.mk.injEq] at h
    obtain ⟨_, rfl⟩ := h
    exact GKeeps.refl d

/-! ### Close + reopen -/

theorem openIndex_ihdr {c : Cfg} {p : Nat} {d d2 : Disk} {a b e : Nat} {bk : NMap Nat}
    (h : openIndex c p d = .ok (d2, a, b, bk, e)) : d2.ihdr ≠ none := by
  obtain ⟨ihdr, ifiles, snap, phdr, pfiles, cidfile, free, freeGc⟩ := d
  unfold openIndex at h
  by_cases h1 : c.bits ≠ 0 ∧ (c.bits > 31 ∨ c.bits < 8)
  · rw [if_pos h1] at h; cases h
  rw [if_neg h1] at h
  by_cases h2 : c.ifs > defaultMax
  · rw [if_pos h2] at h; cases h
  rw [if_neg h2] at h
  cases ihdr with
  | none =>
    simp only [Except.ok.injEq, Prod.mk.injEq] at h
    obtain ⟨rfl, _⟩ := h
    split <;> simp
  | some hdr =>
    simp only at h
    by_cases h3 : hdr.bits ≠ (if c.bits = 0 then hdr.bits else c.bits)
    · rw [if_pos h3] at h; cases h
    rw [if_neg h3] at h
    by_cases h4 : hdr.max ≠ (if c.ifs = 0 then hdr.max else c.ifs)
    · rw [if_pos h4] at h; cases h
    rw [if_neg h4] at h
    split at h
    · cases h
    · rename_i dl bkl lastl hload
      by_cases h5 : c.kind = .mh ∧ hdr.pfs ≠ p
      · rw [if_pos h5] at h; cases h
      rw [if_neg h5] at h
      simp only [Except.ok.injEq, Prod.mk.injEq] at h
      obtain ⟨rfl, _⟩ := h
      have hdl : dl.ihdr ≠ none := by
        apply ite_some_frame (P := fun (t : Disk × NMap Nat × Nat) => t.1.ihdr ≠ none) _ _ _ hload
        · intro t ht
          cases ht
          simp
        · intro t ht
          split at ht
          · cases ht
          · cases ht
            simp
      split
      · exact hdl
      · exact hdl

theorem openStore_gkeeps {c : Cfg} {d d' : Disk} {m' : Mem} (h : openStore c d = (d', .ok m'))
    (hih : d.ihdr ≠ none) (hsp : NMap.Sorted d.pfiles) (hsi : NMap.Sorted d.ifiles) : DiskG d' := by
  obtain ⟨hw, _, _⟩ := openStore_keeps h hih hsp hsi
  refine ⟨?_, hw.snap, hw.sp, hw.si⟩
  unfold openStore at h
  simp only at h
  split at h
  · simp only [Prod.mk.injEq] at h
    obtain ⟨_, h⟩ := h
    cases h
  · split at h
    · simp only [Prod.mk.injEq] at h
      obtain ⟨_, h⟩ := h
      cases h
    · rename_i d2 bits imax bk last hi
      simp only [Prod.mk.injEq, Except.ok.injEq] at h
      obtain ⟨rfl, _⟩ := h
      exact openIndex_ihdr hi

theorem storeClose_keeps {m : Mem} {d : Disk} {order : List Nat} {st : Store}
    (h : storeClose { disk := d, mem := some m } order = some st) (hd : DiskG d) :
    st.disk.ihdr ≠ none ∧ NMap.Sorted st.disk.pfiles ∧ NMap.Sorted st.disk.ifiles := by
  unfold storeClose at h
  simp only at h
  cases hp : priFlush m d with
  | none => rw [hp] at h; cases h
  | some md =>
    obtain ⟨m1, d1⟩ := md
    rw [hp] at h
    simp only [Option.some.injEq] at h
    subst h
    have h2 := (idxFlush_keeps m1 d1 order) ((priFlush_keeps hp).1 hd)
    obtain ⟨fl, fr, _, e⟩ := flFlush_ext (idxFlush m1 d1 order).1
      ({ (idxFlush m1 d1 order).2 with
          snap := some ⟨8 * 2 ^ (idxFlush m1 d1 order).1.bits,
            (idxFlush m1 d1 order).1.buckets.filter (·.2 ≠ 0)⟩ } : Disk)
    simp only [e]
    exact ⟨h2.ihdr, h2.sp, h2.si⟩

/-! ### index GC -/

theorem tff_go_keeps (last : Nat) (busySet : List Nat) :
    ∀ (fuel n : Nat) (h : IdxHeader) (d : Disk) (budget : Budget),
      GKeeps d (truncateFreeFiles.go last busySet fuel n h d budget).2.1
  | 0, _, _, d, _ => by rw [truncateFreeFiles.go]; exact GKeeps.refl d
  | fuel + 1, n, h, d, budget => by
    rw [truncateFreeFiles.go]
    by_cases hnl : n = last
    · rw [if_pos hnl]; exact GKeeps.refl d
    · rw [if_neg hnl]
      by_cases hbz : busySet.contains n = true
      · rw [if_pos hbz]; exact tff_go_keeps last busySet fuel _ _ _ _
      · rw [if_neg hbz]
        cases hpl : poll budget with
        | mk expired bud =>
        simp only
        by_cases hexp : expired = true
        · rw [if_pos hexp]; exact GKeeps.refl d
        · rw [if_neg hexp]
          cases hg : d.ifiles.get? n with
          | none => simp only; exact tff_go_keeps last busySet fuel _ _ _ _
          | some file =>
            simp only
            by_cases hfn : h.first = n
            · rw [if_pos hfn]
              exact (gkeeps_i (d := d) (fun hs => NMap.sorted_del n hs)).trans
                (tff_go_keeps last busySet fuel _ _ _ _)
            · rw [if_neg hfn]
              by_cases hem : file.isEmpty = true
              · rw [if_pos hem]; exact tff_go_keeps last busySet fuel _ _ _ _
              · rw [if_neg hem]
                exact (gkeeps_i' (d := d) (fun hs => NMap.sorted_set n [] hs)).trans
                  (tff_go_keeps last busySet fuel _ _ _ _)

theorem truncateFreeFiles_keeps (m : Mem) (d : Disk) (budget : Budget) :
    GKeeps d (truncateFreeFiles m d budget).2.1 := by
  unfold truncateFreeFiles
  cases hd : d.ihdr with
  | none => exact GKeeps.refl d
  | some h =>
    simp only
    split
    · exact GKeeps.refl d
    · exact tff_go_keeps _ _ _ _ _ _ _

theorem igc_go_keeps (last start : Nat) :
    ∀ (fuel n : Nat) (seenFirst : Bool) (h : IdxHeader) (m : Mem) (d : Disk) (budget : Budget),
      GKeeps d (indexGC.go last start fuel n seenFirst h m d budget).2.2.1
  | 0, _, _, _, _, d, _ => by rw [indexGC.go]; exact GKeeps.refl d
  | fuel + 1, n, seenFirst, h, m, d, budget => by
    rw [indexGC.go]
    by_cases hnl : n = last
    · rw [if_pos hnl]; exact GKeeps.refl d
    · rw [if_neg hnl]
      cases hg : d.ifiles.get? n with
      | none => exact GKeeps.refl d
      | some file =>
        simp only
        cases hres : reapIndexRecords m n file budget with
        | mk r rest =>
        obtain ⟨file', bud⟩ := rest
        simp only
        have h1 : GKeeps d ({ d with ifiles := d.ifiles.set n file' } : Disk) :=
          gkeeps_i' (fun hs => NMap.sorted_set n file' hs)
        have hcont : ∀ (h2 : IdxHeader) (d2 : Disk) (sf : Bool), GKeeps d d2 →
            GKeeps d (if n + 1 = last then
                if sf = true then (GcOut.ok, m, d2, bud)
                else if h2.first = start then (GcOut.ok, m, d2, bud)
                else indexGC.go last start fuel h2.first sf h2 m d2 bud
              else if n + 1 = start then (GcOut.ok, m, d2, bud)
              else indexGC.go last start fuel (n + 1) sf h2 m d2 bud).2.2.1 := by
          intro h2 d2 sf hk
          repeat' split
          all_goals first
            | exact hk
            | exact hk.trans (igc_go_keeps last start fuel _ _ _ _ _ _)
        cases r with
        | deadline => exact h1
        | err => exact h1
        | kept =>
          simp only [reduceCtorEq, false_and, if_false]
          exact hcont h _ seenFirst h1
        | stale =>
          simp only [true_and]
          by_cases hfn : h.first = n
          · simp only [hfn, if_true]
            exact hcont _ _ true (h1.trans (gkeeps_i (fun hs => NMap.sorted_del n hs)))
          · simp only [hfn, if_false]
            exact hcont h _ seenFirst h1

theorem indexGC_keeps (m : Mem) (d : Disk) (scanFree : Bool) (budget : Budget) :
    GKeeps d (indexGC m d scanFree budget).2.2.1 := by
  unfold indexGC
  have h1 : GKeeps d (if scanFree = true then truncateFreeFiles m d budget
      else (GcOut.ok, d, budget)).2.1 := by
    split
    · exact truncateFreeFiles_keeps m d budget
    · exact GKeeps.refl d
  cases hr : (if scanFree = true then truncateFreeFiles m d budget else (GcOut.ok, d, budget)) with
  | mk r0 rest =>
  obtain ⟨d1, bud⟩ := rest
  rw [hr] at h1
  simp only at h1 ⊢
  split
  · exact h1
  · cases hd : d1.ihdr with
    | none => exact h1
    | some h =>
      simp only
      split
      · exact h1
      · exact h1.trans (igc_go_keeps _ _ _ _ _ _ _ _ _)

/-! ### primary GC -/

theorem delStep_sorted (pmax : Nat) (acc : NMap Bytes × List Nat) (fr : Block)
    (h : NMap.Sorted acc.1) : NMap.Sorted (delStep pmax acc fr).1 := by
  obtain ⟨files, aff⟩ := acc
  unfold delStep
  simp only
  split
  · exact h
  · split
    · exact h
    · split
      · exact h
      · split
        · exact h
        · split
          · exact h
          · exact NMap.sorted_set _ _ h

theorem deleteRecords_sorted (pmax : Nat) (files : NMap Bytes) (batch : List Block)
    (h : NMap.Sorted files) : NMap.Sorted (deleteRecords pmax files batch).1 := by
  rw [deleteRecords_eq]
  generalize sortByOff batch = l
  have : ∀ (l : List Block) (acc : NMap Bytes × List Nat), NMap.Sorted acc.1 →
      NMap.Sorted (l.foldl (delStep pmax) acc).1 := by
    intro l
    induction l with
    | nil => intro acc h; exact h
    | cons x l ih =>
      intro acc h
      rw [List.foldl_cons]
      exact ih _ (delStep_sorted pmax acc x h)
  exact this l (files, []) h

theorem toGC_keeps (m : Mem) (d : Disk) :
    GKeeps d (toGC m d).2 ∧ (toGC m d).1.inext = m.inext ∧ (toGC m d).1.pnext = m.pnext ∧
      (toGC m d).1.kind = m.kind := by
  unfold toGC
  cases d.freeGc with
  | some g => exact ⟨GKeeps.refl d, rfl, rfl, rfl⟩
  | none =>
    simp only
    obtain ⟨fl, fr, _, e⟩ := flFlush_ext m d
    rw [e]
    exact ⟨gkeeps_p (d := d) (ph := d.phdr) (cf := d.cidfile) (fun hs => hs), rfl, rfl, rfl⟩

/-- one hand-over pass: the disk stays well-formed; unless the primary flush failed, the index pool is
    untouched and the primary pool is empty afterwards -/
theorem freelistPass_keeps (m : Mem) (d : Disk) (budget : Budget) :
    GKeeps d (freelistPass m d budget).2.2.1 ∧
      ((freelistPass m d budget).1 ≠ .flushErr →
        (freelistPass m d budget).2.1.inext = m.inext ∧ (freelistPass m d budget).2.1.pnext = []) := by
  obtain ⟨t1, t2, _, _⟩ := toGC_keeps m d
  unfold freelistPass
  cases htg : toGC m d with
  | mk m0 d0 =>
  rw [htg] at t1 t2
  simp only at t1 t2 ⊢
  cases hp : priFlush m0 d0 with
  | none => exact ⟨t1, fun h => absurd rfl h⟩
  | some md =>
    obtain ⟨m1, d1⟩ := md
    simp only
    obtain ⟨p1, p2, p3⟩ := priFlush_keeps hp
    have hk1 : GKeeps d d1 := t1.trans p1
    have hmem : m1.inext = m.inext ∧ m1.pnext = [] := ⟨p2.trans t2, p3⟩
    cases hpar : parseFreeList ((d1.freeGc.getD []).length + 1) (d1.freeGc.getD []) [] with
    | mk entries complete =>
    simp only
    have hk2 : GKeeps d ({ d1 with pfiles := (if entries.isEmpty = true then (d1.pfiles, ([] : List Nat))
        else deleteRecords m1.pmax d1.pfiles entries).1 } : Disk) := by
      refine hk1.trans (gkeeps_p (d := d1) (ph := d1.phdr) (cf := d1.cidfile) (fr := d1.free)
        (fg := d1.freeGc) ?_)
      intro hs
      split
      · exact hs
      · exact deleteRecords_sorted _ _ _ hs
    have hk3 : GKeeps d ({ ({ d1 with pfiles := (if entries.isEmpty = true then
        (d1.pfiles, ([] : List Nat)) else deleteRecords m1.pmax d1.pfiles entries).1 } : Disk) with
        freeGc := none } : Disk) :=
      hk2.trans (gkeeps_p (ph := d1.phdr) (cf := d1.cidfile) (fr := d1.free) (fun hs => hs))
    generalize (if List.isEmpty (d1.freeGc.getD []) = true then (false, budget)
      else freelistPass.pollN entries.length budget) = pr1
    obtain ⟨e1, b1⟩ := pr1
    generalize (if List.isEmpty (d1.freeGc.getD []) = true then (false, (e1, b1).snd)
      else poll (e1, b1).snd) = pr2
    obtain ⟨e2, b2⟩ := pr2
    generalize hdr : (if entries.isEmpty = true then (d1.pfiles, ([] : List Nat))
          else deleteRecords m1.pmax d1.pfiles entries) = dr at hk2 hk3 ⊢
    obtain ⟨files, affected⟩ := dr
    cases e1
    · cases e2
      · simp only [Bool.false_eq_true, if_false]
        split
        · exact ⟨hk2, fun _ => hmem⟩
        · exact ⟨hk3, fun _ => hmem⟩
      · simp only [Bool.false_eq_true, if_false, if_true]
        exact ⟨hk2, fun _ => hmem⟩
    · simp only [if_true]
      exact ⟨hk1, fun _ => hmem⟩

/-- the fields of the memory state the primary GC loop looks at -/
def SameP (m m' : Mem) : Prop :=
  m'.pfileNum = m.pfileNum ∧ m'.pmax = m.pmax ∧ m'.kind = m.kind

theorem SameP.refl (m : Mem) : SameP m m := ⟨rfl, rfl, rfl⟩
theorem SameP.trans {a b c : Mem} (h1 : SameP a b) (h2 : SameP b c) : SameP a c :=
  ⟨h2.1.trans h1.1, h2.2.1.trans h1.2.1, h2.2.2.trans h1.2.2⟩

theorem idxRelocate_sameP {m m' : Mem} {d : Disk} {ik : Bytes} {old loc : Block}
    (h : idxRelocate m d ik old loc = .ok m') : SameP m m' := by
  unfold idxRelocate at h
  split at h
  · cases h
  · split at h
    · cases h
    · cases h
    · split at h
      · cases h
      · split at h
        · simp only [Except.ok.injEq] at h
          subst h
          exact ⟨rfl, rfl, rfl⟩
        · cases h

theorem relocate_sameP {m m' : Mem} {d : Disk} {fnum at_ bs : Nat} {file : Bytes}
    (h : relocate m d fnum file at_ bs = some m') : SameP m m' := by
  unfold relocate at h
  split at h
  · cases h
  · split at h
    · cases h
    · split at h
      · cases h
      · split at h
        · cases h
        · rename_i key val _ ik _ _
          rw [priPut_eq] at h
          simp only [Option.some.injEq] at h
          subst h
          have h0 : SameP m (putMem m key val) :=
            ⟨putMem_pfileNum _ _ _, putMem_pmax _ _ _, putMem_kind _ _ _⟩
          split
          · rename_i m3 hre
            have := idxRelocate_sameP hre
            exact ⟨this.1.trans h0.1, this.2.1.trans h0.2.1, this.2.2.trans h0.2.2⟩
          · exact h0

theorem reapRecords_keeps (m : Mem) (d : Disk) (fnum lowUse : Nat) :
    GKeeps d (reapRecords m d fnum lowUse).2.2.1 := by
  unfold reapRecords
  cases d.pfiles.get? fnum with
  | none => exact GKeeps.refl d
  | some file =>
    simp only
    have hw : ∀ f : Bytes, GKeeps d ({ d with pfiles := d.pfiles.set fnum f } : Disk) := fun f =>
      gkeeps_p (d := d) (ph := d.phdr) (cf := d.cidfile) (fr := d.free) (fg := d.freeGc)
        (fun hs => NMap.sorted_set _ _ hs)
    repeat' split
    all_goals first
      | exact GKeeps.refl d
      | exact hw _

theorem pgc_go_keeps (lowUse : Nat) :
    ∀ (fuel nn : Nat) (h : PriHeader) (m : Mem) (d : Disk) (budget : Budget) (recl : Nat),
      GKeeps d (primaryGC.go lowUse fuel nn h m d budget recl).2.2.1 := by
  intro fuel
  induction fuel with
  | zero => intro nn h m d budget recl; exact GKeeps.refl d
  | succ fuel ih =>
    intro nn h m d budget recl
    unfold primaryGC.go
    by_cases he : nn = m.pfileNum
    · rw [if_pos he]; exact GKeeps.refl d
    rw [if_neg he]
    by_cases hv : m.visited.contains nn = true
    · rw [if_pos hv]; exact ih _ _ _ _ _ _
    rw [if_neg hv]
    have h1 := reapRecords_keeps m d nn lowUse
    cases hr : reapRecords m d nn lowUse with
    | mk r rest =>
    obtain ⟨m1, d1, got⟩ := rest
    rw [hr] at h1
    simp only at h1 ⊢
    have hcont : ∀ (h2 : PriHeader) (d2 : Disk), GKeeps d d2 →
        GKeeps d (if (poll budget).1 = true then
              ((⟨.deadline, 0⟩ : PgcRes), ({ m1 with visited := m1.visited ++ [nn] } : Mem), d2,
                (poll budget).2)
            else primaryGC.go lowUse fuel (nn + 1) h2
              { m1 with visited := m1.visited ++ [nn] } d2 (poll budget).2 (recl + got)).2.2.1 := by
      intro h2 d2 hk
      by_cases hp : (poll budget).1 = true
      · rw [if_pos hp]; exact hk
      · rw [if_neg hp]; exact hk.trans (ih _ _ _ _ _ _)
    cases r with
    | err => exact h1
    | kept =>
      simp only [reduceCtorEq, false_and, if_false]
      exact hcont _ _ h1
    | dead =>
      simp only [true_and]
      by_cases hd : nn = h.first
      · subst hd
        simp only [if_true]
        refine hcont _ _ ?_
        exact h1.trans (gkeeps_p (d := d1) (cf := d1.cidfile) (fr := d1.free)
          (fg := d1.freeGc) (fun hs => NMap.sorted_del _ hs))
      · simp only [hd, if_false]
        exact hcont _ _ h1

theorem primaryGC_keeps {m : Mem} {d : Disk} {lowUse : Nat} {budget : Budget}
    {res : PgcRes × Mem × Disk × Budget} (hres : primaryGC m d lowUse budget = some res) :
    GKeeps d res.2.2.1 := by
  unfold primaryGC at hres
  have hk1 := (freelistPass_keeps m d budget).1
  cases hf1 : freelistPass m d budget with
  | mk r1 rest =>
  obtain ⟨m1, d1, b1, aff1⟩ := rest
  rw [hf1] at hres hk1
  simp only at hres hk1
  cases r1 with
  | flushErr => cases hres
  | deadline => simp only [Option.some.injEq] at hres; subst hres; exact hk1
  | err => simp only [Option.some.injEq] at hres; subst hres; exact hk1
  | ok =>
  have hk2 := (freelistPass_keeps m1 d1 b1).1
  cases hf2 : freelistPass m1 d1 b1 with
  | mk r2 rest =>
  obtain ⟨m2, d2, b2, aff2⟩ := rest
  rw [hf2] at hres hk2
  simp only at hres hk2
  cases r2 with
  | flushErr => cases hres
  | deadline => simp only [Option.some.injEq] at hres; subst hres; exact hk1.trans hk2
  | err => simp only [Option.some.injEq] at hres; subst hres; exact hk1.trans hk2
  | ok =>
  cases hph : d2.phdr with
  | none =>
    rw [hph] at hres
    simp only [Option.some.injEq] at hres; subst hres; exact hk1.trans hk2
  | some h =>
    rw [hph] at hres
    simp only [Option.some.injEq] at hres; subst hres
    exact (hk1.trans hk2).trans (pgc_go_keeps _ _ _ _ _ _ _ _)

/-! ### every call -/

theorem stepS_keeps (s : SState) (op : SOp) : GKeeps s.d (stepS s op).1.d := by
  intro hd
  cases op with
  | put k v => simp only [stepS]; split <;> exact hd
  | get k => simp only [stepS]; split <;> exact hd
  | has k => simp only [stepS]; split <;> exact hd
  | size k => simp only [stepS]; split <;> exact hd
  | rm k => simp only [stepS]; split <;> exact hd
  | flush o =>
    simp only [stepS]
    split
    · rename_i m d hf; exact storeFlush_keeps hf hd
    · exact hd
  | iter o =>
    simp only [stepS]
    split
    · exact hd
    · rename_i m d hf
      split <;> exact storeFlush_keeps hf hd
  | igc sf b =>
    simp only [stepS]
    exact indexGC_keeps s.m s.d sf b hd
  | pgc lu b =>
    simp only [stepS]
    repeat' split
    all_goals first
      | exact hd
      | exact primaryGC_keeps (by assumption) hd
  | reopen o u =>
    simp only [stepS]
    split
    · exact hd
    · rename_i st hcl
      obtain ⟨c1, c2, c3⟩ := storeClose_keeps hcl hd
      split
      · rename_i d' m' ho
        apply openStore_gkeeps ho
        · split <;> exact c1
        · split <;> exact c2
        · split <;> exact c3
      · exact hd

theorem runS_keeps : ∀ (ops : List SOp) (s : SState), GKeeps s.d (runS s ops).1.d
  | [], s => GKeeps.refl _
  | op :: ops, s => by
    rw [runS_cons_fst]
    exact (stepS_keeps s op).trans (runS_keeps ops _)

theorem diskG_init (c : Cfg) (hc : c.Legal) (s : SState) (hi : initS c = some s) : DiskG s.d := by
  rcases (by cases c.kind <;> simp : c.kind = .mh ∨ c.kind = .cid) with hk | hk
  · rw [initS_mh c hc hk] at hi
    cases hi
    exact ⟨by simp, rfl, sorted_single _, sorted_single _⟩
  · rw [initS_cid c hc hk] at hi
    cases hi
    exact ⟨by simp, rfl, NMap.sorted_nil, sorted_single _⟩

end Sth
