/-
Parsing lemmas for varints, multihashes and CIDs: prefix extension (a successful parse of `k` is
unchanged when bytes are appended), exactness for keys accepted by `indexKeyOf`, and the digest being
a sublist of the key.
-/
import Sth.Model.Multihash

namespace Sth

/-! ### uvarint -/

theorem uvarintAux_append (fuel : Nat) (s : Bytes) :
    ∀ (bs : Bytes) (acc shift n x n' : Nat),
      uvarintAux fuel bs acc shift n = some (x, n') →
      uvarintAux fuel (bs ++ s) acc shift n = some (x, n') ∧ n' ≤ n + bs.length ∧ n < n' := by
  induction fuel with
  | zero => intro bs acc shift n x n' h; simp [uvarintAux] at h
  | succ fuel ih =>
    intro bs acc shift n x n' h
    cases bs with
    | nil => simp [uvarintAux] at h
    | cons b bs =>
      simp only [uvarintAux, List.cons_append] at h ⊢
      by_cases hb : b < 128
      · simp only [hb, if_true] at h ⊢
        by_cases hz : b = 0 ∧ n > 0
        · simp [hz] at h
        · simp only [hz, if_false] at h ⊢
          simp only [Option.some.injEq, Prod.mk.injEq] at h
          refine ⟨by simp [h.1, h.2], ?_, ?_⟩ <;> (try simp only [List.length_cons]) <;> omega
      · simp only [hb, if_false] at h ⊢
        have := ih bs _ _ _ _ _ h
        refine ⟨this.1, ?_, ?_⟩ <;> (try simp only [List.length_cons]) <;> omega

theorem uvarint_append (k s : Bytes) (x n : Nat) (h : uvarint k = some (x, n)) :
    uvarint (k ++ s) = some (x, n) ∧ n ≤ k.length ∧ 0 < n := by
  have := uvarintAux_append 9 s k 0 0 0 x n h
  simpa [uvarint] using this

theorem uvarint_le (k : Bytes) (x n : Nat) (h : uvarint k = some (x, n)) : n ≤ k.length :=
  (uvarint_append k [] x n h).2.1

/-- a first byte below 128 is the whole varint -/
theorem uvarint_small (b : Nat) (t : Bytes) (hb : b < 128) : uvarint (b :: t) = some (b, 1) := by
  simp [uvarint, uvarintAux, hb]

/-! ### mhRead -/

theorem mhRead_append (k s k' dig : Bytes) (n : Nat) (h : mhRead k = some (k', dig, n)) :
    mhRead (k ++ s) = some (k', dig, n) ∧ n ≤ k.length ∧ k' = k.take n ∧ dig.Sublist k := by
  unfold mhRead at h ⊢
  cases h1 : uvarint k with
  | none => simp [h1] at h
  | some p1 =>
    obtain ⟨c, n1⟩ := p1
    simp only [h1] at h
    obtain ⟨e1, l1, _⟩ := uvarint_append k s c n1 h1
    cases h2 : uvarint (k.drop n1) with
    | none => simp [h2] at h
    | some p2 =>
      obtain ⟨len, n2⟩ := p2
      simp only [h2] at h
      obtain ⟨e2, l2, _⟩ := uvarint_append (k.drop n1) s len n2 h2
      simp only [List.length_drop] at l2
      have d1 : (k ++ s).drop n1 = k.drop n1 ++ s := List.drop_append_of_le_length l1
      have l12 : n1 + n2 ≤ k.length := by omega
      have d2 : (k ++ s).drop (n1 + n2) = k.drop (n1 + n2) ++ s := List.drop_append_of_le_length l12
      simp only [e1, d1, e2, d2]
      by_cases hl : len ≤ (k.drop (n1 + n2)).length
      · simp only [hl, if_true, Option.some.injEq, Prod.mk.injEq] at h
        obtain ⟨hk', hdig, hn⟩ := h
        have hl' : len ≤ (k.drop (n1 + n2) ++ s).length := by
          simp only [List.length_append]; omega
        have ltot : n1 + n2 + len ≤ k.length := by
          simp only [List.length_drop] at hl; omega
        simp only [hl', if_true]
        refine ⟨?_, by omega, ?_, ?_⟩
        · rw [List.take_append_of_le_length ltot, List.take_append_of_le_length hl, hk', hdig, hn]
        · rw [← hk', hn]
        · rw [← hdig]
          exact (List.take_sublist _ _).trans (List.drop_sublist _ _)
      · rw [if_neg hl] at h; cases h

/-! ### cidRead -/

/-- the CIDv1 branch of `cidRead` -/
def cidReadV1 (data : Bytes) : Option (Bytes × Bytes × Nat) :=
  match uvarint data with
  | none => none
  | some (vers, n1) =>
    if vers ≠ 1 then none else
    match uvarint (data.drop n1) with
    | none => none
    | some (_, n2) =>
      match mhRead (data.drop (n1 + n2)) with
      | none => none
      | some (_, dig, n3) => some (data.take (n1 + n2 + n3), dig, n1 + n2 + n3)

theorem cidRead_v0 (rest : Bytes) :
    cidRead (18 :: 32 :: rest) =
      if rest.length ≥ 32 then some ((18 :: 32 :: rest).take 34, rest.take 32, 34) else none := by
  simp only [cidRead, List.length_cons]
  by_cases h0 : rest.length = 0
  · simp [h0]
  · have : rest.length + 1 + 1 > 2 := by omega
    simp only [this, if_true]

theorem cidRead_v1 (data : Bytes) (h : ∀ rest, data ≠ 18 :: 32 :: rest) :
    cidRead data = cidReadV1 data := by
  unfold cidRead cidReadV1
  split
  · exact absurd rfl (h _)
  · rfl

theorem cidReadV1_append (k s k' dig : Bytes) (n : Nat) (h : cidReadV1 k = some (k', dig, n)) :
    cidReadV1 (k ++ s) = some (k', dig, n) ∧ n ≤ k.length ∧ k' = k.take n ∧ dig.Sublist k ∧
      (∀ t, k ≠ 18 :: t) := by
  unfold cidReadV1 at h ⊢
  cases h1 : uvarint k with
  | none => simp [h1] at h
  | some p1 =>
    obtain ⟨vers, n1⟩ := p1
    simp only [h1] at h
    obtain ⟨e1, l1, _⟩ := uvarint_append k s vers n1 h1
    by_cases hv : vers ≠ 1
    · simp [hv] at h
    · simp only [hv, if_false] at h
      cases h2 : uvarint (k.drop n1) with
      | none => simp [h2] at h
      | some p2 =>
        obtain ⟨c, n2⟩ := p2
        simp only [h2] at h
        obtain ⟨e2, l2, _⟩ := uvarint_append (k.drop n1) s c n2 h2
        simp only [List.length_drop] at l2
        have d1 : (k ++ s).drop n1 = k.drop n1 ++ s := List.drop_append_of_le_length l1
        have l12 : n1 + n2 ≤ k.length := by omega
        have d2 : (k ++ s).drop (n1 + n2) = k.drop (n1 + n2) ++ s :=
          List.drop_append_of_le_length l12
        cases h3 : mhRead (k.drop (n1 + n2)) with
        | none => simp [h3] at h
        | some p3 =>
          obtain ⟨m, dg, n3⟩ := p3
          simp only [h3, Option.some.injEq, Prod.mk.injEq] at h
          obtain ⟨hk', hdig, hn⟩ := h
          obtain ⟨e3, l3, _, sub⟩ := mhRead_append (k.drop (n1 + n2)) s m dg n3 h3
          simp only [List.length_drop] at l3
          have ltot : n1 + n2 + n3 ≤ k.length := by omega
          simp only [e1, hv, if_false, d1, e2, d2, e3]
          refine ⟨?_, by omega, ?_, ?_, ?_⟩
          · rw [List.take_append_of_le_length ltot, hk', hdig, hn]
          · rw [← hk', hn]
          · rw [← hdig]; exact sub.trans (List.drop_sublist _ _)
          · intro t ht
            subst ht
            rw [uvarint_small 18 t (by omega)] at h1
            simp only [Option.some.injEq, Prod.mk.injEq] at h1
            omega

theorem cidRead_append (k s k' dig : Bytes) (n : Nat) (h : cidRead k = some (k', dig, n)) :
    cidRead (k ++ s) = some (k', dig, n) ∧ n ≤ k.length ∧ k' = k.take n ∧ dig.Sublist k := by
  by_cases hk : ∃ rest, k = 18 :: 32 :: rest
  · obtain ⟨rest, rfl⟩ := hk
    rw [cidRead_v0] at h
    simp only [List.cons_append, cidRead_v0]
    by_cases hl : rest.length ≥ 32
    · simp only [hl, if_true, Option.some.injEq, Prod.mk.injEq] at h
      obtain ⟨hk', hdig, hn⟩ := h
      have hl' : (rest ++ s).length ≥ 32 := by simp only [List.length_append]; omega
      have hl2 : 32 ≤ rest.length := hl
      simp only [hl', if_true]
      refine ⟨?_, ?_, ?_, ?_⟩
      · rw [List.take_append_of_le_length hl2, ← hk', ← hn]
        simp only [Option.some.injEq, Prod.mk.injEq, and_true, hdig]
        simp only [List.take_succ_cons, List.cons.injEq, true_and]
        exact List.take_append_of_le_length hl2
      · simp only [List.length_cons]; omega
      · rw [← hk', hn]
      · rw [← hdig]
        exact (List.take_sublist _ _).trans
          ((List.sublist_cons_self _ _).trans (List.sublist_cons_self _ _))
    · simp [hl] at h
  · have hk1 : ∀ rest, k ≠ 18 :: 32 :: rest := fun rest e => hk ⟨rest, e⟩
    rw [cidRead_v1 k hk1] at h
    obtain ⟨e, l, t, sub, h18⟩ := cidReadV1_append k s k' dig n h
    have hk2 : ∀ rest, k ++ s ≠ 18 :: 32 :: rest := by
      intro rest e'
      cases k with
      | nil =>
        simp [cidReadV1, uvarint, uvarintAux] at h
      | cons a k0 =>
        simp only [List.cons_append, List.cons.injEq] at e'
        exact h18 k0 (by rw [e'.1])
    rw [cidRead_v1 _ hk2]
    exact ⟨e, l, t, sub⟩

/-! ### readNode / indexKeyOf -/

/-- a key without trailing bytes, followed by a value, parses back into exactly key and value -/
theorem readNode_append (kind : PKind) (k v : Bytes) (h : readNode kind k = some (k, [])) :
    readNode kind (k ++ v) = some (k, v) := by
  cases kind with
  | mh =>
    unfold readNode at h ⊢
    simp only at h ⊢
    cases hr : mhRead k with
    | none => simp [hr] at h
    | some p =>
      obtain ⟨k', dig, n⟩ := p
      simp only [hr, Option.some.injEq, Prod.mk.injEq] at h
      obtain ⟨e, l, _, _⟩ := mhRead_append k v k' dig n hr
      have hn : n = k.length := by
        have := List.drop_eq_nil_iff.mp h.2
        omega
      simp only [e, hn, List.drop_left, h.1]
  | cid =>
    unfold readNode at h ⊢
    simp only at h ⊢
    cases hr : cidRead k with
    | none => simp [hr] at h
    | some p =>
      obtain ⟨k', dig, n⟩ := p
      simp only [hr, Option.some.injEq, Prod.mk.injEq] at h
      obtain ⟨e, l, _, _⟩ := cidRead_append k v k' dig n hr
      have hn : n = k.length := by
        have := List.drop_eq_nil_iff.mp h.2
        omega
      simp only [e, hn, List.drop_left, h.1]

/-- parsing a key as a stored record gives the key back with an empty value: no trailing bytes -/
theorem readNode_mh_exact (k dig : Bytes) (h : indexKeyOf .mh k = some dig) :
    readNode .mh k = some (k, []) := by
  simp only [indexKeyOf, mhDecode] at h
  simp only [readNode, mhRead]
  by_cases h0 : k.length < 2
  · simp [h0] at h
  · simp only [h0, if_false] at h
    cases h1 : uvarint k with
    | none => simp [h1] at h
    | some p1 =>
      obtain ⟨c, n1⟩ := p1
      simp only [h1] at h ⊢
      cases h2 : uvarint (k.drop n1) with
      | none => simp [h2] at h
      | some p2 =>
        obtain ⟨len, n2⟩ := p2
        simp only [h2] at h ⊢
        have l1 := uvarint_le _ _ _ h1
        have l2 := uvarint_le _ _ _ h2
        simp only [List.length_drop] at l2
        by_cases hl : (k.drop (n1 + n2)).length = len
        · have hl' : len ≤ (k.drop (n1 + n2)).length := by omega
          simp only [hl', if_true]
          simp only [List.length_drop] at hl
          have ht : n1 + n2 + len = k.length := by omega
          simp [ht]
        · rw [if_neg hl] at h; cases h

/-- the digest is a sublist of the key -/
theorem indexKeyOf_sublist (kind : PKind) (k dig : Bytes) (h : indexKeyOf kind k = some dig) :
    dig.Sublist k := by
  cases kind with
  | mh =>
    simp only [indexKeyOf, mhDecode] at h
    by_cases h0 : k.length < 2
    · simp [h0] at h
    · simp only [h0, if_false] at h
      cases h1 : uvarint k with
      | none => simp [h1] at h
      | some p1 =>
        obtain ⟨c, n1⟩ := p1
        simp only [h1] at h
        cases h2 : uvarint (k.drop n1) with
        | none => simp [h2] at h
        | some p2 =>
          obtain ⟨len, n2⟩ := p2
          simp only [h2] at h
          by_cases hl : (k.drop (n1 + n2)).length = len
          · simp only [hl, if_true, Option.some.injEq] at h
            rw [← h]; exact List.drop_sublist _ _
          · rw [if_neg hl] at h; cases h
  | cid =>
    simp only [indexKeyOf] at h
    cases hr : cidRead k with
    | none => simp [hr] at h
    | some p =>
      obtain ⟨k', dg, n⟩ := p
      simp only [hr] at h
      split at h
      · simp only [Option.some.injEq] at h
        subst h
        exact (cidRead_append k [] k' dg n hr).2.2.2
      · cases h

/-- the repaired `IndexKey` of the CID primary only accepts keys without trailing bytes -/
theorem readNode_cid_exact (k dig : Bytes) (h : indexKeyOf .cid k = some dig) :
    readNode .cid k = some (k, []) := by
  simp only [indexKeyOf] at h
  cases hr : cidRead k with
  | none => simp [hr] at h
  | some p =>
    obtain ⟨k', dg, n⟩ := p
    simp only [hr] at h
    split at h
    · rename_i hn
      obtain ⟨_, _, hk', _⟩ := cidRead_append k [] k' dg n hr
      simp only [readNode, hr]
      rw [hk', hn]
      simp
    · cases h

theorem readNode_exact (kind : PKind) (k dig : Bytes) (h : indexKeyOf kind k = some dig) :
    readNode kind k = some (k, []) := by
  cases kind with
  | mh => exact readNode_mh_exact k dig h
  | cid => exact readNode_cid_exact k dig h

/-- the digest consists of bytes of the key -/
theorem indexKeyOf_mem (kind : PKind) (k dig : Bytes) (h : indexKeyOf kind k = some dig) :
    ∀ x ∈ dig, x ∈ k :=
  fun _ hx => (indexKeyOf_sublist kind k dig h).subset hx

theorem indexKeyOf_length_le (kind : PKind) (k dig : Bytes) (h : indexKeyOf kind k = some dig) :
    dig.length ≤ k.length :=
  (indexKeyOf_sublist kind k dig h).length_le

end Sth
