/-
C03, crashes while OpenStore runs — assembly: the states the theorem is about (`OpenReady`), the shape of
their disks and of every crash image of their Flush and Close, and the idempotence of OpenStore along any
number of interrupted and restarted opens.
Core Lean only.
-/
import Sth.Lemmas.C03OpenClass

namespace Sth.C03O

/-- an open interrupted and restarted any number of times: `d'` is reached from `d` by repeatedly
    stopping an open at one of its steps -/
inductive OpenRestarts (c : Cfg) : Disk → Disk → Prop
  | refl (d : Disk) : OpenRestarts c d d
  | step {d di d' : Disk} : di ∈ openSteps c d → OpenRestarts c di d' → OpenRestarts c d d'

theorem openRestarts_shape {c : Cfg} (hc : c.Legal) {pf Pm first M : Nat} {sp : Nat → List GSpan} :
    ∀ {d d' : Disk}, OpenRestarts c d d' → ∀ {junk : Nat → Bytes},
      OpenShape c d pf Pm first M sp junk →
      ∃ junk', OpenShape c d' pf Pm first M sp junk' ∧ OpenAgree c first M d d' := by
  intro d d' hr
  induction hr with
  | refl d => intro junk h; exact ⟨junk, h, OpenAgree.refl _ _ _ _⟩
  | step hdi _ ih =>
    intro junk h
    obtain ⟨j1, q1, q2⟩ := openSteps_shape hc h _ hdi
    obtain ⟨j2, r1, r2⟩ := ih q1
    exact ⟨j2, r1, q2.trans r2⟩

/-- OpenStore is idempotent on its own partial results, for any number of interruptions -/
theorem open_restarts_idem {c : Cfg} (hc : c.Legal) {d d' : Disk} {pf Pm first M : Nat}
    {sp : Nat → List GSpan} {junk : Nat → Bytes} (h : OpenShape c d pf Pm first M sp junk)
    (hr : OpenRestarts c d d') :
    ∃ dr mr dr' mr', openStoreR c d = (dr, .ok mr) ∧ openStoreR c d' = (dr', .ok mr') ∧
      DiskSame dr dr' ∧ MemSame mr mr' ∧
      (∀ b, idxRecords mr' dr' b = idxRecords mr dr b) ∧
      (∀ blk, priGet mr' dr' blk = priGet mr dr blk) ∧
      ∀ key, (storeGet mr' dr' key).2 = (storeGet mr dr key).2 := by
  obtain ⟨junk', q1, q2⟩ := openRestarts_shape hc hr h
  exact open_same hc h q1 q2

/-- what the theorems use about a state: its flush (for any order) comes with the crash package, and the
    fully flushed state it reaches has a fully described disk -/
def OpenReady (c : Cfg) (s : SState) : Prop :=
  ∀ order : List Nat, ∃ (U : List (Bytes × Bytes)) (spec : Spec) (n B first pf : Nat) (m1 : Mem)
      (d1 : Disk) (m2 : Mem) (d2 : Disk),
    priFlush s.m s.d = some (m1, d1) ∧ idxFlush m1 d1 (fixOrder order s.m.inext.keys) = (m2, d2) ∧
    FlushPack c U s spec n B first pf m1 d1 m2 d2 ∧ d2.free = s.d.free ∧ DiskShape c m2 d2 ∧
    NMap.Sorted m2.buckets ∧ m2.bits = c.bits

section
variable {c : Cfg} {U : List (Bytes × Bytes)} {s : SState} {spec : Spec} {n B : Nat}

theorem openReady_of_ginv (hU : Univ c.kind U) (hG : GInv c U s spec n B) (hD : DiskG s.d)
    (hn : n < 1073741824) (hB : B < two31) : OpenReady c s := by
  intro order
  obtain ⟨first, pf, m1, d1, m2, d2, p1, i1, hF, hG2, _, hfree⟩ := flushPack_of_ginv hU hG hD hn hB order
  have hsn : d2.snap = none := by rw [hF.hd2]; exact hF.snap
  exact ⟨U, spec, n, B, first, pf, m1, d1, m2, d2, p1, i1, hF, hfree,
    ⟨hG2.y.bits, hG2.y.imax, hsn, hG2.y.ilog, hG2.i.noFiles, hG2.y.phdr,
      fun _ => hG2.pno _ (Nat.lt_succ_self _)⟩, hG2.i.sorted, hG2.y.bits⟩

theorem openReady_of_inv (hU : Univ c.kind U) (hI : Inv c U s spec n B) (hY : YInv c s)
    (hph0 : c.kind = .mh → s.d.phdr = some ⟨c.pfs, 0⟩) (hD : DiskG s.d)
    (hn : n < 1073741824) (hB : B < two31) : OpenReady c s := by
  intro order
  obtain ⟨first, m1, d1, m2, d2, p1, i1, hF, hI2, hY2, _, hfree⟩ :=
    flushPack_of_inv_any hU hI hY hph0 hD hn hB order
  have hsn : d2.snap = none := by rw [hF.hd2]; exact hF.snap
  exact ⟨U, spec, n, B, first, 0, m1, d1, m2, d2, p1, i1, hF, hfree,
    diskShape_of_inv_any (s := ⟨s.cfg, m2, d2⟩) hI2 hY2 hsn, hI2.i.sorted, hY2.bits⟩

end

/-- every crash image of a Flush has the shape -/
theorem flush_images_shape {c : Cfg} {s : SState} (hR : OpenReady c s) (ord : List Nat) {m' : Mem}
    {d' : Disk} (hf : storeFlush s.m s.d (fixOrder ord s.m.inext.keys) = some (m', d')) (k : Nat)
    (early : Bool) :
    ∃ pf Pm first M sp junk,
      OpenShape c (crashImage s.d (appendStream s.d d') k early) pf Pm first M sp junk := by
  obtain ⟨U, spec, n, B, first, pf, m1, d1, m2, d2, p1, i1, hF, hfree, _⟩ := hR ord
  by_cases ho : outstanding s.m = true
  · obtain ⟨fl, fr, f1, f2⟩ := storeFlush_out p1 i1 ho
    rw [hfree] at f1
    rw [hf] at f2
    simp only [Option.some.injEq, Prod.mk.injEq] at f2
    obtain ⟨_, rfl⟩ := f2
    obtain ⟨Pm, M, sp, junk, o⟩ := flush_image_shape hF fr f1 k early
    exact ⟨pf, Pm, first, M, sp, junk, o⟩
  · obtain ⟨f1, _, _, f4, f5⟩ :=
      storeFlush_idle (d := s.d) (order := fixOrder ord s.m.inext.keys) ho
    rw [hf] at f1
    simp only [Option.some.injEq, Prod.mk.injEq] at f1
    obtain ⟨_, rfl⟩ := f1
    rw [f4] at p1
    simp only [Option.some.injEq, Prod.mk.injEq] at p1
    obtain ⟨rfl, rfl⟩ := p1
    rw [f5] at i1
    simp only [Prod.mk.injEq] at i1
    obtain ⟨rfl, rfl⟩ := i1
    obtain ⟨Pm, M, sp, junk, o⟩ := flush_image_shape hF s.d.free (Or.inl rfl) k early
    exact ⟨pf, Pm, first, M, sp, junk, o⟩

/-- the disk of the state itself has the shape -/
theorem state_disk_shape {c : Cfg} {s : SState} (hR : OpenReady c s) :
    ∃ pf Pm first M sp junk, OpenShape c s.d pf Pm first M sp junk := by
  obtain ⟨U, spec, n, B, first, pf, m1, d1, m2, d2, p1, i1, hF, hfree, _⟩ := hR []
  obtain ⟨Pm, M, sp, junk, o⟩ := flush_image_shape hF s.d.free (Or.inl rfl) 0 false
  rw [crashImage_zero] at o
  exact ⟨pf, Pm, first, M, sp, junk, o⟩

/-- every crash image of a Close has the shape -/
theorem close_images_shape {c : Cfg} {s : SState} (hR : OpenReady c s) (ord : List Nat)
    {d2 dC : Disk} {sn : Snap}
    (hcl : closeParts s.m s.d (fixOrder ord s.m.inext.keys) = some (d2, sn, dC)) (pt : ClosePoint) :
    ∃ pf Pm first M sp junk, OpenShape c (closeCrashImage s.d d2 sn dC pt) pf Pm first M sp junk := by
  obtain ⟨U, spec, n, B, first, pf, m1, d1, m2, d2', p1, i1, hF, hfree, hS2, hsort, hb2⟩ := hR ord
  obtain ⟨fr, hfr, c1, _⟩ := closeParts_eq p1 i1
  rw [hcl] at c1
  simp only [Option.some.injEq, Prod.mk.injEq] at c1
  obtain ⟨rfl, rfl, rfl⟩ := c1
  cases pt with
  | flush k early =>
    obtain ⟨Pm, M, sp, junk, o⟩ := flush_image_shape hF s.d.free (Or.inl rfl) k early
    have e : ({ d2 with free := s.d.free } : Disk) = d2 := by rw [← hfree]
    rw [e] at o
    exact ⟨pf, Pm, first, M, sp, junk, o⟩
  | saved k =>
    obtain ⟨fr', e⟩ := crashImage_freeStream
      { d2 with snap := some ⟨8 * 2 ^ m2.bits, m2.buckets.filter (·.2 ≠ 0)⟩ }
      { d2 with snap := some ⟨8 * 2 ^ m2.bits, m2.buckets.filter (·.2 ≠ 0)⟩, free := fr } k
    obtain ⟨pf', first', sp, o⟩ := diskShape_openShape_gen hS2 hsort fr'
      (some ⟨8 * 2 ^ m2.bits, m2.buckets.filter (·.2 ≠ 0)⟩) (Or.inr rfl)
    refine ⟨pf', m2.pfileNum, first', m2.ifileNum, sp, fun _ => [], ?_⟩
    show OpenShape c (crashImage _ (freeStream _ _) k false) _ _ _ _ _ _
    rw [e]
    exact o

/-! ### reachable states -/

theorem isC04a_of_isC02 {op : SOp} (h : op.isC02 = true) : op.isC04a = true := by
  cases op <;> first | rfl | cases h

/-- histories without GC cycles (the histories of C03's Flush and Close theorems) -/
theorem openReady_c02 (c : Cfg) (hc : c.Legal) (ops : List SOp) (ha : ∀ op ∈ ops, op.isC02 = true)
    (hk : KeysOK c.kind ops) (hs : SizesOK ops) (s0 : SState) (hi : initS c = some s0) :
    OpenReady c (runS s0 ops).1 := by
  have hU := univ_of_keysOK hk (keysExact_all c.kind ops)
  have hkey : ∀ op ∈ ops, ∀ k, op.keyOf = some k → ∀ dig, keyClass c.kind k = .ok dig →
      (k, dig) ∈ digestsOf c.kind ops := fun op ho k hkey dig hcls => mem_digestsOf ho hkey hcls
  obtain ⟨_, _, hX⟩ := run_ok2 hc hU ops s0 [] 0 0 (inv_init c hc _ s0 hi) (xinv_init c hc s0 hi) ha
    hkey (by have := hs.1; omega) (by have := hs.2.1; omega)
  obtain ⟨_, hI, hY⟩ := run_ok4a hc hU ops s0 [] 0 0 (inv_init c hc _ s0 hi) (yinv_init c hc s0 hi)
    (fun op ho => isC04a_of_isC02 (ha op ho)) hkey (by have := hs.1; omega)
    (by have := hs.2.1; omega)
  exact openReady_of_inv hU hI hY hX.phdr (runS_keeps ops s0 (diskG_init c hc s0 hi))
    (by have := hs.1; omega) (by have := hs.2.1; omega)

/-- histories with GC cycles (the histories of `C03_crash_after_gc_history`) -/
theorem openReady_gc (c : Cfg) (hc : c.Legal) (ops : List SOp) (hk : KeysOK c.kind ops)
    (hs : SizesOK ops) (s0 : SState) (hi : initS c = some s0)
    (hb : c.kind = .mh → GcCountersOK s0 ops ∧ gcCnt (runS s0 ops).1 < 268435456)
    (hp : c.kind = .mh → PgcFromClean s0 ops) : OpenReady c (runS s0 ops).1 := by
  have hU := univ_of_keysOK hk (keysExact_all c.kind ops)
  have hkey : ∀ op ∈ ops, ∀ k, op.keyOf = some k → ∀ dig, keyClass c.kind k = .ok dig →
      (k, dig) ∈ digestsOf c.kind ops := fun op ho k hkey dig hcls => mem_digestsOf ho hkey hcls
  have hB : 0 + (ops.map SOp.bytes).sum < two31 := by have := hs.2.1; omega
  have hW0 : DurW ([] : Spec) 0 := ⟨by simp, by simp [specW]⟩
  rcases (by cases c.kind <;> simp : c.kind = .mh ∨ c.kind = .cid) with hmh | hcid
  · obtain ⟨hb1, hb2⟩ := hb hmh
    obtain ⟨n', hG', hD, _, _⟩ := run_g4 hc hU ops s0 [] [] 0 0 (ginv_init hc hmh hi)
      (diskG_init c hc s0 hi) (durable_init c hc _ s0 hi) hW0 hkey hb1 (hp hmh) hB
    exact openReady_of_ginv hU hG'.tight hD (by omega) hB
  · obtain ⟨hI, hY, hD, _, _⟩ := run_cid4 hc hcid hU ops s0 [] [] 0 0 (inv_init c hc _ s0 hi)
      (yinv_init c hc s0 hi) (diskG_init c hc s0 hi) (durable_init c hc _ s0 hi) hW0 hkey
      (by have := hs.1; omega) hB
    exact openReady_of_inv hU hI hY (fun h => by rw [hcid] at h; cases h) hD
      (by have := hs.1; omega) hB

/-! ### the statement -/

/-- OpenStore succeeds on `d` and on `di` and recovers the same: the directories it leaves agree
    (`DiskSame`: equal but for the representation of the index file map), the memory states agree
    (`MemSame`: equal but for the representation of the bucket table), every bucket reads the same record
    list, every block the same primary record, and every key gets the same answer -/
def RecoversSame (c : Cfg) (d di : Disk) : Prop :=
  ∃ dr mr dri mri, openStoreR c d = (dr, .ok mr) ∧ openStoreR c di = (dri, .ok mri) ∧
    DiskSame dr dri ∧ MemSame mr mri ∧
    (∀ b, idxRecords mri dri b = idxRecords mr dr b) ∧
    (∀ blk, priGet mri dri blk = priGet mr dr blk) ∧
    ∀ key, (storeGet mri dri key).2 = (storeGet mr dr key).2

theorem OpenRestarts.single {c : Cfg} {d di : Disk} (h : di ∈ openSteps c d) : OpenRestarts c d di :=
  .step h (.refl di)

theorem recoversSame_of_shape {c : Cfg} (hc : c.Legal) {d di : Disk}
    (h : ∃ pf Pm first M sp junk, OpenShape c d pf Pm first M sp junk) (hr : OpenRestarts c d di) :
    RecoversSame c d di := by
  obtain ⟨pf, Pm, first, M, sp, junk, o⟩ := h
  exact open_restarts_idem hc o hr

/-! ### the very first open, on an empty directory -/

theorem open_fresh_mh (c : Cfg) (hc : c.Legal) (hk : c.kind = .mh) :
    ∀ di ∈ openSteps c {}, openStoreR c di = openStoreR c {} := by
  obtain ⟨h1, h2, h3, h4, h5, h6⟩ := hc
  have hb : c.bits ≠ 0 := by omega
  have hi : c.ifs ≠ 0 := by omega
  have hp : c.pfs ≠ 0 := by omega
  have hb' : ¬ (c.bits > 31 ∨ c.bits < 8) := by omega
  have hi' : ¬ c.ifs > defaultMax := by omega
  have hp' : ¬ c.pfs > defaultMax := by omega
  intro di hdi
  simp [openSteps, openFreelist, openPrimarySteps, openPrimary, openIndexSteps, hk, hb, hi, hp, hb', hi',
    hp', NMap.has, NMap.get?, NMap.set, fileOf] at hdi
  rcases hdi with rfl | rfl | rfl | rfl | rfl <;>
  simp [openStoreR, openFreelist, openStore, openPrimary, openIndex, hk, hb, hi, hp, hb', hi', hp',
    NMap.has, NMap.get?, NMap.set, fileOf, findLast, findLast.go, scanIndex, scanIndex.go]

theorem open_fresh_cid (c : Cfg) (hc : c.Legal) (hk : c.kind = .cid) :
    ∀ di ∈ openSteps c {}, openStoreR c di = openStoreR c {} := by
  obtain ⟨h1, h2, h3, h4, h5, h6⟩ := hc
  have hb : c.bits ≠ 0 := by omega
  have hi : c.ifs ≠ 0 := by omega
  have hb' : ¬ (c.bits > 31 ∨ c.bits < 8) := by omega
  have hi' : ¬ c.ifs > defaultMax := by omega
  intro di hdi
  simp [openSteps, openFreelist, openPrimarySteps, openPrimary, openIndexSteps, hk, hb, hi, hb', hi',
    NMap.has, NMap.get?, NMap.set, fileOf] at hdi
  rcases hdi with rfl | rfl | rfl | rfl <;>
  simp [openStoreR, openFreelist, openStore, openPrimary, openIndex, hk, hb, hi, hb', hi',
    NMap.has, NMap.get?, NMap.set, fileOf, findLast, findLast.go, scanIndex, scanIndex.go]

/-- a crash during the very first open: every directory it passes through opens to exactly the state and
    directory the uninterrupted first open gives -/
theorem open_fresh (c : Cfg) (hc : c.Legal) :
    ∀ di ∈ openSteps c {}, openStoreR c di = openStoreR c {} := by
  rcases (by cases c.kind <;> simp : c.kind = .mh ∨ c.kind = .cid) with hk | hk
  · exact open_fresh_mh c hc hk
  · exact open_fresh_cid c hc hk

end Sth.C03O
