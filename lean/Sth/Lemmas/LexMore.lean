/-
More lexicographic order / prefix lemmas on byte strings (helpers for C08).
Core Lean only.
-/
import Sth.Lemmas.Lex

namespace Sth

theorem pfx_refl : ∀ a : Key, pfx a a
  | [] => by simp [pfx]
  | _ :: as => by simp [pfx]; exact pfx_refl as

theorem pfx_trans : ∀ {a b c : Key}, pfx a b → pfx b c → pfx a c
  | [], _, _ => by simp [pfx]
  | _ :: _, [], _ => by simp [pfx]
  | _ :: _, _ :: _, [] => by simp [pfx]
  | a :: as, b :: bs, c :: cs => by
    simp only [pfx]
    rintro ⟨rfl, h1⟩ ⟨rfl, h2⟩
    exact ⟨rfl, pfx_trans h1 h2⟩

theorem pfx_antisymm : ∀ {a b : Key}, pfx a b → pfx b a → a = b
  | [], [] => by simp
  | [], _ :: _ => by simp [pfx]
  | _ :: _, [] => by simp [pfx]
  | a :: as, b :: bs => by
    simp only [pfx]
    rintro ⟨rfl, h1⟩ ⟨_, h2⟩
    rw [pfx_antisymm h1 h2]

/-- two prefixes of the same key are comparable -/
theorem pfx_comparable : ∀ {a b k : Key}, pfx a k → pfx b k → pfx a b ∨ pfx b a
  | [], _, _ => by simp [pfx]
  | _ :: _, [], _ => by simp [pfx]
  | _ :: _, _ :: _, [] => by simp [pfx]
  | a :: as, b :: bs, c :: cs => by
    simp only [pfx]
    rintro ⟨rfl, h1⟩ ⟨rfl, h2⟩
    rcases pfx_comparable h1 h2 with h | h
    · exact Or.inl ⟨rfl, h⟩
    · exact Or.inr ⟨rfl, h⟩

theorem pfx_take : ∀ (k : Key) (n : Nat), pfx (k.take n) k
  | [], n => by simp [pfx]
  | _ :: _, 0 => by simp [pfx]
  | a :: as, n + 1 => by simp [pfx]; exact pfx_take as n

theorem pfx_length_le : ∀ {a b : Key}, pfx a b → a.length ≤ b.length
  | [], _ => by simp
  | _ :: _, [] => by simp [pfx]
  | a :: as, b :: bs => by
    simp only [pfx, List.length_cons]
    rintro ⟨_, h⟩
    have := pfx_length_le h
    omega

theorem klt_asymm {a b : Key} (h : klt a b) : ¬ klt b a :=
  fun h' => klt_irrefl a (klt_trans h h')

/-- x < p, apart, z extends p ⇒ x < z, apart -/
theorem ext_left : ∀ {x p z : Key}, klt x p → apart x p → pfx p z → klt x z ∧ apart x z
  | [], p, z => by intro _ h; simp [apart, pfx] at h
  | _ :: _, [], _ => by simp [klt]
  | _ :: _, _ :: _, [] => by simp [pfx]
  | a :: as, b :: bs, c :: cs => by
    simp only [klt, apart, pfx]
    rintro h1 h2 ⟨rfl, h3⟩
    rcases h1 with h1 | ⟨rfl, h1'⟩
    · refine ⟨Or.inl h1, ?_, ?_⟩ <;> intro h <;> omega
    · have hap : apart as bs := ⟨fun h => h2.1 ⟨rfl, h⟩, fun h => h2.2 ⟨rfl, h⟩⟩
      have := ext_left h1' hap h3
      exact ⟨Or.inr ⟨rfl, this.1⟩, fun h => this.2.1 h.2, fun h => this.2.2 h.2⟩

/-- p < y, apart, z extends p ⇒ z < y, apart -/
theorem ext_right : ∀ {p y z : Key}, klt p y → apart p y → pfx p z → klt z y ∧ apart z y
  | [], y, z => by intro _ h; simp [apart, pfx] at h
  | _ :: _, [], _ => by simp [klt]
  | _ :: _, _ :: _, [] => by simp [pfx]
  | a :: as, b :: bs, c :: cs => by
    simp only [klt, apart, pfx]
    rintro h1 h2 ⟨rfl, h3⟩
    rcases h1 with h1 | ⟨rfl, h1'⟩
    · refine ⟨Or.inl h1, ?_, ?_⟩ <;> intro h <;> omega
    · have hap : apart as bs := ⟨fun h => h2.1 ⟨rfl, h⟩, fun h => h2.2 ⟨rfl, h⟩⟩
      have := ext_right h1' hap h3
      exact ⟨Or.inr ⟨rfl, this.1⟩, fun h => this.2.1 h.2, fun h => this.2.2 h.2⟩

theorem fncb_self : ∀ k : Key, fncb k k = k.length
  | [] => by simp [fncb]
  | _ :: as => by simp [fncb, fncb_self as]

theorem fncb_lt_left : ∀ {k p : Key}, ¬ pfx k p → fncb k p < k.length
  | [], _ => by simp [pfx]
  | _ :: _, [] => by simp [fncb]
  | a :: as, b :: bs => by
    simp only [pfx, fncb, List.length_cons]
    intro h
    by_cases hab : a = b
    · subst hab
      have : ¬ pfx as bs := fun h' => h ⟨rfl, h'⟩
      have := fncb_lt_left this
      simp; omega
    · simp [hab]

theorem fncb_lt_right : ∀ {k p : Key}, ¬ pfx p k → fncb k p < p.length
  | _, [] => by simp [pfx]
  | [], _ :: _ => by simp [fncb]
  | a :: as, b :: bs => by
    simp only [pfx, fncb, List.length_cons]
    intro h
    by_cases hab : a = b
    · subst hab
      have : ¬ pfx bs as := fun h' => h ⟨rfl, h'⟩
      have := fncb_lt_right this
      simp; omega
    · simp [hab]

/-- cutting two incomparable keys just after their common prefix keeps them incomparable -/
theorem take_fncb_apart : ∀ {a b : Key}, ¬ pfx a b → ¬ pfx b a →
    apart (a.take (fncb a b + 1)) (b.take (fncb a b + 1))
  | [], _ => by simp [pfx]
  | _ :: _, [] => by simp [pfx]
  | a :: as, b :: bs => by
    simp only [pfx, fncb]
    intro h1 h2
    by_cases hab : a = b
    · subst hab
      have h1' : ¬ pfx as bs := fun h' => h1 ⟨rfl, h'⟩
      have h2' : ¬ pfx bs as := fun h' => h2 ⟨rfl, h'⟩
      have := take_fncb_apart h1' h2'
      simp only [if_true, List.take_succ_cons, apart, pfx]
      exact ⟨fun h => this.1 h.2, fun h => this.2 h.2⟩
    · rw [if_neg hab]
      simp only [List.take_succ_cons, List.take_zero, apart, pfx]
      exact ⟨fun h => hab h.1, fun h => hab h.1.symm⟩

/-- a common prefix of two keys survives cutting them just after their common prefix -/
theorem pfx_take_fncb : ∀ {p a b : Key}, pfx p a → pfx p b →
    pfx p (a.take (fncb a b + 1)) ∧ pfx p (b.take (fncb a b + 1))
  | [], _, _ => by simp [pfx]
  | _ :: _, [], _ => by simp [pfx]
  | _ :: _, _ :: _, [] => by simp [pfx]
  | c :: cs, a :: as, b :: bs => by
    simp only [pfx]
    rintro ⟨rfl, h1⟩ ⟨rfl, h2⟩
    have := pfx_take_fncb h1 h2
    simp only [fncb, if_true, List.take_succ_cons, pfx, true_and]
    exact this

theorem take_ne_nil {k : Key} (h : k ≠ []) (n : Nat) : k.take (n + 1) ≠ [] := by
  cases k with
  | nil => exact absurd rfl h
  | cons a as => simp

end Sth
