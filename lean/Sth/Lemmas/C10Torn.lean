/-
C10 widened (U2) — torn tails of the legacy files.

Primary: chunkOldPrimary stops at the first record it cannot read completely and says nothing.  The
repaired code (KNOWN_FINDINGS D31) writes a record's size prefix only after its data has been read, so
nothing of a torn last record is copied: for EVERY torn tail `t` (`TornP`: fewer than 4 bytes, or a size
prefix below the deleted bit with less than the announced data) the upgrading open is the one of the store
without the tail (`upgradeOpen_torn`).

Index: chunkOldIndex answers a torn tail with an error: the upgrading open is refused
(`upgradeOpen_torn_index`) — after the primary has been converted and the old primary removed.
Core Lean only.
-/
import Sth.Lemmas.C10Resume
import Sth.Lemmas.C10BMain

namespace Sth

namespace C10T

open LegacyC

/-! ### applyFreeList does not look at a tail -/

theorem writeAt_append (f t x : Bytes) (pos : Nat) (h : pos + x.length ≤ f.length) :
    writeAt (f ++ t) pos x = writeAt f pos x ++ t := by
  unfold writeAt
  rw [List.take_append_of_le_length (by omega), List.drop_append_of_le_length (by omega)]
  simp [List.append_assoc]

theorem writeAt_length (f x : Bytes) (pos : Nat) (h : pos + x.length ≤ f.length) :
    (writeAt f pos x).length = f.length := by
  unfold writeAt
  simp only [List.length_append, List.length_take, List.length_drop]
  omega

theorem markFreed_append (t : Bytes) : ∀ (offs : List Nat) (data r : Bytes),
    (∀ off ∈ offs, off + 4 ≤ data.length) → markFreed data offs = some r →
    markFreed (data ++ t) offs = some (r ++ t) ∧ r.length = data.length
  | [], data, r, _, h => by
    simp only [markFreed, Option.some.injEq] at h
    subst h
    exact ⟨rfl, rfl⟩
  | off :: rest, data, r, hin, h => by
    have ho := hin off (by simp)
    have hrest : ∀ o ∈ rest, o + 4 ≤ data.length := fun o h' => hin o (List.mem_cons_of_mem _ h')
    rw [markFreed] at h ⊢
    split at h
    · cases h
    · rename_i hbig
      rw [if_neg hbig]
      rw [if_neg (by omega)] at h
      rw [if_neg (by simp only [List.length_append]; omega)]
      cases hr : readAt data off 4 with
      | none => rw [hr] at h; cases h
      | some sb =>
        rw [hr] at h
        rw [readAt_append t hr]
        simp only at h ⊢
        split at h
        · rename_i hdel
          rw [if_pos hdel]
          exact markFreed_append t rest data r hrest h
        · rename_i hdel
          rw [if_neg hdel]
          have hl : (le32 (leDec sb + two31)).length = 4 := le32_length _
          rw [writeAt_append _ _ _ _ (by rw [hl]; exact ho)]
          have hlen := writeAt_length data (le32 (leDec sb + two31)) off (by rw [hl]; exact ho)
          obtain ⟨g1, g2⟩ := markFreed_append t rest _ r (by rw [hlen]; exact hrest) h
          exact ⟨g1, by rw [g2, hlen]⟩

/-! ### chunkOldPrimary's reading half with a tail after the whole records -/

theorem parse_tail (t : Bytes) (R : List Bytes) (stray : Bytes)
    (hbase : ∀ (pre : Bytes) (fuel : Nat) (s : Bytes), 0 < fuel →
      parseOldPrimary (pre ++ t) fuel pre.length s = (R, stray))
    (l : List MRec) (hs : ∀ r ∈ l, msize r < two31) :
    ∀ (pre : Bytes) (fuel : Nat) (s : Bytes), l.length < fuel →
      parseOldPrimary (pre ++ (mdata l ++ t)) fuel pre.length s = (outRecs s l ++ R, stray) := by
  induction l with
  | nil =>
    intro pre fuel s hf
    have : pre ++ (mdata [] ++ t) = pre ++ t := by simp [mdata]
    rw [this, hbase pre fuel s (by simpa using hf)]
    rfl
  | cons r rest ih =>
    intro pre fuel s hf
    obtain ⟨f, rfl⟩ : ∃ f, fuel = f + 1 := ⟨fuel - 1, by simp at hf; omega⟩
    have hsr : msize r < two31 := hs r (by simp)
    have hX : msize r + (if r.1 then two31 else 0) < two32 := by
      unfold two31 at hsr; unfold two32 two31; split <;> omega
    have hd : pre ++ (mdata (r :: rest) ++ t) =
        pre ++ (le32 (msize r + (if r.1 then two31 else 0)) ++ ((r.2.1 ++ r.2.2) ++ (mdata rest ++ t))) := by
      rw [mdata_cons]; unfold mrecBytes; simp [List.append_assoc]
    have hread : readAt (pre ++ (mdata (r :: rest) ++ t)) pre.length 4 =
        some (le32 (msize r + (if r.1 then two31 else 0))) := by
      rw [hd]; exact readAt_mid4 _ _ _ (le32_length _)
    have hnext : pre ++ (mdata (r :: rest) ++ t) = (pre ++ mrecBytes r) ++ (mdata rest ++ t) := by
      rw [mdata_cons]; simp [List.append_assoc]
    have hnl : (pre ++ mrecBytes r).length = pre.length + 4 + msize r := by
      rw [List.length_append, mrecBytes_length]; omega
    have hrec := ih (fun x hx => hs x (List.mem_cons_of_mem _ hx)) (pre ++ mrecBytes r) f
    simp only [parseOldPrimary, hread, leDec_le32 _ hX]
    cases hm : r.1 with
    | true =>
      simp only [if_true]
      have h1 : msize r + two31 ≥ two31 := by omega
      have h2 : msize r + two31 - two31 = msize r := by omega
      simp only [h1, decide_true, if_true, h2]
      rw [hnext, ← hnl, hrec _ (by simp at hf; omega)]
      simp only [outRecs, hm, if_true, List.cons_append]
    | false =>
      simp only [Bool.false_eq_true, if_false, Nat.add_zero]
      have h1 : ¬ msize r ≥ two31 := by omega
      simp only [h1, decide_false, Bool.false_eq_true, if_false]
      have hbody : readAt (pre ++ (mdata (r :: rest) ++ t)) (pre.length + 4) (msize r) = some (r.2.1 ++ r.2.2) := by
        have e : pre ++ (mdata (r :: rest) ++ t) =
            (pre ++ le32 (msize r)) ++ (r.2.1 ++ r.2.2) ++ (mdata rest ++ t) := by
          rw [hd, hm]; simp [List.append_assoc]
        have := readAt_at_end (pre ++ le32 (msize r)) (r.2.1 ++ r.2.2) (mdata rest ++ t)
        rw [e]
        have e1 : (pre ++ le32 (msize r)).length = pre.length + 4 := by simp [le32_length]
        have e2 : (r.2.1 ++ r.2.2).length = msize r := by unfold msize; simp
        rw [e1, e2] at this
        exact this
      rw [hbody]
      simp only
      rw [hnext, ← hnl, hrec _ (by simp at hf; omega)]
      simp only [outRecs, hm, Bool.false_eq_true, if_false, List.cons_append]

/-- what is left of a record that was not written completely: fewer bytes than a size prefix, or a size
    prefix (below the deleted bit) followed by less data than it announces -/
def TornP (t : Bytes) : Prop :=
  t.length < 4 ∨ ∃ sz body, t = le32 sz ++ body ∧ sz < two31 ∧ body.length < sz

/-- every proper prefix of a well-framed record `[u32 size][key][value]` is such a tail -/
theorem tornP_of_prefix (k v : Bytes) (hs : k.length + v.length < two31) (j : Nat)
    (hj : j < 4 + (k.length + v.length)) : TornP ((le32 (k.length + v.length) ++ (k ++ v)).take j) := by
  have h4 : (le32 (k.length + v.length)).length = 4 := le32_length _
  by_cases hlt : j < 4
  · left
    rw [List.length_take]
    omega
  · right
    refine ⟨k.length + v.length, (k ++ v).take (j - 4), ?_, hs, ?_⟩
    · rw [List.take_append, h4, List.take_of_length_le (by omega)]
    · rw [List.length_take, List.length_append]
      omega

/-- nothing of a torn tail is copied -/
theorem parse_torn (t : Bytes) (ht : TornP t) (l : List MRec) (hs : ∀ r ∈ l, msize r < two31)
    (fuel : Nat) (s : Bytes) (hf : l.length < fuel) :
    parseOldPrimary (mdata l ++ t) fuel 0 s = (outRecs s l, []) := by
  have := parse_tail t [] [] (by
    intro pre fuel s hf
    obtain ⟨f, rfl⟩ : ∃ f, fuel = f + 1 := ⟨fuel - 1, by omega⟩
    rcases ht with ht | ⟨sz, body, rfl, hsz, hb⟩
    · have : readAt (pre ++ t) pre.length 4 = none := by
        unfold readAt
        rw [List.drop_left]
        have : (t.take 4).length ≠ 4 := by rw [List.length_take]; omega
        rw [if_neg this]
      simp only [parseOldPrimary, this]
    · have h1 : readAt (pre ++ (le32 sz ++ body)) pre.length 4 = some (le32 sz) :=
        readAt_mid4 _ _ _ (le32_length _)
      have h2 : readAt (pre ++ (le32 sz ++ body)) (pre.length + 4) sz = none := by
        unfold readAt
        have e : pre ++ (le32 sz ++ body) = (pre ++ le32 sz) ++ body := by simp
        have e1 : (pre ++ le32 sz).length = pre.length + 4 := by simp [le32_length]
        rw [e, ← e1, List.drop_left]
        have : (body.take sz).length ≠ sz := by rw [List.length_take]; omega
        rw [if_neg this]
      have h3 : leDec (le32 sz) = sz := leDec_le32 _ (by unfold two31 at hsz; unfold two32; omega)
      have h4 : ¬ sz ≥ two31 := by omega
      simp only [parseOldPrimary, h1, h3, h4, decide_false, Bool.false_eq_true, if_false, h2]) l hs [] fuel s hf
  simpa using this

end C10T

end Sth

namespace Sth

namespace C10T

open LegacyC

variable {c : Cfg} {C : LegacyC}

theorem offsetOf_succ (C : LegacyC) (i : Nat) (h : i < C.recs.length) :
    C.offsetOf (i + 1) = C.offsetOf i + (4 + recSize C.recs[i]) := by
  unfold offsetOf
  rw [List.take_succ, List.getElem?_eq_getElem h]
  simp only [Option.toList_some, List.map_append, List.sum_append, List.map_cons, List.map_nil, List.sum_cons,
    List.sum_nil, Nat.add_zero]

theorem freeOffsets_in (C : LegacyC) (hsz : ∀ kv ∈ C.recs, recSize kv < two31)
    (hfr : ∀ l, C.freed = some l → ∀ i ∈ l, i < C.recs.length) (hn : C.recs.length < 1073741824) :
    ∀ off ∈ freeOffsets C.flBytes, off + 4 ≤ (legacyPrimary C.recs).length := by
  have hoff : ∀ i, (C.blockOf i).off < two64 := fun i => by
    have := C.blockOf_off_lt hsz hn i; unfold two64 at *; omega
  unfold flBytes
  rw [freeOffsets_flatMap C.blockOf hoff]
  intro off ho
  obtain ⟨i, hi, rfl⟩ := List.mem_map.mp ho
  have hlt : i < C.recs.length := by
    cases hf : C.freed with
    | none => rw [hf] at hi; simp at hi
    | some l => rw [hf] at hi; exact hfr l hf i (by simpa using hi)
  have h1 := offsetOf_succ C i hlt
  have h2 := C.offsetOf_le (i + 1)
  show C.offsetOf i + 4 ≤ _
  omega

/-- mhprimary.Open on a legacy primary with a torn tail: as without the tail -/
theorem openPrimaryU_torn (c : Cfg) (hc : c.Legal) (C : LegacyC)
    (hsz : ∀ kv ∈ C.recs, recSize kv < two31)
    (hfr : ∀ l, C.freed = some l → ∀ i ∈ l, i < C.recs.length) (hn : C.recs.length < 1073741824)
    (t : Bytes) (ht : TornP t) (idx : Option Bytes) :
    openPrimaryU c { data := some (legacyPrimary C.recs ++ t), index := idx,
                     disk := openFreelist { free := C.dir.free } } =
      openPrimaryU c { data := some (legacyPrimary C.recs), index := idx,
                       disk := openFreelist { free := C.dir.free } } := by
  rw [openPrimaryU_legacy c hc C hsz hfr hn idx]
  obtain ⟨h1, h2, h3, h4, h5, h6⟩ := hc
  have hp0 : c.pfs ≠ 0 := by omega
  have hp1 : ¬ c.pfs > defaultMax := by omega
  rw [openFreelist_legacy]
  unfold openPrimaryU
  simp only [hp0, if_false, hp1]
  have hgc : toGCU ({ free := some C.flBytes } : Disk) = { free := some [], freeGc := some C.flBytes } := rfl
  obtain ⟨hm, _⟩ := markFreed_append t _ _ _ (freeOffsets_in C hsz hfr hn) (C.markFreed_legacy hsz hfr hn)
  simp only [hgc, Option.getD_some, hm]
  have hparse := parse_torn t ht C.marked (C.msize_marked hsz) ((mdata C.marked ++ t).length + 1) scratch0
    (by have := length_le_mdata C.marked; simp only [List.length_append]; omega)
  rw [hparse]
  simp only
  by_cases he : (mdata C.marked ++ t).isEmpty = true
  · have h0 : (mdata C.marked ++ t).length = 0 := by
      rw [List.isEmpty_iff] at he; rw [he]; rfl
    have hr : C.recs = [] := by
      have := length_le_mdata C.marked
      rw [C.marked_length] at this
      simp only [List.length_append] at h0
      exact List.length_eq_zero_iff.mp (by omega)
    have hm' : C.marked = [] := by
      have := C.marked_length; rw [hr] at this; exact List.length_eq_zero_iff.mp this
    have hf : C.pfilesL c.pfs = [[]] := by
      unfold pfilesL out; rw [hm']; rfl
    simp only [he, if_true]
    rw [hf]
    rfl
  · simp only [he, Bool.false_eq_true, if_false]
    rfl

/-- the upgrading open of a store whose legacy primary ends in a torn record is the upgrading open of the
    store without it -/
theorem upgradeOpen_torn (c : Cfg) (hc : c.Legal) (C : LegacyC)
    (hsz : ∀ kv ∈ C.recs, recSize kv < two31)
    (hfr : ∀ l, C.freed = some l → ∀ i ∈ l, i < C.recs.length) (hn : C.recs.length < 1073741824)
    (t : Bytes) (ht : TornP t) (order : List Nat) :
    upgradeOpen c { C.dir with data := C.dir.data ++ t } order = upgradeOpen c C.dir order := by
  unfold upgradeOpen openU
  by_cases hk : c.kind ≠ .mh
  · rw [if_pos hk, if_pos hk]
  · rw [if_neg hk, if_neg hk]
    have e0 : ({ UDir.ofLegacy { C.dir with data := C.dir.data ++ t } with
        disk := openFreelist (UDir.ofLegacy { C.dir with data := C.dir.data ++ t }).disk } : UDir) =
        { data := some (legacyPrimary C.recs ++ t), index := some C.dir.index,
          disk := openFreelist { free := C.dir.free } } := rfl
    have e1 : ({ UDir.ofLegacy C.dir with disk := openFreelist (UDir.ofLegacy C.dir).disk } : UDir) =
        { data := some (legacyPrimary C.recs), index := some C.dir.index,
          disk := openFreelist { free := C.dir.free } } := rfl
    rw [e0, e1]
    dsimp only
    rw [openPrimaryU_torn c hc C hsz hfr hn t ht]

end C10T

end Sth

namespace Sth

namespace C10T

open LegacyC

variable {c : Cfg} {U : List (Bytes × Bytes)} {C : LegacyC}

/-! ### torn tail of the legacy index -/

/-- bytes after the last whole index record that are not a whole record: part of a size prefix, or a size
    prefix with less than the announced data -/
def TornTail (t : Bytes) : Prop :=
  (0 < t.length ∧ t.length < 4) ∨ ∃ sz body, t = le32 sz ++ body ∧ sz < two32 ∧ body.length < sz

theorem parseOldIndex_torn (t : Bytes) (ht : TornTail t) (recs : List LRec)
    (hok : ∀ r ∈ recs, (encodeRL r.2).length + 4 < two32) :
    ∀ (pre : Bytes) (fuel : Nat), recs.length < fuel →
      parseOldIndex (pre ++ (logBytes recs ++ t)) fuel pre.length = none := by
  induction recs with
  | nil =>
    intro pre fuel hf
    obtain ⟨f, rfl⟩ : ∃ f, fuel = f + 1 := ⟨fuel - 1, by simp at hf; omega⟩
    have e : pre ++ (logBytes [] ++ t) = pre ++ t := by simp [logBytes]
    rw [e]
    rcases ht with ⟨h0, h4⟩ | ⟨sz, body, rfl, hsz, hb⟩
    · have h1 : readAt (pre ++ t) pre.length 4 = none := by
        unfold readAt
        rw [List.drop_left]
        have : (t.take 4).length ≠ 4 := by rw [List.length_take]; omega
        rw [if_neg this]
      have h2 : availAt (pre ++ t) pre.length 4 ≠ 0 := by
        unfold availAt
        rw [List.drop_left, List.length_take]
        omega
      simp only [parseOldIndex, h1, h2, if_false]
    · have h1 : readAt (pre ++ (le32 sz ++ body)) pre.length 4 = some (le32 sz) :=
        readAt_mid4 _ _ _ (le32_length _)
      have h3 : leDec (le32 sz) = sz := leDec_le32 _ hsz
      have h2 : readAt (pre ++ (le32 sz ++ body)) (pre.length + 4 + 0) sz = none := by
        unfold readAt
        have e : pre ++ (le32 sz ++ body) = (pre ++ le32 sz) ++ body := by simp
        have e1 : (pre ++ le32 sz).length = pre.length + 4 + 0 := by simp [le32_length]
        rw [e, ← e1, List.drop_left]
        have : (body.take sz).length ≠ sz := by rw [List.length_take]; omega
        rw [if_neg this]
      simp only [parseOldIndex, h1, h3, h2]
  | cons r rs ih =>
    intro pre fuel hf
    obtain ⟨f, rfl⟩ : ∃ f, fuel = f + 1 := ⟨fuel - 1, by simp at hf; omega⟩
    obtain ⟨b, rl⟩ := r
    have hs : (encodeRL rl).length + 4 < two32 := hok (b, rl) (by simp)
    have hA : (le32 ((encodeRL rl).length + 4)).length = 4 := le32_length _
    have hB : (le32 b).length = 4 := le32_length _
    have efile : pre ++ (logBytes ((b, rl) :: rs) ++ t) =
        pre ++ (le32 ((encodeRL rl).length + 4) ++ (le32 b ++ encodeRL rl ++ (logBytes rs ++ t))) := by
      rw [logBytes_cons]; unfold idxRecBytes; simp [List.append_assoc]
    have efile2 : pre ++ (logBytes ((b, rl) :: rs) ++ t) =
        (pre ++ le32 ((encodeRL rl).length + 4)) ++ (le32 b ++ encodeRL rl) ++ (logBytes rs ++ t) := by
      rw [logBytes_cons]; unfold idxRecBytes; simp [List.append_assoc]
    have h1 : readAt (pre ++ (logBytes ((b, rl) :: rs) ++ t)) pre.length 4 =
        some (le32 ((encodeRL rl).length + 4)) := by
      rw [efile]; exact readAt_mid4 _ _ _ hA
    have h2 : readAt (pre ++ (logBytes ((b, rl) :: rs) ++ t)) (pre.length + 4 + 0) ((encodeRL rl).length + 4) =
        some (le32 b ++ encodeRL rl) := by
      have := readAt_at_end (pre ++ le32 ((encodeRL rl).length + 4)) (le32 b ++ encodeRL rl)
        (logBytes rs ++ t)
      rw [efile2, ← this]
      congr 1
      · simp [hA]
    have h3 : leDec (le32 ((encodeRL rl).length + 4)) = (encodeRL rl).length + 4 := leDec_le32 _ hs
    have e1 : pre ++ (logBytes ((b, rl) :: rs) ++ t) = (pre ++ idxRecBytes b rl) ++ (logBytes rs ++ t) := by
      rw [logBytes_cons]; simp [List.append_assoc]
    have e2 : (pre ++ idxRecBytes b rl).length = pre.length + 4 + ((encodeRL rl).length + 4) := by
      rw [List.length_append, idxRecBytes_length]; omega
    have ih' := ih (fun x hx => hok x (List.mem_cons_of_mem _ hx)) (pre ++ idxRecBytes b rl) f
      (by simp at hf; omega)
    rw [← e1, e2] at ih'
    simp only [parseOldIndex, h1, h3, h2, ih', Option.map_none]

/-- the legacy index of `C` with a torn tail -/
def tornIndex (C : LegacyC) (t : Bytes) : Bytes := [2, 0, 0, 0, 2, C.bits] ++ (logBytes C.gens ++ t)

theorem upgradeIndexU_torn (upmax : Nat) (t : Bytes) (ht : TornTail t)
    (hok : ∀ r ∈ C.gens, (encodeRL r.2).length + 4 < two32) (ud : UDir) (h : ud.index = some (tornIndex C t)) :
    upgradeIndexU upmax ud = none := by
  unfold upgradeIndexU
  rw [h]
  unfold tornIndex
  simp only [readOldHeader_legacy, ne_eq, not_true_eq_false, if_false]
  have hp := parseOldIndex_torn t ht C.gens hok [2, 0, 0, 0, 2, C.bits]
    (([2, 0, 0, 0, 2, C.bits] ++ (logBytes C.gens ++ t)).length + 1) (by
      have := logBytes_length_ge C.gens
      simp only [List.length_append]
      omega)
  have e6 : ([2, 0, 0, 0, 2, C.bits] : Bytes).length = 6 := rfl
  rw [e6] at hp
  rw [hp]

/-- whatever the state of the rest of the directory: with a torn legacy index, OpenStore fails -/
theorem openU_torn_index (c : Cfg) (t : Bytes) (ht : TornTail t)
    (hok : ∀ r ∈ C.gens, (encodeRL r.2).length + 4 < two32) (ud : UDir) (h : ud.index = some (tornIndex C t))
    (order forder : List Nat) : openU c ud order forder = none := by
  unfold openU
  split
  · rfl
  · dsimp only
    cases hp : openPrimaryU c { ud with disk := openFreelist ud.disk } with
    | none => rfl
    | some r =>
      obtain ⟨ud', pmax, pfn, plen⟩ := r
      dsimp only
      have hidx : ud'.index = some (tornIndex C t) := by
        unfold openPrimaryU at hp
        dsimp only at hp
        repeat' split at hp
        all_goals cases hp
        all_goals exact h
      have : ∀ pfirst, openIndexU c pmax pfirst pfn ud' forder = none := by
        intro pfirst
        unfold openIndexU
        split
        · rfl
        · split
          · rfl
          · rw [upgradeIndexU_torn _ t ht hok ud' hidx]
      rw [this]

/-- the upgrading open of a legacy directory whose index has a torn tail is refused -/
theorem upgradeOpen_torn_index (c : Cfg) (C : LegacyC) (t : Bytes) (ht : TornTail t)
    (hok : ∀ r ∈ C.gens, (encodeRL r.2).length + 4 < two32) (order : List Nat) :
    upgradeOpen c { C.dir with index := C.dir.index ++ t } order = none := by
  unfold upgradeOpen
  rw [openU_torn_index c t ht hok (UDir.ofLegacy { C.dir with index := C.dir.index ++ t }) (by
    show some (C.dir.index ++ t) = some (tornIndex C t)
    unfold tornIndex dir
    simp [List.append_assoc]) order []]

end C10T

end Sth

namespace Sth

namespace C10T

open LegacyC

variable {c : Cfg} {U : List (Bytes × Bytes)} {C : LegacyC}

/-! ### the directory a refused upgrade leaves, and its repair -/

/-- the numbered index files chunkOldIndex has written when it meets the torn tail: the chunks it has
    completed, and the file of the chunk in progress — empty, because the error path closes it without
    flushing the writer (chunks below the 128 KiB buffer of the bufio.Writer; a larger chunk in progress
    would have been written in part) -/
def junkFiles (c : Cfg) (C : LegacyC) : List Bytes := (C.ifilesL c.ifs).dropLast ++ [[]]

/-- the directory after the refused open: primary converted, old primary removed, freelist applied and
    removed; old index untouched; no index header; the partial numbered index files -/
def refusedDir (c : Cfg) (C : LegacyC) (t : Bytes) : UDir :=
  { data := none, index := some (tornIndex C t),
    disk := { C.diskP c with ifiles := setFiles [] 0 (junkFiles c C) } }

theorem junk_length (c : Cfg) (C : LegacyC) : (junkFiles c C).length = (C.ifilesL c.ifs).length := by
  have hne := C.ifilesL_ne c.ifs
  have hpos : 0 < (C.ifilesL c.ifs).length := List.length_pos_iff.mpr hne
  unfold junkFiles
  simp only [List.length_append, List.length_dropLast, List.length_cons, List.length_nil]
  omega

theorem setFiles_over (junk files : List Bytes) (h : junk.length = files.length) :
    setFiles (setFiles [] 0 junk) 0 files = setFiles [] 0 files := by
  apply NMap.ext_sorted (setFiles_sorted _ _ _ (setFiles_sorted _ _ _ NMap.sorted_nil))
    (setFiles_sorted _ _ _ NMap.sorted_nil)
  intro k
  rw [setFiles_get?, setFiles_get?, setFiles_get?]
  by_cases hk : 0 ≤ k ∧ k < 0 + files.length
  · rw [if_pos hk, if_pos hk]
  · rw [if_neg hk, if_neg (by omega), if_neg hk]

/-- every later open is refused as well -/
theorem refused_again (c : Cfg) (C : LegacyC) (t : Bytes) (ht : TornTail t)
    (hok : ∀ r ∈ C.gens, (encodeRL r.2).length + 4 < two32) (order forder : List Nat) :
    openU c (refusedDir c C t) order forder = none :=
  openU_torn_index c t ht hok _ rfl order forder

/-- once the torn tail is cut off the legacy index, the next open completes the upgrade -/
theorem repaired (hc : c.Legal) (hk : c.kind = .mh) (hwf : LegacyWFU c U C)
    (hn1 : C.recs.length < 1073741824) (hn2 : C.gens.length < 1073741824) (t : Bytes) :
    ∃ ifs, openU c { refusedDir c C t with index := some C.dir.index } [] [] =
        some ({ disk := C.diskU c ifs }, C.memU c ifs) ∧
      (∀ f, f ≤ C.lastI c → ifs.get? f = some (logBytes (C.lgU c f))) ∧
      (∀ f, C.lastI c < f → ifs.get? f = none) := by
  obtain ⟨p1, p2, p3, p4⟩ := openIndex_pre c hc
  obtain ⟨ifs, hi1, hi2, hi3⟩ := openIndexU_chunked hc hwf hn1 hn2 none
  refine ⟨ifs, ?_, hi2, hi3⟩
  unfold openU refusedDir
  simp only [hk, ne_eq, not_true_eq_false, if_false]
  have hof : openFreelist ({ C.diskP c with ifiles := setFiles [] 0 (junkFiles c C) } : Disk) =
      { C.diskP c with ifiles := setFiles [] 0 (junkFiles c C) } := rfl
  rw [hof, openPrimaryU_done hc hk none (some C.dir.index) _ rfl rfl rfl]
  dsimp only
  have hup := upgradeIndexU_legacy (c := c) (C := C) (gens_enc32 hwf) none
    ({ C.diskP c with ifiles := setFiles [] 0 (junkFiles c C) } : Disk)
  have hup2 : upgradeIndexU c.ifs { data := none, disk := C.diskPre c (setFiles [] 0 (C.ifilesL c.ifs)) } =
      some { data := none, disk := C.diskPre c (setFiles [] 0 (C.ifilesL c.ifs)) } := rfl
  have e1 : ({ data := none, index := some C.dir.index,
               disk := { C.diskP c with ifiles := setFiles [] 0 (junkFiles c C) } } : UDir) =
      { data := none, index := some ([2, 0, 0, 0, 2, C.bits] ++ logBytes C.gens),
        disk := { C.diskP c with ifiles := setFiles [] 0 (junkFiles c C) } } := rfl
  have e2 : ({ ({ C.diskP c with ifiles := setFiles [] 0 (junkFiles c C) } : Disk) with
        ifiles := setFiles ({ C.diskP c with ifiles := setFiles [] 0 (junkFiles c C) } : Disk).ifiles 0
          (C.ifilesL c.ifs),
        ihdr := some ⟨C.bits, c.ifs, 0, 0⟩ } : Disk) = C.diskPre c (setFiles [] 0 (C.ifilesL c.ifs)) := by
    show ({ ({ C.diskP c with ifiles := setFiles [] 0 (junkFiles c C) } : Disk) with
        ifiles := setFiles (setFiles [] 0 (junkFiles c C)) 0 (C.ifilesL c.ifs),
        ihdr := some ⟨C.bits, c.ifs, 0, 0⟩ } : Disk) = _
    rw [setFiles_over _ _ (junk_length c C), hwf.bits]
    rfl
  have hsame : openIndexU c c.pfs 0 (C.lastP c)
      { data := none, index := some C.dir.index,
        disk := { C.diskP c with ifiles := setFiles [] 0 (junkFiles c C) } } [] =
      openIndexU c c.pfs 0 (C.lastP c)
      { data := none, disk := C.diskPre c (setFiles [] 0 (C.ifilesL c.ifs)) } [] := by
    unfold openIndexU
    simp only [p1, p2, if_false, p4]
    rw [e1, hup, e2, hup2]
  erw [hsame, hi1]
  simp only [List.isEmpty_nil, if_true]
  rfl

end C10T

end Sth
