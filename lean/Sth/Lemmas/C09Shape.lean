/-
C09 — the parts of the directory that Close / OpenStore only normalise: the freelist file is a whole
number of 12-byte entries and (CID primary) the primary file exists.  On such a disk `openFreelist`
and `openPrimary` change nothing, which is what "a refused open leaves the directory untouched" needs.
Core Lean only.
-/
import Sth.Lemmas.C02
import Sth.Model.Translate

namespace Sth.C09

/-- the freelist file exists and is a whole number of entries; the CID primary's file exists -/
structure DShape (c : Cfg) (d : Disk) : Prop where
  free : ∃ f, d.free = some f ∧ f.length % 12 = 0
  cid : c.kind = .cid → d.cidfile ≠ none

theorem openFreelist_id {c : Cfg} {d : Disk} (h : DShape c d) : openFreelist d = d := by
  obtain ⟨f, hf, hm⟩ := h.free
  unfold openFreelist
  simp only [hf, Option.getD_some, hm, Nat.sub_zero, List.take_length]
  rw [← hf]

/-! ### flushes -/

theorem pstepMh_frame {m m' : Mem} {d d' : Disk} {r : PRec} (h : pstepMh (m, d) r = some (m', d')) :
    d'.free = d.free ∧ d'.cidfile = d.cidfile := by
  unfold pstepMh at h
  simp only at h
  split at h
  · cases h
  · by_cases hroll : m.plength ≥ m.pmax
    · simp only [hroll, if_true, Option.some.injEq, Prod.mk.injEq] at h
      obtain ⟨_, rfl⟩ := h
      exact ⟨rfl, rfl⟩
    · simp only [hroll, if_false, Option.some.injEq, Prod.mk.injEq] at h
      obtain ⟨_, rfl⟩ := h
      exact ⟨rfl, rfl⟩

theorem pfold_frame : ∀ (recs : List PRec) (m m' : Mem) (d d' : Disk),
    recs.foldlM pstepMh (m, d) = some (m', d') → d'.free = d.free ∧ d'.cidfile = d.cidfile
  | [], m, m', d, d', h => by
    simp only [List.foldlM, pure, Option.some.injEq, Prod.mk.injEq] at h
    obtain ⟨_, rfl⟩ := h
    exact ⟨rfl, rfl⟩
  | r :: recs, m, m', d, d', h => by
    rw [List.foldlM_cons] at h
    cases hs : pstepMh (m, d) r with
    | none => rw [hs] at h; cases h
    | some md =>
      obtain ⟨m1, d1⟩ := md
      rw [hs] at h
      obtain ⟨a1, a2⟩ := pstepMh_frame hs
      obtain ⟨b1, b2⟩ := pfold_frame recs m1 m' d1 d' h
      exact ⟨b1.trans a1, b2.trans a2⟩

theorem priFlush_frame {m m' : Mem} {d d' : Disk} (h : priFlush m d = some (m', d')) :
    d'.free = d.free ∧ (d.cidfile ≠ none → d'.cidfile ≠ none) := by
  by_cases hne : m.pnext.isEmpty = true
  · rw [priFlush_empty hne] at h
    simp only [Option.some.injEq, Prod.mk.injEq] at h
    obtain ⟨_, rfl⟩ := h
    exact ⟨rfl, fun x => x⟩
  · have hne' : m.pnext.isEmpty = false := by simpa using hne
    rcases kind_cases m with hk | hk
    · rw [priFlush_mh_eq hk hne'] at h
      obtain ⟨a1, a2⟩ := pfold_frame _ _ _ _ _ h
      exact ⟨a1, fun x => by rw [a2]; exact x⟩
    · rw [priFlush_cid_eq hk hne'] at h
      simp only [Option.some.injEq, Prod.mk.injEq] at h
      obtain ⟨_, rfl⟩ := h
      exact ⟨rfl, fun _ => by simp⟩

theorem ifold_frame (pool : NMap RecordList) : ∀ (order : List Nat) (acc : Mem × Disk × List (Nat × Nat)),
    (order.foldl (iflushStep pool) acc).2.1.free = acc.2.1.free ∧
      (order.foldl (iflushStep pool) acc).2.1.cidfile = acc.2.1.cidfile
  | [], _ => ⟨rfl, rfl⟩
  | b :: order, acc => by
    rw [List.foldl_cons]
    obtain ⟨i1, i2⟩ := ifold_frame pool order (iflushStep pool acc b)
    rw [i1, i2]
    obtain ⟨am, ad, ab⟩ := acc
    cases hg : pool.get? b with
    | none => rw [iflushStep_none hg]; exact ⟨rfl, rfl⟩
    | some rl =>
      by_cases hroll : am.ilength ≥ am.imax
      · unfold iflushStep; simp [hg, hroll]
      · unfold iflushStep; simp [hg, hroll]

theorem idxFlush_frame (m : Mem) (d : Disk) (order : List Nat) :
    (idxFlush m d order).2.free = d.free ∧ (idxFlush m d order).2.cidfile = d.cidfile := by
  by_cases hne : m.inext.isEmpty = true
  · rw [idxFlush_empty hne]; exact ⟨rfl, rfl⟩
  · have hne' : m.inext.isEmpty = false := by simpa using hne
    rw [idxFlush_eq hne']
    exact ifold_frame m.inext order _

theorem blockBytes_len (b : Block) : (blockBytes b).length = 12 := by
  unfold blockBytes le64 le32; simp [leEnc_length]

theorem flat_len : ∀ l : List Block, (l.flatMap blockBytes).length = 12 * l.length
  | [] => rfl
  | b :: l => by
    rw [List.flatMap_cons, List.length_append, blockBytes_len, flat_len l, List.length_cons]
    omega

theorem flFlush_frame {m m' : Mem} {d d' : Disk} (h : flFlush m d = (m', d'))
    (hf : ∃ f, d.free = some f ∧ f.length % 12 = 0) :
    (∃ f, d'.free = some f ∧ f.length % 12 = 0) ∧ d'.cidfile = d.cidfile ∧ d'.snap = d.snap := by
  unfold flFlush at h
  split at h
  · simp only [Prod.mk.injEq] at h
    obtain ⟨_, rfl⟩ := h
    exact ⟨hf, rfl, rfl⟩
  · simp only [Prod.mk.injEq] at h
    obtain ⟨_, rfl⟩ := h
    obtain ⟨f, h1, h2⟩ := hf
    refine ⟨⟨_, rfl, ?_⟩, rfl, rfl⟩
    rw [h1, Option.getD_some, List.length_append, flat_len]
    omega

theorem storeFlush_shape {c : Cfg} {m m' : Mem} {d d' : Disk} {order : List Nat}
    (h : storeFlush m d order = some (m', d')) (hD : DShape c d) : DShape c d' := by
  unfold storeFlush at h
  split at h
  · unfold commit at h
    cases hp : priFlush m d with
    | none => rw [hp] at h; cases h
    | some md =>
      obtain ⟨m1, d1⟩ := md
      rw [hp] at h
      simp only [Option.some.injEq] at h
      obtain ⟨p1, p2⟩ := priFlush_frame hp
      obtain ⟨i1, i2⟩ := idxFlush_frame m1 d1 order
      obtain ⟨f1, f2, _⟩ := flFlush_frame (m := (idxFlush m1 d1 order).1) (d := (idxFlush m1 d1 order).2)
        h (by rw [i1, p1]; exact hD.free)
      exact ⟨f1, fun hk => by rw [f2, i2]; exact p2 (hD.cid hk)⟩
  · simp only [Option.some.injEq, Prod.mk.injEq] at h
    obtain ⟨_, rfl⟩ := h
    exact hD

theorem storeClose_shape {c : Cfg} {m : Mem} {d : Disk} {order : List Nat} {st : Store}
    (h : storeClose { disk := d, mem := some m } order = some st) (hD : DShape c d) :
    DShape c st.disk ∧ st.mem = none := by
  unfold storeClose at h
  simp only at h
  cases hp : priFlush m d with
  | none => rw [hp] at h; cases h
  | some md =>
    obtain ⟨m1, d1⟩ := md
    rw [hp] at h
    simp only [Option.some.injEq] at h
    obtain ⟨p1, p2⟩ := priFlush_frame hp
    obtain ⟨i1, i2⟩ := idxFlush_frame m1 d1 order
    obtain ⟨f1, f2, _⟩ := flFlush_frame
      (m := (idxFlush m1 d1 order).1)
      (d := { (idxFlush m1 d1 order).2 with
        snap := some ⟨8 * 2 ^ (idxFlush m1 d1 order).1.bits,
          (idxFlush m1 d1 order).1.buckets.filter (·.2 ≠ 0)⟩ })
      (m' := (flFlush (idxFlush m1 d1 order).1 _).1) (d' := (flFlush (idxFlush m1 d1 order).1 _).2) rfl
      (by show ∃ f, (idxFlush m1 d1 order).2.free = some f ∧ _; rw [i1, p1]; exact hD.free)
    subst h
    refine ⟨⟨f1, fun hk => ?_⟩, rfl⟩
    rw [f2]
    show (idxFlush m1 d1 order).2.cidfile ≠ none
    rw [i2]
    exact p2 (hD.cid hk)

/-! ### opening -/

theorem openPrimary_frame {c : Cfg} {d d1 : Disk} {pm pfn plen : Nat}
    (h : openPrimary c d = .ok (d1, pm, pfn, plen)) :
    d1.free = d.free ∧ d1.ihdr = d.ihdr ∧ d1.snap = d.snap ∧ d1.ifiles = d.ifiles ∧
      (c.kind = .cid → d1.cidfile ≠ none) := by
  unfold openPrimary at h
  rcases (by cases c.kind <;> simp : c.kind = .mh ∨ c.kind = .cid) with hk | hk
  · simp only [hk] at h
    generalize (if c.pfs = 0 then defaultMax else c.pfs) = pmax at h
    split at h
    · cases h
    · cases hph : d.phdr with
      | none =>
        rw [hph] at h
        simp only [Except.ok.injEq, Prod.mk.injEq] at h
        obtain ⟨rfl, _⟩ := h
        refine ⟨?_, ?_, ?_, ?_, fun x => by rw [hk] at x; cases x⟩ <;> (split <;> rfl)
      | some hd =>
        rw [hph] at h
        simp only at h
        split at h
        · cases h
        · simp only [Except.ok.injEq, Prod.mk.injEq] at h
          obtain ⟨rfl, _⟩ := h
          refine ⟨?_, ?_, ?_, ?_, fun x => by rw [hk] at x; cases x⟩ <;> (split <;> rfl)
  · simp only [hk, Except.ok.injEq, Prod.mk.injEq] at h
    obtain ⟨rfl, _⟩ := h
    exact ⟨rfl, rfl, rfl, rfl, fun _ => by simp⟩

theorem openIndex_frame {c : Cfg} {d d' : Disk} {p bits imax last : Nat} {bk : NMap Nat}
    (h : openIndex c p d = .ok (d', bits, imax, bk, last)) :
    d'.free = d.free ∧ d'.cidfile = d.cidfile := by
  unfold openIndex at h
  split at h
  · cases h
  · split at h
    · cases h
    · cases hih : d.ihdr with
      | none =>
        rw [hih] at h
        simp only [Except.ok.injEq, Prod.mk.injEq] at h
        obtain ⟨rfl, _⟩ := h
        constructor <;> (split <;> rfl)
      | some hd =>
        rw [hih] at h
        simp only at h
        generalize (if c.bits = 0 then hd.bits else c.bits) = bits' at h
        generalize (if c.ifs = 0 then hd.max else c.ifs) = imax' at h
        split at h
        · cases h
        · split at h
          · cases h
          · split at h
            · cases h
            · rename_i dl bkl lastl hl
              split at h
              · cases h
              · simp only [Except.ok.injEq, Prod.mk.injEq] at h
                obtain ⟨rfl, _⟩ := h
                have : dl.free = d.free ∧ dl.cidfile = d.cidfile := by
                  repeat' (split at hl)
                  all_goals first
                    | (cases hl; done)
                    | (simp only [Option.some.injEq, Prod.mk.injEq] at hl
                       obtain ⟨rfl, _⟩ := hl
                       exact ⟨rfl, rfl⟩)
                split <;> exact this
theorem openStore_shape {c : Cfg} {d d' : Disk} {m' : Mem} (h : openStore c d = (d', .ok m'))
    (hD : DShape c d) : DShape c d' := by
  unfold openStore at h
  simp only at h
  cases hp : openPrimary c { d with free := some (d.free.getD []) } with
  | error e => rw [hp] at h; simp only [Prod.mk.injEq] at h; cases h.2
  | ok r =>
    obtain ⟨d1, pm, pfn, plen⟩ := r
    rw [hp] at h
    simp only at h
    obtain ⟨p1, _, _, _, p5⟩ := openPrimary_frame hp
    cases hi : openIndex c pm d1 with
    | error e => rw [hi] at h; simp only [Prod.mk.injEq] at h; cases h.2
    | ok r2 =>
      obtain ⟨d3, bits, imax, bk, last⟩ := r2
      rw [hi] at h
      simp only [Prod.mk.injEq] at h
      obtain ⟨rfl, _⟩ := h
      obtain ⟨i1, i2⟩ := openIndex_frame hi
      obtain ⟨f, hf, hm⟩ := hD.free
      refine ⟨⟨f, ?_, hm⟩, fun hk => by rw [i2]; exact p5 hk⟩
      rw [i1, p1]
      show some (d.free.getD []) = some f
      rw [hf]; rfl

/-! ### one step, the run -/

theorem step_shape {c : Cfg} {s : SState} (hD : DShape c s.d) (hcfg : s.cfg = c) (op : SOp)
    (hop : op.isC02 = true) : DShape c (stepS s op).1.d := by
  cases op with
  | put k v =>
    have : (stepS s (.put k v)).1.d = s.d := by simp only [stepS]; split <;> rfl
    rw [this]; exact hD
  | get k =>
    have : (stepS s (.get k)).1.d = s.d := by simp only [stepS]; split <;> rfl
    rw [this]; exact hD
  | has k =>
    have : (stepS s (.has k)).1.d = s.d := by simp only [stepS]; split <;> rfl
    rw [this]; exact hD
  | size k =>
    have : (stepS s (.size k)).1.d = s.d := by simp only [stepS]; split <;> rfl
    rw [this]; exact hD
  | rm k =>
    have : (stepS s (.rm k)).1.d = s.d := by simp only [stepS]; split <;> rfl
    rw [this]; exact hD
  | flush order =>
    simp only [stepS]
    cases hf : storeFlush s.m s.d (fixOrder order s.m.inext.keys) with
    | none => exact hD
    | some md => exact storeFlush_shape hf hD
  | iter order =>
    simp only [stepS]
    cases hf : storeFlush s.m s.d (fixOrder order s.m.inext.keys) with
    | none => exact hD
    | some md =>
      obtain ⟨m1, d1⟩ := md
      simp only
      split <;> exact storeFlush_shape hf hD
  | igc a b => cases hop
  | pgc a b => cases hop
  | reopen order us =>
    simp only [stepS]
    cases hcl : storeClose { disk := s.d, mem := some s.m } (fixOrder order s.m.inext.keys) with
    | none => exact hD
    | some st =>
      simp only
      obtain ⟨c1, _⟩ := storeClose_shape hcl hD
      have c2 : DShape c (if us = true then st.disk else { st.disk with snap := none }) := by
        split
        · exact c1
        · exact ⟨c1.free, c1.cid⟩
      split
      · rename_i d' m' ho
        rw [hcfg] at ho
        exact openStore_shape ho c2
      · exact hD

theorem run_shape {c : Cfg} {U : List (Bytes × Bytes)} (hc : c.Legal) (hU : Univ c.kind U) :
    ∀ (ops : List SOp) (s : SState) (spec : Spec) (n B : Nat),
    Inv c U s spec n B → XInv c s → DShape c s.d → (∀ op ∈ ops, op.isC02 = true) →
    (∀ op ∈ ops, ∀ k, op.keyOf = some k → ∀ dig, keyClass c.kind k = .ok dig → (k, dig) ∈ U) →
    n + ops.length < 1073741824 → B + (ops.map SOp.bytes).sum < two31 →
    DShape c (runS s ops).1.d
  | [], _, _, _, _, _, _, hD, _, _, _, _ => hD
  | op :: ops, s, spec, n, B, hI, hX, hD, ha, hk, hn, hB => by
    simp only [List.length_cons, List.map_cons, List.sum_cons] at hn hB
    obtain ⟨_, h2, h3⟩ := step_ok2 hc hU hI hX op (ha op (by simp)) (hk op (by simp)) (by omega)
      (by omega)
    rw [runS_cons_fst]
    exact run_shape hc hU ops (stepS s op).1 (specStep c.kind c.imm spec op).1 (n + 1) (B + op.bytes)
      h2 h3 (step_shape hD hX.cfg op (ha op (by simp))) (fun o ho => ha o (by simp [ho]))
      (fun o ho => hk o (by simp [ho])) (by omega) (by omega)

theorem shape_init (c : Cfg) (hc : c.Legal) (s : SState) (hi : initS c = some s) : DShape c s.d := by
  rcases (by cases c.kind <;> simp : c.kind = .mh ∨ c.kind = .cid) with hk | hk
  · rw [initS_mh c hc hk] at hi
    cases hi
    exact ⟨⟨[], rfl, rfl⟩, fun x => by rw [hk] at x; cases x⟩
  · rw [initS_cid c hc hk] at hi
    cases hi
    exact ⟨⟨[], rfl, rfl⟩, fun _ => by simp⟩

/-- every reachable state's disk has the shape -/
theorem reach_shape (c : Cfg) (hc : c.Legal) (ops : List SOp) (ha : ∀ op ∈ ops, op.isC02 = true)
    (hk : KeysOK c.kind ops) (hs : SizesOK ops) (s : SState) (hi : initS c = some s) :
    DShape c (runS s ops).1.d := by
  have hU := univ_of_keysOK hk (keysExact_all c.kind ops)
  apply run_shape hc hU ops s [] 0 0 (inv_init c hc _ s hi) (xinv_init c hc s hi) (shape_init c hc s hi) ha
  · intro op ho k hkey dig hcls
    exact mem_digestsOf ho hkey hcls
  · have := hs.1; omega
  · have := hs.2.1; omega

end Sth.C09
