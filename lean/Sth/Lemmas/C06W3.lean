/-
C06 — the relocation window of primary GC, part 3: copy, window, finish put together.
Core Lean only.
-/
import Sth.Lemmas.C06W2

namespace Sth.C06W

open Sth.C11 Sth.C13H Sth.C13X

section
variable {c : Cfg} {U : List (Bytes × Bytes)} {s : SState} {spec : Spec} {n B : Nat}

/-- copy → calls of other threads → finish, from a state satisfying the GC invariant: the calls return
    what the map returns, and after the finish the GC invariant holds for the map AFTER the calls -/
theorem window_g (hc : c.Legal) (hU : Univ c.kind U) (hG : GInv c U s spec n B)
    (hnd : (recordedG s).Nodup) (hn : n + 1 < 268435456) {pf : Nat} {psp : Nat → List GSpan}
    (zh : s.d.phdr = some ⟨s.m.pmax, pf⟩) (zl : PriLog s.m s.d pf psp) {fnum at_ : Nat} {body : Bytes}
    (h1 : pf ≤ fnum) (h2 : fnum < s.m.pfileNum) (hx : (at_, body) ∈ liveAt 0 (psp fnum))
    {m1 : Mem} {l : RelocLocal}
    (hcopy : relocCopy s.m fnum (gbytes (psp fnum)) at_ body.length = some (m1, l))
    (win : List SOp) (hw : ∀ op ∈ win, isWin op = true)
    (hk : ∀ op ∈ win, ∀ k, op.keyOf = some k → ∀ dig, keyClass c.kind k = .ok dig → (k, dig) ∈ U)
    (hb : GcCountersOK ⟨s.cfg, m1, s.d⟩ win) (hB : B + (win.map SOp.bytes).sum < two31)
    (hfin : gcCnt (runS ⟨s.cfg, m1, s.d⟩ win).1 < 268435456) :
    (runS ⟨s.cfg, m1, s.d⟩ win).2 = (specRun c.kind c.imm spec win).2 ∧
      ∃ n', GInv c U
          { (runS ⟨s.cfg, m1, s.d⟩ win).1 with
            m := relocFinish (runS ⟨s.cfg, m1, s.d⟩ win).1.m (runS ⟨s.cfg, m1, s.d⟩ win).1.d l }
          (specRun c.kind c.imm spec win).1 n' (B + (win.map SOp.bytes).sum) ∧
        FinOut (runS ⟨s.cfg, m1, s.d⟩ win).1 l ∧
        (IsEnt (runS ⟨s.cfg, m1, s.d⟩ win).1.m (runS ⟨s.cfg, m1, s.d⟩ win).1.d l.old →
          Rel s.cfg s.m s.d
            (relocFinish (runS ⟨s.cfg, m1, s.d⟩ win).1.m (runS ⟨s.cfg, m1, s.d⟩ win).1.d l)
            (runS ⟨s.cfg, m1, s.d⟩ win).1.d) := by
  obtain ⟨cfg, m, d⟩ := s
  have zh : d.phdr = some ⟨m.pmax, pf⟩ := zh
  have zl : PriLog m d pf psp := zl
  have h2 : fnum < m.pfileNum := h2
  have hfin : gcCnt (runS ⟨cfg, m1, d⟩ win).1 < 268435456 := hfin
  obtain ⟨key, val, hrn, hbody, hik, rfl, hold, hloc⟩ := relocCopy_span zl h1 (Nat.le_of_lt h2) hx hcopy
  subst hbody
  have hblen : (key ++ val).length < two31 := zl.ok fnum h1 (Nat.le_of_lt h2) ⟨false, key ++ val⟩ (by
    obtain ⟨a, b, e, _⟩ := liveAt_split (psp fnum) 0 at_ (key ++ val) hx
    rw [e]; simp)
  have hsz : key.length + val.length < two31 := by simpa using hblen
  have hG1 : GInv c U ⟨cfg, putMem m key val, d⟩ spec (n + 1) B :=
    ginv_copy hU hG (by omega) hrn hsz
  have hpre : PutPre m key val := GInv.putPre (s := ⟨cfg, m, d⟩) hG (by omega) hsz
  have hnd1 : (recordedG ⟨cfg, putMem m key val, d⟩).Nodup := by
    have e : recordedG ⟨cfg, putMem m key val, d⟩ = recordedG ⟨cfg, m, d⟩ :=
      recordedG_congr rfl rfl (putMem_flpool m key val)
    rw [e]; exact hnd
  -- the copy and the closed file right after the copy step
  have hC1 : CopyAt (putMem m key val) d l.loc key val := by
    refine ⟨⟨pf, psp, by rw [putMem_pmax]; exact zh,
      zl.frame (putMem_pfileNum _ _ _) (putMem_pmax _ _ _), Or.inl ?_⟩⟩
    refine ⟨⟨nextBlk m (key.length + val.length), key, val⟩, ?_, hloc.symm, rfl, rfl⟩
    rw [putMem_pnext]; simp
  have hO1 : OldAt (putMem m key val) d fnum (psp fnum) :=
    ⟨zl.files fnum h1 (Nat.le_of_lt h2), by rw [putMem_pfileNum]; exact h2,
      ⟨pf, by rw [putMem_pmax]; exact zh, h1⟩, zl.ok fnum h1 (Nat.le_of_lt h2)⟩
  obtain ⟨w1, ⟨n2, w2⟩, w3, w4, w5, w6⟩ := win_run hc hU win ⟨cfg, putMem m key val, d⟩ spec (n + 1) B
    hG1 hnd1 hw hk hb hB hC1 hO1
  refine ⟨w1, ?_⟩
  -- the facts at the end of the window
  have hlocNB : ¬ Below m l.loc := by rw [hloc]; exact not_below_next hpre.pmax _
  have hlocB1 : Below (putMem m key val) l.loc := by rw [hloc]; exact below_putMem_new hpre.pmax key val
  have hent1 : ∀ blk, IsEnt (putMem m key val) d blk → blk.off ≠ l.loc.off := by
    intro blk hb' hc'
    have hb0 : IsEnt m d blk := by
      unfold IsEnt at hb' ⊢
      simp only [idxRecords_putMem] at hb'
      exact hb'
    exact hlocNB (below_of_off hc'.symm (ent_below (m := m) (d := d) hG.a hb0))
  have hnew1 : ∀ blk, ¬ Below (putMem m key val) blk → blk.off ≠ l.loc.off := by
    intro blk hnb hc'
    exact hnb (below_of_off hc' hlocB1)
  obtain ⟨pf0, psp0, hS0⟩ := hG.state
  have hrec1 : ∀ fb ∈ recordedG ⟨cfg, putMem m key val, d⟩, fb.off ≠ l.loc.off := by
    intro fb hfb hc'
    have e : recordedG ⟨cfg, putMem m key val, d⟩ = recordedG ⟨cfg, m, d⟩ :=
      recordedG_congr rfl rfl (putMem_flpool m key val)
    rw [e] at hfb
    obtain ⟨q1, _⟩ := rec_freeOK hS0 fb hfb
    exact hlocNB (below_of_off hc'.symm q1)
  have hcfg : (runS ⟨cfg, putMem m key val, d⟩ win).1.cfg = cfg := w4
  have hpre2 : FinPre c U (runS ⟨cfg, putMem m key val, d⟩ win).1
      (specRun c.kind c.imm spec win).1 (gcCnt (runS ⟨cfg, putMem m key val, d⟩ win).1) (B + (win.map SOp.bytes).sum) l key val fnum at_
      (psp fnum) := by
    have hps : (runS ⟨cfg, putMem m key val, d⟩ win).1.m.pmax = m.pmax := by
      obtain ⟨pfa, e1, _⟩ := w6.first
      obtain ⟨pfb, e2, _⟩ := hO1.first
      -- the header's file size never changes: both states carry it
      have h3 : (runS ⟨cfg, putMem m key val, d⟩ win).1.m.pmax = hdrPfs c := w2.y.pmax
      have h4 : m.pmax = hdrPfs c := hG.y.pmax
      rw [h3, h4]
    refine ⟨w2.tight, w5, w6, hx, hrn, hik, by rw [hold, hps], w3.below _ hlocB1, ?_, ?_, ?_, ?_, ?_⟩
    · intro blk hb'
      rcases w3.ents blk hb' with h' | h'
      · exact hent1 blk h'
      · exact hnew1 blk h'
    · intro fb hfb
      have hfb' : fb ∈ recordedG ⟨cfg, (runS ⟨cfg, putMem m key val, d⟩ win).1.m,
          (runS ⟨cfg, putMem m key val, d⟩ win).1.d⟩ := by
        have e : recordedG (runS ⟨cfg, putMem m key val, d⟩ win).1 =
            recordedG ⟨cfg, (runS ⟨cfg, putMem m key val, d⟩ win).1.m,
              (runS ⟨cfg, putMem m key val, d⟩ win).1.d⟩ := by unfold recordedG; rfl
        rw [← e]; exact hfb
      rcases w3.recs fb hfb' with h' | h' | h'
      · exact hrec1 fb h'
      · exact hent1 fb h'
      · exact hnew1 fb h'
    · rw [hloc, nextBlk_size]
    · rw [hloc]; exact hpre.off
    · have := w3.nodup
      have e : recordedG (runS ⟨cfg, putMem m key val, d⟩ win).1 =
          recordedG ⟨cfg, (runS ⟨cfg, putMem m key val, d⟩ win).1.m,
            (runS ⟨cfg, putMem m key val, d⟩ win).1.d⟩ := by unfold recordedG; rfl
      rw [e]; exact this
  obtain ⟨g1, g2⟩ := finish_g hU hpre2 (by omega)
  refine ⟨_, g1, g2, ?_⟩
  intro hentOld
  -- the whole of copy, window and finish as ONE step from the state before the copy
  have hb01 : ∀ blk, Below m blk → Below (putMem m key val) blk := fun blk hb' => below_putMem key val hb'
  have hnb : ∀ blk, ¬ Below (putMem m key val) blk → ¬ Below m blk := fun blk h' hc' => h' (hb01 blk hc')
  have hent01 : ∀ blk, IsEnt (putMem m key val) d blk → IsEnt m d blk := by
    intro blk hb'
    unfold IsEnt at hb' ⊢
    simp only [idxRecords_putMem] at hb'
    exact hb'
  have hrec01 : recordedG ⟨cfg, putMem m key val, d⟩ = recordedG ⟨cfg, m, d⟩ :=
    recordedG_congr rfl rfl (putMem_flpool m key val)
  have hold2 : ∀ blk, IsEnt (runS ⟨cfg, putMem m key val, d⟩ win).1.m
      (runS ⟨cfg, putMem m key val, d⟩ win).1.d blk → IsEnt m d blk ∨ ¬ Below m blk := by
    intro blk hb'
    rcases w3.ents blk hb' with h' | h'
    · exact Or.inl (hent01 blk h')
    · exact Or.inr (hnb blk h')
  cases g2 with
  | refused hno _ _ _ => exact absurd rfl (hno _ hentOld)
  | moved hent hrec hndup hget hents hbelow =>
    have hrec3 : recordedG ⟨cfg, relocFinish (runS ⟨cfg, putMem m key val, d⟩ win).1.m
          (runS ⟨cfg, putMem m key val, d⟩ win).1.d l, (runS ⟨cfg, putMem m key val, d⟩ win).1.d⟩ =
        recordedG ⟨cfg, (runS ⟨cfg, putMem m key val, d⟩ win).1.m,
          (runS ⟨cfg, putMem m key val, d⟩ win).1.d⟩ ++ [l.old] := by
      have : recordedG { (runS ⟨cfg, putMem m key val, d⟩ win).1 with
          m := relocFinish (runS ⟨cfg, putMem m key val, d⟩ win).1.m
            (runS ⟨cfg, putMem m key val, d⟩ win).1.d l } =
          recordedG (runS ⟨cfg, putMem m key val, d⟩ win).1 ++ [l.old] := hrec
      unfold recordedG at this ⊢
      exact this
    refine ⟨fun blk hb' => hbelow blk (w3.below blk (hb01 blk hb')), ?_, ?_, ?_⟩
    · intro blk hb'
      rcases hents blk hb' with rfl | h'
      · exact Or.inr hlocNB
      · exact hold2 blk h'
    · intro b hb'
      rw [hrec3, List.mem_append, List.mem_singleton] at hb'
      rcases hb' with h' | rfl
      · rcases w3.recs b h' with h'' | h'' | h''
        · exact Or.inl (by rw [← hrec01]; exact h'')
        · exact Or.inr (Or.inl (hent01 b h''))
        · exact Or.inr (Or.inr (hnb b h''))
      · exact Or.inr (hold2 _ hent)
    · have : (recordedG { (runS ⟨cfg, putMem m key val, d⟩ win).1 with
          m := relocFinish (runS ⟨cfg, putMem m key val, d⟩ win).1.m
            (runS ⟨cfg, putMem m key val, d⟩ win).1.d l }).Nodup := hndup
      unfold recordedG at this ⊢
      exact this

end

end Sth.C06W
