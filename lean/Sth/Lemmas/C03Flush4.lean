/-
C03 over histories with GC cycles — what the crash analysis needs to know about one Store.Flush, packaged
so that it can be supplied from the C01/C04 invariant (`Inv` + `YInv`, CID stores) and from the GC
invariant (`GInv`, multihash stores) alike.
Core Lean only.
-/
import Sth.Lemmas.C03Idx4
import Sth.Lemmas.C03Pri4
import Sth.Lemmas.C03GcCrash

namespace Sth

/-! ### the memory state after a primary flush, without any invariant -/

theorem pstepMh_mem {m m' : Mem} {d d' : Disk} {r : PRec} (h : pstepMh (m, d) r = some (m', d')) :
    m' = { m with pfileNum := m'.pfileNum, plength := m'.plength } := by
  unfold pstepMh at h
  simp only at h
  split at h
  · cases h
  · simp only [Option.some.injEq, Prod.mk.injEq] at h
    obtain ⟨rfl, _⟩ := h
    rfl

theorem pfold_mem : ∀ (recs : List PRec) (m m' : Mem) (d d' : Disk),
    recs.foldlM pstepMh (m, d) = some (m', d') →
    m' = { m with pfileNum := m'.pfileNum, plength := m'.plength }
  | [], m, m', d, d', h => by
    simp only [List.foldlM, pure, Option.some.injEq, Prod.mk.injEq] at h
    obtain ⟨rfl, _⟩ := h
    rfl
  | r :: recs, m, m', d, d', h => by
    rw [List.foldlM_cons] at h
    cases hs : pstepMh (m, d) r with
    | none => rw [hs] at h; cases h
    | some md =>
      obtain ⟨m1, d1⟩ := md
      rw [hs] at h
      have e1 := pstepMh_mem hs
      have e2 := pfold_mem recs m1 m' d1 d' h
      rw [e2, e1]

theorem priFlush_mem {m m' : Mem} {d d' : Disk} (h : priFlush m d = some (m', d')) :
    m' = pfl m m'.pcur m'.pfileNum m'.plength := by
  by_cases hne : m.pnext.isEmpty = true
  · rw [priFlush_empty hne] at h
    simp only [Option.some.injEq, Prod.mk.injEq] at h
    obtain ⟨rfl, _⟩ := h
    have : m.pnext = [] := List.isEmpty_iff.mp hne
    cases m
    simp_all [pfl]
  · have hne' : m.pnext.isEmpty = false := by simpa using hne
    rcases kind_cases m with hk | hk
    · rw [priFlush_mh_eq hk hne'] at h
      have := pfold_mem _ _ _ _ _ h
      rw [this]
    · rw [priFlush_cid_eq hk hne'] at h
      simp only [Option.some.injEq, Prod.mk.injEq] at h
      obtain ⟨rfl, _⟩ := h
      rfl

/-! ### the common core of the two invariant families -/

structure CoreInv (c : Cfg) (U : List (Bytes × Bytes)) (s : SState) (spec : Spec) (n B : Nat) :
    Prop where
  kind : s.m.kind = c.kind
  imm : s.m.imm = c.imm
  bits8 : 8 ≤ s.m.bits
  bits31 : s.m.bits ≤ 31
  a : SInv U s.m s.d spec
  i : IInv s.m s.d
  y : YInv c s
  cntI : s.m.ifileNum + s.m.inext.length ≤ n
  nodup : (spec.map (·.1)).Nodup
  w : specW spec ≤ B

section
variable {c : Cfg} {U : List (Bytes × Bytes)} {s : SState} {spec : Spec} {n B : Nat}

theorem CoreInv.of_inv (hI : Inv c U s spec n B) (hY : YInv c s) : CoreInv c U s spec n B :=
  ⟨hI.kind, hI.imm, hI.bits8, hI.bits31, hI.a, hI.i, hY, hI.cnt.idx, hI.nodup, hI.w⟩

theorem CoreInv.of_ginv (hG : GInv c U s spec n B) : CoreInv c U s spec n B :=
  ⟨by rw [hG.kind, hG.kmh], hG.imm, hG.bits8, hG.bits31, hG.a, hG.i, hG.y, hG.cntI, hG.nodup, hG.w⟩

/-- the index flush of a Store.Flush, for the crash analysis -/
theorem index_pack (hU : Univ c.kind U) (hC : CoreInv c U s spec n B) (hn : n < 1073741824)
    (hB : B < two31) (hsi : NMap.Sorted s.d.ifiles) (order : List Nat) (pc : List PRec)
    (pfn plen : Nat) (d1 : Disk) (hd1 : d1.ifiles = s.d.ifiles) :
    ∃ first sp, s.d.ihdr = some ⟨c.bits, c.ifs, first, hdrPfs c⟩ ∧
      IdxLogT c.bits c.ifs s.m.ifileNum s.d.ifiles (tbl s.m) first sp ∧
      (∃ PI', SegOK4 s.d.ifiles
        (idxFlush (pfl s.m pc pfn plen) d1 (fixOrder order s.m.inext.keys)).2.ifiles first
        s.m.ifileNum PI') ∧
      (∀ fi, CutImg s.d.ifiles
          (idxFlush (pfl s.m pc pfn plen) d1 (fixOrder order s.m.inext.keys)).2.ifiles fi →
        IdxImage4 c.bits c.ifs first s.m.inext s.m.buckets s.d.ifiles fi) ∧
      NMap.Sorted (idxFlush (pfl s.m pc pfn plen) d1 (fixOrder order s.m.inext.keys)).2.ifiles := by
  have hU' : Univ s.m.kind U := by rw [hC.kind]; exact hU
  obtain ⟨f1, f2⟩ := fixOrder_ok order s.m.inext
  obtain ⟨first, sp, hih, hl⟩ := hC.y.ilog
  have hbits : s.m.bits = c.bits := hC.y.bits
  have himax : s.m.imax = c.ifs := hC.y.imax
  have hI1 : IInv (pfl s.m pc pfn plen) d1 := hC.i.frame2 hd1 rfl rfl rfl rfl rfl
  have hL1 : IdxLog (pfl s.m pc pfn plen) d1 first sp := hl.frame hd1 rfl rfl rfl rfl
  have hwf : ∀ b rl, (pfl s.m pc pfn plen).inext.get? b = some rl → FlushOK rl :=
    inext_flushOK (m := s.m) (d := s.d) hU' hC.bits31 hC.a hC.w hB
  have hpool : ∀ b rl, (pfl s.m pc pfn plen).inext.get? b = some rl →
      RecLogOK (pfl s.m pc pfn plen).bits (b, rl) := by
    intro b rl hb
    have hb' : s.m.inext.get? b = some rl := hb
    refine ⟨hC.y.inextLt b rl hb', ?_⟩
    obtain ⟨orl, h1, h2, h3⟩ := hC.a.recs b
    have : idxRecords s.m s.d b = .ok (some rl) := by unfold idxRecords; rw [hb']
    rw [this] at h1
    cases h1
    simp only [Option.getD_some] at h2 h3
    exact enc_lt31 hU' hC.bits8 hC.bits31 h2 h3 hC.w hB
  have hfn : (pfl s.m pc pfn plen).ifileNum + (fixOrder order s.m.inext.keys).length < two32 := by
    have := hC.cntI
    show s.m.ifileNum + (fixOrder order s.m.inext.keys).length < two32
    unfold two32; omega
  have hl' : IdxLogT c.bits c.ifs s.m.ifileNum s.d.ifiles (tbl s.m) first sp := by
    have h0 : IdxLogT s.m.bits s.m.imax s.m.ifileNum s.d.ifiles (tbl s.m) first sp := hl
    rw [hbits, himax] at h0; exact h0
  have hfst : FoldSt4 first (pfl s.m pc pfn plen) d1 :=
    ⟨hl.le, fun f hf => by rw [hd1]; exact hl.gone f hf,
      fun f a b => by rw [hd1, hl.files f a b]; simp, hI1.noFiles⟩
  obtain ⟨P', hseg⟩ := idxFlush_seg4 (m := pfl s.m pc pfn plen) (d := d1)
    (order := fixOrder order s.m.inext.keys) (by rw [hd1]; exact hsi) hfst
  rw [hd1] at hseg
  refine ⟨first, sp, hih, hl', ⟨P', hseg⟩, ?_, idxFlush_sorted (by rw [hd1]; exact hsi)⟩
  intro fi hc
  have := idxFlush_image4 (order := fixOrder order s.m.inext.keys) hI1 hL1 hC.bits31 hwf hpool hfn fi
    (by rw [hd1]; exact hc)
  rw [hd1] at this
  have e1 : (pfl s.m pc pfn plen).bits = c.bits := hbits
  have e2 : (pfl s.m pc pfn plen).imax = c.ifs := himax
  rw [e1, e2] at this
  exact this

end

/-! ### the index flush only touches the index files -/

theorem iflushStep_disk {pool : NMap RecordList} (acc : Mem × Disk × List (Nat × Nat)) (b : Nat) :
    (iflushStep pool acc b).2.1 = { acc.2.1 with ifiles := (iflushStep pool acc b).2.1.ifiles } := by
  obtain ⟨m, d, blks⟩ := acc
  unfold iflushStep
  simp only
  split
  · rfl
  · split <;> rfl

theorem ifold_disk {pool : NMap RecordList} : ∀ (order : List Nat) (acc : Mem × Disk × List (Nat × Nat)),
    (order.foldl (iflushStep pool) acc).2.1 =
      { acc.2.1 with ifiles := (order.foldl (iflushStep pool) acc).2.1.ifiles }
  | [], _ => rfl
  | b :: order, acc => by
    rw [List.foldl_cons]
    have h1 := ifold_disk (pool := pool) order (iflushStep pool acc b)
    have h2 := iflushStep_disk (pool := pool) acc b
    rw [h1, h2]

theorem idxFlush_disk (m : Mem) (d : Disk) (order : List Nat) :
    (idxFlush m d order).2 = { d with ifiles := (idxFlush m d order).2.ifiles } := by
  by_cases hne : m.inext.isEmpty = true
  · rw [idxFlush_empty hne]
  · have hne' : m.inext.isEmpty = false := by simpa using hne
    rw [idxFlush_eq hne']
    exact ifold_disk (pool := m.inext) order ({ m with icur := m.inext, inext := [] }, d, [])

/-! ### the package -/

/-- everything the crash analysis uses about the flush `s → (m1, d1) → (m2, d2)` -/
structure FlushPack (c : Cfg) (U : List (Bytes × Bytes)) (s : SState) (spec : Spec) (n B : Nat)
    (first pf : Nat) (m1 : Mem) (d1 : Disk) (m2 : Mem) (d2 : Disk) : Prop where
  kind2 : m2.kind = c.kind
  imm2 : m2.imm = c.imm
  bits2 : m2.bits = c.bits
  pmax2 : m2.pmax = hdrPfs c
  a2 : SInv U m2 d2 spec
  hin : m2.inext = []
  hpn : m2.pnext = []
  hR : ∀ b, idxRecords m2 d2 b = idxRecords s.m s.d b
  entDisk : ∀ blk, IsEnt m2 d2 blk → ∀ k v, priGet m2 d2 blk = .got k v →
    thrOK m2 blk ∧ diskRead m2.kind m2.pmax d2 blk = .got k v
  allocMh : c.kind = .mh → m2.pfileNum = m2.precFileNum ∧ m2.plength = m2.precPos ∧
    (fileOf d2.pfiles m2.pfileNum).length = m2.plength ∧
    (∀ f, m2.pfileNum < f → d2.pfiles.get? f = none) ∧ pf ≤ m2.pfileNum ∧
    (∀ f, pf ≤ f → f ≤ m2.pfileNum → d2.pfiles.get? f ≠ none)
  allocCid : c.kind = .cid → (d2.cidfile.getD []).length = m2.precPos
  cntMh : c.kind = .mh → m2.precFileNum ≤ n ∧ m2.pmax ≤ 1073741824
  cntCid : c.kind = .cid → m2.precPos ≤ B
  cntI2 : m2.ifileNum ≤ n
  ino2 : ∀ f, m2.ifileNum < f → d2.ifiles.get? f = none
  hd2 : d2 = { s.d with pfiles := d1.pfiles, cidfile := d1.cidfile, ifiles := d2.ifiles }
  sP : SegOK4' s.d.pfiles d1.pfiles
  sC : OptExt s.d.cidfile d1.cidfile
  sbits : s.m.bits = c.bits
  simax : s.m.imax = c.ifs
  ihdr : s.d.ihdr = some ⟨c.bits, c.ifs, first, hdrPfs c⟩
  ilog : ∃ sp, IdxLogT c.bits c.ifs s.m.ifileNum s.d.ifiles (tbl s.m) first sp
  ino : ∀ f, s.m.ifileNum < f → s.d.ifiles.get? f = none
  sI : ∃ PI', SegOK4 s.d.ifiles d2.ifiles first s.m.ifileNum PI'
  himg : ∀ fi, CutImg s.d.ifiles d2.ifiles fi →
    IdxImage4 c.bits c.ifs first s.m.inext s.m.buckets s.d.ifiles fi
  phdr : c.kind = .mh → s.d.phdr = some ⟨c.pfs, pf⟩
  smh : c.kind = .mh → ∃ P', SegOK4 s.d.pfiles d1.pfiles pf s.m.pfileNum P' ∧
    d1.cidfile = s.d.cidfile
  scid : c.kind = .cid → d1.pfiles = s.d.pfiles
  snap : s.d.snap = none

section
variable {c : Cfg} {U : List (Bytes × Bytes)} {s : SState} {spec : Spec} {n B : Nat}

/-- the package from the C01/C04 invariant, for CID stores -/
theorem flushPack_of_inv (hcid : c.kind = .cid) (hU : Univ c.kind U) (hI : Inv c U s spec n B)
    (hY : YInv c s) (hD : DiskG s.d) (hn : n < 1073741824) (hB : B < two31) (order : List Nat) :
    ∃ first m1 d1 m2 d2, priFlush s.m s.d = some (m1, d1) ∧
      idxFlush m1 d1 (fixOrder order s.m.inext.keys) = (m2, d2) ∧
      FlushPack c U s spec n B first 0 m1 d1 m2 d2 ∧
      Inv c U ⟨s.cfg, m2, d2⟩ spec n B ∧ YInv c ⟨s.cfg, m2, d2⟩ ∧ m2.flpool = s.m.flpool ∧
      d2.free = s.d.free := by
  obtain ⟨m1, d1, m2, d2, p1, i1, hI2, hY2, hin, hpn, hfl, hR, _, hfree, _⟩ :=
    flushBoth_inv4 hU hI hY hn hB order
  have hkind : s.m.kind = .cid := by rw [hI.kind, hcid]
  have hnomh : ¬ c.kind = .mh := by rw [hcid]; intro h; cases h
  obtain ⟨s1, s2, s3, s4, _, s6⟩ := priFlush_seg4 (pf := 0) p1 hD.sp
    (fun hk => by rw [hkind] at hk; cases hk)
  have hm1 := priFlush_mem p1
  have hd1i : d1.ifiles = s.d.ifiles := by rw [s1]
  obtain ⟨first, sp, q1, q2, ⟨PI', q3⟩, q4, _⟩ := index_pack hU (CoreInv.of_inv hI hY) hn hB hD.si
    order m1.pcur m1.pfileNum m1.plength d1 hd1i
  rw [← hm1, i1] at q3 q4
  have hdd : d2 = { d1 with ifiles := d2.ifiles } := by
    have := idxFlush_disk m1 d1 (fixOrder order s.m.inext.keys)
    rw [i1] at this
    exact this
  have hIp2 : PInv m2 d2 := hI2.p
  refine ⟨first, m1, d1, m2, d2, p1, i1, ?_, hI2, hY2, hfl, hfree⟩
  refine { kind2 := hI2.kind, imm2 := hI2.imm, bits2 := hY2.bits, pmax2 := hY2.pmax, a2 := hI2.a,
           hin := hin, hpn := hpn, hR := hR,
           entDisk := fun blk _ k v hg => priGet_disk_of_got hIp2 hpn hg,
           allocMh := fun hk => absurd hk hnomh,
           allocCid := ?_, cntMh := fun hk => absurd hk hnomh, cntCid := ?_, cntI2 := ?_,
           ino2 := hI2.i.noFiles, hd2 := ?_, sP := s3, sC := s4, sbits := hY.bits, simax := hY.imax,
           ihdr := q1, ilog := ⟨sp, q2⟩, ino := hI.i.noFiles, sI := ⟨PI', q3⟩, himg := q4,
           phdr := fun hk => absurd hk hnomh, smh := fun hk => absurd hk hnomh,
           scid := fun _ => s6 hkind, snap := hD.snap }
  · intro _
    have hk2 : m2.kind = .cid := by have : m2.kind = c.kind := hI2.kind; rw [this, hcid]
    have := hIp2.cid hk2
    rw [hpn] at this
    exact this
  · intro _
    have hk2 : m2.kind = .cid := by have : m2.kind = c.kind := hI2.kind; rw [this, hcid]
    exact hI2.cnt.cid hk2
  · have := hI2.cnt.idx
    have e : m2.ifileNum + m2.inext.length ≤ n := this
    omega
  · conv => lhs; rw [hdd, s1]

end

section
variable {c : Cfg} {U : List (Bytes × Bytes)} {s : SState} {spec : Spec} {n B : Nat}

/-- on a GC-invariant state with an empty primary pool an index entry reads from the disk -/
theorem entDisk_of_ginv (hU : Univ c.kind U) {cfg : Cfg} {m2 : Mem} {d2 : Disk}
    (hG : GInv c U ⟨cfg, m2, d2⟩ spec n B) (hn : n < 1073741824) (hpn : m2.pnext = []) :
    ∀ blk, IsEnt m2 d2 blk → ∀ k v, priGet m2 d2 blk = .got k v →
      thrOK m2 blk ∧ diskRead m2.kind m2.pmax d2 blk = .got k v := by
  intro blk hent k v hg
  have hk2 : m2.kind = .mh := hG.kind
  have hA : SInv U m2 d2 spec := hG.a
  have hU' : Univ m2.kind U := by rw [hk2, ← hG.kmh]; exact hU
  obtain ⟨pf, psp, _, zl, ze, _⟩ := hG.z
  obtain ⟨key, val, g1, g2⟩ := ze blk hent
  rw [hg] at g1
  cases g1
  have hon : OnDisk m2 pf psp blk (k ++ v) := by
    rcases g2 with ⟨x, hx, _⟩ | g2
    · have e : m2.pnext = [] := hpn
      rw [e] at hx; cases hx
    · exact g2
  obtain ⟨f, lp, e1, e2, e3, e4, e5⟩ := hon
  have hbel := ent_below hA hent
  obtain ⟨b, rl, e, hr, he, hblk⟩ := hent
  have hB := (ent_blockOK hA hr he).1
  rw [hblk] at hB
  obtain ⟨key', val', dig, a1, a2, _, _, _⟩ := hB.ex
  rw [hg] at a1
  cases a1
  refine ⟨hbel.thrOK, ?_⟩
  have hbe : blk = ⟨m2.pmax * f + lp, (k ++ v).length⟩ := block_eq e1 e5
  have hle : m2.pfileNum ≤ m2.precFileNum := GInv.pfile_le (s := ⟨cfg, m2, d2⟩) hG
  have hcnt : m2.precFileNum ≤ n := hG.cntF
  have hspan := diskRead_span (d := d2) hG.pmax1 (zl.starts f e2 e3 _ e4)
    (by unfold two32; omega : f < two32) (zl.files f e2 e3) e4
    (zl.ok f e2 e3 ⟨false, k ++ v⟩ (by
      obtain ⟨a, b', ee, _⟩ := liveAt_split (psp f) 0 lp (k ++ v) e4
      rw [ee]; simp))
  have hrn := readNode_append m2.kind k v (hU'.exact _ a2)
  rw [hk2] at hrn
  rw [hrn] at hspan
  rw [hk2, hbe]
  exact hspan

/-- the package from the GC invariant, for multihash stores -/
theorem flushPack_of_ginv (hU : Univ c.kind U) (hG : GInv c U s spec n B) (hD : DiskG s.d)
    (hn : n < 1073741824) (hB : B < two31) (order : List Nat) :
    ∃ first pf m1 d1 m2 d2, priFlush s.m s.d = some (m1, d1) ∧
      idxFlush m1 d1 (fixOrder order s.m.inext.keys) = (m2, d2) ∧
      FlushPack c U s spec n B first pf m1 d1 m2 d2 ∧
      GInv c U ⟨s.cfg, m2, d2⟩ spec n B ∧ m2.flpool = s.m.flpool ∧ d2.free = s.d.free := by
  have hkmh : c.kind = .mh := hG.kmh
  have hnocid : ¬ c.kind = .cid := by rw [hkmh]; intro h; cases h
  obtain ⟨m1, d1, p1, hG1, hp1, hi1, hf1, _, _, _, hfr1, _, _, hph1, hR1, _⟩ := priFlush_g hU hG hn
  obtain ⟨f1, f2⟩ := fixOrder_ok order s.m.inext
  obtain ⟨m2, d2, i1, hG2, hin, hpn2, hf2, _, _, hfr2, _, _, hph2, hpf2, hR2, _⟩ :=
    idxFlush_g (s := ⟨s.cfg, m1, d1⟩) hU hG1 hn hB
      (order := fixOrder order s.m.inext.keys) (by rw [hi1]; exact f1) (by rw [hi1]; exact f2)
  have hpn : m2.pnext = [] := by rw [hpn2]; exact hp1
  -- the primary header and files of `s`
  obtain ⟨pf, psp, zh, zl, _, _⟩ := hG.z
  obtain ⟨zh', zpm⟩ := GInv.pf_eq hG zh
  have hpst : PFoldSt4 pf s.m s.d :=
    ⟨zl.le, zl.gone, fun f a b => by rw [zl.files f a b]; simp, hG.pno, hD.sp⟩
  obtain ⟨s1, s2, s3, s4, s5, _⟩ := priFlush_seg4 (pf := pf) p1 hD.sp (fun _ => hpst)
  obtain ⟨P', sg1, sg2, _⟩ := s5 hG.kind
  have hm1 := priFlush_mem p1
  have hd1i : d1.ifiles = s.d.ifiles := by rw [s1]
  obtain ⟨first, sp, q1, q2, ⟨PI', q3⟩, q4, _⟩ := index_pack hU (CoreInv.of_ginv hG) hn hB hD.si
    order m1.pcur m1.pfileNum m1.plength d1 hd1i
  rw [← hm1, i1] at q3 q4
  have hdd : d2 = { d1 with ifiles := d2.ifiles } := by
    have := idxFlush_disk m1 d1 (fixOrder order s.m.inext.keys)
    rw [i1] at this
    exact this
  have hk2 : m2.kind = .mh := hG2.kind
  have halloc : m2.pfileNum = m2.precFileNum ∧ m2.plength = m2.precPos := by
    have := hG2.alloc
    have e : m2.pnext = [] := hpn
    simp only [e] at this
    exact this
  -- the header's first file after the flush is the one before it
  have hph : d2.phdr = s.d.phdr := by
    have e1 : d2.phdr = d1.phdr := hph2
    rw [e1, hph1]
  obtain ⟨pf', y1, y2, y3⟩ := hG2.y.phdr hkmh
  have hpfe : pf' = pf := by
    have e : d2.phdr = some ⟨c.pfs, pf'⟩ := y1
    rw [hph, zh'] at e
    simp only [Option.some.injEq, PriHeader.mk.injEq, true_and] at e
    exact e.symm
  subst hpfe
  refine ⟨first, pf', m1, d1, m2, d2, p1, i1, ?_, hG2, (by rw [hf2]; exact hf1),
    (by have e : d2.free = d1.free := hfr2; rw [e, hfr1])⟩
  refine { kind2 := by rw [hk2, hkmh], imm2 := hG2.imm, bits2 := hG2.y.bits, pmax2 := hG2.y.pmax,
           a2 := hG2.a, hin := hin, hpn := hpn,
           hR := fun b => (hR2 b).trans (hR1 b),
           entDisk := entDisk_of_ginv hU hG2 hn hpn,
           allocMh := fun _ => ⟨halloc.1, halloc.2, hG2.plen, hG2.pno, y2, y3⟩,
           allocCid := fun hk => absurd hk hnocid,
           cntMh := fun _ => ⟨hG2.cntF, hG2.pmaxle⟩, cntCid := fun hk => absurd hk hnocid,
           cntI2 := ?_, ino2 := hG2.i.noFiles, hd2 := ?_, sP := s3, sC := s4, sbits := hG.y.bits,
           simax := hG.y.imax, ihdr := q1, ilog := ⟨sp, q2⟩, ino := hG.i.noFiles, sI := ⟨PI', q3⟩,
           himg := q4, phdr := fun _ => zh', smh := fun _ => ⟨P', sg1, sg2⟩,
           scid := fun hk => absurd hk hnocid, snap := hD.snap }
  · have e : m2.ifileNum + m2.inext.length ≤ n := hG2.cntI
    omega
  · conv => lhs; rw [hdd, s1]

end

end Sth
