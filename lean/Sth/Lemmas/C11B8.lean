import Sth.Lemmas.C11B7

/-!
C11 Q3c (8): one hand-over pass, any outcome; the whole cycle when no pass is cut short.
Core Lean only.
-/

namespace Sth.C11B

open Sth.C11 Sth.C13H Sth.C13X Sth.C11D

theorem filter_nil_aff (vis : List Nat) : vis.filter (fun f => !([] : List Nat).contains f) = vis := by
  rw [List.filter_eq_self]
  intro f _
  rfl

section
variable {c : Cfg} {U : List (Bytes × Bytes)} {cfg : Cfg} {m : Mem} {d : Disk} {spec : Spec}
  {n B pf R : Nat} {psp : Nat → List GSpan}

/-- one hand-over pass of the primary GC, any outcome: it never fails, the sizes stay, the stable files
    it does not affect stay stable -/
theorem pass_b0 (hU : Univ c.kind U) (hS : HState c U cfg m d spec n B pf psp)
    (hn : n < 1073741824) (budget : Budget) (hI : B0 R m d) {vis : List Nat} (hV : VS vis m d) :
    (freelistPass m d budget).1 ≠ .err ∧ (freelistPass m d budget).1 ≠ .flushErr ∧
    (freelistPass m d budget).2.1.visited = m.visited ∧
    (freelistPass m d budget).2.1.pmax = m.pmax ∧
    B0 R (freelistPass m d budget).2.1 (freelistPass m d budget).2.2.1 ∧
    VS (vis.filter (fun f => !(freelistPass m d budget).2.2.2.2.contains f))
      (freelistPass m d budget).2.1 (freelistPass m d budget).2.2.1 := by
  have hS0 := toGC_h hS
  obtain ⟨fl, fr, g, e0⟩ := toGC_shape m d
  have hI0 : B0 R (toGC m d).1 (toGC m d).2 := by rw [e0]; exact hI.congr rfl rfl rfl
  have hV0 : VS vis (toGC m d).1 (toGC m d).2 := by rw [e0]; exact hV.congr rfl rfl
  have hvis0 : (toGC m d).1.visited = m.visited := by rw [e0]
  have hpm0 : (toGC m d).1.pmax = m.pmax := by rw [e0]
  unfold freelistPass
  cases htg : toGC m d with
  | mk m0 d0 =>
  rw [htg] at hS0 hI0 hV0 hvis0 hpm0
  simp only at hS0 hI0 hV0 hvis0 hpm0 ⊢
  obtain ⟨m1, d1, psp1, p1, hS1, hpn, _, _, q4, q5, _⟩ := priFlush_h hU hS0 hn
  obtain ⟨hI1, hV1⟩ := priFlush_b0 hU hS0 hn hI0 hV0 p1
  rw [p1]
  simp only
  obtain ⟨batch, hparse, hbatch⟩ := flinv_batch hS1.gs.fl
  rw [hparse]
  simp only
  have hdel : ∃ psp', HState c U cfg m1
      { d1 with pfiles := (if batch.isEmpty = true then (d1.pfiles, ([] : List Nat))
        else deleteRecords m1.pmax d1.pfiles batch).1 } spec n B pf psp' ∧
      Kills m1 pf (fun b => b ∈ batch) psp1 psp'
        (if batch.isEmpty = true then (d1.pfiles, ([] : List Nat))
          else deleteRecords m1.pmax d1.pfiles batch).2 := by
    split
    · rename_i he
      have : batch = [] := List.isEmpty_iff.mp he
      subst this
      exact ⟨psp1, hS1, Kills.refl (fun _ _ _ _ _ h => by cases h)⟩
    · rw [deleteRecords_eq]
      obtain ⟨psp', h1, h2⟩ := delFold_h hS1 hn hpn (sortByOff batch) (by
        intro d' psp' hS' hgc fb hfb
        obtain ⟨batch', hp', hb'⟩ := flinv_batch hS'.fl
        rw [hgc, hparse] at hp'
        simp only [Prod.mk.injEq, and_true] at hp'
        subst hp'
        exact hb' fb (mem_sortByOff hfb))
      exact ⟨psp', h1, h2.mono (fun b => mem_sortByOff_iff)⟩
  obtain ⟨psp', hS', hK⟩ := hdel
  generalize (if List.isEmpty (d1.freeGc.getD []) = true then (false, budget)
    else freelistPass.pollN batch.length budget) = pr1
  obtain ⟨e1, b1⟩ := pr1
  generalize (if List.isEmpty (d1.freeGc.getD []) = true then (false, (e1, b1).snd)
    else poll (e1, b1).snd) = pr2
  obtain ⟨e2, b2⟩ := pr2
  generalize (if batch.isEmpty = true then (d1.pfiles, ([] : List Nat))
        else deleteRecords m1.pmax d1.pfiles batch) = dr at hS' hK ⊢
  obtain ⟨files, affected⟩ := dr
  obtain ⟨hI', hV'⟩ := kills_b hS1.gs hS'.gs hK hI1 hV1
  have hvis1 : m1.visited = m.visited := by rw [q4, hvis0]
  have hpm1 : m1.pmax = m.pmax := by rw [q5, hpm0]
  cases e1
  · cases e2
    · simp only [Bool.not_true, Bool.false_eq_true, if_false]
      exact ⟨by decide, by decide, hvis1, hpm1, hI'.congr rfl rfl rfl, hV'.congr rfl rfl⟩
    · simp only [Bool.false_eq_true, if_false, if_true]
      exact ⟨by decide, by decide, hvis1, hpm1, hI', hV'⟩
  · simp only [if_true]
    refine ⟨by decide, by decide, hvis1, hpm1, hI1, ?_⟩
    rw [filter_nil_aff]
    exact hV1

end

/-- neither hand-over pass of the cycle is cut short -/
def PassesFine (m : Mem) (d : Disk) (budget : Budget) : Prop :=
  (freelistPass m d budget).1 ≠ .deadline ∧
  ((freelistPass m d budget).1 = .ok →
    (freelistPass (freelistPass m d budget).2.1 (freelistPass m d budget).2.2.1
      (freelistPass m d budget).2.2.2.1).1 ≠ .deadline)

instance (m : Mem) (d : Disk) (budget : Budget) : Decidable (PassesFine m d budget) := by
  unfold PassesFine; exact inferInstance

section
variable {c : Cfg} {U : List (Bytes × Bytes)} {cfg : Cfg} {spec : Spec} {B R : Nat}

/-- a whole primary GC cycle whose passes are not cut short (the loop may be) -/
theorem primaryGC_b (hU : Univ c.kind U) {m : Mem} {d : Disk} {k pf : Nat} {psp : Nat → List GSpan}
    (hS : HState c U cfg m d spec k B pf psp) (hk : 3 * k < 1073741824) (lowUse : Nat)
    (budget : Budget) (hI : BInv R m d) (h31 : m.pmax + 4 + R ≤ two31)
    (hfine : PassesFine m d budget) {res : PgcRes × Mem × Disk × Budget}
    (hres : primaryGC m d lowUse budget = some res) : BInv R res.2.1 res.2.2.1 := by
  unfold primaryGC at hres
  have hp1 := freelistPass_h hU hS (by omega) budget
  obtain ⟨x1, x2, x3, x4, x5, x6⟩ := pass_b0 hU hS (by omega) budget hI.b0 hI.vs'
  obtain ⟨y1, y2⟩ := hfine
  cases hf1 : freelistPass m d budget with
  | mk r1 rest =>
  obtain ⟨m1, d1, b1, aff1⟩ := rest
  rw [hf1] at hres hp1 x1 x2 x3 x4 x5 x6 y1 y2
  simp only at hres hp1 x1 x2 x3 x4 x5 x6 y1 y2
  cases r1 with
  | flushErr => exact absurd rfl x2
  | deadline => exact absurd rfl y1
  | err => exact absurd rfl x1
  | ok =>
  have y2' := y2 rfl
  obtain ⟨psp1, hS1'⟩ : ∃ psp1, HState c U cfg m1 d1 spec k B pf psp1 := by
    rcases hp1 with h | h
    · cases h
    · exact h
  have hp2 := freelistPass_h hU hS1' (by omega) b1
  obtain ⟨z1, z2, z3, z4, z5, z6⟩ := pass_b0 hU hS1' (by omega) b1 x5 x6
  cases hf2 : freelistPass m1 d1 b1 with
  | mk r2 rest =>
  obtain ⟨m2, d2, b2, aff2⟩ := rest
  rw [hf2] at hres hp2 z1 z2 z3 z4 z5 z6 y2'
  simp only at hres hp2 z1 z2 z3 z4 z5 z6 y2'
  cases r2 with
  | flushErr => exact absurd rfl z2
  | deadline => exact absurd rfl y2'
  | err => exact absurd rfl z1
  | ok =>
  obtain ⟨psp2, hS2'⟩ : ∃ psp2, HState c U cfg m2 d2 spec k B pf psp2 := by
    rcases hp2 with h | h
    · cases h
    · exact h
  have hS3 := hS2'.visited (m2.visited.filter (fun f => !(aff1 ++ aff2).contains f))
  have hh : d2.phdr = some ⟨m2.pmax, pf⟩ := hS2'.gs.hdr
  rw [hh] at hres
  simp only [Option.some.injEq] at hres
  subst hres
  have hle : m2.pfileNum ≤ k := by
    have h1 := GInv.pfile_le (s := ⟨cfg, m2, d2⟩) hS2'.gs.g
    have h2 : m2.precFileNum ≤ k := hS2'.gs.g.cntF
    exact Nat.le_trans h1 h2
  have hI3 : BInv R { m2 with visited := m2.visited.filter (fun f => !(aff1 ++ aff2).contains f) } d2 := by
    refine ⟨z5.pz, z5.sz, z5.fl, ?_⟩
    intro f hf
    have hf' : f ∈ m2.visited.filter (fun f => !(aff1 ++ aff2).contains f) := hf
    rw [List.mem_filter] at hf'
    obtain ⟨hf1', hf2'⟩ := hf'
    apply z6 f
    rw [z3, x3] at hf1'
    have hn12 : (aff1 ++ aff2).contains f = false := by
      cases hq : (aff1 ++ aff2).contains f
      · rfl
      · rw [hq] at hf2'; cases hf2'
    have hn1 : aff1.contains f = false := by
      cases hq : aff1.contains f
      · rfl
      · have : f ∈ aff1 ++ aff2 := List.mem_append_left _ (List.contains_iff_mem.mp hq)
        rw [List.contains_iff_mem.mpr this] at hn12; cases hn12
    have hn2 : aff2.contains f = false := by
      cases hq : aff2.contains f
      · rfl
      · have : f ∈ aff1 ++ aff2 := List.mem_append_right _ (List.contains_iff_mem.mp hq)
        rw [List.contains_iff_mem.mpr this] at hn12; cases hn12
    rw [List.mem_filter, List.mem_filter]
    exact ⟨⟨hf1', by rw [hn1]; rfl⟩, by rw [hn2]; rfl⟩
  exact pgcGo_b hU lowUse (m2.pfileNum - pf + 1) pf pf
    { m2 with visited := m2.visited.filter (fun f => !(aff1 ++ aff2).contains f) } d2 b2 0 k psp2 hS3
    hI3 (by show m2.pmax + 4 + R ≤ two31; rw [z4, x4]; exact h31)
    (Nat.le_refl _) hS2'.gs.log.le (by show k + 2 * (m2.pfileNum - pf) < 1073741824; omega)

end

end Sth.C11B
