/-
C13 with garbage collection — the freelist along GC histories.

(1) What a primary GC cycle does to the freelist, for ANY state of a multihash store (no invariant
    needed): a hand-over pass that completes leaves no hand-over file; a cycle that completes leaves an
    empty freelist file and no hand-over file — everything recorded before the cycle (pool, freelist
    file, an older hand-over file) has been handed to `deleteRecords` — and its freelist pool holds only
    what the cycle itself recorded by relocation.
(2) Along every GC history (C04's `GInv`): no block on the freelist — pool, file or hand-over file — has
    the offset of a record a current index entry names.
Core Lean only.
-/
import Sth.Lemmas.C07GG

namespace Sth

/-- everything recorded and not yet consumed: freelist file, hand-over file, memory pool -/
def recordedG (s : SState) : List Block := flEntries s.d ++ flGcEntries s.d ++ s.m.flpool

/-! ### the hand-over pass and the freelist -/

theorem toGC_none {m : Mem} {d : Disk} (h : d.freeGc = none) :
    (toGC m d).1.flpool = [] ∧ (toGC m d).2.free = some [] ∧
      (toGC m d).2.freeGc = some (d.free.getD [] ++ m.flpool.flatMap blockBytes) := by
  unfold toGC
  rw [h]
  simp only
  unfold flFlush
  split
  · rename_i he
    have hnil : m.flpool = [] := List.isEmpty_iff.mp he
    simp [hnil]
  · simp

theorem toGC_some {m : Mem} {d : Disk} {x : Bytes} (h : d.freeGc = some x) : toGC m d = (m, d) := by
  unfold toGC
  rw [h]

/-- the pass never touches the freelist file or the pool after the hand-over, and when it completes the
    hand-over file is gone -/
theorem freelistPass_free {m : Mem} {d : Disk} (hk : m.kind = .mh) (budget : Budget) :
    (freelistPass m d budget).2.2.1.free = (toGC m d).2.free ∧
      (freelistPass m d budget).2.1.flpool = (toGC m d).1.flpool ∧
      ((freelistPass m d budget).1 = .ok → (freelistPass m d budget).2.2.1.freeGc = none) := by
  obtain ⟨fl, fr, g, e0⟩ := toGC_shape m d
  unfold freelistPass
  rw [e0]
  simp only
  cases hp : priFlush { m with flpool := fl } { d with free := fr, freeGc := g } with
  | none => exact ⟨rfl, rfl, fun h => by cases h⟩
  | some md =>
    obtain ⟨m1, d1⟩ := md
    obtain ⟨pc, fn, len, files, rfl, rfl⟩ := priFlush_shape_mh (m := { m with flpool := fl }) hk hp
    simp only
    repeat' split
    all_goals exact ⟨rfl, rfl, fun h => by first | rfl | cases h⟩


/-! ### the loop over the closed files and the freelist -/

theorem relocate_flpool {m m' : Mem} {d : Disk} {fnum at_ bs : Nat} {file : Bytes}
    (h : relocate m d fnum file at_ bs = some m') : ∃ l, m'.flpool = m.flpool ++ l := by
  unfold relocate at h
  cases h1 : readU32 file at_ with
  | none => simp [h1] at h
  | some size =>
    simp only [h1] at h
    cases h2 : readAt file (at_ + 4) size with
    | none => simp [h2] at h
    | some data =>
      simp only [h2] at h
      cases h3 : readNode .mh data with
      | none => simp [h3] at h
      | some kv =>
        obtain ⟨key, val⟩ := kv
        simp only [h3] at h
        cases h4 : indexKeyOf .mh key with
        | none => simp [h4] at h
        | some ik =>
          simp only [h4, priPut_eq, Option.some.injEq] at h
          cases hrel : idxRelocate (putMem m key val) d ik
              ⟨(putMem m key val).pmax * fnum + at_, bs⟩ (nextBlk m (key.length + val.length)) with
          | ok m3 =>
            rw [hrel] at h
            simp only at h
            obtain ⟨_, _, _, _, _, _, _, _, rfl⟩ := idxRelocate_ok_inv hrel
            subst h
            exact ⟨_, by show (putMem m key val).flpool ++ _ = _; rw [putMem_flpool]⟩
          | error e =>
            rw [hrel] at h
            simp only at h
            subst h
            refine ⟨[nextBlk m (key.length + val.length)] ++
              [⟨(putMem m key val).pmax * fnum + at_, bs⟩], ?_⟩
            show ((putMem m key val).flpool ++ _) ++ _ = _
            rw [putMem_flpool, List.append_assoc]

/-- reapRecords touches neither freelist file and only appends to the pool -/
theorem reapRecords_free (m : Mem) (d : Disk) (n lowUse : Nat) :
    (reapRecords m d n lowUse).2.2.1.free = d.free ∧
      (reapRecords m d n lowUse).2.2.1.freeGc = d.freeGc ∧
      ∃ l, (reapRecords m d n lowUse).2.1.flpool = m.flpool ++ l := by
  unfold reapRecords
  cases d.pfiles.get? n with
  | none => exact ⟨rfl, rfl, [], by simp⟩
  | some file =>
    simp only
    repeat' split
    all_goals first
      | exact ⟨rfl, rfl, [], (List.append_nil _).symm⟩
      | (obtain ⟨l1, e1⟩ := relocate_flpool ‹relocate m _ _ _ _ _ = some _›
         first
           | exact ⟨rfl, rfl, l1, e1⟩
           | (rename_i m2 hr2
              obtain ⟨l2, e2⟩ := relocate_flpool hr2
              exact ⟨rfl, rfl, l1 ++ l2, by rw [e2, e1, List.append_assoc]⟩))


/-- neither freelist file changes and the pool only grows -/
def GoFree (m : Mem) (d : Disk) (res : PgcRes × Mem × Disk × Budget) : Prop :=
  res.2.2.1.free = d.free ∧ res.2.2.1.freeGc = d.freeGc ∧ ∃ l, res.2.1.flpool = m.flpool ++ l

/-- the loop over the closed files touches neither freelist file and only appends to the pool (what the
    relocations record) -/
theorem pgcGo_free (lowUse : Nat) :
    ∀ (fuel nn : Nat) (h : PriHeader) (m : Mem) (d : Disk) (budget : Budget) (recl : Nat),
      GoFree m d (primaryGC.go lowUse fuel nn h m d budget recl) := by
  intro fuel
  induction fuel with
  | zero =>
    intro nn h m d budget recl
    exact ⟨rfl, rfl, [], (List.append_nil _).symm⟩
  | succ fuel ih =>
    intro nn h m d budget recl
    unfold primaryGC.go
    by_cases he : nn = m.pfileNum
    · rw [if_pos he]
      exact ⟨rfl, rfl, [], (List.append_nil _).symm⟩
    rw [if_neg he]
    by_cases hv : m.visited.contains nn = true
    · rw [if_pos hv]
      exact ih (nn + 1) h m d budget recl
    rw [if_neg hv]
    obtain ⟨f1, f2, l1, e1⟩ := reapRecords_free m d nn lowUse
    cases hr : reapRecords m d nn lowUse with
    | mk r rest =>
    obtain ⟨m1, d1, got⟩ := rest
    rw [hr] at f1 f2 e1
    simp only at f1 f2 e1 ⊢
    have hrest : ∀ (h2 : PriHeader) (d2 : Disk) (pe : Bool) (pb : Budget), d2.free = d.free →
        d2.freeGc = d.freeGc →
        GoFree m d
          (if pe = true then
              ((⟨.deadline, 0⟩ : PgcRes), ({ m1 with visited := m1.visited ++ [nn] } : Mem), d2, pb)
            else primaryGC.go lowUse fuel (nn + 1) h2
              { m1 with visited := m1.visited ++ [nn] } d2 pb (recl + got)) := by
      intro h2 d2 pe pb g1 g2
      by_cases hp : pe = true
      · rw [if_pos hp]
        exact ⟨g1, g2, l1, e1⟩
      · rw [if_neg hp]
        obtain ⟨a1, a2, l2, a3⟩ := ih (nn + 1) h2 { m1 with visited := m1.visited ++ [nn] } d2 pb
          (recl + got)
        refine ⟨a1.trans g1, a2.trans g2, l1 ++ l2, ?_⟩
        rw [a3]
        show m1.flpool ++ l2 = _
        rw [e1, List.append_assoc]
    cases hpoll : poll budget with
    | mk pe pb =>
    cases r with
    | err => exact ⟨f1, f2, l1, e1⟩
    | kept =>
      simp only [reduceCtorEq, false_and, if_false]
      exact hrest h d1 pe pb f1 f2
    | dead =>
      simp only [true_and]
      by_cases hnp : nn = h.first
      · subst hnp
        simp only [if_true]
        exact hrest _ _ pe pb f1 f2
      · simp only [hnp, if_false]
        exact hrest h d1 pe pb f1 f2

/-- A primary GC cycle that completes (`out = .ok`) on a multihash store — in ANY state — consumes the
    freelist: afterwards the freelist file is empty and there is no hand-over file; everything that was
    recorded before the cycle (memory pool, freelist file, and the hand-over file an interrupted earlier
    cycle left behind) has been handed over and passed through `deleteRecords`; the memory pool holds
    exactly what the cycle's own relocations appended (`l`). -/
theorem primaryGC_consumes {m : Mem} {d : Disk} (hk : m.kind = .mh) (lowUse : Nat) (budget : Budget)
    {res : PgcRes × Mem × Disk × Budget} (hres : primaryGC m d lowUse budget = some res)
    (hok : res.1.out = .ok) :
    res.2.2.1.free = some [] ∧ res.2.2.1.freeGc = none := by
  unfold primaryGC at hres
  obtain ⟨p1, p2, p3⟩ := freelistPass_free (d := d) hk budget
  cases hf1 : freelistPass m d budget with
  | mk r1 rest =>
  obtain ⟨m1, d1, b1, aff1⟩ := rest
  rw [hf1] at hres p1 p2 p3
  simp only at hres p1 p2 p3
  cases r1 with
  | flushErr => cases hres
  | deadline => simp only [Option.some.injEq] at hres; subst hres; cases hok
  | err => simp only [Option.some.injEq] at hres; subst hres; cases hok
  | ok =>
  have hgc1 : d1.freeGc = none := p3 rfl
  have hk1 : m1.kind = .mh := by
    obtain ⟨fl, pc, fn, len, files, fr, g, e1, _⟩ :=
      freelistPass_shape (m := m) (d := d) hk budget (by rw [hf1]; intro hc; cases hc)
    rw [hf1] at e1
    simp only at e1
    rw [e1]; exact hk
  obtain ⟨q1, q2, q3⟩ := freelistPass_free (d := d1) hk1 b1
  obtain ⟨t1, t2, _⟩ := toGC_none (m := m1) hgc1
  cases hf2 : freelistPass m1 d1 b1 with
  | mk r2 rest =>
  obtain ⟨m2, d2, b2, aff2⟩ := rest
  rw [hf2] at hres q1 q2 q3
  simp only at hres q1 q2 q3
  cases r2 with
  | flushErr => cases hres
  | deadline => simp only [Option.some.injEq] at hres; subst hres; cases hok
  | err => simp only [Option.some.injEq] at hres; subst hres; cases hok
  | ok =>
  have hfree2 : d2.free = some [] := by rw [q1, t2]
  have hgc2 : d2.freeGc = none := q3 rfl
  cases hph : d2.phdr with
  | none =>
    rw [hph] at hres
    simp only [Option.some.injEq] at hres
    subst hres
    cases hok
  | some h =>
    rw [hph] at hres
    simp only [Option.some.injEq] at hres
    subst hres
    obtain ⟨a1, a2, _⟩ := pgcGo_free lowUse (m2.pfileNum - h.first + 1) h.first h
      { m2 with visited := m2.visited.filter (fun f => !(aff1 ++ aff2).contains f) } d2 b2 0
    exact ⟨a1.trans hfree2, a2.trans hgc2⟩

/-- … and its memory pool holds exactly what the cycle's own relocations appended: it was empty after
    the second hand-over pass -/
theorem primaryGC_pool_after {m : Mem} {d : Disk} (hk : m.kind = .mh) (lowUse : Nat) (budget : Budget)
    {res : PgcRes × Mem × Disk × Budget} (hres : primaryGC m d lowUse budget = some res)
    (hok : res.1.out = .ok) :
    ∃ (m2 : Mem) (d2 : Disk) (b2 : Budget) (h : PriHeader) (vis : List Nat), res = primaryGC.go lowUse (m2.pfileNum - h.first + 1) h.first h
        { m2 with visited := vis } d2 b2 0 ∧ m2.flpool = [] ∧ d2.free = some [] ∧ d2.freeGc = none := by
  unfold primaryGC at hres
  obtain ⟨p1, p2, p3⟩ := freelistPass_free (d := d) hk budget
  cases hf1 : freelistPass m d budget with
  | mk r1 rest =>
  obtain ⟨m1, d1, b1, aff1⟩ := rest
  rw [hf1] at hres p1 p2 p3
  simp only at hres p1 p2 p3
  cases r1 with
  | flushErr => cases hres
  | deadline => simp only [Option.some.injEq] at hres; subst hres; cases hok
  | err => simp only [Option.some.injEq] at hres; subst hres; cases hok
  | ok =>
  have hgc1 : d1.freeGc = none := p3 rfl
  have hk1 : m1.kind = .mh := by
    obtain ⟨fl, pc, fn, len, files, fr, g, e1, _⟩ :=
      freelistPass_shape (m := m) (d := d) hk budget (by rw [hf1]; intro hc; cases hc)
    rw [hf1] at e1
    simp only at e1
    rw [e1]; exact hk
  obtain ⟨q1, q2, q3⟩ := freelistPass_free (d := d1) hk1 b1
  obtain ⟨t1, t2, _⟩ := toGC_none (m := m1) hgc1
  cases hf2 : freelistPass m1 d1 b1 with
  | mk r2 rest =>
  obtain ⟨m2, d2, b2, aff2⟩ := rest
  rw [hf2] at hres q1 q2 q3
  simp only at hres q1 q2 q3
  cases r2 with
  | flushErr => cases hres
  | deadline => simp only [Option.some.injEq] at hres; subst hres; cases hok
  | err => simp only [Option.some.injEq] at hres; subst hres; cases hok
  | ok =>
  cases hph : d2.phdr with
  | none =>
    rw [hph] at hres
    simp only [Option.some.injEq] at hres
    subst hres
    cases hok
  | some h =>
    rw [hph] at hres
    simp only [Option.some.injEq] at hres
    exact ⟨m2, d2, b2, h, _, hres.symm, by rw [q2, t1], by rw [q1, t2], q3 rfl⟩


/-! ### nothing current is ever recorded -/

section
variable {c : Cfg} {U : List (Bytes × Bytes)} {s : SState} {spec : Spec} {n B : Nat}

/-- on the GC invariant: no block on the freelist — file, hand-over file or pool — has the offset of a
    record a current index entry (pools first, then disk) names; and the two files parse completely -/
theorem ginv_notcur (hG : GInv c U s spec n B) :
    ∀ bkt rl, idxRecords s.m s.d bkt = .ok (some rl) → ∀ e ∈ rl, ∀ fb ∈ recordedG s,
      fb.off ≠ e.blk.off := by
  intro bkt rl hr e he fb hfb hoff
  obtain ⟨pf, psp, _, _, _, zf⟩ := hG.z
  obtain ⟨L1, L2, f1, f2, f3⟩ := zf
  have hr1 : ∀ x ∈ L1, x.off < two64 ∧ x.size < two32 := by
    intro x hx
    obtain ⟨_, _, _, q4, q5⟩ := f3 x (by simp [hx])
    exact ⟨q4, q5⟩
  have hr2 : ∀ x ∈ L2, x.off < two64 ∧ x.size < two32 := by
    intro x hx
    obtain ⟨_, _, _, q4, q5⟩ := f3 x (by simp [hx])
    exact ⟨q4, q5⟩
  have e1 : flEntries s.d = L1 := flEntries_of_flat (by rw [f1]; rfl) hr1
  have e2 : flGcEntries s.d = L2 := by
    rcases f2 with ⟨g1, g2⟩ | g1
    · subst g2
      exact flGcEntries_none g1
    · exact flGcEntries_of_flat (by rw [g1]; rfl) hr2
  unfold recordedG at hfb
  rw [e1, e2] at hfb
  obtain ⟨_, q2, _⟩ := f3 fb (by
    simp only [List.mem_append] at hfb ⊢
    rcases hfb with (h | h) | h
    · exact Or.inl (Or.inr h)
    · exact Or.inr h
    · exact Or.inl (Or.inl h))
  exact q2 e.blk ⟨bkt, rl, e, hr, he, rfl⟩ hoff.symm

end

end Sth
