/-
C03 over histories with GC cycles — the run invariants: the disk is well-formed and recovering it gives a
state that observes the map of the last durable point, maintained by every call including index GC
(any budget) and primary GC started with an empty index pool (any budget).
Core Lean only.
-/
import Sth.Lemmas.C03Recover4
import Sth.Lemmas.C03GcRun
import Sth.Lemmas.C07GG

namespace Sth

/-! ### OpenStore starts with empty pools -/

theorem openStore_pools {c : Cfg} {d d' : Disk} {m' : Mem} (h : openStore c d = (d', .ok m')) :
    m'.inext = [] ∧ m'.pnext = [] := by
  unfold openStore at h
  simp only at h
  split at h
  · simp only [Prod.mk.injEq] at h
    obtain ⟨_, h⟩ := h
    cases h
  · split at h
    · simp only [Prod.mk.injEq] at h
      obtain ⟨_, h⟩ := h
      cases h
    · simp only [Prod.mk.injEq, Except.ok.injEq] at h
      obtain ⟨_, rfl⟩ := h
      exact ⟨rfl, rfl⟩

/-- Close + reopen that did not fail leaves empty pools -/
theorem reopen_pools {s : SState} {order : List Nat} {us : Bool}
    (hp : priFlush s.m s.d ≠ none) (hout : (stepS s (.reopen order us)).2 = .gc) :
    (stepS s (.reopen order us)).1.m.inext = [] ∧ (stepS s (.reopen order us)).1.m.pnext = [] := by
  cases hp1 : priFlush s.m s.d with
  | none => exact absurd hp1 hp
  | some md =>
    obtain ⟨m1, d1⟩ := md
    cases hi1 : idxFlush m1 d1 (fixOrder order s.m.inext.keys) with
    | mk m2 d2 =>
    obtain ⟨fr, hcl, _⟩ := storeClose_eq hp1 hi1
    unfold stepS at hout ⊢
    simp only [hcl] at hout ⊢
    split at hout
    · rename_i d' m' ho
      simp only [ho]
      exact openStore_pools ho
    · cases hout

/-! ### recovering a fully flushed state (C01/C04 invariant) -/

theorem clean_durable4 {c : Cfg} {U : List (Bytes × Bytes)} {cfg : Cfg} {m : Mem} {d : Disk}
    {spec : Spec} {n B : Nat} (hc : c.Legal) (hI : Inv c U ⟨cfg, m, d⟩ spec n B)
    (hY : YInv c ⟨cfg, m, d⟩) (hsnap : d.snap = none) (hin : m.inext = []) (hpn : m.pnext = []) :
    Durable c U d spec := by
  have hIp : PInv m d := hI.p
  have hIi : IInv m d := hI.i
  have hA : SInv U m d spec := hI.a
  have hkind : m.kind = c.kind := hI.kind
  have hbits : m.bits = c.bits := hY.bits
  have himax : m.imax = c.ifs := hY.imax
  have hpmax : m.pmax = hdrPfs c := hY.pmax
  have hS : DiskShape c m d :=
    ⟨hbits, himax, hsnap, hY.ilog, hIi.noFiles, hY.phdr,
      fun hk => (hIp.mh (by rw [hkind]; exact hk)).2.2 _ (Nat.lt_succ_self _)⟩
  obtain ⟨cf, pfn, plen, files', bk, fr, o1, o2, o3, o4, o5⟩ := recover_form4 hc hS
  refine ⟨_, _, o1, ?_⟩
  have hmh : c.kind = .mh → (∀ f, d.pfiles.get? f = d.pfiles.get? f) ∧ pfn = m.precFileNum ∧
      plen = m.precPos := by
    intro hk
    obtain ⟨_, q2, q3⟩ := o2 hk
    have hkm : m.kind = .mh := by rw [hkind]; exact hk
    obtain ⟨a1, a2, _⟩ := hIp.mh hkm
    rw [hpn] at a1
    exact ⟨fun _ => rfl, by rw [q2]; exact a1.1, by rw [q3, a2]; exact a1.2⟩
  have hcid : c.kind = .cid → cf = some (d.cidfile.getD []) ∧ plen = m.precPos := by
    intro hk
    obtain ⟨q1, _, q3⟩ := o3 hk
    have hkm : m.kind = .cid := by rw [hkind]; exact hk
    have := hIp.cid hkm
    rw [hpn] at this
    have e : (d.cidfile.getD []).length = m.precPos := this
    exact ⟨q1, by rw [q3, e]⟩
  have hbelow : ∀ blk, Below m blk →
      Below (openMem c bk m.ifileNum (fileOf files' m.ifileNum).length pfn plen) blk := by
    intro blk hb
    apply below_mono hb hkind.symm hpmax.symm
    · intro hkm
      have hk : c.kind = .mh := by rw [← hkind]; exact hkm
      obtain ⟨_, e1, e2⟩ := hmh hk
      right
      exact ⟨by show m.precFileNum = pfn; rw [e1], by show m.precPos ≤ plen; rw [e2]; exact Nat.le_refl _⟩
    · intro hkm
      have hk : c.kind = .cid := by rw [← hkind]; exact hkm
      show m.precPos ≤ plen
      rw [(hcid hk).2]; exact Nat.le_refl _
  apply hA.of_ent hkind.symm hbits.symm
  · intro b
    rw [openMem_idxRecords]
    show readDiskBucket files' c.ifs ((bk.get? b).getD 0) = _
    rw [o5 b, readDiskBucket_congr o4]
    unfold idxRecords
    rw [hin]
    simp only [NMap.get?_nil]
    unfold tbl
    cases hcur : m.icur.get? b with
    | some rl =>
      simp only
      have := hIi.curDisk b rl hcur
      rw [himax] at this
      exact this
    | none => simp only; rw [himax]
  · intro blk _ k v hg
    obtain ⟨ht, hd⟩ := priGet_disk_of_got hIp hpn hg
    exact pri_new4 (dR := ({ d with free := fr, cidfile := cf, snap := none, ifiles := files' } : Disk))
      hkind hpmax hmh hcid ht hd
  · exact hbelow

/-! ### index GC keeps the durable contents -/

theorem igc_durable {c : Cfg} {U : List (Bytes × Bytes)} (hc : c.Legal) {m : Mem} {d : Disk}
    {specD : Spec} (h : DiskShape c m d) (hN : m.ifileNum < two32) (hDur : Durable c U d specD)
    (scanFree : Bool) (budget : Budget) :
    Durable c U (indexGC m d scanFree budget).2.2.1 specD := by
  obtain ⟨first, sp, hih, hl⟩ := h.ilog
  have hp1 : 1 ≤ m.imax := by rw [h.imax]; exact hc.2.2.1
  have hG0 : GI m d d c.bits c.ifs (hdrPfs c) :=
    ⟨⟨first, sp, hih, hl⟩, fun _ => rfl, h.ino, rfl, rfl, rfl, rfl, rfl, rfl, rfl⟩
  obtain ⟨hG, _⟩ := indexGC_ok hp1 hN hG0 scanFree budget
  generalize (indexGC m d scanFree budget).2.2.1 = d' at hG ⊢
  obtain ⟨f1, f2, f3, f4, f5, f6⟩ := hG.frame
  have h' : DiskShape c m d' := by
    refine ⟨h.bits, h.imax, by rw [f6]; exact h.snap, hG.log, hG.noFiles, ?_, ?_⟩
    · intro hk
      obtain ⟨pf, q1, q2, q3⟩ := h.phdr hk
      exact ⟨pf, by rw [f3]; exact q1, q2, fun f a b => by rw [f1]; exact q3 f a b⟩
    · intro hk; rw [f1]; exact h.pno hk
  have hreads : ∀ b, readDiskBucket d'.ifiles c.ifs (tbl m b) = readDiskBucket d.ifiles c.ifs (tbl m b) := by
    intro b
    have := hG.reads b
    rw [h.imax] at this
    exact this
  -- both recoveries, explicitly
  obtain ⟨cf, pfn, plen, files, bk, fr, o1, o2, o3, o4, o5⟩ := recover_form4 hc h
  obtain ⟨cf', pfn', plen', files', bk', fr', r1, r2, r3, r4, r5⟩ := recover_form4 hc h'
  have hsame : cf' = cf ∧ pfn' = pfn ∧ plen' = plen := by
    rcases (by cases c.kind <;> simp : c.kind = .mh ∨ c.kind = .cid) with hk | hk
    · obtain ⟨a1, a2, a3⟩ := o2 hk
      obtain ⟨b1, b2, b3⟩ := r2 hk
      exact ⟨by rw [a1, b1, f2], by rw [a2, b2], by rw [a3, b3, f1]⟩
    · obtain ⟨a1, a2, a3⟩ := o3 hk
      obtain ⟨b1, b2, b3⟩ := r3 hk
      exact ⟨by rw [a1, b1, f2], by rw [a2, b2], by rw [a3, b3, f2]⟩
  obtain ⟨rfl, rfl, rfl⟩ := hsame
  obtain ⟨dO, mO, e1, hA⟩ := hDur
  rw [o1] at e1
  simp only [Prod.mk.injEq, Except.ok.injEq] at e1
  obtain ⟨rfl, rfl⟩ := e1
  refine ⟨_, _, r1, ?_⟩
  have hA' : AInv c.kind c.bits U
      (priGet (openMem c bk m.ifileNum (fileOf files m.ifileNum).length pfn' plen')
        ({ d with free := fr, cidfile := cf', snap := none, ifiles := files } : Disk))
      (idxRecords (openMem c bk m.ifileNum (fileOf files m.ifileNum).length pfn' plen')
        ({ d with free := fr, cidfile := cf', snap := none, ifiles := files } : Disk))
      (Below (openMem c bk m.ifileNum (fileOf files m.ifileNum).length pfn' plen')) specD := hA
  show AInv c.kind c.bits U _ _ _ _
  apply AInv.mono hA'
  · intro blk k v _ hg
    rw [priGet_openMem_congr c bk bk' m.ifileNum m.ifileNum _ _ pfn' plen'
      (d := ({ d with free := fr, cidfile := cf', snap := none, ifiles := files } : Disk))
      (d' := ({ d' with free := fr', cidfile := cf', snap := none, ifiles := files' } : Disk)) f1 rfl blk]
    exact hg
  · intro blk hb; exact hb
  · intro b
    rw [openMem_idxRecords, openMem_idxRecords]
    show readDiskBucket files' c.ifs _ = readDiskBucket files c.ifs _
    rw [r5 b, o5 b, readDiskBucket_congr r4, readDiskBucket_congr o4]
    exact hreads b

/-! ### Store.Flush empties both pools -/

theorem ifold_pools {pool : NMap RecordList} : ∀ (order : List Nat) (acc : Mem × Disk × List (Nat × Nat)),
    (order.foldl (iflushStep pool) acc).1.inext = acc.1.inext ∧
    (order.foldl (iflushStep pool) acc).1.pnext = acc.1.pnext
  | [], _ => ⟨rfl, rfl⟩
  | b :: order, acc => by
    rw [List.foldl_cons]
    obtain ⟨i1, i2⟩ := ifold_pools (pool := pool) order (iflushStep pool acc b)
    rw [i1, i2]
    obtain ⟨m, d, blks⟩ := acc
    unfold iflushStep
    simp only
    split
    · exact ⟨rfl, rfl⟩
    · split <;> exact ⟨rfl, rfl⟩

theorem idxFlush_pools (m : Mem) (d : Disk) (order : List Nat) :
    (idxFlush m d order).1.inext = [] ∧ (idxFlush m d order).1.pnext = m.pnext := by
  by_cases hne : m.inext.isEmpty = true
  · rw [idxFlush_empty hne]
    exact ⟨List.isEmpty_iff.mp hne, rfl⟩
  · have hne' : m.inext.isEmpty = false := by simpa using hne
    rw [idxFlush_eq hne']
    obtain ⟨i1, i2⟩ := ifold_pools (pool := m.inext) order ({ m with icur := m.inext, inext := [] }, d, [])
    exact ⟨i1, i2⟩

theorem storeFlush_pools {m m' : Mem} {d d' : Disk} {order : List Nat}
    (h : storeFlush m d order = some (m', d')) : m'.inext = [] ∧ m'.pnext = [] := by
  unfold storeFlush at h
  split at h
  · unfold commit at h
    cases hp : priFlush m d with
    | none => rw [hp] at h; cases h
    | some md =>
      obtain ⟨m1, d1⟩ := md
      rw [hp] at h
      simp only [Option.some.injEq] at h
      obtain ⟨_, _, p3⟩ := priFlush_keeps hp
      obtain ⟨i1, i2⟩ := idxFlush_pools m1 d1 order
      obtain ⟨fl, fr, _, e⟩ := flFlush_ext (idxFlush m1 d1 order).1 (idxFlush m1 d1 order).2
      rw [e] at h
      simp only [Prod.mk.injEq] at h
      obtain ⟨rfl, _⟩ := h
      exact ⟨i1, i2.trans p3⟩
  · rename_i hout
    simp only [Option.some.injEq, Prod.mk.injEq] at h
    obtain ⟨rfl, _⟩ := h
    unfold outstanding at hout
    simp only [Bool.or_eq_true, Bool.not_eq_true', not_or, Bool.not_eq_false] at hout
    exact ⟨List.isEmpty_iff.mp hout.1, List.isEmpty_iff.mp hout.2⟩

/-! ### durable points with GC in the history -/

/-- a primary GC cycle on a multihash store flushes the primary pool; started with an empty index pool
    it is a durable point -/
def SOp.isDurable4 (kind : PKind) : SOp → Bool
  | .pgc .. => decide (kind = .mh)
  | op => op.isDurable

def lastDurable4 (kind : PKind) (imm : Bool) : Spec → Spec → List SOp → Spec
  | _, dur, [] => dur
  | cur, dur, op :: ops =>
    lastDurable4 kind imm (specStep kind imm cur op).1
      (if op.isDurable4 kind then (specStep kind imm cur op).1 else dur) ops

/-! The premise on primary GC cycles is C07's `PgcFromClean` (Sth/Lemmas/C07GG.lean): every primary GC
    cycle of the history starts with an empty index pool. -/

/-! ### one step -/

theorem durable_of_recover {c : Cfg} {U : List (Bytes × Bytes)} {d : Disk} {spec : Spec}
    (h : ∃ dr mr, openStoreR c d = (dr, .ok mr) ∧ SInv U mr dr spec ∧ mr.kind = c.kind ∧
      mr.bits = c.bits) : Durable c U d spec := by
  obtain ⟨dr, mr, o1, o2, _⟩ := h
  exact ⟨dr, mr, o1, o2⟩

section
variable {c : Cfg} {U : List (Bytes × Bytes)} {s : SState} {spec specD : Spec} {n B : Nat}

theorem stepS_disk4 (s : SState) (op : SOp) (h : op.isDurable = false) (h2 : op.isGC = false) :
    (stepS s op).1.d = s.d := by
  cases op with
  | put k v => simp only [stepS]; split <;> rfl
  | get k => simp only [stepS]; split <;> rfl
  | has k => simp only [stepS]; split <;> rfl
  | size k => simp only [stepS]; split <;> rfl
  | rm k => simp only [stepS]; split <;> rfl
  | flush o => cases h
  | iter o => cases h
  | reopen o u => cases h
  | igc a b => cases h2
  | pgc a b => cases h2

/-- the durable contents along one call, multihash stores -/
theorem step_dur_mh (hc : c.Legal) (hU : Univ c.kind U) (hG : GInv c U s spec n B)
    (hn : n < 268435456) (hD : DiskG s.d) (hDur : Durable c U s.d specD) (op : SOp)
    (hB : B + op.bytes < two31) (hclean : pgcClean s op = true) :
    Durable c U (stepS s op).1.d
      (if op.isDurable4 c.kind then (specStep c.kind c.imm spec op).1 else specD) := by
  have hkmh : c.kind = .mh := hG.kmh
  have hD' : DiskG (stepS s op).1.d := stepS_keeps s op hD
  cases op with
  | put k v => rw [stepS_disk4 s _ rfl rfl]; exact hDur
  | get k => rw [stepS_disk4 s _ rfl rfl]; exact hDur
  | has k => rw [stepS_disk4 s _ rfl rfl]; exact hDur
  | size k => rw [stepS_disk4 s _ rfl rfl]; exact hDur
  | rm k => rw [stepS_disk4 s _ rfl rfl]; exact hDur
  | flush order =>
    obtain ⟨m', d', f1, f2, _⟩ := flush_g hU hG (by omega) hB order
    obtain ⟨p1, p2⟩ := storeFlush_pools f1
    simp only [stepS, f1] at hD' ⊢
    simp only [SOp.isDurable4, SOp.isDurable, if_true, specStep]
    exact durable_of_recover (clean_recover_g hc hU f2 (by omega) p1 p2 hD'.snap)
  | iter order =>
    obtain ⟨m', d', f1, f2, _⟩ := flush_g hU hG (by omega) hB order
    obtain ⟨p1, p2⟩ := storeFlush_pools f1
    have hst : (stepS s (.iter order)).1.d = d' := by
      simp only [stepS, f1]; split <;> rfl
    rw [hst] at hD' ⊢
    simp only [SOp.isDurable4, SOp.isDurable, if_true, specStep]
    exact durable_of_recover (clean_recover_g hc hU f2 (by omega) p1 p2 hD'.snap)
  | reopen order us =>
    obtain ⟨m', d', r1, r2⟩ := step_reopen_g hc hU hG (by omega) hB order us
    obtain ⟨m1, d1, p1, _⟩ := priFlush_g hU hG (by omega : n < 1073741824)
    obtain ⟨q1, q2⟩ := reopen_pools (s := s) (order := order) (us := us) (by rw [p1]; simp)
      (by rw [r1])
    rw [r1] at hD' q1 q2 ⊢
    simp only [SOp.isDurable4, SOp.isDurable, if_true, specStep]
    exact durable_of_recover (clean_recover_g hc hU r2 (by omega) q1 q2 hD'.snap)
  | igc sf bud =>
    have hN : s.m.ifileNum < two32 := by
      have := hG.cntI; unfold two32; omega
    have := igc_durable (U := U) hc (DiskShape.of_ginv hG hD) hN hDur sf bud
    simp only [SOp.isDurable4, SOp.isDurable, Bool.false_eq_true, if_false]
    exact this
  | pgc lowUse bud =>
    have hin : s.m.inext = [] := List.isEmpty_iff.mp hclean
    have hkind : s.m.kind = .mh := hG.kind
    have hG' : GInv c U ⟨s.cfg, s.m, s.d⟩ spec n B := hG
    obtain ⟨res, hp⟩ := primaryGC_some hU hG' (by omega) lowUse bud
    obtain ⟨dr, mr, o1, o2, _, _⟩ := pgc_crash hc hU hG' (by omega) hin hD lowUse bud hp
    have hst : (stepS s (.pgc lowUse bud)).1.d = res.2.2.1 := by
      simp only [stepS, hkind, hp]
    rw [hst]
    simp only [SOp.isDurable4, hkmh, decide_true, if_true, specStep]
    exact ⟨dr, mr, o1, o2⟩

/-- the durable contents along one call, CID stores -/
theorem step_dur_cid (hc : c.Legal) (hcid : c.kind = .cid) (hU : Univ c.kind U)
    (hI : Inv c U s spec n B) (hY : YInv c s) (hn : n + 1 < 1073741824) (hD : DiskG s.d)
    (hDur : Durable c U s.d specD) (op : SOp) (hB : B + op.bytes < two31) :
    Durable c U (stepS s op).1.d
      (if op.isDurable4 c.kind then (specStep c.kind c.imm spec op).1 else specD) := by
  have hD' : DiskG (stepS s op).1.d := stepS_keeps s op hD
  cases op with
  | put k v => rw [stepS_disk4 s _ rfl rfl]; exact hDur
  | get k => rw [stepS_disk4 s _ rfl rfl]; exact hDur
  | has k => rw [stepS_disk4 s _ rfl rfl]; exact hDur
  | size k => rw [stepS_disk4 s _ rfl rfl]; exact hDur
  | rm k => rw [stepS_disk4 s _ rfl rfl]; exact hDur
  | flush order =>
    obtain ⟨m', d', f1, f2, f3, _⟩ := flush_of_inv4 hU hI hY (by omega) hB order
    obtain ⟨p1, p2⟩ := storeFlush_pools f1
    simp only [stepS, f1] at hD' ⊢
    simp only [SOp.isDurable4, SOp.isDurable, if_true, specStep]
    exact clean_durable4 hc f2 f3 hD'.snap p1 p2
  | iter order =>
    obtain ⟨m', d', f1, f2, f3, _⟩ := flush_of_inv4 hU hI hY (by omega) hB order
    obtain ⟨p1, p2⟩ := storeFlush_pools f1
    have hst : (stepS s (.iter order)).1.d = d' := by
      simp only [stepS, f1]; split <;> rfl
    rw [hst] at hD' ⊢
    simp only [SOp.isDurable4, SOp.isDurable, if_true, specStep]
    exact clean_durable4 hc f2 f3 hD'.snap p1 p2
  | reopen order us =>
    obtain ⟨m', d', r1, r2, r3, _⟩ := step_reopen4 hc hU hI hY (by omega) hB order us
    obtain ⟨pc, pfn, plen, pfiles, cidf, p1, _, _⟩ := priFlush_ok hI.p (fun hk => by
      have := (hI.cnt.mh hk).1
      unfold two32; omega)
    obtain ⟨q1, q2⟩ := reopen_pools (s := s) (order := order) (us := us) (by rw [p1]; simp)
      (by rw [r1])
    rw [r1] at hD' q1 q2 ⊢
    simp only [SOp.isDurable4, SOp.isDurable, if_true, specStep]
    exact clean_durable4 hc r2 r3 hD'.snap q1 q2
  | igc sf bud =>
    have hN : s.m.ifileNum < two32 := by
      have := hI.cnt.idx; unfold two32; omega
    have := igc_durable (U := U) hc (DiskShape.of_inv hcid hI hY hD) hN hDur sf bud
    simp only [SOp.isDurable4, SOp.isDurable, Bool.false_eq_true, if_false]
    exact this
  | pgc lowUse bud =>
    have hkind : s.m.kind = .cid := by rw [hI.kind, hcid]
    have hst : (stepS s (.pgc lowUse bud)).1.d = s.d := by simp only [stepS, hkind]
    rw [hst]
    simp only [SOp.isDurable4, hcid, reduceCtorEq, decide_false, Bool.false_eq_true, if_false]
    exact hDur

end

/-! ### the runs -/

theorem run_g4 {c : Cfg} {U : List (Bytes × Bytes)} (hc : c.Legal) (hU : Univ c.kind U) :
    ∀ (ops : List SOp) (s : SState) (spec specD : Spec) (n B : Nat),
    GInv c U s spec n B → DiskG s.d → Durable c U s.d specD → DurW specD B →
    (∀ op ∈ ops, ∀ k, op.keyOf = some k → ∀ dig, keyClass c.kind k = .ok dig → (k, dig) ∈ U) →
    GcCountersOK s ops → PgcFromClean s ops → B + (ops.map SOp.bytes).sum < two31 →
    ∃ n', GInv c U (runS s ops).1 (specRun c.kind c.imm spec ops).1 n'
        (B + (ops.map SOp.bytes).sum) ∧ DiskG (runS s ops).1.d ∧
      Durable c U (runS s ops).1.d (lastDurable4 c.kind c.imm spec specD ops) ∧
      DurW (lastDurable4 c.kind c.imm spec specD ops) (B + (ops.map SOp.bytes).sum)
  | [], _, _, _, n, _, hG, hD, hDur, hW, _, _, _, _ => ⟨n, hG, hD, hDur, hW⟩
  | op :: ops, s, spec, specD, n, B, hG, hD, hDur, hW, hk, hb, hp, hB => by
    simp only [List.map_cons, List.sum_cons] at hB ⊢
    obtain ⟨hb1, hb2⟩ := hb
    obtain ⟨hp1, hp2⟩ := hp
    obtain ⟨_, n1, h2, _⟩ := step_g hc hU hG.tight hb1 op (hk op (by simp)) (by omega)
    have h3 := step_dur_mh hc hU hG.tight hb1 hD hDur op (by omega) hp1
    have h4 : DiskG (stepS s op).1.d := stepS_keeps s op hD
    have h6 : DurW (if op.isDurable4 c.kind then (specStep c.kind c.imm spec op).1 else specD)
        (B + op.bytes) := by
      split
      · exact ⟨h2.nodup, h2.w⟩
      · exact ⟨hW.1, by have := hW.2; omega⟩
    obtain ⟨n2, i1, i2, i3, i4⟩ := run_g4 hc hU ops (stepS s op).1 (specStep c.kind c.imm spec op).1 _
      n1 (B + op.bytes) h2 h4 h3 h6 (fun o ho => hk o (by simp [ho])) hb2 hp2 (by omega)
    refine ⟨n2, ?_⟩
    rw [runS_cons_fst, specRun_cons_fst]
    have e2 : B + (op.bytes + (ops.map SOp.bytes).sum) = B + op.bytes + (ops.map SOp.bytes).sum := by
      omega
    rw [e2]
    exact ⟨i1, i2, i3, i4⟩

theorem run_cid4 {c : Cfg} {U : List (Bytes × Bytes)} (hc : c.Legal) (hcid : c.kind = .cid)
    (hU : Univ c.kind U) :
    ∀ (ops : List SOp) (s : SState) (spec specD : Spec) (n B : Nat),
    Inv c U s spec n B → YInv c s → DiskG s.d → Durable c U s.d specD → DurW specD B →
    (∀ op ∈ ops, ∀ k, op.keyOf = some k → ∀ dig, keyClass c.kind k = .ok dig → (k, dig) ∈ U) →
    n + ops.length < 1073741824 → B + (ops.map SOp.bytes).sum < two31 →
    Inv c U (runS s ops).1 (specRun c.kind c.imm spec ops).1 (n + ops.length)
        (B + (ops.map SOp.bytes).sum) ∧ YInv c (runS s ops).1 ∧ DiskG (runS s ops).1.d ∧
      Durable c U (runS s ops).1.d (lastDurable4 c.kind c.imm spec specD ops) ∧
      DurW (lastDurable4 c.kind c.imm spec specD ops) (B + (ops.map SOp.bytes).sum)
  | [], _, _, _, _, _, hI, hY, hD, hDur, hW, _, _, _ => ⟨hI, hY, hD, hDur, hW⟩
  | op :: ops, s, spec, specD, n, B, hI, hY, hD, hDur, hW, hk, hn, hB => by
    simp only [List.length_cons, List.map_cons, List.sum_cons] at hn hB ⊢
    obtain ⟨_, h2, h2'⟩ := step_ok4_cid hc hcid hU hI hY op (hk op (by simp)) (by omega) (by omega)
    have h3 := step_dur_cid hc hcid hU hI hY (by omega) hD hDur op (by omega)
    have h4 : DiskG (stepS s op).1.d := stepS_keeps s op hD
    have h6 : DurW (if op.isDurable4 c.kind then (specStep c.kind c.imm spec op).1 else specD)
        (B + op.bytes) := by
      split
      · exact ⟨h2.nodup, h2.w⟩
      · exact ⟨hW.1, by have := hW.2; omega⟩
    obtain ⟨i1, i1', i2, i3, i4⟩ := run_cid4 hc hcid hU ops (stepS s op).1
      (specStep c.kind c.imm spec op).1 _ (n + 1) (B + op.bytes) h2 h2' h4 h3 h6
      (fun o ho => hk o (by simp [ho])) (by omega) (by omega)
    rw [runS_cons_fst, specRun_cons_fst]
    have e1 : n + (ops.length + 1) = n + 1 + ops.length := by omega
    have e2 : B + (op.bytes + (ops.map SOp.bytes).sum) = B + op.bytes + (ops.map SOp.bytes).sum := by
      omega
    rw [e1, e2]
    exact ⟨i1, i1', i2, i3, i4⟩

/-- the freshly opened store is its own durable point -/
theorem durable_init (c : Cfg) (hc : c.Legal) (U : List (Bytes × Bytes)) (s : SState)
    (hi : initS c = some s) : Durable c U s.d [] := by
  have hI := inv_init c hc U s hi
  have hY := yinv_init c hc s hi
  have hD := diskG_init c hc s hi
  have hp : s.m.inext = [] ∧ s.m.pnext = [] := by
    rcases (by cases c.kind <;> simp : c.kind = .mh ∨ c.kind = .cid) with hk | hk
    · rw [initS_mh c hc hk] at hi; cases hi; exact ⟨rfl, rfl⟩
    · rw [initS_cid c hc hk] at hi; cases hi; exact ⟨rfl, rfl⟩
  have hI' : Inv c U ⟨s.cfg, s.m, s.d⟩ [] 0 0 := hI
  have hY' : YInv c ⟨s.cfg, s.m, s.d⟩ := hY
  exact clean_durable4 hc hI' hY' hD.snap hp.1 hp.2

end Sth
