import Sth.Lemmas.C11D1

/-!
C11 P3 by induction (2): the loop over the closed files of a complete cycle, with what it does to one
file `f` tracked — the loop reaches `f`, a low-use `f` has its last two record spans relocated, and
afterwards exactly their old locations are the recorded blocks inside `f`.  Core Lean only.
-/

namespace Sth.C11D

open Sth.C11 Sth.C13H Sth.C13X

/-- the record spans of file `f` of a disk, read off the bytes -/
def lv (d : Disk) (f : Nat) : List (Nat × Bytes) := liveAt 0 (spansOf (fileOf d.pfiles f))

/-- the recorded blocks that lie in file `f` -/
def recIn (cfg : Cfg) (m : Mem) (d : Disk) (f : Nat) (b : Block) : Prop :=
  b ∈ recordedG ⟨cfg, m, d⟩ ∧ b.off / m.pmax = f

section
variable {c : Cfg} {U : List (Bytes × Bytes)} {cfg : Cfg} {spec : Spec} {B : Nat} {m0 : Mem}
  {d0 : Disk}

theorem lv_eq {m : Mem} {d : Disk} {k pf : Nat} {psp : Nat → List GSpan}
    (hS : GState c U cfg m d spec k B pf psp) {f : Nat} (h1 : pf ≤ f) (h2 : f ≤ m.pfileNum) :
    lv d f = liveAt 0 (psp f) := by
  unfold lv
  rw [fileOf_some (hS.log.files f h1 h2), spansOf_gbytes (hS.log.ok f h1 h2)]

theorem spanBlk_file {m : Mem} {d : Disk} {k pf : Nat} {psp : Nat → List GSpan}
    (hS : GState c U cfg m d spec k B pf psp) {g : Nat} (h1 : pf ≤ g) (h2 : g ≤ m.pfileNum)
    {x : Nat × Bytes} (hx : x ∈ liveAt 0 (psp g)) : (spanBlk m.pmax g x).off / m.pmax = g := by
  have hlt := hS.log.starts g h1 h2 x hx
  show (m.pmax * g + x.1) / m.pmax = g
  have hp : 0 < m.pmax := hS.g.pmax1
  rw [Nat.mul_add_div hp, Nat.div_eq_of_lt hlt]; rfl

/-- the result about file `f` of a loop that starts at or before `f` -/
def ResF (cfg : Cfg) (lowUse f : Nat) (d2 : Disk) (mF : Mem) (dF : Disk) : Prop :=
  ∃ (pre Rl : List (Nat × Bytes)), lv d2 f = pre ++ Rl.reverse ∧ Rl.length = min 2 (lv d2 f).length ∧ lv dF f = lv d2 f ∧
    ∀ b, recIn cfg mF dF f b ↔ b ∈ Rl.map (spanBlk mF.pmax f)

/-- the loop over the closed files, complete (no deadline), with file `f` tracked -/
theorem pgcGo_t (hU : Univ c.kind U) (lowUse f : Nat) (d2 : Disk) (P : Nat) (hwf : WfAfter d2 P) :
    ∀ (fuel nn pf : Nat) (m : Mem) (d : Disk) (recl k : Nat)
      (psp : Nat → List GSpan), HState c U cfg m d spec k B pf psp → Rel cfg m0 d0 m d →
      C13X.LInv cfg m d psp nn → pf ≤ nn → nn ≤ m.pfileNum → m.pfileNum = P →
      k + 2 * (m.pfileNum - nn) < 1073741824 → m.pfileNum - nn < fuel →
      (∀ g, nn ≤ g → d.pfiles.get? g = d2.pfiles.get? g) →
      ∃ k' pf' psp', HState c U cfg (primaryGC.go lowUse fuel nn ⟨m.pmax, pf⟩ m d none recl).2.1
          (primaryGC.go lowUse fuel nn ⟨m.pmax, pf⟩ m d none recl).2.2.1 spec k' B pf' psp' ∧
        Rel cfg m0 d0 (primaryGC.go lowUse fuel nn ⟨m.pmax, pf⟩ m d none recl).2.1
          (primaryGC.go lowUse fuel nn ⟨m.pmax, pf⟩ m d none recl).2.2.1 ∧
        (primaryGC.go lowUse fuel nn ⟨m.pmax, pf⟩ m d none recl).2.1.pmax = m.pmax ∧
        (nn ≤ f → f < P → m.visited.contains f = false → (∀ b, ¬ recIn cfg m d f b) →
          LowUse (fileOf d2.pfiles f) lowUse → lv d2 f ≠ [] →
          ResF cfg lowUse f d2 (primaryGC.go lowUse fuel nn ⟨m.pmax, pf⟩ m d none recl).2.1
            (primaryGC.go lowUse fuel nn ⟨m.pmax, pf⟩ m d none recl).2.2.1) ∧
        (f < nn →
          (primaryGC.go lowUse fuel nn ⟨m.pmax, pf⟩ m d none recl).2.2.1.pfiles.get? f =
            d.pfiles.get? f ∧
          ∀ b, recIn cfg (primaryGC.go lowUse fuel nn ⟨m.pmax, pf⟩ m d none recl).2.1
            (primaryGC.go lowUse fuel nn ⟨m.pmax, pf⟩ m d none recl).2.2.1 f b ↔ recIn cfg m d f b) := by
  intro fuel
  induction fuel with
  | zero => intro nn pf m d recl k psp _ _ _ _ _ _ _ hf; omega
  | succ fuel ih =>
    intro nn pf m d recl k psp hS hR hL h1 h2 hP hk hfu hbytes
    by_cases he : nn = m.pfileNum
    · rw [primaryGC.go, if_pos he]
      exact ⟨k, pf, psp, hS, hR, rfl, fun a b => by omega, fun _ => ⟨rfl, fun _ => Iff.rfl⟩⟩
    by_cases hv : m.visited.contains nn = true
    · rw [primaryGC.go, if_neg he, if_pos hv]
      obtain ⟨k', pf', psp', g1, g2, g3, g4, g5⟩ := ih (nn + 1) pf m d recl k psp hS hR hL.succ
        (by omega) (by omega) hP (by omega) (by omega) (fun g hg => hbytes g (by omega))
      refine ⟨k', pf', psp', g1, g2, g3, ?_, ?_⟩
      · intro a1 a2 a3 a4 a5 a6
        have hne : nn ≠ f := by
          rintro rfl
          rw [a3] at hv; cases hv
        exact g4 (by omega) a2 a3 a4 a5 a6
      · intro a1
        by_cases hfn : f < nn + 1
        · exact g5 hfn
        · omega
    have hv' : m.visited.contains nn = false := by
      cases hh : m.visited.contains nn
      · rfl
      · exact absurd hh hv
    have hnn : nn < m.pfileNum := by omega
    have hfile : d.pfiles.get? nn = some (gbytes (psp nn)) := hS.gs.log.files nn h1 (by omega)
    have hwfn : ∀ x ∈ liveAt 0 (psp nn), RecSpan x.2 :=
      hwf nn (by omega) (psp nn) (by rw [← hbytes nn (Nat.le_refl _)]; exact hfile)
        (hS.gs.log.ok nn h1 (by omega))
    have hne_err := reapRecords_ne_err m d nn lowUse hfile (hS.gs.log.ok nn h1 (by omega)) hwfn
    obtain ⟨k1, psp1, hS1, hRr, hL1, hk1, e1, e2, e3, hdead, Rl, hrec, hlive, hY⟩ :=
      reapRecords_y hU hS (by omega) h1 hnn lowUse hR.nodup hL
    have hoth := fun g (hg : g ≠ nn) => reapRecords_other m d nn lowUse (f := g) hg
    cases hr : reapRecords m d nn lowUse with
    | mk r rest =>
    obtain ⟨m1, d1, got⟩ := rest
    rw [hr] at hS1 hRr hL1 e1 e2 e3 hdead hrec hY hne_err hoth
    simp only at hS1 hRr hL1 e1 e2 e3 hdead hrec hY hne_err hoth
    have hR1 := hR.trans hRr
    rw [pgcGo_unfold lowUse fuel nn ⟨m.pmax, pf⟩ m d none recl he hv' hr hne_err]
    have hp : (poll none).1 = false := rfl
    rw [if_neg (by rw [hp]; decide)]
    -- the optional unlink of the first file
    have hdrop : ∃ pf2, HState c U cfg m1
        (if r = .dead ∧ nn = pf then
          { d1 with phdr := some ⟨m.pmax, pf + 1⟩, pfiles := d1.pfiles.del nn } else d1) spec k1 B pf2
          psp1 ∧ pf2 ≤ nn + 1 ∧
        (if r = .dead ∧ nn = pf then ({ max := m.pmax, first := pf + 1 } : PriHeader)
          else ⟨m.pmax, pf⟩) = ⟨m1.pmax, pf2⟩ := by
      by_cases hd : r = .dead ∧ nn = pf
      · rw [if_pos hd, if_pos hd]
        obtain ⟨hd1, hd2⟩ := hd
        have hlt : pf < m1.pfileNum := by rw [e1, ← hd2]; omega
        have := drop_h hS1 (by omega) hlt (by rw [← hd2]; exact hdead hd1)
        rw [e2] at this
        rw [hd2]
        exact ⟨pf + 1, this, by omega, by rw [e2]⟩
      · rw [if_neg hd, if_neg hd]
        exact ⟨pf, hS1, by omega, by rw [e2]⟩
    obtain ⟨pf2, hS2, hpf2, hhdr⟩ := hdrop
    -- the disk after the optional unlink: same freelist, files other than `nn` untouched
    have hdY : ∀ g, g ≠ nn → (if r = .dead ∧ nn = pf then
        ({ d1 with phdr := some ⟨m.pmax, pf + 1⟩, pfiles := d1.pfiles.del nn } : Disk) else d1).pfiles.get? g =
        d.pfiles.get? g := by
      intro g hg
      split
      · show (d1.pfiles.del nn).get? g = _
        rw [NMap.get?_del_ne _ hg]; exact hoth g hg
      · exact hoth g hg
    have hrecY : recordedG ⟨cfg, { m1 with visited := m1.visited ++ [nn] }, (if r = .dead ∧ nn = pf then
        ({ d1 with phdr := some ⟨m.pmax, pf + 1⟩, pfiles := d1.pfiles.del nn } : Disk) else d1)⟩ =
        recordedG ⟨cfg, m1, d1⟩ := by
      split <;> exact recordedG_congr rfl rfl rfl
    have hRd : Rel cfg m0 d0 { m1 with visited := m1.visited ++ [nn] } (if r = .dead ∧ nn = pf then
        ({ d1 with phdr := some ⟨m.pmax, pf + 1⟩, pfiles := d1.pfiles.del nn } : Disk) else d1) :=
      hR1.trans (rel_frame hR1.nodup (fun _ h => h) (fun _ => by split <;> rfl)
        (List.Perm.of_eq hrecY))
    have hLd : C13X.LInv cfg { m1 with visited := m1.visited ++ [nn] } (if r = .dead ∧ nn = pf then
        ({ d1 with phdr := some ⟨m.pmax, pf + 1⟩, pfiles := d1.pfiles.del nn } : Disk) else d1) psp1
        (nn + 1) := by
      intro b hb
      rw [hrecY] at hb
      exact hL1 b hb
    have hS3 := hS2.visited (m1.visited ++ [nn])
    have hh : (if r = .dead ∧ nn = (⟨m.pmax, pf⟩ : PriHeader).first then
        ({ (⟨m.pmax, pf⟩ : PriHeader) with first := (⟨m.pmax, pf⟩ : PriHeader).first + 1 } : PriHeader)
        else ⟨m.pmax, pf⟩) = ⟨m1.pmax, pf2⟩ := hhdr
    rw [hh]
    have hpn : (poll none).2 = none := rfl
    rw [hpn]
    obtain ⟨k', pf', psp', g1, g2, g3, g4, g5⟩ := ih (nn + 1) pf2
      { m1 with visited := m1.visited ++ [nn] } _ (recl + got) k1 psp1 hS3 hRd hLd hpf2
      (by show nn + 1 ≤ m1.pfileNum; omega) (by show m1.pfileNum = P; omega)
      (by show k1 + 2 * (m1.pfileNum - (nn + 1)) < 1073741824; omega)
      (by show m1.pfileNum - (nn + 1) < fuel; omega)
      (fun g hg => by rw [hdY g (by omega)]; exact hbytes g (by omega))
    dsimp only at g1 g2 g3 g4 g5 ⊢
    -- what the visit of `nn` records lies in file `nn`
    have hrl : ∀ x ∈ Rl, x ∈ liveAt 0 (psp nn) := by
      intro x hx
      rcases hY with ⟨y, _, hny⟩ | ⟨hnil, _⟩ | ⟨_, pre, hpre, _⟩
      · exact absurd (hwfn y ‹_›) hny
      · rw [hnil] at hx; cases hx
      · rw [hpre]; exact List.mem_append_right _ (List.mem_reverse.mpr hx)
    have hrecIn : ∀ b, recIn cfg { m1 with visited := m1.visited ++ [nn] } (if r = .dead ∧ nn = pf then
        ({ d1 with phdr := some ⟨m.pmax, pf + 1⟩, pfiles := d1.pfiles.del nn } : Disk) else d1) f b ↔
        (recIn cfg m d f b ∨ (nn = f ∧ b ∈ Rl.map (spanBlk m.pmax nn))) := by
      intro b
      unfold recIn
      rw [hrecY, hrec, List.mem_append]
      show (_ ∧ b.off / m1.pmax = f) ↔ _
      rw [e2]
      constructor
      · rintro ⟨h | h, hf⟩
        · exact Or.inl ⟨h, hf⟩
        · right
          obtain ⟨x, hx, rfl⟩ := List.mem_map.mp h
          have := spanBlk_file hS.gs h1 (by omega) (hrl x hx)
          exact ⟨by omega, List.mem_map.mpr ⟨x, hx, rfl⟩⟩
      · rintro (⟨h, hf⟩ | ⟨hnf, h⟩)
        · exact ⟨Or.inl h, hf⟩
        · refine ⟨Or.inr h, ?_⟩
          obtain ⟨x, hx, rfl⟩ := List.mem_map.mp h
          have := spanBlk_file hS.gs h1 (by omega) (hrl x hx)
          omega
    refine ⟨k', pf', psp', g1, g2, by rw [g3, e2], ?_, ?_⟩
    · intro a1 a2 a3 a4 a5 a6
      by_cases hnf : nn = f
      · -- the visit of `f`
        subst hnf
        have hlvd : lv d2 nn = liveAt 0 (psp nn) := by
          unfold lv
          have : fileOf d2.pfiles nn = gbytes (psp nn) := by
            unfold fileOf; rw [← hbytes nn (Nat.le_refl _), hfile]; rfl
          rw [this, spansOf_gbytes (hS.gs.log.ok nn h1 (by omega))]
        have hlow : LowUse (gbytes (psp nn)) lowUse := by
          have : fileOf d2.pfiles nn = gbytes (psp nn) := by
            unfold fileOf; rw [← hbytes nn (Nat.le_refl _), hfile]; rfl
          rw [← this]; exact a5
        rcases hY with ⟨y, hy, hny⟩ | ⟨_, hnil | hnl⟩ | ⟨hkept, pre, hpre, hlen⟩
        · exact absurd (hwfn y hy) hny
        · rw [hlvd] at a6; exact absurd hnil a6
        · exact absurd hlow hnl
        · obtain ⟨q1, q2⟩ := g5 (Nat.lt_succ_self nn)
          refine ⟨pre, Rl, by rw [hlvd]; exact hpre, by rw [hlvd]; exact hlen, ?_, ?_⟩
          · -- the file keeps its record spans
            rw [hlvd]
            unfold lv fileOf
            rw [q1]
            have hnd : ¬ (r = .dead ∧ nn = pf) := by rw [hkept]; rintro ⟨h, _⟩; cases h
            rw [if_neg hnd]
            have e1' : m1.pfileNum = m.pfileNum := e1
            have := hS1.gs.log.files nn h1 (by omega)
            rw [this]
            simp only [Option.getD_some]
            rw [spansOf_gbytes (hS1.gs.log.ok nn h1 (by omega))]
            exact hlive
          · intro b
            rw [g3.trans e2, q2 b, hrecIn b]
            constructor
            · rintro (h | ⟨_, h⟩)
              · exact absurd h (a4 b)
              · exact h
            · intro h
              exact Or.inr ⟨rfl, h⟩
      · have hlt : nn + 1 ≤ f := by omega
        have hvis1 : ({ m1 with visited := m1.visited ++ [nn] } : Mem).visited.contains f = false := by
          show (m1.visited ++ [nn]).contains f = false
          rw [e3]
          cases hh : (m.visited ++ [nn]).contains f
          · rfl
          · exfalso
            have := List.contains_iff_mem.mp hh
            rw [List.mem_append, List.mem_singleton] at this
            rcases this with h | h
            · rw [List.contains_iff_mem.mpr h] at a3; cases a3
            · omega
        have hno1 : ∀ b, ¬ recIn cfg { m1 with visited := m1.visited ++ [nn] } (if r = .dead ∧ nn = pf then
            ({ d1 with phdr := some ⟨m.pmax, pf + 1⟩, pfiles := d1.pfiles.del nn } : Disk) else d1) f b := by
          intro b hb
          rcases (hrecIn b).mp hb with h | ⟨h, _⟩
          · exact a4 b h
          · exact hnf h
        exact g4 hlt a2 hvis1 hno1 a5 a6
    · intro a1
      obtain ⟨q1, q2⟩ := g5 (by omega)
      refine ⟨by rw [q1]; exact hdY f (by omega), ?_⟩
      intro b
      rw [q2 b, hrecIn b]
      constructor
      · rintro (h | ⟨h, _⟩)
        · exact h
        · omega
      · exact Or.inl

end

end Sth.C11D
