/-
C03 — crash images of Store.Close: the flush part is the crash analysis of Store.Flush; once the snapshot
is in place the index flush is complete, OpenStore takes the snapshot path and the recovered state is the
reopened state of C02.
Core Lean only.
-/
import Sth.Model.CrashImageClose
import Sth.Lemmas.C03Keep

namespace Sth

/-! ### Close in parts -/

theorem closeParts_eq {m m1 m2 : Mem} {d d1 d2 : Disk} {order : List Nat}
    (p1 : priFlush m d = some (m1, d1)) (i1 : idxFlush m1 d1 order = (m2, d2)) :
    ∃ fr, OptExt d2.free fr ∧
      closeParts m d order = some (d2, ⟨8 * 2 ^ m2.bits, m2.buckets.filter (·.2 ≠ 0)⟩,
        { d2 with snap := some ⟨8 * 2 ^ m2.bits, m2.buckets.filter (·.2 ≠ 0)⟩, free := fr }) ∧
      storeClose { disk := d, mem := some m } order =
        some { disk := { d2 with snap := some ⟨8 * 2 ^ m2.bits, m2.buckets.filter (·.2 ≠ 0)⟩,
                                 free := fr }, mem := none } := by
  obtain ⟨fl, fr, f1, f2⟩ := flFlush_ext m2
    { d2 with snap := some ⟨8 * 2 ^ m2.bits, m2.buckets.filter (·.2 ≠ 0)⟩ }
  refine ⟨fr, f1, ?_, ?_⟩
  · unfold closeParts
    simp only [p1, i1, f2]
  · unfold storeClose
    simp only [p1, i1, f2]

/-! ### the freelist phase -/

theorem crashImage_freeStream (d d' : Disk) (k : Nat) :
    ∃ fr', crashImage d (freeStream d d') k false = { d with free := fr' } := by
  unfold freeStream
  cases d'.free with
  | none => exact ⟨d.free, rfl⟩
  | some f =>
    simp only
    unfold crashImage
    split
    · exact ⟨d.free, rfl⟩
    · split
      · exact ⟨d.free, by simp⟩
      · split
        · exact ⟨_, rfl⟩
        · exact ⟨_, rfl⟩

/-! ### recovery through the snapshot -/

theorem snap_recover {c : Cfg} {U : List (Bytes × Bytes)} {cfg : Cfg} {m : Mem} {d : Disk}
    {spec : Spec} {n B : Nat} (hc : c.Legal) (hI : Inv c U ⟨cfg, m, d⟩ spec n B)
    (hX : XInv c ⟨cfg, m, d⟩) (_ : m.inext = []) (hpn : m.pnext = []) (fr : Option Bytes) :
    ∃ dr mr, openStoreR c { d with snap := some ⟨8 * 2 ^ m.bits, m.buckets.filter (·.2 ≠ 0)⟩,
                                   free := fr } = (dr, .ok mr) ∧
      Reopened m d mr dr ∧ dr.snap = none ∧ dr.ifiles = d.ifiles := by
  have hIp : PInv m d := hI.p
  have hIi : IInv m d := hI.i
  have hkind : m.kind = c.kind := hI.kind
  have hbits : m.bits = c.bits := hX.bits
  have himax : m.imax = c.ifs := hX.imax
  obtain ⟨lg, hl⟩ := hX.log
  have hlf : ∀ f, f ≤ m.ifileNum → d.ifiles.get? f = some (logBytes (lg f)) := hl.files
  have hph : c.kind = .mh → d.phdr = some ⟨c.pfs, 0⟩ := hX.phdr
  have hpall : c.kind = .mh → ∀ f, f ≤ m.pfileNum → d.pfiles.get? f ≠ none := hX.pall
  have hpno : c.kind = .mh → d.pfiles.get? (m.pfileNum + 1) = none := fun hk =>
    (hIp.mh (by rw [hkind]; exact hk)).2.2 _ (Nat.lt_succ_self _)
  have hih : d.ihdr = some ⟨c.bits, c.ifs, 0, hdrPfs c⟩ := hX.ihdr
  obtain ⟨cf, pfn, plen, files', bk, o1, o2, o3, o4, o5⟩ := openStore_ok c hc
    (openFreelist ({ d with snap := some ⟨8 * 2 ^ m.bits, m.buckets.filter (·.2 ≠ 0)⟩, free := fr } : Disk))
    m.pfileNum m.ifileNum hph hpall hpno
    (Q := fun files' bk => files' = d.ifiles ∧ bk = m.buckets.filter (·.2 ≠ 0))
    (by
      intro dP e1 e2 e3
      refine ⟨dP.ifiles, m.buckets.filter (·.2 ≠ 0), ?_, e3, rfl⟩
      apply openIndex_snap c hc dP m.ifileNum _ (by rw [e1]; exact hih) (by rw [e2, hbits]; rfl)
      · intro f hf; rw [e3]; show d.ifiles.get? f ≠ none; rw [hlf f hf]; simp
      · rw [e3]; exact hIi.noFiles _ (Nat.lt_succ_self _))
  subst o4 o5
  have halloc : m.kind = .mh → m.pfileNum = m.precFileNum ∧ m.plength = m.precPos := by
    intro hk
    have := (hIp.mh hk).1
    rw [hpn] at this
    exact this
  refine ⟨_, _, o1, ?_, rfl, rfl⟩
  refine ⟨hkind.symm, hI.imm.symm, hbits.symm, himax.symm, hX.pmax.symm, rfl, rfl, rfl, rfl, rfl,
    rfl, NMap.sorted_filter _ hIi.sorted, NMap.get?_filter_nz hIi.sorted, fun _ => rfl, rfl, ?_, ?_, ?_,
    ?_, ?_, rfl, rfl⟩
  · intro file hf
    show cf = some file
    rcases kind_cases m with hk | hk
    · rw [(o2 (by rw [← hkind]; exact hk)).1]; exact hf
    · rw [(o3 (by rw [← hkind]; exact hk)).1]
      show some (d.cidfile.getD []) = _
      rw [hf]; rfl
  · show cf.getD [] = d.cidfile.getD []
    rcases kind_cases m with hk | hk
    · rw [(o2 (by rw [← hkind]; exact hk)).1]; rfl
    · rw [(o3 (by rw [← hkind]; exact hk)).1]; rfl
  · intro hk
    show pfn = m.precFileNum
    rw [(o2 (by rw [← hkind]; exact hk)).2.1]
    exact (halloc hk).1
  · show plen = m.precPos
    rcases kind_cases m with hk | hk
    · rw [(o2 (by rw [← hkind]; exact hk)).2.2]
      show (fileOf d.pfiles m.pfileNum).length = _
      rw [(hIp.mh hk).2.1]
      exact (halloc hk).2
    · rw [(o3 (by rw [← hkind]; exact hk)).2.2]
      have := hIp.cid hk
      rw [hpn] at this
      exact this
  · intro hk
    show pfn = m.pfileNum ∧ plen = m.plength
    obtain ⟨_, a2, a3⟩ := o2 (by rw [← hkind]; exact hk)
    rw [a2, a3]
    exact ⟨rfl, (hIp.mh hk).2.1⟩

/-- the reopened state reads every bucket like the flushed state -/
theorem reopened_buckets {c : Cfg} {U : List (Bytes × Bytes)} {cfg : Cfg} {m2 mr : Mem} {d2 dr : Disk}
    {spec : Spec} {n B : Nat} (hU : Univ c.kind U) (hI : Inv c U ⟨cfg, m2, d2⟩ spec n B)
    (hin : m2.inext = []) (hpn : m2.pnext = []) (r : Reopened m2 d2 mr dr) (b : Nat) :
    BucketSame c.kind mr dr m2 d2 b := by
  have hIa : SInv U m2 d2 spec := hI.a
  obtain ⟨orl, a1, _, a3⟩ := hIa.recs b
  refine ⟨orl, by rw [r.idxRecords hI.i hin b]; exact a1, a1, ?_⟩
  intro e he
  have hBk := a3 e he
  obtain ⟨key, val, dig, b1, b2, _, _, _⟩ := hBk.ex
  exact ⟨key, val, dig, r.priGet hI.p hpn b1, b1, (hU.dig b2).1, fun hb => (r.below _).mpr hb⟩

theorem recInv_of_reopened {c : Cfg} {U : List (Bytes × Bytes)} {cfg : Cfg} {m2 mr : Mem}
    {d2 dr : Disk} {spec : Spec} {n B : Nat} (hI : Inv c U ⟨cfg, m2, d2⟩ spec n B)
    (hX : XInv c ⟨cfg, m2, d2⟩) (hin : m2.inext = []) (hpn : m2.pnext = [])
    (r : Reopened m2 d2 mr dr) :
    RecInv c mr dr n B ∧ Inv c U ⟨c, mr, dr⟩ spec n B := by
  obtain ⟨hI', hX'⟩ := reopen_inv hI hX hin hpn r
  exact ⟨⟨hI'.kind, hI'.imm, hX'.bits, hI'.p, hI'.i, hX', hI'.cnt, r.inext⟩, hI'⟩

/-! ### the core: every crash image of Close recovers, every bucket old or new -/

section
variable {c : Cfg} {U : List (Bytes × Bytes)} {s : SState} {spec specD : Spec} {n B : Nat}

theorem close_core (hc : c.Legal) (hU : Univ c.kind U) (hI : Inv c U s spec n B) (hX : XInv c s)
    (hD : DiskWF s.d) (hn : n < 1073741824) (hB : B < two31) {dOld : Disk} {mOld : Mem}
    (hold : openStoreR c s.d = (dOld, .ok mOld)) (hAold : SInv U mOld dOld specD)
    (order : List Nat) (pt : ClosePoint) :
    ∃ m1 d1 m2 d2, priFlush s.m s.d = some (m1, d1) ∧
      idxFlush m1 d1 (fixOrder order s.m.inext.keys) = (m2, d2) ∧
      Inv c U ⟨s.cfg, m2, d2⟩ spec n B ∧ XInv c ⟨s.cfg, m2, d2⟩ ∧ m2.inext = [] ∧ m2.pnext = [] ∧
      ∀ fr, ∃ dr mr,
        openStoreR c (closeCrashImage s.d d2 ⟨8 * 2 ^ m2.bits, m2.buckets.filter (·.2 ≠ 0)⟩
          { d2 with snap := some ⟨8 * 2 ^ m2.bits, m2.buckets.filter (·.2 ≠ 0)⟩, free := fr } pt) =
          (dr, .ok mr) ∧ RecInv c mr dr n B ∧
        ((∃ newB : List Nat, ∀ b, (b ∉ newB → BucketSame c.kind mr dr mOld dOld b) ∧
            (b ∈ newB → BucketSame c.kind mr dr m2 d2 b)) ∨
          ((∀ b, BucketSame c.kind mr dr m2 d2 b) ∧ Inv c U ⟨c, mr, dr⟩ spec n B)) := by
  obtain ⟨m1, d1, m2, d2, lg, p1, i1, hI2, hX2, hin, hpn, _, _, _, hd2, _⟩ :=
    flush_parts hU hI hX hD hn hB order
  refine ⟨m1, d1, m2, d2, p1, i1, hI2, hX2, hin, hpn, ?_⟩
  intro fr
  cases pt with
  | flush k early =>
    obtain ⟨m1', d1', m2', d2', p1', i1', dr, mr, newB, r1, r2, r4⟩ :=
      crash_core hc hU hI hX hD hn hB hold hAold order s.d.free (Or.inl rfl) k early
    rw [p1] at p1'
    simp only [Option.some.injEq, Prod.mk.injEq] at p1'
    obtain ⟨rfl, rfl⟩ := p1'
    rw [i1] at i1'
    simp only [Prod.mk.injEq] at i1'
    obtain ⟨rfl, rfl⟩ := i1'
    have hfree : d2.free = s.d.free := by
      have := congrArg Disk.free hd2; exact this
    have hd2' : ({ d2 with free := s.d.free } : Disk) = d2 := by rw [← hfree]
    rw [hd2'] at r1
    exact ⟨dr, mr, r1, r2, Or.inl ⟨newB, r4⟩⟩
  | saved k =>
    obtain ⟨fr', hEq⟩ := crashImage_freeStream
      ({ d2 with snap := some ⟨8 * 2 ^ m2.bits, m2.buckets.filter (·.2 ≠ 0)⟩ } : Disk)
      { d2 with snap := some ⟨8 * 2 ^ m2.bits, m2.buckets.filter (·.2 ≠ 0)⟩, free := fr } k
    obtain ⟨dr, mr, o1, r, _, _⟩ := snap_recover hc hI2 hX2 hin hpn fr'
    obtain ⟨hRec, hInv⟩ := recInv_of_reopened hI2 hX2 hin hpn r
    refine ⟨dr, mr, ?_, hRec, Or.inr ⟨fun b => reopened_buckets hU hI2 hin hpn r b, hInv⟩⟩
    show openStoreR c (crashImage _ _ k false) = _
    rw [hEq]
    exact o1

end

/-! ### from buckets to keys -/

theorem get_of_bucket {c : Cfg} {mr mX : Mem} {dr dX : Disk} (hkr : mr.kind = c.kind)
    (hbr : mr.bits = c.bits) (hkX : mX.kind = c.kind) (hbX : mX.bits = c.bits) (key : Bytes)
    (h : ∀ ik b, indexKeyOf c.kind key = some ik → bucketOfKey c.bits ik = some b →
      BucketSame c.kind mr dr mX dX b) :
    (storeGet mr dr key).2 = (storeGet mX dX key).2 := by
  apply storeGet_congr (hkr.trans hkX.symm) (hbr.trans hbX.symm)
  intro ik b h1 h2
  rw [hkX] at h1 ⊢
  rw [hbX] at h2
  exact h ik b h1 h2

theorem get_old_or_new {c : Cfg} {mr mO mN : Mem} {dr dO dN : Disk} (hkr : mr.kind = c.kind)
    (hbr : mr.bits = c.bits) (hkO : mO.kind = c.kind) (hbO : mO.bits = c.bits)
    (hkN : mN.kind = c.kind) (hbN : mN.bits = c.bits)
    (h : ∀ b, BucketSame c.kind mr dr mO dO b ∨ BucketSame c.kind mr dr mN dN b) (key : Bytes) :
    (storeGet mr dr key).2 = (storeGet mO dO key).2 ∨
      (storeGet mr dr key).2 = (storeGet mN dN key).2 := by
  cases hik : indexKeyOf c.kind key with
  | none =>
    left
    apply get_of_bucket hkr hbr hkO hbO
    intro ik b h1
    rw [hik] at h1; cases h1
  | some ik =>
    cases hbk : bucketOfKey c.bits ik with
    | none =>
      left
      apply get_of_bucket hkr hbr hkO hbO
      intro ik' b h1 h2
      rw [hik] at h1; cases h1
      rw [hbk] at h2; cases h2
    | some b =>
      rcases h b with hb | hb
      · left
        apply get_of_bucket hkr hbr hkO hbO
        intro ik' b' h1 h2
        rw [hik] at h1; cases h1
        rw [hbk] at h2; cases h2
        exact hb
      · right
        apply get_of_bucket hkr hbr hkN hbN
        intro ik' b' h1 h2
        rw [hik] at h1; cases h1
        rw [hbk] at h2; cases h2
        exact hb

theorem getResOf_eq (o : Option (Bytes × Bytes)) :
    (match o with
      | some (_, v) => GetRes.found v
      | none => GetRes.absent) = getResOf o := by
  cases o <;> rfl

/-- the kind and bits of a state OpenStore returns -/
theorem openStoreR_kind_bits {c : Cfg} {U : List (Bytes × Bytes)} {s : SState} {spec : Spec}
    {n B : Nat} (hc : c.Legal) (hI : Inv c U s spec n B) (hX : XInv c s) (hD : DiskWF s.d)
    {dOld : Disk} {mOld : Mem} (hold : openStoreR c s.d = (dOld, .ok mOld)) :
    mOld.kind = c.kind ∧ mOld.bits = c.bits := by
  obtain ⟨lg, hl⟩ := hX.log
  obtain ⟨cfO, pfnO, plenO, filesO, frO, eqO, _⟩ :=
    recover_form c hc s.d s.m.pfileNum s.m.ifileNum lg (fun _ => []) hX.ihdr hD.snap hX.phdr hX.pall
      (fun hk => (hI.p.mh (by rw [hI.kind]; exact hk)).2.2 _ (Nat.lt_succ_self _))
      (fun f hf => by rw [hl.files f hf, List.append_nil]) (hI.i.noFiles _ (Nat.lt_succ_self _))
      (fun f hf r hr => by rw [← hX.bits]; exact hl.recs f hf r hr) (fun _ _ => isTorn_nil _)
  rw [eqO] at hold
  simp only [Prod.mk.injEq, Except.ok.injEq] at hold
  obtain ⟨_, rfl⟩ := hold
  exact ⟨rfl, rfl⟩

/-! ### the statement about Close -/

section
variable {c : Cfg} {U : List (Bytes × Bytes)} {s : SState} {spec specD : Spec} {n B : Nat}

theorem close_recovers (hc : c.Legal) (hU : Univ c.kind U) (hI : Inv c U s spec n B) (hX : XInv c s)
    (hD : DiskWF s.d) (hDur : Durable c U s.d specD) (hW : DurW specD B) (hn : n < 1073741824)
    (hB : B < two31) (order : List Nat) (pt : ClosePoint) :
    ∃ d2 sn dC, closeParts s.m s.d (fixOrder order s.m.inext.keys) = some (d2, sn, dC) ∧
      storeClose { disk := s.d, mem := some s.m } (fixOrder order s.m.inext.keys) =
        some { disk := dC, mem := none } ∧
      ∃ dOld mOld, openStoreR c s.d = (dOld, .ok mOld) ∧
      ∃ dNew mNew, openStoreR c dC = (dNew, .ok mNew) ∧
      ∃ dr mr, openStoreR c (closeCrashImage s.d d2 sn dC pt) = (dr, .ok mr) ∧
        (∀ key, (storeGet mr dr key).2 = (storeGet mOld dOld key).2 ∨
          (storeGet mr dr key).2 = (storeGet mNew dNew key).2) ∧
        (∀ k, pt = .saved k → ∀ key, (storeGet mr dr key).2 = (storeGet mNew dNew key).2) ∧
        (∀ key dig, (key, dig) ∈ U →
          (storeGet mOld dOld key).2 = getResOf (Spec.get specD dig) ∧
          (storeGet mNew dNew key).2 = getResOf (Spec.get spec dig)) ∧
        (∀ key e, keyClass c.kind key = .error e → (storeGet mr dr key).2 = .err e) ∧
        ∃ specR, (∀ dig, Spec.get specR dig = Spec.get specD dig ∨
            Spec.get specR dig = Spec.get spec dig) ∧
          Inv c U ⟨c, mr, dr⟩ specR n (B + B) ∧ XInv c ⟨c, mr, dr⟩ := by
  obtain ⟨dOld, mOld, hold, hAold⟩ := hDur
  obtain ⟨hkO, hbO⟩ := openStoreR_kind_bits hc hI hX hD hold
  obtain ⟨m1, d1, m2, d2, p1, i1, hI2, hX2, hin, hpn, himg⟩ :=
    close_core hc hU hI hX hD hn hB hold hAold order pt
  obtain ⟨fr, _, c1, c2⟩ := closeParts_eq p1 i1
  obtain ⟨dr, mr, r1, hRec, hbk⟩ := himg fr
  obtain ⟨dNew, mNew, o1, rN, _, _⟩ := snap_recover hc hI2 hX2 hin hpn fr
  have hk2 : m2.kind = c.kind := hI2.kind
  have hb2 : m2.bits = c.bits := hX2.bits
  have hkN : mNew.kind = c.kind := rN.kind.trans hk2
  have hbN : mNew.bits = c.bits := rN.bits.trans hb2
  have hNew2 : ∀ key, (storeGet mNew dNew key).2 = (storeGet m2 d2 key).2 := fun key =>
    get_of_bucket hkN hbN hk2 hb2 key (fun _ b _ _ => reopened_buckets hU hI2 hin hpn rN b)
  have hIa2 : SInv U m2 d2 spec := hI2.a
  refine ⟨d2, _, _, c1, c2, dOld, mOld, hold, dNew, mNew, o1, dr, mr, r1, ?_, ?_, ?_, ?_, ?_⟩
  · intro key
    rw [hNew2 key]
    rcases hbk with ⟨newB, h⟩ | ⟨h, _⟩
    · apply get_old_or_new hRec.kind hRec.bits hkO hbO hk2 hb2
      intro b
      by_cases hb : b ∈ newB
      · exact Or.inr ((h b).2 hb)
      · exact Or.inl ((h b).1 hb)
    · right
      exact get_of_bucket hRec.kind hRec.bits hk2 hb2 key (fun _ b _ _ => h b)
  · intro k hk key
    subst hk
    obtain ⟨fr', hEq⟩ := crashImage_freeStream
      ({ d2 with snap := some ⟨8 * 2 ^ m2.bits, m2.buckets.filter (·.2 ≠ 0)⟩ } : Disk)
      { d2 with snap := some ⟨8 * 2 ^ m2.bits, m2.buckets.filter (·.2 ≠ 0)⟩, free := fr } k
    obtain ⟨dr', mr', o1', r', _, _⟩ := snap_recover hc hI2 hX2 hin hpn fr'
    have e : openStoreR c (crashImage
        ({ d2 with snap := some ⟨8 * 2 ^ m2.bits, m2.buckets.filter (·.2 ≠ 0)⟩ } : Disk)
        (freeStream { d2 with snap := some ⟨8 * 2 ^ m2.bits, m2.buckets.filter (·.2 ≠ 0)⟩ }
          { d2 with snap := some ⟨8 * 2 ^ m2.bits, m2.buckets.filter (·.2 ≠ 0)⟩, free := fr }) k false) =
        (dr, .ok mr) := r1
    rw [hEq, o1'] at e
    simp only [Prod.mk.injEq, Except.ok.injEq] at e
    obtain ⟨rfl, rfl⟩ := e
    rw [hNew2 key]
    exact get_of_bucket hRec.kind hRec.bits hk2 hb2 key
      (fun _ b _ _ => reopened_buckets hU hI2 hin hpn r' b)
  · intro key dig hkd
    have hUo : Univ mOld.kind U := by rw [hkO]; exact hU
    have hUn : Univ m2.kind U := by rw [hk2]; exact hU
    constructor
    · rw [storeGet_ok hUo (by rw [hbO]; exact hc.2.1) hAold hkd]
      exact getResOf_eq _
    · rw [hNew2 key, storeGet_ok hUn (by rw [hb2]; exact hc.2.1) hIa2 hkd]
      exact getResOf_eq _
  · intro key e he
    rw [storeGet_bad (by rw [hRec.kind]; exact he)]
  · rcases hbk with ⟨newB, h⟩ | ⟨_, hInv⟩
    · have hA := ainv_mix (c := c) hRec.kind hRec.bits hkO hbO hk2 hb2 hAold hIa2 h
      refine ⟨mixSpec c.bits newB specD spec, ?_, ?_, hRec.x⟩
      · intro dig
        rw [get_mixSpec]
        split
        · right; rfl
        · left; rfl
      · refine ⟨hRec.kind, hRec.imm, by show 8 ≤ mr.bits; rw [hRec.bits]; exact hc.1,
          by show mr.bits ≤ 31; rw [hRec.bits]; exact hc.2.1, hA, hRec.p, hRec.i,
          hRec.cnt.mono (Nat.le_refl _) (by omega), nodup_mixSpec hW.1 hI.nodup, ?_⟩
        have := specW_mixSpec c.bits newB specD spec
        have := hW.2
        have := hI.w
        omega
    · exact ⟨spec, fun _ => Or.inr rfl, hInv.mono (Nat.le_refl _) (by omega), hRec.x⟩

end

end Sth
