import Sth.Lemmas.C11B5

/-!
C11 Q3c (6): the size invariant through the loop over the closed files and through the hand-over
passes.  Core Lean only.
-/

namespace Sth.C11B

open Sth.C11 Sth.C13H Sth.C13X Sth.C11D

section
variable {c : Cfg} {U : List (Bytes × Bytes)} {cfg : Cfg} {spec : Spec} {B R : Nat}

/-- the loop over the closed files, complete or cut short -/
theorem pgcGo_b (hU : Univ c.kind U) (lowUse : Nat) :
    ∀ (fuel nn pf : Nat) (m : Mem) (d : Disk) (budget : Budget) (recl k : Nat)
      (psp : Nat → List GSpan), HState c U cfg m d spec k B pf psp → BInv R m d →
      m.pmax + 4 + R ≤ two31 → pf ≤ nn → nn ≤ m.pfileNum →
      k + 2 * (m.pfileNum - nn) < 1073741824 →
      BInv R (primaryGC.go lowUse fuel nn ⟨m.pmax, pf⟩ m d budget recl).2.1
        (primaryGC.go lowUse fuel nn ⟨m.pmax, pf⟩ m d budget recl).2.2.1 := by
  intro fuel
  induction fuel with
  | zero =>
    intro nn pf m d budget recl k psp _ hI _ _ _ _
    exact hI
  | succ fuel ih =>
    intro nn pf m d budget recl k psp hS hI h31 h1 h2 hk
    by_cases he : nn = m.pfileNum
    · rw [primaryGC.go, if_pos he]; exact hI
    by_cases hv : m.visited.contains nn = true
    · rw [primaryGC.go, if_neg he, if_pos hv]
      exact ih (nn + 1) pf m d budget recl k psp hS hI h31 (by omega) (by omega) (by omega)
    have hv' : m.visited.contains nn = false := by
      cases hh : m.visited.contains nn
      · rfl
      · exact absurd hh hv
    have hvn : nn ∉ m.visited := by
      intro hc
      apply hv
      exact List.contains_iff_mem.mpr hc
    obtain ⟨k1, psp1, hS1, hk1, e1, e2, e3, hdead⟩ :=
      reapRecords_h hU hS (by omega) h1 (by omega) lowUse
    obtain ⟨hI1, hst⟩ := reap_visit hS h1 (by omega) lowUse hI h31 hvn
    cases hr : reapRecords m d nn lowUse with
    | mk r rest =>
    obtain ⟨m1, d1, got⟩ := rest
    rw [hr] at hS1 e1 e2 e3 hdead hI1 hst
    simp only at hS1 e1 e2 e3 hdead hI1 hst
    by_cases hne : r = .err
    · subst hne
      rw [primaryGC.go, if_neg he, hv']
      simp only [Bool.false_eq_true, if_false, hr]
      exact hI1
    rw [pgcGo_unfold lowUse fuel nn ⟨m.pmax, pf⟩ m d budget recl he hv' hr hne]
    -- the optional unlink of the first file
    have hdrop : ∃ pf2, HState c U cfg m1
        (if r = .dead ∧ nn = pf then
          { d1 with phdr := some ⟨m.pmax, pf + 1⟩, pfiles := d1.pfiles.del nn } else d1) spec k1 B pf2
          psp1 ∧ pf2 ≤ nn + 1 ∧
        (if r = .dead ∧ nn = pf then ({ max := m.pmax, first := pf + 1 } : PriHeader)
          else ⟨m.pmax, pf⟩) = ⟨m1.pmax, pf2⟩ := by
      by_cases hd : r = .dead ∧ nn = pf
      · rw [if_pos hd, if_pos hd]
        obtain ⟨hd1, hd2⟩ := hd
        have hlt : pf < m1.pfileNum := by rw [e1, ← hd2]; omega
        have := drop_h hS1 (by omega) hlt (by rw [← hd2]; exact hdead hd1)
        rw [e2] at this
        rw [hd2]
        exact ⟨pf + 1, this, by omega, by rw [e2]⟩
      · rw [if_neg hd, if_neg hd]
        exact ⟨pf, hS1, by omega, by rw [e2]⟩
    obtain ⟨pf2, hS2, hpf2, hhdr⟩ := hdrop
    have hnn1 : nn < m1.pfileNum := by rw [e1]; omega
    have hI3 : BInv R { m1 with visited := m1.visited ++ [nn] } (if r = .dead ∧ nn = pf then
        { d1 with phdr := some ⟨m.pmax, pf + 1⟩, pfiles := d1.pfiles.del nn } else d1) := by
      split
      · have hId := hI1.del nn (some ⟨m.pmax, pf + 1⟩)
        apply hId.visit hnn1
        intro _
        show fileOf (d1.pfiles.del nn) nn = []
        unfold fileOf; rw [NMap.get?_del_eq]; rfl
      · exact hI1.visit hnn1 hst
    have hS3 := hS2.visited (m1.visited ++ [nn])
    by_cases hp : (poll budget).1 = true
    · rw [if_pos hp]
      exact hI3
    · rw [if_neg hp]
      have hh : (if r = .dead ∧ nn = (⟨m.pmax, pf⟩ : PriHeader).first then
          ({ (⟨m.pmax, pf⟩ : PriHeader) with first := (⟨m.pmax, pf⟩ : PriHeader).first + 1 } : PriHeader)
          else ⟨m.pmax, pf⟩) = ⟨m1.pmax, pf2⟩ := hhdr
      rw [hh]
      exact ih (nn + 1) pf2 { m1 with visited := m1.visited ++ [nn] } _ (poll budget).2 (recl + got)
        k1 psp1 hS3 hI3 (by show m1.pmax + 4 + R ≤ two31; rw [e2]; exact h31) hpf2
        (by show nn + 1 ≤ m1.pfileNum; omega)
        (by show k1 + 2 * (m1.pfileNum - (nn + 1)) < 1073741824; omega)

end

end Sth.C11B
