/-
C13B (2): every section of every thread preserves the invariant (`step_inv`), hence every schedule does (`run_inv`).
-/
import Sth.Lemmas.C13B1

namespace Sth.BarrierConc

@[simp] theorem setThread_threads (s : State) (i : Nat) (t : Thread) : (setThread s i t).threads = s.threads.set i t := rfl
@[simp] theorem setThread_nextPool (s : State) (i : Nat) (t : Thread) : (setThread s i t).nextPool = s.nextPool := rfl
@[simp] theorem setThread_disk (s : State) (i : Nat) (t : Thread) : (setThread s i t).disk = s.disk := rfl
@[simp] theorem setThread_flushLock (s : State) (i : Nat) (t : Thread) : (setThread s i t).flushLock = s.flushLock := rfl
@[simp] theorem setThread_flPool (s : State) (i : Nat) (t : Thread) : (setThread s i t).flPool = s.flPool := rfl
@[simp] theorem setThread_flFile (s : State) (i : Nat) (t : Thread) : (setThread s i t).flFile = s.flFile := rfl
@[simp] theorem setThread_gc (s : State) (i : Nat) (t : Thread) : (setThread s i t).gc = s.gc := rfl
@[simp] theorem setThread_phase (s : State) (i : Nat) (t : Thread) : (setThread s i t).phase = s.phase := rfl
@[simp] theorem setThread_handedBy (s : State) (i : Nat) (t : Thread) : (setThread s i t).handedBy = s.handedBy := rfl
@[simp] theorem setThread_putDone (s : State) (i : Nat) (t : Thread) : (setThread s i t).putDone = s.putDone := rfl
@[simp] theorem setThread_freed (s : State) (i : Nat) (t : Thread) : (setThread s i t).freed = s.freed := rfl
@[simp] theorem setThread_applied (s : State) (i : Nat) (t : Thread) : (setThread s i t).applied = s.applied := rfl
@[simp] theorem setThread_missed (s : State) (i : Nat) (t : Thread) : (setThread s i t).missed = s.missed := rfl
@[simp] theorem setThread_consumed (s : State) (i : Nat) (t : Thread) : (setThread s i t).consumed = s.consumed := rfl
@[simp] theorem setThread_gcEntries (s : State) (i : Nat) (t : Thread) : gcEntries (setThread s i t) = gcEntries s := rfl

/-! ### the discipline, op by op -/

theorem orderOK_tail_same {strict : Bool} {ph : Phase} {op : Op} {r : List Op}
    (hop : op.collector = false) (hnf : op ≠ .pflush) (h : orderOK strict ph (op :: r) = true) :
    orderOK strict ph r = true := by
  obtain ⟨ph', hn, hr⟩ := orderOK_cons h
  have : ph' = ph := by
    cases op <;> simp_all [Phase.next, Op.collector]
  exact this ▸ hr

theorem next_remove {strict : Bool} {ph ph' : Phase} (h : ph.next strict .remove = some ph') :
    ph' = .noGc ∧ (strict = true → ph = .applied ∨ ph = .noGc) := by
  cases ph <;> cases strict <;> simp_all [Phase.next]

theorem filter_all {l : List Rec} {p : Rec → Bool} (h : ∀ o ∈ l, p o = true) : l.filter p = l :=
  List.filter_eq_self.2 h

theorem filter_none {l : List Rec} {p : Rec → Bool} (h : ∀ o ∈ l, p o = true) : l.filter (fun o => !p o) = [] := by
  rw [List.filter_eq_nil_iff]
  intro o ho
  simp [h o ho]

/-! ### a section that starts and ends idle and touches neither the threads nor the lock -/

theorem Inv.idleStep {strict : Bool} {c : Nat} {s : State} (h : Inv strict c s) {i : Nat} {t : Thread}
    (hi : s.threads[i]? = some t) (hidle : t.pc = .idle) {s1 : State}
    (hth : s1.threads = s.threads) (hlk : s1.flushLock = s.flushLock)
    (hordc : i = c → orderOK strict s1.phase t.prog.tail = true) (hordn : i ≠ c → s1.phase = s.phase)
    (hph : s1.phase = .noGc ↔ s1.gc = none) (hhand : s1.phase = .fresh → s1.handedBy = c)
    (hfl : ∀ o, o ∈ s1.flPool ∨ o ∈ s1.flFile ∨ o ∈ gcEntries s1 → o ∈ s1.putDone)
    (hput : ∀ r ∈ s1.putDone, r ∈ s1.nextPool ∨ r ∈ s1.disk ∨ InFlight s r)
    (hcov : s1.phase = .barriered ∨ s1.phase = .applied → ∀ o ∈ gcEntries s1, o ∈ s1.disk)
    (hmid : s1.phase = .fresh → i ≠ c → s.phase = .fresh ∧ gcEntries s1 = gcEntries s ∧ s1.disk = s.disk)
    (hmiss : s1.missed = []) (hacct : s1.consumed ++ gcEntries s1 ++ s1.flFile ++ s1.flPool = s1.freed)
    (happl : strict = true → s1.applied = s1.consumed ++ (if s1.phase = .applied then gcEntries s1 else [])) :
    Inv strict c (setThread s1 i t.ret) := by
  have hth' : (setThread s1 i t.ret).threads = s.threads.set i t.ret := by simp [hth]
  refine ⟨?_, ⟨?_, ?_, ?_, ?_, ?_, ?_, ?_, ?_, ?_, ?_⟩⟩
  · refine h.t.set hi hth' (.inl ⟨by simpa using hlk, by simp [hidle, Thread.ret]⟩) ?_ ?_
    · intro hic op hop; exact h.t.writers i t hi hic op (List.mem_of_mem_tail hop)
    · intro hp; simp [Thread.ret] at hp
  · exact order_of h.d.order hth' hordc (by simpa using hordn)
  · simpa using hph
  · simpa using hhand
  · simpa using hfl
  · intro r hr
    rcases hput r (by simpa using hr) with h1 | h1 | h1
    · exact .inl (by simpa using h1)
    · exact .inr (.inl (by simpa using h1))
    · exact .inr (.inr (inFlight_mono hi hth' (by simp [hidle, Pc.cur]) h1))
  · simpa using hcov
  · intro hf u hu hp o ho
    obtain ⟨hu', hci⟩ := mid_of_idle hth' (by simp [Thread.ret]) hu hp
    obtain ⟨h1, h2, h3⟩ := hmid (by simpa using hf) (fun h => hci h.symm)
    have := h.d.coverMid h1 u hu' hp o (by simpa [h2] using ho)
    simpa [h3] using this
  · simpa using hmiss
  · simpa using hacct
  · exact happl

/-- the collector's own flush returns: the phase moves as the discipline says; another thread's flush: no change -/
theorem barrierDone_order {strict : Bool} {c : Nat} {s : State} (h : Inv strict c s) {i : Nat} {t : Thread}
    (hi : s.threads[i]? = some t) {r : List Op} (hp : t.prog = .pflush :: r) (s0 : State)
    (hph : s0.phase = s.phase) (hhb : s0.handedBy = s.handedBy) :
    (i = c → orderOK strict (barrierDone s0 i).phase t.prog.tail = true) ∧
    (i ≠ c → (barrierDone s0 i).phase = s.phase) := by
  constructor
  · intro hic
    subst hic
    have ho := h.d.order t hi
    rw [hp] at ho
    obtain ⟨ph', hn, hr⟩ := orderOK_cons ho
    simp only [Phase.next, Option.some.injEq] at hn
    simp only [barrierDone, hph, hhb, hp, List.tail_cons]
    by_cases hf : s.phase = .fresh
    · have := h.d.handed hf
      simp_all
    · simp_all
  · intro hic
    simp only [barrierDone, hph, hhb]
    by_cases hf : s.phase = .fresh
    · have := h.d.handed hf
      simp [this, Ne.symm hic]
    · simp [hf]

theorem barrierDone_phase_cases (s0 : State) (i : Nat) :
    ((barrierDone s0 i).phase = s0.phase) ∨
    (s0.phase = .fresh ∧ s0.handedBy = i ∧ (barrierDone s0 i).phase = .barriered) := by
  simp only [barrierDone]
  by_cases h : s0.phase = .fresh ∧ s0.handedBy = i
  · exact .inr ⟨h.1, h.2, by simp [h]⟩
  · exact .inl (by simp [h])

/-! ### MultihashPrimary.Flush, section F1 -/

theorem flushEnter_inv {strict : Bool} {c : Nat} {s s' : State} {i : Nat} {t : Thread} (h : Inv strict c s)
    (hi : s.threads[i]? = some t) (hidle : t.pc = .idle) {r : List Op} (hp : t.prog = .pflush :: r)
    (hs : flushEnter s i t = some s') : Inv strict c s' := by
  unfold flushEnter at hs
  split at hs
  · cases hs
  rename_i hlk
  have hlk : s.flushLock = none := by simpa using hlk
  have hnofl := h.t.unlocked_not_inFlight hlk
  split at hs
  · -- nothing to write: the barrier stands at once
    rename_i hempty
    cases hs
    obtain ⟨ho1, ho2⟩ := barrierDone_order h hi hp s rfl rfl
    have hin : ∀ o ∈ gcEntries s, o ∈ s.disk := by
      intro o ho
      rcases h.d.putIn o (h.d.flIn o (.inr (.inr ho))) with h1 | h1 | h1
      · rw [hempty] at h1; cases h1
      · exact h1
      · exact absurd h1 (hnofl o)
    rcases barrierDone_phase_cases s i with hph | ⟨hf, hhb, hph⟩
    · refine h.idleStep hi hidle rfl rfl ho1 ho2 ?_ ?_ h.d.flIn ?_ ?_ ?_ h.d.nomiss h.d.acct ?_
      · rw [hph]; exact h.d.phaseGc
      · rw [hph]; exact h.d.handed
      · intro r hr; exact h.d.putIn r hr
      · rw [hph]; exact h.d.cover
      · intro hf _; rw [hph] at hf; exact ⟨hf, rfl, rfl⟩
      · rw [hph]; exact h.d.appl
    · refine h.idleStep hi hidle rfl rfl ho1 ho2 ?_ ?_ h.d.flIn ?_ ?_ ?_ h.d.nomiss h.d.acct ?_
      · rw [hph]
        have := h.d.phaseGc
        simp only [barrierDone]
        rw [hf] at this
        simpa using this
      · rw [hph]; intro h; cases h
      · intro r hr; exact h.d.putIn r hr
      · intro _; exact hin
      · intro h; rw [hph] at h; cases h
      · intro hst
        have := h.d.appl hst
        rw [hph]; simp only [barrierDone]
        rw [hf] at this
        simpa using this
  · -- take the pool
    rename_i hne
    cases hs
    have hth : (setThread { s with nextPool := [], flushLock := some i } i { t with pc := .flushing s.nextPool }).threads
        = s.threads.set i { t with pc := .flushing s.nextPool } := rfl
    refine ⟨?_, ⟨?_, h.d.phaseGc, h.d.handed, h.d.flIn, ?_, h.d.cover, ?_, h.d.nomiss, h.d.acct, h.d.appl⟩⟩
    · refine h.t.set hi hth (.inr (.inl ⟨hlk, rfl, rfl⟩)) (fun hic op hop => h.t.writers i t hi hic op hop) ?_
      intro _; exact ⟨r, hp⟩
    · refine order_of h.d.order hth ?_ (fun _ => rfl)
      intro hic; subst hic; exact h.d.order t hi
    · intro r hr
      rcases h.d.putIn r hr with h1 | h1 | h1
      · exact .inr (.inr ⟨i, _, get_set_self hi _, h1⟩)
      · exact .inr (.inl h1)
      · exact absurd h1 (hnofl r)
    · intro hf u hu hpu o ho
      rcases get_set _ hu with ⟨hci, rfl⟩ | ⟨hci, hu'⟩
      · rcases h.d.putIn o (h.d.flIn o (.inr (.inr ho))) with h1 | h1 | h1
        · exact .inr h1
        · exact .inl h1
        · exact absurd h1 (hnofl o)
      · have := (h.t.lock c u hu').1 (by cases hu : u.pc <;> simp_all [Pc.holds])
        rw [hlk] at this; cases this

/-! ### every section -/

theorem contains_mem {l : List Rec} {o : Rec} : l.contains o = true ↔ o ∈ l := by simp

theorem step_inv {strict : Bool} {c : Nat} {s s' : State} {i : Nat} (h : Inv strict c s) (hs : step s i = some s') :
    Inv strict c s' := by
  unfold step at hs
  split at hs
  · cases hs
  rename_i t hi
  have hw := h.t.writers i t hi
  have hcoll : ∀ op r, t.prog = op :: r → op.collector = true → i = c := by
    intro op r hp hop
    by_cases hic : i = c
    · exact hic
    · have := hw hic op (by simp [hp]); simp [this] at hop
  split at hs
  · rename_i hidle
    split at hs
    · cases hs
    · -- pput
      rename_i r rest hp
      cases hs
      refine h.idleStep hi hidle rfl rfl ?_ (fun _ => rfl) h.d.phaseGc h.d.handed ?_ ?_ h.d.cover
        (fun hf _ => ⟨hf, rfl, rfl⟩) h.d.nomiss h.d.acct h.d.appl
      · intro hic; subst hic
        have := h.d.order t hi
        rw [hp] at this ⊢
        exact orderOK_tail_same rfl (by simp) this
      · intro o ho
        have := h.d.flIn o ho
        simp [this]
      · intro r' hr'
        simp only [List.mem_append, List.mem_singleton] at hr'
        rcases hr' with hr' | rfl
        · rcases h.d.putIn r' hr' with h1 | h1 | h1
          · exact .inl (by simp [h1])
          · exact .inr (.inl h1)
          · exact .inr (.inr h1)
        · exact .inl (by simp)
    · -- free
      rename_i o rest hp
      split at hs
      · rename_i hdone
        have hdone : o ∈ s.putDone := contains_mem.1 hdone
        cases hs
        refine h.idleStep hi hidle rfl rfl ?_ (fun _ => rfl) h.d.phaseGc h.d.handed ?_ h.d.putIn h.d.cover
          (fun hf _ => ⟨hf, rfl, rfl⟩) h.d.nomiss ?_ h.d.appl
        · intro hic; subst hic
          have := h.d.order t hi
          rw [hp] at this ⊢
          exact orderOK_tail_same rfl (by simp) this
        · intro o' ho'
          simp only [List.mem_append, List.mem_singleton] at ho'
          rcases ho' with (ho' | rfl) | ho' | ho'
          · exact h.d.flIn o' (.inl ho')
          · exact hdone
          · exact h.d.flIn o' (.inr (.inl ho'))
          · exact h.d.flIn o' (.inr (.inr ho'))
        · have := h.d.acct
          simp only [gcEntries] at this ⊢
          rw [← this]; simp
      · cases hs
    · -- pflush
      rename_i rest hp
      exact flushEnter_inv h hi hidle hp hs
    · -- fflush
      rename_i rest hp
      cases hs
      refine h.idleStep hi hidle rfl rfl ?_ (fun _ => rfl) h.d.phaseGc h.d.handed ?_ h.d.putIn h.d.cover
        (fun hf _ => ⟨hf, rfl, rfl⟩) h.d.nomiss ?_ h.d.appl
      · intro hic; subst hic
        have := h.d.order t hi
        rw [hp] at this ⊢
        exact orderOK_tail_same rfl (by simp) this
      · intro o' ho'
        simp only [List.mem_append, List.not_mem_nil, false_or] at ho'
        rcases ho' with (ho' | ho') | ho'
        · exact h.d.flIn o' (.inr (.inl ho'))
        · exact h.d.flIn o' (.inl ho')
        · exact h.d.flIn o' (.inr (.inr ho'))
      · have := h.d.acct
        simp only [gcEntries] at this ⊢
        rw [← this]; simp
    · -- togc
      rename_i rest hp
      cases hs
      have hic : i = c := hcoll _ _ hp rfl
      subst hic
      have hord := h.d.order t hi
      rw [hp] at hord
      obtain ⟨ph', hn, hr⟩ := orderOK_cons hord
      simp only [Phase.next, Option.some.injEq] at hn
      unfold toGc
      split
      · rename_i hsome
        have hne : s.phase ≠ .noGc := by
          intro h0; have := h.d.phaseGc.1 h0; simp [this] at hsome
        refine h.idleStep hi hidle rfl rfl ?_ (fun _ => rfl) h.d.phaseGc h.d.handed h.d.flIn h.d.putIn h.d.cover
          (fun hf _ => ⟨hf, rfl, rfl⟩) h.d.nomiss h.d.acct h.d.appl
        intro _; rw [hp]; simp only [hne, if_false] at hn; exact hn ▸ hr
      · rename_i hnone
        have hgc : s.gc = none := by simpa using hnone
        have h0 : s.phase = .noGc := h.d.phaseGc.2 hgc
        refine h.idleStep hi hidle rfl rfl ?_ (fun hne => absurd rfl hne) ?_ ?_ ?_ h.d.putIn ?_ ?_ h.d.nomiss ?_ ?_
        · intro _; rw [hp]; simp only [h0, if_true] at hn; exact hn ▸ hr
        · simp
        · intro _; rfl
        · intro o ho
          simp only [gcEntries, List.not_mem_nil, false_or, Option.getD_some, List.mem_append] at ho
          rcases ho with ho | ho
          · exact h.d.flIn o (.inr (.inl ho))
          · exact h.d.flIn o (.inl ho)
        · intro hph; simp at hph
        · intro _ hne; exact absurd rfl hne
        · have := h.d.acct
          simp only [gcEntries, hgc, Option.getD_none, List.append_nil] at this
          simp only [gcEntries, Option.getD_some, List.append_nil]
          rw [← this]; simp
        · intro hst
          have := h.d.appl hst
          simpa [h0] using this
    · -- apply
      rename_i rest hp
      cases hs
      have hic : i = c := hcoll _ _ hp rfl
      subst hic
      have hord := h.d.order t hi
      rw [hp] at hord
      obtain ⟨ph', hn, hr⟩ := orderOK_cons hord
      unfold applyGc
      split
      · rename_i happ
        refine h.idleStep hi hidle rfl rfl ?_ (fun _ => rfl) h.d.phaseGc h.d.handed h.d.flIn h.d.putIn h.d.cover
          (fun hf _ => ⟨hf, rfl, rfl⟩) h.d.nomiss h.d.acct h.d.appl
        intro _; rw [hp]; simp only [Phase.next, happ, Option.some.injEq] at hn; rw [happ]; exact hn ▸ hr
      · rename_i hnapp
        cases hph : s.phase with
        | applied => exact absurd hph hnapp
        | fresh => simp [Phase.next, hph] at hn
        | noGc =>
          have hgc : s.gc = none := h.d.phaseGc.1 hph
          have hge : gcEntries s = [] := by simp [gcEntries, hgc]
          simp only [Phase.next, hph, Option.some.injEq] at hn
          subst hn
          refine h.idleStep hi hidle rfl rfl ?_ (fun hne => absurd rfl hne) ?_ ?_ h.d.flIn h.d.putIn ?_ ?_ ?_
            h.d.acct ?_
          · intro _; rw [hp]; simpa using hr
          · simp [hgc]
          · simp
          · simp
          · simp
          · simp [hge, h.d.nomiss]
          · intro hst
            have := h.d.appl hst
            simpa [hph, hge] using this
        | barriered =>
          have hcov := h.d.cover (.inl hph)
          have hc1 : ∀ o ∈ gcEntries s, s.disk.contains o = true := fun o ho => contains_mem.2 (hcov o ho)
          simp only [Phase.next, hph, Option.some.injEq] at hn
          subst hn
          have hne : s.gc ≠ none := fun hg => by have := h.d.phaseGc.2 hg; rw [hph] at this; cases this
          refine h.idleStep hi hidle rfl rfl ?_ (fun hne => absurd rfl hne) ?_ ?_ h.d.flIn h.d.putIn ?_ ?_ ?_
            h.d.acct ?_
          · intro _; rw [hp]; simpa using hr
          · simp [hne]
          · simp
          · intro _; exact hcov
          · simp
          · simp only [filter_none hc1, List.append_nil]; exact h.d.nomiss
          · intro hst
            have := h.d.appl hst
            simp only [hph] at this
            simp only [filter_all hc1]
            simpa [gcEntries] using this
    · -- remove
      rename_i rest hp
      cases hs
      have hic : i = c := hcoll _ _ hp rfl
      subst hic
      have hord := h.d.order t hi
      rw [hp] at hord
      obtain ⟨ph', hn, hr⟩ := orderOK_cons hord
      obtain ⟨rfl, hstr⟩ := next_remove hn
      refine h.idleStep hi hidle rfl rfl ?_ (fun hne => absurd rfl hne) ?_ ?_ ?_ h.d.putIn ?_ ?_ h.d.nomiss ?_ ?_
      · intro _; rw [hp]; exact hr
      · simp [removeGc]
      · simp [removeGc]
      · intro o ho
        simp only [removeGc, gcEntries, Option.getD_none, List.not_mem_nil, or_false] at ho
        rcases ho with ho | ho
        · exact h.d.flIn o (.inl ho)
        · exact h.d.flIn o (.inr (.inl ho))
      · simp [removeGc]
      · simp [removeGc]
      · have := h.d.acct
        simp only [removeGc, gcEntries, Option.getD_none] at this ⊢
        simpa using this
      · intro hst
        have := h.d.appl hst
        simp only [removeGc, gcEntries, Option.getD_none] at this ⊢
        rcases hstr hst with h1 | h1
        · simpa [h1] using this
        · have hgc := h.d.phaseGc.1 h1
          simpa [h1, hgc] using this
  · -- F2: the write
    rename_i cur hpc
    cases hs
    have hnid : t.pc ≠ .idle := by simp [hpc]
    obtain ⟨r, hp⟩ := h.t.mid i t hi hnid
    have hlk : s.flushLock = some i := (h.t.lock i t hi).1 (by simp [hpc, Pc.holds])
    let s0 : State := { s with disk := s.disk ++ cur, flushLock := none }
    have hth : (setThread (barrierDone s0 i) i t.ret).threads = s.threads.set i t.ret := rfl
    obtain ⟨ho1, ho2⟩ := barrierDone_order h hi hp s0 rfl rfl
    have hcase := barrierDone_phase_cases s0 i
    have hph0 : s0.phase = s.phase := rfl
    refine ⟨?_, ⟨?_, ?_, ?_, ?_, ?_, ?_, ?_, h.d.nomiss, h.d.acct, ?_⟩⟩
    · refine h.t.set hi hth (.inr (.inr ⟨hlk, rfl, rfl⟩))
        (fun hic op hop => h.t.writers i t hi hic op (List.mem_of_mem_tail hop)) ?_
      intro hpp; simp [Thread.ret] at hpp
    · exact order_of h.d.order hth ho1 ho2
    · show (barrierDone s0 i).phase = .noGc ↔ s.gc = none
      rcases hcase with h1 | ⟨hf, _, h1⟩
      · rw [h1]; exact h.d.phaseGc
      · rw [h1]
        have := h.d.phaseGc
        rw [hph0] at hf; rw [hf] at this
        simpa using this
    · show (barrierDone s0 i).phase = .fresh → s.handedBy = c
      rcases hcase with h1 | ⟨_, _, h1⟩
      · rw [h1]; exact h.d.handed
      · rw [h1]; intro h; cases h
    · exact h.d.flIn
    · intro r' hr'
      rcases h.d.putIn r' hr' with h1 | h1 | ⟨j, u, hj, hr⟩
      · exact .inl h1
      · exact .inr (.inl (List.mem_append_left _ h1))
      · by_cases hji : j = i
        · subst hji
          rw [hi] at hj; cases hj
          rw [hpc] at hr
          exact .inr (.inl (List.mem_append_right _ hr))
        · exact .inr (.inr ⟨j, u, by rw [hth, get_set_other _ hji]; exact hj, hr⟩)
    · show (barrierDone s0 i).phase = .barriered ∨ (barrierDone s0 i).phase = .applied →
        ∀ o ∈ gcEntries s, o ∈ s.disk ++ cur
      rcases hcase with h1 | ⟨hf, hhb, h1⟩
      · rw [h1]; intro hb o ho; exact List.mem_append_left _ (h.d.cover hb o ho)
      · intro _ o ho
        have hic : i = c := by
          have := h.d.handed hf
          exact hhb.symm.trans this
        subst hic
        rcases h.d.coverMid hf t hi hnid o ho with h2 | h2
        · exact List.mem_append_left _ h2
        · rw [hpc] at h2; exact List.mem_append_right _ h2
    · show (barrierDone s0 i).phase = .fresh → _
      intro hf u hu hpu o ho
      obtain ⟨hu', hci⟩ := mid_of_idle hth (by simp [Thread.ret]) hu hpu
      have hf' : s.phase = .fresh := by
        rcases hcase with h1 | ⟨_, _, h1⟩
        · rw [h1] at hf; exact hf
        · rw [h1] at hf; cases hf
      rcases h.d.coverMid hf' u hu' hpu o ho with h2 | h2
      · exact .inl (List.mem_append_left _ h2)
      · exact .inr h2
    · show strict = true → s.applied = s.consumed ++ (if (barrierDone s0 i).phase = .applied then gcEntries s else [])
      intro hst
      have := h.d.appl hst
      rcases hcase with h1 | ⟨hf, _, h1⟩
      · rw [h1]; exact this
      · rw [h1]; rw [hph0] at hf; rw [hf] at this; simpa using this

theorem run_inv {strict : Bool} {c : Nat} {s : State} (h : Inv strict c s) (sched : List Nat) :
    Inv strict c (run s sched) := by
  induction sched generalizing s with
  | nil => exact h
  | cons i r ih =>
    simp only [run, List.foldl_cons]
    cases hs : step s i with
    | none => exact ih h
    | some s' => exact ih (step_inv h hs)

end Sth.BarrierConc
