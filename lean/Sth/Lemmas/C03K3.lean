/-
C03 over histories with GC cycles — assembly: Get on the store recovered from a crash image of a flush,
and the invariants of the recovered state.
Core Lean only.
-/
import Sth.Lemmas.C03Inv4

namespace Sth

theorem recovered_g {c : Cfg} {d dr : Disk} {mr : Mem} (hD : DiskG d) (st : List Growth) (k : Nat)
    (early : Bool) (h : openStoreR c (crashImage d st k early) = (dr, .ok mr)) : DiskG dr := by
  obtain ⟨e1, _, e3⟩ := crashImage_keeps st d k early
  obtain ⟨s1, s2⟩ := e3 hD.sp hD.si
  exact openStore_gkeeps (d := openFreelist (crashImage d st k early)) h (by
    show (crashImage d st k early).ihdr ≠ none
    rw [e1]; exact hD.ihdr) s1 s2

theorem old_kind_bits4 {c : Cfg} (hc : c.Legal) {m : Mem} {d dOld : Disk} {mOld : Mem}
    (hS : DiskShape c m d) (hold : openStoreR c d = (dOld, .ok mOld)) :
    mOld.kind = c.kind ∧ mOld.bits = c.bits := by
  obtain ⟨cf, pfn, plen, files, bk, fr, eqO, _⟩ := recover_form4 hc hS
  rw [eqO] at hold
  simp only [Prod.mk.injEq, Except.ok.injEq] at hold
  obtain ⟨_, rfl⟩ := hold
  exact ⟨rfl, rfl⟩

section
variable {c : Cfg} {U : List (Bytes × Bytes)} {s : SState} {spec specD : Spec} {n B : Nat}

theorem FlushPack.shape {first pf : Nat} {m1 m2 : Mem} {d1 d2 : Disk}
    (hF : FlushPack c U s spec n B first pf m1 d1 m2 d2) : DiskShape c s.m s.d := by
  obtain ⟨sp, hl⟩ := hF.ilog
  refine ⟨hF.sbits, hF.simax, hF.snap, ⟨first, sp, hF.ihdr, ?_⟩, hF.ino, ?_, ?_⟩
  · show IdxLogT s.m.bits s.m.imax s.m.ifileNum s.d.ifiles (tbl s.m) first sp
    rw [hF.sbits, hF.simax]; exact hl
  · intro hk
    obtain ⟨P', segP, _⟩ := hF.smh hk
    exact ⟨pf, hF.phdr hk, segP.lo, segP.all⟩
  · intro hk
    obtain ⟨P', segP, _⟩ := hF.smh hk
    exact segP.above _ (Nat.lt_succ_self _)

/-- every crash image of the flush recovers; Get old-or-new; the recovered state satisfies the
    invariants for a per-digest old/new map -/
theorem crash_recovers4 (hc : c.Legal) (hU : Univ c.kind U) {first pf : Nat} {m1 m2 : Mem}
    {d1 d2 : Disk} {ord : List Nat} (hF : FlushPack c U s spec n B first pf m1 d1 m2 d2)
    (p1 : priFlush s.m s.d = some (m1, d1)) (i1 : idxFlush m1 d1 ord = (m2, d2))
    (hfree : d2.free = s.d.free) (hD : DiskG s.d) (hDur : Durable c U s.d specD) (hW : DurW specD B)
    (hnd : (spec.map (·.1)).Nodup) (hw : specW spec ≤ B) (k : Nat) (early : Bool) :
    ∃ m' d', storeFlush s.m s.d ord = some (m', d') ∧
      ∃ dOld mOld, openStoreR c s.d = (dOld, .ok mOld) ∧
      ∃ dr mr, openStoreR c (crashImage s.d (appendStream s.d d') k early) = (dr, .ok mr) ∧
        (∀ key, (storeGet mr dr key).2 = (storeGet mOld dOld key).2 ∨
          (storeGet mr dr key).2 = (storeGet m' d' key).2) ∧
        (∀ key dig, (key, dig) ∈ U →
          (storeGet mOld dOld key).2 = getResOf (Spec.get specD dig) ∧
          (storeGet m' d' key).2 = getResOf (Spec.get spec dig)) ∧
        (∀ key e, keyClass c.kind key = .error e → (storeGet mr dr key).2 = .err e) ∧
        ∃ specR, (∀ dig, Spec.get specR dig = Spec.get specD dig ∨
            Spec.get specR dig = Spec.get spec dig) ∧
          Inv c U ⟨c, mr, dr⟩ specR n (B + B) ∧ YInv c ⟨c, mr, dr⟩ ∧ DiskG dr := by
  obtain ⟨dOld, mOld, hold, hAold⟩ := hDur
  obtain ⟨hkO, hbO⟩ := old_kind_bits4 hc hF.shape hold
  have hk2 : m2.kind = c.kind := hF.kind2
  have hb2 : m2.bits = c.bits := hF.bits2
  -- the flush and the image
  have hcore : ∃ m' d', storeFlush s.m s.d ord = some (m', d') ∧
      (∀ key, (storeGet m' d' key).2 = (storeGet m2 d2 key).2) ∧
      ∃ dr mr, ∃ newB : List Nat,
        openStoreR c (crashImage s.d (appendStream s.d d') k early) = (dr, .ok mr) ∧
        RecInv4 c mr dr n B ∧
        ∀ b, (b ∉ newB → BucketSame c.kind mr dr mOld dOld b) ∧
          (b ∈ newB → BucketSame c.kind mr dr m2 d2 b) := by
    by_cases ho : outstanding s.m = true
    · obtain ⟨fl, fr, f1, f2⟩ := storeFlush_out p1 i1 ho
      rw [hfree] at f1
      obtain ⟨dr, mr, newB, r1, r2, r4⟩ := crash_core4 hc hU hF hold hAold fr f1 k early
      exact ⟨_, _, f2, storeGet_congr_full rfl rfl (fun _ => rfl) (fun _ => rfl), dr, mr, newB, r1, r2, r4⟩
    · obtain ⟨f1, _, _, f4, f5⟩ := storeFlush_idle (d := s.d) (order := ord) ho
      rw [f4] at p1
      simp only [Option.some.injEq, Prod.mk.injEq] at p1
      obtain ⟨rfl, rfl⟩ := p1
      rw [f5] at i1
      simp only [Prod.mk.injEq] at i1
      obtain ⟨rfl, rfl⟩ := i1
      obtain ⟨dr, mr, newB, r1, r2, r4⟩ :=
        crash_core4 hc hU hF hold hAold s.d.free (Or.inl rfl) k early
      exact ⟨_, _, f1, fun _ => rfl, dr, mr, newB, r1, r2, r4⟩
  obtain ⟨m', d', f1, hsame, dr, mr, newB, r1, hRec, r4⟩ := hcore
  have hIa2 : SInv U m2 d2 spec := hF.a2
  refine ⟨m', d', f1, dOld, mOld, hold, dr, mr, r1, ?_, ?_, ?_, ?_⟩
  · intro key
    rw [hsame key]
    apply get_old_or_new hRec.kind hRec.bits hkO hbO hk2 hb2
    intro b
    by_cases hb : b ∈ newB
    · exact Or.inr ((r4 b).2 hb)
    · exact Or.inl ((r4 b).1 hb)
  · intro key dig hkd
    have hUo : Univ mOld.kind U := by rw [hkO]; exact hU
    have hUn : Univ m2.kind U := by rw [hk2]; exact hU
    constructor
    · rw [storeGet_ok hUo (by rw [hbO]; exact hc.2.1) hAold hkd]
      exact getResOf_eq _
    · rw [hsame key, storeGet_ok hUn (by rw [hb2]; exact hc.2.1) hIa2 hkd]
      exact getResOf_eq _
  · intro key e he
    rw [storeGet_bad (by rw [hRec.kind]; exact he)]
  · have hA := ainv_mix (c := c) hRec.kind hRec.bits hkO hbO hk2 hb2 hAold hIa2 r4
    refine ⟨mixSpec c.bits newB specD spec, ?_, ?_, hRec.y, recovered_g hD _ k early r1⟩
    · intro dig
      rw [get_mixSpec]
      split
      · right; rfl
      · left; rfl
    · refine ⟨hRec.kind, hRec.imm, by show 8 ≤ mr.bits; rw [hRec.bits]; exact hc.1,
        by show mr.bits ≤ 31; rw [hRec.bits]; exact hc.2.1, hA, hRec.p, hRec.i,
        hRec.cnt.mono (Nat.le_refl _) (by omega), nodup_mixSpec hW.1 hnd, ?_⟩
      have := specW_mixSpec c.bits newB specD spec
      have := hW.2
      omega

end

/-- the crash theorem in the state after ANY history with GC cycles -/
theorem crash_after_gc (c : Cfg) (hc : c.Legal) (U : List (Bytes × Bytes)) (hU : Univ c.kind U)
    (ops : List SOp)
    (hk : ∀ op ∈ ops, ∀ k, op.keyOf = some k → ∀ dig, keyClass c.kind k = .ok dig → (k, dig) ∈ U)
    (hs : SizesOK ops) (s0 : SState) (hi : initS c = some s0)
    (hb : c.kind = .mh → GcCountersOK s0 ops ∧ gcCnt (runS s0 ops).1 < 268435456)
    (hp : c.kind = .mh → PgcFromClean s0 ops) (ord : List Nat) (k : Nat) (early : Bool) :
    ∃ n, (c.kind = .mh → n < 268435456) ∧ (c.kind = .cid → n = ops.length) ∧
    ∃ m' d', storeFlush (runS s0 ops).1.m (runS s0 ops).1.d
        (fixOrder ord (runS s0 ops).1.m.inext.keys) = some (m', d') ∧
      ∃ dOld mOld, openStoreR c (runS s0 ops).1.d = (dOld, .ok mOld) ∧
      ∃ dr mr, openStoreR c (crashImage (runS s0 ops).1.d (appendStream (runS s0 ops).1.d d') k early)
          = (dr, .ok mr) ∧
        (∀ key, (storeGet mr dr key).2 = (storeGet mOld dOld key).2 ∨
          (storeGet mr dr key).2 = (storeGet m' d' key).2) ∧
        (∀ key dig, (key, dig) ∈ U →
          (storeGet mOld dOld key).2 = getResOf (Spec.get (lastDurable4 c.kind c.imm [] [] ops) dig) ∧
          (storeGet m' d' key).2 = getResOf (Spec.get (specRun c.kind c.imm [] ops).1 dig)) ∧
        (∀ key e, keyClass c.kind key = .error e → (storeGet mr dr key).2 = .err e) ∧
        ∃ specR, (∀ dig, Spec.get specR dig = Spec.get (lastDurable4 c.kind c.imm [] [] ops) dig ∨
            Spec.get specR dig = Spec.get (specRun c.kind c.imm [] ops).1 dig) ∧
          Inv c U ⟨c, mr, dr⟩ specR n
            ((0 + (ops.map SOp.bytes).sum) + (0 + (ops.map SOp.bytes).sum)) ∧
          YInv c ⟨c, mr, dr⟩ ∧ DiskG dr := by
  have hB : 0 + (ops.map SOp.bytes).sum < two31 := by have := hs.2.1; omega
  have hW0 : DurW ([] : Spec) 0 := ⟨by simp, by simp [specW]⟩
  rcases (by cases c.kind <;> simp : c.kind = .mh ∨ c.kind = .cid) with hmh | hcid
  · obtain ⟨hb1, hb2⟩ := hb hmh
    obtain ⟨n', hG', hD, hDur, hW⟩ := run_g4 hc hU ops s0 [] [] 0 0 (ginv_init hc hmh hi)
      (diskG_init c hc s0 hi) (durable_init c hc U s0 hi) hW0 hk hb1 (hp hmh) hB
    have hG := hG'.tight
    obtain ⟨first, pf, m1, d1, m2, d2, p1, i1, hF, _, _, hfree⟩ :=
      flushPack_of_ginv hU hG hD (by omega) hB ord
    refine ⟨gcCnt (runS s0 ops).1, fun _ => hb2, (fun h => by rw [hmh] at h; cases h), ?_⟩
    exact crash_recovers4 hc hU hF p1 i1 hfree hD hDur hW hG.nodup hG.w k early
  · obtain ⟨hI, hY, hD, hDur, hW⟩ := run_cid4 hc hcid hU ops s0 [] [] 0 0 (inv_init c hc _ s0 hi)
      (yinv_init c hc s0 hi) (diskG_init c hc s0 hi) (durable_init c hc U s0 hi) hW0 hk
      (by have := hs.1; omega) hB
    obtain ⟨first, m1, d1, m2, d2, p1, i1, hF, _, _, _, hfree⟩ :=
      flushPack_of_inv hcid hU hI hY hD (by have := hs.1; omega) hB ord
    refine ⟨0 + ops.length, (fun h => by rw [hcid] at h; cases h), (fun _ => by omega), ?_⟩
    exact crash_recovers4 hc hU hF p1 i1 hfree hD hDur hW hI.nodup hI.w k early

/-! ### `lastDurable4` is the map after the longest prefix ending in a durable call -/

theorem lastDurable4_none (kind : PKind) (imm : Bool) : ∀ (ops : List SOp) (cur dur : Spec),
    (∀ op ∈ ops, op.isDurable4 kind = false) → lastDurable4 kind imm cur dur ops = dur
  | [], _, _, _ => rfl
  | op :: ops, cur, dur, h => by
    simp only [lastDurable4, h op (by simp), Bool.false_eq_true, if_false]
    exact lastDurable4_none kind imm ops _ dur (fun o ho => h o (by simp [ho]))

theorem lastDurable4_some (kind : PKind) (imm : Bool) : ∀ (ops : List SOp) (cur dur : Spec),
    (∃ op ∈ ops, op.isDurable4 kind = true) →
    ∃ pre op post, ops = pre ++ op :: post ∧ op.isDurable4 kind = true ∧
      (∀ o ∈ post, o.isDurable4 kind = false) ∧
      lastDurable4 kind imm cur dur ops = (specRun kind imm cur (pre ++ [op])).1
  | [], _, _, h => by obtain ⟨_, h, _⟩ := h; cases h
  | op :: ops, cur, dur, _ => by
    by_cases hrest : ∃ o ∈ ops, o.isDurable4 kind = true
    · obtain ⟨pre, o, post, e1, e2, e3, e4⟩ := lastDurable4_some kind imm ops
        (specStep kind imm cur op).1
        (if op.isDurable4 kind then (specStep kind imm cur op).1 else dur) hrest
      refine ⟨op :: pre, o, post, by rw [e1]; rfl, e2, e3, ?_⟩
      simp only [lastDurable4]
      rw [e4, List.cons_append, specRun_cons_fst]
    · have hno : ∀ o ∈ ops, o.isDurable4 kind = false := by
        intro o ho
        cases hd : o.isDurable4 kind with
        | false => rfl
        | true => exact absurd ⟨o, ho, hd⟩ hrest
      rename_i h
      obtain ⟨o, ho, hd⟩ := h
      have hop : op.isDurable4 kind = true := by
        simp only [List.mem_cons] at ho
        rcases ho with rfl | ho
        · exact hd
        · rw [hno o ho] at hd; cases hd
      refine ⟨[], op, ops, rfl, hop, hno, ?_⟩
      simp only [lastDurable4, hop, if_true]
      rw [lastDurable4_none kind imm ops _ _ hno]
      rfl

/-- without primary GC cycles on a multihash store, the durable points are those of C03 -/
theorem lastDurable4_eq (kind : PKind) (imm : Bool) : ∀ (ops : List SOp) (cur dur : Spec),
    (∀ op ∈ ops, op.isDurable4 kind = op.isDurable) →
    lastDurable4 kind imm cur dur ops = lastDurable kind imm cur dur ops
  | [], _, _, _ => rfl
  | op :: ops, cur, dur, h => by
    simp only [lastDurable4, lastDurable, h op (by simp)]
    exact lastDurable4_eq kind imm ops _ _ (fun o ho => h o (by simp [ho]))

theorem isDurable4_of_c04a {kind : PKind} {op : SOp} (h : op.isC04a = true) :
    op.isDurable4 kind = op.isDurable := by
  cases op <;> first | rfl | cases h

theorem isDurable4_cid (op : SOp) : op.isDurable4 .cid = op.isDurable := by
  cases op <;> rfl

end Sth
