/-
C02 — the extended invariant (configuration, headers, primary files, index log) and the lemma shared
by Store.Flush and Store.Close: flushing the primary and then the index keeps everything.
Core Lean only.
-/
import Sth.Lemmas.C02Flush

namespace Sth

/-! ### a record list's encoding stays below the deleted bit -/

section
variable {kind : PKind} {bits : Nat} {U : List (Bytes × Bytes)} {P : Block → PGet}
  {below : Block → Prop} {spec : Spec}

theorem enc_bound5 (hU : Univ kind U) (h8 : 8 ≤ bits) (h31 : bits ≤ 31) {b : Nat} {rl : RecordList}
    (ho : OInv (ownOf kind bits P) rl)
    (hB : ∀ e ∈ rl, BlockOK kind bits U P below spec b e.blk) :
    (rl.map (fun e => 18 + e.pfx.length)).sum ≤ specW spec := by
  unfold specW
  apply sum_le_of_inj (fun e : Entry => dgOf kind P e.blk) (fun x : Bytes × Bytes × Bytes => x.1)
  · rw [List.nodup_iff_pairwise_ne, List.pairwise_map]
    have hnd := ho.distinctBlocks
    rw [List.nodup_iff_pairwise_ne, List.pairwise_map] at hnd
    apply List.Pairwise.imp_of_mem _ hnd
    intro x y hx hy hne heq
    obtain ⟨k1, v1, d1, a1, a2, _, _, a5⟩ := (hB x hx).own hU h31
    obtain ⟨k2, v2, d2, b1, b2, _, _, b5⟩ := (hB y hy).own hU h31
    have e1 : dgOf kind P x.blk = d1 := by unfold dgOf; rw [a1]; simp [(hU.dig a2).1]
    have e2 : dgOf kind P y.blk = d2 := by unfold dgOf; rw [b1]; simp [(hU.dig b2).1]
    rw [e1, e2] at heq
    subst heq
    have := ho.owner_unique hx hy a5 b5
    exact hne (by rw [this])
  · intro e he
    obtain ⟨k1, v1, d1, a1, a2, _, a4, a5⟩ := (hB e he).own hU h31
    refine ⟨(d1, k1, v1), Spec.mem_of_get a4, ?_, ?_⟩
    · unfold dgOf; rw [a1]; simp [(hU.dig a2).1]
    · have hp := pfx_length_le (ho.own_pfx he a5).1
      have hl := indexKeyOf_length_le kind k1 d1 (hU.dig a2).1
      have h4 := (hU.dig a2).2.1
      simp only [List.length_drop] at hp
      simp only
      omega

theorem sum18 : ∀ rl : RecordList,
    (rl.map (fun e => 18 + e.pfx.length)).sum = (rl.map (fun e => 13 + e.pfx.length)).sum + 5 * rl.length
  | [] => by simp
  | e :: rl => by
    simp only [List.map_cons, List.sum_cons, List.length_cons, sum18 rl]
    omega

theorem enc_lt31 (hU : Univ kind U) (h8 : 8 ≤ bits) (h31 : bits ≤ 31) {b : Nat} {rl : RecordList}
    (ho : OInv (ownOf kind bits P) rl)
    (hB : ∀ e ∈ rl, BlockOK kind bits U P below spec b e.blk) {B : Nat} (hw : specW spec ≤ B)
    (hB31 : B < two31) : (encodeRL rl).length + 4 < two31 := by
  have h1 := enc_bound5 hU h8 h31 ho hB
  rw [sum18, ← encodeRL_length] at h1
  cases rl with
  | nil => simp [encodeRL]; unfold two31; omega
  | cons e rl =>
    simp only [List.length_cons] at h1
    omega

end

/-! ### the extended invariant -/

/-- the primary file size recorded in the index header -/
def hdrPfs (c : Cfg) : Nat :=
  match c.kind with
  | .mh => c.pfs
  | .cid => 0

structure XInv (c : Cfg) (s : SState) : Prop where
  cfg : s.cfg = c
  bits : s.m.bits = c.bits
  imax : s.m.imax = c.ifs
  pmax : s.m.pmax = hdrPfs c
  ihdr : s.d.ihdr = some ⟨c.bits, c.ifs, 0, hdrPfs c⟩
  phdr : c.kind = .mh → s.d.phdr = some ⟨c.pfs, 0⟩
  pall : c.kind = .mh → ∀ f, f ≤ s.m.pfileNum → s.d.pfiles.get? f ≠ none
  inextLt : ∀ b rl, s.m.inext.get? b = some rl → b < 2 ^ s.m.bits
  log : LogInv s.m s.d

/-- changing only the freelist pool, the freelist file and the snapshot -/
theorem Inv.frame_ff {c : Cfg} {U : List (Bytes × Bytes)} {cfg : Cfg} {m : Mem} {d : Disk}
    {spec : Spec} {n B : Nat} (h : Inv c U ⟨cfg, m, d⟩ spec n B) (fl : List Block)
    (fr : Option Bytes) (sn : Option Snap) :
    Inv c U ⟨cfg, { m with flpool := fl }, { d with free := fr, snap := sn }⟩ spec n B :=
  ⟨h.kind, h.imm, h.bits8, h.bits31,
    h.a.mono (fun _ _ _ _ hg => hg) (fun _ hb => hb) (fun _ => rfl),
    h.p.frame2 rfl rfl rfl rfl rfl rfl rfl rfl rfl rfl,
    h.i.frame2 rfl rfl rfl rfl rfl rfl,
    ⟨h.cnt.mh, h.cnt.cid, h.cnt.idx⟩, h.nodup, h.w⟩

theorem XInv.frame_ff {c : Cfg} {cfg : Cfg} {m : Mem} {d : Disk}
    (h : XInv c ⟨cfg, m, d⟩) (fl : List Block) (fr : Option Bytes) (sn : Option Snap) :
    XInv c ⟨cfg, { m with flpool := fl }, { d with free := fr, snap := sn }⟩ :=
  ⟨h.cfg, h.bits, h.imax, h.pmax, h.ihdr, h.phdr, h.pall, h.inextLt,
    h.log.frame rfl rfl rfl rfl rfl⟩

/-! ### primary flush followed by index flush -/

theorem flushBoth_inv {c : Cfg} {U : List (Bytes × Bytes)} {s : SState} {spec : Spec} {n B : Nat}
    (hU : Univ c.kind U) (hI : Inv c U s spec n B) (hX : XInv c s) (hn : n < 1073741824)
    (hB : B < two31) (order : List Nat) :
    ∃ m1 d1 m2 d2, priFlush s.m s.d = some (m1, d1) ∧
      idxFlush m1 d1 (fixOrder order s.m.inext.keys) = (m2, d2) ∧
      Inv c U ⟨s.cfg, m2, d2⟩ spec n B ∧ XInv c ⟨s.cfg, m2, d2⟩ ∧ m2.inext = [] ∧ m2.pnext = [] ∧
      m2.flpool = s.m.flpool ∧
      (∀ b, idxRecords m2 d2 b = idxRecords s.m s.d b) ∧
      (∀ blk k v, priGet s.m s.d blk = .got k v → priGet m2 d2 blk = .got k v) := by
  have hU' : Univ s.m.kind U := by rw [hI.kind]; exact hU
  obtain ⟨f1, f2⟩ := fixOrder_ok order s.m.inext
  obtain ⟨pc, pfn, plen, pfiles, cidf, p1, p2, p3⟩ := priFlush_ok hI.p (fun hk => by
    have := (hI.cnt.mh hk).1
    unfold two32; omega)
  have hI1 : IInv (pfl s.m pc pfn plen) (dfl s.d pfiles cidf) :=
    hI.i.frame2 rfl rfl rfl rfl rfl rfl
  have hidx1 : ∀ b, idxRecords (pfl s.m pc pfn plen) (dfl s.d pfiles cidf) b = idxRecords s.m s.d b :=
    fun _ => rfl
  obtain ⟨ic, fn, len, bk, files, i1, i2, i3, i4⟩ :=
    idxFlush_ok (order := fixOrder order s.m.inext.keys) hI1
      (fun b => by
        obtain ⟨orl, h1, _⟩ := hI.a.recs b
        exact ⟨orl, by rw [hidx1]; exact h1⟩)
      (inext_flushOK (m := s.m) (d := s.d) hU' hI.bits31 hI.a hI.w hB) f1 (by
        have := hI.cnt.idx
        show s.m.ifileNum + (fixOrder order s.m.inext.keys).length < two32
        unfold two32; omega)
  have hpool : ∀ b rl, (pfl s.m pc pfn plen).inext.get? b = some rl →
      RecLogOK (pfl s.m pc pfn plen).bits (b, rl) := by
    intro b rl hb
    have hb' : s.m.inext.get? b = some rl := hb
    refine ⟨hX.inextLt b rl hb', ?_⟩
    obtain ⟨orl, h1, h2, h3⟩ := hI.a.recs b
    have : idxRecords s.m s.d b = .ok (some rl) := by unfold idxRecords; rw [hb']
    rw [this] at h1
    cases h1
    simp only [Option.getD_some] at h2 h3
    exact enc_lt31 hU' hI.bits8 hI.bits31 h2 h3 hI.w hB
  have hL1 : LogInv (pfl s.m pc pfn plen) (dfl s.d pfiles cidf) := hX.log.frame rfl rfl rfl rfl rfl
  obtain ⟨l1, _, _⟩ := idxFlush_log (order := fixOrder order s.m.inext.keys) hI1 hL1 hpool
  rw [i1] at l1
  have hpall := priFlush_all p1 (fun hk => hX.pall (by rw [← hI.kind]; exact hk))
  refine ⟨_, _, _, _, p1, i1, ?_, ?_, rfl, rfl, rfl, fun b => (i3 b).trans (hidx1 b), p3⟩
  · refine ⟨hI.kind, hI.imm, hI.bits8, hI.bits31, ?_, p2.frame2 rfl rfl rfl rfl rfl rfl rfl rfl rfl rfl,
      i2, ?_, hI.nodup, hI.w⟩
    · apply AInv.mono hI.a
      · intro blk k v _ hg
        exact p3 blk k v hg
      · intro blk hb; exact hb
      · intro b
        exact (i3 b).trans (hidx1 b)
    · refine ⟨hI.cnt.mh, hI.cnt.cid, ?_⟩
      have := hI.cnt.idx
      show fn + 0 ≤ n
      have i4' : fn ≤ s.m.ifileNum + (fixOrder order s.m.inext.keys).length := i4
      omega
  · refine ⟨hX.cfg, hX.bits, hX.imax, hX.pmax, hX.ihdr, hX.phdr, ?_, ?_, l1⟩
    · intro hk f hf
      exact hpall (by rw [hI.kind]; exact hk) f hf
    · intro b rl hb
      cases hb

end Sth
