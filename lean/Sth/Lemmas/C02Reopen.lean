/-
C02 — OpenStore on the disk a clean Close leaves: both ways of loading the bucket table (saved
snapshot, rescan of the index log) give a state that satisfies the invariant with the same
observations.
Core Lean only.
-/
import Sth.Lemmas.C02Inv

namespace Sth

/-! ### sorted tables -/

theorem NMap.sorted_filter {α : Type} {m : NMap α} (p : Nat × α → Bool) (h : NMap.Sorted m) :
    NMap.Sorted (m.filter p) := by
  unfold NMap.Sorted at h ⊢
  exact h.sublist ((List.filter_sublist (l := m)).map _)

theorem NMap.keys_filter_subset {α : Type} (m : NMap α) (p : Nat × α → Bool) (k : Nat)
    (h : k ∈ NMap.keys (m.filter p)) : k ∈ NMap.keys m := by
  unfold NMap.keys at h ⊢
  obtain ⟨x, hx, rfl⟩ := List.mem_map.mp h
  exact List.mem_map.mpr ⟨x, (List.mem_filter.mp hx).1, rfl⟩

/-- dropping the zero entries does not change what the table means -/
theorem NMap.get?_filter_nz : ∀ {m : NMap Nat}, NMap.Sorted m → ∀ b,
    (NMap.get? (m.filter (·.2 ≠ 0)) b).getD 0 = (NMap.get? m b).getD 0
  | [], _, _ => rfl
  | (k, v) :: rest, hs, b => by
    have hs' : NMap.Sorted rest := by
      unfold NMap.Sorted at hs ⊢
      simp only [List.map_cons, List.pairwise_cons] at hs
      exact hs.2
    have hk : ∀ x ∈ NMap.keys rest, k < x := by
      unfold NMap.Sorted at hs
      simp only [List.map_cons, List.pairwise_cons] at hs
      exact hs.1
    have ih := NMap.get?_filter_nz hs' b
    simp only [List.filter_cons]
    by_cases hv : v = 0
    · subst hv
      simp only [ne_eq, not_true_eq_false, decide_false, Bool.false_eq_true, if_false]
      rw [NMap.get?_cons]
      by_cases hkb : k = b
      · subst hkb
        rw [if_pos rfl]
        have : NMap.get? (rest.filter (·.2 ≠ 0)) k = none := by
          apply NMap.get?_none_of_not_mem_keys
          intro hm
          have := hk k (NMap.keys_filter_subset _ _ _ hm)
          omega
        simp only [ne_eq] at this
        rw [this]
        rfl
      · rw [if_neg hkb]
        simpa using ih
    · simp only [ne_eq, hv, not_false_eq_true, decide_true, if_true]
      rw [NMap.get?_cons, NMap.get?_cons]
      by_cases hkb : k = b
      · rw [if_pos hkb, if_pos hkb]
      · rw [if_neg hkb, if_neg hkb]
        simpa using ih

theorem scanRecs_sorted (max fnum : Nat) : ∀ (recs : List LRec) (pos : Nat) (bk : NMap Nat),
    NMap.Sorted bk → NMap.Sorted (scanRecs max fnum pos recs bk)
  | [], _, _, h => h
  | _ :: rs, _, _, h => scanRecs_sorted max fnum rs _ _ (NMap.sorted_set _ _ h)

theorem scanTo_sorted (max : Nat) (lg : Nat → List LRec) : ∀ N, NMap.Sorted (scanTo max lg N)
  | 0 => scanRecs_sorted _ _ _ _ _ NMap.sorted_nil
  | N + 1 => scanRecs_sorted _ _ _ _ _ (scanTo_sorted max lg N)

theorem readDiskBucket_congr {fs fs' : NMap Bytes} (h : ∀ f, fs'.get? f = fs.get? f) (imax pos : Nat) :
    readDiskBucket fs' imax pos = readDiskBucket fs imax pos := by
  unfold readDiskBucket
  simp only [h]

theorem fileOf_congr {fs fs' : NMap Bytes} (h : ∀ f, fs'.get? f = fs.get? f) (n : Nat) :
    fileOf fs' n = fileOf fs n := by
  unfold fileOf; rw [h]

/-! ### opening the primary and the index -/

theorem has_eq_true {α : Type} {fs : NMap α} {f : Nat} (h : fs.get? f ≠ none) : fs.has f = true := by
  unfold NMap.has
  cases hg : fs.get? f with
  | none => exact absurd hg h
  | some _ => rfl

theorem openPrimary_ok (c : Cfg) (hc : c.Legal) (d : Disk) (P : Nat)
    (hph : c.kind = .mh → d.phdr = some ⟨c.pfs, 0⟩)
    (hall : c.kind = .mh → ∀ f, f ≤ P → d.pfiles.get? f ≠ none)
    (hno : c.kind = .mh → d.pfiles.get? (P + 1) = none) :
    ∃ cf pfn plen, openPrimary c d = .ok ({ d with cidfile := cf }, hdrPfs c, pfn, plen) ∧
      (c.kind = .mh → cf = d.cidfile ∧ pfn = P ∧ plen = (fileOf d.pfiles P).length) ∧
      (c.kind = .cid → cf = some (d.cidfile.getD []) ∧ pfn = 0 ∧
        plen = (d.cidfile.getD []).length) := by
  obtain ⟨h1, h2, h3, h4, h5, h6⟩ := hc
  rcases (by cases c.kind <;> simp : c.kind = .mh ∨ c.kind = .cid) with hk | hk
  · have hp : c.pfs ≠ 0 := by omega
    have hp' : ¬ c.pfs > defaultMax := by omega
    have hfl := findLast_eq (hall hk) (hno hk)
    refine ⟨d.cidfile, P, (fileOf d.pfiles P).length, ?_, fun _ => ⟨rfl, rfl, rfl⟩, ?_⟩
    · unfold openPrimary hdrPfs
      simp only [hk, hp, if_false, hp', hph hk, ne_eq, not_true_eq_false, hfl,
        has_eq_true (hall hk P (Nat.le_refl _)), if_true]
      rw [← hph hk]
    · intro hk'; rw [hk] at hk'; cases hk'
  · refine ⟨some (d.cidfile.getD []), 0, (d.cidfile.getD []).length, ?_, ?_, fun _ => ⟨rfl, rfl, rfl⟩⟩
    · unfold openPrimary hdrPfs
      simp only [hk]
    · intro hk'; rw [hk] at hk'; cases hk'

theorem openIndex_pre (c : Cfg) (hc : c.Legal) :
    ¬ (c.bits > 31 ∨ c.bits < 8) ∧ ¬ c.ifs > defaultMax ∧ c.bits ≠ 0 ∧ c.ifs ≠ 0 := by
  obtain ⟨h1, h2, h3, h4, h5, h6⟩ := hc
  refine ⟨by omega, by omega, by omega, by omega⟩

theorem openIndex_snap (c : Cfg) (hc : c.Legal) (d : Disk) (N : Nat) (nz : NMap Nat)
    (hih : d.ihdr = some ⟨c.bits, c.ifs, 0, hdrPfs c⟩)
    (hsn : d.snap = some ⟨8 * 2 ^ c.bits, nz⟩)
    (hall : ∀ f, f ≤ N → d.ifiles.get? f ≠ none) (hno : d.ifiles.get? (N + 1) = none) :
    openIndex c (hdrPfs c) d = .ok ({ d with snap := none, ifiles := d.ifiles }, c.bits, c.ifs, nz, N) := by
  obtain ⟨p1, p2, p3, p4⟩ := openIndex_pre c hc
  have hfl := findLast_eq hall hno
  unfold openIndex
  simp only [p1, p2, if_false, hih, p3, p4, ne_eq, not_true_eq_false, hsn, beq_self_eq_true, if_true,
    Option.map_some, Option.getD_some, hfl, and_false, has_eq_true (hall N (Nat.le_refl _)),
    not_false_eq_true]

theorem openIndex_scan (c : Cfg) (hc : c.Legal) (d : Disk) (N : Nat) (lg : Nat → List LRec)
    (hih : d.ihdr = some ⟨c.bits, c.ifs, 0, hdrPfs c⟩) (hsn : d.snap = none)
    (hfiles : ∀ f, f ≤ N → d.ifiles.get? f = some (logBytes (lg f)))
    (hno : d.ifiles.get? (N + 1) = none)
    (hrec : ∀ f, f ≤ N → ∀ r ∈ lg f, RecLogOK c.bits r) :
    ∃ files', openIndex c (hdrPfs c) d =
        .ok ({ d with snap := none, ifiles := files' }, c.bits, c.ifs, scanTo c.ifs lg N, N) ∧
      ∀ f, files'.get? f = d.ifiles.get? f := by
  obtain ⟨p1, p2, p3, p4⟩ := openIndex_pre c hc
  obtain ⟨files', s1, s2⟩ := scanIndex_log (max := c.ifs) hc.2.1 hfiles hno hrec
  refine ⟨files', ?_, s2⟩
  have hh : files'.has N = true := has_eq_true (by rw [s2, hfiles N (Nat.le_refl _)]; simp)
  unfold openIndex
  simp only [p1, p2, if_false, hih, p3, p4, ne_eq, not_true_eq_false, hsn, Bool.false_eq_true, s1,
    and_false, hh, if_true, not_false_eq_true]

/-- the memory state `openStore` builds -/
def openMem (c : Cfg) (bk : NMap Nat) (N ilen pfn plen : Nat) : Mem :=
  { kind := c.kind, imm := c.imm, bits := c.bits, imax := c.ifs, buckets := bk,
    ifileNum := N, ilength := ilen, pmax := hdrPfs c, pfileNum := pfn, plength := plen,
    precFileNum := pfn, precPos := plen }

theorem openStore_ok (c : Cfg) (hc : c.Legal) (d : Disk) (P N : Nat)
    (hph : c.kind = .mh → d.phdr = some ⟨c.pfs, 0⟩)
    (hall : c.kind = .mh → ∀ f, f ≤ P → d.pfiles.get? f ≠ none)
    (hno : c.kind = .mh → d.pfiles.get? (P + 1) = none)
    {Q : NMap Bytes → NMap Nat → Prop}
    (hidx : ∀ dP : Disk, dP.ihdr = d.ihdr → dP.snap = d.snap → dP.ifiles = d.ifiles →
      ∃ files' bk, openIndex c (hdrPfs c) dP =
        .ok ({ dP with snap := none, ifiles := files' }, c.bits, c.ifs, bk, N) ∧ Q files' bk) :
    ∃ cf pfn plen files' bk,
      openStore c d = ({ d with free := some (d.free.getD []), cidfile := cf, snap := none,
                                ifiles := files' },
        .ok (openMem c bk N (fileOf files' N).length pfn plen)) ∧
      (c.kind = .mh → cf = d.cidfile ∧ pfn = P ∧ plen = (fileOf d.pfiles P).length) ∧
      (c.kind = .cid → cf = some (d.cidfile.getD []) ∧ pfn = 0 ∧
        plen = (d.cidfile.getD []).length) ∧ Q files' bk := by
  obtain ⟨cf, pfn, plen, o1, o2, o3⟩ := openPrimary_ok c hc { d with free := some (d.free.getD []) } P
    hph hall hno
  obtain ⟨files', bk, o4, o5⟩ := hidx
    { d with free := some (d.free.getD []), cidfile := cf } rfl rfl rfl
  refine ⟨cf, pfn, plen, files', bk, ?_, o2, o3, o5⟩
  unfold openStore
  simp only [o1, o4]
  rfl

end Sth

namespace Sth

/-! ### the reopened state against the flushed state -/

/-- how the state `(m', d')` after OpenStore relates to the fully flushed state `(m2, d2)` before Close -/
structure Reopened (m2 : Mem) (d2 : Disk) (m' : Mem) (d' : Disk) : Prop where
  kind : m'.kind = m2.kind
  imm : m'.imm = m2.imm
  bits : m'.bits = m2.bits
  imax : m'.imax = m2.imax
  pmax : m'.pmax = m2.pmax
  inext : m'.inext = []
  icur : m'.icur = []
  pnext : m'.pnext = []
  pcur : m'.pcur = []
  ifileNum : m'.ifileNum = m2.ifileNum
  ilength : m'.ilength = (fileOf d'.ifiles m'.ifileNum).length
  sorted : NMap.Sorted m'.buckets
  table : ∀ b, (m'.buckets.get? b).getD 0 = (m2.buckets.get? b).getD 0
  ifiles : ∀ f, d'.ifiles.get? f = d2.ifiles.get? f
  pfiles : d'.pfiles = d2.pfiles
  cidSome : ∀ file, d2.cidfile = some file → d'.cidfile = some file
  cidLen : d'.cidfile.getD [] = d2.cidfile.getD []
  precFileNum : m2.kind = .mh → m'.precFileNum = m2.precFileNum
  precPos : m'.precPos = m2.precPos
  pfileNum : m2.kind = .mh → m'.pfileNum = m2.pfileNum ∧ m'.plength = m2.plength
  ihdr : d'.ihdr = d2.ihdr
  phdr : d'.phdr = d2.phdr

section
variable {m2 m' : Mem} {d2 d' : Disk}

theorem Reopened.below (r : Reopened m2 d2 m' d') (blk : Block) : Below m' blk ↔ Below m2 blk := by
  unfold Below
  rw [r.kind, r.pmax, r.precPos]
  rcases kind_cases m2 with hk | hk
  · rw [r.precFileNum hk]
  · simp only [hk]

theorem Reopened.thr (r : Reopened m2 d2 m' d') : thr m' = thr m2 := by
  unfold Sth.thr
  rw [r.kind, r.pmax, r.precPos]
  rcases kind_cases m2 with hk | hk
  · rw [r.precFileNum hk]
  · simp only [hk]

theorem Reopened.diskRead (r : Reopened m2 d2 m' d') {blk : Block} {k v : Bytes}
    (h : Sth.diskRead m2.kind m2.pmax d2 blk = .got k v) :
    Sth.diskRead m'.kind m'.pmax d' blk = .got k v := by
  rw [r.kind, r.pmax]
  rcases kind_cases m2 with hk | hk
  · rw [hk] at h ⊢
    unfold Sth.diskRead at h ⊢
    simp only at h ⊢
    rw [r.pfiles]
    exact h
  · rw [hk] at h ⊢
    unfold Sth.diskRead at h ⊢
    simp only at h ⊢
    cases hcf : d2.cidfile with
    | none => simp [hcf] at h
    | some file =>
      rw [r.cidSome file hcf]
      rw [hcf] at h
      exact h

theorem Reopened.priGet (r : Reopened m2 d2 m' d') (hP : PInv m2 d2) (hn : m2.pnext = [])
    {blk : Block} {k v : Bytes} (h : Sth.priGet m2 d2 blk = .got k v) :
    Sth.priGet m' d' blk = .got k v := by
  rw [priGet_eq] at h ⊢
  rw [r.pnext, r.pcur]
  rw [hn] at h
  have e0 : poolFind ([] : List PRec) blk = none := rfl
  simp only [e0] at h ⊢
  unfold priDisk
  unfold thrOK
  rw [r.thr]
  cases h2 : poolFind m2.pcur blk with
  | some rec_ =>
    rw [h2] at h
    simp only at h
    obtain ⟨hr1, hr2⟩ := poolFind_some h2
    obtain ⟨c1, c2⟩ := hP.curDisk rec_ hr1
    rw [hr2] at c1 c2
    have := c2.thrOK
    unfold thrOK at this
    rw [if_pos this, ← h]
    exact r.diskRead c1
  | none =>
    rw [h2] at h
    simp only at h
    unfold priDisk thrOK at h
    by_cases ht : blk.off < Sth.thr m2
    · rw [if_pos ht] at h ⊢
      exact r.diskRead h
    · rw [if_neg ht] at h
      cases h

theorem Reopened.idxRecords (r : Reopened m2 d2 m' d') (hI : IInv m2 d2) (hn : m2.inext = [])
    (b : Nat) : Sth.idxRecords m' d' b = Sth.idxRecords m2 d2 b := by
  unfold Sth.idxRecords
  rw [r.inext, r.icur, hn, r.imax, r.table, readDiskBucket_congr r.ifiles]
  simp only [NMap.get?_nil]
  cases hc : m2.icur.get? b with
  | some rl => exact hI.curDisk b rl hc
  | none => rfl

theorem reopen_inv {c : Cfg} {U : List (Bytes × Bytes)} {cfg : Cfg} {spec : Spec} {n B : Nat}
    (hI : Inv c U ⟨cfg, m2, d2⟩ spec n B) (hX : XInv c ⟨cfg, m2, d2⟩)
    (hin : m2.inext = []) (hpn : m2.pnext = []) (r : Reopened m2 d2 m' d') :
    Inv c U ⟨c, m', d'⟩ spec n B ∧ XInv c ⟨c, m', d'⟩ := by
  have hIp : PInv m2 d2 := hI.p
  have hIi : IInv m2 d2 := hI.i
  have hIa : SInv U m2 d2 spec := hI.a
  have hkind : m2.kind = c.kind := hI.kind
  have halloc : m2.kind = .mh → m2.pfileNum = m2.precFileNum ∧ m2.plength = m2.precPos := by
    intro hk
    have := (hIp.mh hk).1
    rw [hpn] at this
    exact this
  constructor
  · refine ⟨by show m'.kind = c.kind; rw [r.kind]; exact hkind,
      by show m'.imm = c.imm; rw [r.imm]; exact hI.imm,
      by show 8 ≤ m'.bits; rw [r.bits]; exact hI.bits8,
      by show m'.bits ≤ 31; rw [r.bits]; exact hI.bits31, ?_, ?_, ?_, ?_, hI.nodup, hI.w⟩
    · show AInv m'.kind m'.bits U _ _ _ _
      rw [r.kind, r.bits]
      apply AInv.mono hIa
      · intro blk k v _ hg
        exact r.priGet hIp hpn hg
      · intro blk hb
        exact (r.below blk).mpr hb
      · intro b
        exact r.idxRecords hIi hin b
    · show PInv m' d'
      constructor
      · rw [r.kind, r.pmax]; exact hIp.pmax
      · rw [r.pnext]; intro x hx; cases hx
      · rw [r.pnext]; intro x hx; cases hx
      · rw [r.pcur]; intro x hx; cases hx
      · intro hk
        rw [r.kind] at hk
        obtain ⟨a1, a2⟩ := halloc hk
        obtain ⟨b1, b2⟩ := r.pfileNum hk
        obtain ⟨_, c2, c3⟩ := hIp.mh hk
        rw [r.pnext, r.pfiles, b1, b2, r.precFileNum hk, r.precPos]
        exact ⟨⟨a1, a2⟩, c2, c3⟩
      · intro hk
        rw [r.kind] at hk
        have := hIp.cid hk
        rw [hpn] at this
        rw [r.pnext, r.cidLen, r.precPos]
        exact this
    · show IInv m' d'
      refine ⟨by rw [r.imax]; exact hIi.imax, (by rw [r.icur]; intro b rl hb; cases hb), r.ilength.symm, ?_,
        r.sorted⟩
      intro f hf
      rw [r.ifiles]
      rw [r.ifileNum] at hf
      exact hIi.noFiles f hf
    · have hc := hI.cnt
      refine ⟨?_, ?_, ?_⟩
      · intro hk
        have hk' : m2.kind = .mh := by rw [← r.kind]; exact hk
        show m'.precFileNum ≤ n ∧ m'.pmax ≤ 1073741824
        rw [r.precFileNum hk', r.pmax]
        exact hc.mh hk'
      · intro hk
        show m'.precPos ≤ B
        rw [r.precPos]
        exact hc.cid (by rw [← r.kind]; exact hk)
      · show m'.ifileNum + m'.inext.length ≤ n
        rw [r.ifileNum, r.inext]
        have := hc.idx
        simp only [List.length_nil]
        show m2.ifileNum + 0 ≤ n
        have h' : m2.ifileNum + m2.inext.length ≤ n := this
        omega
  · obtain ⟨lg, hl⟩ := hX.log
    refine ⟨rfl, by show m'.bits = c.bits; rw [r.bits]; exact hX.bits,
      by show m'.imax = c.ifs; rw [r.imax]; exact hX.imax,
      by show m'.pmax = hdrPfs c; rw [r.pmax]; exact hX.pmax,
      by show d'.ihdr = _; rw [r.ihdr]; exact hX.ihdr,
      fun hk => by show d'.phdr = _; rw [r.phdr]; exact hX.phdr hk, ?_, ?_, ⟨lg, ?_, ?_, ?_⟩⟩
    · intro hk f hf
      have hk' : m2.kind = .mh := by rw [hkind]; exact hk
      show d'.pfiles.get? f ≠ none
      rw [r.pfiles]
      have hf' : f ≤ m'.pfileNum := hf
      rw [(r.pfileNum hk').1] at hf'
      exact hX.pall hk f hf'
    · intro b rl hb
      have hb' : m'.inext.get? b = some rl := hb
      rw [r.inext] at hb'
      cases hb'
    · intro f hf
      show d'.ifiles.get? f = _
      rw [r.ifiles]
      have hf' : f ≤ m'.ifileNum := hf
      rw [r.ifileNum] at hf'
      exact hl.files f hf'
    · intro f hf x hx
      have hf' : f ≤ m'.ifileNum := hf
      rw [r.ifileNum] at hf'
      show RecLogOK m'.bits x
      rw [r.bits]
      exact hl.recs f hf' x hx
    · intro b
      show (m'.buckets.get? b).getD 0 = ((scanTo m'.imax lg m'.ifileNum).get? b).getD 0
      rw [r.table, r.imax, r.ifileNum]
      exact hl.table b

end

end Sth
