import Sth.Lemmas.C11Pri5

/-!
C11, primary side (6): the hypotheses of the release theorem on the bytes of a state (all decidable),
and the theorem on reachable states.  Core Lean only.
-/

namespace Sth.C11

/-! ### reading the spans off the bytes of a file -/

/-- the spans of a primary file as reapRecords scans them: size word (deleted bit = 2^31), body -/
def parseSpans : Nat → Bytes → List GSpan
  | 0, _ => []
  | fuel + 1, file =>
    match readU32 file 0 with
    | none => []
    | some raw =>
      let size := if raw ≥ two31 then raw - two31 else raw
      ⟨decide (raw ≥ two31), (file.drop 4).take size⟩ :: parseSpans fuel (file.drop (4 + size))

def spansOf (file : Bytes) : List GSpan := parseSpans (file.length + 1) file

theorem parseSpans_gbytes : ∀ (ss : List GSpan) (fuel : Nat), SpansLt ss → ss.length < fuel →
    parseSpans fuel (gbytes ss) = ss
  | [], fuel, _, hf => by
    obtain ⟨f, rfl⟩ : ∃ f, fuel = f + 1 := ⟨fuel - 1, by simp at hf; omega⟩
    unfold parseSpans
    have : readU32 (gbytes []) 0 = none := readU32_end []
    rw [this]
  | s :: ss, fuel, hok, hf => by
    obtain ⟨f, rfl⟩ : ∃ f, fuel = f + 1 := ⟨fuel - 1, by simp at hf; omega⟩
    have hs : s.body.length < two31 := hok s (by simp)
    have h4 : (le32 s.raw).length = 4 := leEnc_length 4 _
    unfold parseSpans
    have hrd : readU32 (gbytes (s :: ss)) 0 = some s.raw := by
      have := readU32_span [] s (gbytes ss) hs
      rw [List.nil_append, List.length_nil] at this
      rw [gbytes_cons]; exact this
    rw [hrd]
    simp only
    have hsize : (if s.raw ≥ two31 then s.raw - two31 else s.raw) = s.body.length := by
      unfold GSpan.raw
      cases s.dead
      · simp only [Bool.false_eq_true, if_false, Nat.add_zero]
        rw [if_neg (by omega)]
      · simp only [if_true]
        rw [if_pos (by omega)]
        omega
    have hdead : decide (s.raw ≥ two31) = s.dead := by
      unfold GSpan.raw
      cases s.dead
      · simp only [Bool.false_eq_true, if_false, Nat.add_zero]
        exact decide_eq_false (by omega)
      · simp only [if_true]
        exact decide_eq_true (by omega)
    rw [hsize, hdead]
    have e1 : gbytes (s :: ss) = le32 s.raw ++ (s.body ++ gbytes ss) := by
      rw [gbytes_cons]; unfold GSpan.bytes; rw [List.append_assoc]
    have hbody : ((gbytes (s :: ss)).drop 4).take s.body.length = s.body := by
      rw [e1, List.drop_left' h4, List.take_left' rfl]
    have hrest : (gbytes (s :: ss)).drop (4 + s.body.length) = gbytes ss := by
      rw [e1, ← List.drop_drop, List.drop_left' h4, List.drop_left' rfl]
    rw [hbody, hrest, parseSpans_gbytes ss f (fun x hx => hok x (by simp [hx])) (by simp at hf; omega)]

theorem spansOf_gbytes {ss : List GSpan} (hok : SpansLt ss) : spansOf (gbytes ss) = ss := by
  unfold spansOf
  exact parseSpans_gbytes ss _ hok (by have := gbytes_length_ge ss; omega)

/-! ### the index entries of a state -/

/-- the blocks of all index entries: every bucket of the pools and of the table -/
def entryBlocks (s : SState) : List Block :=
  (s.m.inext.keys ++ s.m.icur.keys ++ s.m.buckets.keys).flatMap fun b =>
    match idxRecords s.m s.d b with
    | .ok (some rl) => rl.map (·.blk)
    | _ => []

theorem mem_entryBlocks {s : SState} {blk : Block} : blk ∈ entryBlocks s ↔ IsEnt s.m s.d blk := by
  unfold entryBlocks IsEnt
  rw [List.mem_flatMap]
  constructor
  · rintro ⟨b, _, hb⟩
    cases hr : idxRecords s.m s.d b with
    | error e => rw [hr] at hb; cases hb
    | ok orl =>
      cases orl with
      | none => rw [hr] at hb; cases hb
      | some rl =>
        rw [hr] at hb
        obtain ⟨e, he, rfl⟩ := List.mem_map.mp hb
        exact ⟨b, rl, e, hr, he, rfl⟩
  · rintro ⟨b, rl, e, hr, he, rfl⟩
    refine ⟨b, ?_, by rw [hr]; exact List.mem_map.mpr ⟨e, he, rfl⟩⟩
    -- the bucket is a key of one of the three maps
    simp only [List.mem_append]
    cases h1 : s.m.inext.get? b with
    | some x => exact Or.inl (Or.inl (NMap.mem_keys_of_get? h1))
    | none =>
      cases h2 : s.m.icur.get? b with
      | some x => exact Or.inl (Or.inr (NMap.mem_keys_of_get? h2))
      | none =>
        cases h3 : s.m.buckets.get? b with
        | some x => exact Or.inr (NMap.mem_keys_of_get? h3)
        | none =>
          exfalso
          unfold idxRecords at hr
          rw [h1, h2, h3] at hr
          simp only [Option.getD_none] at hr
          rw [readDiskBucket_zero] at hr
          cases hr

/-! ### the hypotheses, on the bytes -/

/-- the blocks of the record spans (not marked deleted) of primary file `g` with contents `file` -/
def liveBlocks (pmax g : Nat) (file : Bytes) : List Block :=
  (liveAt 0 (spansOf file)).map fun x => ⟨pmax * g + x.1, x.2.length⟩

/-- coverage: every record span of every closed primary file is named by an index entry or recorded on
    the freelist (freelist file, hand-over file, pool) -/
def Covered (s : SState) : Prop :=
  ∀ p ∈ s.d.pfiles, p.1 < s.m.pfileNum → ∀ blk ∈ liveBlocks s.m.pmax p.1 p.2,
    blk ∈ entryBlocks s ∨ blk ∈ recordedG s

instance (s : SState) : Decidable (Covered s) := by unfold Covered; exact inferInstance

/-- no index entry points into primary file `f` -/
def NoEntryIn (s : SState) (f : Nat) : Prop :=
  ∀ blk ∈ entryBlocks s, (localizePri s.m.pmax blk.off).2 ≠ f

instance (s : SState) (f : Nat) : Decidable (NoEntryIn s f) := by unfold NoEntryIn; exact inferInstance

/-- a file of the visited set that has no record span left is empty (reapRecords left it so) -/
def VisitedStable (s : SState) (f : Nat) : Prop :=
  f ∈ s.m.visited → ∀ file, s.d.pfiles.get? f = some file → liveAt 0 (spansOf file) = [] → file = []

instance (s : SState) (f : Nat) : Decidable (VisitedStable s f) := by
  unfold VisitedStable
  cases h : s.d.pfiles.get? f with
  | none => exact isTrue (fun _ file hf => by cases hf)
  | some file =>
    by_cases h1 : f ∈ s.m.visited
    · by_cases h2 : liveAt 0 (spansOf file) = []
      · by_cases h3 : file = []
        · exact isTrue (fun _ file' hf _ => by cases hf; exact h3)
        · exact isFalse (fun hc => h3 (hc h1 file rfl h2))
      · exact isTrue (fun _ file' hf hl => by cases hf; exact absurd hl h2)
    · exact isTrue (fun hc => absurd hc h1)

/-- the file will be visited by the next cycle: it is not in the visited set, or still has a record
    span (whose freelist entry makes it affected) -/
def WillVisit (s : SState) (f : Nat) : Prop :=
  f ∉ s.m.visited ∨ ∃ file, s.d.pfiles.get? f = some file ∧ liveAt 0 (spansOf file) ≠ []

section
variable {c : Cfg} {U : List (Bytes × Bytes)} {s : SState} {spec : Spec} {k B : Nat}

/-- P1 on a state satisfying the GC invariant, hypotheses on the bytes -/
theorem primary_file_released_inv (hU : Univ c.kind U) (hG : GInv c U s spec k B)
    (hk : 3 * k < 1073741824) (hpn : s.m.pnext = []) {f : Nat} {file : Bytes}
    (hfile : s.d.pfiles.get? f = some file) (hf : f < s.m.pfileNum) (hlen : file.length < two31)
    (hcov : Covered s) (hno : NoEntryIn s f) (hvis : VisitedStable s f) (lowUse : Nat) :
    Released (stepS s (.pgc lowUse none)).1.d.pfiles f ∧
    (s.d.phdr.map PriHeader.first = some f → WillVisit s f →
      (stepS s (.pgc lowUse none)).1.d.pfiles.get? f = none) := by
  obtain ⟨cfg, m, d⟩ := s
  have hpn : m.pnext = [] := hpn
  have hfile : d.pfiles.get? f = some file := hfile
  have hf : f < m.pfileNum := hf
  obtain ⟨pf, psp, hS⟩ := hG.state
  have hkind : m.kind = .mh := hG.kind
  have h1 : pf ≤ f := by
    cases Nat.lt_or_ge f pf with
    | inl h => have := hS.log.gone f h; rw [hfile] at this; cases this
    | inr h => exact h
  have hspans : ∀ g, pf ≤ g → g ≤ m.pfileNum → d.pfiles.get? g = some (gbytes (psp g)) ∧
      spansOf (gbytes (psp g)) = psp g :=
    fun g g1 g2 => ⟨hS.log.files g g1 g2, spansOf_gbytes (hS.log.ok g g1 g2)⟩
  have hfile' : file = gbytes (psp f) := by
    have := (hspans f h1 (by omega)).1
    rw [hfile] at this
    exact Option.some.inj this
  have hp : 1 ≤ m.pmax := hG.pmax1
  have hf32 : ∀ g, g ≤ m.pfileNum → g < two32 := by
    intro g hg
    have a1 : m.pfileNum ≤ m.precFileNum := GInv.pfile_le (s := ⟨cfg, m, d⟩) hG
    have a2 : m.precFileNum ≤ k := hG.cntF
    unfold two32
    omega
  obtain ⟨res, hres, r1, r2⟩ := pgc_releases_core hU hS hk hpn h1 hf
    (by
      intro g g1 g2 x hx
      obtain ⟨e1, e2⟩ := hspans g g1 (by omega)
      have hmem : (g, gbytes (psp g)) ∈ d.pfiles := NMap.mem_of_get? e1
      have := hcov (g, gbytes (psp g)) hmem g2 ⟨m.pmax * g + x.1, x.2.length⟩ (by
        unfold liveBlocks
        simp only
        rw [e2]
        exact List.mem_map.mpr ⟨x, hx, rfl⟩)
      exact this.imp (fun h => mem_entryBlocks.mp h) id)
    (by
      intro x hx he
      have := hno _ (mem_entryBlocks.mpr he)
      simp only at this
      rw [localizePri_eq hp (hS.log.starts f h1 (by omega) x hx) (hf32 f (by omega))] at this
      exact this rfl)
    (by
      intro hv hl
      have := hvis hv file hfile (by rw [hfile', (hspans f h1 (by omega)).2]; exact hl)
      rw [hfile'] at this
      exact gbytes_eq_nil this)
    (by rw [← hfile']; exact hlen) lowUse
  have hstep : (stepS ⟨cfg, m, d⟩ (.pgc lowUse none)).1.d = res.2.2.1 := by
    simp only [stepS, hkind, hres]
  rw [hstep]
  refine ⟨r1, ?_⟩
  intro hfirst hw
  have hpf : pf = f := by
    have := hS.hdr
    rw [this] at hfirst
    simpa using hfirst
  apply r2 hpf
  rcases hw with hw | ⟨file', hf', hl⟩
  · exact Or.inl hw
  · right
    rw [hfile] at hf'
    cases hf'
    rw [hfile', (hspans f h1 (by omega)).2] at hl
    exact hl

end

/-- P1 on reachable states -/
theorem primary_file_released (c : Cfg) (hc : c.Legal) (hmh : c.kind = .mh) (ops : List SOp)
    (hk : KeysOK c.kind ops) (hs : SizesOK ops) (s0 : SState) (hi : initS c = some s0) (lowUse : Nat)
    (hb : GcCountersOK s0 (ops ++ [.pgc lowUse none])) (f : Nat) (file : Bytes)
    (hfile : (runS s0 ops).1.d.pfiles.get? f = some file) (hf : f < (runS s0 ops).1.m.pfileNum)
    (hlen : file.length < two31) (hflushed : (runS s0 ops).1.m.pnext = [])
    (hcov : Covered (runS s0 ops).1) (hno : NoEntryIn (runS s0 ops).1 f)
    (hvis : VisitedStable (runS s0 ops).1 f) :
    Released (stepS (runS s0 ops).1 (.pgc lowUse none)).1.d.pfiles f ∧
    ((runS s0 ops).1.d.phdr.map PriHeader.first = some f → WillVisit (runS s0 ops).1 f →
      (stepS (runS s0 ops).1 (.pgc lowUse none)).1.d.pfiles.get? f = none) := by
  obtain ⟨hb1, hb2, _⟩ := GcCountersOK.append ops [.pgc lowUse none] s0 hb
  have hG := reach_ginv c hc hmh ops hk hs s0 hi hb1
  have hU := univ_of_keysOK hk (keysExact_all c.kind ops)
  exact primary_file_released_inv hU hG (by omega) hflushed hfile hf hlen hcov hno hvis lowUse

end Sth.C11
