/-
C10 (byte level) — lemma-level main results: the upgraded directory reopens to the same state, the
upgraded store refines the map of the legacy contents, and the consistency check passes.
Core Lean only.
-/
import Sth.Lemmas.C10Inv
import Sth.Lemmas.C02

namespace Sth

namespace LegacyC

variable {c : Cfg} {U : List (Bytes × Bytes)} {C : LegacyC} {ifs : NMap Bytes}

/-! ### the self-contained well-formedness gives the one relative to the run's key universe -/

theorem specEntry_wf (hwf : LegacyWF c C) (b : Nat) (rl : RecordList) (h : C.table.get? b = some rl)
    (e : Entry) (he : e ∈ rl) :
    ∃ i key val dig, C.recs[i]? = some (key, val) ∧ e.blk = C.blockOf i ∧ C.isFreed i = false ∧
      keyClass .mh key = .ok dig ∧ bucketOfKey c.bits dig = some b ∧ e.pfx ≠ [] ∧
      pfx e.pfx (dig.drop (c.bits / 8)) ∧ C.specEntry e = some (dig, key, val) := by
  obtain ⟨i, key, val, dig, h1, h2, h3, h4, h5, h6, h7⟩ := hwf.entries b rl h e he
  refine ⟨i, key, val, dig, h1, h2, h3, h4, h5, h6, h7, ?_⟩
  unfold specEntry
  have : e.blk.off = C.offsetOf i := by rw [h2]; rfl
  rw [this, C.lookupRec_offsetOf i key val h1]
  simp only [h3, Bool.false_eq_true, if_false, (keyClass_ok h4).1]

theorem wfU_of_wf (hwf : LegacyWF c C) (ops : List SOp) :
    LegacyWFU c (digestsOf .mh (C.keyOps ++ ops)) C := by
  refine ⟨hwf.bits, hwf.recSize, hwf.gensOK, hwf.freedOK, hwf.sorted, hwf.prefixFree, hwf.distinct, ?_⟩
  intro b rl h e he
  obtain ⟨i, key, val, dig, h1, h2, h3, h4, h5, h6, h7, h8⟩ := specEntry_wf hwf b rl h e he
  refine ⟨i, key, val, dig, h1, h2, h3, ?_, h5, h6, h7⟩
  have hmem : (dig, key, val) ∈ C.spec := (mem_spec _).mpr ⟨b, rl, e, h, he, h8⟩
  have hop : SOp.get key ∈ C.keyOps ++ ops := by
    apply List.mem_append_left
    unfold keyOps
    exact List.mem_map.mpr ⟨(dig, key, val), hmem, rfl⟩
  exact mem_digestsOf hop rfl h4

/-! ### reopening the upgraded directory -/

theorem lgU_recOK (hwf : LegacyWFU c U C) (f : Nat) (r : LRec) (hr : r ∈ C.lgU c f) : RecLogOK c.bits r := by
  unfold lgU lgR at hr
  rcases rmP_mem _ _ _ hr with h | ⟨r0, h1, h2⟩
  · exact (lg_recOK hwf f r h).1
  · have := (lg_recOK hwf f r0 h1).1
    rw [h2]
    exact ⟨this.1, by simp only; rw [encodeRL_remapRL_length]; exact this.2⟩

theorem memU_congr {ifs ifs' : NMap Bytes} (h : ∀ f, ifs'.get? f = ifs.get? f) : C.memU c ifs' = C.memU c ifs := by
  unfold memU
  rw [fileOf_congr h]

/-- `openStoreR` on the upgraded directory: the same memory state, the same files -/
theorem reopen_U (x : Ctx c U C ifs) :
    ∃ files', openStoreR c (C.diskU c ifs) = (C.diskU c files', .ok (C.memU c files')) ∧
      (∀ f, files'.get? f = ifs.get? f) ∧ Ctx c U C files' := by
  have hpfs : hdrPfs c = c.pfs := by unfold hdrPfs; rw [x.hk]
  have hof : openFreelist (C.diskU c ifs) = C.diskU c ifs := rfl
  obtain ⟨cf, pfn, plen, files', bk, h1, h2, _, h4, h5⟩ := openStore_ok c x.hc (C.diskU c ifs) (C.lastP c) (C.lastI c)
    (fun _ => rfl) (fun _ f hf => pfiles_get f hf) (fun _ => pfiles_none _ (by omega))
    (Q := fun files' bk => bk = scanTo c.ifs (C.lgU c) (C.lastI c) ∧ ∀ f, files'.get? f = ifs.get? f)
    (by
      intro dP e1 e2 e3
      obtain ⟨files', g1, g2⟩ := openIndex_scan c x.hc dP (C.lastI c) (C.lgU c)
        (by rw [e1, hpfs]; rfl) (by rw [e2]; rfl)
        (fun f hf => by rw [e3]; exact x.hifs f hf) (by rw [e3]; exact x.hno _ (by omega))
        (fun f hf r hr => lgU_recOK x.hwf f r hr)
      exact ⟨files', _, g1, rfl, fun f => by rw [g2, e3]; rfl⟩)
  obtain ⟨hcf, hpfn, hplen⟩ := h2 x.hk
  subst hcf hpfn hplen
  have hctx : Ctx c U C files' :=
    ⟨x.hc, x.hk, x.hU, x.hwf, x.hn1, x.hn2, fun f hf => by rw [h5]; exact x.hifs f hf,
      fun f hf => by rw [h5]; exact x.hno f hf⟩
  refine ⟨files', ?_, h5, hctx⟩
  unfold openStoreR
  rw [hof, h1, h4]
  have e1 : scanTo c.ifs (C.lgU c) (C.lastI c) = C.tableT c := by
    unfold tableT
    exact scanTo_shape c.ifs (C.lastI c) (fun f _ => lgU_shape f)
  rw [e1]
  unfold openMem memU diskU
  simp only [x.hk, hpfs]
  rfl

/-! ### the main results, lemma level -/

/-- everything at once: the upgrading open succeeds with an explicit state; that state and the state a
    later `openStoreR` of the directory loads satisfy the invariants of C01/C02/C07 for `C.spec` -/
theorem upgrade_ctx (hc : c.Legal) (hk : c.kind = .mh) (hwf : LegacyWF c C) (ops : List SOp)
    (hkeys : KeysOK .mh (C.keyOps ++ ops))
    (hn1 : C.recs.length < 1073741824) (hn2 : C.gens.length < 1073741824) :
    ∃ ifs files', upgradeOpen c C.dir [] = some (C.diskU c ifs, C.memU c ifs) ∧
      openStoreR c (C.diskU c ifs) = (C.diskU c files', .ok (C.memU c files')) ∧
      (∀ f, files'.get? f = ifs.get? f) ∧
      Ctx c (digestsOf .mh (C.keyOps ++ ops)) C ifs ∧ Ctx c (digestsOf .mh (C.keyOps ++ ops)) C files' := by
  have hU : Univ .mh (digestsOf .mh (C.keyOps ++ ops)) := univ_of_keysOK hkeys (keysExact_all .mh _)
  have hwfU := wfU_of_wf hwf ops
  obtain ⟨ifs, h1, h2, h3⟩ := upgradeOpen_legacy hc hk hwfU hn1 hn2
  have x : Ctx c (digestsOf .mh (C.keyOps ++ ops)) C ifs := ⟨hc, hk, hU, hwfU, hn1, hn2, h2, h3⟩
  obtain ⟨files', g1, g2, g3⟩ := reopen_U x
  exact ⟨ifs, files', h1, g1, g2, x, g3⟩

theorem run_U (x : Ctx c U C ifs) (ops : List SOp) (ha : ∀ op ∈ ops, op.isC02 = true)
    (hk' : ∀ op ∈ ops, ∀ k, op.keyOf = some k → ∀ dig, keyClass .mh k = .ok dig → (k, dig) ∈ U)
    (hn : C.recs.length + C.gens.length + 1 + ops.length < 1073741824)
    (hB : specW C.spec + (ops.map SOp.bytes).sum < two31) :
    (runS (C.stateU c ifs) ops).2 = (specRun .mh c.imm C.spec ops).2 := by
  have hU : Univ c.kind U := by rw [x.hk]; exact x.hU
  have := (run_ok2 x.hc hU ops (C.stateU c ifs) C.spec _ _ (inv_U x) (xinv_U x) ha
    (by rw [x.hk]; exact hk') hn hB).1
  rw [x.hk] at this
  exact this

theorem flushed_U : storeFlush (C.memU c ifs) (C.diskU c ifs) [] = some (C.memU c ifs, C.diskU c ifs) := rfl

theorem fsck_U (x : Ctx c U C ifs) : fsck .mh (C.diskU c ifs) (C.memU c ifs).buckets = [] := by
  have := (cinv_U x).ok
  rw [x.hk] at this
  exact fsck_of_diskOK this

theorem fsck_run_U (x : Ctx c U C ifs) (ops : List SOp) (ha : ∀ op ∈ ops, op.isC02 = true)
    (hk' : ∀ op ∈ ops, ∀ k, op.keyOf = some k → ∀ dig, keyClass .mh k = .ok dig → (k, dig) ∈ U)
    (hn : C.recs.length + C.gens.length + 1 + ops.length < 1073741824)
    (hB : specW C.spec + (ops.map SOp.bytes).sum < two31) :
    fsck .mh (runS (C.stateU c ifs) ops).1.d (runS (C.stateU c ifs) ops).1.m.buckets = [] := by
  have hU : Univ c.kind U := by rw [x.hk]; exact x.hU
  have := (run_c07 x.hc hU ops (C.stateU c ifs) C.spec _ _ (cinv_U x) ha
    (by rw [x.hk]; exact hk') hn hB).ok
  rw [x.hk] at this
  exact fsck_of_diskOK this

end LegacyC

end Sth
