/-
C05 (pools layer) — L5: the pools of the multihash primary (PART 2 of Sth/Model/ConcPools.lean, `namespace Pri`).

Same two pools, same flushLock discipline, but the shape differs from the index in two ways: (1) there is no table and
no publish section — the LOCATION handed out by Put is the position the record will have in the file, so the flush
must append the pools in allocation order and nothing may be lost or duplicated (`Clean`/`Dirty` layout invariant);
(2) a location is written once: the views are write-once registers.  `PInv` is the invariant of the correct protocol,
`view_sec` the effect of every section on every view, `pinv_run`/`view_stable` the run-level facts.
-/
import Sth.Model.ConcPools

namespace Sth.ConcPools.Pri

variable {R : Type}

/-! ### threads of `setThread` -/

theorem setThread_threads_get {g : State R} {i j : Nat} {t' u : Thread R}
    (h : (setThread g i t').threads[j]? = some u) :
    (j = i ∧ u = t') ∨ (j ≠ i ∧ g.threads[j]? = some u) := by
  simp only [setThread, List.getElem?_set] at h
  by_cases hij : i = j
  · subst hij
    simp only [if_true] at h
    split at h
    · left; exact ⟨rfl, by simpa using h.symm⟩
    · simp at h
  · simp only [hij, if_false] at h
    right; exact ⟨fun e => hij e.symm, h⟩

theorem lt_of_get {α} {l : List α} {i : Nat} {a : α} (h : l[i]? = some a) : i < l.length := by
  rcases Nat.lt_or_ge i l.length with h' | h'
  · exact h'
  · rw [List.getElem?_eq_none h'] at h; simp at h

theorem setThread_threads_self {g : State R} {i : Nat} {t t' : Thread R} (h : g.threads[i]? = some t) :
    (setThread g i t').threads[i]? = some t' := by
  simp [setThread, lt_of_get h]

theorem setThread_threads_ne {g : State R} {i j : Nat} {t' : Thread R} (h : j ≠ i) :
    (setThread g i t').threads[j]? = g.threads[j]? := by
  simp only [setThread, List.getElem?_set]
  rw [if_neg (fun e => h e.symm)]

theorem view_setThread (g : State R) (i : Nat) (t' : Thread R) : view (setThread g i t') = view g := rfl

/-! ### the sections of the correct protocol -/

inductive SecC (s : State R) (i : Nat) (t : Thread R) : State R → Prop
  | put (r : R) (rest : List (Op R)) (hpc : t.pc = .idle) (hp : t.prog = .put r :: rest) :
      SecC s i t (setThread { s with next := { s.next with blocks := s.next.blocks ++ [r] }, recPos := s.recPos + 1 } i
        (ret t (.loc s.recPos)))
  | getHit (l : Nat) (rest : List (Op R)) (r : R) (hpc : t.pc = .idle) (hp : t.prog = .get l :: rest)
      (hc : (s.next.get l).or (s.cur.get l) = some r) :
      SecC s i t (setThread s i (ret t (.got (some r))))
  | getMiss (l : Nat) (rest : List (Op R)) (hpc : t.pc = .idle) (hp : t.prog = .get l :: rest)
      (hc : (s.next.get l).or (s.cur.get l) = none) (hl : l < s.recPos) :
      SecC s i t (setThread s i { t with pc := .getChecked l })
  | getOOB (l : Nat) (rest : List (Op R)) (hpc : t.pc = .idle) (hp : t.prog = .get l :: rest)
      (hc : (s.next.get l).or (s.cur.get l) = none) (hl : ¬ l < s.recPos) :
      SecC s i t (setThread s i (ret t .outOfBounds))
  | flushEmpty (rest : List (Op R)) (hpc : t.pc = .idle) (hp : t.prog = .flush :: rest)
      (hl : s.flushLock = none) (he : s.next.blocks.isEmpty = true) :
      SecC s i t (setThread s i (ret t .flushed))
  | flushSwap (rest : List (Op R)) (hpc : t.pc = .idle) (hp : t.prog = .flush :: rest)
      (hl : s.flushLock = none) (he : s.next.blocks.isEmpty = false) :
      SecC s i t (setThread { s with cur := s.next, next := { base := s.recPos }, flushLock := some i } i
        { t with pc := .flSwapped })
  | getDone (l : Nat) (hpc : t.pc = .getChecked l) :
      SecC s i t (setThread s i (ret t (.got s.file[l]?)))
  | append (hpc : t.pc = .flSwapped) :
      SecC s i t (setThread { s with file := s.file ++ s.cur.blocks } i { t with pc := .flWritten })
  | release (hpc : t.pc = .flWritten) :
      SecC s i t (setThread { s with flushLock := none } i (ret t .flushed))

theorem step_secC {s s' : State R} {i : Nat} (h1 : s.lockAfterSwap = false) (h2 : s.skipPools = false)
    (h : step s i = some s') : ∃ t, s.threads[i]? = some t ∧ SecC s i t s' := by
  unfold step at h
  cases ht : s.threads[i]? with
  | none => simp [ht] at h
  | some t =>
    refine ⟨t, rfl, ?_⟩
    simp only [ht] at h
    cases hpc : t.pc with
    | idle =>
      simp only [hpc] at h
      cases hp : t.prog with
      | nil => simp [hp] at h
      | cons op rest =>
        cases op with
        | put r => simp only [hp, Option.some.injEq] at h; subst h; exact .put r rest hpc hp
        | get l =>
          simp only [hp] at h
          rw [if_neg (by simp [h2])] at h
          cases hc : (s.next.get l).or (s.cur.get l) with
          | some r => simp only [hc, Option.some.injEq] at h; subst h; exact .getHit l rest r hpc hp hc
          | none =>
            simp only [hc] at h
            by_cases hl : l < s.recPos
            · simp only [hl, if_true, Option.some.injEq] at h; subst h; rw [← hp]; exact .getMiss l rest hpc hp hc hl
            · simp only [hl, if_false, Option.some.injEq] at h; subst h; exact .getOOB l rest hpc hp hc hl
        | flush =>
          simp only [hp] at h
          rw [if_neg (by simp [h1])] at h
          cases hl : s.flushLock with
          | some j => simp [hl] at h
          | none =>
            simp only [hl] at h
            by_cases he : s.next.blocks.isEmpty = true
            · simp only [he, if_true, Option.some.injEq] at h; subst h; exact .flushEmpty rest hpc hp hl he
            · have he' : s.next.blocks.isEmpty = false := by simpa using he
              simp only [he', Bool.false_eq_true, if_false, Option.some.injEq] at h
              subst h; rw [← hp]; exact .flushSwap rest hpc hp hl he'
    | getChecked l => simp only [hpc, Option.some.injEq] at h; subst h; exact .getDone l hpc
    | flSwapped =>
      simp only [hpc] at h
      rw [if_neg (by simp [h1])] at h
      simp only [Option.some.injEq] at h; subst h; exact .append hpc
    | flWritten => simp only [hpc, Option.some.injEq] at h; subst h; exact .release hpc

/-! ### the layout invariant -/

/-- curPool is on file: the file ends where nextPool begins and holds curPool's records at curPool's locations -/
def Clean (s : State R) : Prop :=
  s.file.length = s.next.base ∧ s.cur.base + s.cur.blocks.length ≤ s.file.length ∧
    ∀ j, j < s.cur.blocks.length → s.file[s.cur.base + j]? = s.cur.blocks[j]?

/-- curPool is swapped and not yet written: it begins where the file ends and ends where nextPool begins -/
def Dirty (s : State R) : Prop :=
  s.file.length = s.cur.base ∧ s.cur.base + s.cur.blocks.length = s.next.base

def Pc.flushing : Pc R → Bool
  | .flSwapped => true
  | .flWritten => true
  | _ => false

def TInv (s : State R) (i : Nat) (t : Thread R) : Prop :=
  match t.pc with
  | .idle => True
  | .getChecked l => l < s.file.length
  | .flSwapped => s.flushLock = some i ∧ Dirty s
  | .flWritten => s.flushLock = some i ∧ Clean s

structure PInv (s : State R) : Prop where
  fl1 : s.lockAfterSwap = false
  fl2 : s.skipPools = false
  nb : s.next.base + s.next.blocks.length = s.recPos
  free : s.flushLock = none → Clean s
  lockHolder : ∀ i, s.flushLock = some i → ∃ t, s.threads[i]? = some t ∧ t.pc.flushing = true
  thr : ∀ (i : Nat) (t : Thread R), s.threads[i]? = some t → TInv s i t

/-- the layout, whoever holds the lock -/
theorem PInv.layout {s : State R} (h : PInv s) : Clean s ∨ Dirty s := by
  cases hl : s.flushLock with
  | none => exact Or.inl (h.free hl)
  | some i =>
    obtain ⟨t, ht, hf⟩ := h.lockHolder i hl
    have hT := h.thr i t ht
    unfold TInv at hT
    split at hT
    · rename_i hpc; simp [hpc, Pc.flushing] at hf
    · rename_i hpc; simp [hpc, Pc.flushing] at hf
    · exact Or.inr hT.2
    · exact Or.inl hT.2

theorem getElem?_isSome_iff {α} {l : List α} {n : Nat} : l[n]?.isSome = true ↔ n < l.length := by
  rcases Nat.lt_or_ge n l.length with h | h
  · simp [h]
  · rw [List.getElem?_eq_none h]; simp; omega

theorem Pool.get_some_iff {p : Pool R} {l : Nat} : (p.get l).isSome ↔ p.base ≤ l ∧ l < p.base + p.blocks.length := by
  unfold Pool.get
  split
  · rename_i h
    rw [getElem?_isSome_iff]
    constructor
    · intro h'; exact ⟨h, by omega⟩
    · intro h'; omega
  · rename_i h; simp; intro h'; omega

theorem Pool.get_none_iff {p : Pool R} {l : Nat} : p.get l = none ↔ ¬ (p.base ≤ l ∧ l < p.base + p.blocks.length) := by
  rw [← Pool.get_some_iff]; cases p.get l <;> simp

/-- under `Clean`, what curPool holds is what the file holds -/
theorem Clean.cur_eq_file {s : State R} (h : Clean s) {l : Nat} {r : R} (hc : s.cur.get l = some r) :
    s.file[l]? = some r := by
  have hs : (s.cur.get l).isSome := by simp [hc]
  rw [Pool.get_some_iff] at hs
  have := h.2.2 (l - s.cur.base) (by omega)
  have e : s.cur.base + (l - s.cur.base) = l := by omega
  rw [e] at this
  rw [this]
  unfold Pool.get at hc
  rw [if_pos hs.1] at hc; exact hc

/-- ALLOCATED ⇔ VISIBLE: a location has a view exactly when Put has handed it out -/
theorem view_isSome_iff {s : State R} (h : PInv s) (l : Nat) : (view s l).isSome ↔ l < s.recPos := by
  have hnb := h.nb
  unfold view
  simp only [Option.isSome_or, Bool.or_eq_true, Pool.get_some_iff, getElem?_isSome_iff]
  rcases h.layout with hc | hd
  · obtain ⟨h1, h2, _⟩ := hc; omega
  · obtain ⟨h1, h2⟩ := hd; omega

theorem TInv.lock_of_flushing {s : State R} {i : Nat} {t : Thread R} (h : TInv s i t)
    (hf : t.pc.flushing = true) : s.flushLock = some i := by
  unfold TInv at h
  split at h
  · rename_i hpc; simp [hpc, Pc.flushing] at hf
  · rename_i hpc; simp [hpc, Pc.flushing] at hf
  · exact h.1
  · exact h.1

theorem TInv.of_not_flushing {s g : State R} {j : Nat} {u : Thread R} (h : TInv s j u)
    (hf : u.pc.flushing = false) (hfile : s.file.length ≤ g.file.length) : TInv g j u := by
  unfold TInv at h ⊢
  split
  · trivial
  · rename_i hpc; simp only [hpc] at h; omega
  · rename_i hpc; simp [hpc, Pc.flushing] at hf
  · rename_i hpc; simp [hpc, Pc.flushing] at hf

/-- a put changes nothing the layout of a flushing thread mentions, except that nextPool grows -/
theorem TInv.put {s : State R} {j : Nat} {u : Thread R} (h : TInv s j u) (r : R) :
    TInv ({ s with next := { s.next with blocks := s.next.blocks ++ [r] }, recPos := s.recPos + 1 } : State R) j u := by
  unfold TInv at h ⊢
  split
  · trivial
  · rename_i hpc; simp only [hpc] at h; exact h
  · rename_i hpc; simp only [hpc] at h; exact h
  · rename_i hpc; simp only [hpc] at h; exact h

theorem PInv.build {s g : State R} {i : Nat} {t t' : Thread R} (ht : s.threads[i]? = some t)
    (hthr : g.threads = s.threads) (h1 : g.lockAfterSwap = false) (h2 : g.skipPools = false)
    (hnb : g.next.base + g.next.blocks.length = g.recPos)
    (hfree : g.flushLock = none → Clean g)
    (hlock : ∀ k, g.flushLock = some k → (k = i ∧ t'.pc.flushing = true) ∨
      (k ≠ i ∧ ∃ u, s.threads[k]? = some u ∧ u.pc.flushing = true))
    (hown : TInv g i t')
    (hothers : ∀ (j : Nat) (u : Thread R), j ≠ i → s.threads[j]? = some u → TInv g j u) :
    PInv (setThread g i t') := by
  refine ⟨h1, h2, hnb, hfree, ?_, ?_⟩
  · intro k hk
    rcases hlock k hk with ⟨rfl, hf⟩ | ⟨hki, u, hu, hf⟩
    · exact ⟨t', setThread_threads_self (t := t) (by rw [hthr]; exact ht), hf⟩
    · exact ⟨u, by rw [setThread_threads_ne hki, hthr]; exact hu, hf⟩
  · intro j u hu
    rcases setThread_threads_get hu with ⟨rfl, rfl⟩ | ⟨hji, hu⟩
    · exact hown
    · rw [hthr] at hu; exact hothers j u hji hu

/-- `PInv` is preserved by every section of the correct protocol -/
theorem pinv_sec {s s' : State R} {i : Nat} {t : Thread R} (hs : PInv s) (ht : s.threads[i]? = some t)
    (h : SecC s i t s') : PInv s' := by
  have hT := hs.thr i t ht
  have hlk : ∀ k, s.flushLock = some k → t.pc.flushing = false →
      (k = i ∧ False) ∨ (k ≠ i ∧ ∃ u, s.threads[k]? = some u ∧ u.pc.flushing = true) := by
    intro k hk hnf
    by_cases hki : k = i
    · subst hki
      obtain ⟨t1, ht1, hf⟩ := hs.lockHolder k hk
      rw [ht] at ht1; cases ht1; rw [hnf] at hf; cases hf
    · exact Or.inr ⟨hki, hs.lockHolder k hk⟩
  have hnof : (s.flushLock = none ∨ s.flushLock = some i) → ∀ (j : Nat) (u : Thread R), j ≠ i →
      s.threads[j]? = some u → u.pc.flushing = false := by
    intro hl j u hji hu
    cases hf : u.pc.flushing with
    | false => rfl
    | true =>
      have := (hs.thr j u hu).lock_of_flushing hf
      rcases hl with hl | hl <;> rw [hl] at this <;> simp at this
      exact absurd this.symm hji
  have same : ∀ (t' : Thread R), t.pc.flushing = false → TInv s i t' → PInv (setThread s i t') := by
    intro t' hnf hown
    refine PInv.build ht rfl hs.fl1 hs.fl2 hs.nb hs.free ?_ hown (fun j u _ hu => hs.thr j u hu)
    intro k hk
    rcases hlk k hk hnf with ⟨_, hF⟩ | h
    · exact absurd hF id
    · exact Or.inr h
  cases h with
  | put r rest hpc hp =>
    refine PInv.build ht rfl hs.fl1 hs.fl2 ?_ ?_ ?_ (by simp [TInv, ret]) (fun j u _ hu => (hs.thr j u hu).put r)
    · have := hs.nb; simp only [List.length_append, List.length_cons, List.length_nil]; omega
    · intro hl; exact hs.free hl
    · intro k hk
      rcases hlk k hk (by simp [hpc, Pc.flushing]) with ⟨_, hF⟩ | h
      · exact absurd hF id
      · exact Or.inr h
  | getHit l rest r hpc hp hc => exact same _ (by simp [hpc, Pc.flushing]) (by simp [TInv, ret])
  | getMiss l rest hpc hp hc hl =>
    refine same _ (by simp [hpc, Pc.flushing]) ?_
    simp only [TInv]
    -- not cached and below recPos: the location is on file
    rw [Option.or_eq_none_iff] at hc
    have h1 := Pool.get_none_iff.1 hc.1
    have h2 := Pool.get_none_iff.1 hc.2
    have hnb := hs.nb
    rcases hs.layout with hcl | hd
    · obtain ⟨a, b, _⟩ := hcl; omega
    · obtain ⟨a, b⟩ := hd; omega
  | getOOB l rest hpc hp hc hl => exact same _ (by simp [hpc, Pc.flushing]) (by simp [TInv, ret])
  | flushEmpty rest hpc hp hl he => exact same _ (by simp [hpc, Pc.flushing]) (by simp [TInv, ret])
  | flushSwap rest hpc hp hl he =>
    have hcl := hs.free hl
    have hnb := hs.nb
    refine PInv.build ht rfl hs.fl1 hs.fl2 (by simp) (by intro h; cases h) ?_ ?_ ?_
    · intro k hk; simp only [Option.some.injEq] at hk; exact Or.inl ⟨hk.symm, rfl⟩
    · simp only [TInv]
      refine ⟨trivial, ?_, ?_⟩
      · exact hcl.1
      · exact hnb
    · intro j u hji hu
      exact (hs.thr j u hu).of_not_flushing (hnof (Or.inl hl) j u hji hu) (Nat.le_refl _)
  | getDone l hpc => exact same _ (by simp [hpc, Pc.flushing]) (by simp [TInv, ret])
  | append hpc =>
    simp only [TInv, hpc] at hT
    obtain ⟨hlock, hd1, hd2⟩ := hT
    refine PInv.build ht rfl hs.fl1 hs.fl2 hs.nb ?_ ?_ ?_ ?_
    · intro h; rw [hlock] at h; cases h
    · intro k hk
      have : k = i := by rw [hlock] at hk; simpa using hk.symm
      exact Or.inl ⟨this, rfl⟩
    · simp only [TInv]
      refine ⟨hlock, ?_, ?_, ?_⟩
      · simp only [List.length_append]; omega
      · simp only [List.length_append]; omega
      · intro j _
        show (s.file ++ s.cur.blocks)[s.cur.base + j]? = s.cur.blocks[j]?
        rw [List.getElem?_append_right (by omega)]
        congr 1; omega
    · intro j u hji hu
      exact (hs.thr j u hu).of_not_flushing (hnof (Or.inr hlock) j u hji hu)
        (by simp only [List.length_append]; omega)
  | release hpc =>
    simp only [TInv, hpc] at hT
    refine PInv.build ht rfl hs.fl1 hs.fl2 hs.nb (fun _ => hT.2) ?_ (by simp [TInv, ret]) ?_
    · intro k hk; cases hk
    · intro j u hji hu
      exact (hs.thr j u hu).of_not_flushing (hnof (Or.inr hT.1) j u hji hu) (Nat.le_refl _)

/-! ### what a section does to the views -/

theorem Pool.get_append_ne {p : Pool R} {l : Nat} (r : R) (h : l ≠ p.base + p.blocks.length) :
    ({ p with blocks := p.blocks ++ [r] } : Pool R).get l = p.get l := by
  unfold Pool.get
  simp only []
  by_cases hb : p.base ≤ l
  · rw [if_pos hb, if_pos hb]
    rcases Nat.lt_or_ge (l - p.base) p.blocks.length with h' | h'
    · rw [List.getElem?_append_left h']
    · have h2 : (p.blocks ++ [r]).length ≤ l - p.base := by
        simp only [List.length_append, List.length_cons, List.length_nil]; omega
      rw [List.getElem?_eq_none h', List.getElem?_eq_none h2]
  · rw [if_neg hb, if_neg hb]

theorem Pool.get_append_eq {p : Pool R} (r : R) :
    ({ p with blocks := p.blocks ++ [r] } : Pool R).get (p.base + p.blocks.length) = some r := by
  unfold Pool.get
  simp only [Nat.le_add_right, if_true, Nat.add_sub_cancel_left]
  rw [List.getElem?_append_right (Nat.le_refl _)]; simp

theorem Pool.get_empty (b l : Nat) : ({ base := b } : Pool R).get l = none := by
  unfold Pool.get; split <;> simp

/-- WRITE-ONCE REGISTERS.  In the correct protocol a Put section gives the fresh location `recPos` its record and
    changes no other view; every other section — the three sections of a flush included — changes no view. -/
theorem view_sec {s s' : State R} {i : Nat} {t : Thread R} (hs : PInv s) (ht : s.threads[i]? = some t)
    (h : SecC s i t s') (l : Nat) :
    view s' l =
      match t.pc, t.prog with
      | .idle, .put r :: _ => if l = s.recPos then some r else view s l
      | _, _ => view s l := by
  have hT := hs.thr i t ht
  cases h with
  | put r rest hpc hp =>
    simp only [hpc, hp]
    rw [view_setThread]
    unfold view
    simp only []
    by_cases hl : l = s.recPos
    · subst hl
      rw [if_pos rfl, ← hs.nb, Pool.get_append_eq]; simp
    · rw [if_neg hl, Pool.get_append_ne r (by rw [hs.nb]; exact hl)]
  | getHit l' rest r hpc hp hc => simp only [hpc, hp]; rfl
  | getMiss l' rest hpc hp hc hl => simp only [hpc, hp]; rfl
  | getOOB l' rest hpc hp hc hl => simp only [hpc, hp]; rfl
  | flushEmpty rest hpc hp hl he => simp only [hpc, hp]; rfl
  | flushSwap rest hpc hp hl he =>
    simp only [hpc, hp]
    rw [view_setThread]
    have hcl := hs.free hl
    unfold view
    simp only [Pool.get_empty, Option.none_or]
    cases hn : s.next.get l with
    | some r => simp
    | none =>
      cases hc : s.cur.get l with
      | some r => simp [hcl.cur_eq_file hc]
      | none => simp
  | getDone l' hpc => simp only [hpc]; rfl
  | append hpc =>
    simp only [hpc]
    simp only [TInv, hpc] at hT
    obtain ⟨_, hd1, hd2⟩ := hT
    rw [view_setThread]
    unfold view
    simp only []
    cases hn : s.next.get l with
    | some r => simp
    | none =>
      cases hc : s.cur.get l with
      | some r => simp
      | none =>
        simp only [Option.none_or]
        have := Pool.get_none_iff.1 hc
        rcases Nat.lt_or_ge l s.file.length with h' | h'
        · rw [List.getElem?_append_left h']
        · rw [List.getElem?_eq_none h', List.getElem?_eq_none (by simp only [List.length_append]; omega)]
  | release hpc => simp only [hpc]; rfl

theorem recPos_sec {s s' : State R} {i : Nat} {t : Thread R} (h : SecC s i t s') : s.recPos ≤ s'.recPos := by
  cases h with
  | put r rest hpc hp => exact Nat.le_succ _
  | _ => exact Nat.le_refl _

/-! ### runs -/

def stepD (s : State R) (i : Nat) : State R := (step s i).getD s

theorem run_nil (s : State R) : run s [] = s := rfl
theorem run_cons (s : State R) (i : Nat) (sched : List Nat) : run s (i :: sched) = run (stepD s i) sched := rfl
theorem run_append (s : State R) (a b : List Nat) : run s (a ++ b) = run (run s a) b := by
  simp [run, List.foldl_append]

theorem pinv_stepD {s : State R} (hs : PInv s) (i : Nat) : PInv (stepD s i) := by
  unfold stepD
  cases h : step s i with
  | none => exact hs
  | some s' =>
    obtain ⟨t, ht, hsec⟩ := step_secC hs.fl1 hs.fl2 h
    exact pinv_sec hs ht hsec

theorem pinv_run {s : State R} (hs : PInv s) (sched : List Nat) : PInv (run s sched) := by
  induction sched generalizing s with
  | nil => exact hs
  | cons i r ih => rw [run_cons]; exact ih (pinv_stepD hs i)

theorem stable_stepD {s : State R} (hs : PInv s) (i : Nat) {l : Nat} (hl : l < s.recPos) :
    view (stepD s i) l = view s l ∧ s.recPos ≤ (stepD s i).recPos := by
  unfold stepD
  cases h : step s i with
  | none => exact ⟨rfl, Nat.le_refl _⟩
  | some s' =>
    obtain ⟨t, ht, hsec⟩ := step_secC hs.fl1 hs.fl2 h
    refine ⟨?_, recPos_sec hsec⟩
    have := view_sec hs ht hsec l
    simp only [Option.getD_some]
    rw [this]
    split
    · rw [if_neg (by omega)]
    · rfl

/-- a location that has been handed out keeps its record for ever, whatever the flushes do -/
theorem view_stable {s : State R} (hs : PInv s) (sched : List Nat) {l : Nat} (hl : l < s.recPos) :
    view (run s sched) l = view s l := by
  induction sched generalizing s with
  | nil => rfl
  | cons i r ih =>
    obtain ⟨h1, h2⟩ := stable_stepD hs i hl
    rw [run_cons, ih (pinv_stepD hs i) (by omega), h1]

/-! ### Get -/

/-- thread `j` has passed getCached for location `l` and will return `got r`, or has returned it -/
def GetSees (s : State R) (j : Nat) (o : List (Res R)) (l : Nat) (r : Option R) : Prop :=
  ∃ t, s.threads[j]? = some t ∧
    ((t.pc = .getChecked l ∧ t.out = o ∧ s.file[l]? = r ∧ l < s.file.length) ∨
     (∃ more, t.out = o ++ .got r :: more))

theorem secC_globals {s s' : State R} {i : Nat} {t : Thread R} (h : SecC s i t s') :
    (∃ x, s'.file = s.file ++ x) ∧ ∃ t', s'.threads = s.threads.set i t' ∧
      (t'.out = t.out ∨ ∃ r, t'.out = t.out ++ [r]) := by
  cases h with
  | append hpc => exact ⟨⟨_, rfl⟩, _, rfl, Or.inl rfl⟩
  | getMiss | flushSwap => exact ⟨⟨[], by simp [setThread]⟩, _, rfl, Or.inl rfl⟩
  | _ => exact ⟨⟨[], by simp [setThread]⟩, _, rfl, Or.inr ⟨_, rfl⟩⟩

theorem getSees_stepD {s : State R} (hs : PInv s) {j : Nat} {o : List (Res R)} {l : Nat} {r : Option R}
    (h : GetSees s j o l r) (i : Nat) : GetSees (stepD s i) j o l r := by
  unfold stepD
  cases hst : step s i with
  | none => exact h
  | some s' =>
    simp only [Option.getD_some]
    obtain ⟨ti, hti, hsec⟩ := step_secC hs.fl1 hs.fl2 hst
    obtain ⟨t, ht, hcase⟩ := h
    obtain ⟨⟨x, hx⟩, t', hthr, hc⟩ := secC_globals hsec
    by_cases hij : j = i
    · subst hij
      rw [ht] at hti; cases hti
      rcases hcase with ⟨hpc, hout, hr, _⟩ | ⟨more, hout⟩
      · simp only [step, ht, hpc, Option.some.injEq] at hst
        subst hst
        exact ⟨_, setThread_threads_self ht, Or.inr ⟨[], by simp [ret, hout, hr]⟩⟩
      · refine ⟨t', by rw [hthr]; simp [lt_of_get ht], Or.inr ?_⟩
        rcases hc with h2 | ⟨r', h2⟩
        · exact ⟨more, by rw [h2, hout]⟩
        · exact ⟨more ++ [r'], by rw [h2, hout]; simp⟩
    · refine ⟨t, by rw [hthr, List.getElem?_set_ne (fun e => hij e.symm)]; exact ht, ?_⟩
      rcases hcase with ⟨hpc, hout, hr, hlt⟩ | hm
      · refine Or.inl ⟨hpc, hout, by rw [hx, List.getElem?_append_left hlt]; exact hr, ?_⟩
        rw [hx, List.length_append]; omega
      · exact Or.inr hm

theorem getSees_run {s : State R} (hs : PInv s) {j : Nat} {o : List (Res R)} {l : Nat} {r : Option R}
    (h : GetSees s j o l r) (sched : List Nat) : GetSees (run s sched) j o l r := by
  induction sched generalizing s with
  | nil => exact h
  | cons i rest ih => rw [run_cons]; exact ih (pinv_stepD hs i) (getSees_stepD hs h i)

theorem view_assoc (s : State R) (l : Nat) : view s l = ((s.next.get l).or (s.cur.get l)).or s.file[l]? := by
  unfold view; rw [Option.or_assoc]

/-- the first section of a Get of an allocated location: it returns the record at once (found in a pool), or goes on
    to read it from the file, where it is -/
theorem get_first {s : State R} (hs : PInv s) {j : Nat} {t : Thread R} {l : Nat} {rest : List (Op R)}
    (ht : s.threads[j]? = some t) (hpc : t.pc = .idle) (hp : t.prog = .get l :: rest) (hl : l < s.recPos) :
    (view s l).isSome ∧ GetSees (stepD s j) j t.out l (view s l) := by
  have hsome := (view_isSome_iff hs l).2 hl
  refine ⟨hsome, ?_⟩
  cases hc : (s.next.get l).or (s.cur.get l) with
  | some r =>
    have hst : step s j = some (setThread s j (ret t (.got (some r)))) := by
      simp only [step, ht, hpc, hp]
      rw [if_neg (by simp [hs.fl2])]
      simp only [hc]
    have hv : view s l = some r := by rw [view_assoc, hc]; simp
    simp only [stepD, hst, Option.getD_some]
    exact ⟨_, setThread_threads_self ht, Or.inr ⟨[], by simp [ret, hv]⟩⟩
  | none =>
    have hst : step s j = some (setThread s j { t with pc := .getChecked l }) := by
      simp only [step, ht, hpc, hp]
      rw [if_neg (by simp [hs.fl2])]
      simp only [hc, hl, if_true]
    have hv : view s l = s.file[l]? := by rw [view_assoc, hc]; simp
    simp only [stepD, hst, Option.getD_some]
    refine ⟨_, setThread_threads_self ht, Or.inl ⟨rfl, rfl, hv.symm, ?_⟩⟩
    rw [hv] at hsome
    exact getElem?_isSome_iff.1 hsome

/-- initial states of the primary's pools -/
structure Init (s : State R) : Prop where
  inv : PInv s
  idle : ∀ t ∈ s.threads, t.pc = .idle ∧ t.out = []

theorem init_Init (progs : List (List (Op R))) : Init (init progs : State R) := by
  refine ⟨⟨rfl, rfl, rfl, ?_, ?_, ?_⟩, ?_⟩
  · intro _; exact ⟨rfl, Nat.le_refl _, fun j hj => by simp [init] at hj⟩
  · intro i h; simp [init] at h
  · intro i t ht
    simp only [init, List.getElem?_map, Option.map_eq_some_iff] at ht
    obtain ⟨p, _, rfl⟩ := ht
    simp [TInv]
  · intro t ht
    simp only [init, List.mem_map] at ht
    obtain ⟨p, _, rfl⟩ := ht
    exact ⟨rfl, rfl⟩

end Sth.ConcPools.Pri
