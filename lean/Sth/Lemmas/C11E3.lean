import Sth.Lemmas.C11E2

/-!
C11 P2 at loop level (Q3b): the two legs of the loop of Index.gc — from the start point to the current
file, then from the first file to the start point.  Core Lean only.
-/

namespace Sth.C11E

open Sth.C11

section
variable {m : Mem} {d0 : Disk} {hb hm hp : Nat}

theorem fileOf_congr {fs fs' : NMap Bytes} {f : Nat} (h : fs'.get? f = fs.get? f) :
    fileOf fs' f = fileOf fs f := by unfold fileOf; rw [h]

/-- the second leg: first file … start point -/
theorem go_leg2 (hp1 : 1 ≤ m.imax) (hN : m.ifileNum < two32) {start f : Nat}
    (hst : start < m.ifileNum) (P : Prop) (hfree : P → IdxFileFree m f) :
    ∀ (fuel n : Nat) (sf : Bool) (h : IdxHeader) (d : Disk), GI m d0 d hb hm hp → d.ihdr = some h →
      h.first ≤ n → n < start → start - n ≤ fuel → (P → (fileOf d.ifiles f).length < two31) →
      (indexGC.go m.ifileNum start fuel n sf h m d none).1 = .ok ∧
      (indexGC.go m.ifileNum start fuel n sf h m d none).2.1 = m ∧
      (n ≤ f → f < start → P →
        Released (indexGC.go m.ifileNum start fuel n sf h m d none).2.2.1.ifiles f) := by
  intro fuel
  induction fuel with
  | zero => intro n sf h d _ _ _ h2 h3 _; omega
  | succ fuel ih =>
    intro n sf h d hG hd h1 h2 h3 hlen
    obtain ⟨h', d2, sf2, e, hG2, hd2, hcase, hsame, hrel⟩ :=
      visit hp1 hN start fuel sf hG hd h1 (by omega)
    rw [e]
    unfold cont
    rw [if_neg (by omega)]
    have hfirst : h'.first ≤ n + 1 := by
      rcases hcase with ⟨a, _⟩ | ⟨_, a, _⟩ <;> omega
    by_cases hns : n + 1 = start
    · rw [if_pos hns]
      refine ⟨rfl, rfl, ?_⟩
      intro g1 g2 hP
      have : f = n := by omega
      subst this
      exact hrel (hfree hP) (hlen hP)
    · rw [if_neg hns]
      by_cases hfn : f = n
      · subst hfn
        obtain ⟨a, b, _⟩ := ih (n := f + 1) sf2 h' d2 hG2 hd2 hfirst (by omega) (by omega)
          (by
            intro hP
            rcases hrel (hfree hP) (hlen hP) with hr | hr
            · rw [fileOf_none hr]; exact Nat.zero_lt_succ _
            · rw [fileOf_some hr]; exact Nat.zero_lt_succ _)
        refine ⟨a, b, fun _ _ hP => ?_⟩
        exact (igc_go_keeps fuel (f + 1) sf2 h' m d2 none d2.ifiles rfl).1
          (hrel (hfree hP) (hlen hP))
      · obtain ⟨a, b, c⟩ := ih (n := n + 1) sf2 h' d2 hG2 hd2 hfirst (by omega) (by omega)
          (by rw [fileOf_congr (hsame f hfn)]; exact hlen)
        exact ⟨a, b, fun g1 g2 => c (by omega) g2⟩

/-- the first leg: start point … current file, then the second leg unless the first file was removed
    on the way -/
theorem go_leg1 (hp1 : 1 ≤ m.imax) (hN : m.ifileNum < two32) {start f : Nat}
    (P : Prop) (hfree : P → IdxFileFree m f) :
    ∀ (fuel n : Nat) (sf : Bool) (h : IdxHeader) (d : Disk), GI m d0 d hb hm hp → d.ihdr = some h →
      h.first ≤ n → start ≤ n → n < m.ifileNum → (sf = false → h.first ≤ start) →
      (sf = true → start ≤ h.first) → (m.ifileNum - n) + (start - h.first) + 1 ≤ fuel →
      (P → (fileOf d.ifiles f).length < two31) →
      (indexGC.go m.ifileNum start fuel n sf h m d none).1 = .ok ∧
      (indexGC.go m.ifileNum start fuel n sf h m d none).2.1 = m ∧
      ((n ≤ f ∧ f < m.ifileNum) ∨ (h.first ≤ f ∧ f < start) → P →
        Released (indexGC.go m.ifileNum start fuel n sf h m d none).2.2.1.ifiles f) := by
  intro fuel
  induction fuel with
  | zero => intro n sf h d _ _ _ _ _ _ _ h3 _; omega
  | succ fuel ih =>
    intro n sf h d hG hd h1 hsn h2 hsf1 hsf2 h3 hlen
    obtain ⟨h', d2, sf2, e, hG2, hd2, hcase, hsame, hrel⟩ :=
      visit hp1 hN start fuel sf hG hd h1 h2
    rw [e]
    unfold cont
    have hfirst : h'.first ≤ n + 1 := by
      rcases hcase with ⟨a, _⟩ | ⟨_, a, _⟩ <;> omega
    have hfge : h.first ≤ h'.first := by
      rcases hcase with ⟨a, _⟩ | ⟨_, a, _⟩ <;> omega
    have hsf1' : sf2 = false → h'.first ≤ start ∧ h'.first = h.first := by
      intro hc
      rcases hcase with ⟨a, b⟩ | ⟨_, _, b⟩
      · rw [b] at hc; rw [a]; exact ⟨hsf1 hc, rfl⟩
      · rw [b] at hc; cases hc
    have hsf2' : sf2 = true → start ≤ h'.first ∧ ¬ (h.first ≤ f ∧ f < start) := by
      intro hc
      rcases hcase with ⟨a, b⟩ | ⟨a0, a, _⟩
      · rw [b] at hc; rw [a]; have := hsf2 hc; exact ⟨this, by omega⟩
      · exact ⟨by omega, by omega⟩
    -- the file just visited
    have hlen2 : P → (fileOf d2.ifiles f).length < two31 := by
      intro hP
      by_cases hfn : f = n
      · subst hfn
        rcases hrel (hfree hP) (hlen hP) with hr | hr
        · rw [fileOf_none hr]; exact Nat.zero_lt_succ _
        · rw [fileOf_some hr]; exact Nat.zero_lt_succ _
      · rw [fileOf_congr (hsame f hfn)]; exact hlen hP
    by_cases hnl : n + 1 = m.ifileNum
    · rw [if_pos hnl]
      by_cases hs : sf2 = true
      · rw [if_pos hs]
        refine ⟨rfl, rfl, ?_⟩
        rintro (⟨g1, g2⟩ | g) hP
        · have : f = n := by omega
          subst this
          exact hrel (hfree hP) (hlen hP)
        · exact absurd g (hsf2' hs).2
      · rw [if_neg hs]
        have hs' : sf2 = false := by simpa using hs
        obtain ⟨k1, k2⟩ := hsf1' hs'
        by_cases hfs : h'.first = start
        · rw [if_pos hfs]
          refine ⟨rfl, rfl, ?_⟩
          rintro (⟨g1, g2⟩ | ⟨g1, g2⟩) hP
          · have : f = n := by omega
            subst this
            exact hrel (hfree hP) (hlen hP)
          · omega
        · rw [if_neg hfs]
          obtain ⟨a, b, c⟩ := go_leg2 hp1 hN (start := start) (f := f) (by omega) P hfree fuel h'.first
            sf2 h' d2 hG2 hd2 (Nat.le_refl _) (by omega) (by omega) hlen2
          refine ⟨a, b, ?_⟩
          rintro (⟨g1, g2⟩ | ⟨g1, g2⟩) hP
          · have : f = n := by omega
            subst this
            exact (igc_go_keeps fuel h'.first sf2 h' m d2 none d2.ifiles rfl).1
              (hrel (hfree hP) (hlen hP))
          · exact c (by omega) g2 hP
    · rw [if_neg hnl, if_neg (by omega)]
      obtain ⟨a, b, c⟩ := ih (n := n + 1) sf2 h' d2 hG2 hd2 hfirst (by omega) (by omega)
        (fun hc => (hsf1' hc).1) (fun hc => (hsf2' hc).1) (by omega) hlen2
      refine ⟨a, b, ?_⟩
      rintro (⟨g1, g2⟩ | ⟨g1, g2⟩) hP
      · by_cases hfn : f = n
        · subst hfn
          exact (igc_go_keeps fuel (f + 1) sf2 h' m d2 none d2.ifiles rfl).1
            (hrel (hfree hP) (hlen hP))
        · exact c (Or.inl ⟨by omega, g2⟩) hP
      · by_cases hs : sf2 = true
        · exact absurd ⟨g1, g2⟩ (hsf2' hs).2
        · have hs' : sf2 = false := by simpa using hs
          exact c (Or.inr ⟨by have := (hsf1' hs').2; omega, g2⟩) hP

end

end Sth.C11E
