/-
C07 with primary GC — what a primary GC cycle leaves alone.

(1) Shapes: the hand-over pass (`freelistPass`: ToGC, primary flush, deleteRecords) touches neither the
    index files, the index header, the bucket table nor the index pools, and leaves the primary's write
    pool empty; a relocation (`relocate`) changes only the memory state; the loop over the closed files
    (`primaryGC.go`) touches neither the index side of the disk nor the two freelist files.
(2) The loop over the closed files keeps EVERY record span of the primary log in place (`pgcGo_log`):
    reaping merges deleted spans and cuts a deleted tail off, a file is unlinked only when it holds no
    record — whatever the relocations do to the memory state.  (C04 shows this for the spans current
    index entries point at; the consistency check reads the ON-DISK index, which still names the old
    location of a relocated record.)
No invariant of the store is used here beyond the span log of the primary files (`PriLog`).
Core Lean only.
-/
import Sth.Lemmas.C04PGC3

namespace Sth

/-! ### shapes -/

theorem pstepMh_shape {m m' : Mem} {d d' : Disk} {r : PRec} (h : pstepMh (m, d) r = some (m', d')) :
    ∃ fn len files, m' = { m with pfileNum := fn, plength := len } ∧ d' = { d with pfiles := files } := by
  unfold pstepMh at h
  simp only at h
  split at h
  · cases h
  · simp only [Option.some.injEq, Prod.mk.injEq] at h
    obtain ⟨rfl, rfl⟩ := h
    exact ⟨_, _, _, rfl, rfl⟩

theorem pfold_shape : ∀ (recs : List PRec) (m m' : Mem) (d d' : Disk),
    recs.foldlM pstepMh (m, d) = some (m', d') →
    ∃ fn len files, m' = { m with pfileNum := fn, plength := len } ∧ d' = { d with pfiles := files }
  | [], m, m', d, d', h => by
    simp only [List.foldlM, pure, Option.some.injEq, Prod.mk.injEq] at h
    obtain ⟨rfl, rfl⟩ := h
    exact ⟨m.pfileNum, m.plength, d.pfiles, rfl, rfl⟩
  | r :: recs, m, m', d, d', h => by
    rw [List.foldlM_cons] at h
    cases hs : pstepMh (m, d) r with
    | none => rw [hs] at h; cases h
    | some md =>
      obtain ⟨m1, d1⟩ := md
      rw [hs] at h
      obtain ⟨fn1, len1, files1, rfl, rfl⟩ := pstepMh_shape hs
      obtain ⟨fn, len, files, e1, e2⟩ := pfold_shape recs _ m' _ d' h
      exact ⟨fn, len, files, e1, e2⟩

/-- the primary flush of a multihash store: only the primary's pools, write position and files change,
    and the write pool is empty afterwards -/
theorem priFlush_shape_mh {m m' : Mem} {d d' : Disk} (hk : m.kind = .mh)
    (h : priFlush m d = some (m', d')) :
    ∃ pc fn len files, m' = { m with pcur := pc, pnext := [], pfileNum := fn, plength := len } ∧
      d' = { d with pfiles := files } := by
  by_cases hne : m.pnext.isEmpty = true
  · have hnil : m.pnext = [] := List.isEmpty_iff.mp hne
    rw [priFlush_empty hne] at h
    simp only [Option.some.injEq, Prod.mk.injEq] at h
    obtain ⟨rfl, rfl⟩ := h
    refine ⟨m.pcur, m.pfileNum, m.plength, d.pfiles, ?_, rfl⟩
    cases m; simp_all
  · have hne' : m.pnext.isEmpty = false := by simpa using hne
    rw [priFlush_mh_eq hk hne'] at h
    obtain ⟨fn, len, files, e1, e2⟩ := pfold_shape _ _ _ _ _ h
    exact ⟨m.pnext, fn, len, files, e1, e2⟩

theorem toGC_shape (m : Mem) (d : Disk) :
    ∃ fl fr g, toGC m d = ({ m with flpool := fl }, { d with free := fr, freeGc := g }) := by
  unfold toGC
  cases hg : d.freeGc with
  | some x => exact ⟨m.flpool, d.free, d.freeGc, by cases d; simp_all⟩
  | none =>
    simp only
    obtain ⟨fl, fr, e⟩ := flFlush_shape m d
    rw [e]
    exact ⟨fl, some [], some (fr.getD []), rfl⟩

/-- the hand-over pass: unless the flush fails, only the freelist pool, the primary's pools and write
    position, the primary files and the two freelist files change, and the write pool is empty -/
theorem freelistPass_shape {m : Mem} {d : Disk} (hk : m.kind = .mh) (budget : Budget)
    (hne : (freelistPass m d budget).1 ≠ .flushErr) :
    ∃ fl pc fn len files fr g,
      (freelistPass m d budget).2.1 =
        { m with flpool := fl, pcur := pc, pnext := [], pfileNum := fn, plength := len } ∧
      (freelistPass m d budget).2.2.1 = { d with pfiles := files, free := fr, freeGc := g } := by
  obtain ⟨fl, fr, g, e0⟩ := toGC_shape m d
  unfold freelistPass at hne ⊢
  rw [e0] at hne ⊢
  simp only at hne ⊢
  cases hp : priFlush { m with flpool := fl } { d with free := fr, freeGc := g } with
  | none => rw [hp] at hne; simp at hne
  | some md =>
    obtain ⟨m1, d1⟩ := md
    obtain ⟨pc, fn, len, files, rfl, rfl⟩ := priFlush_shape_mh (m := { m with flpool := fl }) hk hp
    simp only
    repeat' split
    all_goals exact ⟨fl, pc, fn, len, _, _, _, rfl, rfl⟩

/-- what a relocation (and the loop over the files) leaves alone in the memory state -/
structure GoSame (m m' : Mem) : Prop where
  kind : m'.kind = m.kind
  bits : m'.bits = m.bits
  imax : m'.imax = m.imax
  buckets : m'.buckets = m.buckets
  pmax : m'.pmax = m.pmax
  pfileNum : m'.pfileNum = m.pfileNum
  plength : m'.plength = m.plength

theorem GoSame.refl (m : Mem) : GoSame m m := ⟨rfl, rfl, rfl, rfl, rfl, rfl, rfl⟩

theorem GoSame.trans {a b c : Mem} (h1 : GoSame a b) (h2 : GoSame b c) : GoSame a c :=
  ⟨h2.kind.trans h1.kind, h2.bits.trans h1.bits, h2.imax.trans h1.imax, h2.buckets.trans h1.buckets,
    h2.pmax.trans h1.pmax, h2.pfileNum.trans h1.pfileNum, h2.plength.trans h1.plength⟩

theorem putMem_goSame (m : Mem) (key val : Bytes) : GoSame m (putMem m key val) :=
  ⟨putMem_kind _ _ _, putMem_bits _ _ _, putMem_imax _ _ _, putMem_buckets _ _ _, putMem_pmax _ _ _,
    putMem_pfileNum _ _ _, putMem_plength _ _ _⟩

/-- a relocation changes the allocator, the two write pools and the freelist pool only -/
theorem relocate_fields {m m' : Mem} {d : Disk} {fnum at_ bs : Nat} {file : Bytes}
    (h : relocate m d fnum file at_ bs = some m') : GoSame m m' ∧ m'.visited = m.visited := by
  unfold relocate at h
  cases h1 : readU32 file at_ with
  | none => simp [h1] at h
  | some size =>
    simp only [h1] at h
    cases h2 : readAt file (at_ + 4) size with
    | none => simp [h2] at h
    | some data =>
      simp only [h2] at h
      cases h3 : readNode .mh data with
      | none => simp [h3] at h
      | some kv =>
        obtain ⟨key, val⟩ := kv
        simp only [h3] at h
        cases h4 : indexKeyOf .mh key with
        | none => simp [h4] at h
        | some ik =>
          simp only [h4, priPut_eq, Option.some.injEq] at h
          have h0 := putMem_goSame m key val
          have v0 : (putMem m key val).visited = m.visited := by unfold putMem; split <;> rfl
          cases hrel : idxRelocate (putMem m key val) d ik
              ⟨(putMem m key val).pmax * fnum + at_, bs⟩ (nextBlk m (key.length + val.length)) with
          | ok m3 =>
            rw [hrel] at h
            simp only at h
            obtain ⟨_, _, _, _, _, _, _, _, rfl⟩ := idxRelocate_ok_inv hrel
            subst h
            exact ⟨⟨h0.kind, h0.bits, h0.imax, h0.buckets, h0.pmax, h0.pfileNum, h0.plength⟩, v0⟩
          | error e =>
            rw [hrel] at h
            simp only at h
            subst h
            exact ⟨⟨h0.kind, h0.bits, h0.imax, h0.buckets, h0.pmax, h0.pfileNum, h0.plength⟩, v0⟩

/-- what the loop over the files leaves alone on the disk -/
structure GoDisk (d d' : Disk) : Prop where
  ifiles : d'.ifiles = d.ifiles
  ihdr : d'.ihdr = d.ihdr
  snap : d'.snap = d.snap
  free : d'.free = d.free
  freeGc : d'.freeGc = d.freeGc

theorem GoDisk.refl (d : Disk) : GoDisk d d := ⟨rfl, rfl, rfl, rfl, rfl⟩

theorem GoDisk.trans {a b c : Disk} (h1 : GoDisk a b) (h2 : GoDisk b c) : GoDisk a c :=
  ⟨h2.ifiles.trans h1.ifiles, h2.ihdr.trans h1.ihdr, h2.snap.trans h1.snap, h2.free.trans h1.free,
    h2.freeGc.trans h1.freeGc⟩

/-! ### every record span survives the loop over the closed files -/

/-- all record spans of one log are record spans of another -/
def KeepAll (m : Mem) (pf : Nat) (psp : Nat → List GSpan) (m' : Mem) (pf' : Nat)
    (psp' : Nat → List GSpan) : Prop :=
  ∀ blk body, OnDisk m pf psp blk body → OnDisk m' pf' psp' blk body

/-- what reapRecords on file `nn` leaves, against the state before -/
def ReapRes (m : Mem) (d : Disk) (pf : Nat) (psp : Nat → List GSpan) (nn : Nat)
    (res : PReapOut × Mem × Disk × Nat) : Prop :=
  ∃ psp', PriLog res.2.1 res.2.2.1 pf psp' ∧ KeepAll m pf psp res.2.1 pf psp' ∧
    GoSame m res.2.1 ∧ GoDisk d res.2.2.1 ∧ res.2.2.1.phdr = d.phdr ∧
    (res.1 = .dead → liveAt 0 (psp' nn) = [])

section
variable {m : Mem} {d : Disk} {pf : Nat} {psp : Nat → List GSpan}

/-- reapRecords on a closed file, on the span log alone -/
theorem reapRecords_log (hl : PriLog m d pf psp) {nn : Nat} (h1 : pf ≤ nn) (h2 : nn < m.pfileNum)
    (lowUse : Nat) : ReapRes m d pf psp nn (reapRecords m d nn lowUse) := by
  have hfile : d.pfiles.get? nn = some (gbytes (psp nn)) := hl.files nn h1 (by omega)
  unfold reapRecords
  rw [hfile]
  simp only
  by_cases hemp : (gbytes (psp nn)).isEmpty = true
  · rw [if_pos hemp]
    have hnil : psp nn = [] := gbytes_eq_nil (List.isEmpty_iff.mp hemp)
    exact ⟨psp, hl, fun _ _ h => h, GoSame.refl m, GoDisk.refl d, rfl, fun _ => by rw [hnil]; rfl⟩
  rw [if_neg hemp]
  obtain ⟨ss', hf', hR, _, hdead⟩ := reapFile_ok (psp nn) (hl.ok nn h1 (by omega))
  generalize reapPriLoop ((gbytes (psp nn)).length + 2) { file := gbytes (psp nn) } = st at hf' hdead ⊢
  have hfw : (if st.freeAt > st.busyAt then
        (truncateTo st.file st.freeAt.toNat, st.freeAtSize, decide (st.freeAt = 0))
      else (st.file, 0, false)) =
      (gbytes ss', (if st.freeAt > st.busyAt then st.freeAtSize else 0),
        (if st.freeAt > st.busyAt then decide (st.freeAt = 0) else false)) := by
    by_cases hc : st.freeAt > st.busyAt
    · rw [if_pos hc] at hf'; simp only [if_pos hc, hf']
    · rw [if_neg hc] at hf'; simp only [if_neg hc, hf']
  rw [hfw]
  simp only
  obtain ⟨l1, l2, _⟩ := reap_step hl h1 h2 hR
  have hpn : (fun f => if f = nn then ss' else psp f) nn = ss' := by simp
  -- whatever the outcome and the memory state afterwards, as long as it differs by relocations only
  have hfin : ∀ (r : PReapOut) (m' : Mem) (recl : Nat), GoSame m m' →
      (r = .dead → liveAt 0 ss' = []) →
      ReapRes m d pf psp nn (r, m', { d with pfiles := d.pfiles.set nn (gbytes ss') }, recl) := by
    intro r m' recl hs hd
    exact ⟨fun f => if f = nn then ss' else psp f, l1.frame hs.pfileNum hs.pmax,
      fun blk body h => (l2 blk body h).frame hs.pfileNum hs.pmax, hs, ⟨rfl, rfl, rfl, rfl, rfl⟩, rfl,
      fun h => by show liveAt 0 ((fun f => if f = nn then ss' else psp f) nn) = []; rw [hpn]; exact hd h⟩
  by_cases hdd : (if st.freeAt > st.busyAt then decide (st.freeAt = 0) else false) = true
  · rw [if_pos hdd]
    apply hfin _ _ _ (GoSame.refl m)
    intro _
    by_cases hc : st.freeAt > st.busyAt
    · rw [if_pos hc] at hdd
      rw [hdead hc (of_decide_eq_true hdd)]; rfl
    · rw [if_neg hc] at hdd; cases hdd
  rw [if_neg hdd]
  by_cases hb1 : st.busyAt = -1
  · rw [if_pos hb1]; exact hfin _ _ _ (GoSame.refl m) (fun h => by cases h)
  rw [if_neg hb1]
  by_cases hlow : 100 * st.totalFree ≥ lowUse * (st.totalFree + st.totalBusy)
  · rw [if_pos hlow]
    cases hr1 : relocate m { d with pfiles := d.pfiles.set nn (gbytes ss') } nn (gbytes ss')
        st.busyAt.toNat st.busySize with
    | none => exact hfin _ _ _ (GoSame.refl m) (fun h => by cases h)
    | some m1 =>
      simp only
      have s1 := (relocate_fields hr1).1
      by_cases hprev : st.prevBusyAt ≥ 0
      · rw [if_pos hprev]
        cases hr2 : relocate m1 { d with pfiles := d.pfiles.set nn (gbytes ss') } nn (gbytes ss')
            st.prevBusyAt.toNat st.prevBusySize with
        | none => exact hfin _ _ _ s1 (fun h => by cases h)
        | some m2 =>
          simp only
          exact hfin _ _ _ (s1.trans (relocate_fields hr2).1) (fun h => by cases h)
      · rw [if_neg hprev]
        exact hfin _ _ _ s1 (fun h => by cases h)
  · rw [if_neg hlow]; exact hfin _ _ _ (GoSame.refl m) (fun h => by cases h)

end

/-- what the loop over the closed files leaves, against the state before -/
def GoRes (m : Mem) (d : Disk) (pf : Nat) (psp : Nat → List GSpan)
    (res : PgcRes × Mem × Disk × Budget) : Prop :=
  ∃ pf' psp', res.2.2.1.phdr = some ⟨res.2.1.pmax, pf'⟩ ∧ PriLog res.2.1 res.2.2.1 pf' psp' ∧
    KeepAll m pf psp res.2.1 pf' psp' ∧ GoSame m res.2.1 ∧ GoDisk d res.2.2.1

/-- the loop of primaryGC.gc over the closed files, on the span log alone: every record span stays in
    place, and nothing but the primary files and the primary header changes on the disk -/
theorem pgcGo_log (lowUse : Nat) :
    ∀ (fuel nn pf : Nat) (m : Mem) (d : Disk) (budget : Budget) (recl : Nat) (psp : Nat → List GSpan),
      d.phdr = some ⟨m.pmax, pf⟩ → PriLog m d pf psp → pf ≤ nn → nn ≤ m.pfileNum →
      GoRes m d pf psp (primaryGC.go lowUse fuel nn ⟨m.pmax, pf⟩ m d budget recl) := by
  intro fuel
  induction fuel with
  | zero =>
    intro nn pf m d budget recl psp hh hl _ _
    exact ⟨pf, psp, hh, hl, fun _ _ h => h, GoSame.refl m, GoDisk.refl d⟩
  | succ fuel ih =>
    intro nn pf m d budget recl psp hh hl h1 h2
    unfold primaryGC.go
    by_cases he : nn = m.pfileNum
    · rw [if_pos he]
      exact ⟨pf, psp, hh, hl, fun _ _ h => h, GoSame.refl m, GoDisk.refl d⟩
    rw [if_neg he]
    by_cases hv : m.visited.contains nn = true
    · rw [if_pos hv]
      exact ih (nn + 1) pf m d budget recl psp hh hl (by omega) (by omega)
    rw [if_neg hv]
    have hrr := reapRecords_log hl h1 (by omega) lowUse
    cases hr : reapRecords m d nn lowUse with
    | mk r rest =>
    obtain ⟨m1, d1, got⟩ := rest
    rw [hr] at hrr
    obtain ⟨psp1, l1, k1, s1, g1, ph1, hdead⟩ := hrr
    simp only at l1 k1 s1 g1 ph1 hdead ⊢
    have hh1 : d1.phdr = some ⟨m1.pmax, pf⟩ := by rw [ph1, hh, s1.pmax]
    -- the rest of the iteration, after the optional drop of the first file
    have hrest : ∀ (pf2 : Nat) (d2 : Disk) (pe : Bool) (pb : Budget), d2.phdr = some ⟨m1.pmax, pf2⟩ →
        PriLog m1 d2 pf2 psp1 → KeepAll m pf psp m1 pf2 psp1 → GoDisk d d2 → pf2 ≤ nn + 1 →
        GoRes m d pf psp
          (if pe = true then
              ((⟨.deadline, 0⟩ : PgcRes), ({ m1 with visited := m1.visited ++ [nn] } : Mem), d2, pb)
            else primaryGC.go lowUse fuel (nn + 1) ⟨m.pmax, pf2⟩
              { m1 with visited := m1.visited ++ [nn] } d2 pb (recl + got)) := by
      intro pf2 d2 pe pb hh2 l2 k2 g2 hpf2
      have hs : GoSame m { m1 with visited := m1.visited ++ [nn] } :=
        ⟨s1.kind, s1.bits, s1.imax, s1.buckets, s1.pmax, s1.pfileNum, s1.plength⟩
      by_cases hp : pe = true
      · rw [if_pos hp]
        exact ⟨pf2, psp1, hh2, l2.frame rfl rfl, fun blk body h => (k2 blk body h).frame rfl rfl, hs, g2⟩
      · rw [if_neg hp]
        have := ih (nn + 1) pf2 { m1 with visited := m1.visited ++ [nn] } d2 pb (recl + got) psp1 hh2
          (l2.frame rfl rfl) hpf2 (by show nn + 1 ≤ m1.pfileNum; rw [s1.pfileNum]; omega)
        rw [← s1.pmax]
        obtain ⟨pf', psp', a1, a2, a3, a4, a5⟩ := this
        exact ⟨pf', psp', a1, a2, fun blk body h => a3 blk body ((k2 blk body h).frame rfl rfl),
          hs.trans a4, g2.trans a5⟩
    cases hpoll : poll budget with
    | mk pe pb =>
    cases r with
    | err => exact ⟨pf, psp1, hh1, l1, k1, s1, g1⟩
    | kept =>
      simp only [reduceCtorEq, false_and, if_false]
      exact hrest pf d1 pe pb hh1 l1 k1 g1 (by omega)
    | dead =>
      simp only [true_and]
      by_cases hnp : nn = pf
      · subst hnp
        simp only [if_true]
        obtain ⟨x1, x2, _⟩ := drop_step l1 (by rw [s1.pfileNum]; omega) (hdead rfl)
          (some ⟨m.pmax, nn + 1⟩)
        exact hrest (nn + 1) _ pe pb (by rw [s1.pmax]) x1 (fun blk body h => x2 blk body (k1 blk body h))
          ⟨g1.ifiles, g1.ihdr, g1.snap, g1.free, g1.freeGc⟩ (Nat.le_refl _)
      · simp only [hnp, if_false]
        exact hrest pf d1 pe pb hh1 l1 k1 g1 (by omega)

end Sth
