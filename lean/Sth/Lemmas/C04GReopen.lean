/-
C04 — Close + reopen on the GC invariant (multihash primary).
Core Lean only.
-/
import Sth.Lemmas.C04GFlush2

namespace Sth

theorem storeClose_eq4 {m m1 m2 : Mem} {d d1 d2 : Disk} {order : List Nat}
    (h1 : priFlush m d = some (m1, d1)) (h2 : idxFlush m1 d1 order = (m2, d2)) :
    ∃ fr, storeClose { disk := d, mem := some m } order =
      some { disk := { d2 with snap := some ⟨8 * 2 ^ m2.bits, m2.buckets.filter (·.2 ≠ 0)⟩, free := fr },
             mem := none } ∧
      fr.getD [] = d2.free.getD [] ++ m2.flpool.flatMap blockBytes := by
  unfold storeClose
  simp only [h1, h2]
  unfold flFlush
  split
  · rename_i he
    refine ⟨d2.free, rfl, ?_⟩
    rw [List.isEmpty_iff.mp he]
    simp
  · exact ⟨_, rfl, rfl⟩

/-- the disk Store.Close leaves -/
abbrev closedDisk (m2 : Mem) (d2 : Disk) (fr : Option Bytes) : Disk :=
  { d2 with snap := some ⟨8 * 2 ^ m2.bits, m2.buckets.filter (·.2 ≠ 0)⟩, free := fr }

/-- OpenStore on the disk a clean Close leaves, from the facts about the closed state -/
theorem open_after_close {c : Cfg} (hc : c.Legal) {m2 : Mem} {d2 : Disk} (fr : Option Bytes) (us : Bool)
    (hkind : m2.kind = c.kind) (himm : m2.imm = c.imm) (hbits : m2.bits = c.bits)
    (himax : m2.imax = c.ifs) (hpmax : m2.pmax = hdrPfs c) {first : Nat} {sp : Nat → List GSpan}
    (hih : d2.ihdr = some ⟨c.bits, c.ifs, first, hdrPfs c⟩)
    (hl : IdxLogT c.bits c.ifs m2.ifileNum d2.ifiles (tbl m2) first sp)
    (hino : d2.ifiles.get? (m2.ifileNum + 1) = none) (hsorted : NMap.Sorted m2.buckets) {pf : Nat}
    (hpf1 : c.kind = .mh → d2.phdr = some ⟨c.pfs, pf⟩) (hpf2 : c.kind = .mh → pf ≤ m2.pfileNum)
    (hpf3 : c.kind = .mh → ∀ f, pf ≤ f → f ≤ m2.pfileNum → d2.pfiles.get? f ≠ none)
    (hpno : c.kind = .mh → d2.pfiles.get? (m2.pfileNum + 1) = none)
    (halloc : m2.kind = .mh → m2.pfileNum = m2.precFileNum ∧ m2.plength = m2.precPos)
    (hplen : m2.kind = .mh → (fileOf d2.pfiles m2.pfileNum).length = m2.plength)
    (hcid : m2.kind = .cid → (d2.cidfile.getD []).length = m2.precPos) :
    ∃ m' d',
      openStore c (if us = true then closedDisk m2 d2 fr
        else { closedDisk m2 d2 fr with snap := none }) = (d', .ok m') ∧
      Reopened m2 d2 m' d' ∧ m'.flpool = [] ∧ d'.free = some (fr.getD []) ∧ d'.freeGc = d2.freeGc := by
  have hopen : ∃ d5 cf pfn plen files' bk,
      (if us = true then ({ d2 with snap := some ⟨8 * 2 ^ m2.bits, m2.buckets.filter (·.2 ≠ 0)⟩,
                                    free := fr } : Disk)
        else { ({ d2 with snap := some ⟨8 * 2 ^ m2.bits, m2.buckets.filter (·.2 ≠ 0)⟩,
                          free := fr } : Disk) with snap := none }) = d5 ∧
      d5.pfiles = d2.pfiles ∧ d5.cidfile = d2.cidfile ∧ d5.ihdr = d2.ihdr ∧ d5.phdr = d2.phdr ∧
      openStore c d5 = ({ d5 with free := some (d5.free.getD []), cidfile := cf, snap := none,
                                  ifiles := files' },
        .ok (openMem c bk m2.ifileNum (fileOf files' m2.ifileNum).length pfn plen)) ∧
      (c.kind = .mh → cf = d5.cidfile ∧ pfn = m2.pfileNum ∧
        plen = (fileOf d5.pfiles m2.pfileNum).length) ∧
      (c.kind = .cid → cf = some (d5.cidfile.getD []) ∧ pfn = 0 ∧
        plen = (d5.cidfile.getD []).length) ∧
      (∀ f, files'.get? f = d2.ifiles.get? f) ∧ NMap.Sorted bk ∧
      ∀ b, (bk.get? b).getD 0 = (m2.buckets.get? b).getD 0 := by
    cases us with
    | true =>
      refine ⟨({ d2 with snap := some ⟨8 * 2 ^ m2.bits, m2.buckets.filter (·.2 ≠ 0)⟩, free := fr } : Disk),
        ?_⟩
      obtain ⟨cf, pfn, plen, files', bk, o1, o2, o3, o4⟩ := openStore_ok4 c hc
        ({ d2 with snap := some ⟨8 * 2 ^ m2.bits, m2.buckets.filter (·.2 ≠ 0)⟩, free := fr } : Disk)
        m2.pfileNum pf m2.ifileNum hpf1 hpf2 hpf3 hpno
        (Q := fun files' bk => (∀ f, files'.get? f = d2.ifiles.get? f) ∧ NMap.Sorted bk ∧
          ∀ b, (bk.get? b).getD 0 = (m2.buckets.get? b).getD 0)
        (by
          intro dP e1 e2 e3
          refine ⟨dP.ifiles, m2.buckets.filter (·.2 ≠ 0), ?_, ?_, ?_, ?_⟩
          · apply openIndex_snap4 c hc dP first m2.ifileNum _ (by rw [e1]; exact hih)
              (by rw [e2, hbits]) hl.le
            · intro f hf1 hf2; rw [e3]; show d2.ifiles.get? f ≠ none; rw [hl.files f hf1 hf2]; simp
            · rw [e3]; exact hino
          · intro f; rw [e3]
          · exact NMap.sorted_filter _ hsorted
          · exact NMap.get?_filter_nz hsorted)
      exact ⟨cf, pfn, plen, files', bk, by simp, rfl, rfl, rfl, rfl, o1, o2, o3, o4⟩
    | false =>
      refine ⟨({ d2 with snap := none, free := fr } : Disk), ?_⟩
      obtain ⟨cf, pfn, plen, files', bk, o1, o2, o3, o4⟩ := openStore_ok4 c hc
        ({ d2 with snap := none, free := fr } : Disk)
        m2.pfileNum pf m2.ifileNum hpf1 hpf2 hpf3 hpno
        (Q := fun files' bk => (∀ f, files'.get? f = d2.ifiles.get? f) ∧ NMap.Sorted bk ∧
          ∀ b, (bk.get? b).getD 0 = (m2.buckets.get? b).getD 0)
        (by
          intro dP e1 e2 e3
          obtain ⟨files', q1, q2⟩ := openIndex_scan4 c hc dP first m2.ifileNum sp
            (by rw [e1]; exact hih) (by rw [e2]) hl.le
            (by intro f hf1 hf2; rw [e3]; exact hl.files f hf1 hf2) (by rw [e3]; exact hino) hl.ok
          refine ⟨files', _, q1, ?_, ?_, ?_⟩
          · intro f; rw [q2, e3]
          · unfold setAll
            generalize rangeLive c.ifs sp first (m2.ifileNum + 1 - first) = l
            have : ∀ (l : List (Nat × Nat)) (bk : NMap Nat), NMap.Sorted bk →
                NMap.Sorted (l.foldl (fun bk x => bk.set x.1 x.2) bk) := by
              intro l
              induction l with
              | nil => intro bk h; exact h
              | cons x l ih => intro bk h; exact ih _ (NMap.sorted_set _ _ h)
            exact this l [] NMap.sorted_nil
          · intro b; exact scan_tbl hl b)
      exact ⟨cf, pfn, plen, files', bk, by simp, rfl, rfl, rfl, rfl, o1, o2, o3, o4⟩
  obtain ⟨d5, cf, pfn, plen, files', bk, e5, g1, g2, g3, g4, o1, o2, o3, q1, q2, q3⟩ := hopen
  have hr : Reopened m2 d2 (openMem c bk m2.ifileNum (fileOf files' m2.ifileNum).length pfn plen)
      { d5 with free := some (d5.free.getD []), cidfile := cf, snap := none, ifiles := files' } := by
    refine ⟨hkind.symm, himm.symm, hbits.symm, himax.symm, hpmax.symm, rfl, rfl, rfl, rfl, rfl,
      rfl, q2, q3, q1, g1, ?_, ?_, ?_, ?_, ?_, g3, g4⟩
    · intro file hf
      show cf = some file
      rcases kind_cases m2 with hk | hk
      · rw [(o2 (by rw [← hkind]; exact hk)).1, g2]; exact hf
      · rw [(o3 (by rw [← hkind]; exact hk)).1, g2, hf]; rfl
    · show cf.getD [] = d2.cidfile.getD []
      rcases kind_cases m2 with hk | hk
      · rw [(o2 (by rw [← hkind]; exact hk)).1, g2]
      · rw [(o3 (by rw [← hkind]; exact hk)).1, g2]; rfl
    · intro hk
      show pfn = m2.precFileNum
      rw [(o2 (by rw [← hkind]; exact hk)).2.1]
      exact (halloc hk).1
    · show plen = m2.precPos
      rcases kind_cases m2 with hk | hk
      · rw [(o2 (by rw [← hkind]; exact hk)).2.2, g1, hplen hk]
        exact (halloc hk).2
      · rw [(o3 (by rw [← hkind]; exact hk)).2.2, g2]
        exact hcid hk
    · intro hk
      show pfn = m2.pfileNum ∧ plen = m2.plength
      obtain ⟨_, a2, a3⟩ := o2 (by rw [← hkind]; exact hk)
      rw [a2, a3, g1]
      exact ⟨rfl, hplen hk⟩
  have e5' : (if us = true then closedDisk m2 d2 fr
      else { closedDisk m2 d2 fr with snap := none }) = d5 := e5
  refine ⟨_, _, ?_, hr, rfl, ?_, ?_⟩
  · rw [e5', o1]
  · show some (d5.free.getD []) = _
    rw [← e5]
    cases us <;> rfl
  · show d5.freeGc = _
    rw [← e5]
    cases us <;> rfl

end Sth

namespace Sth

section
variable {c : Cfg} {U : List (Bytes × Bytes)} {s : SState} {spec : Spec} {n B : Nat}

/-- the reopened state satisfies the GC invariant -/
theorem reopen_g (hU : Univ c.kind U) {cfg : Cfg} {m2 m' : Mem} {d2 d' : Disk}
    (hG : GInv c U ⟨cfg, m2, d2⟩ spec n B) (hn : n < 1073741824) (hin : m2.inext = [])
    (hpn : m2.pnext = []) (r : Reopened m2 d2 m' d') (hfl : m'.flpool = [])
    (hfree : d'.free = some (d2.free.getD [] ++ m2.flpool.flatMap blockBytes))
    (hgc : d'.freeGc = d2.freeGc) :
    GInv c U ⟨c, m', d'⟩ spec n B := by
  have hU' := hG.univ hU
  have hk : m2.kind = .mh := hG.kind
  have hk' : m'.kind = .mh := by rw [r.kind]; exact hk
  obtain ⟨pf, psp, zh, zl, ze, zf⟩ := hG.z
  have hIi : IInv m2 d2 := hG.i
  have halloc : m2.pfileNum = m2.precFileNum ∧ m2.plength = m2.precPos := by
    have := hG.alloc
    have e : m2.pnext = [] := hpn
    simp only [e] at this
    exact this
  obtain ⟨b1, b2⟩ := r.pfileNum hk
  have hprec := r.precFileNum hk
  have h32 : m'.precFileNum < two32 := by
    rw [hprec]; have : m2.precFileNum ≤ n := hG.cntF; unfold two32; omega
  have hl' : PriLog m' d' pf psp :=
    ⟨by rw [b1]; exact zl.le, by rw [r.pfiles]; exact zl.gone, by rw [r.pfiles, b1]; exact zl.files,
      by rw [b1]; exact zl.ok, by rw [b1, r.pmax]; exact zl.starts⟩
  have hidx : ∀ b, idxRecords m' d' b = idxRecords m2 d2 b := r.idxRecords hIi hin
  have hent : ∀ blk, IsEnt m' d' blk ↔ IsEnt m2 d2 blk := by
    intro blk; unfold IsEnt; simp only [hidx]
  -- entries read from their spans
  have hread : ∀ blk, IsEnt m2 d2 blk → ∀ k v, priGet m2 d2 blk = .got k v →
      priGet m' d' blk = .got k v ∧ OnDisk m' pf psp blk (k ++ v) := by
    intro blk hb k v hg
    obtain ⟨key, val, q1, q2⟩ := ze blk hb
    rw [hg] at q1; cases q1
    obtain ⟨b, rl, e, hr, he, rfl⟩ := hb
    have hB := (ent_blockOK (m := m2) (d := d2) hG.a hr he).1
    obtain ⟨key', val', dig, a1, a2, a3, a4, a5⟩ := hB.ex
    rw [hg] at a1; cases a1
    have hon2 : OnDisk m2 pf psp e.blk (k ++ v) := by
      rcases q2 with ⟨x, hx, _⟩ | q2
      · have e0 : m2.pnext = [] := hpn
        rw [e0] at hx; cases hx
      · exact q2
    have hon : OnDisk m' pf psp e.blk (k ++ v) := hon2.frame b1 r.pmax
    refine ⟨?_, hon⟩
    have hbel : Below m' e.blk := (r.below e.blk).mpr hB.below
    rw [priGet_onDisk hk' (by rw [r.pmax]; exact hG.pmax1) h32 hl' (by rw [b1, hprec]; exact hG.pfile_le)
      hbel hon (by rw [r.pnext]; rfl), r.pcur]
    have : poolFind ([] : List PRec) e.blk = none := rfl
    rw [this]
    simp only
    have hrn := readNode_append m2.kind k v (hU'.exact _ a2)
    rw [hk] at hrn
    rw [hrn]
  refine { kmh := hG.kmh, kind := hk', imm := by show m'.imm = _; rw [r.imm]; exact hG.imm,
           bits8 := by show 8 ≤ m'.bits; rw [r.bits]; exact hG.bits8,
           bits31 := by show m'.bits ≤ 31; rw [r.bits]; exact hG.bits31,
           a := hG.a.of_ent r.kind r.bits hidx (fun blk hb k v hg => (hread blk hb k v hg).1)
             (fun blk hb => (r.below blk).mpr hb),
           pmax1 := by show 1 ≤ m'.pmax; rw [r.pmax]; exact hG.pmax1,
           pmaxle := by show m'.pmax ≤ _; rw [r.pmax]; exact hG.pmaxle,
           recs := (by show ∀ x ∈ m'.pnext, _; rw [r.pnext]; intro x hx; cases hx),
           nextBelow := (by show ∀ x ∈ m'.pnext, _; rw [r.pnext]; intro x hx; cases hx),
           alloc := ?_, plen := ?_, pno := ?_, i := ?_, cntF := ?_, cntI := ?_,
           nodup := hG.nodup, w := hG.w, y := ?_, z := ?_ }
  · show allocMh m'.pmax m'.pfileNum m'.plength m'.pnext m'.precFileNum m'.precPos
    rw [r.pnext, b1, b2, hprec, r.precPos]
    exact halloc
  · show (fileOf d'.pfiles m'.pfileNum).length = m'.plength
    rw [r.pfiles, b1, b2]; exact hG.plen
  · intro f hf
    have hf' : m'.pfileNum < f := hf
    rw [b1] at hf'
    show d'.pfiles.get? f = none
    rw [r.pfiles]; exact hG.pno f hf'
  · show IInv m' d'
    refine ⟨by rw [r.imax]; exact hIi.imax, (by rw [r.icur]; intro b rl hb; cases hb), r.ilength.symm, ?_,
      r.sorted⟩
    intro f hf
    rw [r.ifiles]
    rw [r.ifileNum] at hf
    exact hIi.noFiles f hf
  · show m'.precFileNum ≤ n
    rw [hprec]; exact hG.cntF
  · show m'.ifileNum + m'.inext.length ≤ n
    rw [r.ifileNum, r.inext]
    have h' : m2.ifileNum + m2.inext.length ≤ n := hG.cntI
    simp only [List.length_nil]
    omega
  · obtain ⟨first, sp, e1, e2⟩ := hG.y.ilog
    have e2' : IdxLogT m2.bits m2.imax m2.ifileNum d2.ifiles (tbl m2) first sp := e2
    refine ⟨rfl, by show m'.bits = c.bits; rw [r.bits]; exact hG.y.bits,
      by show m'.imax = c.ifs; rw [r.imax]; exact hG.y.imax,
      by show m'.pmax = hdrPfs c; rw [r.pmax]; exact hG.y.pmax,
      ⟨first, sp, by show d'.ihdr = _; rw [r.ihdr]; exact e1, ?_⟩, ?_, ?_⟩
    · show IdxLogT m'.bits m'.imax m'.ifileNum d'.ifiles (tbl m') first sp
      have ht : tbl m' = tbl m2 := by funext b; exact r.table b
      rw [r.bits, r.imax, r.ifileNum, ht]
      exact ⟨e2'.le, fun f hf => by rw [r.ifiles]; exact e2'.gone f hf,
        fun f h1 h2 => by rw [r.ifiles]; exact e2'.files f h1 h2, e2'.ok, e2'.t1, e2'.t2⟩
    · intro hkc
      obtain ⟨pf', q1, q2, q3⟩ := hG.y.phdr hkc
      refine ⟨pf', by show d'.phdr = _; rw [r.phdr]; exact q1, by show pf' ≤ m'.pfileNum; rw [b1]; exact q2,
        ?_⟩
      intro f h1 h2
      have h2' : f ≤ m'.pfileNum := h2
      rw [b1] at h2'
      show d'.pfiles.get? f ≠ none
      rw [r.pfiles]; exact q3 f h1 h2'
    · intro b rl hb
      have hb' : m'.inext.get? b = some rl := hb
      rw [r.inext] at hb'
      cases hb'
  · refine ⟨pf, psp, by rw [r.phdr, r.pmax]; exact zh, hl', ?_, ?_⟩
    · intro blk hb
      have hb2 := (hent blk).mp hb
      obtain ⟨key, val, q1, _⟩ := ze blk hb2
      obtain ⟨r1, r2⟩ := hread blk hb2 key val q1
      exact ⟨key, val, r1, Or.inr r2⟩
    · obtain ⟨L1, L2, f1, f2, f3⟩ := zf
      refine ⟨L1 ++ m2.flpool, L2, ?_, by rw [hgc]; exact f2, ?_⟩
      · rw [hfree, f1]; simp [List.flatMap_append]
      · intro fb hfb
        rw [hfl] at hfb
        have : fb ∈ m2.flpool ++ L1 ++ L2 := by
          simp only [List.mem_append, List.nil_append] at hfb ⊢
          rcases hfb with (h | h) | h
          · exact Or.inl (Or.inr h)
          · exact Or.inl (Or.inl h)
          · exact Or.inr h
        obtain ⟨q1, q2, q3, q4, q5⟩ := f3 fb this
        refine ⟨(r.below fb).mpr q1, fun blk hb => q2 blk ((hent blk).mp hb), ?_, q4, q5⟩
        apply q3.frame b1 r.pmax
        intro x hx
        have e0 : m2.pnext = [] := hpn
        rw [e0] at hx; cases hx

/-- the reopen step on the GC invariant -/
theorem step_reopen_g (hc : c.Legal) (hU : Univ c.kind U) (hG : GInv c U s spec n B)
    (hn : n < 1073741824) (hB : B < two31) (order : List Nat) (us : Bool) :
    ∃ m' d', stepS s (.reopen order us) = (⟨s.cfg, m', d'⟩, .gc) ∧
      GInv c U ⟨s.cfg, m', d'⟩ spec n B := by
  obtain ⟨m1, d1, p1, hG1, hp1, hi1, _⟩ := priFlush_g hU hG hn
  obtain ⟨f1, f2⟩ := fixOrder_ok order s.m.inext
  obtain ⟨m2, d2, i1, hG2, hin, hpn2, _⟩ := idxFlush_g (s := ⟨s.cfg, m1, d1⟩) hU hG1 hn hB
    (order := fixOrder order s.m.inext.keys) (by rw [hi1]; exact f1) (by rw [hi1]; exact f2)
  have hpn : m2.pnext = [] := by rw [hpn2]; exact hp1
  obtain ⟨fr, hcl, hfr⟩ := storeClose_eq4 p1 i1
  have hcfg : s.cfg = c := hG.y.cfg
  have hkind : m2.kind = c.kind := by have : m2.kind = .mh := hG2.kind; rw [this, hG.kmh]
  obtain ⟨first, sp, hih, hl⟩ := hG2.y.ilog
  have hbits : m2.bits = c.bits := hG2.y.bits
  have himax : m2.imax = c.ifs := hG2.y.imax
  have hl' : IdxLogT c.bits c.ifs m2.ifileNum d2.ifiles (tbl m2) first sp := by
    have : IdxLogT m2.bits m2.imax m2.ifileNum d2.ifiles (tbl m2) first sp := hl
    rw [hbits, himax] at this; exact this
  obtain ⟨pf, q1, q2, q3⟩ := hG2.y.phdr hG.kmh
  have halloc : m2.pfileNum = m2.precFileNum ∧ m2.plength = m2.precPos := by
    have := hG2.alloc
    have e : m2.pnext = [] := hpn
    simp only [e] at this
    exact this
  obtain ⟨m', d', o1, hr, o2, o3, o4⟩ := open_after_close hc (m2 := m2) (d2 := d2) fr us hkind hG2.imm
    hbits himax hG2.y.pmax hih hl' (hG2.i.noFiles _ (by show m2.ifileNum < m2.ifileNum + 1; omega))
    hG2.i.sorted (fun _ => q1) (fun _ => q2) (fun _ => q3)
    (fun _ => hG2.pno _ (by show m2.pfileNum < m2.pfileNum + 1; omega)) (fun _ => halloc)
    (fun _ => hG2.plen) (fun hk => by have : m2.kind = .mh := hG2.kind; rw [this] at hk; cases hk)
  have hG' := reopen_g hU hG2 hn hin hpn hr o2 (by rw [o3, hfr]) o4
  refine ⟨m', d', ?_, by rw [hcfg]; exact hG'⟩
  unfold stepS
  simp only [hcl, hcfg, o1]

end

end Sth
