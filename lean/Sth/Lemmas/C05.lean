/-
C05 — lemma base for the section-level concurrency model Sth/Model/Conc.lean.

Contents
  * `Sec`            : the 18 kinds of section (`step` as a relation, with the new state spelled out) and the
                       inversion lemma `step_sec` / `sec_step` (the relation IS `step`).
  * `lookup` algebra : `lookup_setIdx`, `lookup_delIdx`.
  * `NoOverlap`      : no two distinct threads are in the middle of mutating one key (decidable);
                       `NoOverlapAlong s sched` : every state along `run s sched` satisfies it (decidable).
  * `WF`, `TWF`, `Inv0` : the unconditional well-formedness invariant (index entries name positions of the
                       primary holding that key, at most one entry per key, what every program counter knows
                       about the primary) and its preservation `inv0_step`.
  * `Acc`            : under `NoOverlap`, a thread in the middle of a mutator of `k` has an accurate view of `k`.
  * `specStep`       : the map specification for `Conc.Op`; `linPoint` : the linearization point of a section;
                       `sim_step` : a section with a linearization point is the specification step of its call,
                       every other section leaves `contents` alone.
-/
import Sth.Model.Conc

namespace Sth.Conc

/-! ### small helpers naming the sub-expressions of `step` -/

/-- the key of a read call (Get / Has / GetSize) -/
def Op.readKey : Op → Option Key
  | .get k => some k
  | .has k => some k
  | .size k => some k
  | _ => none

/-- the key of a call -/
def Op.key : Op → Key
  | .put k _ => k
  | .get k => k
  | .has k => k
  | .size k => k
  | .rm k => k

/-- what a read call returns when its lookup finds nothing -/
def absentRes : Op → Res
  | .has _ => .bool false
  | _ => .absent

/-- what a read call returns after reading location `loc` of the primary -/
def readRes (pri : List (Key × Val)) (op : Op) (loc : Nat) : Res :=
  match pri[loc]? with
  | none => .err
  | some (_, v) => match op with
    | .get _ => .found v
    | .has _ => .bool true
    | .size _ => .sizeOf v.length
    | _ => .err

/-! ### `step` as a relation -/

/-- `Sec s i t s'` : thread `i` (whose record is `t`) runs its next section from `s` and reaches `s'`. -/
inductive Sec (s : State) (i : Nat) (t : Thread) : State → Prop
  | putLook (k : Key) (v : Val) (rest : List Op) (hpc : t.pc = .idle) (hp : t.prog = .put k v :: rest) :
      Sec s i t (setThread s i { t with pc := .putLooked k v (lookup s.idx k) })
  | rmAbsent (k : Key) (rest : List Op) (hpc : t.pc = .idle) (hp : t.prog = .rm k :: rest)
      (hl : lookup s.idx k = none) :
      Sec s i t (setThread s i (ret t (.bool false)))
  | rmLook (k : Key) (rest : List Op) (loc : Nat) (hpc : t.pc = .idle) (hp : t.prog = .rm k :: rest)
      (hl : lookup s.idx k = some loc) :
      Sec s i t (setThread s i { t with pc := .rmLooked k loc })
  | readAbsent (op : Op) (k : Key) (rest : List Op) (hpc : t.pc = .idle) (hp : t.prog = op :: rest)
      (hk : op.readKey = some k) (hl : lookup s.idx k = none) :
      Sec s i t (setThread s i (ret t (absentRes op)))
  | readLook (op : Op) (k : Key) (rest : List Op) (loc : Nat) (hpc : t.pc = .idle) (hp : t.prog = op :: rest)
      (hk : op.readKey = some k) (hl : lookup s.idx k = some loc) :
      Sec s i t (setThread s i { t with pc := .readLooked op loc })
  | putKeyExists (k : Key) (v : Val) (loc : Nat) (hpc : t.pc = .putLooked k v (some loc))
      (himm : s.imm = true) :
      Sec s i t (setThread s i (ret t .keyExists))
  | putSame (k : Key) (v : Val) (loc : Nat) (hpc : t.pc = .putLooked k v (some loc))
      (himm : s.imm = false) (hv : s.pri[loc]?.map (·.2) = some v) :
      Sec s i t (setThread s i (ret t .ok))
  | putReadNew (k : Key) (v : Val) (hpc : t.pc = .putLooked k v none) :
      Sec s i t (setThread s i { t with pc := .putRead k v none })
  | putReadUpd (k : Key) (v : Val) (loc : Nat) (hpc : t.pc = .putLooked k v (some loc))
      (himm : s.imm = false) (hv : s.pri[loc]?.map (·.2) ≠ some v) :
      Sec s i t (setThread s i { t with pc := .putRead k v (some loc) })
  | putStore (k : Key) (v : Val) (prev : Option Nat) (hpc : t.pc = .putRead k v prev) :
      Sec s i t (setThread { s with pri := s.pri ++ [(k, v)] } i { t with pc := .putStored k v prev s.pri.length })
  | putIndexNew (k : Key) (v : Val) (loc : Nat) (hpc : t.pc = .putStored k v none loc) :
      Sec s i t (setThread { s with idx := if (lookup s.idx k).isSome then s.idx else setIdx s.idx k loc } i
        (ret t .ok))
  | putIndexUpd (k : Key) (v : Val) (p loc : Nat) (hpc : t.pc = .putStored k v (some p) loc)
      (hl : (lookup s.idx k).isSome = true) :
      Sec s i t (setThread { s with idx := setIdx s.idx k loc } i { t with pc := .putIndexed k p })
  | putIndexErr (k : Key) (v : Val) (p loc : Nat) (hpc : t.pc = .putStored k v (some p) loc)
      (hl : (lookup s.idx k).isSome = false) :
      Sec s i t (setThread s i (ret t .err))
  | putFree (k : Key) (p : Nat) (hpc : t.pc = .putIndexed k p) :
      Sec s i t (setThread { s with fl := s.fl ++ [p] } i (ret t .ok))
  | readDone (op : Op) (loc : Nat) (hpc : t.pc = .readLooked op loc) :
      Sec s i t (setThread s i (ret t (readRes s.pri op loc)))
  | rmReadS (k : Key) (loc : Nat) (hpc : t.pc = .rmLooked k loc) :
      Sec s i t (setThread s i { t with pc := .rmRead k loc })
  | rmIndex (k : Key) (loc : Nat) (hpc : t.pc = .rmRead k loc) :
      Sec s i t (setThread { s with idx := delIdx s.idx k } i
        { t with pc := .rmIndexed k loc (lookup s.idx k).isSome })
  | rmFree (k : Key) (loc : Nat) (removed : Bool) (hpc : t.pc = .rmIndexed k loc removed) :
      Sec s i t (setThread (if removed then { s with fl := s.fl ++ [loc] } else s) i (ret t (.bool removed)))

/-- inversion: every enabled `step` is one of the 18 sections -/
theorem step_sec {s s' : State} {i : Nat} (h : step s i = some s') :
    ∃ t, s.threads[i]? = some t ∧ Sec s i t s' := by
  unfold step at h
  cases ht : s.threads[i]? with
  | none => simp [ht] at h
  | some t =>
    refine ⟨t, rfl, ?_⟩
    simp only [ht] at h
    cases hpc : t.pc with
    | idle =>
      simp only [hpc] at h
      cases hp : t.prog with
      | nil => simp [hp] at h
      | cons op rest =>
        cases op with
        | put k v =>
          simp only [hp, Option.some.injEq] at h
          subst h; rw [← hp]; exact .putLook k v rest hpc hp
        | rm k =>
          simp only [hp] at h
          cases hl : lookup s.idx k with
          | none => simp only [hl, Option.some.injEq] at h; subst h; exact .rmAbsent k rest hpc hp hl
          | some loc =>
            simp only [hl, Option.some.injEq] at h; subst h; rw [← hp]; exact .rmLook k rest loc hpc hp hl
        | get k =>
          simp only [hp] at h
          cases hl : lookup s.idx k with
          | none => simp only [hl, Option.some.injEq] at h; subst h; exact .readAbsent (.get k) k rest hpc hp rfl hl
          | some loc =>
            simp only [hl, Option.some.injEq] at h; subst h; rw [← hp]
            exact .readLook (.get k) k rest loc hpc hp rfl hl
        | has k =>
          simp only [hp] at h
          cases hl : lookup s.idx k with
          | none => simp only [hl, Option.some.injEq] at h; subst h; exact .readAbsent (.has k) k rest hpc hp rfl hl
          | some loc =>
            simp only [hl, Option.some.injEq] at h; subst h; rw [← hp]
            exact .readLook (.has k) k rest loc hpc hp rfl hl
        | size k =>
          simp only [hp] at h
          cases hl : lookup s.idx k with
          | none => simp only [hl, Option.some.injEq] at h; subst h; exact .readAbsent (.size k) k rest hpc hp rfl hl
          | some loc =>
            simp only [hl, Option.some.injEq] at h; subst h; rw [← hp]
            exact .readLook (.size k) k rest loc hpc hp rfl hl
    | putLooked k v prev =>
      simp only [hpc] at h
      cases prev with
      | none => simp only [Option.some.injEq] at h; subst h; exact .putReadNew k v hpc
      | some loc =>
        simp only at h
        by_cases himm : s.imm = true
        · simp only [himm, if_true, Option.some.injEq] at h; subst h; exact .putKeyExists k v loc hpc himm
        · have himm' : s.imm = false := by simpa using himm
          by_cases hv : s.pri[loc]?.map (·.2) = some v
          · simp only [himm', hv, if_true] at h
            simp at h; subst h; exact .putSame k v loc hpc himm' hv
          · simp only [himm', hv, if_false] at h
            simp at h; subst h; exact .putReadUpd k v loc hpc himm' hv
    | putRead k v prev =>
      simp only [hpc, Option.some.injEq] at h; subst h; exact .putStore k v prev hpc
    | putStored k v prev loc =>
      simp only [hpc] at h
      cases prev with
      | none => simp only [Option.some.injEq] at h; subst h; exact .putIndexNew k v loc hpc
      | some p =>
        simp only at h
        by_cases hl : (lookup s.idx k).isSome = true
        · simp only [hl, if_true, Option.some.injEq] at h; subst h; exact .putIndexUpd k v p loc hpc hl
        · have hl' : (lookup s.idx k).isSome = false := by simpa using hl
          simp only [hl'] at h
          simp at h; subst h; exact .putIndexErr k v p loc hpc hl'
    | putIndexed k p =>
      simp only [hpc, Option.some.injEq] at h; subst h; exact .putFree k p hpc
    | readLooked op loc =>
      simp only [hpc, Option.some.injEq] at h; subst h
      exact .readDone op loc hpc
    | rmLooked k loc =>
      simp only [hpc, Option.some.injEq] at h; subst h; exact .rmReadS k loc hpc
    | rmRead k loc =>
      simp only [hpc, Option.some.injEq] at h; subst h; exact .rmIndex k loc hpc
    | rmIndexed k loc removed =>
      simp only [hpc, Option.some.injEq] at h; subst h; exact .rmFree k loc removed hpc

/-! ### threads of `setThread` -/

theorem setThread_threads_get {g : State} {i j : Nat} {t' u : Thread}
    (h : (setThread g i t').threads[j]? = some u) :
    (j = i ∧ u = t') ∨ (j ≠ i ∧ g.threads[j]? = some u) := by
  simp only [setThread, List.getElem?_set] at h
  by_cases hij : i = j
  · subst hij
    simp only [if_true] at h
    split at h
    · left; exact ⟨rfl, by simpa using h.symm⟩
    · simp at h
  · simp only [hij, if_false] at h
    right; exact ⟨fun e => hij e.symm, h⟩

theorem setThread_threads_self {g : State} {i : Nat} {t t' : Thread} (h : g.threads[i]? = some t) :
    (setThread g i t').threads[i]? = some t' := by
  have hlt : i < g.threads.length := by
    rcases Nat.lt_or_ge i g.threads.length with h' | h'
    · exact h'
    · rw [List.getElem?_eq_none h'] at h; simp at h
  simp [setThread, hlt]

theorem setThread_threads_ne {g : State} {i j : Nat} {t' : Thread} (h : j ≠ i) :
    (setThread g i t').threads[j]? = g.threads[j]? := by
  simp only [setThread, List.getElem?_set]
  rw [if_neg (fun e => h e.symm)]

@[simp] theorem setThread_idx (g : State) (i : Nat) (t' : Thread) : (setThread g i t').idx = g.idx := rfl
@[simp] theorem setThread_pri (g : State) (i : Nat) (t' : Thread) : (setThread g i t').pri = g.pri := rfl
@[simp] theorem setThread_fl (g : State) (i : Nat) (t' : Thread) : (setThread g i t').fl = g.fl := rfl
@[simp] theorem setThread_imm (g : State) (i : Nat) (t' : Thread) : (setThread g i t').imm = g.imm := rfl
@[simp] theorem setThread_length (g : State) (i : Nat) (t' : Thread) :
    (setThread g i t').threads.length = g.threads.length := by simp [setThread]

/-! ### the index as a map -/

theorem find?_filter_ne (idx : List (Key × Nat)) {k k' : Key} (h : k' ≠ k) :
    (idx.filter (·.1 ≠ k)).find? (·.1 = k') = idx.find? (·.1 = k') := by
  rw [List.find?_filter]
  congr 1
  funext a
  by_cases ha : a.1 = k'
  · have : a.1 ≠ k := fun e => h (ha.symm.trans e)
    simp [ha, h]
  · simp [ha]

theorem lookup_setIdx (idx : List (Key × Nat)) (k k' : Key) (loc : Nat) :
    lookup (setIdx idx k loc) k' = if k' = k then some loc else lookup idx k' := by
  unfold lookup setIdx
  by_cases h : k' = k
  · subst h; simp
  · have h' : ¬ k = k' := fun e => h e.symm
    simp only [List.find?_cons, h', decide_false, h, if_false]
    rw [find?_filter_ne idx h]

theorem lookup_delIdx (idx : List (Key × Nat)) (k k' : Key) :
    lookup (delIdx idx k) k' = if k' = k then none else lookup idx k' := by
  unfold lookup delIdx
  by_cases h : k' = k
  · subst h
    simp only [if_true, Option.map_eq_none_iff, List.find?_eq_none]
    intro x hx; simp only [List.mem_filter] at hx; simpa using hx.2
  · simp only [h, if_false]
    rw [find?_filter_ne idx h]

theorem lookup_mem {idx : List (Key × Nat)} {k : Key} {loc : Nat} (h : lookup idx k = some loc) :
    (k, loc) ∈ idx := by
  unfold lookup at h
  cases hf : idx.find? (·.1 = k) with
  | none => simp [hf] at h
  | some e =>
    simp only [hf, Option.map_some, Option.some.injEq] at h
    have h1 := List.mem_of_find?_eq_some hf
    have h2 := List.find?_some hf
    simp only [decide_eq_true_eq] at h2
    cases e with
    | mk a b => simp only at h h2; subst h h2; exact h1

theorem lookup_none_not_mem {idx : List (Key × Nat)} {k : Key} (h : lookup idx k = none) (loc : Nat) :
    (k, loc) ∉ idx := by
  unfold lookup at h
  simp only [Option.map_eq_none_iff, List.find?_eq_none] at h
  intro hm; have := h _ hm; simp at this

/-! ### no overlapping mutators of one key -/

/-- the key thread `i` is in the middle of mutating -/
def mutAt (s : State) (i : Nat) : Option Key := (s.threads[i]?).bind (·.pc.mutating)

/-- no two distinct threads are in the middle of a mutator (Put / Remove, from its lookup until its return)
    of the same key -/
def NoOverlap (s : State) : Prop :=
  ∀ i, i < s.threads.length → ∀ j, j < s.threads.length → i ≠ j → mutAt s i = none ∨ mutAt s i ≠ mutAt s j

instance (s : State) : Decidable (NoOverlap s) := by unfold NoOverlap; infer_instance

theorem NoOverlap.ne {s : State} (h : NoOverlap s) {i j : Nat} {ti tj : Thread} {k : Key}
    (hi : s.threads[i]? = some ti) (hj : s.threads[j]? = some tj) (hij : i ≠ j)
    (hk : ti.pc.mutating = some k) : tj.pc.mutating ≠ some k := by
  have hil : i < s.threads.length := by
    rcases Nat.lt_or_ge i s.threads.length with h' | h'
    · exact h'
    · rw [List.getElem?_eq_none h'] at hi; simp at hi
  have hjl : j < s.threads.length := by
    rcases Nat.lt_or_ge j s.threads.length with h' | h'
    · exact h'
    · rw [List.getElem?_eq_none h'] at hj; simp at hj
  intro hk'
  rcases h i hil j hjl hij with h1 | h1
  · simp [mutAt, hi, hk] at h1
  · simp [mutAt, hi, hj, hk, hk'] at h1

theorem NoOverlap.intro {s : State}
    (h : ∀ (i j : Nat) (ti tj : Thread) (k : Key), i ≠ j → s.threads[i]? = some ti → s.threads[j]? = some tj →
      ti.pc.mutating = some k → tj.pc.mutating ≠ some k) : NoOverlap s := by
  intro i hi j hj hij
  have hti : s.threads[i]? = some s.threads[i] := List.getElem?_eq_getElem hi
  have htj : s.threads[j]? = some s.threads[j] := List.getElem?_eq_getElem hj
  cases hm : (s.threads[i]).pc.mutating with
  | none => left; simp [mutAt, hti, hm]
  | some k =>
    right
    have := h i j _ _ k hij hti htj hm
    simp only [mutAt, hti, htj, Option.bind_some, hm]
    intro e; exact this e.symm

/-- `NoOverlap` in plain words: no two distinct threads have `pc.mutating = some k` for the same `k` -/
theorem noOverlap_iff (s : State) :
    NoOverlap s ↔ ∀ (i j : Nat) (ti tj : Thread) (k : Key), i ≠ j → s.threads[i]? = some ti →
      s.threads[j]? = some tj → ti.pc.mutating = some k → tj.pc.mutating ≠ some k :=
  ⟨fun h _ _ _ _ _ hij hi hj hk => h.ne hi hj hij hk, NoOverlap.intro⟩

/-- one (possibly disabled) scheduling step, as `run` takes it -/
def stepD (s : State) (i : Nat) : State := (step s i).getD s

theorem run_nil (s : State) : run s [] = s := rfl
theorem run_cons (s : State) (i : Nat) (sched : List Nat) : run s (i :: sched) = run (stepD s i) sched := rfl
theorem run_append (s : State) (a b : List Nat) : run s (a ++ b) = run (run s a) b := by
  simp [run, List.foldl_append]

/-- every state along `run s sched` (the initial and the final one included) satisfies `NoOverlap` -/
def NoOverlapAlong (s : State) : List Nat → Prop
  | [] => NoOverlap s
  | i :: sched => NoOverlap s ∧ NoOverlapAlong (stepD s i) sched

instance decNoOverlapAlong : (s : State) → (sched : List Nat) → Decidable (NoOverlapAlong s sched)
  | s, [] => inferInstanceAs (Decidable (NoOverlap s))
  | s, i :: sched =>
    have := decNoOverlapAlong (stepD s i) sched
    inferInstanceAs (Decidable (NoOverlap s ∧ NoOverlapAlong (stepD s i) sched))

/-- the decidable check of the task statement -/
def noOverlapRun (s : State) (sched : List Nat) : Bool := decide (NoOverlapAlong s sched)

theorem noOverlapRun_iff (s : State) (sched : List Nat) : noOverlapRun s sched = true ↔ NoOverlapAlong s sched := by
  simp [noOverlapRun]

theorem NoOverlapAlong.head {s : State} {sched : List Nat} (h : NoOverlapAlong s sched) : NoOverlap s := by
  cases sched with
  | nil => exact h
  | cons i r => exact h.1

/-- `NoOverlapAlong` says exactly: every prefix of the schedule leads to a state without overlap -/
theorem noOverlapAlong_iff (s : State) (sched : List Nat) :
    NoOverlapAlong s sched ↔ ∀ pre, pre <+: sched → NoOverlap (run s pre) := by
  induction sched generalizing s with
  | nil =>
    constructor
    · intro h pre hp; rw [List.prefix_nil] at hp; subst hp; exact h
    · intro h; exact h [] (List.prefix_refl _)
  | cons i r ih =>
    constructor
    · intro h pre hp
      cases pre with
      | nil => exact h.1
      | cons a pre' =>
        rw [List.cons_prefix_cons] at hp
        obtain ⟨rfl, hp⟩ := hp
        rw [run_cons]; exact (ih _).1 h.2 pre' hp
    · intro h
      refine ⟨h [] (List.nil_prefix), (ih _).2 ?_⟩
      intro pre hp
      have := h (i :: pre) (by rw [List.cons_prefix_cons]; exact ⟨rfl, hp⟩)
      rwa [run_cons] at this

/-- a prefix of a schedule without overlap is a schedule without overlap -/
theorem NoOverlapAlong.prefix {s : State} {a b : List Nat} (h : NoOverlapAlong s (a ++ b)) : NoOverlapAlong s a := by
  rw [noOverlapAlong_iff] at h ⊢
  exact fun pre hp => h pre (hp.trans (List.prefix_append a b))

/-! ### the unconditional well-formedness invariant -/

/-- the primary holds key `k` at location `loc` -/
def Holds (pri : List (Key × Val)) (loc : Nat) (k : Key) : Prop := ∃ v, pri[loc]? = some (k, v)

theorem Holds.append {pri : List (Key × Val)} {loc : Nat} {k : Key} (h : Holds pri loc k) (x : List (Key × Val)) :
    Holds (pri ++ x) loc k := by
  obtain ⟨v, hv⟩ := h
  exact ⟨v, by rw [List.getElem?_append_left (by
    rcases Nat.lt_or_ge loc pri.length with h' | h'
    · exact h'
    · rw [List.getElem?_eq_none h'] at hv; simp at hv)]; exact hv⟩

theorem Holds.lt {pri : List (Key × Val)} {loc : Nat} {k : Key} (h : Holds pri loc k) : loc < pri.length := by
  obtain ⟨v, hv⟩ := h
  rcases Nat.lt_or_ge loc pri.length with h' | h'
  · exact h'
  · rw [List.getElem?_eq_none h'] at hv; simp at hv

theorem Holds.key_eq {pri : List (Key × Val)} {loc : Nat} {k k' : Key} (h : Holds pri loc k) (h' : Holds pri loc k') :
    k = k' := by
  obtain ⟨v, hv⟩ := h
  obtain ⟨v', hv'⟩ := h'
  rw [hv] at hv'; simp at hv'; exact hv'.1

theorem getElem?_append_stable {α} {l : List α} {n : Nat} (h : n < l.length) (x : List α) :
    (l ++ x)[n]? = l[n]? := List.getElem?_append_left h

/-- well-formed index: every entry names a position of the primary holding that key;
    at most one entry per key -/
structure WF (s : State) : Prop where
  entries : ∀ k loc, (k, loc) ∈ s.idx → Holds s.pri loc k
  nodup : (s.idx.map (·.1)).Nodup

theorem WF.holds {s : State} (h : WF s) {k : Key} {loc : Nat} (hl : Conc.lookup s.idx k = some loc) :
    Holds s.pri loc k := h.entries k loc (lookup_mem hl)

/-- with at most one entry per key, `lookup` finds THE entry of a key -/
theorem WF.lookup_of_mem {s : State} (h : WF s) {k : Key} {loc : Nat} (hm : (k, loc) ∈ s.idx) :
    Conc.lookup s.idx k = some loc := by
  have hn := h.nodup
  generalize s.idx = idx at hm hn
  induction idx with
  | nil => simp at hm
  | cons e idx ih =>
    simp only [List.map_cons, List.nodup_cons] at hn
    simp only [List.mem_cons] at hm
    rcases hm with rfl | hm
    · simp [Conc.lookup]
    · have : e.1 ≠ k := by
        intro e'; apply hn.1; rw [e']; exact List.mem_map.2 ⟨(k, loc), hm, rfl⟩
      have ih' := ih hm hn.2
      simp only [Conc.lookup, List.find?_cons, this, decide_false] at ih' ⊢
      exact ih'

/-- what a program counter knows: the call in progress is the head of the program, and the locations it
    remembers are positions of the primary holding its key (the primary is append-only, so this is stable) -/
def TWF (imm : Bool) (pri : List (Key × Val)) (t : Thread) : Prop :=
  match t.pc with
  | .idle => True
  | .putLooked k v prev =>
      (∃ rest, t.prog = .put k v :: rest) ∧ ∀ p, prev = some p → Holds pri p k
  | .putRead k v prev =>
      (∃ rest, t.prog = .put k v :: rest) ∧ ∀ p, prev = some p → Holds pri p k ∧ imm = false
  | .putStored k v prev loc =>
      (∃ rest, t.prog = .put k v :: rest) ∧ pri[loc]? = some (k, v) ∧
        ∀ p, prev = some p → Holds pri p k ∧ imm = false
  | .putIndexed k p => (∃ v rest, t.prog = .put k v :: rest) ∧ Holds pri p k
  | .readLooked op loc => (∃ rest, t.prog = op :: rest) ∧ (∃ k, op.readKey = some k) ∧ loc < pri.length
  | .rmLooked k loc => (∃ rest, t.prog = .rm k :: rest) ∧ Holds pri loc k
  | .rmRead k loc => (∃ rest, t.prog = .rm k :: rest) ∧ Holds pri loc k
  | .rmIndexed k loc _ => (∃ rest, t.prog = .rm k :: rest) ∧ Holds pri loc k

theorem TWF.append {imm : Bool} {pri : List (Key × Val)} {t : Thread} (h : TWF imm pri t) (x : List (Key × Val)) :
    TWF imm (pri ++ x) t := by
  unfold TWF at h ⊢
  split at h
  · trivial
  · exact ⟨h.1, fun p hp => (h.2 p hp).append x⟩
  · exact ⟨h.1, fun p hp => ⟨((h.2 p hp).1).append x, (h.2 p hp).2⟩⟩
  · refine ⟨h.1, ?_, fun p hp => ⟨((h.2.2 p hp).1).append x, (h.2.2 p hp).2⟩⟩
    have : Holds pri _ _ := ⟨_, h.2.1⟩
    rw [getElem?_append_stable this.lt]; exact h.2.1
  · exact ⟨h.1, h.2.append x⟩
  · exact ⟨h.1, h.2.1, by have := h.2.2; simp only [List.length_append]; omega⟩
  · exact ⟨h.1, h.2.append x⟩
  · exact ⟨h.1, h.2.append x⟩
  · exact ⟨h.1, h.2.append x⟩

/-- the unconditional invariant of reachable states -/
structure Inv0 (s : State) : Prop where
  wf : WF s
  thr : ∀ (i : Nat) (t : Thread), s.threads[i]? = some t → TWF s.imm s.pri t

theorem WF.appendPri {s : State} (h : WF s) (x : List (Key × Val)) : WF { s with pri := s.pri ++ x } :=
  ⟨fun k loc hm => (h.entries k loc hm).append x, h.nodup⟩

theorem WF.setFl {s : State} (h : WF s) (fl : List Nat) : WF { s with fl := fl } := ⟨h.entries, h.nodup⟩

theorem WF.setIdx {s : State} (h : WF s) {k : Key} {loc : Nat} (hh : Holds s.pri loc k) :
    WF { s with idx := setIdx s.idx k loc } := by
  constructor
  · intro k' loc' hm
    simp only [Conc.setIdx, List.mem_cons, List.mem_filter] at hm
    rcases hm with hm | hm
    · simp only [Prod.mk.injEq] at hm; obtain ⟨rfl, rfl⟩ := hm; exact hh
    · exact h.entries k' loc' hm.1
  · simp only [Conc.setIdx, List.map_cons, List.nodup_cons]
    constructor
    · intro hm
      obtain ⟨e, he, hek⟩ := List.mem_map.1 hm
      simp only [List.mem_filter] at he
      simp [hek] at he
    · exact h.nodup.sublist ((List.filter_sublist).map _)

theorem WF.delIdx {s : State} (h : WF s) (k : Key) : WF { s with idx := delIdx s.idx k } := by
  constructor
  · intro k' loc' hm
    simp only [Conc.delIdx, List.mem_filter] at hm
    exact h.entries k' loc' hm.1
  · exact h.nodup.sublist ((List.filter_sublist).map _)

theorem WF.setThread {g : State} (h : WF g) (i : Nat) (t' : Thread) : WF (setThread g i t') :=
  ⟨h.entries, h.nodup⟩

theorem Inv0.build {s g : State} {i : Nat} {t' : Thread} (hs : Inv0 s) (hwf : WF g)
    (hthr : g.threads = s.threads) (himm : g.imm = s.imm) (hpri : ∃ x, g.pri = s.pri ++ x)
    (hown : TWF g.imm g.pri t') : Inv0 (setThread g i t') := by
  refine ⟨hwf.setThread i t', ?_⟩
  intro j u hu
  rcases setThread_threads_get hu with ⟨_, rfl⟩ | ⟨_, hu⟩
  · exact hown
  · obtain ⟨x, hx⟩ := hpri
    rw [hthr] at hu
    show TWF g.imm g.pri u
    rw [himm, hx]
    exact (hs.thr j u hu).append x

theorem app_nil_ex {α} (l : List α) : ∃ x, l = l ++ x := ⟨[], by simp⟩

/-- `Inv0` is preserved by every section, with no hypothesis on the schedule -/
theorem inv0_sec {s s' : State} {i : Nat} {t : Thread} (hs : Inv0 s) (ht : s.threads[i]? = some t)
    (h : Sec s i t s') : Inv0 s' := by
  have hT := hs.thr i t ht
  cases h with
  | putLook k v rest hpc hp =>
    refine hs.build hs.wf rfl rfl (app_nil_ex _) ?_
    simp only [TWF]
    exact ⟨⟨rest, hp⟩, fun p hl => hs.wf.holds hl⟩
  | rmAbsent k rest hpc hp hl => exact hs.build hs.wf rfl rfl (app_nil_ex _) (by simp [TWF, ret])
  | rmLook k rest loc hpc hp hl =>
    refine hs.build hs.wf rfl rfl (app_nil_ex _) ?_
    simp only [TWF]
    exact ⟨⟨rest, hp⟩, hs.wf.holds hl⟩
  | readAbsent op k rest hpc hp hk hl => exact hs.build hs.wf rfl rfl (app_nil_ex _) (by simp [TWF, ret])
  | readLook op k rest loc hpc hp hk hl =>
    refine hs.build hs.wf rfl rfl (app_nil_ex _) ?_
    simp only [TWF]
    exact ⟨⟨rest, hp⟩, ⟨k, hk⟩, (hs.wf.holds hl).lt⟩
  | putKeyExists k v loc hpc himm => exact hs.build hs.wf rfl rfl (app_nil_ex _) (by simp [TWF, ret])
  | putSame k v loc hpc himm hv => exact hs.build hs.wf rfl rfl (app_nil_ex _) (by simp [TWF, ret])
  | putReadNew k v hpc =>
    simp only [TWF, hpc] at hT
    refine hs.build hs.wf rfl rfl (app_nil_ex _) ?_
    simp only [TWF]
    exact ⟨hT.1, fun p hp => by simp at hp⟩
  | putReadUpd k v loc hpc himm hv =>
    simp only [TWF, hpc] at hT
    refine hs.build hs.wf rfl rfl (app_nil_ex _) ?_
    simp only [TWF]
    exact ⟨hT.1, fun p hp => ⟨hT.2 p hp, himm⟩⟩
  | putStore k v prev hpc =>
    simp only [TWF, hpc] at hT
    refine hs.build (hs.wf.appendPri _) rfl rfl ⟨_, rfl⟩ ?_
    simp only [TWF]
    refine ⟨hT.1, by simp, fun p hp => ⟨((hT.2 p hp).1).append _, (hT.2 p hp).2⟩⟩
  | putIndexNew k v loc hpc =>
    simp only [TWF, hpc] at hT
    refine hs.build ?_ rfl rfl (app_nil_ex _) (by simp [TWF, ret])
    split
    · exact hs.wf
    · exact hs.wf.setIdx ⟨v, hT.2.1⟩
  | putIndexUpd k v p loc hpc hl =>
    simp only [TWF, hpc] at hT
    refine hs.build (hs.wf.setIdx ⟨v, hT.2.1⟩) rfl rfl (app_nil_ex _) ?_
    simp only [TWF]
    obtain ⟨rest, hr⟩ := hT.1
    exact ⟨⟨v, rest, hr⟩, (hT.2.2 p rfl).1⟩
  | putIndexErr k v p loc hpc hl => exact hs.build hs.wf rfl rfl (app_nil_ex _) (by simp [TWF, ret])
  | putFree k p hpc => exact hs.build (hs.wf.setFl _) rfl rfl (app_nil_ex _) (by simp [TWF, ret])
  | readDone op loc hpc => exact hs.build hs.wf rfl rfl (app_nil_ex _) (by simp [TWF, ret])
  | rmReadS k loc hpc =>
    simp only [TWF, hpc] at hT
    refine hs.build hs.wf rfl rfl (app_nil_ex _) ?_
    simp only [TWF]; exact hT
  | rmIndex k loc hpc =>
    simp only [TWF, hpc] at hT
    refine hs.build (hs.wf.delIdx k) rfl rfl (app_nil_ex _) ?_
    simp only [TWF]; exact hT
  | rmFree k loc removed hpc =>
    cases removed with
    | true => exact hs.build (hs.wf.setFl _) rfl rfl (app_nil_ex _) (by simp [TWF, ret])
    | false => exact hs.build hs.wf rfl rfl (app_nil_ex _) (by simp [TWF, ret])

theorem inv0_step {s s' : State} {i : Nat} (hs : Inv0 s) (h : step s i = some s') : Inv0 s' := by
  obtain ⟨t, ht, hsec⟩ := step_sec h
  exact inv0_sec hs ht hsec

theorem inv0_stepD {s : State} (i : Nat) (hs : Inv0 s) : Inv0 (stepD s i) := by
  unfold stepD
  cases h : step s i with
  | none => exact hs
  | some s' => exact inv0_step hs h

theorem inv0_run {s : State} (hs : Inv0 s) (sched : List Nat) : Inv0 (run s sched) := by
  induction sched generalizing s with
  | nil => exact hs
  | cons i r ih => rw [run_cons]; exact ih (inv0_stepD i hs)

/-! ### the accurate view of a mutator (needs `NoOverlap`) -/

/-- only a thread in the middle of a mutator of `k` changes the index at `k` -/
theorem sec_lookup_frame {s s' : State} {i : Nat} {t : Thread} (h : Sec s i t s') (k' : Key)
    (hk : t.pc.mutating ≠ some k') : lookup s'.idx k' = lookup s.idx k' := by
  cases h with
  | putIndexNew k v loc hpc =>
    simp only [hpc, Pc.mutating, ne_eq, Option.some.injEq] at hk
    simp only [setThread_idx]
    split
    · rfl
    · rw [lookup_setIdx, if_neg (fun e => hk e.symm)]
  | putIndexUpd k v p loc hpc hl =>
    simp only [hpc, Pc.mutating, ne_eq, Option.some.injEq] at hk
    simp only [setThread_idx]
    rw [lookup_setIdx, if_neg (fun e => hk e.symm)]
  | rmIndex k loc hpc =>
    simp only [hpc, Pc.mutating, ne_eq, Option.some.injEq] at hk
    simp only [setThread_idx]
    rw [lookup_delIdx, if_neg (fun e => hk e.symm)]
  | rmFree k loc removed hpc => cases removed <;> rfl
  | _ => rfl

/-- a thread between the lookup and the index section of a mutator of `k` knows what the index holds for `k` -/
def TAcc (idx : List (Key × Nat)) (t : Thread) : Prop :=
  match t.pc with
  | .putLooked k _ prev => lookup idx k = prev
  | .putRead k _ prev => lookup idx k = prev
  | .putStored k _ prev _ => lookup idx k = prev
  | .rmLooked k loc => lookup idx k = some loc
  | .rmRead k loc => lookup idx k = some loc
  | _ => True

theorem TAcc.congr {idx idx' : List (Key × Nat)} {t : Thread}
    (h : ∀ k, t.pc.mutating = some k → lookup idx' k = lookup idx k) (ha : TAcc idx t) : TAcc idx' t := by
  unfold TAcc at ha ⊢
  split at ha <;> first | trivial | (rename_i hpc; rw [h _ (by rw [hpc]; rfl)]; exact ha)

def Acc (s : State) : Prop := ∀ (i : Nat) (t : Thread), s.threads[i]? = some t → TAcc s.idx t

theorem Acc.build {s g : State} {i : Nat} {t t' : Thread} (hs : Acc s) (hno : NoOverlap s)
    (ht : s.threads[i]? = some t) (hthr : g.threads = s.threads)
    (hidx : ∀ k, t.pc.mutating ≠ some k → lookup g.idx k = lookup s.idx k)
    (hown : TAcc g.idx t') : Acc (setThread g i t') := by
  intro j u hu
  rcases setThread_threads_get hu with ⟨_, rfl⟩ | ⟨hji, hu⟩
  · exact hown
  · rw [hthr] at hu
    show TAcc g.idx u
    refine TAcc.congr (fun k hk => hidx k ?_) (hs j u hu)
    exact hno.ne hu ht hji hk

/-- `Acc` is preserved by a section taken from a state without overlap -/
theorem acc_sec {s s' : State} {i : Nat} {t : Thread} (hs : Acc s) (hno : NoOverlap s)
    (ht : s.threads[i]? = some t) (h : Sec s i t s') : Acc s' := by
  have hT := hs i t ht
  have hfr := sec_lookup_frame h
  cases h with
  | putLook k v rest hpc hp => exact hs.build hno ht rfl hfr (by simp [TAcc])
  | rmAbsent k rest hpc hp hl => exact hs.build hno ht rfl hfr (by simp [TAcc, ret])
  | rmLook k rest loc hpc hp hl => exact hs.build hno ht rfl hfr (by simp [TAcc, hl])
  | readAbsent op k rest hpc hp hk hl => exact hs.build hno ht rfl hfr (by simp [TAcc, ret])
  | readLook op k rest loc hpc hp hk hl => exact hs.build hno ht rfl hfr (by simp [TAcc])
  | putKeyExists k v loc hpc himm => exact hs.build hno ht rfl hfr (by simp [TAcc, ret])
  | putSame k v loc hpc himm hv => exact hs.build hno ht rfl hfr (by simp [TAcc, ret])
  | putReadNew k v hpc =>
    simp only [TAcc, hpc] at hT
    exact hs.build hno ht rfl hfr (by simp [TAcc, hT])
  | putReadUpd k v loc hpc himm hv =>
    simp only [TAcc, hpc] at hT
    exact hs.build hno ht rfl hfr (by simp [TAcc, hT])
  | putStore k v prev hpc =>
    simp only [TAcc, hpc] at hT
    exact hs.build hno ht rfl hfr (by simp [TAcc, hT])
  | putIndexNew k v loc hpc => exact hs.build hno ht rfl hfr (by simp [TAcc, ret])
  | putIndexUpd k v p loc hpc hl => exact hs.build hno ht rfl hfr (by simp [TAcc])
  | putIndexErr k v p loc hpc hl => exact hs.build hno ht rfl hfr (by simp [TAcc, ret])
  | putFree k p hpc => exact hs.build hno ht rfl hfr (by simp [TAcc, ret])
  | readDone op loc hpc => exact hs.build hno ht rfl hfr (by simp [TAcc, ret])
  | rmReadS k loc hpc =>
    simp only [TAcc, hpc] at hT
    exact hs.build hno ht rfl hfr (by simp [TAcc, hT])
  | rmIndex k loc hpc => exact hs.build hno ht rfl hfr (by simp [TAcc])
  | rmFree k loc removed hpc =>
    cases removed with
    | true => exact hs.build hno ht rfl hfr (by simp [TAcc, ret])
    | false => exact hs.build hno ht rfl hfr (by simp [TAcc, ret])

/-! ### `contents` under the global effects of a section -/

theorem contents_setThread (g : State) (i : Nat) (t' : Thread) : contents (setThread g i t') = contents g := rfl

theorem contents_setFl (s : State) (fl : List Nat) : contents { s with fl := fl } = contents s := rfl

theorem contents_appendPri {s : State} (h : WF s) (x : List (Key × Val)) (k : Key) :
    contents { s with pri := s.pri ++ x } k = contents s k := by
  unfold contents
  cases hl : lookup s.idx k with
  | none => rfl
  | some loc => simp only []; rw [getElem?_append_stable (h.holds hl).lt]

theorem contents_setIdx (s : State) (k k' : Key) (loc : Nat) :
    contents { s with idx := setIdx s.idx k loc } k' =
      if k' = k then s.pri[loc]?.map (·.2) else contents s k' := by
  unfold contents
  simp only [lookup_setIdx]
  by_cases h : k' = k
  · simp [h]
  · simp [h]

theorem contents_delIdx (s : State) (k k' : Key) :
    contents { s with idx := delIdx s.idx k } k' = if k' = k then none else contents s k' := by
  unfold contents
  simp only [lookup_delIdx]
  by_cases h : k' = k
  · simp [h]
  · simp [h]

theorem contents_eq_some {s : State} (h : WF s) {k : Key} {loc : Nat} (hl : lookup s.idx k = some loc) :
    ∃ v, s.pri[loc]? = some (k, v) ∧ contents s k = some v := by
  obtain ⟨v, hv⟩ := h.holds hl
  exact ⟨v, hv, by simp [contents, hl, hv]⟩

theorem contents_eq_none {s : State} {k : Key} (hl : lookup s.idx k = none) : contents s k = none := by
  simp [contents, hl]

theorem contents_isSome {s : State} (h : WF s) (k : Key) : (contents s k).isSome = (lookup s.idx k).isSome := by
  cases hl : lookup s.idx k with
  | none => simp [contents_eq_none hl]
  | some loc => obtain ⟨v, _, hc⟩ := contents_eq_some h hl; simp [hc]

/-! ### the map specification and the linearization points -/

/-- point update of a map -/
def upd (m : Key → Option Val) (k : Key) (v : Option Val) : Key → Option Val :=
  fun k' => if k' = k then v else m k'

/-- the sequential specification of one call on the abstract map.  `imm` = immutable mode: a Put on a
    present key is rejected with `keyExists`; otherwise a Put of the value already stored is `ok` without
    change and any other Put stores the value. -/
def specStep (imm : Bool) (m : Key → Option Val) : Op → (Key → Option Val) × Res
  | .put k v =>
    match m k with
    | none => (upd m k (some v), .ok)
    | some v' => if imm then (m, .keyExists) else if v' = v then (m, .ok) else (upd m k (some v), .ok)
  | .get k => (m, match m k with | some v => .found v | none => .absent)
  | .has k => (m, .bool (m k).isSome)
  | .size k => (m, match m k with | some v => .sizeOf v.length | none => .absent)
  | .rm k => (upd m k none, .bool (m k).isSome)

/-- the specification run over a list of calls: final map and the list of results -/
def specRun (imm : Bool) (m : Key → Option Val) : List Op → (Key → Option Val) × List Res
  | [] => (m, [])
  | op :: ops => ((specRun imm (specStep imm m op).1 ops).1, (specStep imm m op).2 :: (specRun imm (specStep imm m op).1 ops).2)

theorem specRun_append (imm : Bool) (m : Key → Option Val) (a b : List Op) :
    specRun imm m (a ++ b) =
      ((specRun imm (specRun imm m a).1 b).1, (specRun imm m a).2 ++ (specRun imm (specRun imm m a).1 b).2) := by
  induction a generalizing m with
  | nil => simp [specRun]
  | cons op a ih => simp [specRun, ih]

/-- THE LINEARIZATION POINT.  `linOf s t = some (op, r)` : the section thread `t` is about to run from `s` is the
    linearization point of its call `op`, which takes effect there with result `r` (a function of the state at
    that point only):
      Put     the index section (putStored → …); when it returns early (ErrKeyExists in immutable mode, same value)
              its lookup section;
      Remove  the Index.Remove section (rmRead → rmIndexed); the lookup when the key is absent;
      Get / Has / GetSize   the lookup section (the primary is append-only, the value read later is the value
              at that location now). -/
def linOf (s : State) (t : Thread) : Option (Op × Res) :=
  match t.pc with
  | .idle =>
    match t.prog with
    | [] => none
    | .put k v :: _ =>
      match lookup s.idx k with
      | none => none
      | some loc =>
        if s.imm then some (.put k v, .keyExists)
        else if s.pri[loc]?.map (·.2) = some v then some (.put k v, .ok) else none
    | .rm k :: _ =>
      match lookup s.idx k with
      | none => some (.rm k, .bool false)
      | some _ => none
    | op :: _ =>
      match lookup s.idx op.key with
      | none => some (op, absentRes op)
      | some loc => some (op, readRes s.pri op loc)
  | .putStored k v prev _ =>
    match prev with
    | none => some (.put k v, .ok)
    | some _ => some (.put k v, if (lookup s.idx k).isSome then .ok else .err)
  | .rmRead k _ => some (.rm k, .bool (lookup s.idx k).isSome)
  | _ => none

/-- the linearization point of the next section of thread `i` -/
def linPoint (s : State) (i : Nat) : Option (Op × Res) := (s.threads[i]?).bind (linOf s)

theorem readKey_key {op : Op} {k : Key} (h : op.readKey = some k) : op.key = k := by
  cases op <;> simp_all [Op.readKey, Op.key]

theorem linOf_idle_read {s : State} {t : Thread} {op : Op} {k : Key} {rest : List Op} (hpc : t.pc = .idle)
    (hp : t.prog = op :: rest) (hk : op.readKey = some k) :
    linOf s t = match lookup s.idx k with
      | none => some (op, absentRes op)
      | some loc => some (op, readRes s.pri op loc) := by
  unfold linOf
  cases op <;> simp_all [Op.readKey, Op.key]

theorem upd_self (m : Key → Option Val) (k : Key) : upd m k (m k) = m := by
  funext k'; unfold upd; split
  · rename_i h; rw [h]
  · rfl

/-- SIMULATION.  From a well-formed state in which mutators have an accurate view (no overlap), a section that is a
    linearization point is exactly the specification step of its call; any other section leaves the abstract
    contents unchanged. -/
theorem sim_sec {s s' : State} {i : Nat} {t : Thread} (h0 : Inv0 s) (ha : Acc s)
    (ht : s.threads[i]? = some t) (h : Sec s i t s') :
    match linOf s t with
    | some (op, r) => specStep s.imm (contents s) op = (contents s', r)
    | none => contents s' = contents s := by
  have hT := h0.thr i t ht
  have hA := ha i t ht
  cases h with
  | putLook k v rest hpc hp =>
    simp only [linOf, hpc, hp, contents_setThread]
    cases hl : lookup s.idx k with
    | none => simp
    | some loc =>
      obtain ⟨v', hv', hc⟩ := contents_eq_some h0.wf hl
      simp only []
      cases himm : s.imm with
      | true => simp [specStep, hc]
      | false =>
        simp only [hv', Option.map_some, Option.some.injEq, Bool.false_eq_true, if_false]
        by_cases hvv : v' = v
        · simp [hvv, specStep, hc]
        · simp [hvv]
  | rmAbsent k rest hpc hp hl =>
    simp only [linOf, hpc, hp, hl, contents_setThread, specStep, contents_eq_none hl]
    rw [← contents_eq_none hl, upd_self]; simp [contents_eq_none hl]
  | rmLook k rest loc hpc hp hl => simp only [linOf, hpc, hp, hl, contents_setThread]
  | readAbsent op k rest hpc hp hk hl =>
    rw [linOf_idle_read hpc hp hk]
    simp only [hl, contents_setThread]
    cases op <;> simp_all [Op.readKey, specStep, contents_eq_none hl, absentRes]
  | readLook op k rest loc hpc hp hk hl =>
    rw [linOf_idle_read hpc hp hk]
    simp only [hl, contents_setThread]
    obtain ⟨v', hv', hc⟩ := contents_eq_some h0.wf hl
    cases op <;> simp_all [Op.readKey, specStep, readRes]
  | putKeyExists k v loc hpc himm => simp only [linOf, hpc, contents_setThread]
  | putSame k v loc hpc himm hv => simp only [linOf, hpc, contents_setThread]
  | putReadNew k v hpc => simp only [linOf, hpc, contents_setThread]
  | putReadUpd k v loc hpc himm hv => simp only [linOf, hpc, contents_setThread]
  | putStore k v prev hpc =>
    simp only [linOf, hpc, contents_setThread]
    funext k'; exact contents_appendPri h0.wf _ k'
  | putIndexNew k v loc hpc =>
    simp only [TWF, hpc] at hT
    simp only [TAcc, hpc] at hA
    simp only [linOf, hpc, contents_setThread, hA, Option.isSome_none, Bool.false_eq_true, if_false, specStep,
      contents_eq_none hA]
    congr 1
    funext k'
    rw [contents_setIdx]
    simp [upd, hT.2.1]
  | putIndexUpd k v p loc hpc hl =>
    simp only [TWF, hpc] at hT
    simp only [TAcc, hpc] at hA
    obtain ⟨v', hv', hc⟩ := contents_eq_some h0.wf hA
    have himm := (hT.2.2 p rfl).2
    simp only [linOf, hpc, contents_setThread, hl, if_true, specStep, hc]
    rw [if_neg (by simp [himm])]
    have : contents { s with idx := setIdx s.idx k loc } = upd (contents s) k (some v) := by
      funext k'
      rw [contents_setIdx]
      simp [upd, hT.2.1]
    rw [this]
    split
    · rename_i hvv; rw [← hvv, ← hc, upd_self]
    · rfl
  | putIndexErr k v p loc hpc hl =>
    simp only [TAcc, hpc] at hA
    rw [hA] at hl; simp at hl
  | putFree k p hpc => simp only [linOf, hpc, contents_setThread]; rfl
  | readDone op loc hpc => simp only [linOf, hpc, contents_setThread]
  | rmReadS k loc hpc => simp only [linOf, hpc, contents_setThread]
  | rmIndex k loc hpc =>
    simp only [linOf, hpc, contents_setThread, specStep, contents_isSome h0.wf]
    congr 1
    funext k'
    rw [contents_delIdx]; rfl
  | rmFree k loc removed hpc =>
    simp only [linOf, hpc, contents_setThread]
    cases removed <;> rfl

end Sth.Conc
