/-
Insertion sort of pairs by first component (`sortPairs`): permutation, strict sortedness under
distinct keys, and independence from the input order.
-/
import Sth.Model.Machine
import Sth.Lemmas.LexMore

namespace Sth

/-- trichotomy of the lexicographic order -/
theorem klt_total : ∀ {a b : Key}, ¬ klt a b → ¬ klt b a → a = b
  | [], [], _, _ => rfl
  | [], _ :: _, h1, _ => absurd (by simp [klt]) h1
  | _ :: _, [], _, h2 => absurd (by simp [klt]) h2
  | a :: as, b :: bs, h1, h2 => by
    simp only [klt, not_or, not_and] at h1 h2
    have hab : a = b := by omega
    subst hab
    have := klt_total (a := as) (b := bs) (h1.2 rfl) (h2.2 rfl)
    rw [this]

theorem kle_iff {a b : Bytes} : kle a b = true ↔ ¬ klt b a := by
  simp [kle]

theorem insertPair_perm (x : Bytes × Bytes) : ∀ acc, (insertPair x acc).Perm (x :: acc)
  | [] => by simp [insertPair]
  | y :: ys => by
    unfold insertPair
    split
    · exact List.Perm.refl _
    · exact ((insertPair_perm x ys).cons y).trans (List.Perm.swap x y ys)

theorem foldl_insertPair_perm : ∀ (l acc : List (Bytes × Bytes)),
    (l.foldl (fun acc x => insertPair x acc) acc).Perm (l ++ acc)
  | [], acc => by simp
  | x :: l, acc => by
    simp only [List.foldl_cons]
    refine (foldl_insertPair_perm l (insertPair x acc)).trans ?_
    refine ((insertPair_perm x acc).append_left l).trans ?_
    simp

theorem sortPairs_perm (l : List (Bytes × Bytes)) : (sortPairs l).Perm l := by
  simpa [sortPairs] using foldl_insertPair_perm l []

/-- strict sortedness by first component -/
abbrev SortedP (l : List (Bytes × Bytes)) : Prop := l.Pairwise (fun p q => klt p.1 q.1)

theorem insertPair_sorted (x : Bytes × Bytes) : ∀ acc, SortedP acc → (∀ y ∈ acc, x.1 ≠ y.1) →
    SortedP (insertPair x acc)
  | [], _, _ => by simp [insertPair, SortedP]
  | y :: ys, hs, hne => by
    have hs' := List.pairwise_cons.1 hs
    unfold insertPair
    split
    · rename_i hk
      have hxy : klt x.1 y.1 := by
        have h1 := kle_iff.1 hk
        apply Decidable.byContradiction
        intro h2
        exact hne y (by simp) (klt_total h2 h1)
      refine List.pairwise_cons.2 ⟨?_, hs⟩
      intro z hz
      rcases List.mem_cons.1 hz with rfl | hz
      · exact hxy
      · exact klt_trans hxy (hs'.1 z hz)
    · rename_i hk
      have hyx : klt y.1 x.1 := by
        apply Decidable.byContradiction
        intro h2
        exact hk (kle_iff.2 h2)
      refine List.pairwise_cons.2 ⟨?_, insertPair_sorted x ys hs'.2 (fun z hz => hne z (by simp [hz]))⟩
      intro z hz
      rcases List.mem_cons.1 ((insertPair_perm x ys).mem_iff.1 hz) with rfl | hz
      · exact hyx
      · exact hs'.1 z hz

theorem foldl_insertPair_sorted : ∀ (l acc : List (Bytes × Bytes)), SortedP acc →
    ((l ++ acc).map (·.1)).Nodup → SortedP (l.foldl (fun acc x => insertPair x acc) acc)
  | [], _, hs, _ => by simpa using hs
  | x :: l, acc, hs, hd => by
    simp only [List.foldl_cons]
    have hd' : (x.1 :: (l ++ acc).map (·.1)).Nodup := by simpa using hd
    have hd'' := List.nodup_cons.1 hd'
    apply foldl_insertPair_sorted l (insertPair x acc)
    · apply insertPair_sorted x acc hs
      intro y hy he
      exact hd''.1 (List.mem_map.2 ⟨y, by simp [hy], he.symm⟩)
    · have hp : ((l ++ insertPair x acc).map (·.1)).Perm ((x :: l ++ acc).map (·.1)) := by
        apply List.Perm.map
        refine ((insertPair_perm x acc).append_left l).trans ?_
        simp
      exact hp.nodup_iff.2 hd

theorem sortPairs_sorted (l : List (Bytes × Bytes)) (hd : (l.map (·.1)).Nodup) :
    (sortPairs l).Pairwise (fun p q => klt p.1 q.1) := by
  apply foldl_insertPair_sorted l [] (by simp [SortedP])
  simpa using hd

/-- insertion sort of pairs by first component does not depend on the input order when the first components are distinct -/
theorem sortPairs_perm_eq (l l' : List (Bytes × Bytes)) (hp : l.Perm l') (hd : (l.map (·.1)).Nodup) :
    sortPairs l = sortPairs l' := by
  have hd' : (l'.map (·.1)).Nodup := (hp.map (·.1)).nodup_iff.1 hd
  refine List.Perm.eq_of_pairwise ?_ (sortPairs_sorted l hd) (sortPairs_sorted l' hd') ?_
  · intro a b _ _ h1 h2
    exact absurd h2 (klt_asymm h1)
  · exact (sortPairs_perm l).trans (hp.trans (sortPairs_perm l').symm)

end Sth
