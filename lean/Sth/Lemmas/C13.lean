/-
C13 — the freelist records exactly the superseded primary locations (sequential core).

Definitions (`recorded`, `currentOf`, `delta`, `superseded`), the freelist invariant `FInv`, its
preservation by every C01 call, and the run.  Reuses the C01 development (`Inv`, `lookup`, the index
update lemmas); the put / remove lemmas of Sth/Lemmas/StoreMut.lean hide the new record list and the
freed block behind existentials, so their first halves are re-proved here with the shape exposed.
Core Lean only.
-/
import Sth.Lemmas.C01

namespace Sth

/-! ### definitions -/

/-- the entries of the freelist file, in file order -/
def flEntries (d : Disk) : List Block :=
  (parseFreeList ((d.free.getD []).length + 1) (d.free.getD []) []).1

/-- everything recorded on the freelist so far: file first, then the memory pool, in order of recording -/
def recorded (s : SState) : List Block := flEntries s.d ++ s.m.flpool

/-- the block the index names for a digest (`Index.Get`); for a key present in the specification map
    this is the block of its current record (`currentOf_present`) -/
def currentOf (s : SState) (dig : Bytes) : Option Block :=
  match idxGet s.m s.d dig with
  | .ok r => r
  | .error _ => none

/-- what one call must add to the freelist: the current block of the key when the call overwrites
    (mutable store, different value) or removes a present key, nothing otherwise.  Driven by the
    specification map `spec` and the model's current blocks. -/
def delta (c : Cfg) (spec : Spec) (s : SState) : SOp → List Block
  | .put k v =>
    match keyClass c.kind k with
    | .error _ => []
    | .ok dig =>
      match spec.get dig with
      | none => []
      | some (_, old) =>
        if c.imm = true then [] else if old = v then [] else (currentOf s dig).toList
  | .rm k =>
    match keyClass c.kind k with
    | .error _ => []
    | .ok dig =>
      match spec.get dig with
      | none => []
      | some _ => (currentOf s dig).toList
  | _ => []

/-- the concatenation of the per-call `delta`s along a run -/
def superseded (c : Cfg) : Spec → SState → List SOp → List Block
  | _, _, [] => []
  | spec, s, op :: ops =>
    delta c spec s op ++ superseded c (specStep c.kind c.imm spec op).1 (stepS s op).1 ops

/-! ### parsing a well-formed freelist file -/

theorem blockBytes_length (b : Block) : (blockBytes b).length = 12 := by
  simp [blockBytes, le64, le32, leEnc_length]

theorem flat_length : ∀ l : List Block, (l.flatMap blockBytes).length = 12 * l.length
  | [] => rfl
  | b :: l => by
    simp only [List.flatMap_cons, List.length_append, blockBytes_length, flat_length l, List.length_cons]
    omega

theorem parse_flat : ∀ (l : List Block) (fuel : Nat) (acc : List Block),
    (∀ b ∈ l, b.off < two64 ∧ b.size < two32) → l.length < fuel →
    parseFreeList fuel (l.flatMap blockBytes) acc = (acc.reverse ++ l, true)
  | [], fuel, acc => by
    intro _ hf
    obtain ⟨f, rfl⟩ : ∃ f, fuel = f + 1 := ⟨fuel - 1, by simp at hf; omega⟩
    simp [parseFreeList]
  | b :: l, fuel, acc => by
    intro h hf
    obtain ⟨f, rfl⟩ : ∃ f, fuel = f + 1 := ⟨fuel - 1, by simp at hf; omega⟩
    have hb := h b (by simp)
    have hA : (le64 b.off).length = 8 := leEnc_length 8 _
    have hB : (le32 b.size).length = 4 := leEnc_length 4 _
    have e : (b :: l).flatMap blockBytes = le64 b.off ++ (le32 b.size ++ l.flatMap blockBytes) := by
      simp [blockBytes]
    have hne : ((b :: l).flatMap blockBytes).isEmpty = false := by
      rw [e]
      cases h0 : le64 b.off with
      | nil => rw [h0] at hA; simp at hA
      | cons _ _ => rfl
    have hlen : ¬ ((b :: l).flatMap blockBytes).length < 12 := by
      rw [flat_length]; simp only [List.length_cons]; omega
    have h1 : ((b :: l).flatMap blockBytes).take 8 = le64 b.off := by
      rw [e, List.take_left' hA]
    have h2 : (((b :: l).flatMap blockBytes).drop 8).take 4 = le32 b.size := by
      rw [e, List.drop_left' hA, List.take_left' hB]
    have h3 : ((b :: l).flatMap blockBytes).drop 12 = l.flatMap blockBytes := by
      have e' : (b :: l).flatMap blockBytes = (le64 b.off ++ le32 b.size) ++ l.flatMap blockBytes := by
        rw [e]; simp
      rw [e', List.drop_left' (by simp [hA, hB])]
    rw [parseFreeList]
    simp only [hne, hlen, h1, h2, h3, Bool.false_eq_true, if_false]
    rw [le64, leDec_leEnc 8 _ hb.1, le32, leDec_leEnc 4 _ hb.2,
      parse_flat l f (b :: acc) (fun x hx => h x (by simp [hx])) (by simp at hf; omega)]
    simp

theorem flEntries_of_flat {d : Disk} {l : List Block} (h : d.free.getD [] = l.flatMap blockBytes)
    (hr : ∀ b ∈ l, b.off < two64 ∧ b.size < two32) : flEntries d = l := by
  unfold flEntries
  rw [h, parse_flat l _ [] hr (by rw [flat_length]; omega)]
  simp

/-! ### Put / Remove with the new record list and the freed block exposed -/

section
variable {kind : PKind} {bits : Nat} {U : List (Bytes × Bytes)} {P : Block → PGet}
  {below : Block → Prop} {spec : Spec}

/-- a block is an entry of at most one bucket -/
theorem BlockOK.bucket_unique (hU : Univ kind U) {b b' : Nat} {blk : Block}
    (h : BlockOK kind bits U P below spec b blk) (h' : BlockOK kind bits U P below spec b' blk) :
    b = b' := by
  obtain ⟨k1, v1, d1, a1, a2, a3, _, _⟩ := h.ex
  obtain ⟨k2, v2, d2, b1, b2, b3, _, _⟩ := h'.ex
  rw [a1] at b1
  cases b1
  have e1 := (hU.dig a2).1
  have e2 := (hU.dig b2).1
  rw [e1] at e2
  cases e2
  rw [a3] at b3
  cases b3
  rfl

end

section
variable {U : List (Bytes × Bytes)} {m : Mem} {d : Disk} {spec : Spec}

/-- Put of a key that is not in the map: the bucket's new list holds the new block and old blocks -/
theorem storePut_absent_shape (hU : Univ m.kind U) (h8 : 8 ≤ m.bits) (h31 : m.bits ≤ 31)
    (hI : SInv U m d spec) {key val dig : Bytes} (hpre : PutPre m key val)
    (hk : (key, dig) ∈ U) (hs : Spec.get spec dig = none) :
    ∃ b orl rl, storePut m d key val = (setNext (putMem m key val) b rl, .ok) ∧
      idxRecords m d b = .ok orl ∧
      ∀ e ∈ rl, e.blk = nextBlk m (key.length + val.length) ∨ ∃ e0 ∈ orl.getD [], e0.blk = e.blk := by
  have hik := (hU.dig hk).1
  cases lookup hU h31 hI hk with
  | present val' b pre e post hs' => rw [hs] at hs'; cases hs'
  | absent b orl _ hb hr ho hB hg =>
    have hstrip := (stripKey_of_bucket m.bits h31 dig b hb)
    have hP : ∀ blk k v, Below m blk → priGet m d blk = .got k v →
        priGet (putMem m key val) d blk = .got k v :=
      fun blk k v hbl hgt => priGet_putMem_old d key val hpre.pmax hbl hgt
    have hnew := priGet_putMem_new d key val hpre.pmax hpre.pool
    have hown' : ownOf m.kind m.bits (priGet (putMem m key val) d)
        (nextBlk m (key.length + val.length)) = some (dig.drop (m.bits / 8)) :=
      ownOf_got hnew hik hstrip.1
    have ho' : OInv (ownOf m.kind m.bits (priGet (putMem m key val) d)) (orl.getD []) := by
      apply OInv.congr _ ho
      intro e he k hk'
      exact ownOf_mono (fun k v hgt => hP _ k v (hB e he).below hgt) hk'
    have hfresh : nextBlk m (key.length + val.length) ∉ (orl.getD []).map (·.blk) := by
      intro hm
      obtain ⟨e, he, heq⟩ := List.mem_map.mp hm
      have := (hB e he).below
      rw [heq] at this
      exact not_below_next hpre.pmax _ this
    have hput : ∃ rl', indexPut (fullOf (putMem m key val) d) orl (dig.drop (m.bits / 8))
          (nextBlk m (key.length + val.length)) = .set rl' ∧
        OInv (ownOf m.kind m.bits (priGet (putMem m key val) d)) rl' ∧
        (rl'.map (·.blk)).Perm (nextBlk m (key.length + val.length) :: (orl.getD []).map (·.blk)) := by
      cases orl with
      | none =>
        have := indexPut_none_ok' (own := ownOf m.kind m.bits (priGet (putMem m key val) d))
          (fullOf (putMem m key val) d) hstrip.2.1 hown'
        exact ⟨_, this.1, this.2, by simp⟩
      | some rl =>
        simp only [Option.getD_some] at ho' hfresh hB ⊢
        apply indexPut_absent' (fullOf (putMem m key val) d) ho' hstrip.2.1 _ hown' hfresh
        · intro e he ko hko
          apply fullOf_of_own
          rw [putMem_kind, putMem_bits]
          exact hko
        · intro e he ko hko
          obtain ⟨key0, val0, dig0, e1, e2, e3, e4, e5⟩ := (hB e he).own hU h31
          have := ownOf_mono (P' := priGet (putMem m key val) d)
            (fun k v hgt => hP _ k v (hB e he).below hgt) e5
          rw [hko] at this
          cases this
          have hne : dig ≠ dig0 := by
            rintro rfl
            rw [hs] at e4
            cases e4
          exact hU.apart h8 h31 hk e2 hne hb e3
    obtain ⟨rl', hset, horl', hperm⟩ := hput
    have hblk : ∀ e ∈ rl', BlockOK m.kind m.bits U (priGet (putMem m key val) d)
        (Below (putMem m key val)) (Spec.set spec dig key val) b e.blk := by
      intro e he
      have hm : e.blk ∈ rl'.map (·.blk) := List.mem_map_of_mem he
      rw [hperm.mem_iff, List.mem_cons] at hm
      rcases hm with hm | hm
      · rw [hm]
        refine ⟨⟨key, val, dig, hnew, hk, hb, nextBlk_size _ _, Spec.get_set_eq _ _ _ _⟩,
          below_putMem_new hpre.pmax key val, hpre.off, ?_⟩
        rw [nextBlk_size]; exact hpre.size
      · obtain ⟨e0, he0, heq⟩ := List.mem_map.mp hm
        rw [← heq]
        apply (hB e0 he0).mono hP (fun blk hb => below_putMem key val hb)
        intro key0 val0 dig0 hg0 hm0
        exact Spec.get_set_ne _ _ _ _ ((hB e0 he0).dig_ne_of_absent hU hs key0 val0 dig0 hg0 hm0)
    have hnorm : normRL rl' = rl' := normRL_of_wf (wf_of_inv hU h31 horl' hblk)
    have hidx : idxPut (putMem m key val) d dig (nextBlk m (key.length + val.length)) =
        .ok (setNext (putMem m key val) b rl') := by
      have := idxPut_eq (m := putMem m key val) (d := d) (dig := dig) (b := b) (recs := orl)
        (loc := nextBlk m (key.length + val.length)) (rl := rl')
        (by rw [putMem_bits]; exact hb) (by rw [putMem_bits]; exact hstrip.1)
        (by rw [idxRecords_putMem]; exact hr) hset
      rw [hnorm] at this
      exact this
    refine ⟨b, orl, rl', ?_, hr, ?_⟩
    · unfold storePut
      rcases hg with hg | ⟨blk, k', v', dig', hg, e1, e2, e3⟩
      · simp only [hik, hg, priPut_eq, hidx]
      · simp only [hik, hg, gpkd_miss e1 e2 e3, priPut_eq, hidx]
    · intro e he
      have hm : e.blk ∈ rl'.map (·.blk) := List.mem_map_of_mem he
      rw [hperm.mem_iff, List.mem_cons] at hm
      rcases hm with hm | hm
      · exact Or.inl hm
      · obtain ⟨e0, he0, heq⟩ := List.mem_map.mp hm
        exact Or.inr ⟨e0, he0, heq⟩

/-- what the lookup of a present key exposes, shared by the update and the remove lemma -/
structure CurEntry (U : List (Bytes × Bytes)) (m : Mem) (d : Disk) (spec : Spec) (key old dig : Bytes)
    (b : Nat) (pre : RecordList) (e : Entry) (post : RecordList) : Prop where
  bucket : bucketOfKey m.bits dig = some b
  recs : idxRecords m d b = .ok (some (pre ++ e :: post))
  oinv : OInv (ownOf m.kind m.bits (priGet m d)) (pre ++ e :: post)
  blocks : ∀ x ∈ pre ++ e :: post, BlockOK m.kind m.bits U (priGet m d) (Below m) spec b x.blk
  got : priGet m d e.blk = .got key old
  idx : idxGet m d dig = .ok (some e.blk)

/-- Put of a present key with a different value in a mutable store: the entry is re-pointed at the new
    block and the block `Index.Get` named goes to the freelist pool -/
theorem storePut_update_shape (hU : Univ m.kind U) (h31 : m.bits ≤ 31)
    (hI : SInv U m d spec) {key val dig key0 old : Bytes}
    (hk : (key, dig) ∈ U) (hs : Spec.get spec dig = some (key0, old))
    (himm : m.imm = false) (hv : val ≠ old) (hpre : PutPre m key val) :
    ∃ b pre e post,
      storePut m d key val =
        (addFree (setNext (putMem m key val) b
          (pre ++ (⟨e.pfx, nextBlk m (key.length + val.length)⟩ : Entry) :: post)) e.blk, .ok) ∧
      CurEntry U m d spec key old dig b pre e post := by
  have hik := (hU.dig hk).1
  cases lookup hU h31 hI hk with
  | absent b orl hs' => rw [hs] at hs'; cases hs'
  | present val' b pre e post hs' hb hr ho hB hp hown hsz hg =>
    rw [hs] at hs'
    cases hs'
    have hstrip := (stripKey_of_bucket m.bits h31 dig b hb)
    have hP : ∀ blk k v, Below m blk → priGet m d blk = .got k v →
        priGet (putMem m key val) d blk = .got k v :=
      fun blk k v hbl hgt => priGet_putMem_old d key val hpre.pmax hbl hgt
    have hnew := priGet_putMem_new d key val hpre.pmax hpre.pool
    have hown' : ownOf m.kind m.bits (priGet (putMem m key val) d)
        (nextBlk m (key.length + val.length)) = some (dig.drop (m.bits / 8)) :=
      ownOf_got hnew hik hstrip.1
    have ho' : OInv (ownOf m.kind m.bits (priGet (putMem m key val) d)) (pre ++ e :: post) := by
      apply OInv.congr _ ho
      intro x hx k hk'
      exact ownOf_mono (fun k v hgt => hP _ k v (hB x hx).below hgt) hk'
    have howne' : ownOf m.kind m.bits (priGet (putMem m key val) d) e.blk =
        some (dig.drop (m.bits / 8)) :=
      ownOf_mono (fun k v hgt => hP _ k v (hB e (by simp)).below hgt) hown
    have hfresh : nextBlk m (key.length + val.length) ∉ (pre ++ e :: post).map (·.blk) := by
      intro hm
      obtain ⟨x, hx, heq⟩ := List.mem_map.mp hm
      have := (hB x hx).below
      rw [heq] at this
      exact not_below_next hpre.pmax _ this
    obtain ⟨hupd, horl'⟩ := indexUpdate_ok' ho' howne' hown' hfresh
    have hblk : ∀ x ∈ pre ++ (⟨e.pfx, nextBlk m (key.length + val.length)⟩ : Entry) :: post,
        BlockOK m.kind m.bits U (priGet (putMem m key val) d)
          (Below (putMem m key val)) (Spec.set spec dig key val) b x.blk := by
      intro x hx
      have hold : x ∈ pre ++ post → BlockOK m.kind m.bits U (priGet (putMem m key val) d)
          (Below (putMem m key val)) (Spec.set spec dig key val) b x.blk := by
        intro hx'
        have hx'' : x ∈ pre ++ e :: post := by
          simp only [List.mem_append, List.mem_cons] at hx' ⊢
          rcases hx' with h | h
          · exact Or.inl h
          · exact Or.inr (Or.inr h)
        apply (hB x hx'').mono hP (fun blk hb => below_putMem key val hb)
        intro key1 val1 dig1 hg1 hm1
        exact Spec.get_set_ne _ _ _ _ (other_dig_ne hU h31 ho hB hown hx' key1 val1 dig1 hg1 hm1)
      simp only [List.mem_append, List.mem_cons] at hx
      rcases hx with h | rfl | h
      · exact hold (by simp [h])
      · refine ⟨⟨key, val, dig, hnew, hk, hb, nextBlk_size _ _, Spec.get_set_eq _ _ _ _⟩,
          below_putMem_new hpre.pmax key val, hpre.off, ?_⟩
        simp only [nextBlk_size]; exact hpre.size
      · exact hold (by simp [h])
    have hnorm := normRL_of_wf (wf_of_inv hU h31 horl' hblk)
    have hidx : idxUpdate (putMem m key val) d dig (nextBlk m (key.length + val.length)) =
        .ok (setNext (putMem m key val) b
          (pre ++ (⟨e.pfx, nextBlk m (key.length + val.length)⟩ : Entry) :: post)) := by
      have := idxUpdate_eq (m := putMem m key val) (d := d) (dig := dig) (b := b)
        (recs := some (pre ++ e :: post))
        (loc := nextBlk m (key.length + val.length))
        (by rw [putMem_bits]; exact hb) (by rw [putMem_bits]; exact hstrip.1)
        (by rw [idxRecords_putMem]; exact hr) hupd
      rw [hnorm] at this
      exact this
    refine ⟨b, pre, e, post, ?_, ⟨hb, hr, ho, hB, hp, hg⟩⟩
    unfold storePut
    simp only [hik, hg, gpkd_hit hp hik, himm, hv, Bool.false_eq_true, if_false, priPut_eq, hidx,
      Option.getD_some]
    rfl

/-- Remove of a present key: the entry is dropped and the block `Index.Get` named goes to the pool -/
theorem storeRemove_shape (hU : Univ m.kind U) (h31 : m.bits ≤ 31)
    (hI : SInv U m d spec) {key dig key0 old : Bytes} (hk : (key, dig) ∈ U)
    (hs : Spec.get spec dig = some (key0, old)) :
    ∃ b pre e post,
      storeRemove m d key = (addFree (setNext m b (pre ++ post)) e.blk, .val true) ∧
      CurEntry U m d spec key old dig b pre e post := by
  have hik := (hU.dig hk).1
  cases lookup hU h31 hI hk with
  | absent b orl hs' => rw [hs] at hs'; cases hs'
  | present val b pre e post hs' hb hr ho hB hp hown hsz hg =>
    rw [hs] at hs'
    cases hs'
    have hstrip := (stripKey_of_bucket m.bits h31 dig b hb)
    obtain ⟨hrm, horl'⟩ := indexRemove_ok' ho hown
    have hblk : ∀ x ∈ pre ++ post, BlockOK m.kind m.bits U (priGet m d) (Below m)
        (Spec.del spec dig) b x.blk := by
      intro x hx
      have hx'' : x ∈ pre ++ e :: post := by
        simp only [List.mem_append, List.mem_cons] at hx ⊢
        rcases hx with h | h
        · exact Or.inl h
        · exact Or.inr (Or.inr h)
      apply (hB x hx'').mono (fun _ _ _ _ h => h) (fun _ h => h)
      intro key1 val1 dig1 hg1 hm1
      exact Spec.get_del_ne _ _ (other_dig_ne hU h31 ho hB hown hx key1 val1 dig1 hg1 hm1)
    have hnorm := normRL_of_wf (wf_of_inv hU h31 horl' hblk)
    have hidx : idxRemove m d dig = .ok (setNext m b (pre ++ post), true) := by
      have := idxRemove_eq (m := m) (d := d) (dig := dig) (b := b)
        (recs := some (pre ++ e :: post)) hb hstrip.1 hr hrm
      rw [hnorm] at this
      exact this
    refine ⟨b, pre, e, post, ?_, ⟨hb, hr, ho, hB, hp, hg⟩⟩
    unfold storeRemove
    simp only [hik, hg, gpkd_hit hp hik, hidx, if_true]
    rfl

end

/-! ### the freelist invariant -/

theorem putMem_flpool (m : Mem) (key val : Bytes) : (putMem m key val).flpool = m.flpool := by
  unfold putMem; split <;> rfl

structure FInv (s : SState) : Prop where
  /-- the file is a whole number of well-formed 12-byte entries -/
  file : s.d.free.getD [] = (flEntries s.d).flatMap blockBytes
  rng : ∀ b ∈ recorded s, b.off < two64 ∧ b.size < two32
  /-- every recorded block was handed out by the allocator -/
  below : ∀ b ∈ recorded s, Below s.m b
  /-- no index entry names a recorded block -/
  notcur : ∀ bkt rl, idxRecords s.m s.d bkt = .ok (some rl) → ∀ e ∈ rl, e.blk ∉ recorded s
  nodup : (recorded s).Nodup

/-- a call that only changes the memory state and appends `Δ` to the freelist pool -/
theorem FInv.update {s : SState} (h : FInv s) {m' : Mem} (Δ : List Block)
    (hfl : m'.flpool = s.m.flpool ++ Δ)
    (hbel : ∀ b, Below s.m b → Below m' b)
    (hrng : ∀ b ∈ Δ, b.off < two64 ∧ b.size < two32)
    (hΔbel : ∀ b ∈ Δ, Below s.m b)
    (hΔnew : ∀ b ∈ Δ, b ∉ recorded s) (hΔnd : Δ.Nodup)
    (hcur : ∀ bkt rl, idxRecords m' s.d bkt = .ok (some rl) →
      ∀ e ∈ rl, e.blk ∉ recorded s ∧ e.blk ∉ Δ) :
    FInv { s with m := m' } ∧ recorded { s with m := m' } = recorded s ++ Δ := by
  have hrec : recorded { s with m := m' } = recorded s ++ Δ := by
    unfold recorded
    simp only [hfl, List.append_assoc]
  refine ⟨⟨h.file, ?_, ?_, ?_, ?_⟩, hrec⟩
  · intro b hb
    rw [hrec, List.mem_append] at hb
    rcases hb with hb | hb
    · exact h.rng b hb
    · exact hrng b hb
  · intro b hb
    rw [hrec, List.mem_append] at hb
    rcases hb with hb | hb
    · exact hbel b (h.below b hb)
    · exact hbel b (hΔbel b hb)
  · intro bkt rl hr e he hm
    rw [hrec, List.mem_append] at hm
    have := hcur bkt rl hr e he
    rcases hm with hm | hm
    · exact this.1 hm
    · exact this.2 hm
  · rw [hrec, List.nodup_append]
    exact ⟨h.nodup, hΔnd, fun a ha b hb hab => hΔnew b hb (hab ▸ ha)⟩

/-- a call that leaves the memory state alone -/
theorem FInv.same {s : SState} (h : FInv s) : FInv { s with m := s.m } ∧
    recorded { s with m := s.m } = recorded s ++ [] := by
  apply h.update [] (by simp) (fun _ hb => hb) (by simp) (by simp) (by simp) (by simp)
  intro bkt rl hr e he
  exact ⟨h.notcur bkt rl hr e he, by simp⟩

/-- a flush: observations unchanged, the pool either stays or moves to the end of the file -/
theorem FInv.flush {s : SState} (h : FInv s) {m' : Mem} {d' : Disk}
    (hR : ∀ b, idxRecords m' d' b = idxRecords s.m s.d b)
    (hBel : ∀ blk, Below s.m blk → Below m' blk)
    (hfl : (m'.flpool = s.m.flpool ∧ d'.free = s.d.free) ∨
      (m'.flpool = [] ∧ d'.free = some (s.d.free.getD [] ++ s.m.flpool.flatMap blockBytes))) :
    FInv { s with m := m', d := d' } ∧ recorded { s with m := m', d := d' } = recorded s := by
  have hent : flEntries d' ++ m'.flpool = recorded s ∧
      d'.free.getD [] = (flEntries d').flatMap blockBytes := by
    rcases hfl with ⟨h1, h2⟩ | ⟨h1, h2⟩
    · have : flEntries d' = flEntries s.d := by unfold flEntries; rw [h2]
      rw [this, h1, h2]
      exact ⟨rfl, h.file⟩
    · have hflat : d'.free.getD [] = (recorded s).flatMap blockBytes := by
        rw [h2, Option.getD_some, h.file]
        unfold recorded
        rw [List.flatMap_append]
      have := flEntries_of_flat hflat h.rng
      rw [this, h1, List.append_nil]
      exact ⟨rfl, hflat⟩
  have hrec : recorded { s with m := m', d := d' } = recorded s := hent.1
  refine ⟨⟨hent.2, ?_, ?_, ?_, ?_⟩, hrec⟩
  · rw [hrec]; exact h.rng
  · rw [hrec]; exact fun b hb => hBel b (h.below b hb)
  · rw [hrec]
    intro bkt rl hr
    exact h.notcur bkt rl (by rw [← hR]; exact hr)
  · rw [hrec]; exact h.nodup

/-! ### Store.Flush and the freelist -/

section
variable {U : List (Bytes × Bytes)} {m : Mem} {d : Disk} {spec : Spec} {n B : Nat}

/-- `storeFlush` (hypotheses of `storeFlush_ok`): index observations and allocation are unchanged and the
    freelist pool is either untouched or appended to the file -/
theorem storeFlush_free (hU : Univ m.kind U) (h31 : m.bits ≤ 31) (hA : SInv U m d spec)
    (hP : PInv m d) (hI : IInv m d) (hC : Cnt m n B) (hn : n < 1073741824) (hB : B < two31)
    (hw : specW spec ≤ B) {order : List Nat}
    (hcov : ∀ b rl, m.inext.get? b = some rl → b ∈ order) (hlen : order.length = m.inext.length) :
    ∃ m' d', storeFlush m d order = some (m', d') ∧
      (∀ b, idxRecords m' d' b = idxRecords m d b) ∧ (∀ blk, Below m blk → Below m' blk) ∧
      ((m'.flpool = m.flpool ∧ d'.free = d.free) ∨
        (m'.flpool = [] ∧ d'.free = some (d.free.getD [] ++ m.flpool.flatMap blockBytes))) := by
  unfold storeFlush
  by_cases hout : outstanding m = true
  · rw [if_pos hout]
    unfold commit
    obtain ⟨pc, pfn, plen, pfiles, cidf, p1, p2, p3⟩ := priFlush_ok hP (fun hk => by
      have := (hC.mh hk).1
      unfold two32; omega)
    rw [p1]
    simp only
    have hI1 : IInv (pfl m pc pfn plen) (dfl d pfiles cidf) :=
      hI.frame2 rfl rfl rfl rfl rfl rfl
    have hidx1 : ∀ b, idxRecords (pfl m pc pfn plen) (dfl d pfiles cidf) b = idxRecords m d b :=
      fun _ => rfl
    obtain ⟨ic, fn, len, bk, files, i1, i2, i3, i4⟩ := idxFlush_ok (order := order) hI1
      (fun b => by
        obtain ⟨orl, h1, _⟩ := hA.recs b
        exact ⟨orl, by rw [hidx1]; exact h1⟩)
      (inext_flushOK (m := m) (d := d) hU h31 hA hw hB) hcov (by
        have := hC.idx
        show m.ifileNum + order.length < two32
        unfold two32; omega)
    rw [i1]
    simp only
    unfold flFlush
    by_cases hemp : m.flpool.isEmpty = true
    · have : (ifl (pfl m pc pfn plen) ic fn len bk).flpool.isEmpty = true := hemp
      rw [if_pos this]
      exact ⟨_, _, rfl, fun b => (i3 b).trans (hidx1 b), fun _ hb => hb, Or.inl ⟨rfl, rfl⟩⟩
    · have : ¬ (ifl (pfl m pc pfn plen) ic fn len bk).flpool.isEmpty = true := hemp
      rw [if_neg this]
      exact ⟨_, _, rfl, fun b => (i3 b).trans (hidx1 b), fun _ hb => hb, Or.inr ⟨rfl, rfl⟩⟩
  · rw [if_neg hout]
    exact ⟨m, d, rfl, fun _ => rfl, fun _ hb => hb, Or.inl ⟨rfl, rfl⟩⟩

end

/-! ### one call -/

section
variable {c : Cfg} {U : List (Bytes × Bytes)} {s : SState} {spec : Spec} {n B : Nat}

/-- the index names, for a key of the specification map, the block of its current record -/
theorem currentOf_present (hU : Univ c.kind U) (hI : Inv c U s spec n B) {dig key val : Bytes}
    (hs : Spec.get spec dig = some (key, val)) :
    ∃ blk, currentOf s dig = some blk ∧ priGet s.m s.d blk = .got key val ∧
      ∃ b rl, bucketOfKey s.m.bits dig = some b ∧ idxRecords s.m s.d b = .ok (some rl) ∧
        ∃ e ∈ rl, e.blk = blk := by
  have hU' : Univ s.m.kind U := by rw [hI.kind]; exact hU
  obtain ⟨_, _, _, _, _, _, _, hk⟩ := hI.a.complete dig key val hs
  cases lookup hU' hI.bits31 hI.a hk with
  | absent b orl hs' => rw [hs] at hs'; cases hs'
  | present val' b pre e post hs' hb hr ho hB hp hown hsz hg =>
    rw [hs] at hs'
    cases hs'
    refine ⟨e.blk, ?_, hp, b, _, hb, hr, e, by simp, rfl⟩
    unfold currentOf
    rw [hg]

theorem fstep_put (hU : Univ c.kind U) (hI : Inv c U s spec n B) (hF : FInv s) (k v : Bytes)
    (hkey : ∀ dig, keyClass c.kind k = .ok dig → (k, dig) ∈ U)
    (hn : n + 1 < 1073741824) (hB : B + (k.length + v.length + 17) < two31) :
    FInv (stepS s (.put k v)).1 ∧
      recorded (stepS s (.put k v)).1 = recorded s ++ delta c spec s (.put k v) := by
  have hU' : Univ s.m.kind U := by rw [hI.kind]; exact hU
  cases hcls : keyClass c.kind k with
  | error e =>
    have := storePut_bad (m := s.m) (d := s.d) (k := k) (v := v) (e := e) (by rw [hI.kind]; exact hcls)
    simp only [stepS, this, delta, hcls]
    exact hF.same
  | ok dig =>
    have hk := hkey dig hcls
    have hpre := putPre_of_inv hI (key := k) (val := v) hn hB
    cases hs : Spec.get spec dig with
    | none =>
      obtain ⟨b, orl, rl, h1, h2, h3⟩ := storePut_absent_shape hU' hI.bits8 hI.bits31 hI.a hpre hk hs
      simp only [stepS, h1, delta, hcls, hs]
      apply hF.update [] (by simp [setNext, putMem_flpool]) _ (by simp) (by simp) (by simp) (by simp)
      · intro bkt rl0 hr e he
        refine ⟨?_, by simp⟩
        rw [idxRecords_setNext', idxRecords_putMem] at hr
        by_cases hb : bkt = b
        · subst hb
          rw [if_pos rfl] at hr
          cases hr
          rcases h3 e he with h | ⟨e0, he0, heq⟩
          · intro hm
            have := hF.below _ hm
            rw [h] at this
            exact not_below_next hpre.pmax _ this
          · cases orl with
            | none => simp at he0
            | some rl1 =>
              rw [← heq]
              exact hF.notcur bkt rl1 h2 e0 he0
        · rw [if_neg hb] at hr
          exact hF.notcur bkt rl0 hr e he
      · intro blk hb
        show Below (setNext (putMem s.m k v) b rl) blk
        rw [below_setNext]
        exact below_putMem k v hb
    | some kv =>
      obtain ⟨key0, old⟩ := kv
      obtain ⟨p1, p2, _⟩ := storePut_present (val := v) hU' hI.bits31 hI.a hk hs
      by_cases himm : s.m.imm = true
      · have himm' : c.imm = true := by rw [← hI.imm]; exact himm
        simp only [stepS, p1 himm, delta, hcls, hs, himm', if_true]
        exact hF.same
      · have himm0 : s.m.imm = false := by simpa using himm
        have himm' : c.imm = false := by rw [← hI.imm]; exact himm0
        by_cases hv : v = old
        · subst hv
          simp only [stepS, p2 himm0 rfl, delta, hcls, hs, himm', if_true, Bool.false_eq_true,
            if_false]
          exact hF.same
        · have hv' : ¬ old = v := fun h => hv h.symm
          obtain ⟨b, pre, e, post, h1, hc⟩ :=
            storePut_update_shape hU' hI.bits31 hI.a hk hs himm0 hv hpre
          have hcur : currentOf s dig = some e.blk := by unfold currentOf; rw [hc.idx]
          have he : e ∈ pre ++ e :: post := by simp
          simp only [stepS, h1, delta, hcls, hs, himm', hv', hcur, Bool.false_eq_true, if_false,
            Option.toList_some]
          apply hF.update [e.blk] (by simp [addFree, setNext, putMem_flpool]) _ _ _ _ (by simp)
          · intro bkt rl0 hr x hx
            rw [idxRecords_addFree, idxRecords_setNext', idxRecords_putMem] at hr
            simp only [List.mem_singleton]
            by_cases hb : bkt = b
            · subst hb
              rw [if_pos rfl] at hr
              cases hr
              have hnd := nodup_middle_notin (by
                have := hc.oinv.distinctBlocks
                simpa only [List.map_append, List.map_cons] using this)
              simp only [List.mem_append, List.mem_cons] at hx
              have hold : x ∈ pre ++ e :: post → x.blk ∉ recorded s :=
                fun hx' => hF.notcur bkt _ hc.recs x hx'
              rcases hx with hx | rfl | hx
              · exact ⟨hold (by simp [hx]), fun h => hnd.1 (h ▸ List.mem_map_of_mem hx)⟩
              · refine ⟨fun hm => not_below_next hpre.pmax _ (hF.below _ hm), fun h => ?_⟩
                have := (hc.blocks e he).below
                rw [← h] at this
                exact not_below_next hpre.pmax _ this
              · exact ⟨hold (by simp [hx]), fun h => hnd.2 (h ▸ List.mem_map_of_mem hx)⟩
            · rw [if_neg hb] at hr
              refine ⟨hF.notcur bkt rl0 hr x hx, fun h => ?_⟩
              obtain ⟨orl, g1, _, g3⟩ := hI.a.recs bkt
              rw [hr] at g1
              cases g1
              have := (g3 x hx).bucket_unique hU' (h ▸ hc.blocks e he)
              exact hb this
          · intro blk hb
            show Below (addFree (setNext (putMem s.m k v) b _) e.blk) blk
            rw [below_addFree, below_setNext]
            exact below_putMem k v hb
          · intro x hx
            simp only [List.mem_singleton] at hx
            subst hx
            have := (hc.blocks e he).size
            refine ⟨(hc.blocks e he).off, ?_⟩
            unfold two31 at this; unfold two32; omega
          · intro x hx
            simp only [List.mem_singleton] at hx
            subst hx
            exact (hc.blocks e he).below
          · intro x hx
            simp only [List.mem_singleton] at hx
            subst hx
            exact hF.notcur b _ hc.recs e he

theorem fstep_rm (hU : Univ c.kind U) (hI : Inv c U s spec n B) (hF : FInv s) (k : Bytes)
    (hkey : ∀ dig, keyClass c.kind k = .ok dig → (k, dig) ∈ U) :
    FInv (stepS s (.rm k)).1 ∧
      recorded (stepS s (.rm k)).1 = recorded s ++ delta c spec s (.rm k) := by
  have hU' : Univ s.m.kind U := by rw [hI.kind]; exact hU
  cases hcls : keyClass c.kind k with
  | error e =>
    have := storeRemove_bad (m := s.m) (d := s.d) (k := k) (e := e) (by rw [hI.kind]; exact hcls)
    simp only [stepS, this, delta, hcls]
    exact hF.same
  | ok dig =>
    have hk := hkey dig hcls
    cases hs : Spec.get spec dig with
    | none =>
      have r1 := (storeRemove_ok hU' hI.bits31 hI.a hk).1 hs
      simp only [stepS, r1, delta, hcls, hs]
      exact hF.same
    | some kv =>
      obtain ⟨key0, old⟩ := kv
      obtain ⟨b, pre, e, post, h1, hc⟩ := storeRemove_shape hU' hI.bits31 hI.a hk hs
      have hcur : currentOf s dig = some e.blk := by unfold currentOf; rw [hc.idx]
      have he : e ∈ pre ++ e :: post := by simp
      simp only [stepS, h1, delta, hcls, hs, hcur, Option.toList_some]
      apply hF.update [e.blk] (by simp [addFree, setNext]) _ _ _ _ (by simp)
      · intro bkt rl0 hr x hx
        rw [idxRecords_addFree, idxRecords_setNext'] at hr
        simp only [List.mem_singleton]
        by_cases hb : bkt = b
        · subst hb
          rw [if_pos rfl] at hr
          cases hr
          have hnd := nodup_middle_notin (by
            have := hc.oinv.distinctBlocks
            simpa only [List.map_append, List.map_cons] using this)
          simp only [List.mem_append] at hx
          have hold : x ∈ pre ++ e :: post → x.blk ∉ recorded s :=
            fun hx' => hF.notcur bkt _ hc.recs x hx'
          rcases hx with hx | hx
          · exact ⟨hold (by simp [hx]), fun h => hnd.1 (h ▸ List.mem_map_of_mem hx)⟩
          · exact ⟨hold (by simp [hx]), fun h => hnd.2 (h ▸ List.mem_map_of_mem hx)⟩
        · rw [if_neg hb] at hr
          refine ⟨hF.notcur bkt rl0 hr x hx, fun h => ?_⟩
          obtain ⟨orl, g1, _, g3⟩ := hI.a.recs bkt
          rw [hr] at g1
          cases g1
          have := (g3 x hx).bucket_unique hU' (h ▸ hc.blocks e he)
          exact hb this
      · intro blk hb
        exact hb
      · intro x hx
        simp only [List.mem_singleton] at hx
        subst hx
        have := (hc.blocks e he).size
        refine ⟨(hc.blocks e he).off, ?_⟩
        unfold two31 at this; unfold two32; omega
      · intro x hx
        simp only [List.mem_singleton] at hx
        subst hx
        exact (hc.blocks e he).below
      · intro x hx
        simp only [List.mem_singleton] at hx
        subst hx
        exact hF.notcur b _ hc.recs e he

end

section
variable {c : Cfg} {U : List (Bytes × Bytes)} {s : SState} {spec : Spec} {n B : Nat}

theorem fstep_flush (hU : Univ c.kind U) (hI : Inv c U s spec n B) (hF : FInv s)
    (hn : n < 1073741824) (hB : B < two31) (order : List Nat) :
    FInv (stepS s (.flush order)).1 ∧ recorded (stepS s (.flush order)).1 = recorded s := by
  have hU' : Univ s.m.kind U := by rw [hI.kind]; exact hU
  obtain ⟨f1, f2⟩ := fixOrder_ok order s.m.inext
  obtain ⟨m', d', g1, g2, g3, g4⟩ :=
    storeFlush_free hU' hI.bits31 hI.a hI.p hI.i hI.cnt hn hB hI.w f1 f2
  simp only [stepS, g1]
  exact hF.flush g2 g3 g4

theorem fstep_iter (hU : Univ c.kind U) (hI : Inv c U s spec n B) (hF : FInv s)
    (hn : n < 1073741824) (hB : B < two31) (order : List Nat) :
    FInv (stepS s (.iter order)).1 ∧ recorded (stepS s (.iter order)).1 = recorded s := by
  have hU' : Univ s.m.kind U := by rw [hI.kind]; exact hU
  obtain ⟨f1, f2⟩ := fixOrder_ok order s.m.inext
  obtain ⟨m', d', g1, g2, g3, g4⟩ :=
    storeFlush_free hU' hI.bits31 hI.a hI.p hI.i hI.cnt hn hB hI.w f1 f2
  simp only [stepS, g1]
  cases storeIter m' d' with
  | ok l => exact hF.flush g2 g3 g4
  | error e => exact hF.flush g2 g3 g4

/-- one call: the freelist invariant is preserved and exactly `delta` is appended -/
theorem fstep (hU : Univ c.kind U) (hI : Inv c U s spec n B) (hF : FInv s) (op : SOp)
    (hop : op.isC01 = true)
    (hkey : ∀ k, op.keyOf = some k → ∀ dig, keyClass c.kind k = .ok dig → (k, dig) ∈ U)
    (hn : n + 1 < 1073741824) (hB : B + op.bytes < two31) :
    FInv (stepS s op).1 ∧ recorded (stepS s op).1 = recorded s ++ delta c spec s op := by
  cases op with
  | put k v => exact fstep_put hU hI hF k v (hkey k rfl) hn hB
  | get k =>
    rw [(step_get hU hI k (hkey k rfl)).1]
    exact ⟨hF, by simp [delta]⟩
  | has k =>
    rw [(step_has hU hI k (hkey k rfl)).1]
    exact ⟨hF, by simp [delta]⟩
  | size k =>
    rw [(step_size hU hI k (hkey k rfl)).1]
    exact ⟨hF, by simp [delta]⟩
  | rm k => exact fstep_rm hU hI hF k (hkey k rfl)
  | flush order =>
    have := fstep_flush hU hI hF (by omega) (by omega) order
    exact ⟨this.1, by rw [this.2]; simp [delta]⟩
  | iter order =>
    have := fstep_iter hU hI hF (by omega) (by omega) order
    exact ⟨this.1, by rw [this.2]; simp [delta]⟩
  | igc a b => cases hop
  | pgc a b => cases hop
  | reopen a b => cases hop

end

/-! ### the run -/

theorem runS_cons_fst (s : SState) (op : SOp) (ops : List SOp) :
    (runS s (op :: ops)).1 = (runS (stepS s op).1 ops).1 := rfl

theorem specRun_cons_fst (kind : PKind) (imm : Bool) (m : Spec) (op : SOp) (ops : List SOp) :
    (specRun kind imm m (op :: ops)).1 = (specRun kind imm (specStep kind imm m op).1 ops).1 := rfl

theorem run_finv {c : Cfg} {U : List (Bytes × Bytes)} (hU : Univ c.kind U) :
    ∀ (ops : List SOp) (s : SState) (spec : Spec) (n B : Nat),
    Inv c U s spec n B → FInv s → (∀ op ∈ ops, op.isC01 = true) →
    (∀ op ∈ ops, ∀ k, op.keyOf = some k → ∀ dig, keyClass c.kind k = .ok dig → (k, dig) ∈ U) →
    n + ops.length < 1073741824 → B + (ops.map SOp.bytes).sum < two31 →
    Inv c U (runS s ops).1 (specRun c.kind c.imm spec ops).1 (n + ops.length)
        (B + (ops.map SOp.bytes).sum) ∧
      FInv (runS s ops).1 ∧
      recorded (runS s ops).1 = recorded s ++ superseded c spec s ops
  | [], s, spec, n, B, hI, hF, _, _, _, _ => by
    refine ⟨hI, hF, ?_⟩
    simp [runS, superseded]
  | op :: ops, s, spec, n, B, hI, hF, ha, hk, hn, hB => by
    simp only [List.length_cons, List.map_cons, List.sum_cons] at hn hB
    obtain ⟨_, h2⟩ := step_ok hU hI op (ha op (by simp)) (hk op (by simp)) (by omega) (by omega)
    obtain ⟨f1, f2⟩ := fstep hU hI hF op (ha op (by simp)) (hk op (by simp)) (by omega) (by omega)
    obtain ⟨i1, i2, i3⟩ := run_finv hU ops (stepS s op).1 (specStep c.kind c.imm spec op).1 (n + 1)
      (B + op.bytes) h2 f1 (fun o ho => ha o (by simp [ho])) (fun o ho => hk o (by simp [ho]))
      (by omega) (by omega)
    rw [runS_cons_fst, specRun_cons_fst]
    refine ⟨?_, i2, ?_⟩
    · simp only [List.length_cons, List.map_cons, List.sum_cons]
      have e1 : n + (ops.length + 1) = n + 1 + ops.length := by omega
      have e2 : B + (op.bytes + (ops.map SOp.bytes).sum) = B + op.bytes + (ops.map SOp.bytes).sum := by
        omega
      rw [e1, e2]
      exact i1
    · rw [i3, f2]
      simp only [superseded, List.append_assoc]

/-! ### the freshly opened store -/

theorem finv_init (c : Cfg) (hc : c.Legal) (s : SState) (hi : initS c = some s) :
    FInv s ∧ recorded s = [] := by
  have hidx : ∀ (m : Mem) (d : Disk), m.inext = [] → m.icur = [] → m.buckets = [] →
      ∀ b, idxRecords m d b = .ok none := by
    intro m d e1 e2 e3 b
    unfold idxRecords
    rw [e1, e2, e3]
    simp only [NMap.get?_nil, Option.getD_none, readDiskBucket_zero]
  have key : ∀ (m : Mem) (d : Disk), m.inext = [] → m.icur = [] → m.buckets = [] →
      m.flpool = [] → d.free = some [] → FInv ⟨c, m, d⟩ ∧ recorded ⟨c, m, d⟩ = [] := by
    intro m d e1 e2 e3 e4 e5
    have hfe : flEntries d = [] := by
      unfold flEntries
      rw [e5]
      simp [parseFreeList]
    have hrec : recorded ⟨c, m, d⟩ = [] := by
      unfold recorded
      rw [hfe, e4]
      rfl
    refine ⟨⟨by rw [hfe, e5]; rfl, by rw [hrec]; simp, by rw [hrec]; simp, ?_, by rw [hrec]; simp⟩, hrec⟩
    intro bkt rl hr
    rw [hidx m d e1 e2 e3 bkt] at hr
    cases hr
  rcases (by cases c.kind <;> simp : c.kind = .mh ∨ c.kind = .cid) with hk | hk
  · rw [initS_mh c hc hk] at hi
    cases hi
    exact key _ _ rfl rfl rfl rfl rfl
  · rw [initS_cid c hc hk] at hi
    cases hi
    exact key _ _ rfl rfl rfl rfl rfl

/-- everything the C13 theorems need about the state after a legal run -/
theorem c13_reach (c : Cfg) (hc : c.Legal) (all : List SOp) (hk : KeysOK c.kind all) (hs : SizesOK all)
    (ops : List SOp) (hsub : ∀ op ∈ ops, op ∈ all) (hlen : ops.length ≤ all.length)
    (hsum : (ops.map SOp.bytes).sum ≤ (all.map SOp.bytes).sum)
    (ha : ∀ op ∈ ops, op.isC01 = true) (s0 : SState) (hi : initS c = some s0) :
    Inv c (digestsOf c.kind all) (runS s0 ops).1 (specRun c.kind c.imm [] ops).1 ops.length
        (ops.map SOp.bytes).sum ∧
      FInv (runS s0 ops).1 ∧
      recorded (runS s0 ops).1 = superseded c [] s0 ops := by
  have hU := univ_of_keysOK hk (keysExact_all c.kind all)
  obtain ⟨f0, r0⟩ := finv_init c hc s0 hi
  obtain ⟨i1, i2, i3⟩ := run_finv hU ops s0 [] 0 0 (inv_init c hc _ s0 hi) f0 ha
    (fun op ho k hkey dig hcls => mem_digestsOf (hsub op ho) hkey hcls)
    (by have := hs.1; omega) (by have := hs.2.1; omega)
  rw [r0, List.nil_append] at i3
  simp only [Nat.zero_add] at i1
  exact ⟨i1, i2, i3⟩

end Sth
