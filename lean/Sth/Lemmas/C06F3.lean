/-
C06F (3): every section of every thread preserves the invariant (`step_inv`), hence every schedule does (`run_inv`);
what the invariant says about the records the table points at and the records of a Flush in progress (`Inv.safe`).
-/
import Sth.Lemmas.C06F2

namespace Sth.IgcConc

/-- a call returns without touching the log, the file number, the table or the lock -/
theorem Inv.ret {s s0 : State} (h : Inv s) {i : Nat} {t : Thread} (hi : s.threads[i]? = some t)
    (hh : t.pc.holds = false) (hth : s0.threads = s.threads) (hlog : s0.log = s.log) (hfn : s0.fileNum = s.fileNum)
    (hbk : s0.buckets = s.buckets) (hlk : s0.flushLock = s.flushLock) : Inv (setThread s0 i t.ret) :=
  h.quiet (t' := t.ret) hi (by simp [hth]) hlog hfn hbk (.inl ⟨hlk, by rw [hh]; rfl⟩)
    (by simp [Thread.ret, ThreadOK]) (by simp [Thread.ret, Pc.bound]) (by simp [Thread.ret, Pc.done])

/-- a collector moves on without touching the shared state -/
theorem Inv.move {s : State} (h : Inv s) {i : Nat} {t : Thread} (hi : s.threads[i]? = some t) {l : Nat}
    (hl : t.pc.bound = some l) {p : Pc} (hl' : p.bound = some l) (hself : ThreadOK s p) :
    Inv (setThread s i { t with pc := p }) :=
  h.quiet hi rfl rfl rfl rfl (.inl ⟨rfl, by simp [holds_of_bound hl, holds_of_bound hl']⟩) hself
    (fun l' h' => .inl (by simp only [hl'] at h'; rw [hl]; exact h'))
    (fun bp hbp => by simp [done_of_bound hl'] at hbp)

theorem same_iff {x r : Rec} : x.same r = true ↔ r.file = x.file ∧ r.bucket = x.bucket ∧ r.id = x.id := by
  simp [Rec.same]

theorem step_inv {s s' : State} {i : Nat} (h : Inv s) (hs : step s i = some s') : Inv s' := by
  unfold step stepWith at hs
  cases hi : s.threads[i]? with
  | none => simp [hi] at hs
  | some t =>
    have hthis := h.thr i t hi
    simp only [hi] at hs
    split at hs
    · -- idle
      rename_i hp
      have hh : t.pc.holds = false := by simp [hp, Pc.holds]
      split at hs
      · cases hs
      · -- mut
        cases hs
        exact h.ret hi hh rfl rfl rfl rfl rfl
      · -- flush
        split at hs
        · cases hs
        rename_i hlk
        have hlk : s.flushLock = none := by simpa using hlk
        split at hs
        · cases hs; exact h.ret hi hh rfl rfl rfl rfl rfl
        · cases hs
          exact h.quiet hi rfl rfl rfl rfl (.inr (.inl ⟨hlk, rfl, rfl⟩)) (by simp [ThreadOK])
            (by simp [Pc.bound]) (by simp [Pc.done])
      · -- gc: G0
        split at hs
        · cases hs
        rename_i hlk
        have hlk : s.flushLock = none := by simpa using hlk
        cases hs
        exact h.quiet hi rfl rfl rfl rfl (.inl ⟨rfl, by rw [hh]; rfl⟩)
          ⟨Nat.le_refl _, fun x hx => (mem_workList hx).2⟩ (fun _ _ => .inr hlk) (by simp [Pc.done])
      · -- gcFree: F0
        split at hs
        · cases hs
        rename_i hlk
        have hlk : s.flushLock = none := by simpa using hlk
        cases hs
        refine h.quiet hi rfl rfl rfl rfl (.inl ⟨rfl, by rw [hh]; rfl⟩)
          ⟨Nat.le_refl _, ?_⟩ (fun _ _ => .inr hlk) (by simp [Pc.done])
        intro b p hb _ hk
        have := lookup_lt_tableBound hb
        omega
    · -- S2, one bucket
      rename_i hp
      cases hs
      exact h.write hi hp _ _
    · -- S3
      rename_i hp
      cases hs
      exact h.publish hi hp
    · -- the cycle returns
      rename_i hp
      cases hs
      exact h.ret hi (by simp [hp, Pc.holds]) rfl rfl rfl rfl rfl
    · -- G1
      rename_i l x todo hp
      rw [hp] at hthis
      have hl : t.pc.bound = some l := by simp [hp, Pc.bound]
      have hnext : ThreadOK s (.gcScan l todo) := ⟨hthis.1, fun y hy => hthis.2 y (List.mem_cons_of_mem _ hy)⟩
      split at hs
      · cases hs; exact h.move hi hl rfl hnext
      · split at hs
        · cases hs; exact h.move hi hl rfl hnext
        · rename_i hfree
          cases hs
          exact h.move hi hl rfl ⟨hthis.1, hnext.2, hthis.2 x (by simp), hfree⟩
    · -- G2
      rename_i l x todo hp
      rw [hp] at hthis
      cases hs
      refine h.kill hi (l := l) (by simp [hp, Pc.bound]) rfl ?_ ?_ ⟨hthis.1, hthis.2.1⟩
      · intro r _ hq
        rw [same_iff] at hq
        rw [hq.1]; exact hthis.2.2.1
      · intro r _ hq
        rw [same_iff] at hq
        have : r.pos = x.pos := by simp [Rec.pos, hq.1, hq.2.2]
        rw [hq.2.1, this]; exact hthis.2.2.2
    · -- F1, one bucket
      rename_i l k busy hp
      rw [hp] at hthis
      have hl : t.pc.bound = some l := by simp [hp, Pc.bound]
      split at hs
      · rename_i p hk
        cases hs
        refine h.move hi hl rfl ⟨hthis.1, ?_⟩
        intro b q hb hql hkb
        by_cases hbk : b = k
        · subst hbk; rw [hk] at hb; cases hb; simp
        · exact List.mem_cons_of_mem _ (hthis.2 b q hb hql (by omega))
      · rename_i hk
        cases hs
        refine h.move hi hl rfl ⟨hthis.1, ?_⟩
        intro b q hb hql hkb
        by_cases hbk : b = k
        · subst hbk; rw [hk] at hb; cases hb
        · exact hthis.2 b q hb hql (by omega)
    · -- F2
      rename_i l busy hp
      rw [hp] at hthis
      cases hs
      refine h.move hi (by simp [hp, Pc.bound]) rfl ⟨hthis.1, ?_⟩
      intro f hf
      have hf := List.mem_filter.1 hf
      have hfl : f < l := by simpa using hf.1
      refine ⟨hfl, ?_⟩
      intro b p hb hpf
      have := hthis.2 b p hb (by omega) (Nat.zero_le _)
      have hnb := hf.2
      simp at hnb
      exact hnb (hpf ▸ this)
    · -- F3
      rename_i l f files hp
      rw [hp] at hthis
      cases hs
      refine h.kill hi (l := l) (by simp [hp, Pc.bound]) rfl ?_ ?_
        ⟨hthis.1, fun g hg => hthis.2 g (List.mem_cons_of_mem _ hg)⟩
      · intro r _ hq
        have : r.file = f := by simpa using hq
        rw [this]; exact (hthis.2 f (by simp)).1
      · intro r _ hq hpub
        have : r.file = f := by simpa using hq
        exact (hthis.2 f (by simp)).2 r.bucket r.pos hpub this
    · -- truncateFreeFiles returns
      rename_i hp
      cases hs
      exact h.ret hi (by simp [hp, Pc.holds]) rfl rfl rfl rfl rfl

theorem run_inv {s : State} (h : Inv s) (sched : List Nat) : Inv (run s sched) := by
  induction sched generalizing s with
  | nil => exact h
  | cons i r ih =>
    simp only [run, List.foldl_cons]
    cases hs : step s i with
    | none => simpa [run] using ih h
    | some s1 => simpa [run] using ih (step_inv h hs)

theorem stepN_inv {s s' : State} {i : Nat} (h : Inv s) (n : Nat) (hs : stepN s i n = some s') : Inv s' := by
  induction n generalizing s with
  | zero => simp [stepN] at hs; subst hs; exact h
  | succ n ih =>
    simp only [stepN] at hs
    cases h1 : step s i with
    | none => simp [h1] at hs
    | some s1 => rw [h1] at hs; exact ih (step_inv h h1) hs

theorem init_inv (progs : List (List Op)) : Inv (init progs) := by
  have hidle : ∀ (j : Nat) (u : Thread), (init progs).threads[j]? = some u → u.pc = .idle := by
    intro j u hj
    simp only [init, List.getElem?_map] at hj
    cases h1 : progs[j]? with
    | none => simp [h1] at hj
    | some p => simp [h1] at hj; subst hj; rfl
  refine ⟨?_, ?_, ?_, ?_, ?_, ?_, ?_⟩
  · intro k r hk; simp [init] at hk
  · intro r hr; simp [init] at hr
  · intro b p hb; simp [init] at hb
  · intro k hk; simp [init] at hk
  · intro j u hj; rw [hidle j u hj]; simp [Pc.holds, init]
  · intro j u hj; rw [hidle j u hj]; trivial
  · intro a b ta tb l ha _ hl; rw [hidle a ta ha] at hl; simp [Pc.bound] at hl

/-! ### what the invariant gives -/

theorem mem_inFlight {s : State} {bp : Bucket × Pos} (h : bp ∈ inFlight s) :
    ∃ (j : Nat) (u : Thread), s.threads[j]? = some u ∧ bp ∈ u.pc.done := by
  unfold inFlight at h
  obtain ⟨u, hu, hbp⟩ := List.mem_flatMap.1 h
  obtain ⟨j, hj⟩ := List.mem_iff_getElem?.1 hu
  exact ⟨j, u, hj, hbp⟩

/-- the table points at live records of the right bucket, the only ones at their position -/
theorem Inv.published {s : State} (h : Inv s) {b : Bucket} {p : Pos} (hb : s.buckets.lookup b = some p) :
    ∃ r ∈ s.log, r.bucket = b ∧ r.pos = p ∧ r.deleted = false ∧ ∀ r' ∈ s.log, r'.pos = p → r' = r := by
  obtain ⟨r, hr, h1, h2, h3⟩ := h.pub b p hb
  refine ⟨r, hr, h1, h2, h3, ?_⟩
  intro r' hr' hp
  refine h.unique hr' hr ?_
  rw [← h2] at hp
  simp [Rec.pos] at hp
  exact hp.2

/-- so does every entry of the `blks` of a Flush in progress -/
theorem Inv.inflight {s : State} (h : Inv s) {bp : Bucket × Pos} (hbp : bp ∈ inFlight s) :
    ∃ r ∈ s.log, r.bucket = bp.1 ∧ r.pos = bp.2 ∧ r.deleted = false ∧ ∀ r' ∈ s.log, r'.pos = bp.2 → r' = r := by
  obtain ⟨j, u, hj, hd⟩ := mem_inFlight hbp
  have hthr := h.thr j u hj
  cases hp : u.pc with
  | flushing todo rolls done =>
    rw [hp] at hthr hd
    obtain ⟨r, hr, h1, h2, h3⟩ := hthr bp hd
    refine ⟨r, hr, h1, h2, h3, ?_⟩
    intro r' hr' hpos
    refine h.unique hr' hr ?_
    rw [← h2] at hpos
    simp [Rec.pos] at hpos
    exact hpos.2
  | _ => rw [hp] at hd; simp [Pc.done] at hd

theorem Inv.safe {s : State} (h : Inv s) : Safe s := by
  constructor
  · intro r hr hpub
    obtain ⟨r0, _, _, _, h3, h4⟩ := h.published hpub
    rw [h4 r hr rfl]; exact h3
  · intro r hr hfl
    obtain ⟨r0, _, _, _, h3, h4⟩ := h.inflight hfl
    rw [h4 r hr rfl]; exact h3

end Sth.IgcConc
