/-
Lemmas for C12 (Sth/Props/C12.lean): a reachability invariant of the back-pressure machine of
Sth/Model/Rate.lean, preserved by every enabled step and hence by `run`, and its consequences.
-/
import Sth.Model.Rate

namespace Sth.Rate

/-- writer `i` has registered for notice `c` (about to signal, or already waiting) -/
def Reg (s : State) (i c : Nat) : Prop :=
  s.writers[i]? = some (.signal c) ∨ s.writers[i]? = some (.wait c)

instance (s : State) : Decidable (flushInProgress s) := by
  unfold flushInProgress; infer_instance

/-- `flushInProgress`, by index -/
def Busy (s : State) : Prop := ∃ (j : Nat) (pc : FPc), s.flushers[j]? = some pc ∧ pc ≠ .idle

theorem flushInProgress_iff (s : State) : flushInProgress s ↔ Busy s := by
  unfold flushInProgress Busy
  constructor
  · rintro ⟨pc, hm, hne⟩
    obtain ⟨j, hj⟩ := List.mem_iff_getElem?.mp hm
    exact ⟨j, pc, hj, hne⟩
  · rintro ⟨j, pc, hj, hne⟩
    exact ⟨pc, List.mem_iff_getElem?.mpr ⟨j, hj⟩, hne⟩

theorem busy_set {l : List FPc} {i : Nat} {pc0 : FPc} (pc : FPc) (h : l[i]? = some pc0) (hne : pc ≠ .idle) :
    ∃ (j : Nat) (pc' : FPc), (l.set i pc)[j]? = some pc' ∧ pc' ≠ .idle := by
  refine ⟨i, pc, ?_, hne⟩
  have hlt : i < l.length := by
    rcases Nat.lt_or_ge i l.length with h' | h'
    · exact h'
    · rw [List.getElem?_eq_none h'] at h; cases h
  simp [hlt]

/-- the reachability invariant -/
structure RInv (s : State) : Prop where
  notice_lt : ∀ c : Nat, s.notice = some c → c < s.nextCh
  closed_lt : ∀ c : Nat, c ∈ s.closed → c < s.nextCh
  reg_cur : ∀ i c : Nat, Reg s i c → c ∈ s.closed ∨ s.notice = some c
  notice_open : ∀ c : Nat, s.notice = some c → c ∉ s.closed
  pending : s.closeOnNoWork = true → ∀ i c : Nat, s.writers[i]? = some (.wait c) → c ∉ s.closed →
    s.flushNow = true ∨ Busy s

theorem inv_init (nW nF : Nat) (fix : Bool) : RInv (init nW nF fix) := by
  constructor <;> simp [init, Reg, List.getElem?_replicate] <;> grind

theorem step_inv {s s' : State} {st : Step} (h : RInv s) (hs : step s st = some s') : RInv s' := by
  obtain ⟨h1, h2, h3, h4, h5⟩ := h
  cases st with
  | tick =>
    simp [step] at hs; subst hs
    constructor <;> simp only [Reg, Busy] at * <;> grind
  | w i ww =>
    simp only [step] at hs
    split at hs
    · simp at hs
    · rename_i pc hpc
      split at hs
      · simp at hs; subst hs
        constructor <;> simp only [setW, Reg, Busy] at * <;> grind
      · simp at hs; subst hs
        constructor <;> simp only [setW, Reg, Busy] at * <;> grind
      · simp at hs; subst hs
        constructor <;> simp only [setW, Reg, Busy] at * <;> grind
      · split at hs
        · simp at hs; subst hs
          constructor <;> simp only [setW, Reg, Busy] at * <;> grind
        · simp at hs; subst hs
          constructor <;> simp only [setW, Reg, Busy] at * <;> grind
      · simp at hs; subst hs
        constructor <;> simp only [setW, Reg, Busy] at * <;> grind
      · split at hs
        · simp at hs; subst hs
          constructor <;> simp only [setW, Reg, Busy] at * <;> grind
        · simp at hs
      · simp at hs
  | f i =>
    simp only [step] at hs
    split at hs
    · simp at hs
    · rename_i pc hpc
      split at hs
      · -- idle
        split at hs
        · split at hs
          · simp at hs; subst hs
            have hb := busy_set .stamp hpc (by decide)
            constructor <;> simp only [setF, Reg, Busy] at * <;> grind
          · simp at hs
        · simp at hs; subst hs
          have hb := busy_set .stamp hpc (by decide)
          constructor <;> simp only [setF, Reg, Busy] at * <;> grind
      · -- stamp
        simp at hs; subst hs
        have hb := busy_set .check hpc (by decide)
        constructor <;> simp only [setF, Reg, Busy] at * <;> grind
      · -- check
        split at hs
        · simp at hs; subst hs
          have hb := busy_set .commit hpc (by decide)
          constructor <;> simp only [setF, Reg, Busy] at * <;> grind
        · cases hc : s.closeOnNoWork <;> cases hn : s.notice <;> simp [hc, hn] at hs <;> subst hs <;>
            constructor <;> simp only [setF, Reg, Busy] at * <;> grind
      · -- commit
        simp at hs; subst hs
        have hb := busy_set .finish hpc (by decide)
        constructor <;> simp only [setF, Reg, Busy] at * <;> grind
      · -- finish
        cases hn : s.notice <;> simp [hn] at hs <;> subst hs <;>
          constructor <;> simp only [setF, Reg, Busy] at * <;> grind

/-- `step` never changes the code variant -/
theorem step_closeOnNoWork {s s' : State} {st : Step} (hs : step s st = some s') :
    s'.closeOnNoWork = s.closeOnNoWork := by
  cases st with
  | tick => simp [step] at hs; subst hs; rfl
  | w i ww =>
    simp only [step] at hs
    repeat' split at hs
    all_goals first | (simp at hs; done) | (simp at hs; subst hs; rfl)
  | f i =>
    simp only [step] at hs
    split at hs
    · simp at hs
    · split at hs
      · repeat' split at hs
        all_goals first | (simp at hs; done) | (simp at hs; subst hs; rfl)
      · simp at hs; subst hs; rfl
      · split at hs
        · simp at hs; subst hs; rfl
        · cases hc : s.closeOnNoWork <;> cases hn : s.notice <;> simp [hc, hn] at hs <;> subst hs <;>
            simp [setF]
      · simp at hs; subst hs; rfl
      · cases hn : s.notice <;> simp [hn] at hs <;> subst hs <;> simp [setF]

theorem run_inv {s : State} (sched : List Step) (h : RInv s) :
    RInv (run s sched) ∧ (run s sched).closeOnNoWork = s.closeOnNoWork := by
  induction sched generalizing s with
  | nil => exact ⟨h, rfl⟩
  | cons st rest ih =>
    simp only [run, List.foldl_cons]
    cases hst : step s st with
    | none => exact ih h
    | some s' =>
      have := ih (step_inv h hst)
      simp only [run] at this
      simp only [Option.getD_some]
      exact ⟨this.1, this.2.trans (step_closeOnNoWork hst)⟩

theorem reach_inv (nW nF : Nat) (fix : Bool) (sched : List Step) :
    RInv (run (init nW nF fix) sched) ∧ (run (init nW nF fix) sched).closeOnNoWork = fix :=
  run_inv sched (inv_init nW nF fix)

theorem registered_is_current (nW nF : Nat) (fix : Bool) (sched : List Step) (i c : Nat) :
    let s := run (init nW nF fix) sched
    (s.writers[i]? = some (.signal c) ∨ s.writers[i]? = some (.wait c)) → c ∉ s.closed → s.notice = some c := by
  intro s hreg hnc
  rcases (reach_inv nW nF fix sched).1.reg_cur i c hreg with h | h
  · exact absurd h hnc
  · exact h

theorem signal_pending (nW nF : Nat) (sched : List Step) (i c : Nat) :
    let s := run (init nW nF true) sched
    s.writers[i]? = some (.wait c) → c ∉ s.closed → s.flushNow = true ∨ flushInProgress s := by
  intro s hw hnc
  have h := reach_inv nW nF true sched
  rw [flushInProgress_iff]
  exact h.1.pending h.2 i c hw hnc

/-- closing the current notice releases every writer registered for an unclosed notice -/
theorem release_of_inv {s : State} (h : RInv s) (hfix : s.closeOnNoWork = true) (i c j : Nat)
    (hw : s.writers[i]? = some (.wait c))
    (hf : s.flushers[j]? = some .finish ∨ (s.flushers[j]? = some .check ∧ s.work = false)) :
    ∃ s', step s (.f j) = some s' ∧ c ∈ s'.closed ∧ (step s' (.w i false)).isSome := by
  have hcur := h.reg_cur i c (Or.inr hw)
  rcases hf with hf | ⟨hf, hwk⟩
  · cases hn : s.notice with
    | none =>
      have hc : c ∈ s.closed := by rcases hcur with h | h; exact h; simp [hn] at h
      refine ⟨_, by simp [step, hf, hn]; rfl, ?_, ?_⟩
      · simpa [setF] using hc
      · simp [step, setF, hw, hc]
    | some c0 =>
      have hc : c ∈ c0 :: s.closed := by
        rcases hcur with h | h
        · exact List.mem_cons_of_mem _ h
        · rw [hn] at h; cases h; exact List.mem_cons_self
      refine ⟨_, by simp [step, hf, hn]; rfl, ?_, ?_⟩
      · simpa [setF] using hc
      · simp [step, setF, hw]; simpa using hc
  · cases hn : s.notice with
    | none =>
      have hc : c ∈ s.closed := by rcases hcur with h | h; exact h; simp [hn] at h
      refine ⟨_, by simp [step, hf, hn, hwk, hfix]; rfl, ?_, ?_⟩
      · simpa [setF] using hc
      · simp [step, setF, hw, hc]
    | some c0 =>
      have hc : c ∈ c0 :: s.closed := by
        rcases hcur with h | h
        · exact List.mem_cons_of_mem _ h
        · rw [hn] at h; cases h; exact List.mem_cons_self
      refine ⟨_, by simp [step, hf, hn, hwk, hfix]; rfl, ?_, ?_⟩
      · simpa [setF] using hc
      · simp [step, setF, hw]; simpa using hc

theorem release (nW nF : Nat) (sched : List Step) (i c j : Nat) :
    let s := run (init nW nF true) sched
    s.writers[i]? = some (.wait c) →
    (s.flushers[j]? = some .finish ∨ (s.flushers[j]? = some .check ∧ s.work = false)) →
    ∃ s', step s (.f j) = some s' ∧ c ∈ s'.closed ∧ (step s' (.w i false)).isSome := by
  intro s hw hf
  have h := reach_inv nW nF true sched
  exact release_of_inv h.1 h.2 i c j hw hf

theorem enabled (s : State) (_h0 : s.flushers ≠ []) :
    (step s .tick).isSome ∧
    (∀ s', step s .tick = some s' → s'.flushers[0]? = some .idle → (step s' (.f 0)).isSome) ∧
    (∀ j pc, s.flushers[j]? = some pc → pc ≠ .idle → (step s (.f j)).isSome) := by
  refine ⟨by simp [step], ?_, ?_⟩
  · intro s' hs' hidle
    simp [step] at hs'; subst hs'
    simp only [step]
    simp at hidle
    simp [hidle]
  · intro j pc hj hne
    simp only [step, hj]
    cases pc with
    | idle => exact absurd rfl hne
    | stamp => simp
    | check => simp only []; split <;> simp
    | commit => simp
    | finish => simp

end Sth.Rate
