/-
C10 (byte level) — the upgraded directory in semantic form: every bucket of the table points at the
record holding its current list with remapped offsets (`BucketAt`), every entry of such a list names the
whole, byte-identical legacy record (`RecAt`), and the map `LegacyC.spec` lists exactly those records.
Core Lean only.
-/
import Sth.Lemmas.C10Eval
import Sth.Lemmas.C07Inv

namespace Sth

namespace LegacyC

variable {c : Cfg} {U : List (Bytes × Bytes)} {C : LegacyC}

/-! ### lookupRec -/

theorem lookupRec_at : ∀ (recs : List (Bytes × Bytes)) (pos idx i : Nat) (k v : Bytes),
    recs[i]? = some (k, v) →
    lookupRec recs pos idx (pos + ((recs.take i).map fun kv => 4 + recSize kv).sum) = some (idx + i, k, v)
  | [], _, _, _, _, _, h => by simp at h
  | kv :: rest, pos, idx, 0, k, v, h => by
    simp only [List.getElem?_cons_zero, Option.some.injEq] at h
    simp [lookupRec, h]
  | kv :: rest, pos, idx, i + 1, k, v, h => by
    simp only [List.getElem?_cons_succ] at h
    have := lookupRec_at rest (pos + (4 + recSize kv)) (idx + 1) i k v h
    rw [List.take_succ_cons, List.map_cons, List.sum_cons, lookupRec, if_neg (by omega)]
    have e1 : pos + (4 + recSize kv + ((rest.take i).map fun kv => 4 + recSize kv).sum) =
        pos + (4 + recSize kv) + ((rest.take i).map fun kv => 4 + recSize kv).sum := by omega
    have e2 : idx + (i + 1) = idx + 1 + i := by omega
    rw [e1, e2]
    exact this

theorem lookupRec_offsetOf (C : LegacyC) (i : Nat) (k v : Bytes) (h : C.recs[i]? = some (k, v)) :
    lookupRec C.recs 0 0 (C.offsetOf i) = some (i, k, v) := by
  have := lookupRec_at C.recs 0 0 i k v h
  simpa [offsetOf] using this

/-- what WF says about a current entry, and its contribution to the contents -/
theorem specEntry_of (hU : Univ .mh U) (hwf : LegacyWFU c U C) (b : Nat) (rl : RecordList)
    (h : C.table.get? b = some rl) (e : Entry) (he : e ∈ rl) :
    ∃ i key val dig, C.recs[i]? = some (key, val) ∧ e.blk = C.blockOf i ∧ (key, dig) ∈ U ∧
      bucketOfKey c.bits dig = some b ∧ e.pfx ≠ [] ∧ pfx e.pfx (dig.drop (c.bits / 8)) ∧
      C.specEntry e = some (dig, key, val) := by
  obtain ⟨i, key, val, dig, h1, h2, h3, h4, h5, h6, h7⟩ := hwf.entries b rl h e he
  refine ⟨i, key, val, dig, h1, h2, h4, h5, h6, h7, ?_⟩
  unfold specEntry
  have : e.blk.off = C.offsetOf i := by rw [h2]; rfl
  rw [this, C.lookupRec_offsetOf i key val h1]
  simp only [h3, Bool.false_eq_true, if_false, (hU.dig h4).1]

/-- everything about a current entry at once -/
theorem entry_full (hc : c.Legal) (hU : Univ .mh U) (hwf : LegacyWFU c U C) (hn : C.recs.length < 1073741824)
    (b : Nat) (rl : RecordList) (h : C.table.get? b = some rl) (e : Entry) (he : e ∈ rl) :
    ∃ i key val dig n F g, C.recs[i]? = some (key, val) ∧ e.blk = C.blockOf i ∧ (key, dig) ∈ U ∧
      bucketOfKey c.bits dig = some b ∧ e.pfx ≠ [] ∧ pfx e.pfx (dig.drop (c.bits / 8)) ∧
      (C.pfilesL c.pfs)[n]? = some (F ++ recBytes ⟨C.blockOf i, key, val⟩ ++ g) ∧ F.length < c.pfs ∧
      C.remapC c e.blk.off = some (c.pfs * n + F.length) ∧ C.specEntry e = some (dig, key, val) := by
  obtain ⟨i, key, val, dig, h1, h2, h3, h4, h5, h6, h7⟩ := hwf.entries b rl h e he
  obtain ⟨n, F, g, g1, g2, g3⟩ := C.record_at c.pfs hc.2.2.2.2.1 i (key, val) h1 h3
  refine ⟨i, key, val, dig, n, F, g, h1, h2, h4, h5, h6, h7, g1, g2, ?_, ?_⟩
  · unfold remapC remapOff psizes
    have hoff := C.blockOf_off_lt hwf.recSize hn i
    rw [h2, if_neg (by unfold two64 at *; omega)]
    exact g3
  · unfold specEntry
    have : e.blk.off = C.offsetOf i := by rw [h2]; rfl
    rw [this, C.lookupRec_offsetOf i key val h1]
    simp only [h3, Bool.false_eq_true, if_false, (hU.dig h4).1]

/-! ### the map of the legacy contents -/

theorem mem_spec (x : Bytes × Bytes × Bytes) :
    x ∈ C.spec ↔ ∃ b rl e, C.table.get? b = some rl ∧ e ∈ rl ∧ C.specEntry e = some x := by
  have hs : NMap.Sorted C.table := by
    unfold table
    have : ∀ (l : List LRec) (m : NMap RecordList), NMap.Sorted m →
        NMap.Sorted (l.foldl (fun m r => m.set r.1 r.2) m) := by
      intro l
      induction l with
      | nil => intro m h; exact h
      | cons r l ih => intro m h; exact ih _ (NMap.sorted_set _ _ h)
    exact this _ _ NMap.sorted_nil
  unfold spec
  simp only [List.mem_flatMap, List.mem_filterMap]
  constructor
  · rintro ⟨⟨b, rl⟩, h1, e, h2, h3⟩
    exact ⟨b, rl, e, NMap.get?_of_mem_sorted hs h1, h2, h3⟩
  · rintro ⟨b, rl, e, h1, h2, h3⟩
    exact ⟨(b, rl), NMap.mem_of_get? h1, e, h2, h3⟩

theorem table_sorted (C : LegacyC) : NMap.Sorted C.table := by
  unfold table
  have : ∀ (l : List LRec) (m : NMap RecordList), NMap.Sorted m →
      NMap.Sorted (l.foldl (fun m r => m.set r.1 r.2) m) := by
    intro l
    induction l with
    | nil => intro m h; exact h
    | cons r l ih => intro m h; exact ih _ (NMap.sorted_set _ _ h)
  exact this _ _ NMap.sorted_nil

theorem spec_nodup (hc : c.Legal) (hU : Univ .mh U) (hwf : LegacyWFU c U C) : (C.spec.map (·.1)).Nodup := by
  rw [List.nodup_iff_pairwise_ne, List.pairwise_map]
  unfold spec
  rw [List.pairwise_flatMap]
  constructor
  · rintro ⟨b, rl⟩ hmem
    have hget := NMap.get?_of_mem_sorted C.table_sorted hmem
    simp only
    rw [List.pairwise_filterMap]
    have hpf := hwf.prefixFree b rl hget
    rw [List.pairwise_map] at hpf
    apply List.Pairwise.imp_of_mem _ hpf
    intro e e' he he' hap x hx y hy hxy
    obtain ⟨i, key, val, dig, _, _, _, _, _, p6, p7⟩ := specEntry_of hU hwf b rl hget e he
    obtain ⟨i', key', val', dig', _, _, _, _, _, q6, q7⟩ := specEntry_of hU hwf b rl hget e' he'
    rw [hx] at p7
    rw [hy] at q7
    cases p7
    cases q7
    simp only at hxy
    subst hxy
    rcases pfx_comparable p6 q6 with h | h
    · exact hap.1 h
    · exact hap.2 h
  · have hs := C.table_sorted
    unfold NMap.Sorted at hs
    rw [List.pairwise_map] at hs
    apply List.Pairwise.imp_of_mem _ hs
    rintro ⟨b, rl⟩ ⟨b', rl'⟩ hm hm' hlt x hx y hy hxy
    simp only at hlt hx hy
    have hget := NMap.get?_of_mem_sorted C.table_sorted hm
    have hget' := NMap.get?_of_mem_sorted C.table_sorted hm'
    obtain ⟨e, he, hse⟩ := List.mem_filterMap.mp hx
    obtain ⟨e', he', hse'⟩ := List.mem_filterMap.mp hy
    obtain ⟨_, _, _, dig, _, _, _, p5, _, _, p7⟩ := specEntry_of hU hwf b rl hget e he
    obtain ⟨_, _, _, dig', _, _, _, q5, _, _, q7⟩ := specEntry_of hU hwf b' rl' hget' e' he'
    rw [hse] at p7
    rw [hse'] at q7
    cases p7
    cases q7
    simp only at hxy
    subst hxy
    rw [p5] at q5
    simp only [Option.some.injEq] at q5
    omega

/-! ### buckets and records in the upgraded directory -/

/-- the record list a bucket reads after the upgrade -/
def newRL (c : Cfg) (C : LegacyC) (rl : RecordList) : RecordList := remapRL (C.remapC c) rl

theorem newRL_pfx (rl : RecordList) : (C.newRL c rl).map (·.pfx) = rl.map (·.pfx) := by
  unfold newRL remapRL
  rw [List.map_map]
  rfl

theorem flushOK_newRL (hc : c.Legal) (hwf : LegacyWFU c U C) (hn1 : C.recs.length < 1073741824)
    (b : Nat) (rl : RecordList) (h : C.table.get? b = some rl) (hok : FlushOK rl) :
    FlushOK (C.newRL c rl) := by
  refine ⟨?_, by unfold newRL; rw [encodeRL_remapRL_length]; exact hok.2⟩
  intro e' he'
  unfold newRL remapRL at he'
  obtain ⟨e, he, rfl⟩ := List.mem_map.mp he'
  obtain ⟨i, key, val, dig, n, F, g, _, _, _, _, _, _, g7, g8, g9⟩ := remap_entry hc hwf hn1 b rl h e he
  have h3 := hok.1 e he
  refine ⟨h3.1, ?_, h3.2.2⟩
  simp only [g9, Option.getD_some]
  have hn : n < (C.pfilesL c.pfs).length := (List.getElem?_eq_some_iff.mp g7).1
  have hle := lastP_le (c := c) (C := C)
  have hne := C.pfilesL_ne c.pfs
  have hpos : 0 < (C.pfilesL c.pfs).length := List.length_pos_iff.mpr hne
  unfold lastP at hle
  have hp := hc.2.2.2.2.2
  unfold defaultMax at hp
  have : c.pfs * n ≤ 1073741824 * 1073741824 := Nat.mul_le_mul hp (by omega)
  unfold two64
  omega

/-- the table position of a bucket is the place of its current list, remapped -/
theorem bucket_at (hc : c.Legal) (hwf : LegacyWFU c U C) (hn1 : C.recs.length < 1073741824)
    (hn2 : C.gens.length < 1073741824) {ifs : NMap Bytes}
    (hifs : ∀ f, f ≤ C.lastI c → ifs.get? f = some (logBytes (C.lgU c f)))
    (b pos : Nat) (h : (C.tableT c).get? b = some pos) :
    ∃ rl, C.table.get? b = some rl ∧ BucketAt ifs c.ifs 0 b pos (C.newRL c rl) := by
  obtain ⟨rl, f, pre, post, h1, h2, h3, h4, h5, h6⟩ := table_at hc hn2 b pos h
  refine ⟨rl, h1, ?_⟩
  have hg := encodeRL_remapRL_length (C.remapC c)
  have hsel : pT (C.tableT c) b (f * c.ifs + (0 + (logBytes pre).length) + 4) = true := by
    unfold pT
    rw [Nat.zero_add, ← h4, h]
    simp
  have hlg : C.lgU c f = rmP (pT (C.tableT c)) (remapRL (C.remapC c)) c.ifs f 0 pre ++
      (b, C.newRL c rl) :: rmP (pT (C.tableT c)) (remapRL (C.remapC c)) c.ifs f
        (0 + (logBytes pre).length + (idxRecBytes b rl).length) post := by
    unfold lgU lgR
    rw [h3]
    exact rmP_split pre post b rl 0 hsel
  have hrok := lg_recOK hwf f (b, rl) (by rw [h3]; simp)
  refine ⟨f, (logBytes pre).length, logBytes (rmP (pT (C.tableT c)) (remapRL (C.remapC c)) c.ifs f 0 pre),
    logBytes (rmP (pT (C.tableT c)) (remapRL (C.remapC c)) c.ifs f
        (0 + (logBytes pre).length + (idxRecBytes b rl).length) post),
    hc.2.2.1, h5, by have := lastI_lt (c := c) hn2; unfold two32; omega, Nat.zero_le _, h4, ?_,
    rmP_logLen hg _ _, flushOK_newRL hc hwf hn1 b rl h1 hrok.2, ?_, ?_⟩
  · rw [hifs f h2, hlg, logBytes_append, logBytes_cons, List.append_assoc]
  · unfold newRL; rw [hg]; exact hrok.1.2
  · have := hrok.1.1
    have h2' : 2 ^ c.bits ≤ 2 ^ 31 := Nat.pow_le_pow_right (by omega) hc.2.1
    simp only at this
    unfold two32; omega

/-- an entry of a current list, remapped, names the whole legacy record -/
theorem rec_at (hc : c.Legal) (hU : Univ .mh U) (hwf : LegacyWFU c U C) (hn1 : C.recs.length < 1073741824)
    (ifs : NMap Bytes) (b : Nat) (rl : RecordList) (h : C.table.get? b = some rl) (e : Entry) (he : e ∈ rl) :
    ∃ key val dig, RecAt .mh c.pfs 0 (C.diskU c ifs) ⟨(C.remapC c e.blk.off).getD 0, e.blk.size⟩ key val ∧
      Below (C.memU c ifs) ⟨(C.remapC c e.blk.off).getD 0, e.blk.size⟩ ∧
      (key, dig) ∈ U ∧ bucketOfKey c.bits dig = some b ∧ e.pfx ≠ [] ∧ pfx e.pfx (dig.drop (c.bits / 8)) ∧
      C.specEntry e = some (dig, key, val) ∧ e.blk.size < two31 := by
  obtain ⟨i, key, val, dig, n, F, g, g1, g2, g3, g4, g5, g6, g7, g8, g9, q7⟩ := entry_full hc hU hwf hn1 b rl h e he
  have hsize : e.blk.size = key.length + val.length := by rw [g2]; unfold blockOf; rw [g1]; rfl
  have hs31 : key.length + val.length < two31 := hwf.recSize (key, val) (List.mem_of_getElem? g1)
  have hn : n < (C.pfilesL c.pfs).length := (List.getElem?_eq_some_iff.mp g7).1
  have hle := lastP_le (c := c) (C := C)
  have hne := C.pfilesL_ne c.pfs
  have hpos : 0 < (C.pfilesL c.pfs).length := List.length_pos_iff.mpr hne
  have hfile : (setFiles [] 0 (C.pfilesL c.pfs)).get? n =
      some (F ++ recBytes ⟨C.blockOf i, key, val⟩ ++ g) := by
    rw [setFiles_get?, if_pos (by omega), Nat.sub_zero, g7]
  refine ⟨key, val, dig, ?_, ?_, g3, g4, g5, g6, q7, by rw [hsize]; exact hs31⟩
  · refine ⟨hsize, ⟨readNode_append .mh key val (hU.exact _ g3), hs31⟩, n, F.length, F, g, hc.2.2.2.2.1, g8,
      by unfold lastP at hle; unfold two32; omega, Nat.zero_le _, ?_, hfile, rfl⟩
    simp only [g9, Option.getD_some]
  · unfold Below memU
    simp only [g9, Option.getD_some]
    refine ⟨n, F.length, rfl, g8, ?_⟩
    by_cases hlast : n = C.lastP c
    · right
      refine ⟨hlast, ?_⟩
      rw [← hlast, fileOf_some hfile]
      simp only [List.length_append, recBytes_length]
      omega
    · left
      unfold lastP at hlast ⊢
      omega

end LegacyC

end Sth
