import Sth.Lemmas.C11Low

/-!
C13 along GC histories, completeness ("superseded ⇒ recorded"): the coverage invariant.  Every record
span of every primary file, and every pooled record, is CURRENT (an index entry names its block) or
RECORDED (its block is on the freelist: file, hand-over file `.gc` or pool); a span that a cycle has
applied is DELETED (its size word carries the deleted bit) and is no record span any more.
This file: the invariant, and how it is transferred along a step.  Core Lean only.
-/

namespace Sth.C13H

open Sth.C11

/-- the block of a record span `x = (offset in file, body)` of file `g` -/
abbrev spanBlk (pmax g : Nat) (x : Nat × Bytes) : Block := ⟨pmax * g + x.1, x.2.length⟩

/-- a block is covered: current or recorded -/
def Cvd (cfg : Cfg) (m : Mem) (d : Disk) (blk : Block) : Prop :=
  IsEnt m d blk ∨ blk ∈ recordedG ⟨cfg, m, d⟩

/-- coverage, for given span lists of the files -/
structure Cov (cfg : Cfg) (m : Mem) (d : Disk) (pf : Nat) (psp : Nat → List GSpan) : Prop where
  span : ∀ g, pf ≤ g → g ≤ m.pfileNum → ∀ x ∈ liveAt 0 (psp g), Cvd cfg m d (spanBlk m.pmax g x)
  pool : ∀ r ∈ m.pnext, Cvd cfg m d r.blk

/-- the state inside a step: the GC invariant's state description plus coverage -/
structure HState (c : Cfg) (U : List (Bytes × Bytes)) (cfg : Cfg) (m : Mem) (d : Disk) (spec : Spec)
    (n B : Nat) (pf : Nat) (psp : Nat → List GSpan) : Prop where
  gs : GState c U cfg m d spec n B pf psp
  cov : Cov cfg m d pf psp

/-- coverage of a state: for every way of spelling the files as spans (there is only one) -/
def CovS (s : SState) : Prop :=
  ∀ pf psp, s.d.phdr = some ⟨s.m.pmax, pf⟩ → PriLog s.m s.d pf psp → Cov s.cfg s.m s.d pf psp

theorem recordedG_congr {cfg cfg' : Cfg} {m m' : Mem} {d d' : Disk} (h1 : d'.free = d.free)
    (h2 : d'.freeGc = d.freeGc) (h3 : m'.flpool = m.flpool) :
    recordedG ⟨cfg', m', d'⟩ = recordedG ⟨cfg, m, d⟩ := by
  unfold recordedG flEntries flGcEntries
  simp only [h1, h2, h3]

theorem mem_recordedG {s : SState} {b : Block} :
    b ∈ recordedG s ↔ b ∈ flEntries s.d ∨ b ∈ flGcEntries s.d ∨ b ∈ s.m.flpool := by
  unfold recordedG
  simp only [List.mem_append, or_assoc]

/-- the spans of the files are determined by the files -/
theorem prilog_unique {m : Mem} {d : Disk} {pf pf' : Nat} {psp psp' : Nat → List GSpan}
    (hh : d.phdr = some ⟨m.pmax, pf⟩) (hh' : d.phdr = some ⟨m.pmax, pf'⟩)
    (hl : PriLog m d pf psp) (hl' : PriLog m d pf' psp') :
    pf' = pf ∧ ∀ g, pf ≤ g → g ≤ m.pfileNum → psp' g = psp g := by
  have hpf : pf' = pf := by
    rw [hh] at hh'
    simp only [Option.some.injEq, PriHeader.mk.injEq, true_and] at hh'
    exact hh'.symm
  subst hpf
  refine ⟨rfl, fun g g1 g2 => ?_⟩
  have h1 := hl.files g g1 g2
  have h2 := hl'.files g g1 g2
  have : some (gbytes (psp' g)) = some (gbytes (psp g)) := by rw [← h1, ← h2]
  exact gbytes_inj (hl'.ok g g1 g2) (hl.ok g g1 g2) (Option.some.inj this)

theorem covS_of {c : Cfg} {U : List (Bytes × Bytes)} {cfg : Cfg} {m : Mem} {d : Disk} {spec : Spec}
    {n B pf : Nat} {psp : Nat → List GSpan} (h : HState c U cfg m d spec n B pf psp) :
    CovS ⟨cfg, m, d⟩ := by
  intro pf' psp' hh' hl'
  obtain ⟨e1, e2⟩ := prilog_unique h.gs.hdr hh' h.gs.log hl'
  subst e1
  refine ⟨?_, h.cov.pool⟩
  intro g g1 g2 x hx
  rw [e2 g g1 g2] at hx
  exact h.cov.span g g1 g2 x hx

theorem hstate_of {c : Cfg} {U : List (Bytes × Bytes)} {s : SState} {spec : Spec} {n B : Nat}
    (hG : GInv c U s spec n B) (hC : CovS s) :
    ∃ pf psp, HState c U s.cfg s.m s.d spec n B pf psp := by
  obtain ⟨pf, psp, hS⟩ := hG.state
  exact ⟨pf, psp, hS, hC pf psp hS.hdr hS.log⟩

/-- the transfer of coverage along a change of the state: every record span of the new state is a
    record span of the old one, the copy of a pooled record, or covered outright; every pooled record
    is an old one or covered; blocks that were covered stay covered unless they name nothing any more -/
theorem Cov.transfer {cfg cfg' : Cfg} {m m' : Mem} {d d' : Disk} {pf pf' : Nat}
    {psp psp' : Nat → List GSpan} (h : Cov cfg m d pf psp) (hp : m'.pmax = m.pmax)
    (t1 : ∀ g, pf' ≤ g → g ≤ m'.pfileNum → ∀ x ∈ liveAt 0 (psp' g),
      (pf ≤ g ∧ g ≤ m.pfileNum ∧ x ∈ liveAt 0 (psp g)) ∨
      (∃ r ∈ m.pnext, r.blk = spanBlk m.pmax g x) ∨ Cvd cfg' m' d' (spanBlk m.pmax g x))
    (t2 : ∀ r ∈ m'.pnext, r ∈ m.pnext ∨ Cvd cfg' m' d' r.blk)
    (t3 : ∀ blk, Cvd cfg m d blk → Cvd cfg' m' d' blk ∨
      ((∀ g, pf' ≤ g → g ≤ m'.pfileNum → ∀ x ∈ liveAt 0 (psp' g), spanBlk m.pmax g x ≠ blk) ∧
        ∀ r ∈ m'.pnext, r.blk ≠ blk)) :
    Cov cfg' m' d' pf' psp' := by
  have hold : ∀ blk, Cvd cfg m d blk →
      (∃ g, pf' ≤ g ∧ g ≤ m'.pfileNum ∧ ∃ x ∈ liveAt 0 (psp' g), spanBlk m.pmax g x = blk) ∨
        (∃ r ∈ m'.pnext, r.blk = blk) → Cvd cfg' m' d' blk := by
    intro blk hc hn
    rcases t3 blk hc with h3 | ⟨h3, h4⟩
    · exact h3
    · exfalso
      rcases hn with ⟨g, g1, g2, x, hx, e⟩ | ⟨r, hr, e⟩
      · exact h3 g g1 g2 x hx e
      · exact h4 r hr e
  refine ⟨?_, ?_⟩
  · intro g g1 g2 x hx
    rw [hp]
    rcases t1 g g1 g2 x hx with ⟨a1, a2, a3⟩ | ⟨r, hr, e⟩ | h1
    · exact hold _ (h.span g a1 a2 x a3) (Or.inl ⟨g, g1, g2, x, hx, rfl⟩)
    · have := hold _ (h.pool r hr) (Or.inl ⟨g, g1, g2, x, hx, e.symm⟩)
      rw [e] at this; exact this
    · exact h1
  · intro r hr
    rcases t2 r hr with h2 | h2
    · exact hold _ (h.pool r h2) (Or.inr ⟨r, hr, rfl⟩)
    · exact h2

/-- the common case: blocks that were covered stay covered -/
theorem Cov.transfer' {cfg cfg' : Cfg} {m m' : Mem} {d d' : Disk} {pf pf' : Nat}
    {psp psp' : Nat → List GSpan} (h : Cov cfg m d pf psp) (hp : m'.pmax = m.pmax)
    (t1 : ∀ g, pf' ≤ g → g ≤ m'.pfileNum → ∀ x ∈ liveAt 0 (psp' g),
      (pf ≤ g ∧ g ≤ m.pfileNum ∧ x ∈ liveAt 0 (psp g)) ∨
      (∃ r ∈ m.pnext, r.blk = spanBlk m.pmax g x) ∨ Cvd cfg' m' d' (spanBlk m.pmax g x))
    (t2 : ∀ r ∈ m'.pnext, r ∈ m.pnext ∨ Cvd cfg' m' d' r.blk)
    (t3 : ∀ blk, Cvd cfg m d blk → Cvd cfg' m' d' blk) :
    Cov cfg' m' d' pf' psp' :=
  h.transfer hp t1 t2 (fun blk hc => Or.inl (t3 blk hc))

/-- covered blocks stay covered when the entries stay (or become recorded) and the recorded blocks
    stay recorded -/
theorem cvd_mono {cfg cfg' : Cfg} {m m' : Mem} {d d' : Disk}
    (he : ∀ blk, IsEnt m d blk → IsEnt m' d' blk ∨ blk ∈ recordedG ⟨cfg', m', d'⟩)
    (hr : ∀ blk, blk ∈ recordedG ⟨cfg, m, d⟩ → blk ∈ recordedG ⟨cfg', m', d'⟩) :
    ∀ blk, Cvd cfg m d blk → Cvd cfg' m' d' blk := by
  intro blk hc
  rcases hc with hc | hc
  · exact (he blk hc).imp id id
  · exact Or.inr (hr blk hc)

end Sth.C13H
