/-
C03 over histories with GC cycles — rescanning an index span log (deleted records, first file advanced)
whose files may end in a torn record.
Core Lean only.
-/
import Sth.Lemmas.C03Defs4
import Sth.Lemmas.C03Scan

namespace Sth

/-- `scanFile` on whole spans followed by a torn record prefix: the spans are scanned (deleted ones
    skipped), the torn tail is cut off -/
theorem scanFile_spans_torn {bits max fnum : Nat} (junk : Bytes) (hj : IsTorn bits junk) :
    ∀ (ss : List GSpan) (pre : Bytes) (bk : NMap Nat) (fuel : Nat),
      (∀ s ∈ ss, IdxSpanOK bits s) → ss.length < fuel →
      scanFile (2 ^ bits) max fnum fuel (pre ++ gbytes ss ++ junk) pre.length bk =
        some (pre ++ gbytes ss, setAll bk (fileLive max fnum pre.length ss))
  | [], pre, bk, fuel, _, hf => by
    obtain ⟨f, rfl⟩ : ∃ f, fuel = f + 1 := ⟨fuel - 1, by simp at hf; omega⟩
    simp only [gbytes_nil, List.append_nil]
    rw [scanFile_torn_nil pre junk bk f hj]
    simp [fileLive, liveAt, setAll]
  | s :: ss, pre, bk, fuel, hok, hf => by
    obtain ⟨f, rfl⟩ : ∃ f, fuel = f + 1 := ⟨fuel - 1, by simp at hf; omega⟩
    have hs := hok s (by simp)
    have hlen := hs.1
    have efile : pre ++ gbytes (s :: ss) ++ junk = pre ++ (s.bytes ++ (gbytes ss ++ junk)) := by
      rw [gbytes_cons]; simp [List.append_assoc]
    have h1 : readAt (pre ++ gbytes (s :: ss) ++ junk) pre.length 4 = some (le32 s.raw) := by
      rw [efile]; exact readAt4_span _ _ _
    have h3 : leDec (le32 s.raw) = s.raw := leDec_leEnc 4 _ (GSpan.raw_lt hs.1)
    have ih := scanFile_spans_torn (bits := bits) (max := max) (fnum := fnum) junk hj ss
      (pre ++ s.bytes)
    have e1 : pre ++ s.bytes ++ gbytes ss = pre ++ gbytes (s :: ss) := by
      rw [gbytes_cons]; simp [List.append_assoc]
    have e2 : (pre ++ s.bytes).length = pre.length + 4 + s.body.length := by
      rw [List.length_append, GSpan.bytes_length]; omega
    rw [scanFile]
    simp only [h1, h3]
    by_cases hd : s.dead = true
    · have hraw : s.raw = s.body.length + two31 := by unfold GSpan.raw; simp [hd]
      rw [if_pos (by omega)]
      have := ih bk f (fun x hx => hok x (by simp [hx])) (by simp at hf; omega)
      rw [e1, e2] at this
      have e3 : pre.length + 4 + (s.raw - two31) = pre.length + 4 + s.body.length := by omega
      rw [e3, this]
      simp only [fileLive, liveAt, hd, if_true, GSpan.bytes_length]
      have e4 : pre.length + (4 + s.body.length) = pre.length + 4 + s.body.length := by omega
      rw [e4]
    · have hd' : s.dead = false := by simpa using hd
      have hraw : s.raw = s.body.length := by unfold GSpan.raw; simp [hd']
      rw [if_neg (by omega), hraw]
      have h2 : readAt (pre ++ gbytes (s :: ss) ++ junk) (pre.length + 4) s.body.length =
          some s.body := by
        rw [efile]; exact readAt_span_body _ _ _
      simp only [h2]
      rw [if_neg (by have := hs.2 hd'; omega)]
      have := ih (bk.set (leDec (s.body.take 4)) (fnum * max + (pre.length + 4))) f
        (fun x hx => hok x (by simp [hx])) (by simp at hf; omega)
      rw [e1, e2] at this
      rw [this]
      simp only [fileLive, liveAt, hd', Bool.false_eq_true, if_false, List.map_cons, setAll_cons,
        GSpan.bytes_length]
      have e4 : pre.length + (4 + s.body.length) = pre.length + 4 + s.body.length := by omega
      rw [e4, Nat.add_assoc (fnum * max)]

/-- `scanIndex.go` over span files `n..M` (log starting at `first`) that may each end in a torn record -/
theorem scanIndex_go_spans_torn {bits max first M : Nat} {files0 : NMap Bytes}
    {sp : Nat → List GSpan} {junk : Nat → Bytes}
    (hfiles : ∀ f, first ≤ f → f ≤ M → files0.get? f = some (gbytes (sp f) ++ junk f))
    (hno : files0.get? (M + 1) = none)
    (hok : ∀ f, first ≤ f → f ≤ M → ∀ s ∈ sp f, IdxSpanOK bits s)
    (hj : ∀ f, first ≤ f → f ≤ M → IsTorn bits (junk f)) :
    ∀ (k n fuel last : Nat) (files : NMap Bytes) (bk : NMap Nat), first ≤ n → n + k = M + 1 →
      k + 1 ≤ fuel →
      (∀ f, (f < first ∨ n ≤ f) → files.get? f = files0.get? f) →
      (∀ f, first ≤ f → f < n → files.get? f = some (gbytes (sp f))) →
      ∃ files', scanIndex.go (2 ^ bits) max fuel n last files bk =
          some (files', setAll bk (rangeLive max sp n k), if k = 0 then last else M) ∧
        (∀ f, first ≤ f → f ≤ M → files'.get? f = some (gbytes (sp f))) ∧
        (∀ f, (f < first ∨ M < f) → files'.get? f = files0.get? f)
  | 0, n, fuel, last, files, bk, _, hn, hf, hge, hlt => by
    obtain ⟨f, rfl⟩ : ∃ f, fuel = f + 1 := ⟨fuel - 1, by omega⟩
    have : n = M + 1 := by omega
    subst this
    refine ⟨files, ?_, fun f h1 h2 => hlt f h1 (by omega), fun f hf' => hge f (by omega)⟩
    rw [scanIndex_go_eq, hge (M + 1) (Or.inr (Nat.le_refl _)), hno]
    simp [rangeLive, setAll]
  | k + 1, n, fuel, last, files, bk, hn1, hn, hf, hge, hlt => by
    obtain ⟨f, rfl⟩ : ∃ f, fuel = f + 1 := ⟨fuel - 1, by omega⟩
    have hget : files.get? n = some (gbytes (sp n) ++ junk n) := by
      rw [hge n (Or.inr (Nat.le_refl _)), hfiles n hn1 (by omega)]
    rw [scanIndex_go_eq, hget]
    simp only
    have hlast : (if k + 1 = 0 then last else M) = (if k = 0 then n else M) := by
      by_cases hk : k = 0
      · simp only [hk]; simp; omega
      · simp [hk]
    by_cases hem : (gbytes (sp n) ++ junk n).isEmpty = true
    · rw [if_pos hem]
      have hnil0 : gbytes (sp n) ++ junk n = [] := List.isEmpty_iff.mp hem
      have hnil1 : gbytes (sp n) = [] := (List.append_eq_nil_iff.mp hnil0).1
      have hnil : sp n = [] := gbytes_eq_nil hnil1
      obtain ⟨files', g1, g2, g3⟩ := scanIndex_go_spans_torn hfiles hno hok hj k (n + 1) f n files bk
        (by omega) (by omega) (by omega) (fun f' hf' => hge f' (by omega)) (by
          intro f' hf1 hf2
          by_cases hfn : f' = n
          · rw [hfn, hget, hnil0, hnil1]
          · exact hlt f' hf1 (by omega))
      refine ⟨files', ?_, g2, g3⟩
      rw [g1, hlast]
      simp [rangeLive, hnil, fileLive, liveAt]
    · rw [if_neg hem]
      have hs := scanFile_spans_torn (bits := bits) (max := max) (fnum := n) (junk n)
        (hj n hn1 (by omega)) (sp n) [] bk ((gbytes (sp n) ++ junk n).length + 1)
        (hok n hn1 (by omega)) (by
          have := gbytes_length_ge (sp n)
          rw [List.length_append]; omega)
      simp only [List.nil_append, List.length_nil] at hs
      rw [hs]
      simp only
      obtain ⟨files', g1, g2, g3⟩ := scanIndex_go_spans_torn hfiles hno hok hj k (n + 1) f n
        (files.set n (gbytes (sp n))) (setAll bk (fileLive max n 0 (sp n))) (by omega) (by omega)
        (by omega) (by
          intro f' hf'
          rw [NMap.get?_set, if_neg (by omega)]
          exact hge f' (by omega)) (by
          intro f' hf1 hf2
          rw [NMap.get?_set]
          split
          · rename_i hf''; rw [hf'']
          · exact hlt f' hf1 (by omega))
      refine ⟨files', ?_, g2, g3⟩
      rw [g1, hlast]
      simp only [rangeLive, setAll_append]

theorem scanIndex_spans_torn {bits max first M : Nat} (h31 : bits ≤ 31) {files : NMap Bytes}
    {sp : Nat → List GSpan} {junk : Nat → Bytes} (hle : first ≤ M)
    (hfiles : ∀ f, first ≤ f → f ≤ M → files.get? f = some (gbytes (sp f) ++ junk f))
    (hno : files.get? (M + 1) = none)
    (hok : ∀ f, first ≤ f → f ≤ M → ∀ s ∈ sp f, IdxSpanOK bits s)
    (hj : ∀ f, first ≤ f → f ≤ M → IsTorn bits (junk f)) :
    ∃ files', scanIndex (2 ^ bits) max files first =
        some (files', setAll [] (rangeLive max sp first (M + 1 - first)), M) ∧
      (∀ f, first ≤ f → f ≤ M → files'.get? f = some (gbytes (sp f))) ∧
      (∀ f, (f < first ∨ M < f) → files'.get? f = files.get? f) := by
  have _ := h31
  have hlen := NMap.length_ge_interval (M + 1 - first) first files
    (fun f h1 h2 => by rw [hfiles f h1 (by omega)]; simp)
  obtain ⟨files', g1, g2, g3⟩ := scanIndex_go_spans_torn (max := max) hfiles hno hok hj
    (M + 1 - first) first (files.length + 1) 0 files [] (Nat.le_refl _) (by omega) (by omega)
    (fun _ _ => rfl) (fun f h1 h2 => absurd h2 (by omega))
  refine ⟨files', ?_, g2, g3⟩
  unfold scanIndex
  rw [g1]
  have : ¬ (M + 1 - first = 0) := by omega
  simp [this]

theorem openIndex_torn4 (c : Cfg) (hc : c.Legal) (d : Disk) (first M : Nat) (sp : Nat → List GSpan)
    (junk : Nat → Bytes)
    (hih : d.ihdr = some ⟨c.bits, c.ifs, first, hdrPfs c⟩) (hsn : d.snap = none) (hle : first ≤ M)
    (hfiles : ∀ f, first ≤ f → f ≤ M → d.ifiles.get? f = some (gbytes (sp f) ++ junk f))
    (hno : d.ifiles.get? (M + 1) = none)
    (hok : ∀ f, first ≤ f → f ≤ M → ∀ s ∈ sp f, IdxSpanOK c.bits s)
    (hj : ∀ f, first ≤ f → f ≤ M → IsTorn c.bits (junk f)) :
    ∃ files', openIndex c (hdrPfs c) d =
        .ok ({ d with snap := none, ifiles := files' }, c.bits, c.ifs,
          setAll [] (rangeLive c.ifs sp first (M + 1 - first)), M) ∧
      (∀ f, first ≤ f → f ≤ M → files'.get? f = some (gbytes (sp f))) ∧
      (∀ f, (f < first ∨ M < f) → files'.get? f = d.ifiles.get? f) := by
  obtain ⟨p1, p2, p3, p4⟩ := openIndex_pre c hc
  obtain ⟨files', s1, s2, s3⟩ := scanIndex_spans_torn (max := c.ifs) hc.2.1 hle hfiles hno hok hj
  refine ⟨files', ?_, s2, s3⟩
  have hh : files'.has M = true := has_eq_true (by rw [s2 M hle (Nat.le_refl _)]; simp)
  unfold openIndex
  simp only [p1, p2, if_false, hih, p3, p4, ne_eq, not_true_eq_false, hsn, Bool.false_eq_true, s1,
    and_false, hh, if_true, not_false_eq_true]

end Sth
