/-
C04 — OpenStore after a clean Close when GC cycles have run: the index header's first file may have
advanced, index files contain deleted spans; the snapshot path and the rescan path still load the same
table.
Core Lean only.
-/
import Sth.Lemmas.C04Inv

namespace Sth

section
variable {m2 m' : Mem} {d2 d' : Disk}

/-- the reopened state satisfies the C01 invariant (no assumption on the log) -/
theorem reopen_inv_I {c : Cfg} {U : List (Bytes × Bytes)} {cfg : Cfg} {spec : Spec} {n B : Nat}
    (hI : Inv c U ⟨cfg, m2, d2⟩ spec n B)
    (hin : m2.inext = []) (hpn : m2.pnext = []) (r : Reopened m2 d2 m' d') :
    Inv c U ⟨c, m', d'⟩ spec n B := by
  have hIp : PInv m2 d2 := hI.p
  have hIi : IInv m2 d2 := hI.i
  have hIa : SInv U m2 d2 spec := hI.a
  have hkind : m2.kind = c.kind := hI.kind
  have halloc : m2.kind = .mh → m2.pfileNum = m2.precFileNum ∧ m2.plength = m2.precPos := by
    intro hk
    have := (hIp.mh hk).1
    rw [hpn] at this
    exact this
  refine ⟨by show m'.kind = c.kind; rw [r.kind]; exact hkind,
    by show m'.imm = c.imm; rw [r.imm]; exact hI.imm,
    by show 8 ≤ m'.bits; rw [r.bits]; exact hI.bits8,
    by show m'.bits ≤ 31; rw [r.bits]; exact hI.bits31, ?_, ?_, ?_, ?_, hI.nodup, hI.w⟩
  · show AInv m'.kind m'.bits U _ _ _ _
    rw [r.kind, r.bits]
    apply AInv.mono hIa
    · intro blk k v _ hg
      exact r.priGet hIp hpn hg
    · intro blk hb
      exact (r.below blk).mpr hb
    · intro b
      exact r.idxRecords hIi hin b
  · show PInv m' d'
    constructor
    · rw [r.kind, r.pmax]; exact hIp.pmax
    · rw [r.pnext]; intro x hx; cases hx
    · rw [r.pnext]; intro x hx; cases hx
    · rw [r.pcur]; intro x hx; cases hx
    · intro hk
      rw [r.kind] at hk
      obtain ⟨a1, a2⟩ := halloc hk
      obtain ⟨b1, b2⟩ := r.pfileNum hk
      obtain ⟨_, c2, c3⟩ := hIp.mh hk
      rw [r.pnext, r.pfiles, b1, b2, r.precFileNum hk, r.precPos]
      exact ⟨⟨a1, a2⟩, c2, c3⟩
    · intro hk
      rw [r.kind] at hk
      have := hIp.cid hk
      rw [hpn] at this
      rw [r.pnext, r.cidLen, r.precPos]
      exact this
  · show IInv m' d'
    refine ⟨by rw [r.imax]; exact hIi.imax, (by rw [r.icur]; intro b rl hb; cases hb), r.ilength.symm, ?_,
      r.sorted⟩
    intro f hf
    rw [r.ifiles]
    rw [r.ifileNum] at hf
    exact hIi.noFiles f hf
  · have hc := hI.cnt
    refine ⟨?_, ?_, ?_⟩
    · intro hk
      have hk' : m2.kind = .mh := by rw [← r.kind]; exact hk
      show m'.precFileNum ≤ n ∧ m'.pmax ≤ 1073741824
      rw [r.precFileNum hk', r.pmax]
      exact hc.mh hk'
    · intro hk
      show m'.precPos ≤ B
      rw [r.precPos]
      exact hc.cid (by rw [← r.kind]; exact hk)
    · show m'.ifileNum + m'.inext.length ≤ n
      rw [r.ifileNum, r.inext]
      have := hc.idx
      simp only [List.length_nil]
      show m2.ifileNum + 0 ≤ n
      have h' : m2.ifileNum + m2.inext.length ≤ n := this
      omega

end

end Sth

namespace Sth

/-! ### opening with advanced first files -/

theorem openPrimary_ok4 (c : Cfg) (hc : c.Legal) (d : Disk) (P pf : Nat)
    (hph : c.kind = .mh → d.phdr = some ⟨c.pfs, pf⟩) (hle : c.kind = .mh → pf ≤ P)
    (hall : c.kind = .mh → ∀ f, pf ≤ f → f ≤ P → d.pfiles.get? f ≠ none)
    (hno : c.kind = .mh → d.pfiles.get? (P + 1) = none) :
    ∃ cf pfn plen, openPrimary c d = .ok ({ d with cidfile := cf }, hdrPfs c, pfn, plen) ∧
      (c.kind = .mh → cf = d.cidfile ∧ pfn = P ∧ plen = (fileOf d.pfiles P).length) ∧
      (c.kind = .cid → cf = some (d.cidfile.getD []) ∧ pfn = 0 ∧
        plen = (d.cidfile.getD []).length) := by
  obtain ⟨h1, h2, h3, h4, h5, h6⟩ := hc
  rcases (by cases c.kind <;> simp : c.kind = .mh ∨ c.kind = .cid) with hk | hk
  · have hp : c.pfs ≠ 0 := by omega
    have hp' : ¬ c.pfs > defaultMax := by omega
    have hfl := findLast_from (hle hk) (hall hk) (hno hk)
    refine ⟨d.cidfile, P, (fileOf d.pfiles P).length, ?_, fun _ => ⟨rfl, rfl, rfl⟩, ?_⟩
    · unfold openPrimary hdrPfs
      simp only [hk, hp, if_false, hp', hph hk, ne_eq, not_true_eq_false, hfl,
        has_eq_true (hall hk P (hle hk) (Nat.le_refl _)), if_true]
      rw [← hph hk]
    · intro hk'; rw [hk] at hk'; cases hk'
  · refine ⟨some (d.cidfile.getD []), 0, (d.cidfile.getD []).length, ?_, ?_, fun _ => ⟨rfl, rfl, rfl⟩⟩
    · unfold openPrimary hdrPfs
      simp only [hk]
    · intro hk'; rw [hk] at hk'; cases hk'

theorem openIndex_snap4 (c : Cfg) (hc : c.Legal) (d : Disk) (first N : Nat) (nz : NMap Nat)
    (hih : d.ihdr = some ⟨c.bits, c.ifs, first, hdrPfs c⟩)
    (hsn : d.snap = some ⟨8 * 2 ^ c.bits, nz⟩) (hle : first ≤ N)
    (hall : ∀ f, first ≤ f → f ≤ N → d.ifiles.get? f ≠ none) (hno : d.ifiles.get? (N + 1) = none) :
    openIndex c (hdrPfs c) d = .ok ({ d with snap := none, ifiles := d.ifiles }, c.bits, c.ifs, nz, N) := by
  obtain ⟨p1, p2, p3, p4⟩ := openIndex_pre c hc
  have hfl := findLast_from hle hall hno
  unfold openIndex
  simp only [p1, p2, if_false, hih, p3, p4, ne_eq, not_true_eq_false, hsn, beq_self_eq_true, if_true,
    Option.map_some, Option.getD_some, hfl, and_false,
    has_eq_true (hall N hle (Nat.le_refl _)), not_false_eq_true]

theorem openIndex_scan4 (c : Cfg) (hc : c.Legal) (d : Disk) (first N : Nat) (sp : Nat → List GSpan)
    (hih : d.ihdr = some ⟨c.bits, c.ifs, first, hdrPfs c⟩) (hsn : d.snap = none) (hle : first ≤ N)
    (hfiles : ∀ f, first ≤ f → f ≤ N → d.ifiles.get? f = some (gbytes (sp f)))
    (hno : d.ifiles.get? (N + 1) = none)
    (hok : ∀ f, first ≤ f → f ≤ N → ∀ s ∈ sp f, IdxSpanOK c.bits s) :
    ∃ files', openIndex c (hdrPfs c) d =
        .ok ({ d with snap := none, ifiles := files' }, c.bits, c.ifs,
          setAll [] (rangeLive c.ifs sp first (N + 1 - first)), N) ∧
      ∀ f, files'.get? f = d.ifiles.get? f := by
  obtain ⟨p1, p2, p3, p4⟩ := openIndex_pre c hc
  obtain ⟨files', s1, s2⟩ := scanIndex_spans (max := c.ifs) hle hfiles hno hok
  refine ⟨files', ?_, s2⟩
  have hh : files'.has N = true := has_eq_true (by rw [s2, hfiles N hle (Nat.le_refl _)]; simp)
  unfold openIndex
  simp only [p1, p2, if_false, hih, p3, p4, ne_eq, not_true_eq_false, hsn, Bool.false_eq_true, s1,
    and_false, hh, if_true, not_false_eq_true]

theorem openStore_ok4 (c : Cfg) (hc : c.Legal) (d : Disk) (P pf N : Nat)
    (hph : c.kind = .mh → d.phdr = some ⟨c.pfs, pf⟩) (hle : c.kind = .mh → pf ≤ P)
    (hall : c.kind = .mh → ∀ f, pf ≤ f → f ≤ P → d.pfiles.get? f ≠ none)
    (hno : c.kind = .mh → d.pfiles.get? (P + 1) = none)
    {Q : NMap Bytes → NMap Nat → Prop}
    (hidx : ∀ dP : Disk, dP.ihdr = d.ihdr → dP.snap = d.snap → dP.ifiles = d.ifiles →
      ∃ files' bk, openIndex c (hdrPfs c) dP =
        .ok ({ dP with snap := none, ifiles := files' }, c.bits, c.ifs, bk, N) ∧ Q files' bk) :
    ∃ cf pfn plen files' bk,
      openStore c d = ({ d with free := some (d.free.getD []), cidfile := cf, snap := none,
                                ifiles := files' },
        .ok (openMem c bk N (fileOf files' N).length pfn plen)) ∧
      (c.kind = .mh → cf = d.cidfile ∧ pfn = P ∧ plen = (fileOf d.pfiles P).length) ∧
      (c.kind = .cid → cf = some (d.cidfile.getD []) ∧ pfn = 0 ∧
        plen = (d.cidfile.getD []).length) ∧ Q files' bk := by
  obtain ⟨cf, pfn, plen, o1, o2, o3⟩ := openPrimary_ok4 c hc { d with free := some (d.free.getD []) } P pf
    hph hle hall hno
  obtain ⟨files', bk, o4, o5⟩ := hidx
    { d with free := some (d.free.getD []), cidfile := cf } rfl rfl rfl
  refine ⟨cf, pfn, plen, files', bk, ?_, o2, o3, o5⟩
  unfold openStore
  simp only [o1, o4]
  rfl

/-! ### the reopen step -/

section
variable {c : Cfg} {U : List (Bytes × Bytes)} {s : SState} {spec : Spec} {n B : Nat}

/-- the reopen step with everything exposed: the fully flushed state `(m2, d2)` Close reaches, how the
    reopened state relates to it (`Reopened`), and what became of the freelist -/
theorem step_reopen4_full (hc : c.Legal) (hU : Univ c.kind U) (hI : Inv c U s spec n B) (hX : YInv c s)
    (hn : n < 1073741824) (hB : B < two31) (order : List Nat) (us : Bool) :
    ∃ m1 d1 m2 d2 m' d', priFlush s.m s.d = some (m1, d1) ∧
      idxFlush m1 d1 (fixOrder order s.m.inext.keys) = (m2, d2) ∧
      stepS s (.reopen order us) = (⟨s.cfg, m', d'⟩, .gc) ∧
      Inv c U ⟨s.cfg, m', d'⟩ spec n B ∧ YInv c ⟨s.cfg, m', d'⟩ ∧
      (∀ b, idxRecords m' d' b = idxRecords s.m s.d b) ∧
      (∀ blk k v, priGet s.m s.d blk = .got k v → priGet m' d' blk = .got k v) ∧
      Reopened m2 d2 m' d' ∧ m'.flpool = [] ∧
      d'.free = some (d2.free.getD [] ++ m2.flpool.flatMap blockBytes) ∧ d'.freeGc = d2.freeGc ∧
      d'.snap = none := by
  obtain ⟨m1, d1, m2, d2, p1, i1, hI2, hX2, hin, hpn, _, hR, hP, _, _⟩ :=
    flushBoth_inv4 hU hI hX hn hB order
  obtain ⟨fr, hcl, hfr⟩ := storeClose_eq p1 i1
  have hcfg : s.cfg = c := hX.cfg
  have hIp : PInv m2 d2 := hI2.p
  have hIi : IInv m2 d2 := hI2.i
  have hkind : m2.kind = c.kind := hI2.kind
  have hbits : m2.bits = c.bits := hX2.bits
  have himax : m2.imax = c.ifs := hX2.imax
  obtain ⟨first, sp, hih, hl⟩ := hX2.ilog
  have hih' : d2.ihdr = some ⟨c.bits, c.ifs, first, hdrPfs c⟩ := hih
  have hl' : IdxLogT c.bits c.ifs m2.ifileNum d2.ifiles (tbl m2) first sp := by
    have : IdxLogT m2.bits m2.imax m2.ifileNum d2.ifiles (tbl m2) first sp := hl
    rw [hbits, himax] at this; exact this
  have hino : d2.ifiles.get? (m2.ifileNum + 1) = none := hIi.noFiles _ (by omega)
  have hph : c.kind = .mh → ∃ pf, d2.phdr = some ⟨c.pfs, pf⟩ ∧ pf ≤ m2.pfileNum ∧
      ∀ f, pf ≤ f → f ≤ m2.pfileNum → d2.pfiles.get? f ≠ none := hX2.phdr
  have hpno : c.kind = .mh → d2.pfiles.get? (m2.pfileNum + 1) = none := by
    intro hk
    exact (hIp.mh (by rw [hkind]; exact hk)).2.2 _ (by omega)
  -- the primary header's first file (irrelevant for the CID primary)
  obtain ⟨pf, hpf1, hpf2, hpf3⟩ : ∃ pf, (c.kind = .mh → d2.phdr = some ⟨c.pfs, pf⟩) ∧
      (c.kind = .mh → pf ≤ m2.pfileNum) ∧
      (c.kind = .mh → ∀ f, pf ≤ f → f ≤ m2.pfileNum → d2.pfiles.get? f ≠ none) := by
    rcases (by cases c.kind <;> simp : c.kind = .mh ∨ c.kind = .cid) with hk | hk
    · obtain ⟨pf, q1, q2, q3⟩ := hph hk
      exact ⟨pf, fun _ => q1, fun _ => q2, fun _ => q3⟩
    · have hne : c.kind ≠ .mh := by rw [hk]; intro h; cases h
      exact ⟨0, fun h => absurd h hne, fun h => absurd h hne, fun h => absurd h hne⟩
  have hopen : ∃ d5 cf pfn plen files' bk,
      (if us = true then ({ d2 with snap := some ⟨8 * 2 ^ m2.bits, m2.buckets.filter (·.2 ≠ 0)⟩,
                                    free := fr } : Disk)
        else { ({ d2 with snap := some ⟨8 * 2 ^ m2.bits, m2.buckets.filter (·.2 ≠ 0)⟩,
                          free := fr } : Disk) with snap := none }) = d5 ∧
      d5.pfiles = d2.pfiles ∧ d5.cidfile = d2.cidfile ∧ d5.ihdr = d2.ihdr ∧ d5.phdr = d2.phdr ∧
      openStore c d5 = ({ d5 with free := some (d5.free.getD []), cidfile := cf, snap := none,
                                  ifiles := files' },
        .ok (openMem c bk m2.ifileNum (fileOf files' m2.ifileNum).length pfn plen)) ∧
      (c.kind = .mh → cf = d5.cidfile ∧ pfn = m2.pfileNum ∧
        plen = (fileOf d5.pfiles m2.pfileNum).length) ∧
      (c.kind = .cid → cf = some (d5.cidfile.getD []) ∧ pfn = 0 ∧
        plen = (d5.cidfile.getD []).length) ∧
      (∀ f, files'.get? f = d2.ifiles.get? f) ∧ NMap.Sorted bk ∧
      ∀ b, (bk.get? b).getD 0 = (m2.buckets.get? b).getD 0 := by
    cases us with
    | true =>
      refine ⟨({ d2 with snap := some ⟨8 * 2 ^ m2.bits, m2.buckets.filter (·.2 ≠ 0)⟩, free := fr } : Disk),
        ?_⟩
      obtain ⟨cf, pfn, plen, files', bk, o1, o2, o3, o4⟩ := openStore_ok4 c hc
        ({ d2 with snap := some ⟨8 * 2 ^ m2.bits, m2.buckets.filter (·.2 ≠ 0)⟩, free := fr } : Disk)
        m2.pfileNum pf m2.ifileNum hpf1 hpf2 hpf3 hpno
        (Q := fun files' bk => (∀ f, files'.get? f = d2.ifiles.get? f) ∧ NMap.Sorted bk ∧
          ∀ b, (bk.get? b).getD 0 = (m2.buckets.get? b).getD 0)
        (by
          intro dP e1 e2 e3
          refine ⟨dP.ifiles, m2.buckets.filter (·.2 ≠ 0), ?_, ?_, ?_, ?_⟩
          · apply openIndex_snap4 c hc dP first m2.ifileNum _ (by rw [e1]; exact hih')
              (by rw [e2, hbits]) hl'.le
            · intro f hf1 hf2; rw [e3]; show d2.ifiles.get? f ≠ none; rw [hl'.files f hf1 hf2]; simp
            · rw [e3]; exact hino
          · intro f; rw [e3]
          · exact NMap.sorted_filter _ hIi.sorted
          · exact NMap.get?_filter_nz hIi.sorted)
      exact ⟨cf, pfn, plen, files', bk, by simp, rfl, rfl, rfl, rfl, o1, o2, o3, o4⟩
    | false =>
      refine ⟨({ d2 with snap := none, free := fr } : Disk), ?_⟩
      obtain ⟨cf, pfn, plen, files', bk, o1, o2, o3, o4⟩ := openStore_ok4 c hc
        ({ d2 with snap := none, free := fr } : Disk)
        m2.pfileNum pf m2.ifileNum hpf1 hpf2 hpf3 hpno
        (Q := fun files' bk => (∀ f, files'.get? f = d2.ifiles.get? f) ∧ NMap.Sorted bk ∧
          ∀ b, (bk.get? b).getD 0 = (m2.buckets.get? b).getD 0)
        (by
          intro dP e1 e2 e3
          obtain ⟨files', q1, q2⟩ := openIndex_scan4 c hc dP first m2.ifileNum sp
            (by rw [e1]; exact hih') (by rw [e2]) hl'.le
            (by intro f hf1 hf2; rw [e3]; exact hl'.files f hf1 hf2) (by rw [e3]; exact hino) hl'.ok
          refine ⟨files', _, q1, ?_, ?_, ?_⟩
          · intro f; rw [q2, e3]
          · unfold setAll
            generalize rangeLive c.ifs sp first (m2.ifileNum + 1 - first) = l
            have : ∀ (l : List (Nat × Nat)) (bk : NMap Nat), NMap.Sorted bk →
                NMap.Sorted (l.foldl (fun bk x => bk.set x.1 x.2) bk) := by
              intro l
              induction l with
              | nil => intro bk h; exact h
              | cons x l ih => intro bk h; exact ih _ (NMap.sorted_set _ _ h)
            exact this l [] NMap.sorted_nil
          · intro b; exact scan_tbl hl' b)
      exact ⟨cf, pfn, plen, files', bk, by simp, rfl, rfl, rfl, rfl, o1, o2, o3, o4⟩
  obtain ⟨d5, cf, pfn, plen, files', bk, e5, g1, g2, g3, g4, o1, o2, o3, q1, q2, q3⟩ := hopen
  have halloc : m2.kind = .mh → m2.pfileNum = m2.precFileNum ∧ m2.plength = m2.precPos := by
    intro hk
    have := (hIp.mh hk).1
    rw [hpn] at this
    exact this
  have hr : Reopened m2 d2 (openMem c bk m2.ifileNum (fileOf files' m2.ifileNum).length pfn plen)
      { d5 with free := some (d5.free.getD []), cidfile := cf, snap := none, ifiles := files' } := by
    refine ⟨hkind.symm, hI2.imm.symm, hbits.symm, himax.symm, hX2.pmax.symm, rfl, rfl, rfl, rfl, rfl,
      rfl, q2, q3, q1, g1, ?_, ?_, ?_, ?_, ?_, g3, g4⟩
    · intro file hf
      show cf = some file
      rcases kind_cases m2 with hk | hk
      · rw [(o2 (by rw [← hkind]; exact hk)).1, g2]; exact hf
      · rw [(o3 (by rw [← hkind]; exact hk)).1, g2, hf]; rfl
    · show cf.getD [] = d2.cidfile.getD []
      rcases kind_cases m2 with hk | hk
      · rw [(o2 (by rw [← hkind]; exact hk)).1, g2]
      · rw [(o3 (by rw [← hkind]; exact hk)).1, g2]; rfl
    · intro hk
      show pfn = m2.precFileNum
      rw [(o2 (by rw [← hkind]; exact hk)).2.1]
      exact (halloc hk).1
    · show plen = m2.precPos
      rcases kind_cases m2 with hk | hk
      · rw [(o2 (by rw [← hkind]; exact hk)).2.2, g1, (hIp.mh hk).2.1]
        exact (halloc hk).2
      · rw [(o3 (by rw [← hkind]; exact hk)).2.2, g2]
        have := hIp.cid hk
        rw [hpn] at this
        exact this
    · intro hk
      show pfn = m2.pfileNum ∧ plen = m2.plength
      obtain ⟨_, a2, a3⟩ := o2 (by rw [← hkind]; exact hk)
      rw [a2, a3, g1]
      exact ⟨rfl, (hIp.mh hk).2.1⟩
  have hI' := reopen_inv_I hI2 hin hpn hr
  -- the extended invariant of the reopened state
  have hX' : YInv c ⟨c, openMem c bk m2.ifileNum (fileOf files' m2.ifileNum).length pfn plen,
      { d5 with free := some (d5.free.getD []), cidfile := cf, snap := none, ifiles := files' }⟩ := by
    refine ⟨rfl, rfl, rfl, rfl, ⟨first, sp, by show d5.ihdr = _; rw [g3]; exact hih', ?_⟩, ?_,
      fun b rl hb => by cases hb⟩
    · show IdxLogT c.bits c.ifs m2.ifileNum files' _ first sp
      have ht : tbl (openMem c bk m2.ifileNum (fileOf files' m2.ifileNum).length pfn plen) = tbl m2 := by
        funext b; exact q3 b
      rw [ht]
      exact ⟨hl'.le, fun f hf => by rw [q1]; exact hl'.gone f hf,
        fun f h1 h2 => by rw [q1]; exact hl'.files f h1 h2, hl'.ok, hl'.t1, hl'.t2⟩
    · intro hk
      have hk' : m2.kind = .mh := by rw [hkind]; exact hk
      obtain ⟨_, a2, _⟩ := o2 hk
      refine ⟨pf, by show d5.phdr = _; rw [g4]; exact hpf1 hk, ?_, ?_⟩
      · show pf ≤ pfn; rw [a2]; exact hpf2 hk
      · intro f hf1 hf2
        show d5.pfiles.get? f ≠ none
        have hf2' : f ≤ pfn := hf2
        rw [a2] at hf2'
        rw [g1]
        exact hpf3 hk f hf1 hf2'
  refine ⟨m1, d1, m2, d2, _, _, p1, i1, ?_, by rw [hcfg]; exact hI', by rw [hcfg]; exact hX', ?_, ?_,
    hr, rfl, ?_, ?_, rfl⟩
  · unfold stepS
    simp only [hcl, e5, hcfg, o1]
  · intro b
    rw [hr.idxRecords hIi hin b]
    exact hR b
  · intro blk k v hg
    exact hr.priGet hIp hpn (hP blk k v hg)
  · show some (d5.free.getD []) = _
    rw [← hfr, ← e5]
    cases us <;> rfl
  · show d5.freeGc = d2.freeGc
    rw [← e5]
    cases us <;> rfl

theorem step_reopen4 (hc : c.Legal) (hU : Univ c.kind U) (hI : Inv c U s spec n B) (hX : YInv c s)
    (hn : n < 1073741824) (hB : B < two31) (order : List Nat) (us : Bool) :
    ∃ m' d', stepS s (.reopen order us) = (⟨s.cfg, m', d'⟩, .gc) ∧
      Inv c U ⟨s.cfg, m', d'⟩ spec n B ∧ YInv c ⟨s.cfg, m', d'⟩ ∧
      (∀ b, idxRecords m' d' b = idxRecords s.m s.d b) ∧
      (∀ blk k v, priGet s.m s.d blk = .got k v → priGet m' d' blk = .got k v) := by
  obtain ⟨_, _, _, _, m', d', _, _, h3, h4, h5, h6, h7, _⟩ :=
    step_reopen4_full hc hU hI hX hn hB order us
  exact ⟨m', d', h3, h4, h5, h6, h7⟩

end

end Sth
