/-
C10 (byte level) — generic facts about `chunk`, `chunkFiles`, `setFiles`, `remapOffset`:
* `chunk` of a mapped list is the mapped chunking (`chunkG`), so index records chunk as whole records;
* `remap_chunks_split`: the i-th record of the old file sits, whole, in chunk `n` after `F`, and
  `remapOffset` sends its linear offset to `limit * n + |F|`, `|F| < limit`;
* the files `chunkFiles` / `setFiles` leave: numbering, last file, sizes.
Core Lean only.
-/
import Sth.Lemmas.C10
import Sth.Lemmas.StoreBase
import Sth.Model.UpgradeBytes

namespace Sth

/-! ### chunking a mapped list -/

/-- `chunkAux` over abstract records with a size function -/
def chunkAuxG {α : Type} (sz : α → Nat) (limit : Nat) : List α → List α → Nat → List (List α)
  | [], cur, _ => if cur.isEmpty then [] else [cur.reverse]
  | r :: rs, cur, written =>
    let written' := written + sz r
    if written' ≥ limit then (r :: cur).reverse :: chunkAuxG sz limit rs [] 0
    else chunkAuxG sz limit rs (r :: cur) written'

def chunkG {α : Type} (sz : α → Nat) (limit : Nat) (l : List α) : List (List α) := chunkAuxG sz limit l [] 0

theorem chunkAuxG_map {α : Type} (enc : α → Bytes) (limit : Nat) (rs cur : List α) (w : Nat) :
    chunkAux limit (rs.map enc) (cur.map enc) w =
      (chunkAuxG (fun a => (enc a).length) limit rs cur w).map (List.map enc) := by
  induction rs generalizing cur w with
  | nil =>
    cases cur <;> simp [chunkAux, chunkAuxG]
  | cons r rs ih =>
    simp only [List.map_cons, chunkAux, chunkAuxG]
    split
    · have := ih [] 0
      simp only [List.map_nil] at this
      rw [this]
      simp
    · have := ih (r :: cur) (w + (enc r).length)
      simp only [List.map_cons] at this
      exact this

theorem chunk_map {α : Type} (enc : α → Bytes) (limit : Nat) (l : List α) :
    chunk limit (l.map enc) = (chunkG (fun a => (enc a).length) limit l).map (List.map enc) := by
  have := chunkAuxG_map enc limit l [] 0
  simpa [chunk, chunkG] using this

theorem chunkAuxG_flatten {α : Type} (sz : α → Nat) (limit : Nat) (rs cur : List α) (w : Nat) :
    (chunkAuxG sz limit rs cur w).flatten = cur.reverse ++ rs := by
  induction rs generalizing cur w with
  | nil => cases cur <;> simp [chunkAuxG]
  | cons r rs ih =>
    simp only [chunkAuxG]
    split <;> simp [ih]

theorem chunkG_flatten {α : Type} (sz : α → Nat) (limit : Nat) (l : List α) :
    (chunkG sz limit l).flatten = l := by
  simp [chunkG, chunkAuxG_flatten]

theorem chunkAuxG_length_le {α : Type} (sz : α → Nat) (limit : Nat) (rs cur : List α) (w : Nat) :
    (chunkAuxG sz limit rs cur w).length ≤ rs.length + (if cur.isEmpty then 0 else 1) := by
  induction rs generalizing cur w with
  | nil => cases cur <;> simp [chunkAuxG]
  | cons r rs ih =>
    simp only [chunkAuxG]
    split
    · have := ih [] 0
      simp only [List.isEmpty_nil, if_true] at this
      simp only [List.length_cons]
      split <;> omega
    · have := ih (r :: cur) (w + sz r)
      simp only [List.isEmpty_cons, Bool.false_eq_true, if_false] at this
      simp only [List.length_cons]
      split <;> omega

theorem chunkG_length_le {α : Type} (sz : α → Nat) (limit : Nat) (l : List α) :
    (chunkG sz limit l).length ≤ l.length := by
  have := chunkAuxG_length_le sz limit l [] 0
  simpa [chunkG] using this

theorem chunk_length_le (limit : Nat) (recs : List Bytes) : (chunk limit recs).length ≤ recs.length := by
  have h := chunk_map (fun x : Bytes => x) limit recs
  simp only [List.map_id'] at h
  have h2 := chunkG_length_le (fun a : Bytes => a.length) limit recs
  have : (chunk limit recs).length = (chunkG (fun a : Bytes => a.length) limit recs).length := by
    rw [h]; simp
  omega

/-! ### where a record ends up -/

theorem flatten_take_length (c : List Bytes) (i : Nat) : (c.take i).flatten.length = bsize (c.take i) := by
  simp [bsize, List.length_flatten]

theorem remap_chunks_split (limit : Nat) (cs : List (List Bytes))
    (hstart : ∀ c ∈ cs, ∀ o ∈ recordStarts c 0, o < limit)
    (first i : Nat) (r : Bytes) (hi : cs.flatten[i]? = some r) (hr : 0 < r.length)
    (hne : ∀ c ∈ cs, ∀ r ∈ c, r ≠ []) :
    ∃ n c F g, cs[n]? = some c ∧ c.flatten = F ++ r ++ g ∧ F.length < limit ∧
      remapOffset first limit (cs.map bsize) (bsize (cs.flatten.take i)) = some (limit * (first + n) + F.length) := by
  induction cs generalizing first i with
  | nil => simp at hi
  | cons c cs ih =>
    simp only [List.flatten_cons] at hi ⊢
    by_cases hlt : i < c.length
    · have hci : c[i]? = some r := by rwa [List.getElem?_append_left hlt] at hi
      have htake : (c ++ cs.flatten).take i = c.take i := by
        rw [List.take_append_of_le_length (Nat.le_of_lt hlt)]
      have hle := bsize_take_le c i r hci
      have hs := recordStarts_getElem? c 0 i hlt
      rw [Nat.zero_add] at hs
      have hoff : bsize (c.take i) < limit := hstart c (by simp) _ (List.mem_of_getElem? hs)
      have hsplit : c = c.take i ++ r :: c.drop (i + 1) := by
        have h1 : c[i] = r := by
          have := List.getElem?_eq_getElem hlt
          rw [this] at hci
          exact Option.some.inj hci
        rw [← h1]
        simp
      refine ⟨0, c, (c.take i).flatten, (c.drop (i + 1)).flatten, by simp, ?_, ?_, ?_⟩
      · conv => lhs; rw [hsplit]
        simp [List.flatten_append]
      · rw [flatten_take_length]; exact hoff
      · rw [htake, flatten_take_length]
        simp only [List.map_cons, remapOffset]
        rw [if_pos (by omega)]
        simp
    · have hge : c.length ≤ i := Nat.le_of_not_lt hlt
      rw [List.getElem?_append_right hge] at hi
      have htake : (c ++ cs.flatten).take i = c ++ cs.flatten.take (i - c.length) := by
        rw [List.take_append, List.take_of_length_le hge]
      obtain ⟨n, c', F, g, h0, h1, h2, h3⟩ :=
        ih (fun c' hc' => hstart c' (List.mem_cons_of_mem _ hc')) (first + 1) (i - c.length) hi
          (fun c' hc' => hne c' (List.mem_cons_of_mem _ hc'))
      refine ⟨n + 1, c', F, g, by simpa using h0, h1, h2, ?_⟩
      rw [htake, bsize_append]
      simp only [List.map_cons, remapOffset]
      rw [if_neg (by omega), Nat.add_sub_cancel_left, h3]
      simp [Nat.add_assoc, Nat.add_comm 1 n]

/-- a trailing empty file does not change `remapOffset` -/
theorem remapOffset_append_zero (first max : Nat) (sizes : List Nat) (pos : Nat) :
    remapOffset first max (sizes ++ [0]) pos = remapOffset first max sizes pos := by
  induction sizes generalizing first pos with
  | nil => simp [remapOffset]
  | cons s rest ih =>
    simp only [List.cons_append, remapOffset]
    split
    · rfl
    · exact ih _ _

/-- the result of `remapOffset` is below 2^64 under the model's limits -/
theorem remapOffset_bound (first max : Nat) (sizes : List Nat) (pos x : Nat)
    (h : remapOffset first max sizes pos = some x) : x < max * (first + sizes.length) + pos + 1 := by
  induction sizes generalizing first pos with
  | nil => simp [remapOffset] at h
  | cons s rest ih =>
    simp only [remapOffset] at h
    split at h
    · cases h
      simp only [List.length_cons]
      have : max * first ≤ max * (first + (rest.length + 1)) := Nat.mul_le_mul_left _ (by omega)
      omega
    · have := ih _ _ h
      simp only [List.length_cons]
      have e : first + 1 + rest.length = first + (rest.length + 1) := by omega
      rw [e] at this
      omega

/-! ### setFiles -/

theorem setFiles_get? (m : NMap Bytes) (n : Nat) (files : List Bytes) (j : Nat) :
    (setFiles m n files).get? j =
      if n ≤ j ∧ j < n + files.length then files[j - n]? else m.get? j := by
  induction files generalizing m n with
  | nil =>
    simp only [setFiles, List.length_nil, Nat.add_zero]
    rw [if_neg (by omega)]
  | cons f fs ih =>
    simp only [setFiles, List.length_cons]
    rw [ih]
    by_cases h1 : n + 1 ≤ j ∧ j < n + 1 + fs.length
    · rw [if_pos h1, if_pos (by omega)]
      have : j - n = (j - (n + 1)) + 1 := by omega
      rw [this, List.getElem?_cons_succ]
    · rw [if_neg h1]
      by_cases h2 : j = n
      · subst h2
        rw [NMap.get?_set_eq, if_pos (by omega)]
        simp
      · rw [NMap.get?_set_ne _ _ h2, if_neg (by omega)]

/-! ### chunkFiles -/

/-- the two shapes of `chunkFiles` without stray bytes -/
theorem chunkFiles_cases (limit : Nat) (recs : List Bytes) :
    chunkFiles limit recs [] = (chunk limit recs).map List.flatten ∧ chunk limit recs ≠ [] ∨
    chunkFiles limit recs [] = (chunk limit recs).map List.flatten ++ [[]] := by
  unfold chunkFiles
  simp only
  cases h : ((chunk limit recs).map List.flatten).getLast? with
  | none =>
    right
    have : (chunk limit recs).map List.flatten = [] := List.getLast?_eq_none_iff.mp h
    simp [this]
  | some last =>
    simp only
    split
    · right; rfl
    · left
      have hne : (chunk limit recs).map List.flatten ≠ [] := by
        intro h0; rw [h0] at h; simp at h
      refine ⟨?_, by intro h0; apply hne; rw [h0]; rfl⟩
      rw [List.append_nil]
      have e := List.dropLast_concat_getLast hne
      have e2 : ((chunk limit recs).map List.flatten).getLast hne = last := by
        rw [List.getLast?_eq_some_getLast hne] at h
        exact Option.some.inj h
      rw [e2] at e
      exact e

theorem chunkFiles_ne (limit : Nat) (recs : List Bytes) : chunkFiles limit recs [] ≠ [] := by
  rcases chunkFiles_cases limit recs with ⟨h, hne⟩ | h
  · rw [h]; intro h0; apply hne; simpa using h0
  · rw [h]; simp

/-- every chunk is one of the files, under its number -/
theorem chunkFiles_get (limit : Nat) (recs : List Bytes) (n : Nat) (c : List Bytes)
    (h : (chunk limit recs)[n]? = some c) : (chunkFiles limit recs [])[n]? = some c.flatten := by
  have hn : n < (chunk limit recs).length := (List.getElem?_eq_some_iff.mp h).1
  rcases chunkFiles_cases limit recs with ⟨h1, _⟩ | h1
  · rw [h1, List.getElem?_map, h]; rfl
  · rw [h1, List.getElem?_append_left (by simpa using hn), List.getElem?_map, h]; rfl

/-- a file is a chunk, or the trailing empty file -/
theorem chunkFiles_get_inv (limit : Nat) (recs : List Bytes) (n : Nat) (f : Bytes)
    (h : (chunkFiles limit recs [])[n]? = some f) :
    (∃ c, (chunk limit recs)[n]? = some c ∧ f = c.flatten) ∨ (f = [] ∧ n = (chunk limit recs).length) := by
  rcases chunkFiles_cases limit recs with ⟨h1, _⟩ | h1
  · rw [h1, List.getElem?_map] at h
    cases hc : (chunk limit recs)[n]? with
    | none => rw [hc] at h; cases h
    | some c => rw [hc] at h; left; exact ⟨c, rfl, by simpa using h.symm⟩
  · rw [h1] at h
    by_cases hn : n < (chunk limit recs).length
    · rw [List.getElem?_append_left (by simpa using hn), List.getElem?_map] at h
      cases hc : (chunk limit recs)[n]? with
      | none => rw [hc] at h; cases h
      | some c => rw [hc] at h; left; exact ⟨c, rfl, by simpa using h.symm⟩
    · rw [List.getElem?_append_right (by simpa using hn)] at h
      simp only [List.length_map] at h
      right
      have : n - (chunk limit recs).length = 0 := by
        cases hx : n - (chunk limit recs).length with
        | zero => rfl
        | succ k => rw [hx] at h; simp at h
      rw [this] at h
      simp only [List.getElem?_cons_zero, Option.some.injEq] at h
      exact ⟨h.symm, by omega⟩

theorem chunkFiles_length_le (limit : Nat) (recs : List Bytes) :
    (chunkFiles limit recs []).length ≤ recs.length + 1 := by
  have := chunk_length_le limit recs
  rcases chunkFiles_cases limit recs with ⟨h, _⟩ | h <;> rw [h] <;> simp <;> omega

/-- the sizes of the files are `chunkSizes`, possibly followed by the empty file's 0 -/
theorem chunkFiles_sizes (limit : Nat) (recs : List Bytes) :
    (chunkFiles limit recs []).map List.length = chunkSizes limit recs ∨
    (chunkFiles limit recs []).map List.length = chunkSizes limit recs ++ [0] := by
  have e : ((chunk limit recs).map List.flatten).map List.length = chunkSizes limit recs := by
    unfold chunkSizes
    rw [List.map_map]
    apply List.map_congr_left
    intro c _
    simp [List.length_flatten]
  rcases chunkFiles_cases limit recs with ⟨h, _⟩ | h
  · left; rw [h, e]
  · right; rw [h, List.map_append, e]; rfl

theorem remapOffset_chunkFiles (limit : Nat) (recs : List Bytes) (pos : Nat) :
    remapOffset 0 limit ((chunkFiles limit recs []).map List.length) pos =
      remapOffset 0 limit (chunkSizes limit recs) pos := by
  rcases chunkFiles_sizes limit recs with h | h
  · rw [h]
  · rw [h, remapOffset_append_zero]

/-! ### primarySizes -/

theorem primarySizes_setFiles (files : List Bytes) (k : Nat) (hk : k ≤ files.length) :
    primarySizes (setFiles [] 0 files) k (files.length - k) = (files.drop (files.length - k)).map List.length := by
  induction k with
  | zero => simp [primarySizes]
  | succ k ih =>
    have hlt : files.length - (k + 1) < files.length := by omega
    simp only [primarySizes]
    rw [setFiles_get?, if_pos (by omega), Nat.sub_zero, List.getElem?_eq_getElem hlt]
    simp only
    have e : files.length - (k + 1) + 1 = files.length - k := by omega
    rw [e, ih (by omega)]
    rw [List.drop_eq_getElem_cons hlt, e]
    simp

theorem primarySizes_all (files : List Bytes) :
    primarySizes (setFiles [] 0 files) files.length 0 = files.map List.length := by
  have := primarySizes_setFiles files files.length (Nat.le_refl _)
  simpa using this

end Sth
