/-
C13B (1): the invariant of the concurrent flush-barrier model (Sth/Model/BarrierConc.lean), the frame lemmas for the
fields that look at the threads, and the initial state.
-/
import Sth.Model.BarrierConc

namespace Sth.BarrierConc

/-! ### threads -/

theorem get_set {l : List Thread} {i : Nat} (t' : Thread) {j : Nat} {u : Thread}
    (hj : (l.set i t')[j]? = some u) : (j = i ∧ u = t') ∨ (j ≠ i ∧ l[j]? = some u) := by
  rw [List.getElem?_set] at hj
  by_cases hij : i = j
  · subst hij
    split at hj
    · split at hj
      · cases hj; exact .inl ⟨rfl, rfl⟩
      · cases hj
    · exact absurd rfl ‹_›
  · simp [hij] at hj; exact .inr ⟨fun h => hij h.symm, hj⟩

theorem get_set_self {l : List Thread} {i : Nat} {t : Thread} (hi : l[i]? = some t) (t' : Thread) :
    (l.set i t')[i]? = some t' := by
  have hlen : i < l.length := (List.getElem?_eq_some_iff.1 hi).1
  simp [hlen]

theorem get_set_other {l : List Thread} {i j : Nat} (t' : Thread) (hji : j ≠ i) : (l.set i t')[j]? = l[j]? := by
  simp [Ne.symm hji]

theorem mem_lt {s : State} {i : Nat} {t : Thread} (hi : s.threads[i]? = some t) : i < s.threads.length :=
  (List.getElem?_eq_some_iff.1 hi).1

/-! ### the invariant -/

/-- `r` is carried by a thread between F1 and F2 -/
def InFlight (s : State) (r : Rec) : Prop := ∃ (j : Nat) (t : Thread), s.threads[j]? = some t ∧ r ∈ t.pc.cur

/-- the part about threads, programs and the lock; `c` is the collector thread -/
structure TInv (c : Nat) (s : State) : Prop where
  lockLt : ∀ h, s.flushLock = some h → h < s.threads.length
  lock : ∀ (i : Nat) (t : Thread), s.threads[i]? = some t → (t.pc.holds = true ↔ s.flushLock = some i)
  writers : ∀ (i : Nat) (t : Thread), s.threads[i]? = some t → i ≠ c → ∀ op ∈ t.prog, op.collector = false
  mid : ∀ (i : Nat) (t : Thread), s.threads[i]? = some t → t.pc ≠ .idle → ∃ r, t.prog = .pflush :: r

/-- the part about the data -/
structure DInv (strict : Bool) (c : Nat) (s : State) : Prop where
  /-- the collector's remaining program keeps the order, from the present phase -/
  order : ∀ t : Thread, s.threads[c]? = some t → orderOK strict s.phase t.prog = true
  phaseGc : s.phase = .noGc ↔ s.gc = none
  handed : s.phase = .fresh → s.handedBy = c
  /-- every freelist entry, at every stage, names a record whose Put has returned -/
  flIn : ∀ o, o ∈ s.flPool ∨ o ∈ s.flFile ∨ o ∈ gcEntries s → o ∈ s.putDone
  /-- every record whose Put has returned is pooled, in flight, or in the primary file -/
  putIn : ∀ r ∈ s.putDone, r ∈ s.nextPool ∨ r ∈ s.disk ∨ InFlight s r
  /-- THE BARRIER: once the collector's flush has returned, every entry of the `.gc` file is in the primary file -/
  cover : s.phase = .barriered ∨ s.phase = .applied → ∀ o ∈ gcEntries s, o ∈ s.disk
  /-- between F1 and F2 of the collector's flush, what is not in the file yet is in its hands -/
  coverMid : s.phase = .fresh → ∀ t : Thread, s.threads[c]? = some t → t.pc ≠ .idle →
    ∀ o ∈ gcEntries s, o ∈ s.disk ∨ o ∈ t.pc.cur
  nomiss : s.missed = []
  acct : s.consumed ++ gcEntries s ++ s.flFile ++ s.flPool = s.freed
  appl : strict = true → s.applied = s.consumed ++ (if s.phase = .applied then gcEntries s else [])

structure Inv (strict : Bool) (c : Nat) (s : State) : Prop where
  t : TInv c s
  d : DInv strict c s

/-! ### frames -/

/-- the frame of the thread part: thread `i` moves from `t` to `t'` -/
theorem TInv.set {c : Nat} {s : State} (h : TInv c s) {i : Nat} {t : Thread} (hi : s.threads[i]? = some t)
    {s1 : State} {t' : Thread} (hth : s1.threads = s.threads.set i t')
    (hlk : (s1.flushLock = s.flushLock ∧ t'.pc.holds = t.pc.holds) ∨
           (s.flushLock = none ∧ s1.flushLock = some i ∧ t'.pc.holds = true) ∨
           (s.flushLock = some i ∧ s1.flushLock = none ∧ t'.pc.holds = false))
    (hw : i ≠ c → ∀ op ∈ t'.prog, op.collector = false)
    (hmid : t'.pc ≠ .idle → ∃ r, t'.prog = .pflush :: r) : TInv c s1 := by
  have hlen : i < s.threads.length := mem_lt hi
  refine ⟨?_, ?_, ?_, ?_⟩
  · intro k hk
    rw [hth, List.length_set]
    rcases hlk with ⟨h1, _⟩ | ⟨_, h1, _⟩ | ⟨_, h1, _⟩
    · exact h.lockLt k (h1 ▸ hk)
    · rw [h1] at hk; cases hk; exact hlen
    · rw [h1] at hk; cases hk
  · intro j u hj
    rw [hth] at hj
    have hti := h.lock i t hi
    rcases get_set t' hj with ⟨rfl, rfl⟩ | ⟨hji, hj'⟩
    · rcases hlk with ⟨h1, h2⟩ | ⟨_, h1, h2⟩ | ⟨_, h1, h2⟩ <;> simp_all
    · have := h.lock j u hj'
      rcases hlk with ⟨h1, h2⟩ | ⟨h0, h1, h2⟩ | ⟨h0, h1, h2⟩
      · rw [h1]; exact this
      · rw [h1]; rw [h0] at this; simp_all; omega
      · rw [h1]; rw [h0] at this; simp_all; omega
  · intro j u hj hjc
    rw [hth] at hj
    rcases get_set t' hj with ⟨rfl, rfl⟩ | ⟨hji, hj'⟩
    · exact hw hjc
    · exact h.writers j u hj' hjc
  · intro j u hj
    rw [hth] at hj
    rcases get_set t' hj with ⟨rfl, rfl⟩ | ⟨hji, hj'⟩
    · exact hmid
    · exact h.mid j u hj'

/-- a thread that holds no lock carries nothing -/
theorem cur_of_not_holds (p : Pc) (h : p.holds = false) : p.cur = [] := by
  cases p <;> simp_all [Pc.holds, Pc.cur]

/-- with the lock free nothing is in flight -/
theorem TInv.unlocked_not_inFlight {c : Nat} {s : State} (h : TInv c s) (hl : s.flushLock = none) (r : Rec) :
    ¬ InFlight s r := by
  rintro ⟨j, u, hj, hr⟩
  have := h.lock j u hj
  cases hh : u.pc.holds with
  | false => rw [cur_of_not_holds _ hh] at hr; cases hr
  | true => have := this.1 hh; simp_all

/-- the collector's program after a step: its own step moved along `orderOK`, another thread's kept the phase -/
theorem order_of {strict : Bool} {c : Nat} {s s1 : State} {i : Nat} {t' : Thread}
    (h : ∀ u : Thread, s.threads[c]? = some u → orderOK strict s.phase u.prog = true)
    (hth : s1.threads = s.threads.set i t')
    (hc : i = c → orderOK strict s1.phase t'.prog = true) (hn : i ≠ c → s1.phase = s.phase) :
    ∀ u : Thread, s1.threads[c]? = some u → orderOK strict s1.phase u.prog = true := by
  intro u hu
  rw [hth] at hu
  rcases get_set t' hu with ⟨hci, rfl⟩ | ⟨hci, hu'⟩
  · exact hc hci.symm
  · rw [hn (fun h => hci h.symm)]; exact h u hu'

/-- what is in flight stays in flight when the stepping thread keeps (at least) what it carries -/
theorem inFlight_mono {s s1 : State} {i : Nat} {t t' : Thread} (hi : s.threads[i]? = some t)
    (hth : s1.threads = s.threads.set i t') (hcur : ∀ r ∈ t.pc.cur, r ∈ t'.pc.cur) {r : Rec}
    (h : InFlight s r) : InFlight s1 r := by
  obtain ⟨j, u, hj, hr⟩ := h
  by_cases hji : j = i
  · subst hji
    rw [hi] at hj; cases hj
    exact ⟨j, t', by rw [hth]; exact get_set_self hi t', hcur r hr⟩
  · exact ⟨j, u, by rw [hth, get_set_other t' hji]; exact hj, hr⟩

/-- a thread found past F1 after a step that ends idle was there before -/
theorem mid_of_idle {s s1 : State} {i : Nat} {t' : Thread} (hth : s1.threads = s.threads.set i t')
    (hidle : t'.pc = .idle) {c : Nat} {u : Thread} (hu : s1.threads[c]? = some u) (hp : u.pc ≠ .idle) :
    s.threads[c]? = some u ∧ c ≠ i := by
  rw [hth] at hu
  rcases get_set t' hu with ⟨_, rfl⟩ | ⟨hci, hu'⟩
  · exact absurd hidle hp
  · exact ⟨hu', hci⟩

/-! ### the discipline -/

theorem orderOK_cons {strict : Bool} {ph : Phase} {op : Op} {r : List Op} (h : orderOK strict ph (op :: r) = true) :
    ∃ ph', ph.next strict op = some ph' ∧ orderOK strict ph' r = true := by
  simp only [orderOK] at h
  split at h
  · cases h
  · rename_i ph' hn; exact ⟨ph', hn, h⟩

theorem next_of_strict {ph ph' : Phase} {op : Op} (h : ph.next true op = some ph') : ph.next false op = some ph' := by
  revert h; cases op <;> cases ph <;> simp [Phase.next]

/-- the strict discipline implies the plain one -/
theorem orderOK_of_strict (ph : Phase) (p : List Op) (h : orderOK true ph p = true) : orderOK false ph p = true := by
  induction p generalizing ph with
  | nil => rfl
  | cons op r ih =>
    obtain ⟨ph', hn, hr⟩ := orderOK_cons h
    simp only [orderOK, next_of_strict hn]; exact ih ph' hr

/-- the passes of gc(), any number of them, keep the strict discipline from a state without a `.gc` file -/
theorem orderOK_passes (strict : Bool) (n : Nat) :
    orderOK strict .noGc (List.replicate n gcPass).flatten = true := by
  induction n with
  | zero => rfl
  | succ n ih =>
    rw [List.replicate_succ, List.flatten_cons]
    simpa [gcPass, orderOK, Phase.next] using ih

/-! ### the initial state -/

theorem init_inv {strict : Bool} {c : Nat} {progs : List (List Op)} (hc : CollectorIs c progs)
    (ho : orderOK strict .noGc (progs[c]?.getD []) = true) (disk : List Rec) : Inv strict c (init progs disk) := by
  refine ⟨⟨?_, ?_, ?_, ?_⟩, ⟨?_, ?_, ?_, ?_, ?_, ?_, ?_, rfl, rfl, ?_⟩⟩
  · intro h hh; simp [init] at hh
  · intro i t hi
    simp [init] at hi
    obtain ⟨p, _, rfl⟩ := hi
    simp [Pc.holds, init]
  · intro i t hi hic
    simp [init] at hi
    obtain ⟨p, hp, rfl⟩ := hi
    have hlen : i < progs.length := (List.getElem?_eq_some_iff.1 hp).1
    have := hc i hlen hic
    simpa [hp] using this
  · intro i t hi hp
    simp [init] at hi
    obtain ⟨p, _, rfl⟩ := hi
    simp at hp
  · intro t ht
    simp [init] at ht
    obtain ⟨p, hp, rfl⟩ := ht
    simpa [hp, init] using ho
  · simp [init]
  · intro h; simp [init] at h
  · intro o ho; simp [init, gcEntries] at ho
  · intro r hr; exact .inr (.inl hr)
  · intro h; simp [init] at h
  · intro h; simp [init] at h
  · intro _; simp [init]

end Sth.BarrierConc
