/-
C09 with garbage collection in the history — the core of the translation, re-based on the C04
invariants: the old index header's first file may have advanced and the old index files are span logs
with deleted spans (`YInv` / `IdxLog` instead of C02's `XInv` / `LogInv`), the primary header's first file
may have advanced too.  Everything is stated from a REFERENCE state — the state a reopen with the old
configuration builds on the loaded bucket table — so that index-GC histories (C09GIgc.lean) and
histories with primary GC (C09GGc.lean) share it.
Core Lean only.
-/
import Sth.Lemmas.C09
import Sth.Lemmas.C04M3

namespace Sth.C09G

open Sth.C09

/-! ### the iteration only meets index entries -/

section
variable {U : List (Bytes × Bytes)} {m : Mem} {d : Disk} {spec : Spec}

theorem entries_ent (hA : SInv U m d spec) (hs : NMap.Sorted m.buckets) (hin : m.inext = [])
    (hic : m.icur = []) {es : List Entry}
    (he : (m.buckets.filter (·.2 ≠ 0)).foldlM (entStep d.ifiles m.imax) [] = some es) :
    ∀ e ∈ es, IsEnt m d e.blk := by
  have hread : ∀ x ∈ m.buckets.filter (·.2 ≠ 0),
      readDiskBucket d.ifiles m.imax x.2 = idxRecords m d x.1 := by
    intro x hx
    obtain ⟨hx1, _⟩ := List.mem_filter.mp hx
    have hg : m.buckets.get? x.1 = some x.2 := NMap.get?_of_mem_sorted hs hx1
    rw [idxRecords_nopool hin hic, hg]
    rfl
  rw [entFold_eq _ [] (fun x hx => by
    obtain ⟨orl, h1, _⟩ := hA.recs x.1
    exact ⟨orl, by rw [hread x hx]; exact h1⟩)] at he
  simp only [List.nil_append, Option.some.injEq] at he
  subst he
  intro e he
  obtain ⟨x, hx, hex⟩ := List.mem_flatMap.mp he
  unfold bucketList at hex
  rw [hread x hx] at hex
  obtain ⟨orl, h1, _⟩ := hA.recs x.1
  rw [h1] at hex
  cases orl with
  | none => cases hex
  | some rl => exact ⟨x.1, rl, e, h1, hex, rfl⟩

end

/-! ### the pending state: C01 invariant and the C04 extended invariant -/

section
variable {c c' : Cfg} {U : List (Bytes × Bytes)} {spec : Spec} {n B : Nat} {d : Disk}

/-- the pending state satisfies the C01 invariant of the NEW configuration with the same map
    (the first half of `C09.pend_inv`, without C02's assumptions on the primary header) -/
theorem pend_inv_I (hc' : c'.Legal) (hU' : Univ c'.kind U) {pfn plen : Nat} {ifiles : NMap Bytes}
    {bk : NMap Nat} {N ilen : Nat}
    (hIR : Inv c U ⟨c, refMem c c' bk N ilen pfn plen, { d with ifiles := ifiles }⟩ spec n B)
    {pool : NMap RecordList} {S : List Block}
    (hP : PoolInv U (pmOf c c' pfn plen) { d with ifiles := ifiles } c'.bits
      (Below (pmOf c c' pfn plen)) spec pool S)
    (hcompl : ∀ dig key val, Spec.get spec dig = some (key, val) →
      ∃ x ∈ S, priGet (pmOf c c' pfn plen) { d with ifiles := ifiles } x = .got key val ∧ (key, dig) ∈ U)
    (hlen : S.length ≤ n) :
    Inv c' U ⟨c', pendMem c c' pool pfn plen, pendDisk c' d⟩ spec n B := by
  obtain ⟨b8, b31, i1, i2, _, _⟩ := hc'
  refine ⟨rfl, rfl, b8, b31, ?_, ?_, ?_, ?_, hIR.nodup, hIR.w⟩
  · show AInv c'.kind c'.bits U (priGet (pmOf c c' pfn plen) { d with ifiles := ifiles })
      (idxRecords (pendMem c c' pool pfn plen) (pendDisk c' d)) (Below (pmOf c c' pfn plen)) spec
    constructor
    · intro b
      refine ⟨pool.get? b, idxRecords_pend pool pfn plen b, ?_, ?_⟩
      · cases hg : pool.get? b with
        | none => exact OInv.nil _
        | some rl => exact hP.oinv b rl hg
      · cases hg : pool.get? b with
        | none => intro e he; cases he
        | some rl => exact fun e he => (hP.blk b rl hg e he).2
    · intro dig key val hs
      obtain ⟨x, hxS, hx1, hx2⟩ := hcompl dig key val hs
      obtain ⟨b, rl, g1, g2⟩ := hP.cover x hxS
      obtain ⟨e, he, heq⟩ := List.mem_map.mp g2
      obtain ⟨key', val', dig', a1, a2, a3, _, _⟩ := (hP.blk b rl g1 e he).2.ex
      rw [heq, hx1] at a1
      cases a1
      have e1 := (hU'.dig a2).1
      have e2 := (hU'.dig hx2).1
      rw [e1] at e2
      cases e2
      exact ⟨b, rl, e, a3, by rw [idxRecords_pend, g1], he, by rw [heq]; exact hx1, hx2⟩
  · exact hIR.p.frame2 rfl rfl rfl rfl rfl rfl rfl rfl rfl rfl
  · exact ⟨i1, fun b rl hb => (by cases hb), rfl, fun f hf => get?_single_none _ f hf,
      NMap.sorted_nil⟩
  · refine ⟨hIR.cnt.mh, hIR.cnt.cid, ?_⟩
    show 0 + pool.length ≤ n
    have := hP.len
    omega

/-- a fresh index: one empty file, empty table -/
theorem idxLog_fresh (m : Mem) (d : Disk) (e1 : m.ifileNum = 0) (e2 : m.buckets = [])
    (e3 : d.ifiles = [(0, [])]) : IdxLog m d 0 (fun _ => []) := by
  have ht : ∀ b, tbl m b = 0 := by intro b; unfold tbl; rw [e2]; rfl
  refine ⟨Nat.zero_le _, fun f hf => by omega, ?_, ?_, ?_, ?_⟩
  · intro f _ hf
    rw [e1] at hf
    have : f = 0 := by omega
    subst this
    rw [e3]
    rfl
  · intro f _ _ s hs; cases hs
  · intro b hb; exact absurd (ht b) hb
  · intro f _ _ x hx; simp [liveAt] at hx

/-- the pending state satisfies the C04 extended invariant of the NEW configuration -/
theorem pend_yinv {pfn plen : Nat} {ifiles : NMap Bytes} {pool : NMap RecordList} {S : List Block}
    (hP : PoolInv U (pmOf c c' pfn plen) { d with ifiles := ifiles } c'.bits
      (Below (pmOf c c' pfn plen)) spec pool S)
    (hphdr : c'.kind = .mh → ∃ pf, d.phdr = some ⟨c'.pfs, pf⟩ ∧ pf ≤ pfn ∧
      ∀ f, pf ≤ f → f ≤ pfn → d.pfiles.get? f ≠ none) :
    YInv c' ⟨c', pendMem c c' pool pfn plen, pendDisk c' d⟩ :=
  ⟨rfl, rfl, rfl, rfl, ⟨0, fun _ => [], rfl, idxLog_fresh _ _ rfl rfl rfl⟩, hphdr,
    fun b rl hb => hP.lt b rl hb⟩

end

/-! ### the index flush on the C04 invariants, for any covering flush order -/

section
variable {c : Cfg} {U : List (Bytes × Bytes)} {s : SState} {spec : Spec} {n B : Nat}

theorem idxFlush_inv4 (hU : Univ c.kind U) (hI : Inv c U s spec n B) (hX : YInv c s)
    (hn : n < 1073741824) (hB : B < two31) {order : List Nat}
    (hcov : ∀ b rl, s.m.inext.get? b = some rl → b ∈ order) (hlen : order.length = s.m.inext.length) :
    ∃ ic fn len bk files, idxFlush s.m s.d order = (ifl s.m ic fn len bk, difl s.d files) ∧
      Inv c U ⟨s.cfg, ifl s.m ic fn len bk, difl s.d files⟩ spec n B ∧
      YInv c ⟨s.cfg, ifl s.m ic fn len bk, difl s.d files⟩ ∧
      ∀ b, idxRecords (ifl s.m ic fn len bk) (difl s.d files) b = idxRecords s.m s.d b := by
  have hU' : Univ s.m.kind U := by rw [hI.kind]; exact hU
  obtain ⟨ic, fn, len, bk, files, i1, i2, i3, i4⟩ :=
    idxFlush_ok (order := order) hI.i
      (fun b => by
        obtain ⟨orl, h1, _⟩ := hI.a.recs b
        exact ⟨orl, h1⟩)
      (inext_flushOK (m := s.m) (d := s.d) hU' hI.bits31 hI.a hI.w hB) hcov (by
        have := hI.cnt.idx
        rw [hlen]
        unfold two32; omega)
  have hpool : ∀ b rl, s.m.inext.get? b = some rl → RecLogOK s.m.bits (b, rl) := by
    intro b rl hb
    refine ⟨hX.inextLt b rl hb, ?_⟩
    obtain ⟨orl, h1, h2, h3⟩ := hI.a.recs b
    have : idxRecords s.m s.d b = .ok (some rl) := by unfold idxRecords; rw [hb]
    rw [this] at h1
    cases h1
    simp only [Option.getD_some] at h2 h3
    exact enc_lt31 hU' hI.bits8 hI.bits31 h2 h3 hI.w hB
  obtain ⟨first, sp, e1, e2⟩ := hX.ilog
  obtain ⟨sp', l1⟩ := idxFlush_log4 (order := order) hI.i e2 hI.bits31 hpool
  rw [i1] at l1
  refine ⟨ic, fn, len, bk, files, i1, ?_, ?_, i3⟩
  · refine ⟨hI.kind, hI.imm, hI.bits8, hI.bits31, ?_, hI.p.frame2 rfl rfl rfl rfl rfl rfl rfl rfl rfl rfl,
      i2, ?_, hI.nodup, hI.w⟩
    · apply AInv.mono hI.a
      · intro blk k v _ hg
        exact hg
      · intro blk hb; exact hb
      · intro b
        exact i3 b
    · refine ⟨hI.cnt.mh, hI.cnt.cid, ?_⟩
      have := hI.cnt.idx
      show fn + 0 ≤ n
      omega
  · exact ⟨hX.cfg, hX.bits, hX.imax, hX.pmax, ⟨first, sp', e1, l1⟩, hX.phdr,
      fun b rl hb => by cases hb⟩

end

/-! ### the translation from the reference state -/

/-- what the translation needs to know about the closed directory `d`: the old index header (first file
    `first`), the bucket table `bk` and the files `ifiles` that loading the old index yields (snapshot or
    rescan), the C01 invariant of the reference state built on them, and how the primary opens -/
structure RefOK (c c' : Cfg) (U : List (Bytes × Bytes)) (spec : Spec) (n B : Nat) (d : Disk)
    (first pfn plen N : Nat) (ifiles : NMap Bytes) (bk : NMap Nat) : Prop where
  hdr : d.ihdr = some ⟨c.bits, c.ifs, first, hdrPfs c⟩
  load : loadOld d c.bits c.ifs first = some (ifiles, bk)
  sorted : NMap.Sorted bk
  inv : Inv c U ⟨c, refMem c c' bk N (fileOf ifiles N).length pfn plen, { d with ifiles := ifiles }⟩
    spec n B
  shape : DShape c d
  openP : Sth.openPrimary c' d = .ok (d, hdrPfs c', pfn, plen)
  phdr : c'.kind = .mh → ∃ pf, d.phdr = some ⟨c'.pfs, pf⟩ ∧ pf ≤ pfn ∧
    ∀ f, pf ≤ f → f ≤ pfn → d.pfiles.get? f ≠ none

section
variable {c c' : Cfg} {U : List (Bytes × Bytes)} {spec : Spec} {n B : Nat} {d : Disk}
  {first pfn plen N : Nat} {ifiles : NMap Bytes} {bk : NMap Nat}

/-- OpenStore with another bit size on the closed directory: the index is translated; the reopened state
    (given explicitly) satisfies the C01 invariant and the C04 extended invariant of the new
    configuration with the SAME specification map, and every entry of the new index is the block of an
    entry of the old one -/
theorem translate_core (hc' : c'.Legal) (hkind : c'.kind = c.kind) {ia : Nat}
    (hia : (ia = 0 ∧ c'.ifs = defaultMax) ∨ (ia = c'.ifs ∧ c'.ifs = c.ifs))
    (hpm : hdrPfs c' = hdrPfs c) (hbits : c'.bits ≠ c.bits) (hU : Univ c.kind U)
    (hR : RefOK c c' U spec n B d first pfn plen N ifiles bk) (hsn : spec.length ≤ n)
    (hn : n < 1073741824) (hB : B < two31) (order : List Nat) :
    ∃ bk' fn files keys,
      openStoreT { c' with ifs := ia } d order =
        (({ d with ifiles := files, ihdr := some ⟨c'.bits, c'.ifs, 0, hdrPfs c'⟩, snap := none } : Disk),
          .ok (openMem c' bk' fn (fileOf files fn).length pfn plen), keys) ∧
      Inv c' U ⟨c', openMem c' bk' fn (fileOf files fn).length pfn plen,
        { d with ifiles := files, ihdr := some ⟨c'.bits, c'.ifs, 0, hdrPfs c'⟩, snap := none }⟩ spec n B ∧
      YInv c' ⟨c', openMem c' bk' fn (fileOf files fn).length pfn plen,
        { d with ifiles := files, ihdr := some ⟨c'.bits, c'.ifs, 0, hdrPfs c'⟩, snap := none }⟩ ∧
      ∀ blk, IsEnt (openMem c' bk' fn (fileOf files fn).length pfn plen)
          ({ d with ifiles := files, ihdr := some ⟨c'.bits, c'.ifs, 0, hdrPfs c'⟩, snap := none } : Disk) blk →
        IsEnt (refMem c c' bk N (fileOf ifiles N).length pfn plen) { d with ifiles := ifiles } blk := by
  have hU' : Univ c'.kind U := by rw [hkind]; exact hU
  have hIR := hR.inv
  -- the entries of the old index
  obtain ⟨es, e1, e2, e3, e4, e5⟩ := entries_ok
    (m := refMem c c' bk N (fileOf ifiles N).length pfn plen)
    (d := { d with ifiles := ifiles }) (U := U) (spec := spec) hU' hIR.bits31 hIR.a hR.sorted rfl rfl
  have eent := entries_ent (m := refMem c c' bk N (fileOf ifiles N).length pfn plen)
    (d := { d with ifiles := ifiles }) hIR.a hR.sorted rfl rfl e1
  -- re-insertion into the pool
  obtain ⟨pool, f1, f2⟩ := poolFold_ok (pm := pmOf c c' pfn plen) (d := { d with ifiles := ifiles })
    (nb := c'.bits) (below := Below (pmOf c c' pfn plen)) (spec := spec) (ob := c.bits) hU' hc'.1
    hc'.2.1 es [] [] PoolInv.nil e2 e3 (by simp)
  -- the pending state
  have hIT := pend_inv_I hc' hU' hIR f2
    (by
      intro dig key val hs
      obtain ⟨e, he, h1, h2⟩ := e4 dig key val hs
      exact ⟨e.blk, by simp; exact ⟨e, he, rfl⟩, h1, h2⟩)
    (by simp; omega)
  have hYT := pend_yinv (c := c) (spec := spec) f2 hR.phdr
  -- its index flush
  obtain ⟨g1, g2⟩ := trOrder_ok order pool
  obtain ⟨ic, fn, len, bk3, files, i1, hI3, hY3, i3⟩ :=
    idxFlush_inv4 hU' hIT hYT hn hB (order := trOrder order pool) g1 g2
  have hff := flushFresh_eq_idxFlush (pendMem c c' pool pfn plen) (pendDisk c' d) rfl rfl rfl rfl
    (trOrder order pool)
  rw [i1] at hff
  have hff' : flushFresh c'.ifs pool (trOrder order pool) = (files, bk3) := hff
  -- `translateIndex`
  have hi0 : c'.ifs ≠ 0 := by have := hc'.2.2.1; omega
  have himax : (if ia = 0 then c.ifs else ia) = c.ifs := by
    rcases hia with ⟨h0, _⟩ | ⟨h1, h2⟩
    · rw [if_pos h0]
    · rw [if_neg (by omega), h1, h2]
  have hnewmax : (if ia = 0 then defaultMax else ia) = c'.ifs := by
    rcases hia with ⟨h0, h1⟩ | ⟨h1, _⟩
    · rw [if_pos h0, h1]
    · rw [if_neg (by omega), h1]
  have hpf : ¬ (c'.kind = .mh ∧ hdrPfs c ≠ hdrPfs c') := by rw [hpm]; simp
  have hpf2 : (if c'.kind = .mh then hdrPfs c' else 0) = hdrPfs c' := by
    unfold hdrPfs
    cases c'.kind <;> rfl
  have e1' : (bk.filter (·.2 ≠ 0)).foldlM (entStep ifiles c.ifs) [] = some es := e1
  have t1 : translateIndex c'.kind (hdrPfs c') pfn plen c'.bits ia d order =
      .ok ({ d with ifiles := files, ihdr := some ⟨c'.bits, c'.ifs, 0, hdrPfs c'⟩,
                    snap := some ⟨8 * 2 ^ c'.bits, bk3.filter (·.2 ≠ 0)⟩ }, pool.keys) := by
    rw [translateIndex_eq_body _ _ _ _ _ _ _ _ hR.hdr]
    unfold translateBody
    simp only [himax, hnewmax, ne_eq, not_true_eq_false, if_false, hR.load, hpf, e1', f1, hff', hpf2]
  -- the two `openIndex` calls
  have hc'' := hc'
  obtain ⟨b8, b31, j1, j2, _, _⟩ := hc''
  have hia2 : ia = 0 ∨ ia = c'.ifs := by
    rcases hia with ⟨h0, _⟩ | ⟨h1, _⟩
    · exact Or.inl h0
    · exact Or.inr h1
  have o1' : Sth.openPrimary { c' with ifs := ia } d = .ok (d, hdrPfs c', pfn, plen) := hR.openP
  have w := openIndex_wrongBits (c := { c' with ifs := ia }) (d := d) (hdrPfs c') b8 b31
    (by rcases hia2 with h | h <;> simp only [h] <;> omega) hR.hdr (Ne.symm hbits)
  have hIi3 : IInv (ifl (pendMem c c' pool pfn plen) ic fn len bk3) (difl (pendDisk c' d) files) := hI3.i
  obtain ⟨first3, sp3, hh3, hl3⟩ := hY3.ilog
  have hfirst3 : first3 = 0 := by
    have : (some ⟨c'.bits, c'.ifs, 0, hdrPfs c'⟩ : Option IdxHeader) =
        some ⟨c'.bits, c'.ifs, first3, hdrPfs c'⟩ := hh3
    simp only [Option.some.injEq, IdxHeader.mk.injEq, true_and, and_true] at this
    exact this.symm
  subst hfirst3
  have hl3' : IdxLogT c'.bits c'.ifs fn files
      (tbl (ifl (pendMem c c' pool pfn plen) ic fn len bk3)) 0 sp3 := hl3
  have o4 := openIndex_snap_arg c' hc' hia2
    ({ d with ifiles := files, ihdr := some ⟨c'.bits, c'.ifs, 0, hdrPfs c'⟩,
              snap := some ⟨8 * 2 ^ c'.bits, bk3.filter (·.2 ≠ 0)⟩ } : Disk) fn (bk3.filter (·.2 ≠ 0)) rfl rfl
    (by
      intro f hf
      show files.get? f ≠ none
      rw [hl3'.files f (Nat.zero_le _) hf]; simp)
    (hIi3.noFiles _ (by show fn < fn + 1; omega))
  have hr : Reopened (ifl (pendMem c c' pool pfn plen) ic fn len bk3) (difl (pendDisk c' d) files)
      (openMem c' (bk3.filter (·.2 ≠ 0)) fn (fileOf files fn).length pfn plen)
      ({ d with ifiles := files, ihdr := some ⟨c'.bits, c'.ifs, 0, hdrPfs c'⟩, snap := none } : Disk) :=
    ⟨rfl, rfl, rfl, rfl, rfl, rfl, rfl, rfl, rfl, rfl, rfl, NMap.sorted_filter _ hIi3.sorted,
      NMap.get?_filter_nz hIi3.sorted, fun _ => rfl, rfl, fun _ h => h, rfl, fun _ => rfl, rfl,
      fun _ => ⟨rfl, rfl⟩, rfl, rfl⟩
  have hI' := reopen_inv_I hI3 rfl rfl hr
  refine ⟨bk3.filter (·.2 ≠ 0), fn, files, pool.keys, ?_, hI', ?_, ?_⟩
  · unfold openStoreT
    simp only [openFreelist_id hR.shape, o1', w, t1, o4]
    rfl
  · -- the extended invariant of the reopened state
    refine ⟨rfl, rfl, rfl, rfl, ⟨0, sp3, rfl, ?_⟩, hR.phdr, fun b rl hb => by cases hb⟩
    show IdxLogT c'.bits c'.ifs fn files _ 0 sp3
    have ht : tbl (openMem c' (bk3.filter (·.2 ≠ 0)) fn (fileOf files fn).length pfn plen) =
        tbl (ifl (pendMem c c' pool pfn plen) ic fn len bk3) := by
      funext b; exact NMap.get?_filter_nz hIi3.sorted b
    rw [ht]
    exact hl3'
  · -- entries of the new index are entries of the old one
    rintro blk ⟨b, rl, e, hrd, he, rfl⟩
    rw [hr.idxRecords hIi3 rfl b, i3 b, idxRecords_pend] at hrd
    simp only [Except.ok.injEq] at hrd
    obtain ⟨hS, _⟩ := f2.blk b rl hrd e he
    simp only [List.append_nil, List.mem_reverse, List.mem_map] at hS
    obtain ⟨x, hx, hxe⟩ := hS
    rw [← hxe]
    exact eent x hx

end

end Sth.C09G
