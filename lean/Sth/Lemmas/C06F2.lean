/-
C06F (2): the frame lemma (`Inv.set`: one thread moves, the shared state changes) and the four kinds of section —
no change of the log / table (`Inv.quiet`), a write (`Inv.write`), the publication (`Inv.publish`), a marking
(`Inv.kill`).
-/
import Sth.Lemmas.C06F1

namespace Sth.IgcConc

@[simp] theorem setThread_threads (s : State) (i : Nat) (t : Thread) :
    (setThread s i t).threads = s.threads.set i t := rfl
@[simp] theorem setThread_log (s : State) (i : Nat) (t : Thread) : (setThread s i t).log = s.log := rfl
@[simp] theorem setThread_fileNum (s : State) (i : Nat) (t : Thread) : (setThread s i t).fileNum = s.fileNum := rfl
@[simp] theorem setThread_buckets (s : State) (i : Nat) (t : Thread) : (setThread s i t).buckets = s.buckets := rfl
@[simp] theorem setThread_nextPool (s : State) (i : Nat) (t : Thread) : (setThread s i t).nextPool = s.nextPool := rfl
@[simp] theorem setThread_curPool (s : State) (i : Nat) (t : Thread) : (setThread s i t).curPool = s.curPool := rfl
@[simp] theorem setThread_flushLock (s : State) (i : Nat) (t : Thread) :
    (setThread s i t).flushLock = s.flushLock := rfl

/-- how a section may move the lock -/
def LockMove (s s1 : State) (i : Nat) (t t' : Thread) : Prop :=
  (s1.flushLock = s.flushLock ∧ t'.pc.holds = t.pc.holds) ∨
  (s.flushLock = none ∧ s1.flushLock = some i ∧ t'.pc.holds = true) ∨
  (s.flushLock = some i ∧ s1.flushLock = none ∧ t'.pc.holds = false)

/-- the frame: thread `i` moves from `t` to `t'`, the shared state from `s` to `s1` -/
theorem Inv.set {s s1 : State} (h : Inv s) {i : Nat} {t t' : Thread} (hi : s.threads[i]? = some t)
    (hth : s1.threads = s.threads.set i t')
    (hids : ∀ (k : Nat) (r : Rec), s1.log[k]? = some r → r.id = k)
    (hfiles : ∀ r ∈ s1.log, r.file ≤ s1.fileNum)
    (hpub : ∀ (b : Bucket) (p : Pos), s1.buckets.lookup b = some p →
      ∃ r ∈ s1.log, r.bucket = b ∧ r.pos = p ∧ r.deleted = false)
    (hlk : LockMove s s1 i t t')
    (hself : ThreadOK s1 t'.pc)
    (hother : ∀ (j : Nat) (u : Thread), j ≠ i → s.threads[j]? = some u → ThreadOK s u.pc → ThreadOK s1 u.pc)
    (hbound : ∀ l, t'.pc.bound = some l → t.pc.bound = some l ∨ s.flushLock = none)
    (hdone : ∀ bp ∈ t'.pc.done, bp ∈ t.pc.done ∨ s.fileNum ≤ bp.2.1) : Inv s1 := by
  have hlen : i < s.threads.length := (List.getElem?_eq_some_iff.1 hi).1
  have hget : ∀ (j : Nat) (u : Thread), s1.threads[j]? = some u →
      (j = i ∧ u = t') ∨ (j ≠ i ∧ s.threads[j]? = some u) := by
    intro j u hj
    rw [hth, List.getElem?_set] at hj
    by_cases hij : i = j
    · subst hij; simp [hlen] at hj; exact .inl ⟨rfl, hj.symm⟩
    · simp [hij] at hj; exact .inr ⟨fun h => hij h.symm, hj⟩
  refine ⟨hids, hfiles, hpub, ?_, ?_, ?_, ?_⟩
  · intro k hk
    rw [hth, List.length_set]
    rcases hlk with ⟨h1, _⟩ | ⟨_, h1, _⟩ | ⟨_, h1, _⟩
    · exact h.lockLt k (h1 ▸ hk)
    · rw [h1] at hk; cases hk; exact hlen
    · rw [h1] at hk; cases hk
  · intro j u hj
    have hti := h.lock i t hi
    rcases hget j u hj with ⟨rfl, rfl⟩ | ⟨hji, hj'⟩
    · rcases hlk with ⟨h1, h2⟩ | ⟨_, h1, h2⟩ | ⟨_, h1, h2⟩ <;> simp_all
    · have := h.lock j u hj'
      rcases hlk with ⟨h1, h2⟩ | ⟨h0, h1, h2⟩ | ⟨h0, h1, h2⟩
      · rw [h1]; exact this
      · rw [h1]; rw [h0] at this; simp_all; omega
      · rw [h1]; rw [h0] at this; simp_all; omega
  · intro j u hj
    rcases hget j u hj with ⟨rfl, rfl⟩ | ⟨hji, hj'⟩
    · exact hself
    · exact hother j u hji hj' (h.thr j u hj')
  · intro a b ta tb l ha hb hl bp hbp
    rcases hget a ta ha with ⟨rfl, rfl⟩ | ⟨hai, ha'⟩
    · rcases hget b tb hb with ⟨rfl, rfl⟩ | ⟨hbi, hb'⟩
      · rw [done_of_bound hl] at hbp; cases hbp
      · rcases hbound l hl with h1 | h1
        · exact h.cross _ _ _ _ l hi hb' h1 bp hbp
        · rw [h.unlocked_done h1 hb'] at hbp; cases hbp
    · rcases hget b tb hb with ⟨rfl, rfl⟩ | ⟨hbi, hb'⟩
      · rcases hdone bp hbp with h1 | h1
        · exact h.cross _ _ _ _ l ha' hi hl bp h1
        · exact Nat.le_trans ((h.thr a ta ha').bound_le hl) h1
      · exact h.cross _ _ _ _ l ha' hb' hl bp hbp

/-- a section that leaves the log, the file number and the table alone -/
theorem Inv.quiet {s s1 : State} (h : Inv s) {i : Nat} {t t' : Thread} (hi : s.threads[i]? = some t)
    (hth : s1.threads = s.threads.set i t') (hlog : s1.log = s.log) (hfn : s1.fileNum = s.fileNum)
    (hbk : s1.buckets = s.buckets) (hlk : LockMove s s1 i t t') (hself : ThreadOK s t'.pc)
    (hbound : ∀ l, t'.pc.bound = some l → t.pc.bound = some l ∨ s.flushLock = none)
    (hdone : ∀ bp ∈ t'.pc.done, bp ∈ t.pc.done) : Inv s1 := by
  refine h.set hi hth (by rw [hlog]; exact h.ids) (by rw [hlog, hfn]; exact h.files)
    (by rw [hlog, hbk]; exact h.pub) hlk (hself.congr hlog hfn hbk) (fun j u _ _ hu => hu.congr hlog hfn hbk) hbound
    (fun bp hbp => .inl (hdone bp hbp))

/-- S2, one bucket: `flushBucket` -/
theorem Inv.write {s : State} (h : Inv s) {i : Nat} {t : Thread} (hi : s.threads[i]? = some t)
    {b : Bucket} {todo : List Bucket} {rolls : List Bool} {done : List (Bucket × Pos)}
    (hp : t.pc = .flushing (b :: todo) rolls done) (roll : Bool) (rolls' : List Bool) :
    Inv (setThread (writeRec s b roll).1 i
      { t with pc := .flushing todo rolls' (done ++ [(b, (writeRec s b roll).2)]) }) := by
  have hfn : s.fileNum ≤ (writeRec s b roll).1.fileNum := by
    simp only [writeRec]; split <;> omega
  have hlog : (writeRec s b roll).1.log =
      s.log ++ [{ file := (writeRec s b roll).1.fileNum, bucket := b, id := s.log.length }] := rfl
  have hpos : (writeRec s b roll).2 = ((writeRec s b roll).1.fileNum, s.log.length) := rfl
  have hbk : (writeRec s b roll).1.buckets = s.buckets := rfl
  have hlk : (writeRec s b roll).1.flushLock = s.flushLock := rfl
  have hmem : ∀ r ∈ s.log, r ∈ (writeRec s b roll).1.log := fun r hr => by rw [hlog]; simp [hr]
  have hthis := h.thr i t hi
  rw [hp] at hthis
  refine h.set hi rfl ?_ ?_ ?_ (.inl ⟨hlk, by simp [hp, Pc.holds]⟩) ?_ ?_ ?_ ?_
  · simp only [setThread_log, hlog]
    exact append_ids h.ids rfl
  · simp only [setThread_log, setThread_fileNum, hlog]
    intro r hr
    rcases List.mem_append.1 hr with h1 | h1
    · exact Nat.le_trans (h.files r h1) hfn
    · simp at h1; subst h1; exact Nat.le_refl _
  · simp only [setThread_buckets, setThread_log, hbk]
    intro b' p hbp
    obtain ⟨r, hr, h1⟩ := h.pub b' p hbp
    exact ⟨r, hmem r hr, h1⟩
  · simp only [ThreadOK]
    intro bp hbp
    rcases List.mem_append.1 hbp with h1 | h1
    · obtain ⟨r, hr, h2⟩ := hthis bp h1
      exact ⟨r, hmem r hr, h2⟩
    · simp at h1; subst h1
      refine ⟨{ file := (writeRec s b roll).1.fileNum, bucket := b, id := s.log.length },
        by rw [setThread_log, hlog]; simp, rfl, ?_, rfl⟩
      simp [Rec.pos, hpos]
  · intro j u _ _ hu
    exact hu.grow hmem hfn hbk
  · intro l hl; simp [Pc.bound] at hl
  · intro bp hbp
    simp only [Pc.done] at hbp
    rcases List.mem_append.1 hbp with h1 | h1
    · left; simp [hp, Pc.done, h1]
    · right; simp at h1; subst h1; simpa [hpos] using hfn

/-- S3: the publication -/
theorem Inv.publish {s : State} (h : Inv s) {i : Nat} {t : Thread} (hi : s.threads[i]? = some t)
    {rolls : List Bool} {done : List (Bucket × Pos)} (hp : t.pc = .flushing [] rolls done) :
    Inv (setThread { s with buckets := publish s.buckets done, flushLock := none } i t.ret) := by
  have hthis := h.thr i t hi
  rw [hp] at hthis
  have hheld : s.flushLock = some i := (h.lock i t hi).1 (by simp [hp, Pc.holds])
  refine h.set hi rfl h.ids h.files ?_ (.inr (.inr ⟨hheld, rfl, by simp [Thread.ret, Pc.holds]⟩)) ?_ ?_ ?_ ?_
  · intro b p hbp
    rcases lookup_publish hbp with h1 | h1
    · exact hthis (b, p) h1
    · exact h.pub b p h1
  · simp [Thread.ret, ThreadOK]
  · intro j u hji hj hu
    refine hu.rebind (by rfl) (by rfl) ?_
    intro b q hq
    rcases lookup_publish hq with h1 | h1
    · right
      intro l hl
      exact h.cross j i u t l hj hi hl (b, q) (by simp [hp, Pc.done, h1])
    · exact .inl h1
  · intro l hl; simp [Thread.ret, Pc.bound] at hl
  · intro bp hbp; simp [Thread.ret, Pc.done] at hbp

/-- G2 / F3: records of files below the collector's `lastFileNum` the table does not point at are marked -/
theorem Inv.kill {s : State} (h : Inv s) {i : Nat} {t t' : Thread} (hi : s.threads[i]? = some t)
    {q : Rec → Bool} {l : Nat} (hl : t.pc.bound = some l) (hl' : t'.pc.bound = some l)
    (hql : ∀ r ∈ s.log, q r = true → r.file < l)
    (hqp : ∀ r ∈ s.log, q r = true → s.buckets.lookup r.bucket ≠ some r.pos)
    (hself : ThreadOK s t'.pc) :
    Inv (setThread { s with log := kill q s.log } i t') := by
  refine h.set hi rfl (kill_ids h.ids) ?_ ?_
    (.inl ⟨rfl, by rw [holds_of_bound hl, holds_of_bound hl']⟩) ?_ ?_ ?_ ?_
  · intro r' hr'
    obtain ⟨r, hr, h1, _⟩ := mem_kill hr'
    simp only [setThread_fileNum]
    rw [h1]; exact h.files r hr
  · intro b p hbp
    obtain ⟨r, hr, h1, h2, h3⟩ := h.pub b p hbp
    refine ⟨r, kill_keeps hr ?_, h1, h2, h3⟩
    cases hqr : q r with
    | false => rfl
    | true => exact absurd (by rw [h1, h2]; exact hbp) (hqp r hr hqr)
  · refine hself.kill (q := q) (by rfl) (by rfl) (by rfl) ?_
    rw [done_of_bound hl']; simp
  · intro j u hji hj hu
    refine hu.kill (q := q) (by rfl) (by rfl) (by rfl) ?_
    intro r hr hqr bp hbp
    have h1 := h.cross i j t u l hi hj hl bp hbp
    have h2 := hql r hr hqr
    omega
  · intro l' hl''; left; rw [hl'] at hl''; cases hl''; exact hl
  · intro bp hbp; rw [done_of_bound hl'] at hbp; cases hbp

end Sth.IgcConc
