/-
Lemmas for C15 (the blockstore contract), derived from C01.

Three stages:
  A  `adapter_sim`     running adapter calls = running the translated store calls on the store machine and
                       mapping the answers (`mapOuts`); PutMany stops at the first refused block, which is
                       why the stage carries the hypothesis that the store answers like the map (C01);
  B  `C01_store_refines_map` (Sth/Props/C01.lean) — the store answers like the map;
  C  `spec_sim`        the map specification of the store (`specRun .mh true`) answers, through
                       `mapOuts`, what the blockstore contract (`bsSpecRunFrom`) answers.
-/
import Sth.Model.AdapterMachine
import Sth.Props.C01

namespace Sth

/-! ### runs and appends -/

theorem runS_length : ∀ (ops : List SOp) (s : SState), (runS s ops).2.length = ops.length
  | [], _ => rfl
  | op :: ops, s => by rw [runS_cons]; simp [runS_length ops]

theorem specRun_length (kind : PKind) (imm : Bool) : ∀ (ops : List SOp) (m : Spec),
    (specRun kind imm m ops).2.length = ops.length
  | [], _ => rfl
  | op :: ops, m => by rw [specRun_cons]; simp [specRun_length kind imm ops]

theorem runS_cons_fst (s : SState) (op : SOp) (ops : List SOp) :
    (runS s (op :: ops)).1 = (runS (stepS s op).1 ops).1 := rfl

theorem specRun_cons_fst (kind : PKind) (imm : Bool) (m : Spec) (op : SOp) (ops : List SOp) :
    (specRun kind imm m (op :: ops)).1 = (specRun kind imm (specStep kind imm m op).1 ops).1 := rfl

theorem runS_append : ∀ (l1 l2 : List SOp) (s : SState),
    (runS s (l1 ++ l2)).2 = (runS s l1).2 ++ (runS (runS s l1).1 l2).2
  | [], _, _ => rfl
  | op :: l1, l2, s => by
    rw [List.cons_append, runS_cons, runS_cons, runS_cons_fst, runS_append l1 l2]; rfl

theorem specRun_append (kind : PKind) (imm : Bool) : ∀ (l1 l2 : List SOp) (m : Spec),
    (specRun kind imm m (l1 ++ l2)).2 =
      (specRun kind imm m l1).2 ++ (specRun kind imm (specRun kind imm m l1).1 l2).2
  | [], _, _ => rfl
  | op :: l1, l2, m => by
    rw [List.cons_append, specRun_cons, specRun_cons, specRun_cons_fst, specRun_append kind imm l1 l2]; rfl

theorem bsRun_cons (s : BS) (op : BsOp) (ops : List BsOp) :
    (bsRun s (op :: ops)).2 = (bsStepM s op).2 :: (bsRun (bsStepM s op).1 ops).2 := rfl

theorem bsSpecRunFrom_cons (s : BsSpec) (op : BsOp) (ops : List BsOp) :
    (bsSpecRunFrom s (op :: ops)).2 = (bsSpecStep s op).2 :: (bsSpecRunFrom (bsSpecStep s op).1 ops).2 := rfl

theorem bsSpecRunFrom_cons_fst (s : BsSpec) (op : BsOp) (ops : List BsOp) :
    (bsSpecRunFrom s (op :: ops)).1 = (bsSpecRunFrom (bsSpecStep s op).1 ops).1 := rfl

theorem bsSpecRunFrom_length : ∀ (ops : List BsOp) (s : BsSpec), (bsSpecRunFrom s ops).2.length = ops.length
  | [], _ => rfl
  | op :: ops, s => by rw [bsSpecRunFrom_cons]; simp [bsSpecRunFrom_length ops]

theorem bsSpecRunFrom_append : ∀ (l1 l2 : List BsOp) (s : BsSpec),
    (bsSpecRunFrom s (l1 ++ l2)).2 = (bsSpecRunFrom s l1).2 ++ (bsSpecRunFrom (bsSpecRunFrom s l1).1 l2).2
  | [], _, _ => rfl
  | op :: l1, l2, s => by
    rw [List.cons_append, bsSpecRunFrom_cons, bsSpecRunFrom_cons, bsSpecRunFrom_cons_fst,
      bsSpecRunFrom_append l1 l2]; rfl

/-- the answers to the calls after the first `pre.length` ones -/
theorem bsSpecRunFrom_drop (pre suf : List BsOp) (s : BsSpec) :
    (bsSpecRunFrom s (pre ++ suf)).2.drop pre.length = (bsSpecRunFrom (bsSpecRunFrom s pre).1 suf).2 := by
  rw [bsSpecRunFrom_append, List.drop_left' (bsSpecRunFrom_length pre s)]

/-! ### the translation -/

theorem bsTranslate_append : ∀ (l1 l2 : List BsOp), bsTranslate (l1 ++ l2) = bsTranslate l1 ++ bsTranslate l2
  | [], _ => rfl
  | op :: l1, l2 => by
    show trOp op ++ bsTranslate (l1 ++ l2) = (trOp op ++ bsTranslate l1) ++ bsTranslate l2
    rw [bsTranslate_append l1 l2, List.append_assoc]

theorem trPutMany_isC01 : ∀ (blocks : List (Bytes × Bytes)), ∀ op ∈ trPutMany blocks, op.isC01 = true
  | [], op, h => by simp [trPutMany] at h
  | (c, d) :: rest, op, h => by
    unfold trPutMany at h
    split at h
    · simp at h
    · split at h
      · rcases List.mem_cons.1 h with h | h
        · subst h; rfl
        · exact trPutMany_isC01 rest op h
      · simp at h; subst h; rfl

theorem trOp_isC01 (o : BsOp) : ∀ op ∈ trOp o, op.isC01 = true := by
  intro op h
  cases o with
  | putMany live blocks =>
    simp only [trOp] at h
    split at h
    · exact trPutMany_isC01 blocks op h
    · simp at h
  | hashOnRead e => simp [trOp] at h
  | _ =>
    simp only [trOp] at h
    split at h
    · split at h
      · simp at h; subst h; rfl
      · simp at h
    · simp at h

theorem bsTranslate_isC01 : ∀ (ops : List BsOp), ∀ op ∈ bsTranslate ops, op.isC01 = true
  | [], op, h => by simp [bsTranslate] at h
  | o :: ops, op, h => by
    unfold bsTranslate at h
    rcases List.mem_append.1 h with h | h
    · exact trOp_isC01 o op h
    · exact bsTranslate_isC01 ops op h

/-- `keyClass` only ever refuses with bad-key or key-too-short -/
theorem keyClass_error {kind : PKind} {k : Bytes} {e : Err} (h : keyClass kind k = .error e) :
    e = .badKey ∨ e = .keyTooShort := by
  unfold keyClass at h
  split at h
  · cases h; exact Or.inl rfl
  · split at h
    · cases h; exact Or.inr rfl
    · cases h

/-! ### stage A: adapter calls are store calls -/

/-- the adapter state and the store-machine state hold the same store -/
def Sim (b : BS) (s : SState) : Prop := s.m = b.m ∧ s.d = b.d

theorem sim_put {b : BS} {s : SState} (h : Sim b s) {c k : Bytes} (hc : cidHash c = some k) (v : Bytes) :
    Sim (bsPut b true c v).1 (stepS s (.put k v)).1 ∧
    (bsPut b true c v).2 = putOut (stepS s (.put k v)).2 ∧
    (bsPut b true c v).1.hashOnRead = b.hashOnRead := by
  obtain ⟨hm, hd⟩ := h
  simp only [bsPut, stepS, hc, hm, hd]
  generalize storePut b.m b.d k v = r
  rcases r with ⟨m, _ | e⟩
  · simp [Sim, putOut]
  · cases e <;> simp [Sim, putOut]

theorem sim_get {b : BS} {s : SState} (h : Sim b s) {c k : Bytes} (hc : cidHash c = some k) (hm : Bool) :
    Sim (bsGet b true c hm).1 (stepS s (.get k)).1 ∧
    (bsGet b true c hm).2 = mapOut b.hashOnRead (.get true c hm) [(stepS s (.get k)).2] ∧
    (bsGet b true c hm).1.hashOnRead = b.hashOnRead := by
  obtain ⟨hm', hd⟩ := h
  simp only [bsGet, stepS, hc, hm', hd, mapOut]
  generalize storeGet b.m b.d k = r
  rcases r with ⟨m, v | _ | e⟩
  · cases hb : b.hashOnRead <;> cases hm <;> simp [Sim]
  · simp [Sim]
  · simp [Sim]

theorem sim_has {b : BS} {s : SState} (h : Sim b s) {c k : Bytes} (hc : cidHash c = some k) :
    (stepS s (.has k)).1 = s ∧
    bsHas b true c = mapOut b.hashOnRead (.has true c) [(stepS s (.has k)).2] := by
  obtain ⟨hm', hd⟩ := h
  simp only [bsHas, stepS, hc, hm', hd, mapOut]
  generalize storeHas b.m b.d k = r
  rcases r with v | e <;> simp

theorem sim_size {b : BS} {s : SState} (h : Sim b s) {c k : Bytes} (hc : cidHash c = some k) :
    (stepS s (.size k)).1 = s ∧
    bsGetSize b true c = mapOut b.hashOnRead (.size true c) [(stepS s (.size k)).2] := by
  obtain ⟨hm', hd⟩ := h
  simp only [bsGetSize, stepS, hc, hm', hd, mapOut]
  generalize storeGetSize b.m b.d k = r
  rcases r with v | _ | e <;> simp

theorem sim_del {b : BS} {s : SState} (h : Sim b s) {c k : Bytes} (hc : cidHash c = some k) :
    Sim (bsDelete b true c).1 (stepS s (.rm k)).1 ∧
    (bsDelete b true c).2 = mapOut b.hashOnRead (.del true c) [(stepS s (.rm k)).2] ∧
    (bsDelete b true c).1.hashOnRead = b.hashOnRead := by
  obtain ⟨hm', hd⟩ := h
  simp only [bsDelete, stepS, hc, hm', hd, mapOut]
  generalize storeRemove b.m b.d k = r
  rcases r with ⟨m, v | e⟩ <;> simp [Sim]

theorem specStep_put_ok {sp : Spec} {k dig : Bytes} (v : Bytes) (h : keyClass .mh k = .ok dig) :
    putOut (specStep .mh true sp (.put k v)).2 = .ok := by
  simp only [specStep, h]
  split <;> simp [putOut]

theorem specStep_put_err {sp : Spec} {k : Bytes} {e : Err} (v : Bytes) (h : keyClass .mh k = .error e) :
    putOut (specStep .mh true sp (.put k v)).2 = .errOther := by
  simp only [specStep, h]
  rcases keyClass_error h with h | h <;> subst h <;> rfl

theorem bsPutMany_cons (b : BS) (c d : Bytes) (rest : List (Bytes × Bytes)) :
    bsPutMany b true ((c, d) :: rest) =
      if (bsPut b true c d).2 = .ok then bsPutMany (bsPut b true c d).1 true rest else bsPut b true c d := by
  simp only [bsPutMany]
  generalize bsPut b true c d = r
  rcases r with ⟨b', o⟩
  cases o <;> simp

theorem runS_nil (s : SState) : runS s [] = (s, []) := rfl
theorem runS_single (s : SState) (op : SOp) : runS s [op] = ((stepS s op).1, [(stepS s op).2]) := rfl

theorem sim_putMany : ∀ (blocks : List (Bytes × Bytes)) (b : BS) (s : SState) (sp : Spec), Sim b s →
    (runS s (trPutMany blocks)).2 = (specRun .mh true sp (trPutMany blocks)).2 →
    Sim (bsPutMany b true blocks).1 (runS s (trPutMany blocks)).1 ∧
    (bsPutMany b true blocks).2 = mapPutMany blocks (runS s (trPutMany blocks)).2 ∧
    (bsPutMany b true blocks).1.hashOnRead = b.hashOnRead
  | [], b, s, sp, h, _ => ⟨h, rfl, rfl⟩
  | (c, d) :: rest, b, s, sp, h, H => by
    rw [bsPutMany_cons]
    cases hc : cidHash c with
    | none =>
      have hb : bsPut b true c d = (b, .errOther) := by simp [bsPut, hc]
      simp only [trPutMany, mapPutMany, hc, hb, runS_nil]
      exact ⟨h, by simp, by simp⟩
    | some k =>
      obtain ⟨h1, h2, h3⟩ := sim_put h hc d
      cases hk : keyClass .mh k with
      | error e =>
        simp only [trPutMany, hc, hk, runS_single] at H ⊢
        have ho : (stepS s (.put k d)).2 = (specStep .mh true sp (.put k d)).2 := by
          simpa [specRun] using H
        have hp : putOut (stepS s (.put k d)).2 = .errOther := by rw [ho]; exact specStep_put_err d hk
        simp only [mapPutMany, hc, h2, hp]
        exact ⟨by simpa using h1, by simpa using h2.trans hp, by simpa using h3⟩
      | ok dig =>
        simp only [trPutMany, hc, hk] at H ⊢
        rw [runS_cons, specRun_cons] at H
        have ho : (stepS s (.put k d)).2 = (specStep .mh true sp (.put k d)).2 := (List.cons.inj H).1
        have hp : putOut (stepS s (.put k d)).2 = .ok := by rw [ho]; exact specStep_put_ok d hk
        obtain ⟨i1, i2, i3⟩ := sim_putMany rest _ _ _ h1 (List.cons.inj H).2
        rw [runS_cons, runS_cons_fst]
        simp only [mapPutMany, hc, h2, hp, if_true]
        exact ⟨i1, i2, i3.trans h3⟩

theorem sim_step {b : BS} {s : SState} (sp : Spec) (h : Sim b s) (op : BsOp)
    (H : (runS s (trOp op)).2 = (specRun .mh true sp (trOp op)).2) :
    Sim (bsStepM b op).1 (runS s (trOp op)).1 ∧
    (bsStepM b op).2 = mapOut b.hashOnRead op (runS s (trOp op)).2 ∧
    (bsStepM b op).1.hashOnRead = nextFlag b.hashOnRead op := by
  cases op with
  | put live c d =>
    cases live with
    | false => exact ⟨h, rfl, rfl⟩
    | true =>
      cases hc : cidHash c with
      | none => simp [bsStepM, bsPut, trOp, mapOut, nextFlag, hc, runS_nil, h]
      | some k =>
        obtain ⟨h1, h2, h3⟩ := sim_put h hc d
        simp only [bsStepM, trOp, mapOut, nextFlag, hc, runS_single, if_true]
        exact ⟨h1, by simpa using h2, h3⟩
  | putMany live blocks =>
    cases live with
    | false =>
      have hb : bsPutMany b false blocks = (b, .errCtx) := by cases blocks <;> simp [bsPutMany]
      simp only [bsStepM, hb]
      exact ⟨h, rfl, rfl⟩
    | true =>
      simp only [trOp, if_true] at H
      simpa [bsStepM, trOp, mapOut, nextFlag] using sim_putMany blocks b s sp h H
  | get live c hm =>
    cases live with
    | false => exact ⟨h, rfl, rfl⟩
    | true =>
      cases hc : cidHash c with
      | none => simp [bsStepM, bsGet, trOp, mapOut, nextFlag, hc, runS_nil, h]
      | some k =>
        obtain ⟨h1, h2, h3⟩ := sim_get h hc hm
        simp only [bsStepM, trOp, nextFlag, hc, runS_single, if_true]
        exact ⟨h1, h2, h3⟩
  | has live c =>
    cases live with
    | false => exact ⟨h, rfl, rfl⟩
    | true =>
      cases hc : cidHash c with
      | none => simp [bsStepM, bsHas, trOp, mapOut, nextFlag, hc, runS_nil, h]
      | some k =>
        obtain ⟨h1, h2⟩ := sim_has h hc
        simp only [bsStepM, trOp, nextFlag, hc, runS_single, if_true]
        exact ⟨by rw [h1]; exact h, h2, trivial⟩
  | size live c =>
    cases live with
    | false => exact ⟨h, rfl, rfl⟩
    | true =>
      cases hc : cidHash c with
      | none => simp [bsStepM, bsGetSize, trOp, mapOut, nextFlag, hc, runS_nil, h]
      | some k =>
        obtain ⟨h1, h2⟩ := sim_size h hc
        simp only [bsStepM, trOp, nextFlag, hc, runS_single, if_true]
        exact ⟨by rw [h1]; exact h, h2, trivial⟩
  | del live c =>
    cases live with
    | false => exact ⟨h, rfl, rfl⟩
    | true =>
      cases hc : cidHash c with
      | none => simp [bsStepM, bsDelete, trOp, mapOut, nextFlag, hc, runS_nil, h]
      | some k =>
        obtain ⟨h1, h2, h3⟩ := sim_del h hc
        simp only [bsStepM, trOp, nextFlag, hc, runS_single, if_true]
        exact ⟨h1, h2, h3⟩
  | hashOnRead e => exact ⟨h, rfl, rfl⟩

/-- stage A: the adapter's answers are the mapped answers of the store machine on the translated calls,
    provided the store answers like the map (which C01 establishes) -/
theorem adapter_sim : ∀ (ops : List BsOp) (b : BS) (s : SState) (sp : Spec), Sim b s →
    (runS s (bsTranslate ops)).2 = (specRun .mh true sp (bsTranslate ops)).2 →
    (bsRun b ops).2 = mapOuts b.hashOnRead ops (runS s (bsTranslate ops)).2
  | [], _, _, _, _, _ => rfl
  | op :: ops, b, s, sp, h, H => by
    simp only [bsTranslate] at H ⊢
    rw [runS_append, specRun_append] at H
    obtain ⟨H1, H2⟩ := List.append_inj H (by rw [runS_length, specRun_length])
    obtain ⟨h1, h2, h3⟩ := sim_step sp h op H1
    have ih := adapter_sim ops _ _ _ h1 H2
    rw [bsRun_cons, runS_append, mapOuts, ih, h2, h3,
      List.take_left' (runS_length _ _), List.drop_left' (runS_length _ _)]

/-! ### stage C: the store's map specification and the blockstore contract -/

/-- the map of the store specification and the map of the contract hold the same blocks -/
def SpecRel (sp : Spec) (st : BsSpec) : Prop := ∀ dig, (Spec.get sp dig).map (·.2) = st.get dig

theorem BsSpec.get_mk_cons (x : Bytes × Bytes) (l : List (Bytes × Bytes)) (f : Bool) (dig : Bytes) :
    BsSpec.get ⟨x :: l, f⟩ dig = if x.1 = dig then some x.2 else BsSpec.get ⟨l, f⟩ dig := by
  unfold BsSpec.get
  simp only [List.find?_cons]
  by_cases h : x.1 = dig <;> simp [h]

theorem BsSpec.get_cons (st : BsSpec) (x : Bytes × Bytes) (dig : Bytes) :
    BsSpec.get { st with blocks := x :: st.blocks } dig = if x.1 = dig then some x.2 else st.get dig :=
  BsSpec.get_mk_cons x st.blocks st.hashOnRead dig

theorem BsSpec.get_filter_ne (f : Bool) : ∀ (l : List (Bytes × Bytes)) (dig dig' : Bytes), dig' ≠ dig →
    BsSpec.get ⟨l.filter (·.1 ≠ dig), f⟩ dig' = BsSpec.get ⟨l, f⟩ dig'
  | [], _, _, _ => rfl
  | x :: l, dig, dig', h => by
    simp only [List.filter_cons]
    by_cases hx : x.1 = dig
    · simp only [hx, ne_eq, not_true_eq_false, decide_false, Bool.false_eq_true, if_false]
      rw [BsSpec.get_mk_cons, if_neg (by rw [hx]; exact Ne.symm h)]
      exact BsSpec.get_filter_ne f l dig dig' h
    · simp only [ne_eq, hx, not_false_eq_true, decide_true, if_true]
      rw [BsSpec.get_mk_cons, BsSpec.get_mk_cons, BsSpec.get_filter_ne f l dig dig' h]

theorem BsSpec.get_filter_eq (f : Bool) : ∀ (l : List (Bytes × Bytes)) (dig : Bytes),
    BsSpec.get ⟨l.filter (·.1 ≠ dig), f⟩ dig = none
  | [], _ => rfl
  | x :: l, dig => by
    simp only [List.filter_cons]
    by_cases hx : x.1 = dig
    · simp only [hx, ne_eq, not_true_eq_false, decide_false, Bool.false_eq_true, if_false]
      exact BsSpec.get_filter_eq f l dig
    · simp only [ne_eq, hx, not_false_eq_true, decide_true, if_true]
      rw [BsSpec.get_mk_cons, if_neg hx]
      exact BsSpec.get_filter_eq f l dig

theorem BsSpec.get_del_eq (st : BsSpec) (dig : Bytes) : (st.del dig).get dig = none :=
  BsSpec.get_filter_eq st.hashOnRead st.blocks dig

theorem BsSpec.get_del_ne (st : BsSpec) (dig : Bytes) {dig' : Bytes} (h : dig' ≠ dig) :
    (st.del dig).get dig' = st.get dig' :=
  BsSpec.get_filter_ne st.hashOnRead st.blocks dig dig' h

theorem BsSpec.insert_present {st : BsSpec} {dig old : Bytes} (h : st.get dig = some old) (v : Bytes) :
    st.insert dig v = st := by
  simp [BsSpec.insert, h]

theorem BsSpec.get_insert_absent {st : BsSpec} {dig : Bytes} (h : st.get dig = none) (v : Bytes) :
    (st.insert dig v).get dig = some v := by
  simp only [BsSpec.insert, h]
  rw [BsSpec.get_cons]; simp

theorem BsSpec.get_insert_ne (st : BsSpec) (dig v : Bytes) {dig' : Bytes} (h : dig' ≠ dig) :
    (st.insert dig v).get dig' = st.get dig' := by
  unfold BsSpec.insert
  split
  · rfl
  · rw [BsSpec.get_cons]; simp [Ne.symm h]

theorem BsSpec.insert_flag (st : BsSpec) (dig v : Bytes) : (st.insert dig v).hashOnRead = st.hashOnRead := by
  unfold BsSpec.insert; split <;> rfl

theorem BsSpec.del_flag (st : BsSpec) (dig : Bytes) : (st.del dig).hashOnRead = st.hashOnRead := rfl

theorem specRel_put {sp : Spec} {st : BsSpec} (h : SpecRel sp st) {k dig : Bytes} (v : Bytes)
    (hk : keyClass .mh k = .ok dig) :
    SpecRel (specStep .mh true sp (.put k v)).1 (st.insert dig v) := by
  simp only [specStep, hk]
  have hd := h dig
  cases hg : Spec.get sp dig with
  | some kv =>
    rw [hg] at hd
    simp only [if_true]
    rw [BsSpec.insert_present hd.symm]; exact h
  | none =>
    rw [hg] at hd
    intro dig'
    by_cases he : dig' = dig
    · subst he
      simp [Spec.get_set_eq, BsSpec.get_insert_absent hd.symm]
    · simp [Spec.get_set_ne _ _ _ _ he, BsSpec.get_insert_ne _ _ _ he, h dig']

theorem cidDigest_ok {c k dig : Bytes} (hc : cidHash c = some k) (hk : keyClass .mh k = .ok dig) :
    cidDigest c = some dig := by simp [cidDigest, hc, hk]

theorem cidDigest_err {c k : Bytes} {e : Err} (hc : cidHash c = some k) (hk : keyClass .mh k = .error e) :
    cidDigest c = none := by simp [cidDigest, hc, hk]

theorem cidDigest_none {c : Bytes} (hc : cidHash c = none) : cidDigest c = none := by simp [cidDigest, hc]

theorem specRun_nil (sp : Spec) : specRun .mh true sp [] = (sp, []) := rfl
theorem specRun_single (sp : Spec) (op : SOp) :
    specRun .mh true sp [op] = ((specStep .mh true sp op).1, [(specStep .mh true sp op).2]) := rfl

theorem spec_putMany : ∀ (blocks : List (Bytes × Bytes)) (sp : Spec) (st : BsSpec), SpecRel sp st →
    SpecRel (specRun .mh true sp (trPutMany blocks)).1 (bsSpecPutMany st blocks).1 ∧
    mapPutMany blocks (specRun .mh true sp (trPutMany blocks)).2 = (bsSpecPutMany st blocks).2 ∧
    (bsSpecPutMany st blocks).1.hashOnRead = st.hashOnRead
  | [], _, _, h => ⟨h, rfl, rfl⟩
  | (c, d) :: rest, sp, st, h => by
    cases hc : cidHash c with
    | none =>
      simp only [trPutMany, mapPutMany, bsSpecPutMany, hc, cidDigest_none hc, specRun_nil]
      exact ⟨h, trivial, trivial⟩
    | some k =>
      cases hk : keyClass .mh k with
      | error e =>
        simp only [trPutMany, mapPutMany, bsSpecPutMany, hc, hk, cidDigest_err hc hk, specRun_single,
          specStep_put_err d hk]
        refine ⟨?_, by simp, trivial⟩
        simp only [specStep, hk]; exact h
      | ok dig =>
        obtain ⟨i1, i2, i3⟩ := spec_putMany rest _ _ (specRel_put h d hk)
        simp only [trPutMany, mapPutMany, bsSpecPutMany, hc, hk, cidDigest_ok hc hk]
        rw [specRun_cons, specRun_cons_fst]
        simp only [specStep_put_ok d hk, if_true]
        exact ⟨i1, i2, i3.trans (BsSpec.insert_flag _ _ _)⟩

theorem specRel_get {sp : Spec} {st : BsSpec} (h : SpecRel sp st) (dig : Bytes) :
    (∃ kv, Spec.get sp dig = some kv ∧ st.get dig = some kv.2) ∨ (Spec.get sp dig = none ∧ st.get dig = none) := by
  have hd := h dig
  cases hg : Spec.get sp dig with
  | some kv => rw [hg] at hd; exact Or.inl ⟨kv, rfl, hd.symm⟩
  | none => rw [hg] at hd; exact Or.inr ⟨rfl, hd.symm⟩

theorem specRel_del {sp : Spec} {st : BsSpec} (h : SpecRel sp st) (dig : Bytes) :
    SpecRel (Spec.del sp dig) (st.del dig) := by
  intro dig'
  by_cases he : dig' = dig
  · subst he; simp [Spec.get_del_eq, BsSpec.get_del_eq]
  · rw [Spec.get_del_ne _ _ he, BsSpec.get_del_ne _ _ he]; exact h dig'

theorem specRel_del_absent {sp : Spec} {st : BsSpec} (h : SpecRel sp st) {dig : Bytes} (ha : st.get dig = none) :
    SpecRel sp (st.del dig) := by
  intro dig'
  by_cases he : dig' = dig
  · subst he; rw [BsSpec.get_del_eq, ← ha]; exact h dig'
  · rw [BsSpec.get_del_ne _ _ he]; exact h dig'

theorem specStep_put_err_fst {sp : Spec} {k : Bytes} {e : Err} (v : Bytes) (h : keyClass .mh k = .error e) :
    (specStep .mh true sp (.put k v)).1 = sp := by
  simp only [specStep, h]

theorem spec_step {sp : Spec} {st : BsSpec} (h : SpecRel sp st) (op : BsOp) :
    SpecRel (specRun .mh true sp (trOp op)).1 (bsSpecStep st op).1 ∧
    mapOut st.hashOnRead op (specRun .mh true sp (trOp op)).2 = (bsSpecStep st op).2 ∧
    (bsSpecStep st op).1.hashOnRead = nextFlag st.hashOnRead op := by
  cases op with
  | put live c d =>
    cases live with
    | false => exact ⟨h, rfl, rfl⟩
    | true =>
      cases hc : cidHash c with
      | none => simp [bsSpecStep, trOp, mapOut, nextFlag, hc, cidDigest_none hc, specRun_nil, h]
      | some k =>
        cases hk : keyClass .mh k with
        | error e =>
          simp [bsSpecStep, trOp, mapOut, nextFlag, hc, cidDigest_err hc hk, specRun_single,
            specStep_put_err d hk, specStep_put_err_fst d hk, h]
        | ok dig =>
          simp [bsSpecStep, trOp, mapOut, nextFlag, hc, cidDigest_ok hc hk, specRun_single,
            specStep_put_ok d hk, specRel_put h d hk, BsSpec.insert_flag]
  | putMany live blocks =>
    cases live with
    | false => exact ⟨h, rfl, rfl⟩
    | true => simpa [bsSpecStep, trOp, mapOut, nextFlag] using spec_putMany blocks sp st h
  | get live c hm =>
    cases live with
    | false => exact ⟨h, rfl, rfl⟩
    | true =>
      cases hc : cidHash c with
      | none => simp [bsSpecStep, trOp, mapOut, nextFlag, hc, cidDigest_none hc, specRun_nil, h]
      | some k =>
        cases hk : keyClass .mh k with
        | error e =>
          simp [bsSpecStep, trOp, mapOut, nextFlag, hc, cidDigest_err hc hk, specRun_single, specStep, hk, h]
        | ok dig =>
          rcases specRel_get h dig with ⟨kv, h1, h2⟩ | ⟨h1, h2⟩
          · simp [bsSpecStep, trOp, mapOut, nextFlag, hc, cidDigest_ok hc hk, specRun_single, specStep, hk,
              h1, h2]
            split <;> simp [h]
          · simp [bsSpecStep, trOp, mapOut, nextFlag, hc, cidDigest_ok hc hk, specRun_single, specStep, hk, h,
              h1, h2]
  | has live c =>
    cases live with
    | false => exact ⟨h, rfl, rfl⟩
    | true =>
      cases hc : cidHash c with
      | none => simp [bsSpecStep, trOp, mapOut, nextFlag, hc, cidDigest_none hc, specRun_nil, h]
      | some k =>
        cases hk : keyClass .mh k with
        | error e =>
          simp [bsSpecStep, trOp, mapOut, nextFlag, hc, cidDigest_err hc hk, specRun_single, specStep, hk, h]
        | ok dig =>
          rcases specRel_get h dig with ⟨kv, h1, h2⟩ | ⟨h1, h2⟩ <;>
            simp [bsSpecStep, trOp, mapOut, nextFlag, hc, cidDigest_ok hc hk, specRun_single, specStep, hk, h,
              h1, h2]
  | size live c =>
    cases live with
    | false => exact ⟨h, rfl, rfl⟩
    | true =>
      cases hc : cidHash c with
      | none => simp [bsSpecStep, trOp, mapOut, nextFlag, hc, cidDigest_none hc, specRun_nil, h]
      | some k =>
        cases hk : keyClass .mh k with
        | error e =>
          simp [bsSpecStep, trOp, mapOut, nextFlag, hc, cidDigest_err hc hk, specRun_single, specStep, hk, h]
        | ok dig =>
          rcases specRel_get h dig with ⟨kv, h1, h2⟩ | ⟨h1, h2⟩ <;>
            simp [bsSpecStep, trOp, mapOut, nextFlag, hc, cidDigest_ok hc hk, specRun_single, specStep, hk, h,
              h1, h2]
  | del live c =>
    cases live with
    | false => exact ⟨h, rfl, rfl⟩
    | true =>
      cases hc : cidHash c with
      | none => simp [bsSpecStep, trOp, mapOut, nextFlag, hc, cidDigest_none hc, specRun_nil, h]
      | some k =>
        cases hk : keyClass .mh k with
        | error e =>
          simp [bsSpecStep, trOp, mapOut, nextFlag, hc, cidDigest_err hc hk, specRun_single, specStep, hk, h]
        | ok dig =>
          rcases specRel_get h dig with ⟨kv, h1, h2⟩ | ⟨h1, h2⟩
          · simp [bsSpecStep, trOp, mapOut, nextFlag, hc, cidDigest_ok hc hk, specRun_single, specStep, hk,
              h1, specRel_del h dig, BsSpec.del_flag]
          · simp [bsSpecStep, trOp, mapOut, nextFlag, hc, cidDigest_ok hc hk, specRun_single, specStep, hk,
              h1, specRel_del_absent h h2, BsSpec.del_flag]
  | hashOnRead e => exact ⟨h, rfl, rfl⟩

/-- stage C: the store's map specification answers, through `mapOuts`, what the contract answers -/
theorem spec_sim : ∀ (ops : List BsOp) (sp : Spec) (st : BsSpec), SpecRel sp st →
    mapOuts st.hashOnRead ops (specRun .mh true sp (bsTranslate ops)).2 = (bsSpecRunFrom st ops).2
  | [], _, _, _ => rfl
  | op :: ops, sp, st, h => by
    obtain ⟨h1, h2, h3⟩ := spec_step h op
    have ih := spec_sim ops _ _ h1
    simp only [bsTranslate]
    rw [bsSpecRunFrom_cons, specRun_append, mapOuts,
      List.take_left' (specRun_length _ _ _ _), List.drop_left' (specRun_length _ _ _ _), h2, ← h3, ih]

/-! ### the refinement -/

theorem bsInit_some {bits ifs pfs : Nat} {s0 : BS} (hi : bsInit bits ifs pfs = some s0) :
    ∃ s, initS (bsCfg bits ifs pfs) = some s ∧ Sim s0 s ∧ s0.hashOnRead = false := by
  unfold bsInit at hi
  split at hi
  · next s hs => cases hi; exact ⟨s, hs, ⟨rfl, rfl⟩, rfl⟩
  · cases hi

/-- the adapter over a fresh store answers every call like the blockstore contract -/
theorem adapter_refines_contract (bits ifs pfs : Nat) (hc : (bsCfg bits ifs pfs).Legal) (ops : List BsOp)
    (hk : BsKeysOK ops) (hs : BsSizesOK ops) (s0 : BS) (hi : bsInit bits ifs pfs = some s0) :
    (bsRun s0 ops).2 = (bsSpecRun ops).2 := by
  obtain ⟨s, hs0, hsim, hf⟩ := bsInit_some hi
  have h01 : (runS s (bsTranslate ops)).2 = (specRun .mh true [] (bsTranslate ops)).2 :=
    C01_store_refines_map (bsCfg bits ifs pfs) hc (bsTranslate ops) (bsTranslate_isC01 ops) hk hs s hs0
  rw [adapter_sim ops s0 s [] hsim h01, h01, hf]
  exact spec_sim ops [] {} (fun _ => rfl)

/-- every legal configuration opens a blockstore -/
theorem bsInit_exists (bits ifs pfs : Nat) (hc : (bsCfg bits ifs pfs).Legal) : ∃ s0, bsInit bits ifs pfs = some s0 := by
  obtain ⟨s, hs⟩ := C01_init (bsCfg bits ifs pfs) hc
  exact ⟨{ m := s.m, d := s.d, hashOnRead := false }, by simp [bsInit, hs]⟩

/-- the answers to the calls `suf` made after the calls `pre` are the contract's answers from the
    contract state after `pre` -/
theorem adapter_suffix (bits ifs pfs : Nat) (hc : (bsCfg bits ifs pfs).Legal) (pre suf : List BsOp)
    (hk : BsKeysOK (pre ++ suf)) (hs : BsSizesOK (pre ++ suf)) (s0 : BS) (hi : bsInit bits ifs pfs = some s0) :
    (bsRun s0 (pre ++ suf)).2.drop pre.length = (bsSpecRunFrom (bsSpecRun pre).1 suf).2 := by
  rw [adapter_refines_contract bits ifs pfs hc _ hk hs s0 hi, bsSpecRun, bsSpecRunFrom_drop]; rfl

/-! ### the clauses of the contract, on an arbitrary contract state -/

theorem bsRun_cons_fst (s : BS) (op : BsOp) (ops : List BsOp) :
    (bsRun s (op :: ops)).1 = (bsRun (bsStepM s op).1 ops).1 := rfl

theorem bsRun_length : ∀ (ops : List BsOp) (s : BS), (bsRun s ops).2.length = ops.length
  | [], _ => rfl
  | op :: ops, s => by rw [bsRun_cons]; simp [bsRun_length ops]

theorem bsRun_append : ∀ (l1 l2 : List BsOp) (s : BS),
    (bsRun s (l1 ++ l2)).2 = (bsRun s l1).2 ++ (bsRun (bsRun s l1).1 l2).2
  | [], _, _ => rfl
  | op :: l1, l2, s => by
    rw [List.cons_append, bsRun_cons, bsRun_cons, bsRun_cons_fst, bsRun_append l1 l2]; rfl

theorem bsRun_append_fst : ∀ (l1 l2 : List BsOp) (s : BS),
    (bsRun s (l1 ++ l2)).1 = (bsRun (bsRun s l1).1 l2).1
  | [], _, _ => rfl
  | op :: l1, l2, s => by
    rw [List.cons_append, bsRun_cons_fst, bsRun_cons_fst, bsRun_append_fst l1 l2]

/-- a call with a cancelled context answers `errCtx` and leaves the adapter state as it is — every state -/
theorem bsStepM_cancelled (s : BS) (op : BsOp) (h : op.cancelled = true) : bsStepM s op = (s, .errCtx) := by
  cases op with
  | putMany live blocks =>
    cases live with
    | true => simp [BsOp.cancelled] at h
    | false => cases blocks <;> simp [bsStepM, bsPutMany]
  | hashOnRead e => simp [BsOp.cancelled] at h
  | put live c d => cases live <;> simp_all [BsOp.cancelled, bsStepM, bsPut]
  | get live c hm => cases live <;> simp_all [BsOp.cancelled, bsStepM, bsGet]
  | has live c => cases live <;> simp_all [BsOp.cancelled, bsStepM, bsHas]
  | size live c => cases live <;> simp_all [BsOp.cancelled, bsStepM, bsGetSize]
  | del live c => cases live <;> simp_all [BsOp.cancelled, bsStepM, bsDelete]

theorem bsSpecStep_cancelled (st : BsSpec) (op : BsOp) (h : op.cancelled = true) :
    bsSpecStep st op = (st, .errCtx) := by
  cases op <;> simp_all [BsOp.cancelled, bsSpecStep]

/-- a cancelled call in the middle of a run: its answer is `errCtx`, every other answer and the final
    state are those of the run without it -/
theorem bsRun_cancelled (s : BS) (pre post : List BsOp) (op : BsOp) (h : op.cancelled = true) :
    bsRun s (pre ++ op :: post) =
      ((bsRun s (pre ++ post)).1,
       (bsRun s pre).2 ++ .errCtx :: (bsRun s (pre ++ post)).2.drop pre.length) := by
  apply Prod.ext
  · show (bsRun s (pre ++ op :: post)).1 = (bsRun s (pre ++ post)).1
    rw [bsRun_append_fst, bsRun_append_fst, bsRun_cons_fst, bsStepM_cancelled _ _ h]
  · show (bsRun s (pre ++ op :: post)).2 = _
    rw [bsRun_append, bsRun_append, bsRun_cons, bsStepM_cancelled _ _ h,
      List.drop_left' (bsRun_length pre s)]

theorem bsSpecPutMany_flag : ∀ (blocks : List (Bytes × Bytes)) (st : BsSpec),
    (bsSpecPutMany st blocks).1.hashOnRead = st.hashOnRead
  | [], _ => rfl
  | (c, d) :: rest, st => by
    unfold bsSpecPutMany
    split
    · rfl
    · rw [bsSpecPutMany_flag rest, BsSpec.insert_flag]

theorem bsSpecStep_flag (st : BsSpec) (op : BsOp) : (bsSpecStep st op).1.hashOnRead = nextFlag st.hashOnRead op := by
  cases op with
  | putMany live blocks => cases live <;> simp [bsSpecStep, nextFlag, bsSpecPutMany_flag]
  | hashOnRead e => rfl
  | put live c d =>
    cases live <;> simp [bsSpecStep, nextFlag]
    split <;> simp [BsSpec.insert_flag]
  | get live c hm =>
    cases live <;> simp [bsSpecStep, nextFlag]
    split
    · rfl
    · split
      · rfl
      · split <;> rfl
  | has live c =>
    cases live <;> simp [bsSpecStep, nextFlag]
    split <;> rfl
  | size live c =>
    cases live <;> simp [bsSpecStep, nextFlag]
    split
    · rfl
    · split <;> rfl
  | del live c =>
    cases live <;> simp [bsSpecStep, nextFlag]
    split <;> simp [BsSpec.del_flag]

/-- the contract's flag is the argument of the last HashOnRead call -/
theorem bsSpecRunFrom_flag : ∀ (ops : List BsOp) (st : BsSpec),
    (bsSpecRunFrom st ops).1.hashOnRead = bsFlagAfter st.hashOnRead ops
  | [], _ => rfl
  | op :: ops, st => by
    rw [bsSpecRunFrom_cons_fst, bsSpecRunFrom_flag ops, bsSpecStep_flag]; rfl

theorem bsSpecPutMany_absent {dig : Bytes} : ∀ (blocks : List (Bytes × Bytes)) (st : BsSpec),
    st.get dig = none → (blocks.any fun b => decide (cidDigest b.1 = some dig)) = false →
    (bsSpecPutMany st blocks).1.get dig = none
  | [], _, h, _ => h
  | (c, d) :: rest, st, h, hn => by
    simp only [List.any_cons, Bool.or_eq_false_iff, decide_eq_false_iff_not] at hn
    unfold bsSpecPutMany
    split
    · exact h
    · next dig' hd =>
      apply bsSpecPutMany_absent rest _ _ hn.2
      have : dig ≠ dig' := fun he => hn.1 (by rw [hd, he])
      rw [BsSpec.get_insert_ne _ _ _ this]; exact h

theorem bsSpecStep_absent {dig : Bytes} (st : BsSpec) (op : BsOp) (h : st.get dig = none)
    (hn : op.puts dig = false) : (bsSpecStep st op).1.get dig = none := by
  cases op with
  | putMany live blocks =>
    cases live with
    | false => exact h
    | true =>
      simp only [BsOp.puts, Bool.true_and] at hn
      simpa [bsSpecStep] using bsSpecPutMany_absent blocks st h hn
  | hashOnRead e => exact h
  | put live c d =>
    cases live with
    | false => exact h
    | true =>
      simp only [BsOp.puts, Bool.true_and, decide_eq_false_iff_not] at hn
      simp only [bsSpecStep, Bool.not_true, Bool.false_eq_true, if_false]
      split
      · exact h
      · next dig' hd =>
        have : dig ≠ dig' := fun he => hn (by rw [hd, he])
        rw [BsSpec.get_insert_ne _ _ _ this]; exact h
  | get live c hm =>
    cases live <;> simp only [bsSpecStep, Bool.not_true, Bool.not_false, Bool.false_eq_true, if_false, if_true]
    · exact h
    · split
      · exact h
      · split
        · exact h
        · split <;> exact h
  | has live c =>
    cases live <;> simp only [bsSpecStep, Bool.not_true, Bool.not_false, Bool.false_eq_true, if_false, if_true]
    · exact h
    · split <;> exact h
  | size live c =>
    cases live <;> simp only [bsSpecStep, Bool.not_true, Bool.not_false, Bool.false_eq_true, if_false, if_true]
    · exact h
    · split
      · exact h
      · split <;> exact h
  | del live c =>
    cases live <;> simp only [bsSpecStep, Bool.not_true, Bool.not_false, Bool.false_eq_true, if_false, if_true]
    · exact h
    · split
      · exact h
      · next dig' hd =>
        by_cases he : dig = dig'
        · subst he; exact BsSpec.get_del_eq _ _
        · rw [BsSpec.get_del_ne _ _ he]; exact h

/-- a digest no call of `ops` puts stays absent -/
theorem bsSpecRunFrom_absent {dig : Bytes} : ∀ (ops : List BsOp) (st : BsSpec), st.get dig = none →
    (∀ op ∈ ops, op.puts dig = false) → (bsSpecRunFrom st ops).1.get dig = none
  | [], _, h, _ => h
  | op :: ops, st, h, hn => by
    rw [bsSpecRunFrom_cons_fst]
    exact bsSpecRunFrom_absent ops _ (bsSpecStep_absent st op h (hn op (by simp)))
      (fun o ho => hn o (by simp [ho]))

/-! ### clause shapes, on an arbitrary contract state -/

theorem spec_put_then_get (st : BsSpec) {c dig : Bytes} (hd : cidDigest c = some dig) (d : Bytes) :
    (bsSpecRunFrom st [.has true c, .put true c d, .get true c true]).2 = [.bool false, .ok, .found c d] ∨
    ∃ d0, (bsSpecRunFrom st [.has true c, .put true c d, .get true c true]).2 = [.bool true, .ok, .found c d0] := by
  cases hg : st.get dig with
  | none =>
    left
    simp [bsSpecRunFrom, bsSpecStep, hd, hg, BsSpec.get_insert_absent hg]
  | some d0 =>
    right
    exact ⟨d0, by simp [bsSpecRunFrom, bsSpecStep, hd, hg, BsSpec.insert_present hg]⟩

theorem spec_has_size_get (st : BsSpec) {c dig : Bytes} (hd : cidDigest c = some dig) :
    (∃ d0, (bsSpecRunFrom st [.get true c true, .has true c, .size true c]).2 =
        [.found c d0, .bool true, .size d0.length]) ∨
    (bsSpecRunFrom st [.get true c true, .has true c, .size true c]).2 = [.notFound, .bool false, .notFound] := by
  cases hg : st.get dig with
  | none => right; simp [bsSpecRunFrom, bsSpecStep, hd, hg]
  | some d0 => left; exact ⟨d0, by simp [bsSpecRunFrom, bsSpecStep, hd, hg]⟩

theorem spec_delete (st : BsSpec) {c dig : Bytes} (hd : cidDigest c = some dig) (hm : Bool) :
    (bsSpecRunFrom st [.del true c, .get true c hm, .has true c, .size true c]).2 =
      [.ok, .notFound, .bool false, .notFound] := by
  simp [bsSpecRunFrom, bsSpecStep, hd, BsSpec.get_del_eq]

theorem spec_duplicate_put (st : BsSpec) {c dig : Bytes} (hd : cidDigest c = some dig) (d d' : Bytes) :
    ∃ d0, (bsSpecRunFrom st [.put true c d, .get true c true, .put true c d', .get true c true]).2 =
      [.ok, .found c d0, .ok, .found c d0] := by
  have key : ∀ st' : BsSpec, ∀ d0, st'.get dig = some d0 →
      (bsSpecRunFrom st' [.get true c true, .put true c d', .get true c true]).2 =
        [.found c d0, .ok, .found c d0] := by
    intro st' d0 h
    simp [bsSpecRunFrom, bsSpecStep, hd, h, BsSpec.insert_present h]
  cases hg : st.get dig with
  | none =>
    refine ⟨d, ?_⟩
    rw [bsSpecRunFrom_cons, key _ d]
    · simp [bsSpecStep, hd]
    · simp [bsSpecStep, hd, BsSpec.get_insert_absent hg]
  | some d0 =>
    refine ⟨d0, ?_⟩
    rw [bsSpecRunFrom_cons, key _ d0]
    · simp [bsSpecStep, hd]
    · simp [bsSpecStep, hd, BsSpec.insert_present hg, hg]

theorem spec_unknown (st : BsSpec) {c dig : Bytes} (hd : cidDigest c = some dig) (hg : st.get dig = none)
    (hm : Bool) :
    (bsSpecRunFrom st [.get true c hm, .has true c, .size true c]).2 = [.notFound, .bool false, .notFound] := by
  simp [bsSpecRunFrom, bsSpecStep, hd, hg]

theorem spec_alias (st : BsSpec) {c1 c2 dig : Bytes} (h1 : cidDigest c1 = some dig) (h2 : cidDigest c2 = some dig)
    (d : Bytes) :
    ∃ d0, (bsSpecRunFrom st [.put true c1 d, .get true c1 true, .get true c2 true, .has true c2,
        .size true c2]).2 = [.ok, .found c1 d0, .found c2 d0, .bool true, .size d0.length] := by
  cases hg : st.get dig with
  | none =>
    exact ⟨d, by simp [bsSpecRunFrom, bsSpecStep, h1, h2, BsSpec.get_insert_absent hg]⟩
  | some d0 =>
    exact ⟨d0, by simp [bsSpecRunFrom, bsSpecStep, h1, h2, BsSpec.insert_present hg, hg]⟩

theorem spec_alias_delete (st : BsSpec) {c1 c2 dig : Bytes} (h1 : cidDigest c1 = some dig)
    (h2 : cidDigest c2 = some dig) (d : Bytes) (hm : Bool) :
    (bsSpecRunFrom st [.put true c1 d, .del true c2, .get true c1 hm, .has true c1]).2 =
      [.ok, .ok, .notFound, .bool false] := by
  simp [bsSpecRunFrom, bsSpecStep, h1, h2, BsSpec.get_del_eq]

theorem spec_hash_on_read (st : BsSpec) {c dig : Bytes} (hd : cidDigest c = some dig) (hm : Bool) :
    (bsSpecRunFrom st [.has true c, .get true c hm]).2 = [.bool false, .notFound] ∨
    ∃ d0, (bsSpecRunFrom st [.has true c, .get true c hm]).2 =
      [.bool true, if st.hashOnRead && !hm then .wrongHash else .found c d0] := by
  cases hg : st.get dig with
  | none => left; simp [bsSpecRunFrom, bsSpecStep, hd, hg]
  | some d0 =>
    right
    refine ⟨d0, ?_⟩
    cases hf : st.hashOnRead <;> cases hm <;> simp [bsSpecRunFrom, bsSpecStep, hd, hg, hf]

/-- a call on a single CID that is not well-formed (does not parse, malformed multihash, digest shorter
    than 4 bytes), with a live context: answered `errOther`, contract state unchanged -/
theorem bsSpecStep_malformed (st : BsSpec) (op : BsOp) (h : op.malformed = true) :
    bsSpecStep st op = (st, .errOther) := by
  cases op with
  | putMany live blocks => simp [BsOp.malformed] at h
  | hashOnRead e => simp [BsOp.malformed] at h
  | put live c d => simp_all [BsOp.malformed, bsSpecStep]
  | get live c hm => simp_all [BsOp.malformed, bsSpecStep]
  | has live c => simp_all [BsOp.malformed, bsSpecStep]
  | size live c => simp_all [BsOp.malformed, bsSpecStep]
  | del live c => simp_all [BsOp.malformed, bsSpecStep]

theorem bsFlagAfter_append : ∀ (l1 l2 : List BsOp) (f : Bool),
    bsFlagAfter f (l1 ++ l2) = bsFlagAfter (bsFlagAfter f l1) l2
  | [], _, _ => rfl
  | op :: l1, l2, f => by
    show bsFlagAfter (nextFlag f op) (l1 ++ l2) = _
    rw [bsFlagAfter_append l1 l2]; rfl

end Sth
