import Sth.Lemmas.C11Pri1
import Sth.Lemmas.C13G

/-!
C11, primary side (2): a complete hand-over pass, and the two passes of a complete cycle — every
record span named by an entry recorded before the cycle (freelist file, hand-over file, pool) is
marked deleted, its file is in the affected set, and nothing else changes.  Core Lean only.
-/

namespace Sth.C11

theorem mem_insertByOff_iff {b x : Block} : ∀ {l : List Block}, x ∈ insertByOff b l ↔ x = b ∨ x ∈ l
  | [] => by simp [insertByOff]
  | y :: ys => by
    unfold insertByOff
    split
    · simp only [List.mem_cons]
    · simp only [List.mem_cons]
      rw [mem_insertByOff_iff (l := ys)]
      constructor
      · rintro (h | h | h)
        · exact Or.inr (Or.inl h)
        · exact Or.inl h
        · exact Or.inr (Or.inr h)
      · rintro (h | h | h)
        · exact Or.inr (Or.inl h)
        · exact Or.inl h
        · exact Or.inr (Or.inr h)

theorem mem_sortByOff_iff {x : Block} {l : List Block} : x ∈ sortByOff l ↔ x ∈ l := by
  unfold sortByOff
  have : ∀ (l acc : List Block), x ∈ l.foldl (fun acc b => insertByOff b acc) acc ↔ x ∈ l ∨ x ∈ acc := by
    intro l
    induction l with
    | nil => intro acc; simp
    | cons y ys ih =>
      intro acc
      rw [List.foldl_cons, ih, mem_insertByOff_iff]
      simp only [List.mem_cons]
      constructor
      · rintro (h | h | h)
        · exact Or.inl (Or.inr h)
        · exact Or.inl (Or.inl h)
        · exact Or.inr h
      · rintro ((h | h) | h)
        · exact Or.inr (Or.inl h)
        · exact Or.inl h
        · exact Or.inr (Or.inr h)
  rw [this l []]
  simp

theorem pollN_none : ∀ n, freelistPass.pollN n none = (false, none)
  | 0 => rfl
  | n + 1 => by
    unfold freelistPass.pollN
    have hp : poll none = (false, none) := rfl
    rw [hp]
    simp only [Bool.false_eq_true, if_false]
    exact pollN_none n

theorem priFlush_nil {m : Mem} {d : Disk} (h : m.pnext = []) : priFlush m d = some (m, d) := by
  unfold priFlush
  rw [h]
  rfl

theorem Kills.weaken {m : Mem} {pf : Nat} {K : Block → Prop} {psp psp' : Nat → List GSpan}
    {aff aff' : List Nat} (h : Kills m pf K psp psp' aff) (ha : ∀ g ∈ aff, g ∈ aff') :
    Kills m pf K psp psp' aff' :=
  ⟨h.sub, fun g x g1 g2 hx => (h.kept g x g1 g2 hx).imp id (fun ⟨a, b⟩ => ⟨a, ha g b⟩), h.dead,
    h.same, h.len⟩

theorem Kills.congr_m {m m' : Mem} {pf : Nat} {K : Block → Prop} {psp psp' : Nat → List GSpan}
    {aff : List Nat} (h : Kills m' pf K psp psp' aff) (h1 : m'.pfileNum = m.pfileNum)
    (h2 : m'.pmax = m.pmax) : Kills m pf K psp psp' aff :=
  ⟨h.sub, fun g x g1 g2 hx => by rw [← h2]; exact h.kept g x g1 (by rw [h1]; exact g2) hx,
    fun g x g1 g2 hx => by rw [← h2]; exact h.dead g x g1 (by rw [h1]; exact g2) hx, h.same, h.len⟩

/-- the bytes of a file determine its spans -/
theorem gbytes_inj : ∀ {a b : List GSpan}, SpansLt a → SpansLt b → gbytes a = gbytes b → a = b
  | [], [], _, _, _ => rfl
  | [], s :: b, _, _, h => by
    rw [gbytes_nil, gbytes_cons] at h
    have := congrArg List.length h
    rw [List.length_append, GSpan.bytes_length, List.length_nil] at this
    omega
  | s :: a, [], _, _, h => by
    rw [gbytes_nil, gbytes_cons] at h
    have := congrArg List.length h
    rw [List.length_append, GSpan.bytes_length, List.length_nil] at this
    omega
  | s :: a, t :: b, ha, hb, h => by
    have hs : s.body.length < two31 := ha s (by simp)
    have ht : t.body.length < two31 := hb t (by simp)
    rw [gbytes_cons, gbytes_cons] at h
    have h4s : (le32 s.raw).length = 4 := leEnc_length 4 _
    have h4t : (le32 t.raw).length = 4 := leEnc_length 4 _
    unfold GSpan.bytes at h
    rw [List.append_assoc, List.append_assoc] at h
    have hraw : le32 s.raw = le32 t.raw := by
      have := congrArg (List.take 4) h
      rw [List.take_left' h4s, List.take_left' h4t] at this
      exact this
    have hrest : s.body ++ gbytes a = t.body ++ gbytes b := by
      have := congrArg (List.drop 4) h
      rw [List.drop_left' h4s, List.drop_left' h4t] at this
      exact this
    have hr : s.raw = t.raw := by
      have := congrArg leDec hraw
      unfold le32 at this
      rw [leDec_leEnc 4 _ (GSpan.raw_lt hs), leDec_leEnc 4 _ (GSpan.raw_lt ht)] at this
      exact this
    have hdl : s.dead = t.dead ∧ s.body.length = t.body.length := by
      unfold GSpan.raw at hr
      cases hsd : s.dead <;> cases htd : t.dead <;> simp only [hsd, htd, if_true, if_false,
        Bool.false_eq_true] at hr <;> first | (constructor <;> first | rfl | omega) | omega
    have hbody : s.body = t.body := by
      have := congrArg (List.take s.body.length) hrest
      rw [List.take_left' rfl, hdl.2, List.take_left' rfl] at this
      exact this
    have htail : gbytes a = gbytes b := by
      have := congrArg (List.drop s.body.length) hrest
      rw [List.drop_left' rfl, hdl.2, List.drop_left' rfl] at this
      exact this
    have := gbytes_inj (fun x hx => ha x (by simp [hx])) (fun x hx => hb x (by simp [hx])) htail
    subst this
    cases s; cases t
    simp only at hdl hbody
    simp only [hdl.1, hbody]

section
variable {c : Cfg} {U : List (Bytes × Bytes)} {cfg : Cfg} {m : Mem} {d : Disk} {spec : Spec}
  {n B : Nat} {pf : Nat} {psp : Nat → List GSpan}

/-- the state description for given span lists, once they are known to spell the files -/
theorem state_with {m : Mem} {d : Disk} {psp : Nat → List GSpan}
    (hG : GInv c U ⟨cfg, m, d⟩ spec n B) (hh : d.phdr = some ⟨m.pmax, pf⟩)
    (hf : ∀ g, pf ≤ g → g ≤ m.pfileNum → d.pfiles.get? g = some (gbytes (psp g)) ∧ SpansLt (psp g)) :
    GState c U cfg m d spec n B pf psp := by
  obtain ⟨psp0, hS0⟩ := hG.state_of hh
  have heq : ∀ g, pf ≤ g → g ≤ m.pfileNum → psp0 g = psp g := by
    intro g g1 g2
    have h1 := hS0.log.files g g1 g2
    obtain ⟨h2, h3⟩ := hf g g1 g2
    have : some (gbytes (psp0 g)) = some (gbytes (psp g)) := by rw [← h1, ← h2]
    exact gbytes_inj (hS0.log.ok g g1 g2) h3 (Option.some.inj this)
  refine ⟨hG, hh, ?_, ?_, ?_⟩
  · exact ⟨hS0.log.le, hS0.log.gone, fun g g1 g2 => (hf g g1 g2).1, fun g g1 g2 => (hf g g1 g2).2,
      fun g g1 g2 => by rw [← heq g g1 g2]; exact hS0.log.starts g g1 g2⟩
  · intro blk hb
    obtain ⟨key, val, p1, p2⟩ := hS0.ent blk hb
    refine ⟨key, val, p1, p2.imp id ?_⟩
    rintro ⟨f', lp', e1, e2, e3, e4, e5⟩
    exact ⟨f', lp', e1, e2, e3, by rw [← heq f' e2 e3]; exact e4, e5⟩
  · obtain ⟨M1, M2, m1, m2, m3⟩ := hS0.fl
    refine ⟨M1, M2, m1, m2, ?_⟩
    intro fb hfb
    obtain ⟨q1, q2, q3, q4, q5⟩ := m3 fb hfb
    refine ⟨q1, q2, ?_, q4, q5⟩
    rcases q3 with q3 | ⟨f', lp', e1, e2, q⟩
    · exact Or.inl q3
    · right
      refine ⟨f', lp', e1, e2, ?_⟩
      rcases q with q | ⟨k1, k2, q⟩
      · exact Or.inl q
      · right
        rw [← heq f' k1 k2]
        exact ⟨k1, k2, q⟩

/-- the freelist file and the hand-over file parse to the lists of the invariant -/
theorem flinv_entries (zf : FlInv m d pf psp) :
    ∃ L1 L2, d.free = some (L1.flatMap blockBytes) ∧
      ((d.freeGc = none ∧ L2 = []) ∨ d.freeGc = some (L2.flatMap blockBytes)) ∧
      flEntries d = L1 ∧ flGcEntries d = L2 ∧
      (∀ fb ∈ m.flpool ++ L1 ++ L2, fb.off < two64 ∧ fb.size < two32) := by
  obtain ⟨L1, L2, f1, f2, f3⟩ := zf
  have hw : ∀ fb ∈ m.flpool ++ L1 ++ L2, fb.off < two64 ∧ fb.size < two32 := by
    intro fb hfb
    obtain ⟨_, _, _, q4, q5⟩ := f3 fb hfb
    exact ⟨q4, q5⟩
  have hlen : ∀ (L : List Block), L.length ≤ (L.flatMap blockBytes).length := by
    intro L
    induction L with
    | nil => simp
    | cons x xs ih =>
      rw [List.flatMap_cons, List.length_append, blockBytes_length, List.length_cons]; omega
  refine ⟨L1, L2, f1, f2, ?_, ?_, hw⟩
  · unfold flEntries
    rw [f1]
    simp only [Option.getD_some]
    rw [parseFreeList_ok L1 _ [] (fun x hx => hw x (by simp [hx])) (by have := hlen L1; omega)]
    simp
  · unfold flGcEntries
    rcases f2 with ⟨g1, g2⟩ | g1
    · subst g2
      rw [g1]
      simp [parseFreeList]
    · rw [g1]
      simp only [Option.getD_some]
      rw [parseFreeList_ok L2 _ [] (fun x hx => hw x (by simp [hx])) (by have := hlen L2; omega)]
      simp

/-- a complete hand-over pass on a flushed primary -/
theorem freelistPass_f (hS : GState c U cfg m d spec n B pf psp)
    (hn : n < 1073741824) (hpn : m.pnext = []) :
    ∃ psp' files aff,
      freelistPass m d none =
        (.ok, (toGC m d).1, { (toGC m d).2 with pfiles := files, freeGc := none }, none, aff) ∧
      GState c U cfg (toGC m d).1 { (toGC m d).2 with pfiles := files, freeGc := none } spec n B pf psp' ∧
      Kills m pf (fun b => b ∈ flGcEntries (toGC m d).2) psp psp' aff := by
  have hG0 := toGC_g hS.g
  obtain ⟨fl, fr, g, e0⟩ := toGC_shape m d
  rw [e0] at hG0 ⊢
  simp only at hG0 ⊢
  have hpn0 : ({ m with flpool := fl } : Mem).pnext = [] := hpn
  -- the state after the hand-over has the same header and the same files
  have hS0 : GState c U cfg { m with flpool := fl } { d with free := fr, freeGc := g } spec n B pf psp :=
    state_with hG0 hS.hdr (fun g' g1 g2 => ⟨hS.log.files g' g1 g2, hS.log.ok g' g1 g2⟩)
  obtain ⟨batch, hparse, hbatch⟩ := flinv_batch hS0.fl
  have hbe : flGcEntries ({ d with free := fr, freeGc := g } : Disk) = batch := by
    unfold flGcEntries; rw [hparse]
  rw [hbe]
  unfold freelistPass
  rw [e0]
  simp only
  rw [priFlush_nil hpn0]
  simp only
  rw [hparse]
  simp only
  -- the polls never expire
  have hpoll1 : (if ((g : Option Bytes).getD []).isEmpty = true then ((false, none) : Bool × Budget)
      else freelistPass.pollN batch.length none) = (false, none) := by
    split
    · rfl
    · exact pollN_none _
  have hpoll2 : (if ((g : Option Bytes).getD []).isEmpty = true then ((false, none) : Bool × Budget)
      else poll none) = (false, none) := by
    split <;> rfl
  simp only [hpoll1, hpoll2, Bool.false_eq_true, if_false, Bool.not_true]
  -- the batch is applied
  have hdel : ∃ psp', GState c U cfg { m with flpool := fl }
      { ({ d with free := fr, freeGc := g } : Disk) with
        pfiles := (if batch.isEmpty = true then (d.pfiles, ([] : List Nat))
          else deleteRecords m.pmax d.pfiles batch).1 } spec n B pf psp' ∧
      Kills m pf (fun b => b ∈ batch) psp psp'
        (if batch.isEmpty = true then (d.pfiles, ([] : List Nat))
          else deleteRecords m.pmax d.pfiles batch).2 := by
    split
    · rename_i he
      have : batch = [] := List.isEmpty_iff.mp he
      subst this
      exact ⟨psp, hS0, Kills.refl (fun _ _ _ _ _ h => by cases h)⟩
    · rw [deleteRecords_eq]
      obtain ⟨psp', h1, h2, _⟩ := delFold_f (m := { m with flpool := fl }) hn hpn0 (sortByOff batch)
        { d with free := fr, freeGc := g } psp [] hS0 (by
          intro d' psp' hS' hgc fb hfb
          obtain ⟨batch', hp', hb'⟩ := flinv_batch hS'.fl
          rw [hgc, hparse] at hp'
          simp only [Prod.mk.injEq, and_true] at hp'
          subst hp'
          exact hb' fb (mem_sortByOff hfb))
      exact ⟨psp', h1, (h2.mono (fun b => mem_sortByOff_iff)).congr_m rfl rfl⟩
  obtain ⟨psp', h1, h2⟩ := hdel
  generalize (if batch.isEmpty = true then (d.pfiles, ([] : List Nat))
        else deleteRecords m.pmax d.pfiles batch) = dr at h1 h2 ⊢
  obtain ⟨files, aff⟩ := dr
  simp only at h1 h2 ⊢
  -- the hand-over file is removed
  obtain ⟨L1, L2, f1, f2, f3⟩ := h1.fl
  have hz : ZInv { ({ m with flpool := fl } : Mem) with flpool := fl, visited := m.visited }
      { ({ d with free := fr, freeGc := g, pfiles := files } : Disk) with freeGc := none } := by
    refine ⟨pf, psp', h1.hdr, ⟨h1.log.le, h1.log.gone, h1.log.files, h1.log.ok,
      h1.log.starts⟩, fun blk hb => h1.ent blk hb, L1, [], f1, Or.inl ⟨rfl, rfl⟩, ?_⟩
    intro fb hfb
    obtain ⟨q1, q2, q3, q4, q5⟩ := f3 fb (by
      simp only [List.mem_append, List.append_nil] at hfb ⊢
      exact Or.inl hfb)
    exact ⟨q1, q2, q3, q4, q5⟩
  have hG' := h1.g.frame_fl
    (d' := { ({ d with free := fr, freeGc := g, pfiles := files } : Disk) with freeGc := none })
    fl m.visited rfl rfl rfl rfl rfl hz
  refine ⟨psp', files, aff, rfl, ?_, h2⟩
  exact state_with hG' h1.hdr (fun g' g1 g2 => ⟨h1.log.files g' g1 g2, h1.log.ok g' g1 g2⟩)

/-- what a fresh hand-over file holds: the freelist file followed by the pool -/
theorem handover_entries (zf : FlInv m d pf psp) (hgc : d.freeGc = none) :
    flGcEntries (toGC m d).2 = flEntries d ++ m.flpool := by
  obtain ⟨L1, L2, f1, f2, e1, e2, hw⟩ := flinv_entries zf
  obtain ⟨_, _, h3⟩ := toGC_none (m := m) hgc
  unfold flGcEntries
  rw [h3, f1]
  simp only [Option.getD_some]
  have : L1.flatMap blockBytes ++ m.flpool.flatMap blockBytes = (L1 ++ m.flpool).flatMap blockBytes := by
    rw [List.flatMap_append]
  rw [this]
  have hlen : ∀ (L : List Block), L.length ≤ (L.flatMap blockBytes).length := by
    intro L
    induction L with
    | nil => simp
    | cons x xs ih =>
      rw [List.flatMap_cons, List.length_append, blockBytes_length, List.length_cons]; omega
  rw [parseFreeList_ok (L1 ++ m.flpool) _ [] (fun x hx => hw x (by
      simp only [List.mem_append] at hx ⊢
      rcases hx with hx | hx
      · exact Or.inl (Or.inr hx)
      · exact Or.inl (Or.inl hx)))
    (by have := hlen (L1 ++ m.flpool); omega)]
  simp [e1]

/-- the effect of the two hand-over passes of a complete cycle on the record spans -/
structure Applied (s : SState) (pf : Nat) (psp psp2 : Nat → List GSpan) (aff : List Nat) : Prop where
  sub : ∀ g x, x ∈ liveAt 0 (psp2 g) → x ∈ liveAt 0 (psp g)
  died : ∀ g x, pf ≤ g → g ≤ s.m.pfileNum → x ∈ liveAt 0 (psp g) → x ∉ liveAt 0 (psp2 g) → g ∈ aff
  surv : ∀ g x, pf ≤ g → g ≤ s.m.pfileNum → x ∈ liveAt 0 (psp2 g) →
    (⟨s.m.pmax * g + x.1, x.2.length⟩ : Block) ∉ recordedG s
  same : ∀ g, liveAt 0 (psp g) = [] → psp2 g = psp g
  len : ∀ g, (gbytes (psp2 g)).length = (gbytes (psp g)).length

/-- the two hand-over passes of a complete primary GC cycle on a flushed primary: everything recorded
    before the cycle is applied -/
theorem passes_f (hS : GState c U cfg m d spec n B pf psp) (hn : n < 1073741824)
    (hpn : m.pnext = []) :
    ∃ m1 d1 aff1 m2 d2 aff2 psp2,
      freelistPass m d none = (.ok, m1, d1, none, aff1) ∧
      freelistPass m1 d1 none = (.ok, m2, d2, none, aff2) ∧
      GState c U cfg m2 d2 spec n B pf psp2 ∧
      Applied ⟨cfg, m, d⟩ pf psp psp2 (aff1 ++ aff2) ∧
      m2.pnext = [] ∧ m2.pfileNum = m.pfileNum ∧ m2.pmax = m.pmax ∧ m2.visited = m.visited ∧
      (∀ b, idxRecords m2 d2 b = idxRecords m d b) ∧ d2.phdr = d.phdr := by
  obtain ⟨psp1, files1, aff1, p1, hS1, k1⟩ := freelistPass_f hS hn hpn
  obtain ⟨fl, fr, g, e0⟩ := toGC_shape m d
  have hpn1 : (toGC m d).1.pnext = [] := by rw [e0]; exact hpn
  obtain ⟨psp2, files2, aff2, p2, hS2, k2⟩ := freelistPass_f hS1 hn hpn1
  obtain ⟨fl', fr', g', e1⟩ := toGC_shape (toGC m d).1
    { (toGC m d).2 with pfiles := files1, freeGc := none }
  have hfr1 : ({ (toGC m d).2 with pfiles := files1, freeGc := none } : Disk).freeGc = none := rfl
  -- everything recorded is in one of the two batches
  have hrec : ∀ b ∈ recordedG ⟨cfg, m, d⟩, b ∈ flGcEntries (toGC m d).2 ∨
      b ∈ flGcEntries (toGC (toGC m d).1 { (toGC m d).2 with pfiles := files1, freeGc := none }).2 := by
    intro b hb
    unfold recordedG at hb
    simp only [List.mem_append] at hb
    cases hgc : d.freeGc with
    | none =>
      left
      rw [handover_entries hS.fl hgc]
      rcases hb with (hb | hb) | hb
      · exact List.mem_append_left _ hb
      · have : flGcEntries d = [] := by unfold flGcEntries; rw [hgc]; simp [parseFreeList]
        rw [this] at hb; cases hb
      · exact List.mem_append_right _ hb
    | some x =>
      have e2 : toGC m d = (m, d) := toGC_some hgc
      rcases hb with (hb | hb) | hb
      · right
        rw [handover_entries hS1.fl hfr1]
        apply List.mem_append_left
        have : flEntries ({ (toGC m d).2 with pfiles := files1, freeGc := none } : Disk) = flEntries d := by
          unfold flEntries; rw [e2]
        rw [this]; exact hb
      · left; rw [e2]; exact hb
      · right
        rw [handover_entries hS1.fl hfr1]
        apply List.mem_append_right
        rw [e2]; exact hb
  have hk2 : Kills m pf
      (fun b => b ∈ flGcEntries (toGC (toGC m d).1 { (toGC m d).2 with pfiles := files1, freeGc := none }).2)
      psp1 psp2 aff2 := k2.congr_m (by rw [e0]) (by rw [e0])
  have hK := (k1.weaken (aff' := aff1 ++ aff2) (fun g hg => List.mem_append_left _ hg)).trans
    (hk2.weaken (aff' := aff1 ++ aff2) (fun g hg => List.mem_append_right _ hg)) (fun _ h => h)
  refine ⟨_, _, aff1, _, _, aff2, psp2, p1, p2, hS2, ?_, ?_, ?_, ?_, ?_, ?_, ?_⟩
  · refine ⟨hK.sub, ?_, ?_, hK.same, hK.len⟩
    · intro g'' x g1 g2 hx hnx
      rcases hK.kept g'' x g1 g2 hx with h | ⟨_, h⟩
      · exact absurd h hnx
      · exact h
    · intro g'' x g1 g2 hx hr
      exact hK.dead g'' x g1 g2 hx (hrec _ hr)
  · rw [e1, e0]; exact hpn
  · rw [e1, e0]
  · rw [e1, e0]
  · rw [e1, e0]
  · intro b; rw [e1, e0]; rfl
  · rw [e1, e0]

end

end Sth.C11
