import Sth.Lemmas.C11Pri3

/-!
C11, primary side (4): the loop over the closed files reaches every file, and a complete cycle
releases a closed file all of whose records are superseded and recorded.  Core Lean only.
-/

namespace Sth.C11

/-- one iteration of the loop on an unvisited file that reapRecords handles without error -/
theorem pgcGo_step (lowUse fuel n : Nat) (h : PriHeader) (m : Mem) (d : Disk) (recl : Nat)
    (hn : n ≠ m.pfileNum) (hv : m.visited.contains n = false) {r : PReapOut} {m1 : Mem} {d1 : Disk}
    {got : Nat} (hr : reapRecords m d n lowUse = (r, m1, d1, got)) (hne : r ≠ .err) :
    primaryGC.go lowUse (fuel + 1) n h m d none recl =
      primaryGC.go lowUse fuel (n + 1)
        (if r = .dead ∧ n = h.first then { h with first := h.first + 1 } else h)
        { m1 with visited := m1.visited ++ [n] }
        (if r = .dead ∧ n = h.first then
          { d1 with phdr := some { h with first := h.first + 1 }, pfiles := d1.pfiles.del n } else d1)
        none (recl + got) := by
  have hp : poll none = (false, none) := rfl
  rw [primaryGC.go]
  rw [if_neg hn, hv]
  simp only [Bool.false_eq_true, if_false, hr]
  cases r with
  | err => exact absurd rfl hne
  | dead =>
    simp only [hp, Bool.false_eq_true, if_false, true_and]
    by_cases hf : n = h.first
    · simp only [hf, if_true]
    · simp only [hf, if_false]
  | kept =>
    have : ¬ (PReapOut.kept = PReapOut.dead ∧ n = h.first) := by rintro ⟨h, _⟩; cases h
    simp only [hp, Bool.false_eq_true, if_false, this]

section
variable {c : Cfg} {U : List (Bytes × Bytes)} {cfg : Cfg} {spec : Spec} {B : Nat}

/-- the invariant of the loop while it runs towards file `f`: `d2` is the disk after the hand-over
    passes, `vis0` the visited set the loop started with -/
structure GoInv (c : Cfg) (U : List (Bytes × Bytes)) (cfg : Cfg) (spec : Spec) (B : Nat) (d2 : Disk)
    (vis0 : List Nat) (P pm : Nat) (n pf : Nat) (m : Mem) (d : Disk) (k : Nat) : Prop where
  st : ∃ psp, GState c U cfg m d spec k B pf psp
  pfn : pf ≤ n
  pfile : m.pfileNum = P
  pmax : m.pmax = pm
  cnt : k + 2 * (P - n) < 1073741824
  bytes : ∀ g, n ≤ g → d.pfiles.get? g = d2.pfiles.get? g
  vis : ∀ g, n ≤ g → (g ∈ m.visited ↔ g ∈ vis0)

variable {d2 : Disk} {vis0 : List Nat} {P pm : Nat}

theorem GoInv.skip {n pf : Nat} {m : Mem} {d : Disk} {k : Nat}
    (h : GoInv c U cfg spec B d2 vis0 P pm n pf m d k) :
    GoInv c U cfg spec B d2 vis0 P pm (n + 1) pf m d k :=
  ⟨h.st, by have := h.pfn; omega, h.pfile, h.pmax, by have := h.cnt; omega,
    fun g hg => h.bytes g (by omega), fun g hg => h.vis g (by omega)⟩

/-- the record spans of the files after the hand-over passes are well-formed records -/
def WfAfter (d2 : Disk) (P : Nat) : Prop :=
  ∀ g, g < P → ∀ ss, d2.pfiles.get? g = some (gbytes ss) → SpansLt ss → ∀ x ∈ liveAt 0 ss, RecSpan x.2

/-- one iteration on an unvisited file keeps the invariant -/
theorem GoInv.step (hU : Univ c.kind U) (hwf : WfAfter d2 P) (lowUse : Nat) {n pf : Nat} {m : Mem}
    {d : Disk} {k : Nat} (h : GoInv c U cfg spec B d2 vis0 P pm n pf m d k) (hn : n < P) :
    (reapRecords m d n lowUse).1 ≠ .err ∧
    ∃ k', GoInv c U cfg spec B d2 vis0 P pm (n + 1)
      (if (reapRecords m d n lowUse).1 = .dead ∧ n = pf then pf + 1 else pf)
      { (reapRecords m d n lowUse).2.1 with visited := (reapRecords m d n lowUse).2.1.visited ++ [n] }
      (if (reapRecords m d n lowUse).1 = .dead ∧ n = pf then
        { (reapRecords m d n lowUse).2.2.1 with
          phdr := some ⟨pm, pf + 1⟩, pfiles := (reapRecords m d n lowUse).2.2.1.pfiles.del n }
        else (reapRecords m d n lowUse).2.2.1) k' := by
  obtain ⟨psp, hS⟩ := h.st
  have hpf := h.pfile
  have hpm := h.pmax
  have hcnt := h.cnt
  have hfile : d.pfiles.get? n = some (gbytes (psp n)) := hS.log.files n h.pfn (by omega)
  have hne : (reapRecords m d n lowUse).1 ≠ .err :=
    reapRecords_ne_err m d n lowUse hfile (hS.log.ok n h.pfn (by omega))
      (hwf n hn (psp n) (by rw [← h.bytes n (Nat.le_refl _)]; exact hfile)
        (hS.log.ok n h.pfn (by omega)))
  refine ⟨hne, ?_⟩
  obtain ⟨k1, psp1, hS1, hk1, e1, e2, e3, hdead⟩ :=
    reapRecords_g hU hS (by omega) h.pfn (by omega) lowUse
  have hoth := fun g (hg : g ≠ n) => reapRecords_other m d n lowUse (f := g) hg
  cases hr : reapRecords m d n lowUse with
  | mk r rest =>
  obtain ⟨m1, d1, got⟩ := rest
  rw [hr] at hS1 e1 e2 e3 hdead hoth
  simp only at hS1 e1 e2 e3 hdead hoth ⊢
  -- the optional drop of the first file
  have hdrop : ∃ psp2, GState c U cfg m1
      (if r = .dead ∧ n = pf then { d1 with phdr := some ⟨pm, pf + 1⟩, pfiles := d1.pfiles.del n }
        else d1) spec k1 B (if r = .dead ∧ n = pf then pf + 1 else pf) psp2 := by
    by_cases hd : r = .dead ∧ n = pf
    · rw [if_pos hd, if_pos hd]
      obtain ⟨hd1, hd2⟩ := hd
      have hlt : pf < m1.pfileNum := by rw [e1, hpf, ← hd2]; exact hn
      have hk30 : k1 < 1073741824 := by omega
      have := drop_state hS1 hk30 hlt (by rw [← hd2]; exact hdead hd1)
      rw [e2, hpm] at this
      rw [hd2]
      exact ⟨psp1, this⟩
    · rw [if_neg hd, if_neg hd]
      exact ⟨psp1, hS1⟩
  obtain ⟨psp2, hS2⟩ := hdrop
  have hG3 := hS2.g.visited (m1.visited ++ [n])
  refine ⟨k1, ⟨psp2, ?_⟩, ?_, ?_, ?_, ?_, ?_, ?_⟩
  · exact state_with hG3 hS2.hdr (fun g g1 g2 => ⟨hS2.log.files g g1 g2, hS2.log.ok g g1 g2⟩)
  · by_cases hd : r = .dead ∧ n = pf
    · rw [if_pos hd]; have := hd.2; omega
    · rw [if_neg hd]; have := h.pfn; omega
  · show m1.pfileNum = P; rw [e1]; exact hpf
  · show m1.pmax = pm; rw [e2]; exact hpm
  · omega
  · intro g hg
    rw [← h.bytes g (by omega), ← hoth g (by omega)]
    split
    · show (d1.pfiles.del n).get? g = _
      exact NMap.get?_del_ne _ (by omega)
    · rfl
  · intro g hg
    rw [← h.vis g (by omega), ← e3]
    show g ∈ m1.visited ++ [n] ↔ _
    simp only [List.mem_append, List.mem_singleton]
    constructor
    · rintro (h | h)
      · exact h
      · omega
    · exact Or.inl

/-- the loop arrives at file `f` -/
theorem pgcGo_arrives (hU : Univ c.kind U) (hwf : WfAfter d2 P) (lowUse : Nat) {f : Nat} (hf : f < P) :
    ∀ (fuel n pf : Nat) (m : Mem) (d : Disk) (k recl : Nat),
      GoInv c U cfg spec B d2 vis0 P pm n pf m d k → n ≤ f → f - n < fuel →
      ∃ fuel' pf' m' d' k' recl',
        primaryGC.go lowUse fuel n ⟨pm, pf⟩ m d none recl =
          primaryGC.go lowUse (fuel' + 1) f ⟨pm, pf'⟩ m' d' none recl' ∧
        GoInv c U cfg spec B d2 vis0 P pm f pf' m' d' k' ∧ (n = f → pf' = pf) := by
  intro fuel
  induction fuel with
  | zero => intro n pf m d k recl _ _ h; omega
  | succ fuel ih =>
    intro n pf m d k recl hI hn hfu
    by_cases hnf : n = f
    · subst hnf
      exact ⟨fuel, pf, m, d, k, recl, rfl, hI, fun _ => rfl⟩
    · have hnP : n ≠ m.pfileNum := by rw [hI.pfile]; omega
      by_cases hv : m.visited.contains n = true
      · -- a visited file is skipped
        obtain ⟨fuel', pf', m', d', k', recl', q1, q2, _⟩ :=
          ih (n + 1) pf m d k recl hI.skip (by omega) (by omega)
        refine ⟨fuel', pf', m', d', k', recl', ?_, q2, fun h => absurd h hnf⟩
        rw [← q1, primaryGC.go, if_neg hnP, if_pos hv]
      · have hv' : m.visited.contains n = false := by
          cases hh : m.visited.contains n
          · rfl
          · exact absurd hh hv
        obtain ⟨hne, k1, hI1⟩ := hI.step hU hwf lowUse (by omega)
        cases hr : reapRecords m d n lowUse with
        | mk r rest =>
        obtain ⟨m1, d1, got⟩ := rest
        rw [hr] at hne hI1
        simp only at hne hI1
        have hstep := pgcGo_step lowUse fuel n ⟨pm, pf⟩ m d recl hnP hv' hr hne
        obtain ⟨fuel', pf', m', d', k', recl', q1, q2, _⟩ :=
          ih (n + 1) (if r = .dead ∧ n = pf then pf + 1 else pf)
            { m1 with visited := m1.visited ++ [n] }
            (if r = .dead ∧ n = pf then { d1 with phdr := some ⟨pm, pf + 1⟩, pfiles := d1.pfiles.del n }
              else d1) k1 (recl + got) hI1 (by omega) (by omega)
        refine ⟨fuel', pf', m', d', k', recl', ?_, q2, fun h => absurd h hnf⟩
        rw [hstep, ← q1]
        by_cases hd : r = .dead ∧ n = pf
        · simp only [hd, and_self, if_true]
        ·           simp only [hd, if_false]

end

end Sth.C11
