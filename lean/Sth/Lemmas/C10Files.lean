/-
C10 (byte level) — remapIndex over all index files, on logs.
Core Lean only.
-/
import Sth.Lemmas.C10Remap

namespace Sth

/-! ### small NMap facts -/

theorem NMap.get?_ne_none_of_mem_keys {α : Type} : ∀ {m : NMap α} {k : Nat}, k ∈ m.keys → m.get? k ≠ none
  | [], _, h => by simp [NMap.keys] at h
  | (k', v) :: rest, k, h => by
    rw [NMap.get?_cons]
    split
    · simp
    · rename_i hne
      have : k ∈ NMap.keys rest := by
        simp only [NMap.keys, List.map_cons, List.mem_cons] at h
        rcases h with h | h
        · exact absurd h.symm hne
        · exact h
      exact NMap.get?_ne_none_of_mem_keys this

theorem NMap.mem_keys_set {α : Type} (m : NMap α) (k : Nat) (v : α) (x : Nat) :
    x ∈ (m.set k v).keys ↔ x = k ∨ x ∈ m.keys := by
  constructor
  · exact NMap.keys_set_mem m k v x
  · intro h
    have : (m.set k v).get? x ≠ none := by
      rw [NMap.get?_set]
      split
      · simp
      · rename_i hne
        rcases h with h | h
        · exact absurd h hne
        · exact NMap.get?_ne_none_of_mem_keys h
    cases hg : (m.set k v).get? x with
    | none => exact absurd hg this
    | some y => exact NMap.mem_keys_of_get? hg

theorem NMap.keys_nodup {α : Type} {m : NMap α} (h : NMap.Sorted m) : m.keys.Nodup := by
  unfold NMap.Sorted at h
  unfold NMap.keys
  exact h.imp (fun hlt => Nat.ne_of_lt hlt)

theorem foldSet_keys (fs : List Nat) : ∀ (acc : NMap Unit), NMap.Sorted acc →
    NMap.Sorted (fs.foldl (fun (acc : NMap Unit) f => acc.set f ()) acc) ∧
    ∀ x, x ∈ (fs.foldl (fun (acc : NMap Unit) f => acc.set f ()) acc).keys ↔ x ∈ acc.keys ∨ x ∈ fs := by
  induction fs with
  | nil => intro acc h; exact ⟨h, fun x => by simp⟩
  | cons f fs ih =>
    intro acc h
    obtain ⟨h1, h2⟩ := ih (acc.set f ()) (NMap.sorted_set f () h)
    refine ⟨h1, ?_⟩
    intro x
    rw [List.foldl_cons, h2, NMap.mem_keys_set]
    simp only [List.mem_cons]
    constructor
    · rintro ((h | h) | h)
      · right; left; exact h
      · left; exact h
      · right; right; exact h
    · rintro (h | h | h)
      · left; right; exact h
      · left; left; exact h
      · right; exact h

theorem bucketFiles_nodup (imax : Nat) (bk : NMap Nat) : (bucketFiles imax bk).Nodup := by
  unfold bucketFiles
  exact NMap.keys_nodup (foldSet_keys _ [] NMap.sorted_nil).1

theorem mem_bucketFiles (imax : Nat) (bk : NMap Nat) (f : Nat) :
    f ∈ bucketFiles imax bk ↔ ∃ bp ∈ bk, bp.2 ≠ 0 ∧ (localizeIdx imax bp.2).2 = f := by
  unfold bucketFiles
  rw [(foldSet_keys _ [] NMap.sorted_nil).2]
  simp only [NMap.keys, List.map_nil, List.not_mem_nil, false_or, List.mem_map, List.mem_filter]
  constructor
  · rintro ⟨bp, ⟨h1, h2⟩, h3⟩
    exact ⟨bp, h1, by simpa using h2, h3⟩
  · rintro ⟨bp, h1, h2, h3⟩
    exact ⟨bp, ⟨h1, by simpa using h2⟩, h3⟩

theorem fixOrder_nil (ks : List Nat) : fixOrder [] ks = ks := by
  unfold fixOrder
  split
  · rename_i h
    have : ks.length = 0 := by have := h.1; simp at this; omega
    exact (List.length_eq_zero_iff.mp this).symm
  · rfl

/-! ### the predicate "the table points at this record" -/

def pT (T : NMap Nat) (b P : Nat) : Bool := decide (T.get? b = some P)

theorem memS_eq_pT {T : NMap Nat} (hs : NMap.Sorted T) (b P : Nat) : memS T b P = pT T b P := by
  unfold memS pT
  rw [List.contains_eq_mem]
  by_cases h : (b, P) ∈ T
  · simp [h, NMap.get?_of_mem_sorted hs h]
  · have : ¬ T.get? b = some P := fun hg => h (NMap.mem_of_get? hg)
    simp [h, this]

/-- the log of file `f` after remapIndex -/
def lgR (remap : Nat → Option Nat) (imax : Nat) (T : NMap Nat) (lg : Nat → List LRec) (f : Nat) : List LRec :=
  rmP (pT T) (remapRL remap) imax f 0 (lg f)

theorem remapFile_lgR {remap : Nat → Option Nat} {imax f : Nat} {lg : Nat → List LRec} {T : NMap Nat}
    (hs : NMap.Sorted T) (hok : FileOK remap imax f (lg f) T) :
    remapFile remap imax T f (logBytes (lg f)) = some (logBytes (lgR remap imax T lg f), []) := by
  rw [remapFile_log hok]
  unfold lgR
  congr 3
  apply rmP_congr
  intro pre r post _
  exact memS_eq_pT hs _ _

/-! ### all files -/

theorem remapFiles_fold {remap : Nat → Option Nat} {imax : Nat} {lg : Nat → List LRec} {T : NMap Nat}
    (hs : NMap.Sorted T) :
    ∀ (fl : List Nat) (ud : UDir), fl.Nodup → ud.tmp = [] → (∀ f ∈ fl, f ∉ ud.marked) →
      (∀ f ∈ fl, ud.disk.ifiles.get? f = some (logBytes (lg f)) ∧ FileOK remap imax f (lg f) T) →
      ∃ ifs, fl.foldlM (remapOneFile remap imax T) (ud, ([] : NMap RecordList)) =
          some ({ ud with disk := { ud.disk with ifiles := ifs }, marked := fl.reverse ++ ud.marked }, []) ∧
        ∀ f, ifs.get? f = if f ∈ fl then some (logBytes (lgR remap imax T lg f)) else ud.disk.ifiles.get? f := by
  intro fl
  induction fl with
  | nil =>
    intro ud _ _ _ _
    exact ⟨ud.disk.ifiles, by simp, fun f => by simp⟩
  | cons f fl ih =>
    intro ud hnd htmp hmk hfiles
    obtain ⟨hget, hok⟩ := hfiles f (by simp)
    have hnm : ud.marked.contains f = false := by
      rw [List.contains_eq_mem]; simpa using hmk f (by simp)
    have hstep : remapOneFile remap imax T (ud, []) f =
        some ({ ud with disk := { ud.disk with ifiles := ud.disk.ifiles.set f (logBytes (lgR remap imax T lg f)) },
                        marked := f :: ud.marked }, []) := by
      unfold remapOneFile
      simp only [hnm, Bool.false_eq_true, if_false, hget, remapFile_lgR hs hok, htmp]
      rfl
    rw [List.foldlM_cons, hstep]
    simp only [Option.bind_eq_bind, Option.bind_some]
    rw [List.nodup_cons] at hnd
    obtain ⟨ifs, h1, h2⟩ := ih
      { ud with disk := { ud.disk with ifiles := ud.disk.ifiles.set f (logBytes (lgR remap imax T lg f)) },
                marked := f :: ud.marked } hnd.2 htmp
      (by
        intro f' hf' hm
        simp only [List.mem_cons] at hm
        rcases hm with hm | hm
        · rw [hm] at hf'; exact hnd.1 hf'
        · exact hmk f' (List.mem_cons_of_mem _ hf') hm)
      (by
        intro f' hf'
        have hne : f' ≠ f := fun e => hnd.1 (e ▸ hf')
        obtain ⟨g1, g2⟩ := hfiles f' (List.mem_cons_of_mem _ hf')
        refine ⟨?_, g2⟩
        show (ud.disk.ifiles.set f _).get? f' = _
        rw [NMap.get?_set_ne _ _ hne]
        exact g1)
    refine ⟨ifs, ?_, ?_⟩
    · rw [h1]
      simp
    · intro f'
      rw [h2]
      show (if f' ∈ fl then _ else (ud.disk.ifiles.set f _).get? f') = _
      rw [NMap.get?_set]
      by_cases hf' : f' ∈ fl
      · simp [hf']
      · by_cases he : f' = f
        · subst he; simp [hf']
        · simp [hf', he]

end Sth
