/-
C04 — the extended invariant with GC in the picture: the index files form a span log from the header's
first file, the primary files exist from the primary header's first file; Put / Remove / Flush keep it.
Core Lean only.
-/
import Sth.Lemmas.C04Scan
import Sth.Lemmas.C04IGC
import Sth.Lemmas.C02

namespace Sth

structure YInv (c : Cfg) (s : SState) : Prop where
  cfg : s.cfg = c
  bits : s.m.bits = c.bits
  imax : s.m.imax = c.ifs
  pmax : s.m.pmax = hdrPfs c
  ilog : ∃ first sp, s.d.ihdr = some ⟨c.bits, c.ifs, first, hdrPfs c⟩ ∧ IdxLog s.m s.d first sp
  phdr : c.kind = .mh → ∃ pf, s.d.phdr = some ⟨c.pfs, pf⟩ ∧ pf ≤ s.m.pfileNum ∧
    ∀ f, pf ≤ f → f ≤ s.m.pfileNum → s.d.pfiles.get? f ≠ none
  inextLt : ∀ b rl, s.m.inext.get? b = some rl → b < 2 ^ s.m.bits

theorem IdxLog.frame {m m' : Mem} {d d' : Disk} {first : Nat} {sp : Nat → List GSpan}
    (h : IdxLog m d first sp) (hd : d'.ifiles = d.ifiles)
    (h1 : m'.ifileNum = m.ifileNum) (h2 : m'.bits = m.bits) (h3 : m'.imax = m.imax)
    (h4 : m'.buckets = m.buckets) : IdxLog m' d' first sp := by
  have ht : tbl m' = tbl m := by funext b; unfold tbl; rw [h4]
  show IdxLogT m'.bits m'.imax m'.ifileNum d'.ifiles (tbl m') first sp
  rw [h1, h2, h3, hd, ht]
  exact h

theorem YInv.frame_ff {c : Cfg} {cfg : Cfg} {m : Mem} {d : Disk}
    (h : YInv c ⟨cfg, m, d⟩) (fl : List Block) (fr : Option Bytes) (sn : Option Snap) :
    YInv c ⟨cfg, { m with flpool := fl }, { d with free := fr, snap := sn }⟩ := by
  obtain ⟨first, sp, e1, e2⟩ := h.ilog
  exact ⟨h.cfg, h.bits, h.imax, h.pmax, ⟨first, sp, e1, e2.frame rfl rfl rfl rfl rfl⟩, h.phdr,
    h.inextLt⟩

theorem YInv.of_shape {c : Cfg} {s s' : SState} {base : Mem} (hX : YInv c s) (h : MutShape base s s')
    (hb1 : base.bits = s.m.bits) (hb2 : base.imax = s.m.imax) (hb3 : base.pmax = s.m.pmax)
    (hb4 : base.pfileNum = s.m.pfileNum) (hb5 : base.ifileNum = s.m.ifileNum)
    (hb6 : base.buckets = s.m.buckets) : YInv c s' := by
  rcases h with rfl | ⟨m', b, rl, rfl, hf, hin, hlt⟩
  · exact hX
  · have ebits : m'.bits = s.m.bits := by rw [hf.bits, hb1]
    obtain ⟨first, sp, e1, e2⟩ := hX.ilog
    refine ⟨hX.cfg, by show m'.bits = _; rw [ebits]; exact hX.bits,
      by show m'.imax = _; rw [hf.imax, hb2]; exact hX.imax,
      by show m'.pmax = _; rw [hf.pmax, hb3]; exact hX.pmax,
      ⟨first, sp, e1, e2.frame rfl (by rw [hf.ifileNum, hb5]) ebits (by rw [hf.imax, hb2])
        (by rw [hf.buckets, hb6])⟩, ?_, ?_⟩
    · intro hk
      obtain ⟨pf, p1, p2, p3⟩ := hX.phdr hk
      refine ⟨pf, p1, ?_, ?_⟩
      · show pf ≤ m'.pfileNum; rw [hf.pfileNum, hb4]; exact p2
      · intro f hf1 hf2
        have hf2' : f ≤ m'.pfileNum := hf2
        rw [hf.pfileNum, hb4] at hf2'
        exact p3 f hf1 hf2'
    · intro b' rl' hb'
      have hb'' : m'.inext.get? b' = some rl' := hb'
      show b' < 2 ^ m'.bits
      rw [ebits]
      rw [hin, NMap.get?_set] at hb''
      split at hb''
      · rename_i hbb; rw [hbb]; exact hlt
      · exact hX.inextLt b' rl' hb''

/-! ### primary files from the header's first file -/

theorem pstepMh_from {m m' : Mem} {d d' : Disk} {r : PRec} {pf : Nat}
    (h : pstepMh (m, d) r = some (m', d')) (hle : pf ≤ m.pfileNum)
    (hall : ∀ f, pf ≤ f → f ≤ m.pfileNum → d.pfiles.get? f ≠ none) :
    pf ≤ m'.pfileNum ∧ ∀ f, pf ≤ f → f ≤ m'.pfileNum → d'.pfiles.get? f ≠ none := by
  unfold pstepMh at h
  simp only at h
  split at h
  · cases h
  · by_cases hroll : m.plength ≥ m.pmax
    · simp only [hroll, if_true, Option.some.injEq, Prod.mk.injEq] at h
      obtain ⟨rfl, rfl⟩ := h
      refine ⟨by simp only; omega, ?_⟩
      intro f hf1 hf
      simp only at hf ⊢
      by_cases hff : f = m.pfileNum + 1
      · rw [hff, NMap.get?_set_eq]; simp
      · rw [NMap.get?_set_ne _ _ hff, NMap.get?_set_ne _ _ hff]
        exact hall f hf1 (by omega)
    · simp only [hroll, if_false, Option.some.injEq, Prod.mk.injEq] at h
      obtain ⟨rfl, rfl⟩ := h
      refine ⟨hle, ?_⟩
      intro f hf1 hf
      simp only at hf ⊢
      by_cases hff : f = m.pfileNum
      · rw [hff, NMap.get?_set_eq]; simp
      · rw [NMap.get?_set_ne _ _ hff]
        exact hall f hf1 hf

theorem pfold_from {pf : Nat} : ∀ (recs : List PRec) (m m' : Mem) (d d' : Disk),
    recs.foldlM pstepMh (m, d) = some (m', d') → pf ≤ m.pfileNum →
    (∀ f, pf ≤ f → f ≤ m.pfileNum → d.pfiles.get? f ≠ none) →
    pf ≤ m'.pfileNum ∧ ∀ f, pf ≤ f → f ≤ m'.pfileNum → d'.pfiles.get? f ≠ none
  | [], m, m', d, d', h, hle, hall => by
    simp only [List.foldlM, pure, Option.some.injEq, Prod.mk.injEq] at h
    obtain ⟨rfl, rfl⟩ := h
    exact ⟨hle, hall⟩
  | r :: recs, m, m', d, d', h, hle, hall => by
    rw [List.foldlM_cons] at h
    cases hs : pstepMh (m, d) r with
    | none => rw [hs] at h; cases h
    | some md =>
      obtain ⟨m1, d1⟩ := md
      rw [hs] at h
      obtain ⟨q1, q2⟩ := pstepMh_from hs hle hall
      exact pfold_from recs m1 m' d1 d' h q1 q2

theorem priFlush_from {m m' : Mem} {d d' : Disk} {pf : Nat} (h : priFlush m d = some (m', d'))
    (hk : m.kind = .mh) (hle : pf ≤ m.pfileNum)
    (hall : ∀ f, pf ≤ f → f ≤ m.pfileNum → d.pfiles.get? f ≠ none) :
    pf ≤ m'.pfileNum ∧ ∀ f, pf ≤ f → f ≤ m'.pfileNum → d'.pfiles.get? f ≠ none := by
  by_cases hne : m.pnext.isEmpty = true
  · rw [priFlush_empty hne] at h
    simp only [Option.some.injEq, Prod.mk.injEq] at h
    obtain ⟨rfl, rfl⟩ := h
    exact ⟨hle, hall⟩
  · have hne' : m.pnext.isEmpty = false := by simpa using hne
    rw [priFlush_mh_eq hk hne'] at h
    exact pfold_from _ _ _ _ _ h hle hall

/-! ### primary flush followed by index flush -/

theorem flushBoth_inv4 {c : Cfg} {U : List (Bytes × Bytes)} {s : SState} {spec : Spec} {n B : Nat}
    (hU : Univ c.kind U) (hI : Inv c U s spec n B) (hX : YInv c s) (hn : n < 1073741824)
    (hB : B < two31) (order : List Nat) :
    ∃ m1 d1 m2 d2, priFlush s.m s.d = some (m1, d1) ∧
      idxFlush m1 d1 (fixOrder order s.m.inext.keys) = (m2, d2) ∧
      Inv c U ⟨s.cfg, m2, d2⟩ spec n B ∧ YInv c ⟨s.cfg, m2, d2⟩ ∧ m2.inext = [] ∧ m2.pnext = [] ∧
      m2.flpool = s.m.flpool ∧
      (∀ b, idxRecords m2 d2 b = idxRecords s.m s.d b) ∧
      (∀ blk k v, priGet s.m s.d blk = .got k v → priGet m2 d2 blk = .got k v) ∧
      d2.free = s.d.free ∧ d2.freeGc = s.d.freeGc := by
  have hU' : Univ s.m.kind U := by rw [hI.kind]; exact hU
  obtain ⟨f1, f2⟩ := fixOrder_ok order s.m.inext
  obtain ⟨pc, pfn, plen, pfiles, cidf, p1, p2, p3⟩ := priFlush_ok hI.p (fun hk => by
    have := (hI.cnt.mh hk).1
    unfold two32; omega)
  have hI1 : IInv (pfl s.m pc pfn plen) (dfl s.d pfiles cidf) :=
    hI.i.frame2 rfl rfl rfl rfl rfl rfl
  have hidx1 : ∀ b, idxRecords (pfl s.m pc pfn plen) (dfl s.d pfiles cidf) b = idxRecords s.m s.d b :=
    fun _ => rfl
  obtain ⟨ic, fn, len, bk, files, i1, i2, i3, i4⟩ :=
    idxFlush_ok (order := fixOrder order s.m.inext.keys) hI1
      (fun b => by
        obtain ⟨orl, h1, _⟩ := hI.a.recs b
        exact ⟨orl, by rw [hidx1]; exact h1⟩)
      (inext_flushOK (m := s.m) (d := s.d) hU' hI.bits31 hI.a hI.w hB) f1 (by
        have := hI.cnt.idx
        show s.m.ifileNum + (fixOrder order s.m.inext.keys).length < two32
        unfold two32; omega)
  have hpool : ∀ b rl, (pfl s.m pc pfn plen).inext.get? b = some rl →
      RecLogOK (pfl s.m pc pfn plen).bits (b, rl) := by
    intro b rl hb
    have hb' : s.m.inext.get? b = some rl := hb
    refine ⟨hX.inextLt b rl hb', ?_⟩
    obtain ⟨orl, h1, h2, h3⟩ := hI.a.recs b
    have : idxRecords s.m s.d b = .ok (some rl) := by unfold idxRecords; rw [hb']
    rw [this] at h1
    cases h1
    simp only [Option.getD_some] at h2 h3
    exact enc_lt31 hU' hI.bits8 hI.bits31 h2 h3 hI.w hB
  obtain ⟨first, sp, e1, e2⟩ := hX.ilog
  have hL1 : IdxLog (pfl s.m pc pfn plen) (dfl s.d pfiles cidf) first sp :=
    e2.frame rfl rfl rfl rfl rfl
  obtain ⟨sp', l1⟩ := idxFlush_log4 (order := fixOrder order s.m.inext.keys) hI1 hL1 hI.bits31 hpool
  rw [i1] at l1
  refine ⟨_, _, _, _, p1, i1, ?_, ?_, rfl, rfl, rfl, fun b => (i3 b).trans (hidx1 b), p3, rfl, rfl⟩
  · refine ⟨hI.kind, hI.imm, hI.bits8, hI.bits31, ?_, p2.frame2 rfl rfl rfl rfl rfl rfl rfl rfl rfl rfl,
      i2, ?_, hI.nodup, hI.w⟩
    · apply AInv.mono hI.a
      · intro blk k v _ hg
        exact p3 blk k v hg
      · intro blk hb; exact hb
      · intro b
        exact (i3 b).trans (hidx1 b)
    · refine ⟨hI.cnt.mh, hI.cnt.cid, ?_⟩
      have := hI.cnt.idx
      show fn + 0 ≤ n
      have i4' : fn ≤ s.m.ifileNum + (fixOrder order s.m.inext.keys).length := i4
      omega
  · refine ⟨hX.cfg, hX.bits, hX.imax, hX.pmax, ⟨first, sp', e1, l1⟩, ?_, ?_⟩
    · intro hk
      obtain ⟨pf, q1, q2, q3⟩ := hX.phdr hk
      obtain ⟨r1, r2⟩ := priFlush_from p1 (by rw [hI.kind]; exact hk) q2 q3
      exact ⟨pf, q1, r1, r2⟩
    · intro b rl hb
      cases hb

theorem flush_of_inv4 {c : Cfg} {U : List (Bytes × Bytes)} {s : SState} {spec : Spec} {n B : Nat}
    (hU : Univ c.kind U) (hI : Inv c U s spec n B) (hX : YInv c s)
    (hn : n < 1073741824) (hB : B < two31) (order : List Nat) :
    ∃ m' d', storeFlush s.m s.d (fixOrder order s.m.inext.keys) = some (m', d') ∧
      Inv c U ⟨s.cfg, m', d'⟩ spec n B ∧ YInv c ⟨s.cfg, m', d'⟩ ∧ m'.inext = [] := by
  by_cases hout : outstanding s.m = true
  · obtain ⟨m1, d1, m2, d2, p1, i1, hI2, hX2, hin, _, _, _, _, _, _⟩ :=
      flushBoth_inv4 hU hI hX hn hB order
    obtain ⟨fl, fr, f1⟩ := flFlush_shape m2 d2
    refine ⟨{ m2 with flpool := fl }, { d2 with free := fr }, ?_, hI2.frame_ff fl fr d2.snap,
      hX2.frame_ff fl fr d2.snap, hin⟩
    unfold storeFlush commit
    rw [if_pos hout]
    simp only [p1, i1, f1]
  · refine ⟨s.m, s.d, ?_, hI, hX, ?_⟩
    · unfold storeFlush; rw [if_neg hout]
    · unfold outstanding at hout
      simp only [Bool.or_eq_true, Bool.not_eq_true', not_or, Bool.not_eq_false] at hout
      exact List.isEmpty_iff.mp hout.1

end Sth
