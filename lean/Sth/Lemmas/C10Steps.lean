/-
C10 (byte level) — the intermediate directories of an upgrading OpenStore (`upgradeSteps`), one per
point where the code can be interrupted between two file-system operations (the verifhook points of
store/primary/multihash/upgrade.go, store/index/upgrade.go and remapIndex in store/index/index.go), and
what opening such a directory again does (`resumeCheck`).
Core Lean only.
-/
import Sth.Model.UpgradeBytes

namespace Sth

/-- the prefixes `l.take 1, l.take 2, …, l` -/
def prefixes {α : Type} (l : List α) : List (List α) := (List.range l.length).map fun k => l.take (k + 1)

/-- applyFreeList's data after each marked entry -/
def markSteps (data : Bytes) : List Nat → List Bytes
  | [] => []
  | off :: rest =>
    match markFreed data [off] with
    | none => []
    | some data' => data' :: markSteps data' rest

/-- one file of remapIndex in four stages: copied, rewritten, marker created, renamed -/
def remapFileSteps (remap : Nat → Option Nat) (imax : Nat) (bk : NMap Nat) (ud : UDir) (f : Nat) : List (String × UDir) :=
  match ud.disk.ifiles.get? f with
  | none => []
  | some file =>
    match remapFile remap imax bk f file with
    | none => []
    | some (file', _) =>
      [(s!"remap.copied {f}", { ud with tmp := ud.tmp.set f file }),
       (s!"remap.rewritten {f}", { ud with tmp := ud.tmp.set f file' }),
       (s!"remap.marker_created {f}", { ud with tmp := ud.tmp.set f file', marked := f :: ud.marked }),
       (s!"remap.renamed {f}", { ud with disk := { ud.disk with ifiles := ud.disk.ifiles.set f file' },
                                          marked := f :: ud.marked })]

/-- all files of remapIndex, ascending file numbers: the steps and the directory afterwards -/
def remapAllSteps (remap : Nat → Option Nat) (imax : Nat) (bk : NMap Nat) : UDir → List Nat → List (String × UDir) × UDir
  | ud, [] => ([], ud)
  | ud, f :: fs =>
    let steps := remapFileSteps remap imax bk ud f
    let ud' := match steps.getLast? with | some s => s.2 | none => ud
    let (rest, udF) := remapAllSteps remap imax bk ud' fs
    (steps ++ rest, udF)

/-- the directories an upgrading OpenStore (multihash primary, configuration `c`) goes through on the
    legacy directory `L`, each tagged with the point reached; the last one is the directory OpenStore
    returns with.  (Header writes go through a temporary file and a rename and are atomic; the writes of one
    numbered chunk file are taken as one step, since a partly written chunk is overwritten from scratch —
    O_TRUNC — like a missing one.) -/
def upgradeSteps (c : Cfg) (L : LegacyDir) : List (String × UDir) :=
  let pmax := if c.pfs = 0 then defaultMax else c.pfs
  let imax := if c.ifs = 0 then defaultMax else c.ifs
  let ud0 := UDir.ofLegacy L
  let d1 := openFreelist ud0.disk
  let ud1 : UDir := { ud0 with disk := d1 }
  let fl := d1.free.getD []
  -- ToGC: rename, then reopen
  let ud2 : UDir := { ud1 with disk := { d1 with free := none, freeGc := some fl } }
  let ud3 : UDir := { ud1 with disk := { d1 with free := some [], freeGc := some fl } }
  let marks := markSteps L.data (freeOffsets fl)
  let dataM := match marks.getLast? with | some x => x | none => L.data
  let udM (data : Bytes) : UDir := { ud3 with data := some data }
  let ud4 : UDir := { ud3 with data := some dataM, disk := { ud3.disk with freeGc := none } }
  let (recs, stray) := parseOldPrimary dataM (dataM.length + 1) 0 scratch0
  let pfl := if dataM.isEmpty then [] else chunkFiles pmax recs stray
  let udP (files : List Bytes) : UDir := { ud4 with disk := { ud4.disk with pfiles := setFiles [] 0 files } }
  let ud5 := udP pfl
  let ud6 : UDir := { ud5 with disk := { ud5.disk with phdr := some ⟨pmax, 0⟩ } }
  let ud7 : UDir := { ud6 with data := none }
  let ud8 : UDir := if (ud7.disk.pfiles.has (pfl.length - 1)) then ud7
    else { ud7 with disk := { ud7.disk with pfiles := ud7.disk.pfiles.set (pfl.length - 1) [] } }
  [("start", ud0), ("freelist.opened", ud1), ("freelist.togc.renamed", ud2), ("freelist.togc.reopened", ud3)] ++
  (marks.map fun d => ("upgrade.primary.fl.marked", udM d)) ++
  [("upgrade.primary.freelist_applied", ud4)] ++
  ((prefixes pfl).map fun fs => ("upgrade.primary.chunk_written", udP fs)) ++
  [("upgrade.primary.header_written", ud6), ("upgrade.primary.old_removed", ud7),
   ("primary.open.file_opened", ud8)] ++
  -- the index
  match readOldHeader L.index with
  | none => []
  | some (_, bits, start) =>
    match parseOldIndex L.index (L.index.length + 1) start with
    | none => []
    | some irecs =>
      let ifl := chunkFiles imax irecs []
      let udI (files : List Bytes) : UDir := { ud8 with disk := { ud8.disk with ifiles := setFiles [] 0 files } }
      let ud9 := udI ifl
      let h0 : IdxHeader := ⟨bits, imax, 0, 0⟩
      let ud10 : UDir := { ud9 with disk := { ud9.disk with ihdr := some h0 } }
      let ud11 : UDir := { ud10 with index := none }
      ((prefixes ifl).map fun fs => ("upgrade.index.chunk_written", udI fs)) ++
      [("upgrade.index.header_written", ud10), ("upgrade.index.old_removed", ud11)] ++
      match scanIndex (2 ^ bits) imax ud11.disk.ifiles 0 with
      | none => []
      | some (_, bk, last) =>
        let pfn := pfl.length - 1
        let sizes := primarySizes ud11.disk.pfiles (pfn + 1) 0
        let stamped (ud : UDir) : UDir := { ud with disk := { ud.disk with ihdr := some { h0 with pfs := pmax } } }
        if !needRemap pmax sizes then [("remap.header_written", stamped ud11)] else
        let files := bucketFiles imax bk
        let (steps, ud12) := remapAllSteps (remapOff 0 pmax sizes) imax bk ud11 files
        let ud13 := stamped ud12
        let ud14 : UDir := { ud13 with marked := ud13.marked.filter (!files.contains ·) }
        steps ++ [("remap.header_written", ud13), ("remap.markers_removed", ud14)] ++
        -- the removal pool (if any) is flushed by index.Open before it returns
        match openU c ud0 [] [] with
        | none => []
        | some (ud15, _) => if ud15 = ud14 then [] else [("index.open.pool_flushed", ud15)]

/-- what a directory holds apart from the store proper: legacy files still present, work files, markers -/
def UDir.leftovers (ud : UDir) : Bool × Bool × List Nat × List Nat := (ud.data.isSome, ud.index.isSome, ud.tmp.keys, ud.marked)

/-- for every intermediate directory: does opening it again succeed, and does it end in the same store
    directory and memory state as the uninterrupted upgrade?  (`leftovers` lists what else stays.) -/
def resumeCheck (c : Cfg) (L : LegacyDir) : List (String × Bool × Bool × (Bool × Bool × List Nat × List Nat)) :=
  let good := (openU c (UDir.ofLegacy L) [] []).map fun (ud, m) => (ud.disk, m.buckets, m.ifileNum, m.ilength, m.pfileNum, m.plength)
  (upgradeSteps c L).map fun (name, ud) =>
    match openU c ud [] [] with
    | none => (name, false, false, ud.leftovers)
    | some (ud', m) => (name, true, some (ud'.disk, m.buckets, m.ifileNum, m.ilength, m.pfileNum, m.plength) == good, ud'.leftovers)

end Sth

namespace Sth

/-! ### a directory whose upgrade is complete opens like any other -/

theorem cfg_mh_eta (c : Cfg) (hk : c.kind = .mh) : ({ c with kind := .mh } : Cfg) = c := by
  cases c
  simp only at hk
  subst hk
  rfl

theorem openPrimary_ihdr {c : Cfg} {d d1 : Disk} {pmax pfn plen : Nat}
    (h : openPrimary c d = .ok (d1, pmax, pfn, plen)) : d1.ihdr = d.ihdr := by
  unfold openPrimary at h
  dsimp only at h
  repeat' split at h
  all_goals cases h
  all_goals rfl

/-- Once both headers exist and the index header records the primary file size (remap done), OpenStore on
    the directory — whatever legacy primary, work files or markers were left behind by an interrupted
    upgrade — is the ordinary `openStoreR`; leftovers stay where they are. -/
theorem openU_plain (c : Cfg) (hk : c.kind = .mh) (ud : UDir) (order forder : List Nat)
    (hidx : ud.index = none) (ph : PriHeader) (hph : ud.disk.phdr = some ph)
    (ih : IdxHeader) (hih : ud.disk.ihdr = some ih) (hpfs : ih.pfs ≠ 0) :
    openU c ud order forder =
      match openStoreR c ud.disk with
      | (d', .ok m) => some ({ ud with disk := d' }, m)
      | (_, .error _) => none := by
  unfold openU openStoreR openStore
  simp only [hk, ne_eq, not_true_eq_false, if_false]
  have hph' : (openFreelist ud.disk).phdr = some ph := hph
  have hfree : ({ openFreelist ud.disk with free := some ((openFreelist ud.disk).free.getD []) } : Disk) =
      openFreelist ud.disk := rfl
  rw [hfree]
  unfold openPrimaryU
  simp only [hph', cfg_mh_eta c hk]
  by_cases hbig : (if c.pfs = 0 then defaultMax else c.pfs) > defaultMax
  · have : openPrimary c (openFreelist ud.disk) = .error .badConfig := by
      unfold openPrimary; simp only [hk]; rw [if_pos hbig]
    rw [if_pos hbig, this]
  · rw [if_neg hbig]
    cases hp : openPrimary c (openFreelist ud.disk) with
    | error e => rfl
    | ok r =>
      obtain ⟨d1, pmax, pfn, plen⟩ := r
      simp only
      have hih1 : d1.ihdr = some ih := by rw [openPrimary_ihdr hp]; exact hih
      unfold openIndexU
      by_cases hb : c.bits ≠ 0 ∧ (c.bits > 31 ∨ c.bits < 8)
      · have : openIndex c pmax d1 = .error .badConfig := by unfold openIndex; rw [if_pos hb]
        rw [if_pos hb, this]
      · rw [if_neg hb]
        by_cases hi : c.ifs > defaultMax
        · have : openIndex c pmax d1 = .error .badConfig := by unfold openIndex; rw [if_neg hb, if_pos hi]
          rw [if_pos hi, this]
        · rw [if_neg hi]
          unfold upgradeIndexU
          simp only [hidx, hih1, hpfs, if_false, cfg_mh_eta c hk]
          cases ho : openIndex c pmax d1 with
          | error e => rfl
          | ok r2 =>
            obtain ⟨d2, bits, imax, bk, last⟩ := r2
            simp only [List.isEmpty_nil, if_true, hk]

end Sth
