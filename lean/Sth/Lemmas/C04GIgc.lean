/-
C04 — the index GC step on the GC invariant (multihash primary).
Core Lean only.
-/
import Sth.Lemmas.C04GReopen

namespace Sth

section
variable {c : Cfg} {U : List (Bytes × Bytes)} {s : SState} {spec : Spec} {n B : Nat}

theorem step_igc_g (hG : GInv c U s spec n B) (hn : n < 1073741824)
    (scanFree : Bool) (budget : Budget) :
    ∃ g d', stepS s (.igc scanFree budget) = (⟨s.cfg, { s.m with gcResume := g }, d'⟩, .gc) ∧
      GInv c U ⟨s.cfg, { s.m with gcResume := g }, d'⟩ spec n B := by
  obtain ⟨first, sp, hih, hl⟩ := hG.y.ilog
  have hp1 : 1 ≤ s.m.imax := hG.i.imax
  have hN : s.m.ifileNum < two32 := by
    have := hG.cntI
    unfold two32; omega
  have hG0 : GI s.m s.d s.d c.bits c.ifs (hdrPfs c) :=
    ⟨⟨first, sp, hih, hl⟩, fun _ => rfl, hG.i.noFiles, rfl, rfl, rfl, rfl, rfl, rfl, rfl⟩
  obtain ⟨hGI, g, hm⟩ := indexGC_ok hp1 hN hG0 scanFree budget
  cases hr : indexGC s.m s.d scanFree budget with
  | mk r0 rest =>
  obtain ⟨m', d', bud⟩ := rest
  rw [hr] at hGI hm
  simp only at hGI hm
  subst hm
  obtain ⟨f1, f2, f3, f4, f5, f6⟩ := hGI.frame
  have hrec : ∀ b, idxRecords { s.m with gcResume := g } d' b = idxRecords s.m s.d b := by
    intro b
    have := hGI.reads b
    unfold tbl at this
    show (match s.m.inext.get? b with
      | some rl => Except.ok (some rl)
      | none => match s.m.icur.get? b with
        | some rl => Except.ok (some rl)
        | none => readDiskBucket d'.ifiles s.m.imax ((s.m.buckets.get? b).getD 0)) =
      (match s.m.inext.get? b with
      | some rl => Except.ok (some rl)
      | none => match s.m.icur.get? b with
        | some rl => Except.ok (some rl)
        | none => readDiskBucket s.d.ifiles s.m.imax ((s.m.buckets.get? b).getD 0))
    rw [this]
  have hpg : ∀ blk, priGet { s.m with gcResume := g } d' blk = priGet s.m s.d blk := by
    intro blk
    have : priGet { s.m with gcResume := g } d' blk = priGet s.m d' blk := rfl
    rw [this, priGet_congr_disk f1 f2]
  obtain ⟨first', sp', e1, e2⟩ := hGI.log
  refine ⟨g, d', by simp only [stepS, hr], ?_⟩
  refine { kmh := hG.kmh, kind := hG.kind, imm := hG.imm, bits8 := hG.bits8, bits31 := hG.bits31,
           a := hG.a.of_ent rfl rfl hrec (fun blk _ k v hg => by rw [hpg]; exact hg) (fun _ h => h),
           pmax1 := hG.pmax1, pmaxle := hG.pmaxle, recs := hG.recs, nextBelow := hG.nextBelow,
           alloc := hG.alloc, plen := ?_, pno := ?_, i := ?_, cntF := hG.cntF, cntI := hG.cntI,
           nodup := hG.nodup, w := hG.w, y := ?_, z := ?_ }
  · show (fileOf d'.pfiles s.m.pfileNum).length = s.m.plength
    rw [f1]; exact hG.plen
  · intro f hf
    show d'.pfiles.get? f = none
    rw [f1]; exact hG.pno f hf
  · refine ⟨hG.i.imax, ?_, ?_, hGI.noFiles, hG.i.sorted⟩
    · intro b rl hb
      have := hGI.reads b
      unfold tbl at this
      show readDiskBucket d'.ifiles s.m.imax ((s.m.buckets.get? b).getD 0) = _
      rw [this]
      exact hG.i.curDisk b rl hb
    · show (fileOf d'.ifiles s.m.ifileNum).length = s.m.ilength
      have : fileOf d'.ifiles s.m.ifileNum = fileOf s.d.ifiles s.m.ifileNum := by
        unfold fileOf; rw [hGI.last]
      rw [this]
      exact hG.i.len
  · refine ⟨hG.y.cfg, hG.y.bits, hG.y.imax, hG.y.pmax, ⟨first', sp', e1, e2.of_gcResume g⟩, ?_,
      hG.y.inextLt⟩
    intro hk
    obtain ⟨pf, q1, q2, q3⟩ := hG.y.phdr hk
    exact ⟨pf, by show d'.phdr = _; rw [f3]; exact q1, q2,
      fun f h1 h2 => by show d'.pfiles.get? f ≠ none; rw [f1]; exact q3 f h1 h2⟩
  · exact hG.z.frame hrec hpg rfl rfl rfl rfl (fun _ => Iff.rfl) f3 f1 f4 f5

end

end Sth
