/-
C10 (byte level) — the primary half of the upgrade on a well-framed legacy primary:
applyFreeList marks exactly the named records, chunkOldPrimary re-frames the same records (deleted
ones with scratch bytes as body), and every record that is not freed sits, whole and byte-identical,
in the numbered file and at the local offset `remapOffset` computes.
Core Lean only.
-/
import Sth.Lemmas.C10Defs
import Sth.Lemmas.C10Chunk
import Sth.Lemmas.StoreDisk

namespace Sth

/-! ### marked records -/

abbrev MRec := Bool × Bytes × Bytes

def msize (r : MRec) : Nat := r.2.1.length + r.2.2.length

def mrecBytes (r : MRec) : Bytes := le32 (msize r + (if r.1 then two31 else 0)) ++ (r.2.1 ++ r.2.2)

def mdata (l : List MRec) : Bytes := l.flatMap mrecBytes

theorem mrecBytes_length (r : MRec) : (mrecBytes r).length = 4 + msize r := by
  unfold mrecBytes msize le32
  simp [leEnc_length]

theorem mdata_cons (r : MRec) (l : List MRec) : mdata (r :: l) = mrecBytes r ++ mdata l := by
  simp [mdata]

theorem mdata_append (a b : List MRec) : mdata (a ++ b) = mdata a ++ mdata b := by
  simp [mdata]

theorem mdata_length (l : List MRec) : (mdata l).length = (l.map fun r => 4 + msize r).sum := by
  induction l with
  | nil => rfl
  | cons r l ih => rw [mdata_cons, List.length_append, mrecBytes_length, ih]; simp

theorem legacyPrimary_eq (recs : List (Bytes × Bytes)) :
    legacyPrimary recs = mdata (recs.map fun kv => (false, kv)) := by
  unfold legacyPrimary mdata mrecBytes msize
  rw [List.flatMap_map]
  congr 1

theorem length_le_mdata (l : List MRec) : l.length ≤ (mdata l).length := by
  rw [mdata_length]
  induction l with
  | nil => simp
  | cons r l ih => simp only [List.length_cons, List.map_cons, List.sum_cons]; omega

/-! ### small byte facts -/

theorem readAt_mid4 (pre a rest : Bytes) (ha : a.length = 4) : readAt (pre ++ (a ++ rest)) pre.length 4 = some a := by
  have := readAt_at_end pre a rest
  rw [ha, List.append_assoc] at this
  exact this

theorem writeAt_mid (pre a b rest : Bytes) (h : a.length = b.length) :
    writeAt (pre ++ (a ++ rest)) pre.length b = pre ++ (b ++ rest) := by
  unfold writeAt
  rw [List.take_left', List.append_assoc]
  · congr 2
    rw [← h, ← List.length_append, ← List.append_assoc, List.drop_left']
    rfl
  · rfl

theorem le32_length (n : Nat) : (le32 n).length = 4 := leEnc_length 4 n

theorem leDec_le32 (n : Nat) (h : n < two32) : leDec (le32 n) = n := by
  unfold le32; exact leDec_leEnc 4 n (by unfold two32 at h; omega)

/-! ### applyFreeList -/

def mark1 (l : List MRec) (i : Nat) : List MRec :=
  match l[i]? with
  | some r => l.take i ++ (true, r.2) :: l.drop (i + 1)
  | none => l

def markAll (l : List MRec) : List Nat → List MRec
  | [] => l
  | i :: is => markAll (mark1 l i) is

theorem mark1_payload (l : List MRec) (i : Nat) : (mark1 l i).map (·.2) = l.map (·.2) := by
  unfold mark1
  cases h : l[i]? with
  | none => rfl
  | some r =>
    simp only
    conv => rhs; rw [split_at h]
    simp

theorem markAll_payload (l : List MRec) (is : List Nat) : (markAll l is).map (·.2) = l.map (·.2) := by
  induction is generalizing l with
  | nil => rfl
  | cons i is ih => simp only [markAll]; rw [ih, mark1_payload]

theorem mark1_get_ne (l : List MRec) (i j : Nat) (h : j ≠ i) : (mark1 l i)[j]? = l[j]? := by
  unfold mark1
  cases hi : l[i]? with
  | none => rfl
  | some r =>
    simp only
    have hlt : i < l.length := (List.getElem?_eq_some_iff.mp hi).1
    by_cases hj : j < i
    · rw [List.getElem?_append_left (by simp; omega), List.getElem?_take_of_lt hj]
    · have hj' : i < j := by omega
      rw [List.getElem?_append_right (by simp; omega)]
      simp only [List.length_take, Nat.min_eq_left (Nat.le_of_lt hlt)]
      obtain ⟨k, rfl⟩ : ∃ k, j = i + 1 + k := ⟨j - i - 1, by omega⟩
      have : i + 1 + k - i = k + 1 := by omega
      rw [this, List.getElem?_cons_succ, List.getElem?_drop]

theorem markAll_get (l : List MRec) (is : List Nat) (j : Nat) (h : j ∉ is) : (markAll l is)[j]? = l[j]? := by
  induction is generalizing l with
  | nil => rfl
  | cons i is ih =>
    simp only [markAll]
    rw [ih _ (fun hm => h (List.mem_cons_of_mem _ hm)), mark1_get_ne _ _ _ (fun e => h (by simp [e]))]

/-- offset of record `i` -/
def offsetM (l : List MRec) (i : Nat) : Nat := ((l.take i).map fun r => 4 + msize r).sum

theorem offsetM_eq (l : List MRec) (i : Nat) : offsetM l i = (mdata (l.take i)).length := by
  rw [mdata_length]; rfl

theorem offsetM_payload {l l' : List MRec} (h : l'.map (·.2) = l.map (·.2)) (i : Nat) :
    offsetM l' i = offsetM l i := by
  unfold offsetM
  have e : ∀ x : List MRec, (x.map fun r => 4 + msize r) = (x.map (·.2)).map fun p => 4 + (p.1.length + p.2.length) := by
    intro x; rw [List.map_map]; rfl
  rw [e, e]
  simp only [List.map_take, h]

theorem markFreed_step (l : List MRec) (i : Nat) (r : MRec) (hi : l[i]? = some r) (hs : msize r < two31)
    (hlen : (mdata l).length < two64 / 2) (rest : List Nat) :
    markFreed (mdata l) (offsetM l i :: rest) = markFreed (mdata (mark1 l i)) rest := by
  have hsplit := split_at hi
  have hd : mdata l = mdata (l.take i) ++ (le32 (msize r + (if r.1 then two31 else 0)) ++
      ((r.2.1 ++ r.2.2) ++ mdata (l.drop (i + 1)))) := by
    conv => lhs; rw [hsplit]
    rw [mdata_append, mdata_cons]
    unfold mrecBytes
    simp [List.append_assoc]
  have hoff : offsetM l i = (mdata (l.take i)).length := offsetM_eq l i
  have hle : offsetM l i + 4 ≤ (mdata l).length := by
    rw [hoff, hd]; simp [le32_length]
  have hread : readAt (mdata l) (offsetM l i) 4 = some (le32 (msize r + (if r.1 then two31 else 0))) := by
    rw [hoff, hd]; exact readAt_mid4 _ _ _ (le32_length _)
  have hX : msize r + (if r.1 then two31 else 0) < two32 := by
    unfold two31 at hs; unfold two32 two31; split <;> omega
  rw [markFreed, if_neg (by omega), if_neg (by omega), hread]
  simp only [leDec_le32 _ hX]
  cases hm : r.1 with
  | true =>
    simp only [if_true]
    rw [if_pos (by omega)]
    have : mark1 l i = l := by
      unfold mark1; rw [hi]; simp only
      conv => rhs; rw [hsplit]
      congr 2
      cases r; simp only at hm; subst hm; rfl
    rw [this]
  | false =>
    simp only [Bool.false_eq_true, if_false, Nat.add_zero]
    rw [if_neg (by omega)]
    have : writeAt (mdata l) (offsetM l i) (le32 (msize r + two31)) = mdata (mark1 l i) := by
      rw [hoff, hd, hm]
      simp only [Bool.false_eq_true, if_false, Nat.add_zero]
      rw [writeAt_mid _ _ _ _ (by rw [le32_length, le32_length])]
      unfold mark1; rw [hi]; simp only
      rw [mdata_append, mdata_cons]
      unfold mrecBytes msize
      simp [List.append_assoc]
    rw [this]

theorem mark1_mdata_length (l : List MRec) (i : Nat) : (mdata (mark1 l i)).length = (mdata l).length := by
  rw [mdata_length, mdata_length]
  have e : ∀ x : List MRec, (x.map fun r => 4 + msize r) = (x.map (·.2)).map fun p => 4 + (p.1.length + p.2.length) := by
    intro x; rw [List.map_map]; rfl
  rw [e, e, mark1_payload]

theorem markFreed_all (l : List MRec) (hs : ∀ r ∈ l, msize r < two31) (hlen : (mdata l).length < two64 / 2)
    (is : List Nat) (hi : ∀ i ∈ is, i < l.length) :
    markFreed (mdata l) (is.map (offsetM l)) = some (mdata (markAll l is)) := by
  induction is generalizing l with
  | nil => rfl
  | cons i is ih =>
    have hlt := hi i (by simp)
    simp only [List.map_cons, markAll]
    rw [markFreed_step l i l[i] (List.getElem?_eq_getElem hlt) (hs _ (List.getElem_mem hlt)) hlen]
    have hp := mark1_payload l i
    have hmap : is.map (offsetM l) = is.map (offsetM (mark1 l i)) := by
      apply List.map_congr_left
      intro j _
      exact (offsetM_payload hp j).symm
    rw [hmap]
    apply ih
    · intro r hr
      have : r.2 ∈ (mark1 l i).map (·.2) := List.mem_map_of_mem hr
      rw [hp] at this
      obtain ⟨r', hr', he⟩ := List.mem_map.mp this
      have := hs r' hr'
      unfold msize at this ⊢
      rw [← he]; exact this
    · rw [mark1_mdata_length]; exact hlen
    · intro j hj
      have : (mark1 l i).length = l.length := by
        have := congrArg List.length hp
        simpa using this
      rw [this]
      exact hi j (List.mem_cons_of_mem _ hj)

/-! ### chunkOldPrimary, reading half -/

/-- the records chunkOldPrimary writes: deleted ones carry the scratch buffer's bytes -/
def outRecs : Bytes → List MRec → List Bytes
  | _, [] => []
  | s, r :: rest =>
    let s' := if msize r > s.length then List.replicate (msize r) 0 else s
    if r.1 then (le32 (msize r + two31) ++ s'.take (msize r)) :: outRecs s' rest
    else (le32 (msize r) ++ (r.2.1 ++ r.2.2)) :: outRecs ((r.2.1 ++ r.2.2) ++ s'.drop (msize r)) rest

theorem outRecs_lengths (s : Bytes) (l : List MRec) :
    (outRecs s l).map List.length = l.map fun r => 4 + msize r := by
  induction l generalizing s with
  | nil => rfl
  | cons r rest ih =>
    simp only [outRecs]
    split
    · simp only [List.map_cons, ih, List.length_append, le32_length, List.length_take]
      congr 1
      split
      · simp
      · rename_i h; simp at h; omega
    · simp only [List.map_cons, ih, List.length_append, le32_length]
      rfl

theorem outRecs_length (s : Bytes) (l : List MRec) : (outRecs s l).length = l.length := by
  have := congrArg List.length (outRecs_lengths s l)
  simpa using this

theorem outRecs_get (s : Bytes) (l : List MRec) (i : Nat) (r : MRec) (h : l[i]? = some r) (hm : r.1 = false) :
    (outRecs s l)[i]? = some (le32 (msize r) ++ (r.2.1 ++ r.2.2)) := by
  induction l generalizing s i with
  | nil => simp at h
  | cons x rest ih =>
    cases i with
    | zero =>
      simp only [List.getElem?_cons_zero, Option.some.injEq] at h
      subst h
      simp only [outRecs, hm, Bool.false_eq_true, if_false, List.getElem?_cons_zero]
    | succ j =>
      simp only [List.getElem?_cons_succ] at h
      simp only [outRecs]
      split <;> simp only [List.getElem?_cons_succ] <;> exact ih _ _ h

theorem parseOldPrimary_mdata (l : List MRec) (hs : ∀ r ∈ l, msize r < two31) :
    ∀ (pre : Bytes) (fuel : Nat) (s : Bytes), l.length < fuel →
      parseOldPrimary (pre ++ mdata l) fuel pre.length s = (outRecs s l, []) := by
  induction l with
  | nil =>
    intro pre fuel s hf
    obtain ⟨f, rfl⟩ : ∃ f, fuel = f + 1 := ⟨fuel - 1, by simp at hf; omega⟩
    have : readAt (pre ++ mdata []) pre.length 4 = none := by
      unfold readAt; simp [mdata]
    simp only [parseOldPrimary, this, outRecs]
  | cons r rest ih =>
    intro pre fuel s hf
    obtain ⟨f, rfl⟩ : ∃ f, fuel = f + 1 := ⟨fuel - 1, by simp at hf; omega⟩
    have hsr : msize r < two31 := hs r (by simp)
    have hX : msize r + (if r.1 then two31 else 0) < two32 := by
      unfold two31 at hsr; unfold two32 two31; split <;> omega
    have hd : pre ++ mdata (r :: rest) =
        pre ++ (le32 (msize r + (if r.1 then two31 else 0)) ++ ((r.2.1 ++ r.2.2) ++ mdata rest)) := by
      rw [mdata_cons]; unfold mrecBytes; simp [List.append_assoc]
    have hread : readAt (pre ++ mdata (r :: rest)) pre.length 4 =
        some (le32 (msize r + (if r.1 then two31 else 0))) := by
      rw [hd]; exact readAt_mid4 _ _ _ (le32_length _)
    have hnext : pre ++ mdata (r :: rest) = (pre ++ mrecBytes r) ++ mdata rest := by
      rw [mdata_cons, List.append_assoc]
    have hnl : (pre ++ mrecBytes r).length = pre.length + 4 + msize r := by
      rw [List.length_append, mrecBytes_length]; omega
    have hrec := ih (fun x hx => hs x (List.mem_cons_of_mem _ hx)) (pre ++ mrecBytes r) f
    simp only [parseOldPrimary, hread, leDec_le32 _ hX]
    cases hm : r.1 with
    | true =>
      simp only [if_true]
      have h1 : msize r + two31 ≥ two31 := by omega
      have h2 : msize r + two31 - two31 = msize r := by omega
      simp only [h1, decide_true, if_true, h2]
      rw [hnext, ← hnl, hrec _ (by simp at hf; omega)]
      simp only [outRecs, hm, if_true]
    | false =>
      simp only [Bool.false_eq_true, if_false, Nat.add_zero]
      have h1 : ¬ msize r ≥ two31 := by omega
      simp only [h1, decide_false, Bool.false_eq_true, if_false]
      have hbody : readAt (pre ++ mdata (r :: rest)) (pre.length + 4) (msize r) = some (r.2.1 ++ r.2.2) := by
        have e : pre ++ mdata (r :: rest) = (pre ++ le32 (msize r)) ++ (r.2.1 ++ r.2.2) ++ mdata rest := by
          rw [hd, hm]; simp [List.append_assoc]
        have := readAt_at_end (pre ++ le32 (msize r)) (r.2.1 ++ r.2.2) (mdata rest)
        rw [e]
        have e1 : (pre ++ le32 (msize r)).length = pre.length + 4 := by simp [le32_length]
        have e2 : (r.2.1 ++ r.2.2).length = msize r := by unfold msize; simp
        rw [e1, e2] at this
        exact this
      rw [hbody]
      simp only
      rw [hnext, ← hnl, hrec _ (by simp at hf; omega)]
      simp only [outRecs, hm, Bool.false_eq_true, if_false]

/-! ### the freelist file -/

theorem flOffsets_flatMap (blk : Nat → Block) (hoff : ∀ i, (blk i).off < two64) (l : List Nat) :
    ∀ (n : Nat), l.length ≤ n →
      flOffsets n (l.flatMap fun i => blockBytes (blk i)) = l.map fun i => (blk i).off := by
  induction l with
  | nil => intro n _; cases n <;> rfl
  | cons i l ih =>
    intro n hn
    obtain ⟨k, rfl⟩ : ∃ k, n = k + 1 := ⟨n - 1, by simp only [List.length_cons] at hn; omega⟩
    have h8 : (le64 (blk i).off).length = 8 := leEnc_length 8 _
    have h4 : (le32 (blk i).size).length = 4 := leEnc_length 4 _
    have hb : (blockBytes (blk i)).length = 12 := by
      unfold blockBytes; rw [List.length_append, h8, h4]
    have e1 : (blockBytes (blk i) ++ l.flatMap fun i => blockBytes (blk i)).take 8 = le64 (blk i).off := by
      unfold blockBytes
      rw [List.append_assoc, List.take_left' h8]
    have e2 : (blockBytes (blk i) ++ l.flatMap fun i => blockBytes (blk i)).drop 12 =
        l.flatMap fun i => blockBytes (blk i) := List.drop_left' hb
    have hlen : ¬ (blockBytes (blk i) ++ l.flatMap fun i => blockBytes (blk i)).length < 12 := by
      rw [List.length_append, hb]; omega
    simp only [List.flatMap_cons, flOffsets, List.map_cons]
    rw [if_neg hlen, e1, e2, ih k (by simp only [List.length_cons] at hn; omega)]
    rw [le64, leDec_leEnc 8 _ (hoff i)]

theorem flatMap_block_length (blk : Nat → Block) (l : List Nat) :
    (l.flatMap fun i => blockBytes (blk i)).length = 12 * l.length := by
  induction l with
  | nil => rfl
  | cons i l ih =>
    have h8 : (le64 (blk i).off).length = 8 := leEnc_length 8 _
    have h4 : (le32 (blk i).size).length = 4 := leEnc_length 4 _
    simp only [List.flatMap_cons, List.length_append, ih, List.length_cons]
    unfold blockBytes
    rw [List.length_append, h8, h4]; omega

theorem freeOffsets_flatMap (blk : Nat → Block) (hoff : ∀ i, (blk i).off < two64) (l : List Nat) :
    freeOffsets (l.flatMap fun i => blockBytes (blk i)) = l.map fun i => (blk i).off := by
  unfold freeOffsets
  rw [flatMap_block_length]
  exact flOffsets_flatMap blk hoff l _ (by omega)

theorem sum_map_le {α : Type} (f : α → Nat) (B : Nat) : ∀ (l : List α), (∀ x ∈ l, f x ≤ B) →
    (l.map f).sum ≤ l.length * B
  | [], _ => by simp
  | x :: l, h => by
    have := sum_map_le f B l (fun y hy => h y (List.mem_cons_of_mem _ hy))
    have := h x (by simp)
    simp only [List.map_cons, List.sum_cons, List.length_cons, Nat.add_mul]
    omega

/-! ### the legacy primary of abstract contents -/

namespace LegacyC

/-- the records with their marks after applyFreeList -/
def marked (C : LegacyC) : List MRec := markAll (C.recs.map fun kv => (false, kv)) (C.freed.getD [])

/-- the records chunkOldPrimary writes -/
def out (C : LegacyC) : List Bytes := outRecs scratch0 C.marked

/-- the numbered primary files -/
def pfilesL (C : LegacyC) (pmax : Nat) : List Bytes := chunkFiles pmax C.out []

theorem marked_payload (C : LegacyC) : C.marked.map (·.2) = C.recs := by
  unfold marked
  rw [markAll_payload, List.map_map]
  exact List.map_id _

theorem marked_length (C : LegacyC) : C.marked.length = C.recs.length := by
  have := congrArg List.length C.marked_payload
  simpa using this

theorem offsetM_marked (C : LegacyC) (i : Nat) : offsetM C.marked i = C.offsetOf i := by
  have h : C.marked.map (·.2) = (C.recs.map fun kv => ((false, kv) : MRec)).map (·.2) := by
    rw [marked_payload, List.map_map]; exact (List.map_id _).symm
  rw [offsetM_payload h]
  unfold offsetM offsetOf
  rw [← List.map_take, List.map_map]
  rfl

theorem offsetM0 (C : LegacyC) (i : Nat) :
    offsetM (C.recs.map fun kv => ((false, kv) : MRec)) i = C.offsetOf i := by
  unfold offsetM offsetOf
  rw [← List.map_take, List.map_map]
  rfl

theorem msize_marked (C : LegacyC) (hsz : ∀ kv ∈ C.recs, recSize kv < two31) :
    ∀ r ∈ C.marked, msize r < two31 := by
  intro r hr
  have : r.2 ∈ C.marked.map (·.2) := List.mem_map_of_mem hr
  rw [marked_payload] at this
  exact hsz _ this

theorem marked_get (C : LegacyC) (i : Nat) (kv : Bytes × Bytes) (h : C.recs[i]? = some kv)
    (hf : C.isFreed i = false) : C.marked[i]? = some (false, kv) := by
  unfold marked
  rw [markAll_get]
  · rw [List.getElem?_map, h]; rfl
  · unfold isFreed at hf
    cases hfr : C.freed with
    | none => simp
    | some l =>
      rw [hfr] at hf
      simp only [Option.getD_some]
      intro hm
      have : l.contains i = true := by simpa using hm
      simp only [this] at hf
      cases hf

theorem data_length (C : LegacyC) (hsz : ∀ kv ∈ C.recs, recSize kv < two31) :
    (legacyPrimary C.recs).length ≤ C.recs.length * (two31 + 4) := by
  rw [legacyPrimary_eq, mdata_length, List.map_map]
  have := sum_map_le (fun kv : Bytes × Bytes => 4 + recSize kv) (two31 + 4) C.recs (by
    intro kv hkv
    have := hsz kv hkv
    omega)
  exact this

theorem offsetOf_le (C : LegacyC) (i : Nat) : C.offsetOf i ≤ (legacyPrimary C.recs).length := by
  rw [legacyPrimary_eq, mdata_length, List.map_map]
  unfold offsetOf
  have : C.recs = C.recs.take i ++ C.recs.drop i := (List.take_append_drop i C.recs).symm
  conv => rhs; rw [this]
  rw [List.map_append, List.sum_append]
  have e : (List.map ((fun r : MRec => 4 + msize r) ∘ fun kv => (false, kv)) (C.recs.take i)) =
      (C.recs.take i).map fun kv => 4 + recSize kv := rfl
  rw [e]
  omega

theorem out_lengths (C : LegacyC) : C.out.map List.length = C.recs.map fun kv => 4 + recSize kv := by
  unfold out
  rw [outRecs_lengths]
  have : (C.marked.map fun r => 4 + msize r) = (C.marked.map (·.2)).map fun kv => 4 + recSize kv := by
    rw [List.map_map]; rfl
  rw [this, marked_payload]

theorem out_ne (C : LegacyC) : ∀ r ∈ C.out, r ≠ [] := by
  intro r hr h0
  have : r.length ∈ C.out.map List.length := List.mem_map_of_mem hr
  rw [out_lengths] at this
  obtain ⟨kv, _, he⟩ := List.mem_map.mp this
  rw [h0] at he
  simp at he

theorem out_take_bsize (C : LegacyC) (i : Nat) : bsize (C.out.take i) = C.offsetOf i := by
  unfold bsize offsetOf
  rw [List.map_take, out_lengths, ← List.map_take]

/-- every record that is not freed sits whole in one numbered file, and `remapOffset` (over the sizes of
    the files) sends its linear offset there -/
theorem record_at (C : LegacyC) (pmax : Nat) (hp : 1 ≤ pmax) (i : Nat) (kv : Bytes × Bytes)
    (h : C.recs[i]? = some kv) (hf : C.isFreed i = false) :
    ∃ n F g, (C.pfilesL pmax)[n]? = some (F ++ recBytes ⟨C.blockOf i, kv.1, kv.2⟩ ++ g) ∧
      F.length < pmax ∧
      remapOffset 0 pmax ((C.pfilesL pmax).map List.length) (C.offsetOf i) = some (pmax * n + F.length) := by
  have hr : C.out[i]? = some (le32 (recSize kv) ++ (kv.1 ++ kv.2)) := by
    have := outRecs_get scratch0 C.marked i (false, kv) (C.marked_get i kv h hf) rfl
    exact this
  have hflat := chunk_flatten pmax C.out
  have hshape := (chunk_shape pmax hp C.out C.out_ne).2.2
  have hne' : ∀ c ∈ chunk pmax C.out, ∀ r ∈ c, r ≠ [] := by
    intro c hc r hr
    apply C.out_ne
    rw [← hflat]
    exact List.mem_flatten.2 ⟨c, hc, hr⟩
  obtain ⟨n, c, F, g, h0, h1, h2, h3⟩ := remap_chunks_split pmax (chunk pmax C.out) hshape 0 i _
    (by rw [hflat]; exact hr) (by simp [le32_length]; omega) hne'
  refine ⟨n, F, g, ?_, h2, ?_⟩
  · unfold pfilesL
    rw [chunkFiles_get pmax C.out n c h0, h1]
    unfold recBytes
    simp only [List.append_assoc]
    rfl
  · unfold pfilesL
    rw [remapOffset_chunkFiles]
    rw [hflat, C.out_take_bsize, Nat.zero_add] at h3
    exact h3

end LegacyC

end Sth
