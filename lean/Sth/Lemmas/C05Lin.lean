/-
C05 — the ghost linearization log of the section-level concurrency model, and the proof that it is a legal
sequential history whose results are the results the calls return.

  * `stepL` / `runL`  : `run` instrumented with the log `List (thread × Op × Res)`; a call is appended by the
                        section that is its linearization point (`linPoint`, Sth/Lemmas/C05.lean).
  * `pending s t`     : the result of a call that is linearized but has not returned yet (a function of the
                        program counter and of the append-only primary).
  * `LinInv`          : per thread, the log restricted to the thread = (calls returned, with the results in
                        `out`) ++ (the pending call); the calls are the prefix of the thread's program.
  * `Good`            : the bundled invariant; `good_runL` : it holds along every schedule without overlap.
-/
import Sth.Lemmas.C05

namespace Sth.Conc

abbrev Log := List (Nat × Op × Res)

/-- the entry (if any) the next section of thread `i` appends to the log -/
def linEntry (s : State) (i : Nat) : Log :=
  match linPoint s i with
  | some e => [(i, e)]
  | none => []

/-- one scheduling step of the instrumented run -/
def stepL (sl : State × Log) (i : Nat) : State × Log :=
  match step sl.1 i with
  | none => sl
  | some s' => (s', sl.2 ++ linEntry sl.1 i)

def runLFrom (sl : State × Log) (sched : List Nat) : State × Log := sched.foldl stepL sl

/-- the instrumented run: final state and ghost linearization log -/
def runL (s : State) (sched : List Nat) : State × Log := runLFrom (s, []) sched

theorem stepL_fst (sl : State × Log) (i : Nat) : (stepL sl i).1 = stepD sl.1 i := by
  unfold stepL stepD
  cases step sl.1 i <;> rfl

theorem runLFrom_fst (sl : State × Log) (sched : List Nat) : (runLFrom sl sched).1 = run sl.1 sched := by
  induction sched generalizing sl with
  | nil => rfl
  | cons i r ih =>
    show (runLFrom (stepL sl i) r).1 = run (stepD sl.1 i) r
    rw [ih, stepL_fst]

/-- the instrumentation does not change the run -/
theorem runL_fst (s : State) (sched : List Nat) : (runL s sched).1 = run s sched := runLFrom_fst _ _

theorem runLFrom_append (sl : State × Log) (a b : List Nat) :
    runLFrom sl (a ++ b) = runLFrom (runLFrom sl a) b := by
  simp [runLFrom, List.foldl_append]

/-- the log only grows -/
theorem stepL_log_prefix (sl : State × Log) (i : Nat) : sl.2 <+: (stepL sl i).2 := by
  unfold stepL
  cases step sl.1 i with
  | none => exact List.prefix_refl _
  | some s' => exact List.prefix_append _ _

theorem runLFrom_log_prefix (sl : State × Log) (sched : List Nat) : sl.2 <+: (runLFrom sl sched).2 := by
  induction sched generalizing sl with
  | nil => exact List.prefix_refl _
  | cons i r ih => exact (stepL_log_prefix sl i).trans (ih _)

/-- the log of thread `i` : its calls with their results, in linearization order -/
def logOf (i : Nat) (log : Log) : List (Op × Res) := (log.filter (·.1 = i)).map (·.2)

theorem logOf_append (i : Nat) (a b : Log) : logOf i (a ++ b) = logOf i a ++ logOf i b := by
  simp [logOf]

theorem logOf_linEntry_self (s : State) (i : Nat) : logOf i (linEntry s i) = (linPoint s i).toList := by
  unfold linEntry logOf
  cases linPoint s i <;> simp

theorem logOf_linEntry_ne (s : State) {i j : Nat} (h : j ≠ i) : logOf j (linEntry s i) = [] := by
  unfold linEntry logOf
  cases linPoint s i with
  | none => simp
  | some e => simp; exact fun e' => h e'.symm

/-! ### the pending result of a linearized call -/

theorem readRes_append {pri : List (Key × Val)} {loc : Nat} (h : loc < pri.length) (op : Op) (x : List (Key × Val)) :
    readRes (pri ++ x) op loc = readRes pri op loc := by
  unfold readRes; rw [getElem?_append_stable h]

def pendingOf (imm : Bool) (pri : List (Key × Val)) (t : Thread) : Option Res :=
  match t.pc with
  | .putLooked _ v (some loc) =>
    if imm then some .keyExists else if pri[loc]?.map (·.2) = some v then some .ok else none
  | .putIndexed _ _ => some .ok
  | .readLooked op loc => some (readRes pri op loc)
  | .rmIndexed _ _ removed => some (.bool removed)
  | _ => none

/-- the result of the call of `t` that has been linearized and has not returned yet -/
def pending (s : State) (t : Thread) : Option Res := pendingOf s.imm s.pri t

theorem pendingOf_append {imm : Bool} {pri : List (Key × Val)} {t : Thread} (h : TWF imm pri t)
    (x : List (Key × Val)) : pendingOf imm (pri ++ x) t = pendingOf imm pri t := by
  unfold pendingOf
  unfold TWF at h
  split
  · rename_i k v loc hpc
    simp only [hpc] at h
    rw [getElem?_append_stable (h.2 loc rfl).lt]
  · rfl
  · rename_i op loc hpc
    simp only [hpc] at h
    rw [readRes_append h.2.2]
  · rfl
  · rfl

theorem pending_idle {s : State} {t : Thread} (h : t.pc = .idle) : pending s t = none := by
  simp [pending, pendingOf, h]

/-- the calls of the thread's program that are not linearized yet -/
def rem (s : State) (t : Thread) : List Op := if (pending s t).isSome then t.prog.tail else t.prog

theorem sec_globals {s s' : State} {i : Nat} {t : Thread} (h : Sec s i t s') :
    s'.imm = s.imm ∧ (∃ x, s'.pri = s.pri ++ x) ∧ ∃ t', s'.threads = s.threads.set i t' := by
  cases h with
  | putStore k v prev hpc => exact ⟨rfl, ⟨_, rfl⟩, _, rfl⟩
  | rmFree k loc removed hpc => cases removed <;> exact ⟨rfl, app_nil_ex _, _, rfl⟩
  | _ => exact ⟨rfl, app_nil_ex _, _, rfl⟩

theorem pending_frame {s s' : State} {i : Nat} {t u : Thread} (h : Sec s i t s') (hu : TWF s.imm s.pri u) :
    pending s' u = pending s u := by
  obtain ⟨himm, ⟨x, hx⟩, _⟩ := sec_globals h
  unfold pending
  rw [himm, hx, pendingOf_append hu]

/-- what one section does to the ghost bookkeeping of its own thread -/
theorem lin_own {s s' : State} {i : Nat} {t : Thread} (hT : TWF s.imm s.pri t) (h : Sec s i t s') :
    ∃ t', s'.threads = s.threads.set i t' ∧
      rem s t = ((linOf s t).map (·.1)).toList ++ rem s' t' ∧
      t'.out ++ (pending s' t').toList = t.out ++ (pending s t).toList ++ ((linOf s t).map (·.2)).toList := by
  cases h with
  | putLook k v rest hpc hp =>
    refine ⟨_, rfl, ?_, ?_⟩
    · simp only [rem, pending, pendingOf, hpc, linOf, hp, setThread_imm, setThread_pri]
      cases lookup s.idx k with
      | none => simp
      | some loc =>
        simp only []
        cases s.imm
        · by_cases hv : s.pri[loc]?.map (·.2) = some v <;> simp [hv]
        · simp
    · simp only [pending, pendingOf, hpc, linOf, hp, setThread_imm, setThread_pri]
      cases lookup s.idx k with
      | none => simp
      | some loc =>
        simp only []
        cases s.imm
        · by_cases hv : s.pri[loc]?.map (·.2) = some v <;> simp [hv]
        · simp
  | rmAbsent k rest hpc hp hl =>
    refine ⟨_, rfl, ?_, ?_⟩ <;> simp [rem, pending, pendingOf, hpc, linOf, hp, hl, ret]
  | rmLook k rest loc hpc hp hl =>
    refine ⟨_, rfl, ?_, ?_⟩ <;> simp [rem, pending, pendingOf, hpc, linOf, hp, hl]
  | readAbsent op k rest hpc hp hk hl =>
    refine ⟨_, rfl, ?_, ?_⟩ <;> simp [rem, pending, pendingOf, hpc, linOf_idle_read hpc hp hk, hp, hl, ret]
  | readLook op k rest loc hpc hp hk hl =>
    refine ⟨_, rfl, ?_, ?_⟩ <;> simp [rem, pending, pendingOf, hpc, linOf_idle_read hpc hp hk, hp, hl]
  | putKeyExists k v loc hpc himm =>
    refine ⟨_, rfl, ?_, ?_⟩ <;> simp [rem, pending, pendingOf, hpc, linOf, himm, ret]
  | putSame k v loc hpc himm hv =>
    refine ⟨_, rfl, ?_, ?_⟩ <;> simp [rem, pending, pendingOf, hpc, linOf, himm, hv, ret]
  | putReadNew k v hpc =>
    refine ⟨_, rfl, ?_, ?_⟩ <;> simp [rem, pending, pendingOf, hpc, linOf]
  | putReadUpd k v loc hpc himm hv =>
    refine ⟨_, rfl, ?_, ?_⟩ <;> simp [rem, pending, pendingOf, hpc, linOf, himm, hv]
  | putStore k v prev hpc =>
    refine ⟨_, rfl, ?_, ?_⟩ <;> simp [rem, pending, pendingOf, hpc, linOf]
  | putIndexNew k v loc hpc =>
    simp only [TWF, hpc] at hT
    obtain ⟨rest, hp⟩ := hT.1
    refine ⟨_, rfl, ?_, ?_⟩ <;> simp [rem, pending, pendingOf, hpc, linOf, hp, ret]
  | putIndexUpd k v p loc hpc hl =>
    simp only [TWF, hpc] at hT
    obtain ⟨rest, hp⟩ := hT.1
    refine ⟨_, rfl, ?_, ?_⟩ <;> simp [rem, pending, pendingOf, hpc, linOf, hp, hl]
  | putIndexErr k v p loc hpc hl =>
    simp only [TWF, hpc] at hT
    obtain ⟨rest, hp⟩ := hT.1
    refine ⟨_, rfl, ?_, ?_⟩ <;> simp [rem, pending, pendingOf, hpc, linOf, hp, hl, ret]
  | putFree k p hpc =>
    refine ⟨_, rfl, ?_, ?_⟩ <;> simp [rem, pending, pendingOf, hpc, linOf, ret]
  | readDone op loc hpc =>
    refine ⟨_, rfl, ?_, ?_⟩ <;> simp [rem, pending, pendingOf, hpc, linOf, ret]
  | rmReadS k loc hpc =>
    refine ⟨_, rfl, ?_, ?_⟩ <;> simp [rem, pending, pendingOf, hpc, linOf]
  | rmIndex k loc hpc =>
    simp only [TWF, hpc] at hT
    obtain ⟨rest, hp⟩ := hT.1
    refine ⟨_, rfl, ?_, ?_⟩ <;> simp [rem, pending, pendingOf, hpc, linOf, hp]
  | rmFree k loc removed hpc =>
    cases removed <;> (refine ⟨_, rfl, ?_, ?_⟩ <;> simp [rem, pending, pendingOf, hpc, linOf, ret])

/-! ### the ghost invariant -/

/-- per thread: the log restricted to the thread lists the calls of the thread's program in order (everything
    before the calls not yet linearized), with the results the calls returned (`out`) followed by the result
    of the call that is linearized and still running -/
def LinInv (progs : List (List Op)) (s : State) (log : Log) : Prop :=
  ∀ (i : Nat) (t : Thread), s.threads[i]? = some t → ∃ p, progs[i]? = some p ∧
    (logOf i log).map (·.1) ++ rem s t = p ∧ (logOf i log).map (·.2) = t.out ++ (pending s t).toList

theorem set_get_cases {α} {l : List α} {i j : Nat} {a u : α} (h : (l.set i a)[j]? = some u) :
    (j = i ∧ u = a) ∨ (j ≠ i ∧ l[j]? = some u) := by
  simp only [List.getElem?_set] at h
  by_cases hij : i = j
  · subst hij
    simp only [if_true] at h
    split at h
    · left; exact ⟨rfl, by simpa using h.symm⟩
    · simp at h
  · simp only [hij, if_false] at h
    right; exact ⟨fun e => hij e.symm, h⟩

theorem lin_step {progs : List (List Op)} {s s' : State} {log : Log} {i : Nat} (h0 : Inv0 s)
    (hl : LinInv progs s log) (h : step s i = some s') : LinInv progs s' (log ++ linEntry s i) := by
  obtain ⟨t, ht, hsec⟩ := step_sec h
  obtain ⟨t', hthr, h1, h2⟩ := lin_own (h0.thr i t ht) hsec
  have hlp : linPoint s i = linOf s t := by simp [linPoint, ht]
  intro j u hu
  rw [hthr] at hu
  rcases set_get_cases hu with ⟨rfl, rfl⟩ | ⟨hji, hu⟩
  · obtain ⟨p, hp, ho, hr⟩ := hl j t ht
    refine ⟨p, hp, ?_, ?_⟩
    · rw [logOf_append, logOf_linEntry_self, hlp, List.map_append, List.append_assoc, ← ho, h1]
      congr 2
      cases linOf s t <;> rfl
    · rw [logOf_append, logOf_linEntry_self, hlp, List.map_append, hr, h2]
      congr 1
      cases linOf s t <;> rfl
  · obtain ⟨p, hp, ho, hr⟩ := hl j u hu
    have hpe := pending_frame hsec (h0.thr j u hu)
    refine ⟨p, hp, ?_, ?_⟩
    · rw [logOf_append, logOf_linEntry_ne s hji, List.append_nil]
      unfold rem at ho ⊢; rw [hpe]; exact ho
    · rw [logOf_append, logOf_linEntry_ne s hji, List.append_nil, hpe]; exact hr

/-- the bundled invariant of the instrumented run started from contents `m0` with programs `progs` -/
structure Good (progs : List (List Op)) (m0 : Key → Option Val) (s : State) (log : Log) : Prop where
  inv0 : Inv0 s
  acc : Acc s
  lin : LinInv progs s log
  spec : specRun s.imm m0 (log.map (·.2.1)) = (contents s, log.map (·.2.2))

theorem sec_imm {s s' : State} {i : Nat} {t : Thread} (h : Sec s i t s') : s'.imm = s.imm := (sec_globals h).1

theorem good_stepL {progs : List (List Op)} {m0 : Key → Option Val} {s : State} {log : Log}
    (hg : Good progs m0 s log) (hno : NoOverlap s) (i : Nat) :
    Good progs m0 (stepL (s, log) i).1 (stepL (s, log) i).2 := by
  unfold stepL
  cases h : step s i with
  | none => exact hg
  | some s' =>
    obtain ⟨t, ht, hsec⟩ := step_sec h
    refine ⟨inv0_step hg.inv0 h, acc_sec hg.acc hno ht hsec, lin_step hg.inv0 hg.lin h, ?_⟩
    have hsim := sim_sec hg.inv0 hg.acc ht hsec
    have hlp : linPoint s i = linOf s t := by simp [linPoint, ht]
    show specRun s'.imm m0 ((log ++ linEntry s i).map (·.2.1)) = (contents s', (log ++ linEntry s i).map (·.2.2))
    rw [List.map_append, List.map_append, specRun_append, sec_imm hsec, hg.spec]
    unfold linEntry
    rw [hlp]
    cases hlo : linOf s t with
    | none =>
      rw [hlo] at hsim
      simp only [] at hsim
      simp [specRun, hsim]
    | some e =>
      rw [hlo] at hsim
      simp only [] at hsim
      simp [specRun, hsim]

theorem good_runLFrom {progs : List (List Op)} {m0 : Key → Option Val} {s : State} {log : Log}
    (hg : Good progs m0 s log) (sched : List Nat) (hno : NoOverlapAlong s sched) :
    Good progs m0 (runLFrom (s, log) sched).1 (runLFrom (s, log) sched).2 := by
  induction sched generalizing s log with
  | nil => exact hg
  | cons i r ih =>
    show Good progs m0 (runLFrom (stepL (s, log) i) r).1 (runLFrom (stepL (s, log) i) r).2
    have hg' := good_stepL hg hno.1 i
    have hno' : NoOverlapAlong (stepL (s, log) i).1 r := by rw [stepL_fst]; exact hno.2
    exact ih hg' hno'

/-- initial states: a well-formed index over the primary, every thread idle with nothing returned yet -/
structure Init (s : State) : Prop where
  wf : WF s
  idle : ∀ t ∈ s.threads, t.pc = .idle ∧ t.out = []

theorem Init.inv0 {s : State} (h : Init s) : Inv0 s := by
  refine ⟨h.wf, fun i t ht => ?_⟩
  have := (h.idle t (List.mem_of_getElem? ht)).1
  simp [TWF, this]

theorem Init.acc {s : State} (h : Init s) : Acc s := by
  intro i t ht
  have := (h.idle t (List.mem_of_getElem? ht)).1
  simp [TAcc, this]

theorem Init.good {s : State} (h : Init s) : Good (s.threads.map (·.prog)) (contents s) s [] := by
  refine ⟨h.inv0, h.acc, ?_, rfl⟩
  intro i t ht
  obtain ⟨hpc, hout⟩ := h.idle t (List.mem_of_getElem? ht)
  refine ⟨t.prog, by simp [ht], ?_, ?_⟩
  · simp [logOf, rem, pending_idle hpc]
  · simp [logOf, pending_idle hpc, hout]

theorem init_Init (imm : Bool) (progs : List (List Op)) : Init (init imm progs) := by
  refine ⟨⟨fun k loc hm => by simp [init] at hm, by simp [init]⟩, ?_⟩
  intro t ht
  simp only [init, List.mem_map] at ht
  obtain ⟨p, _, rfl⟩ := ht
  exact ⟨rfl, rfl⟩

/-! ### programs: what has returned is a prefix of the original program -/

theorem stepD_imm (s : State) (i : Nat) : (stepD s i).imm = s.imm := by
  unfold stepD
  cases h : step s i with
  | none => rfl
  | some s' => obtain ⟨t, _, hsec⟩ := step_sec h; exact sec_imm hsec

theorem run_imm (s : State) (sched : List Nat) : (run s sched).imm = s.imm := by
  induction sched generalizing s with
  | nil => rfl
  | cons i r ih => rw [run_cons, ih, stepD_imm]

theorem prog_own {s s' : State} {i : Nat} {t : Thread} (h : Sec s i t s') :
    ∃ t', s'.threads = s.threads.set i t' ∧
      ((t'.prog = t.prog ∧ t'.out = t.out ∧ t'.pc ≠ .idle) ∨
       (∃ r, t'.prog = t.prog.tail ∧ t'.out = t.out ++ [r] ∧ t'.pc = .idle)) := by
  cases h with
  | rmFree k loc removed hpc => cases removed <;> exact ⟨_, rfl, Or.inr ⟨_, rfl, rfl, rfl⟩⟩
  | putLook | rmLook | readLook | putReadNew | putReadUpd | putStore | putIndexUpd | rmReadS | rmIndex =>
    exact ⟨_, rfl, Or.inl ⟨rfl, rfl, by simp⟩⟩
  | _ => exact ⟨_, rfl, Or.inr ⟨_, rfl, rfl, rfl⟩⟩

/-- every thread's remaining program is the original program minus the calls that returned -/
def ProgInv (progs : List (List Op)) (s : State) : Prop :=
  s.threads.length = progs.length ∧
  ∀ (i : Nat) (t : Thread), s.threads[i]? = some t → ∃ p, progs[i]? = some p ∧ t.prog = p.drop t.out.length

theorem progInv_step {progs : List (List Op)} {s s' : State} {i : Nat} (hp : ProgInv progs s)
    (h : step s i = some s') : ProgInv progs s' := by
  obtain ⟨t, ht, hsec⟩ := step_sec h
  obtain ⟨t', hthr, hcase⟩ := prog_own hsec
  refine ⟨by rw [hthr, List.length_set]; exact hp.1, ?_⟩
  intro j u hu
  rw [hthr] at hu
  rcases set_get_cases hu with ⟨rfl, rfl⟩ | ⟨_, hu⟩
  · obtain ⟨p, hpp, hd⟩ := hp.2 j t ht
    refine ⟨p, hpp, ?_⟩
    rcases hcase with ⟨h1, h2, _⟩ | ⟨r, h1, h2, _⟩
    · rw [h1, h2]; exact hd
    · rw [h1, h2, hd, List.tail_drop]; simp
  · exact hp.2 j u hu

theorem progInv_stepD {progs : List (List Op)} {s : State} (hp : ProgInv progs s) (i : Nat) :
    ProgInv progs (stepD s i) := by
  unfold stepD
  cases h : step s i with
  | none => exact hp
  | some s' => exact progInv_step hp h

theorem progInv_run {progs : List (List Op)} {s : State} (hp : ProgInv progs s) (sched : List Nat) :
    ProgInv progs (run s sched) := by
  induction sched generalizing s with
  | nil => exact hp
  | cons i r ih => rw [run_cons]; exact ih (progInv_stepD hp i)

theorem Init.progInv {s : State} (h : Init s) : ProgInv (s.threads.map (·.prog)) s := by
  refine ⟨by simp, fun i t ht => ⟨t.prog, by simp [ht], ?_⟩⟩
  simp [(h.idle t (List.mem_of_getElem? ht)).2]

/-- a pending result exists only while the call is running -/
theorem pending_isSome_not_idle {s : State} {t : Thread} (h : (pending s t).isSome = true) : t.pc ≠ .idle := by
  intro hpc; rw [pending_idle hpc] at h; simp at h

/-- the consequences of `LinInv` for one thread, in the form used by the property statement -/
theorem LinInv.facts {progs : List (List Op)} {s : State} {log : Log} (hl : LinInv progs s log)
    {i : Nat} {t : Thread} (ht : s.threads[i]? = some t) :
    ∃ p, progs[i]? = some p ∧
      (logOf i log).map (·.1) = p.take (logOf i log).length ∧
      t.out.length ≤ (logOf i log).length ∧
      (logOf i log).length ≤ t.out.length + (if t.pc = .idle then 0 else 1) ∧
      t.out = ((logOf i log).map (·.2)).take t.out.length ∧
      (t.pc = .idle → t.out = (logOf i log).map (·.2)) := by
  obtain ⟨p, hp, ho, hr⟩ := hl i t ht
  have hlen : (logOf i log).length = t.out.length + (pending s t).toList.length := by
    have := congrArg List.length hr
    simpa using this
  refine ⟨p, hp, ?_, by omega, ?_, ?_, ?_⟩
  · rw [← ho]
    have : (logOf i log).length = ((logOf i log).map (·.1)).length := by simp
    rw [this, List.take_left']
    rfl
  · by_cases hpc : t.pc = .idle
    · simp [hlen, pending_idle hpc]
    · simp only [hpc, if_false]
      rw [hlen]
      cases pending s t <;> simp
  · rw [hr, List.take_left']; rfl
  · intro hpc; rw [hr, pending_idle hpc]; simp

end Sth.Conc
