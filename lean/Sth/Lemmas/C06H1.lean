import Sth.Lemmas.C06W3

/-!
C06 — the hand-over windows of primary GC (hook points `primary.gc.tgc_done`, `primary.gc.flushed`), part 1:
applying the hand-over file in a state in which other threads have pooled new records.

`delStep_f` / `delFold_f` (C11) and `freelistPass_g` (C04) apply the entries right after the collector's
own flush, when no record is pooled.  With calls of other threads between the flush and the apply, records
ARE pooled; what the apply needs is only that no pooled record starts at the offset of an applied entry
(`NotPooled`) — then every entry names a location of the files on disk.  `delStep_w` is `delStep_f` with
that hypothesis (same proof; the hypothesis is used in one place).  Core Lean only.
-/

namespace Sth.C06W

open Sth.C11 Sth.C13H Sth.C13X

/-- no pooled record starts at the offset of `fb` -/
def NotPooled (m : Mem) (fb : Block) : Prop := ∀ r ∈ m.pnext, r.blk.off ≠ fb.off

section
variable {c : Cfg} {U : List (Bytes × Bytes)} {cfg : Cfg} {m : Mem} {d : Disk} {spec : Spec}
  {n B : Nat} {pf : Nat} {psp : Nat → List GSpan}

/-- applying one freelist entry that names no pooled record, with its exact effect on the record spans -/
theorem delStep_w (hS : GState c U cfg m d spec n B pf psp) (hn : n < 1073741824)
    {fb : Block} (hnp : NotPooled m fb) (hfb : FreeOK m d pf psp fb) (aff : List Nat) :
    ∃ psp', GState c U cfg m { d with pfiles := (delStep m.pmax (d.pfiles, aff) fb).1 } spec n B pf psp' ∧
      Kills m pf (fun b => b = fb) psp psp' (delStep m.pmax (d.pfiles, aff) fb).2 ∧
      (∀ g ∈ aff, g ∈ (delStep m.pmax (d.pfiles, aff) fb).2) := by
  have hG := hS.g
  have hk : m.kind = .mh := hG.kind
  have hp : 1 ≤ m.pmax := hG.pmax1
  obtain ⟨q1, q2, q3, q4, q5⟩ := hfb
  rcases q3 with ⟨r, hr, hro⟩ | ⟨f, lp, e1, e2, q⟩
  · exact absurd hro (hnp r hr)
  have hf32 : f < two32 := by
    unfold Below at q1
    simp only [hk] at q1
    obtain ⟨f', lp', x1, x2, x3⟩ := q1
    obtain ⟨rfl, rfl⟩ := divmod_unique (by rw [← e1, ← x1]) e2 x2
    have : m.precFileNum ≤ n := hG.cntF
    unfold two32
    rcases x3 with x3 | ⟨x3, _⟩ <;> omega
  have hloc : localizePri m.pmax fb.off = (lp, f) := by rw [e1]; exact localizePri_eq hp e2 hf32
  -- a record span named by `fb` lies in file `f` at `lp`
  have hnamed : ∀ g x, pf ≤ g → g ≤ m.pfileNum → x ∈ liveAt 0 (psp g) →
      (⟨m.pmax * g + x.1, x.2.length⟩ : Block) = fb → g = f ∧ x.1 = lp ∧ x.2.length = fb.size := by
    intro g x g1 g2 hx hb
    have hoff : m.pmax * g + x.1 = m.pmax * f + lp := by rw [← e1, ← hb]
    have := divmod_unique hoff (hS.log.starts g g1 g2 x hx) e2
    exact ⟨this.1, this.2, by rw [← hb]⟩
  -- the cases in which nothing changes
  have hsame : (∀ g x, pf ≤ g → g ≤ m.pfileNum → x ∈ liveAt 0 (psp g) →
        ¬ ((⟨m.pmax * g + x.1, x.2.length⟩ : Block) = fb)) →
      ∃ psp', GState c U cfg m { d with pfiles := d.pfiles } spec n B pf psp' ∧
        Kills m pf (fun b => b = fb) psp psp' aff ∧ (∀ g ∈ aff, g ∈ aff) :=
    fun h => ⟨psp, hS, Kills.refl h, fun _ h => h⟩
  unfold delStep
  simp only [hloc]
  rcases q with q | ⟨g1, g2, q⟩
  · -- the file has been unlinked
    rw [hS.log.gone f q]
    apply hsame
    intro g x k1 k2 hx hb
    have := (hnamed g x k1 k2 hx hb).1
    omega
  have hfile := hS.log.files f g1 g2
  rw [hfile]
  simp only
  by_cases hgt : lp > (gbytes (psp f)).length
  · rw [if_pos hgt]
    apply hsame
    intro g x k1 k2 hx hb
    obtain ⟨rfl, h2, _⟩ := hnamed g x k1 k2 hx hb
    have := (liveAt_bound (off := x.1) (body := x.2) hx).2
    omega
  rw [if_neg hgt]
  rcases q with ⟨k1, k2⟩ | ⟨body, k⟩ | k
  · -- beyond the end of a closed file
    have : lp = (gbytes (psp f)).length := by omega
    rw [this, readU32_end]
    apply hsame
    intro g x k3 k4 hx hb
    obtain ⟨rfl, h2, _⟩ := hnamed g x k3 k4 hx hb
    have := (liveAt_bound (off := x.1) (body := x.2) hx).2
    omega
  · -- a record span: marked deleted if the size matches
    have hblen : body.length < two31 := hS.log.ok f g1 g2 ⟨false, body⟩ (by
      obtain ⟨a, b, e, _⟩ := liveAt_split (psp f) 0 lp body k
      rw [e]; simp)
    rw [(span_reads k hblen).1]
    simp only
    rw [if_neg (by omega)]
    by_cases hsz : body.length ≠ fb.size
    · rw [if_pos hsz]
      apply hsame
      intro g x k3 k4 hx hb
      obtain ⟨rfl, h2, h3⟩ := hnamed g x k3 k4 hx hb
      have hx' : (lp, x.2) ∈ liveAt 0 (psp g) := by rw [← h2]; exact hx
      have := liveAt_off_unique hx' k
      rw [this] at h3
      exact hsz h3
    · rw [if_neg hsz]
      simp only
      obtain ⟨a, b, hs, e0⟩ := liveAt_split (psp f) 0 lp body k
      simp only [Nat.zero_add] at e0
      have e : (gbytes a).length = lp := e0.symm
      obtain ⟨s1, s2, s3, s4⟩ := kill_step' hS.log g1 g2 hs e
        (fun blk hb => by rw [← e1]; exact q2 blk hb)
      rw [s1]
      refine ⟨fun f' => if f' = f then a ++ (⟨true, body⟩ : GSpan) :: b else psp f', ?_, ?_, ?_⟩
      · have hb4 := (liveAt_bound k).2
        obtain ⟨x1, x2, x3⟩ := ginv_disk_step
          (d' := { d with pfiles := d.pfiles.set f (gbytes (a ++ (⟨true, body⟩ : GSpan) :: b)) })
          hG hn hS.log hS.ent hS.fl rfl rfl rfl rfl hS.hdr s2 s3
          (fun fb' hfb' => s4 fb' hfb'.2.2.1)
          (by
            show (fileOf (d.pfiles.set f (gbytes (a ++ (⟨true, body⟩ : GSpan) :: b))) m.pfileNum).length =
              m.plength
            by_cases hff : m.pfileNum = f
            · subst hff
              rw [fileOf_some (NMap.get?_set_eq _ _ _), ← s1, setDeleted_length _ _ _ (by omega)]
              have hpl : (fileOf d.pfiles m.pfileNum).length = m.plength := hG.plen
              rw [fileOf_some hfile] at hpl
              exact hpl
            · have : fileOf (d.pfiles.set f (gbytes (a ++ (⟨true, body⟩ : GSpan) :: b))) m.pfileNum =
                  fileOf d.pfiles m.pfileNum := by
                unfold fileOf; rw [NMap.get?_set_ne _ _ hff]
              rw [this]; exact hG.plen)
          (by
            intro f' hf'
            show (d.pfiles.set f (gbytes (a ++ (⟨true, body⟩ : GSpan) :: b))).get? f' = none
            rw [NMap.get?_set_ne _ _ (by omega)]
            exact hG.pno f' hf')
        exact ⟨x1, hS.hdr, s2, x2, x3⟩
      · -- the exact effect
        have hfaff : f ∈ (if aff.contains f = true then aff else aff ++ [f]) := by
          split
          · rename_i hc; exact List.contains_iff_mem.mp hc
          · simp
        refine ⟨?_, ?_, ?_, ?_, ?_⟩
        · intro g x hx
          by_cases hgf : g = f
          · subst hgf
            simp only [if_true] at hx
            rw [hs]; exact liveAt_kill_sub hx
          · simp only [hgf, if_false] at hx; exact hx
        · intro g x k3 k4 hx
          by_cases hgf : g = f
          · subst hgf
            simp only [if_true]
            rw [hs] at hx
            by_cases hlp : x.1 = (gbytes a).length
            · right
              have hx' : (lp, x.2) ∈ liveAt 0 (psp g) := by rw [hs, ← e, ← hlp]; exact hx
              have hb := liveAt_off_unique hx' k
              refine ⟨?_, hfaff⟩
              have h1 : m.pmax * g + x.1 = fb.off := by rw [hlp, e, e1]
              have h2 : x.2.length = fb.size := by
                rw [hb]
                exact Classical.not_not.mp hsz
              cases fb
              simp only at h1 h2
              simp only [h1, h2]
            · exact Or.inl (liveAt_kill_other hx hlp)
          · simp only [hgf, if_false]; exact Or.inl hx
        · intro g x k3 k4 hx hb
          by_cases hgf : g = f
          · subst hgf
            simp only [if_true] at hx
            have hx0 : x ∈ liveAt 0 (psp g) := by rw [hs]; exact liveAt_kill_sub hx
            have := (hnamed g x k3 k4 hx0 hb).2.1
            exact liveAt_kill_not hx (by rw [this, e])
          · simp only [hgf, if_false] at hx
            exact hgf (hnamed g x k3 k4 hx hb).1
        · intro g hg
          by_cases hgf : g = f
          · subst hgf
            rw [hg] at k; cases k
          · simp only [hgf, if_false]
        · intro g
          by_cases hgf : g = f
          · subst hgf
            simp only [if_true]
            rw [hs, gbytes_kill_length]
          · simp only [hgf, if_false]
      · intro g hg
        split
        · exact hg
        · simp [hg]
  · -- a word with the deleted bit
    obtain ⟨raw, r1, r2⟩ := k.read
    rw [r1]
    simp only
    rw [if_pos r2]
    apply hsame
    intro g x k3 k4 hx hb
    obtain ⟨rfl, h2, _⟩ := hnamed g x k3 k4 hx hb
    have hx' : (lp, x.2) ∈ liveAt 0 (psp g) := by rw [← h2]; exact hx
    have hlen : x.2.length < two31 := hS.log.ok g k3 k4 ⟨false, x.2⟩ (by
      obtain ⟨a, b, e, _⟩ := liveAt_split (psp g) 0 lp x.2 hx'
      rw [e]; simp)
    exact live_not_deadMark hx' hlen k

/-- applying a batch of freelist entries none of which names a pooled record, with its exact effect -/
theorem delFold_w (hn : n < 1073741824) :
    ∀ (batch : List Block) (d : Disk) (psp : Nat → List GSpan) (aff : List Nat),
      GState c U cfg m d spec n B pf psp →
      (∀ d' psp', GState c U cfg m d' spec n B pf psp' → d'.freeGc = d.freeGc →
        ∀ fb ∈ batch, FreeOK m d' pf psp' fb) →
      (∀ fb ∈ batch, NotPooled m fb) →
      ∃ psp', GState c U cfg m { d with pfiles := (batch.foldl (delStep m.pmax) (d.pfiles, aff)).1 }
          spec n B pf psp' ∧
        Kills m pf (fun b => b ∈ batch) psp psp' (batch.foldl (delStep m.pmax) (d.pfiles, aff)).2 ∧
        (∀ g ∈ aff, g ∈ (batch.foldl (delStep m.pmax) (d.pfiles, aff)).2)
  | [], d, psp, aff, hS, _, _ =>
    ⟨psp, hS, Kills.refl (fun _ _ _ _ _ h => by cases h), fun _ h => h⟩
  | fb :: batch, d, psp, aff, hS, hb, hnp => by
    obtain ⟨psp1, h1, k1, a1⟩ := delStep_w hS hn (hnp fb (by simp)) (hb d psp hS rfl fb (by simp)) aff
    rw [List.foldl_cons]
    obtain ⟨psp2, h2, k2, a2⟩ := delFold_w hn batch
      { d with pfiles := (delStep m.pmax (d.pfiles, aff) fb).1 } psp1
      (delStep m.pmax (d.pfiles, aff) fb).2 h1
      (fun d' psp' hS' hgc fb' hfb' => hb d' psp' hS' hgc fb' (by simp [hfb']))
      (fun fb' hfb' => hnp fb' (by simp [hfb']))
    refine ⟨psp2, h2, ?_, fun g hg => a2 g (a1 g hg)⟩
    exact (k1.trans k2 a2).mono (fun b => by simp)

/-- processFreeList on the hand-over file in a state in which records may be pooled: the GC invariant
    is kept whatever the outcome; on completion the hand-over file is removed and exactly the record spans
    its entries name (offset and size) have been marked deleted.  The freelist file and the pool are not
    touched. -/
theorem passApply_w (hS : GState c U cfg m d spec n B pf psp) (hn : n < 1073741824)
    (hnp : ∀ fb ∈ flGcEntries d, NotPooled m fb) (budget : Budget) :
    ∃ o files g bud aff psp',
      passApply m d budget = (o, m, { d with pfiles := files, freeGc := g }, bud, aff) ∧
      GState c U cfg m { d with pfiles := files, freeGc := g } spec n B pf psp' ∧
      (g = d.freeGc ∨ (o = .ok ∧ g = none)) ∧
      (o = .ok → g = none ∧ Kills m pf (fun b => b ∈ flGcEntries d) psp psp' aff) := by
  obtain ⟨batch, hparse, hbatch⟩ := flinv_batch hS.fl
  have hbe : flGcEntries d = batch := by unfold flGcEntries; rw [hparse]
  rw [hbe] at hnp ⊢
  unfold passApply
  simp only [hparse]
  have hdel : ∃ psp', GState c U cfg m
      { d with pfiles := (if batch.isEmpty = true then (d.pfiles, ([] : List Nat))
        else deleteRecords m.pmax d.pfiles batch).1 } spec n B pf psp' ∧
      Kills m pf (fun b => b ∈ batch) psp psp'
        (if batch.isEmpty = true then (d.pfiles, ([] : List Nat))
          else deleteRecords m.pmax d.pfiles batch).2 := by
    split
    · rename_i he
      have : batch = [] := List.isEmpty_iff.mp he
      subst this
      exact ⟨psp, hS, Kills.refl (fun _ _ _ _ _ h => by cases h)⟩
    · rw [deleteRecords_eq]
      obtain ⟨psp', h1, h2, _⟩ := delFold_w hn (sortByOff batch) d psp [] hS (by
        intro d' psp' hS' hgc fb hfb
        obtain ⟨batch', hp', hb'⟩ := flinv_batch hS'.fl
        rw [hgc, hparse] at hp'
        simp only [Prod.mk.injEq, and_true] at hp'
        subst hp'
        exact hb' fb (mem_sortByOff hfb)) (fun fb hfb => hnp fb (mem_sortByOff hfb))
      exact ⟨psp', h1, h2.mono (fun b => mem_sortByOff_iff)⟩
  obtain ⟨psp', hS', hK⟩ := hdel
  generalize (if List.isEmpty (d.freeGc.getD []) = true then (false, budget)
    else freelistPass.pollN batch.length budget) = pr1
  obtain ⟨e1, b1⟩ := pr1
  generalize (if List.isEmpty (d.freeGc.getD []) = true then (false, (e1, b1).snd)
    else poll (e1, b1).snd) = pr2
  obtain ⟨e2, b2⟩ := pr2
  generalize (if batch.isEmpty = true then (d.pfiles, ([] : List Nat))
        else deleteRecords m.pmax d.pfiles batch) = dr at hS' hK ⊢
  obtain ⟨files, affected⟩ := dr
  cases e1
  · cases e2
    · simp only [Bool.not_true, Bool.false_eq_true, if_false]
      obtain ⟨L1, L2, f1, f2, f3⟩ := hS'.fl
      have hz : ZInv { m with flpool := m.flpool, visited := m.visited }
          { ({ d with pfiles := files } : Disk) with freeGc := none } := by
        refine ⟨pf, psp', hS'.hdr, ⟨hS'.log.le, hS'.log.gone, hS'.log.files, hS'.log.ok,
          hS'.log.starts⟩, fun blk hb => hS'.ent blk hb, L1, [], f1, Or.inl ⟨rfl, rfl⟩, ?_⟩
        intro fb hfb
        obtain ⟨q1, q2, q3, q4, q5⟩ := f3 fb (by
          simp only [List.mem_append, List.append_nil] at hfb ⊢
          exact Or.inl hfb)
        exact ⟨q1, q2, q3, q4, q5⟩
      have hG' := hS'.g.frame_fl
        (d' := { ({ d with pfiles := files } : Disk) with freeGc := none })
        m.flpool m.visited rfl rfl rfl rfl rfl hz
      have hgs : GState c U cfg m { ({ d with pfiles := files } : Disk) with freeGc := none }
          spec n B pf psp' :=
        state_with hG' hS'.hdr (fun g a b => ⟨hS'.log.files g a b, hS'.log.ok g a b⟩)
      exact ⟨.ok, files, none, b2, affected, psp', rfl, hgs, Or.inr ⟨rfl, rfl⟩, fun _ => ⟨rfl, hK⟩⟩
    · simp only [Bool.false_eq_true, if_false, if_true]
      exact ⟨.deadline, files, d.freeGc, b2, affected, psp', rfl, hS', Or.inl rfl,
        fun h => by cases h⟩
  · simp only [if_true]
    exact ⟨.deadline, d.pfiles, d.freeGc, b1, [], psp, rfl, hS, Or.inl rfl, fun h => by cases h⟩

end

end Sth.C06W
