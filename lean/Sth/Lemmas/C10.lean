/-
Lemmas for C10 (legacy upgrade: re-chunking and offset remapping).

Structure:
* `chunkAux_*`  : accumulator-generalised facts about `chunkAux` (flatten, non-empty chunks, every closed
                  chunk holds at least `limit` bytes, every record of a chunk starts below `limit`);
* `recordStarts_*` : the i-th start is `p + bsize (take i c)`, and (records being non-empty) `find?` on the
                  zipped starts hits exactly the i-th record;
* `remap_chunks`: the remapping theorem for ANY chunk list whose record starts are below `limit`, by induction
                  on the chunk list with the running file number of `remapOffset` generalised;
* the five lemmas used by `Sth.Props.C10`.
Core Lean only.
-/
import Sth.Model.Upgrade

namespace Sth

/-- total byte size of a list of records -/
abbrev bsize (c : List Bytes) : Nat := (c.map List.length).sum

theorem bsize_append (a b : List Bytes) : bsize (a ++ b) = bsize a + bsize b := by
  simp [bsize]

theorem bsize_reverse (a : List Bytes) : bsize a.reverse = bsize a := by
  induction a with
  | nil => rfl
  | cons x xs ih =>
    simp only [List.reverse_cons, bsize_append, ih]
    simp [bsize]; omega

/-! ### chunkAux -/

theorem chunkAux_flatten (limit : Nat) (rs cur : List Bytes) (w : Nat) :
    (chunkAux limit rs cur w).flatten = cur.reverse ++ rs := by
  induction rs generalizing cur w with
  | nil =>
    cases cur <;> simp [chunkAux]
  | cons r rs ih =>
    simp only [chunkAux]
    split <;> simp [ih]

theorem chunkAux_ne (limit : Nat) (rs cur : List Bytes) (w : Nat) :
    ∀ c ∈ chunkAux limit rs cur w, c ≠ [] := by
  induction rs generalizing cur w with
  | nil =>
    cases cur <;> simp [chunkAux]
  | cons r rs ih =>
    simp only [chunkAux]
    split
    · intro c hc
      rcases List.mem_cons.1 hc with h | h
      · subst h; simp
      · exact ih _ _ c h
    · exact ih _ _

theorem chunkAux_full (limit : Nat) (rs cur : List Bytes) (w : Nat) (hw : w = bsize cur) :
    ∀ i, i + 1 < (chunkAux limit rs cur w).length →
      limit ≤ bsize ((chunkAux limit rs cur w)[i]?.getD []) := by
  induction rs generalizing cur w with
  | nil =>
    intro i hi
    cases cur <;> simp [chunkAux] at hi
  | cons r rs ih =>
    simp only [chunkAux]
    split
    · rename_i hge
      intro i hi
      cases i with
      | zero =>
        simp only [List.getElem?_cons_zero, Option.getD_some]
        rw [bsize_reverse]
        simp only [bsize, List.map_cons, List.sum_cons]
        simp only [bsize] at hw
        omega
      | succ j =>
        simp only [List.getElem?_cons_succ]
        simp only [List.length_cons] at hi
        exact ih [] 0 rfl j (by omega)
    · exact ih (r :: cur) (w + r.length) (by simp [bsize] at hw ⊢; omega)

theorem recordStarts_append (a b : List Bytes) (p : Nat) :
    recordStarts (a ++ b) p = recordStarts a p ++ recordStarts b (p + bsize a) := by
  induction a generalizing p with
  | nil => simp [recordStarts, bsize]
  | cons x xs ih =>
    simp only [List.cons_append, recordStarts, ih, List.cons.injEq, true_and]
    simp [bsize, Nat.add_assoc]

theorem recordStarts_le (c : List Bytes) (p : Nat) : ∀ o ∈ recordStarts c p, o ≤ p + bsize c := by
  induction c generalizing p with
  | nil => simp [recordStarts]
  | cons x xs ih =>
    intro o ho
    simp only [recordStarts, List.mem_cons] at ho
    simp only [bsize, List.map_cons, List.sum_cons]
    rcases ho with h | h
    · omega
    · have := ih _ o h
      simp only [bsize] at this
      omega

theorem chunkAux_starts (limit : Nat) (rs cur : List Bytes) (w : Nat) (hw : w = bsize cur) (hlt : w < limit) :
    ∀ c ∈ chunkAux limit rs cur w, ∀ o ∈ recordStarts c 0, o < limit := by
  induction rs generalizing cur w with
  | nil =>
    intro c hc o ho
    cases cur with
    | nil => simp [chunkAux] at hc
    | cons x xs =>
      simp only [chunkAux, List.isEmpty_cons, Bool.false_eq_true, if_false, List.mem_singleton] at hc
      subst hc
      have := recordStarts_le _ _ o ho
      rw [bsize_reverse] at this
      omega
  | cons r rs ih =>
    simp only [chunkAux]
    split
    · intro c hc o ho
      rcases List.mem_cons.1 hc with h | h
      · subst h
        rw [List.reverse_cons, recordStarts_append] at ho
        rcases List.mem_append.1 ho with h1 | h1
        · have := recordStarts_le _ _ o h1
          rw [bsize_reverse] at this
          omega
        · simp only [recordStarts, List.mem_singleton] at h1
          rw [bsize_reverse] at h1
          omega
      · exact ih [] 0 rfl (by omega) c h o ho
    · rename_i hnge
      exact ih (r :: cur) (w + r.length) (by simp [bsize] at hw ⊢; omega) (by omega)

/-! ### record starts -/

theorem recordStarts_getElem? (c : List Bytes) (p i : Nat) (h : i < c.length) :
    (recordStarts c p)[i]? = some (p + bsize (c.take i)) := by
  induction c generalizing p i with
  | nil => simp at h
  | cons x xs ih =>
    cases i with
    | zero => simp [recordStarts, bsize]
    | succ j =>
      simp only [recordStarts, List.getElem?_cons_succ, List.take_succ_cons]
      rw [ih (p + x.length) j (by simpa using h)]
      simp [bsize, Nat.add_assoc]

theorem bsize_take_le (c : List Bytes) (i : Nat) (r : Bytes) (hi : c[i]? = some r) :
    bsize (c.take i) + r.length ≤ bsize c := by
  induction c generalizing i with
  | nil => simp at hi
  | cons x xs ih =>
    cases i with
    | zero =>
      simp only [List.getElem?_cons_zero, Option.some.injEq] at hi
      subst hi
      simp [bsize]
    | succ j =>
      simp only [List.getElem?_cons_succ] at hi
      have := ih j hi
      simp only [bsize, List.take_succ_cons, List.map_cons, List.sum_cons] at this ⊢
      omega

theorem find_start (c : List Bytes) (hne : ∀ r ∈ c, r ≠ []) (p i : Nat) (r : Bytes) (hi : c[i]? = some r) :
    ((recordStarts c p).zip c).find? (fun x => decide (x.1 = p + bsize (c.take i)))
      = some (p + bsize (c.take i), r) := by
  induction c generalizing p i with
  | nil => simp at hi
  | cons x xs ih =>
    cases i with
    | zero =>
      simp only [List.getElem?_cons_zero, Option.some.injEq] at hi
      subst hi
      simp [recordStarts, bsize]
    | succ j =>
      simp only [List.getElem?_cons_succ] at hi
      have hx : x ≠ [] := hne x (by simp)
      have hxl : 0 < x.length := List.length_pos_iff.2 hx
      have heq : p + bsize ((x :: xs).take (j + 1)) = (p + x.length) + bsize (xs.take j) := by
        simp [bsize, Nat.add_assoc]
      rw [heq]
      simp only [recordStarts, List.zip_cons_cons]
      rw [List.find?_cons_of_neg (by simp; omega)]
      exact ih (fun r hr => hne r (List.mem_cons_of_mem _ hr)) (p + x.length) j hi

/-! ### remapping over an arbitrary chunk list -/

theorem recordAt_succ (c : List Bytes) (cs : List (List Bytes)) (n off : Nat) :
    recordAt (c :: cs) (n + 1) off = recordAt cs n off := by
  simp [recordAt]

theorem remap_chunks (limit : Nat) (cs : List (List Bytes))
    (hstart : ∀ c ∈ cs, ∀ o ∈ recordStarts c 0, o < limit)
    (hne : ∀ c ∈ cs, ∀ r ∈ c, r ≠ [])
    (first i : Nat) (r : Bytes) (hi : cs.flatten[i]? = some r) :
    ∃ n off, remapOffset first limit (cs.map bsize) (bsize (cs.flatten.take i))
        = some (limit * (first + n) + off) ∧ off < limit ∧ recordAt cs n off = some r := by
  induction cs generalizing first i with
  | nil => simp at hi
  | cons c cs ih =>
    simp only [List.flatten_cons] at hi ⊢
    by_cases hlt : i < c.length
    · have hci : c[i]? = some r := by rwa [List.getElem?_append_left hlt] at hi
      have htake : (c ++ cs.flatten).take i = c.take i := by
        rw [List.take_append_of_le_length (Nat.le_of_lt hlt)]
      have hle := bsize_take_le c i r hci
      have hrne : r ≠ [] := hne c (by simp) r (List.mem_of_getElem? hci)
      have hrl : 0 < r.length := List.length_pos_iff.2 hrne
      have hs := recordStarts_getElem? c 0 i hlt
      rw [Nat.zero_add] at hs
      have hoff : bsize (c.take i) < limit := hstart c (by simp) _ (List.mem_of_getElem? hs)
      refine ⟨0, bsize (c.take i), ?_, hoff, ?_⟩
      · rw [htake]
        simp only [List.map_cons, remapOffset]
        rw [if_pos (by omega)]
        simp
      · have := find_start c (hne c (by simp)) 0 i r hci
        simp only [Nat.zero_add] at this
        simp [recordAt, this]
    · have hge : c.length ≤ i := Nat.le_of_not_lt hlt
      rw [List.getElem?_append_right hge] at hi
      have htake : (c ++ cs.flatten).take i = c ++ cs.flatten.take (i - c.length) := by
        rw [List.take_append, List.take_of_length_le hge]
      obtain ⟨n, off, h1, h2, h3⟩ :=
        ih (fun c' hc' => hstart c' (List.mem_cons_of_mem _ hc'))
           (fun c' hc' => hne c' (List.mem_cons_of_mem _ hc')) (first + 1) (i - c.length) hi
      refine ⟨n + 1, off, ?_, h2, ?_⟩
      · rw [htake, bsize_append]
        simp only [List.map_cons, remapOffset]
        rw [if_neg (by omega), Nat.add_sub_cancel_left, h1]
        simp [Nat.add_assoc, Nat.add_comm 1 n]
      · rw [recordAt_succ]; exact h3

/-! ### the lemmas used by Props/C10 -/

theorem chunk_flatten (limit : Nat) (recs : List Bytes) : (chunk limit recs).flatten = recs := by
  simp [chunk, chunkAux_flatten]

theorem chunk_shape (limit : Nat) (hl : 1 ≤ limit) (recs : List Bytes) (_hne : ∀ r ∈ recs, r ≠ []) :
    (∀ c ∈ chunk limit recs, c ≠ []) ∧
    (∀ i, i + 1 < (chunk limit recs).length → limit ≤ ((chunk limit recs)[i]?.getD [] |>.map List.length).sum) ∧
    (∀ c ∈ chunk limit recs, ∀ o ∈ recordStarts c 0, o < limit) :=
  ⟨chunkAux_ne limit recs [] 0, chunkAux_full limit recs [] 0 rfl,
   chunkAux_starts limit recs [] 0 rfl (by omega)⟩

theorem remap_correct (limit : Nat) (hl : 1 ≤ limit) (recs : List Bytes) (hne : ∀ r ∈ recs, r ≠ [])
    (i : Nat) (r : Bytes) (hi : recs[i]? = some r) :
    ∃ n off, remapOffset 0 limit (chunkSizes limit recs) ((recordStarts recs 0)[i]?.getD 0) = some (limit * n + off) ∧
      off < limit ∧ recordAt (chunk limit recs) n off = some r := by
  have hflat := chunk_flatten limit recs
  have hshape := (chunk_shape limit hl recs hne).2.2
  have hilt : i < recs.length := by
    rcases List.getElem?_eq_some_iff.1 hi with ⟨h, _⟩
    exact h
  have hne' : ∀ c ∈ chunk limit recs, ∀ r ∈ c, r ≠ [] := by
    intro c hc r hr
    apply hne
    rw [← hflat]
    exact List.mem_flatten.2 ⟨c, hc, hr⟩
  have hi' : (chunk limit recs).flatten[i]? = some r := by rw [hflat]; exact hi
  obtain ⟨n, off, h1, h2, h3⟩ := remap_chunks limit (chunk limit recs) hshape hne' 0 i r hi'
  refine ⟨n, off, ?_, h2, h3⟩
  rw [recordStarts_getElem? recs 0 i hilt]
  rw [hflat] at h1
  simpa [chunkSizes, bsize] using h1

theorem remap_reject (first max : Nat) (sizes : List Nat) (pos : Nat) (h : sizes.sum ≤ pos) :
    remapOffset first max sizes pos = none := by
  induction sizes generalizing first pos with
  | nil => rfl
  | cons s rest ih =>
    simp only [List.sum_cons] at h
    simp only [remapOffset]
    rw [if_neg (by omega)]
    exact ih _ _ (by omega)

theorem remap_total (first max : Nat) (sizes : List Nat) (pos : Nat) (h : pos < sizes.sum) :
    (remapOffset first max sizes pos).isSome := by
  induction sizes generalizing first pos with
  | nil => simp at h
  | cons s rest ih =>
    simp only [List.sum_cons] at h
    simp only [remapOffset]
    by_cases hp : pos < s
    · rw [if_pos hp]; rfl
    · rw [if_neg hp]
      exact ih _ _ (by omega)

end Sth
