/-
C04 — Put and Remove with the blocks they add to and drop from the index made explicit (the statements
of Sth/Lemmas/StoreMut.lean extended by block-level conclusions; same proofs).
Core Lean only.
-/
import Sth.Lemmas.StoreMut

namespace Sth

section
variable {U : List (Bytes × Bytes)} {m : Mem} {d : Disk} {spec : Spec}

/-- Put of a key that is not in the map -/
theorem storePut_absent_x (hU : Univ m.kind U) (h8 : 8 ≤ m.bits) (h31 : m.bits ≤ 31)
    (hI : SInv U m d spec) {key val dig : Bytes} (hpre : PutPre m key val)
    (hk : (key, dig) ∈ U) (hs : Spec.get spec dig = none) :
    ∃ b rl, storePut m d key val = (setNext (putMem m key val) b rl, .ok) ∧
      AInv m.kind m.bits U (priGet (setNext (putMem m key val) b rl) d)
        (idxRecords (setNext (putMem m key val) b rl) d) (Below (setNext (putMem m key val) b rl))
        (Spec.set spec dig key val) ∧ b < 2 ^ m.bits ∧ bucketOfKey m.bits dig = some b ∧
      ∃ orl, idxRecords m d b = .ok orl ∧
        (rl.map (·.blk)).Perm (nextBlk m (key.length + val.length) :: (orl.getD []).map (·.blk)) := by
  have hik := (hU.dig hk).1
  cases lookup hU h31 hI hk with
  | present val' b pre e post hs' => rw [hs] at hs'; cases hs'
  | absent b orl _ hb hr ho hB hg =>
    have hstrip := (stripKey_of_bucket m.bits h31 dig b hb)
    have hP : ∀ blk k v, Below m blk → priGet m d blk = .got k v →
        priGet (putMem m key val) d blk = .got k v :=
      fun blk k v hbl hgt => priGet_putMem_old d key val hpre.pmax hbl hgt
    have hnew := priGet_putMem_new d key val hpre.pmax hpre.pool
    have hown' : ownOf m.kind m.bits (priGet (putMem m key val) d)
        (nextBlk m (key.length + val.length)) = some (dig.drop (m.bits / 8)) :=
      ownOf_got hnew hik hstrip.1
    have ho' : OInv (ownOf m.kind m.bits (priGet (putMem m key val) d)) (orl.getD []) := by
      apply OInv.congr _ ho
      intro e he k hk'
      exact ownOf_mono (fun k v hgt => hP _ k v (hB e he).below hgt) hk'
    have hfresh : nextBlk m (key.length + val.length) ∉ (orl.getD []).map (·.blk) := by
      intro hm
      obtain ⟨e, he, heq⟩ := List.mem_map.mp hm
      have := (hB e he).below
      rw [heq] at this
      exact not_below_next hpre.pmax _ this
    -- the index put succeeds
    have hput : ∃ rl', indexPut (fullOf (putMem m key val) d) orl (dig.drop (m.bits / 8))
          (nextBlk m (key.length + val.length)) = .set rl' ∧
        OInv (ownOf m.kind m.bits (priGet (putMem m key val) d)) rl' ∧
        (rl'.map (·.blk)).Perm (nextBlk m (key.length + val.length) :: (orl.getD []).map (·.blk)) := by
      cases orl with
      | none =>
        have := indexPut_none_ok' (own := ownOf m.kind m.bits (priGet (putMem m key val) d))
          (fullOf (putMem m key val) d) hstrip.2.1 hown'
        exact ⟨_, this.1, this.2, by simp⟩
      | some rl =>
        simp only [Option.getD_some] at ho' hfresh hB ⊢
        apply indexPut_absent' (fullOf (putMem m key val) d) ho' hstrip.2.1 _ hown' hfresh
        · intro e he ko hko
          apply fullOf_of_own
          rw [putMem_kind, putMem_bits]
          exact hko
        · intro e he ko hko
          obtain ⟨key0, val0, dig0, e1, e2, e3, e4, e5⟩ := (hB e he).own hU h31
          have := ownOf_mono (P' := priGet (putMem m key val) d)
            (fun k v hgt => hP _ k v (hB e he).below hgt) e5
          rw [hko] at this
          cases this
          have hne : dig ≠ dig0 := by
            rintro rfl
            rw [hs] at e4
            cases e4
          exact hU.apart h8 h31 hk e2 hne hb e3
    obtain ⟨rl', hset, horl', hperm⟩ := hput
    -- blocks of the new list
    have hblk : ∀ e ∈ rl', BlockOK m.kind m.bits U (priGet (putMem m key val) d)
        (Below (putMem m key val)) (Spec.set spec dig key val) b e.blk := by
      intro e he
      have hm : e.blk ∈ rl'.map (·.blk) := List.mem_map_of_mem he
      rw [hperm.mem_iff, List.mem_cons] at hm
      rcases hm with hm | hm
      · rw [hm]
        refine ⟨⟨key, val, dig, hnew, hk, hb, nextBlk_size _ _, Spec.get_set_eq _ _ _ _⟩,
          below_putMem_new hpre.pmax key val, hpre.off, ?_⟩
        rw [nextBlk_size]; exact hpre.size
      · obtain ⟨e0, he0, heq⟩ := List.mem_map.mp hm
        rw [← heq]
        apply (hB e0 he0).mono hP (fun blk hb => below_putMem key val hb)
        intro key0 val0 dig0 hg0 hm0
        exact Spec.get_set_ne _ _ _ _ ((hB e0 he0).dig_ne_of_absent hU hs key0 val0 dig0 hg0 hm0)
    have hnorm : normRL rl' = rl' := normRL_of_wf (wf_of_inv hU h31 horl' hblk)
    have hidx : idxPut (putMem m key val) d dig (nextBlk m (key.length + val.length)) =
        .ok (setNext (putMem m key val) b rl') := by
      have := idxPut_eq (m := putMem m key val) (d := d) (dig := dig) (b := b) (recs := orl)
        (loc := nextBlk m (key.length + val.length)) (rl := rl')
        (by rw [putMem_bits]; exact hb) (by rw [putMem_bits]; exact hstrip.1)
        (by rw [idxRecords_putMem]; exact hr) hset
      rw [hnorm] at this
      exact this
    refine ⟨b, rl', ?_, ?_, bucket_lt _ _ _ hb, hb, orl, hr, hperm⟩
    · unfold storePut
      rcases hg with hg | ⟨blk, k', v', dig', hg, e1, e2, e3⟩
      · simp only [hik, hg, priPut_eq, hidx]
      · simp only [hik, hg, gpkd_miss e1 e2 e3, priPut_eq, hidx]
    · apply AInv.change hU hI hb (rl' := rl') (dig := dig)
      · intro blk k v hbl hgt
        rw [priGet_setNext]
        exact hP blk k v hbl hgt
      · intro blk hbl
        rw [below_setNext]
        exact below_putMem key val hbl
      · intro dig' hne
        exact Spec.get_set_ne _ _ _ _ hne
      · intro b' hne
        rw [idxRecords_setNext', if_neg hne, idxRecords_putMem]
      · rw [idxRecords_setNext', if_pos rfl]
      · rw [priGet_setNext]; exact horl'
      · rw [priGet_setNext, below_setNext]; exact hblk
      · intro key0 val0 hg0
        rw [Spec.get_set_eq] at hg0
        cases hg0
        have hm : nextBlk m (key.length + val.length) ∈ rl'.map (·.blk) := by
          rw [hperm.mem_iff]; simp
        obtain ⟨e, he, heq⟩ := List.mem_map.mp hm
        exact ⟨e, he, by rw [priGet_setNext, heq]; exact hnew, hk⟩
      · intro rl hrl e he _
        rw [hr] at hrl
        cases hrl
        have hm : e.blk ∈ rl'.map (·.blk) := by
          rw [hperm.mem_iff]
          exact List.mem_cons_of_mem _ (List.mem_map_of_mem he)
        obtain ⟨e', he', heq⟩ := List.mem_map.mp hm
        exact ⟨e', he', heq⟩


/-- Put of a key that is in the map: error (immutable), no-op (same value) or update -/
theorem storePut_present_x (hU : Univ m.kind U) (h31 : m.bits ≤ 31)
    (hI : SInv U m d spec) {key val dig key0 old : Bytes}
    (hk : (key, dig) ∈ U) (hs : Spec.get spec dig = some (key0, old)) :
    (m.imm = true → storePut m d key val = (m, .err .keyExists)) ∧
    (m.imm = false → val = old → storePut m d key val = (m, .ok)) ∧
    (m.imm = false → val ≠ old → PutPre m key val →
      ∃ b rl blk, storePut m d key val = (addFree (setNext (putMem m key val) b rl) blk, .ok) ∧
        AInv m.kind m.bits U (priGet (addFree (setNext (putMem m key val) b rl) blk) d)
          (idxRecords (addFree (setNext (putMem m key val) b rl) blk) d)
          (Below (addFree (setNext (putMem m key val) b rl) blk))
          (Spec.set spec dig key val) ∧ b < 2 ^ m.bits ∧ bucketOfKey m.bits dig = some b ∧
        ∃ pre e post, idxRecords m d b = .ok (some (pre ++ e :: post)) ∧
          rl = pre ++ (⟨e.pfx, nextBlk m (key.length + val.length)⟩ : Entry) :: post ∧ blk = e.blk ∧
          priGet m d e.blk = .got key old) := by
  have hik := (hU.dig hk).1
  cases lookup hU h31 hI hk with
  | absent b orl hs' => rw [hs] at hs'; cases hs'
  | present val' b pre e post hs' hb hr ho hB hp hown hsz hg =>
    rw [hs] at hs'
    cases hs'
    refine ⟨?_, ?_, ?_⟩
    · intro himm
      unfold storePut
      simp only [hik, hg, gpkd_hit hp hik, himm, if_true]
    · intro himm hv
      unfold storePut
      simp only [hik, hg, gpkd_hit hp hik, himm, hv, if_true, Bool.false_eq_true, if_false]
    · intro himm hv hpre
      have hstrip := (stripKey_of_bucket m.bits h31 dig b hb)
      have hP : ∀ blk k v, Below m blk → priGet m d blk = .got k v →
          priGet (putMem m key val) d blk = .got k v :=
        fun blk k v hbl hgt => priGet_putMem_old d key val hpre.pmax hbl hgt
      have hnew := priGet_putMem_new d key val hpre.pmax hpre.pool
      have hown' : ownOf m.kind m.bits (priGet (putMem m key val) d)
          (nextBlk m (key.length + val.length)) = some (dig.drop (m.bits / 8)) :=
        ownOf_got hnew hik hstrip.1
      have ho' : OInv (ownOf m.kind m.bits (priGet (putMem m key val) d)) (pre ++ e :: post) := by
        apply OInv.congr _ ho
        intro x hx k hk'
        exact ownOf_mono (fun k v hgt => hP _ k v (hB x hx).below hgt) hk'
      have howne' : ownOf m.kind m.bits (priGet (putMem m key val) d) e.blk =
          some (dig.drop (m.bits / 8)) :=
        ownOf_mono (fun k v hgt => hP _ k v (hB e (by simp)).below hgt) hown
      have hfresh : nextBlk m (key.length + val.length) ∉ (pre ++ e :: post).map (·.blk) := by
        intro hm
        obtain ⟨x, hx, heq⟩ := List.mem_map.mp hm
        have := (hB x hx).below
        rw [heq] at this
        exact not_below_next hpre.pmax _ this
      obtain ⟨hupd, horl'⟩ := indexUpdate_ok' ho' howne' hown' hfresh
      have hblk : ∀ x ∈ pre ++ (⟨e.pfx, nextBlk m (key.length + val.length)⟩ : Entry) :: post,
          BlockOK m.kind m.bits U (priGet (putMem m key val) d)
            (Below (putMem m key val)) (Spec.set spec dig key val) b x.blk := by
        intro x hx
        have hold : x ∈ pre ++ post → BlockOK m.kind m.bits U (priGet (putMem m key val) d)
            (Below (putMem m key val)) (Spec.set spec dig key val) b x.blk := by
          intro hx'
          have hx'' : x ∈ pre ++ e :: post := by
            simp only [List.mem_append, List.mem_cons] at hx' ⊢
            rcases hx' with h | h
            · exact Or.inl h
            · exact Or.inr (Or.inr h)
          apply (hB x hx'').mono hP (fun blk hb => below_putMem key val hb)
          intro key1 val1 dig1 hg1 hm1
          exact Spec.get_set_ne _ _ _ _ (other_dig_ne hU h31 ho hB hown hx' key1 val1 dig1 hg1 hm1)
        simp only [List.mem_append, List.mem_cons] at hx
        rcases hx with h | rfl | h
        · exact hold (by simp [h])
        · refine ⟨⟨key, val, dig, hnew, hk, hb, nextBlk_size _ _, Spec.get_set_eq _ _ _ _⟩,
            below_putMem_new hpre.pmax key val, hpre.off, ?_⟩
          simp only [nextBlk_size]; exact hpre.size
        · exact hold (by simp [h])
      have hnorm := normRL_of_wf (wf_of_inv hU h31 horl' hblk)
      have hidx : idxUpdate (putMem m key val) d dig (nextBlk m (key.length + val.length)) =
          .ok (setNext (putMem m key val) b
            (pre ++ (⟨e.pfx, nextBlk m (key.length + val.length)⟩ : Entry) :: post)) := by
        have := idxUpdate_eq (m := putMem m key val) (d := d) (dig := dig) (b := b)
          (recs := some (pre ++ e :: post))
          (loc := nextBlk m (key.length + val.length))
          (by rw [putMem_bits]; exact hb) (by rw [putMem_bits]; exact hstrip.1)
          (by rw [idxRecords_putMem]; exact hr) hupd
        rw [hnorm] at this
        exact this
      refine ⟨b, pre ++ (⟨e.pfx, nextBlk m (key.length + val.length)⟩ : Entry) :: post, e.blk, ?_, ?_,
        bucket_lt _ _ _ hb, hb, pre, e, post, hr, rfl, rfl, hp⟩
      · unfold storePut
        simp only [hik, hg, gpkd_hit hp hik, himm, hv, Bool.false_eq_true, if_false, priPut_eq, hidx,
          Option.getD_some]
        rfl
      · apply AInv.change hU hI hb (dig := dig)
          (rl' := pre ++ (⟨e.pfx, nextBlk m (key.length + val.length)⟩ : Entry) :: post)
        · intro blk k v hbl hgt
          rw [priGet_addFree, priGet_setNext]
          exact hP blk k v hbl hgt
        · intro blk hbl
          rw [below_addFree, below_setNext]
          exact below_putMem key val hbl
        · intro dig' hne
          exact Spec.get_set_ne _ _ _ _ hne
        · intro b' hne
          rw [idxRecords_addFree, idxRecords_setNext', if_neg hne, idxRecords_putMem]
        · rw [idxRecords_addFree, idxRecords_setNext', if_pos rfl]
        · rw [priGet_addFree, priGet_setNext]; exact horl'
        · rw [priGet_addFree, priGet_setNext, below_addFree, below_setNext]; exact hblk
        · intro key1 val1 hg1
          rw [Spec.get_set_eq] at hg1
          cases hg1
          exact ⟨⟨e.pfx, nextBlk m (key.length + val.length)⟩, by simp,
            by rw [priGet_addFree, priGet_setNext]; exact hnew, hk⟩
        · intro rl hrl x hx hnot
          rw [hr] at hrl
          cases hrl
          simp only [List.mem_append, List.mem_cons] at hx
          rcases hx with h | rfl | h
          · exact ⟨x, by simp [h], rfl⟩
          · exact absurd hk (hnot _ _ hp)
          · exact ⟨x, by simp [h], rfl⟩


/-- Remove -/
theorem storeRemove_x (hU : Univ m.kind U) (h31 : m.bits ≤ 31)
    (hI : SInv U m d spec) {key dig : Bytes} (hk : (key, dig) ∈ U) :
    (Spec.get spec dig = none → storeRemove m d key = (m, .val false)) ∧
    (∀ kv, Spec.get spec dig = some kv →
      ∃ b rl blk, storeRemove m d key = (addFree (setNext m b rl) blk, .val true) ∧
        AInv m.kind m.bits U (priGet (addFree (setNext m b rl) blk) d)
          (idxRecords (addFree (setNext m b rl) blk) d)
          (Below (addFree (setNext m b rl) blk)) (Spec.del spec dig) ∧ b < 2 ^ m.bits ∧
        bucketOfKey m.bits dig = some b ∧
        ∃ pre e post, idxRecords m d b = .ok (some (pre ++ e :: post)) ∧ rl = pre ++ post ∧
          blk = e.blk) := by
  have hik := (hU.dig hk).1
  cases lookup hU h31 hI hk with
  | absent b orl hs hb hr ho hB hg =>
    refine ⟨fun _ => ?_, fun kv hkv => (by rw [hs] at hkv; cases hkv)⟩
    unfold storeRemove
    rcases hg with hg | ⟨blk, k', v', dig', hg, e1, e2, e3⟩
    · simp only [hik, hg]
    · simp only [hik, hg, gpkd_miss e1 e2 e3]
  | present val b pre e post hs hb hr ho hB hp hown hsz hg =>
    refine ⟨fun hn => (by rw [hs] at hn; cases hn), fun kv _ => ?_⟩
    have hstrip := (stripKey_of_bucket m.bits h31 dig b hb)
    obtain ⟨hrm, horl'⟩ := indexRemove_ok' ho hown
    have hblk : ∀ x ∈ pre ++ post, BlockOK m.kind m.bits U (priGet m d) (Below m)
        (Spec.del spec dig) b x.blk := by
      intro x hx
      have hx'' : x ∈ pre ++ e :: post := by
        simp only [List.mem_append, List.mem_cons] at hx ⊢
        rcases hx with h | h
        · exact Or.inl h
        · exact Or.inr (Or.inr h)
      apply (hB x hx'').mono (fun _ _ _ _ h => h) (fun _ h => h)
      intro key1 val1 dig1 hg1 hm1
      exact Spec.get_del_ne _ _ (other_dig_ne hU h31 ho hB hown hx key1 val1 dig1 hg1 hm1)
    have hnorm := normRL_of_wf (wf_of_inv hU h31 horl' hblk)
    have hidx : idxRemove m d dig = .ok (setNext m b (pre ++ post), true) := by
      have := idxRemove_eq (m := m) (d := d) (dig := dig) (b := b)
        (recs := some (pre ++ e :: post)) hb hstrip.1 hr hrm
      rw [hnorm] at this
      exact this
    refine ⟨b, pre ++ post, e.blk, ?_, ?_, bucket_lt _ _ _ hb, hb, pre, e, post, hr, rfl, rfl⟩
    · unfold storeRemove
      simp only [hik, hg, gpkd_hit hp hik, hidx, if_true]
      rfl
    · apply AInv.change hU hI hb (dig := dig) (rl' := pre ++ post)
      · intro blk k v _ hgt
        rw [priGet_addFree, priGet_setNext]
        exact hgt
      · intro blk hbl
        rw [below_addFree, below_setNext]
        exact hbl
      · intro dig' hne
        exact Spec.get_del_ne _ _ hne
      · intro b' hne
        rw [idxRecords_addFree, idxRecords_setNext', if_neg hne]
      · rw [idxRecords_addFree, idxRecords_setNext', if_pos rfl]
      · rw [priGet_addFree, priGet_setNext]; exact horl'
      · rw [priGet_addFree, priGet_setNext, below_addFree, below_setNext]; exact hblk
      · intro key1 val1 hg1
        rw [Spec.get_del_eq] at hg1
        cases hg1
      · intro rl hrl x hx hnot
        rw [hr] at hrl
        cases hrl
        simp only [List.mem_append, List.mem_cons] at hx
        rcases hx with h | rfl | h
        · exact ⟨x, by simp [h], rfl⟩
        · exact absurd hk (hnot _ _ hp)
        · exact ⟨x, by simp [h], rfl⟩


end

end Sth
