import Sth.Lemmas.C13H9

/-!
C11 P1 without the coverage hypothesis: coverage is an invariant (Sth/Lemmas/C13H9.lean).
Core Lean only.
-/

namespace Sth.C13H

open Sth.C11

section
variable {c : Cfg} {U : List (Bytes × Bytes)} {s : SState} {spec : Spec} {k B : Nat}

/-- P1 on a state satisfying the GC invariant, hypotheses on the bytes -/
theorem primary_file_released_inv2 (hU : Univ c.kind U) (hG : GInv c U s spec k B)
    (hk : 3 * k < 1073741824) (hpn : s.m.pnext = []) {f : Nat} {file : Bytes}
    (hfile : s.d.pfiles.get? f = some file) (hf : f < s.m.pfileNum) (hlen : file.length < two31)
    (hcov : CovS s) (hno : NoEntryIn s f) (hvis : VisitedStable s f) (lowUse : Nat) :
    Released (stepS s (.pgc lowUse none)).1.d.pfiles f ∧
    (s.d.phdr.map PriHeader.first = some f → WillVisit s f →
      (stepS s (.pgc lowUse none)).1.d.pfiles.get? f = none) := by
  obtain ⟨cfg, m, d⟩ := s
  have hpn : m.pnext = [] := hpn
  have hfile : d.pfiles.get? f = some file := hfile
  have hf : f < m.pfileNum := hf
  obtain ⟨pf, psp, hS⟩ := hG.state
  have hkind : m.kind = .mh := hG.kind
  have h1 : pf ≤ f := by
    cases Nat.lt_or_ge f pf with
    | inl h => have := hS.log.gone f h; rw [hfile] at this; cases this
    | inr h => exact h
  have hspans : ∀ g, pf ≤ g → g ≤ m.pfileNum → d.pfiles.get? g = some (gbytes (psp g)) ∧
      spansOf (gbytes (psp g)) = psp g :=
    fun g g1 g2 => ⟨hS.log.files g g1 g2, spansOf_gbytes (hS.log.ok g g1 g2)⟩
  have hfile' : file = gbytes (psp f) := by
    have := (hspans f h1 (by omega)).1
    rw [hfile] at this
    exact Option.some.inj this
  have hp : 1 ≤ m.pmax := hG.pmax1
  have hf32 : ∀ g, g ≤ m.pfileNum → g < two32 := by
    intro g hg
    have a1 : m.pfileNum ≤ m.precFileNum := GInv.pfile_le (s := ⟨cfg, m, d⟩) hG
    have a2 : m.precFileNum ≤ k := hG.cntF
    unfold two32
    omega
  obtain ⟨res, hres, r1, r2⟩ := pgc_releases_core hU hS hk hpn h1 hf
    (by
      intro g g1 g2 x hx
      have g2' : g ≤ m.pfileNum := Nat.le_of_lt g2
      exact (hcov pf psp hS.hdr hS.log).span g g1 g2' x hx)
    (by
      intro x hx he
      have := hno _ (mem_entryBlocks.mpr he)
      simp only at this
      rw [localizePri_eq hp (hS.log.starts f h1 (by omega) x hx) (hf32 f (by omega))] at this
      exact this rfl)
    (by
      intro hv hl
      have := hvis hv file hfile (by rw [hfile', (hspans f h1 (by omega)).2]; exact hl)
      rw [hfile'] at this
      exact gbytes_eq_nil this)
    (by rw [← hfile']; exact hlen) lowUse
  have hstep : (stepS ⟨cfg, m, d⟩ (.pgc lowUse none)).1.d = res.2.2.1 := by
    simp only [stepS, hkind, hres]
  rw [hstep]
  refine ⟨r1, ?_⟩
  intro hfirst hw
  have hpf : pf = f := by
    have := hS.hdr
    rw [this] at hfirst
    simpa using hfirst
  apply r2 hpf
  rcases hw with hw | ⟨file', hf', hl⟩
  · exact Or.inl hw
  · right
    rw [hfile] at hf'
    cases hf'
    rw [hfile', (hspans f h1 (by omega)).2] at hl
    exact hl

end

/-- C11 P1 on reachable states, coverage derived -/
theorem primary_file_released_unc (c : Cfg) (hc : c.Legal) (hmh : c.kind = .mh) (ops : List SOp)
    (hk : KeysOK c.kind ops) (hs : SizesOK ops) (s0 : SState) (hi : initS c = some s0) (lowUse : Nat)
    (hb : GcCountersOK s0 (ops ++ [.pgc lowUse none])) (f : Nat) (file : Bytes)
    (hfile : (runS s0 ops).1.d.pfiles.get? f = some file) (hf : f < (runS s0 ops).1.m.pfileNum)
    (hlen : file.length < two31) (hflushed : (runS s0 ops).1.m.pnext = [])
    (hno : NoEntryIn (runS s0 ops).1 f) (hvis : VisitedStable (runS s0 ops).1 f) :
    Released (stepS (runS s0 ops).1 (.pgc lowUse none)).1.d.pfiles f ∧
    ((runS s0 ops).1.d.phdr.map PriHeader.first = some f → WillVisit (runS s0 ops).1 f →
      (stepS (runS s0 ops).1 (.pgc lowUse none)).1.d.pfiles.get? f = none) := by
  obtain ⟨hb1, hb2, _⟩ := GcCountersOK.append ops [.pgc lowUse none] s0 hb
  have hG := reach_ginv c hc hmh ops hk hs s0 hi hb1
  have hC := covS_reachable c hc hmh ops hk hs s0 hi hb1
  have hU := univ_of_keysOK hk (keysExact_all c.kind ops)
  exact primary_file_released_inv2 hU hG (by omega) hflushed hfile hf hlen hC hno hvis lowUse

end Sth.C13H
