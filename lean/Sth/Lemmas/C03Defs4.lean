/-
C03 over histories with GC cycles — shared definitions: a family of numbered files whose first files have
been unlinked (index GC advances the index header's first file, primary GC the primary header's).
Core Lean only.
-/
import Sth.Lemmas.C03Defs
import Sth.Lemmas.C04M3

namespace Sth

/-- what a flush does to a family of numbered files that starts at `first`: files `first..P` before,
    `first..P'` after, nothing below `first`, nothing below the current file `P` changes, file `P` is
    extended -/
structure SegOK4 (fs fs' : NMap Bytes) (first P P' : Nat) : Prop where
  sorted : NMap.Sorted fs'
  lo : first ≤ P
  le : P ≤ P'
  gone : ∀ n, n < first → fs.get? n = none
  gone' : ∀ n, n < first → fs'.get? n = none
  all : ∀ n, first ≤ n → n ≤ P → fs.get? n ≠ none
  above : ∀ n, P < n → fs.get? n = none
  all' : ∀ n, first ≤ n → n ≤ P' → fs'.get? n ≠ none
  above' : ∀ n, P' < n → fs'.get? n = none
  low : ∀ n, n < P → fs'.get? n = fs.get? n
  ext : ∃ g, fs'.get? P = some (fileOf fs P ++ g)

/-- a family that a flush may also leave alone altogether -/
def SegOK4' (fs fs' : NMap Bytes) : Prop :=
  (fs' = fs ∧ NMap.Sorted fs) ∨ ∃ first P P', SegOK4 fs fs' first P P'

theorem SegOK.to4 {fs fs' : NMap Bytes} {P P' : Nat} (h : SegOK fs fs' P P') : SegOK4 fs fs' 0 P P' :=
  ⟨h.sorted, Nat.zero_le _, h.le, fun _ hn => absurd hn (Nat.not_lt_zero _),
    fun _ hn => absurd hn (Nat.not_lt_zero _), fun n _ hn => h.all n hn, h.above,
    fun n _ hn => h.all' n hn, h.above', h.low, h.ext⟩

end Sth
