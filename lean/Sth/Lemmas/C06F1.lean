/-
C06F (1): the invariant of the concurrent model of index Flush next to the index collector (Sth/Model/IgcConc.lean),
and how its per-thread part behaves under the four kinds of change of the shared state: none, an append to the log
(`writeRec`), a publication (`publish`), a marking (`kill`).
-/
import Sth.Model.IgcConc

namespace Sth.IgcConc

/-! ### lists, tables -/

theorem lookup_mem {l : List (Bucket × Pos)} {k : Bucket} {v : Pos} (h : l.lookup k = some v) : (k, v) ∈ l := by
  induction l with
  | nil => simp at h
  | cons e r ih =>
    obtain ⟨a, b⟩ := e
    rw [List.lookup_cons] at h
    split at h
    · rename_i hk
      have : k = a := by simpa using hk
      cases h; subst this; simp
    · exact List.mem_cons_of_mem _ (ih h)

theorem lookup_lt_tableBound {bk : List (Bucket × Pos)} {b : Nat} {p : Pos} (h : bk.lookup b = some p) :
    b < tableBound bk := by
  induction bk with
  | nil => simp at h
  | cons e r ih =>
    obtain ⟨a, q⟩ := e
    rw [List.lookup_cons] at h
    simp only [tableBound]
    split at h
    · rename_i hk
      have : b = a := by simpa using hk
      subst this
      exact Nat.lt_of_lt_of_le (Nat.lt_succ_self _) (Nat.le_max_left _ _)
    · exact Nat.lt_of_lt_of_le (ih h) (Nat.le_max_right _ _)

theorem lookup_publish {bk done : List (Bucket × Pos)} {b : Bucket} {p : Pos}
    (h : (publish bk done).lookup b = some p) : (b, p) ∈ done ∨ bk.lookup b = some p := by
  unfold publish at h
  rw [List.lookup_append] at h
  cases h1 : List.lookup b done.reverse with
  | none => rw [h1] at h; exact .inr (by simpa using h)
  | some q =>
    rw [h1] at h
    have : q = p := by simpa using h
    subst this
    exact .inl (by simpa using lookup_mem h1)

theorem mem_kill {q : Rec → Bool} {log : List Rec} {r' : Rec} (h : r' ∈ kill q log) :
    ∃ r ∈ log, r'.file = r.file ∧ r'.bucket = r.bucket ∧ r'.id = r.id ∧ (q r = false → r' = r) := by
  unfold kill at h
  obtain ⟨r, hr, rfl⟩ := List.mem_map.1 h
  refine ⟨r, hr, ?_⟩
  split <;> simp_all

theorem kill_keeps {q : Rec → Bool} {log : List Rec} {r : Rec} (h : r ∈ log) (hq : q r = false) :
    r ∈ kill q log := by
  unfold kill
  exact List.mem_map.2 ⟨r, h, by simp [hq]⟩

theorem kill_ids {q : Rec → Bool} {log : List Rec} (h : ∀ (k : Nat) (r : Rec), log[k]? = some r → r.id = k) :
    ∀ (k : Nat) (r : Rec), (kill q log)[k]? = some r → r.id = k := by
  intro k r hk
  unfold kill at hk
  rw [List.getElem?_map] at hk
  cases h1 : log[k]? with
  | none => simp [h1] at hk
  | some r0 =>
    simp only [h1, Option.map_some, Option.some.injEq] at hk
    have := h k r0 h1
    subst hk
    split <;> simp_all

theorem append_ids {log : List Rec} {x : Rec} (h : ∀ (k : Nat) (r : Rec), log[k]? = some r → r.id = k)
    (hx : x.id = log.length) : ∀ (k : Nat) (r : Rec), (log ++ [x])[k]? = some r → r.id = k := by
  intro k r hk
  rw [List.getElem?_append] at hk
  split at hk
  · exact h k r hk
  · rename_i hlt
    have hlen : k - log.length = 0 := by
      cases hkk : k - log.length with
      | zero => rfl
      | succ n => simp [hkk] at hk
    simp [hlen] at hk
    subst hk; omega

theorem mem_workList {log : List Rec} {last resumeAt limit : Nat} {x : Rec}
    (h : x ∈ workList log last resumeAt limit) : x ∈ log ∧ x.file < last := by
  unfold workList at h
  have := List.mem_of_mem_take h
  rcases List.mem_append.1 this with h1 | h1
  · have := List.mem_filter.1 h1; simp at this; exact ⟨this.1, this.2.2⟩
  · have := List.mem_filter.1 h1; simp at this; exact ⟨this.1, this.2.2⟩

/-! ### pcs -/

theorem done_of_not_holds (p : Pc) (h : p.holds = false) : p.done = [] := by
  cases p <;> simp_all [Pc.holds, Pc.done]

theorem done_of_bound {p : Pc} {l : Nat} (h : p.bound = some l) : p.done = [] := by
  cases p <;> simp_all [Pc.bound, Pc.done]

theorem holds_of_bound {p : Pc} {l : Nat} (h : p.bound = some l) : p.holds = false := by
  cases p <;> simp_all [Pc.bound, Pc.holds]

/-! ### the invariant -/

/-- what a thread's pc promises about the shared state -/
def ThreadOK (s : State) : Pc → Prop
  | .idle => True
  | .flushing _ _ done => ∀ bp ∈ done, ∃ r ∈ s.log, r.bucket = bp.1 ∧ r.pos = bp.2 ∧ r.deleted = false
  | .gcScan l todo => l ≤ s.fileNum ∧ ∀ x ∈ todo, x.file < l
  | .gcMark l x todo =>
    l ≤ s.fileNum ∧ (∀ y ∈ todo, y.file < l) ∧ x.file < l ∧ s.buckets.lookup x.bucket ≠ some x.pos
  | .freeRead l k busy =>
    l ≤ s.fileNum ∧ ∀ (b : Nat) (p : Pos), s.buckets.lookup b = some p → p.1 < l → k ≤ b → p.1 ∈ busy
  | .freeTrunc l files =>
    l ≤ s.fileNum ∧ ∀ f ∈ files, f < l ∧ ∀ (b : Nat) (p : Pos), s.buckets.lookup b = some p → p.1 ≠ f

structure Inv (s : State) : Prop where
  /-- the id of a record is its ordinal in the log: positions are unique -/
  ids : ∀ (k : Nat) (r : Rec), s.log[k]? = some r → r.id = k
  files : ∀ r ∈ s.log, r.file ≤ s.fileNum
  /-- the table points at records of the log that are not marked deleted -/
  pub : ∀ (b : Bucket) (p : Pos), s.buckets.lookup b = some p → ∃ r ∈ s.log, r.bucket = b ∧ r.pos = p ∧ r.deleted = false
  lockLt : ∀ h : Nat, s.flushLock = some h → h < s.threads.length
  lock : ∀ (i : Nat) (t : Thread), s.threads[i]? = some t → (t.pc.holds = true ↔ s.flushLock = some i)
  thr : ∀ (i : Nat) (t : Thread), s.threads[i]? = some t → ThreadOK s t.pc
  /-- what a Flush has written and not yet published lies in files the collectors in progress do not look at -/
  cross : ∀ (i j : Nat) (ti tj : Thread) (l : Nat), s.threads[i]? = some ti → s.threads[j]? = some tj → ti.pc.bound = some l →
    ∀ bp ∈ tj.pc.done, l ≤ bp.2.1

theorem ThreadOK.bound_le {s : State} {p : Pc} (h : ThreadOK s p) {l : Nat} (hl : p.bound = some l) :
    l ≤ s.fileNum := by
  cases p <;> simp_all [Pc.bound, ThreadOK]

/-- two records of the log at the same position are the same record -/
theorem Inv.unique {s : State} (h : Inv s) {r r' : Rec} (hr : r ∈ s.log) (hr' : r' ∈ s.log) (hid : r.id = r'.id) :
    r = r' := by
  obtain ⟨k, hk⟩ := List.mem_iff_getElem?.1 hr
  obtain ⟨k', hk'⟩ := List.mem_iff_getElem?.1 hr'
  have h1 := h.ids k r hk
  have h2 := h.ids k' r' hk'
  have : k = k' := by omega
  subst this
  rw [hk] at hk'
  exact Option.some.inj hk'

theorem Inv.unlocked_done {s : State} (h : Inv s) (hl : s.flushLock = none) {j : Nat} {u : Thread}
    (hj : s.threads[j]? = some u) : u.pc.done = [] := by
  apply done_of_not_holds
  cases hh : u.pc.holds with
  | false => rfl
  | true => have := (h.lock j u hj).1 hh; simp [hl] at this

/-! ### the per-thread part under changes of the shared state -/

/-- nothing the pcs speak about changed -/
theorem ThreadOK.congr {s s1 : State} (hlog : s1.log = s.log) (hfn : s1.fileNum = s.fileNum)
    (hbk : s1.buckets = s.buckets) {p : Pc} (h : ThreadOK s p) : ThreadOK s1 p := by
  cases p <;> simp only [ThreadOK, hlog, hfn, hbk] at h ⊢ <;> exact h

/-- the log grew, the file number did not decrease -/
theorem ThreadOK.grow {s s1 : State} (hlog : ∀ r ∈ s.log, r ∈ s1.log) (hfn : s.fileNum ≤ s1.fileNum)
    (hbk : s1.buckets = s.buckets) {p : Pc} (h : ThreadOK s p) : ThreadOK s1 p := by
  cases p with
  | idle => trivial
  | flushing todo rolls done =>
    intro bp hbp
    obtain ⟨r, hr, h1⟩ := h bp hbp
    exact ⟨r, hlog r hr, h1⟩
  | gcScan l todo => exact ⟨Nat.le_trans h.1 hfn, h.2⟩
  | gcMark l x todo => exact ⟨Nat.le_trans h.1 hfn, h.2.1, h.2.2.1, by rw [hbk]; exact h.2.2.2⟩
  | freeRead l k busy => exact ⟨Nat.le_trans h.1 hfn, by rw [hbk]; exact h.2⟩
  | freeTrunc l files => exact ⟨Nat.le_trans h.1 hfn, by rw [hbk]; exact h.2⟩

/-- the table changed: every new binding lies at or above the pc's `lastFileNum` -/
theorem ThreadOK.rebind {s s1 : State} (hlog : s1.log = s.log) (hfn : s1.fileNum = s.fileNum) {p : Pc}
    (hbk : ∀ b q, s1.buckets.lookup b = some q → s.buckets.lookup b = some q ∨ ∀ l, p.bound = some l → l ≤ q.1)
    (h : ThreadOK s p) : ThreadOK s1 p := by
  cases p with
  | idle => trivial
  | flushing todo rolls done => simpa [ThreadOK, hlog] using h
  | gcScan l todo => simpa [ThreadOK, hfn] using h
  | gcMark l x todo =>
    refine ⟨hfn ▸ h.1, h.2.1, h.2.2.1, ?_⟩
    intro hx
    rcases hbk _ _ hx with h1 | h1
    · exact h.2.2.2 h1
    · have := h1 l rfl
      have := h.2.2.1
      simp [Rec.pos] at *; omega
  | freeRead l k busy =>
    refine ⟨hfn ▸ h.1, ?_⟩
    intro b q hq hql hkb
    rcases hbk _ _ hq with h1 | h1
    · exact h.2 b q h1 hql hkb
    · have := h1 l rfl; omega
  | freeTrunc l files =>
    refine ⟨hfn ▸ h.1, ?_⟩
    intro f hf
    refine ⟨(h.2 f hf).1, ?_⟩
    intro b q hq
    rcases hbk _ _ hq with h1 | h1
    · exact (h.2 f hf).2 b q h1
    · have := h1 l rfl; have := (h.2 f hf).1; omega

/-- records were marked: none of them is one the pc has written -/
theorem ThreadOK.kill {s s1 : State} {q : Rec → Bool} (hlog : s1.log = kill q s.log) (hfn : s1.fileNum = s.fileNum)
    (hbk : s1.buckets = s.buckets) {p : Pc}
    (hq : ∀ r ∈ s.log, q r = true → ∀ bp ∈ p.done, bp.2.1 ≠ r.file) (h : ThreadOK s p) : ThreadOK s1 p := by
  cases p with
  | idle => trivial
  | flushing todo rolls done =>
    intro bp hbp
    obtain ⟨r, hr, h1, h2, h3⟩ := h bp hbp
    refine ⟨r, ?_, h1, h2, h3⟩
    rw [hlog]
    apply kill_keeps hr
    cases hqr : q r with
    | false => rfl
    | true =>
      have := hq r hr hqr bp hbp
      rw [← h2] at this
      simp [Rec.pos] at this
  | gcScan l todo => simpa [ThreadOK, hfn] using h
  | gcMark l x todo => simpa [ThreadOK, hfn, hbk] using h
  | freeRead l k busy => simpa [ThreadOK, hfn, hbk] using h
  | freeTrunc l files => simpa [ThreadOK, hfn, hbk] using h

end Sth.IgcConc
