import Sth.Props.C11

/-!
C11 P2 at loop level (Q3b): a complete index GC cycle without the free-file scan visits every
non-current file.  Core Lean only.
-/

namespace Sth.C11E

open Sth.C11

/-- without a deadline the scan of one index file never stops early and never fails -/
theorem reapIdxLoop_none {m : Mem} {fnum : Nat} {ss0 : List GSpan} :
    ∀ (fuel : Nat) (st : ReapSt) (done rest : List GSpan),
      LoopInv m fnum m.bits ss0 st done rest → rest.length < fuel → st.budget = none →
      (reapIdxLoop m fnum fuel st).1 = .kept ∧ (reapIdxLoop m fnum fuel st).2.budget = none
  | 0, _, _, _, _, hf, _ => by omega
  | fuel + 1, st, done, rest, h, hf, hbud => by
    rw [reapIdxLoop]
    obtain ⟨bud, hbd⟩ : ∃ bud : Budget, bud = none := ⟨_, rfl⟩
    have hp : poll st.budget = (false, bud) := by rw [hbud, hbd]; rfl
    rw [hp]
    simp only [Bool.false_eq_true, if_false]
    · skip
      have h1 := h.budget bud
      cases rest with
      | nil =>
        have hr : readU32 st.file st.pos = none := by
          rw [h.file, h.pos]; simp only [List.append_nil]; exact readU32_end _
        simp only [hr]
        exact ⟨trivial, hbd⟩
      | cons s rest' =>
        obtain ⟨hfile, hlen⟩ := h.at
        have hr : readU32 st.file st.pos = some s.raw := by
          rw [hfile, h.pos]; exact readU32_span _ _ _ hlen
        have hfuel : rest'.length < fuel := by simp at hf; omega
        simp only [hr]
        by_cases hd : s.dead = true
        · -- a span that is already marked deleted
          have hraw : s.raw = s.body.length + two31 := by unfold GSpan.raw; simp [hd]
          have hge : s.raw ≥ two31 := by omega
          have hsz : s.raw - two31 = s.body.length := by omega
          rw [if_pos hge]
          simp only [hsz]
          by_cases hgt : st.freeAt > st.busyAt
          · simp only [hgt, if_true]
            by_cases hfs : st.freeAtSize + 4 + s.body.length ≥ two31
            · simp only [hfs, if_true]
              exact reapIdxLoop_none fuel _ _ _
                (h1.keep (st' := ⟨st.file, st.pos + 4 + s.body.length, st.pos, st.busyAt, s.body.length, bud⟩) rfl rfl (Or.inl ⟨hd, rfl, rfl, rfl⟩)) hfuel hbd
            · simp only [hfs, if_false]
              obtain ⟨done', hm⟩ := h1.merge (s := s)
                (st' := ⟨setDeleted st.file st.freeAt.toNat (st.freeAtSize + 4 + s.body.length),
                  st.pos + 4 + s.body.length, st.freeAt, st.busyAt,
                  st.freeAtSize + 4 + s.body.length, bud⟩)
                hgt (fun hc => by rw [hd] at hc; cases hc)
                (by show st.freeAtSize + 4 + s.body.length < two31; omega) rfl rfl rfl rfl rfl
              exact reapIdxLoop_none fuel _ _ _ hm hfuel hbd
          · simp only [hgt, if_false]
            exact reapIdxLoop_none fuel _ _ _
              (h1.keep (st' := ⟨st.file, st.pos + 4 + s.body.length, st.pos, st.busyAt, s.body.length, bud⟩) rfl rfl (Or.inl ⟨hd, rfl, rfl, rfl⟩)) hfuel hbd
        · -- a record
          have hd' : s.dead = false := by simpa using hd
          have hraw : s.raw = s.body.length := by unfold GSpan.raw; simp [hd']
          have hlt : ¬ s.raw ≥ two31 := by omega
          rw [if_neg hlt]
          simp only [hraw]
          have hb : readAt st.file (st.pos + 4) s.body.length = some s.body := by
            rw [hfile, h.pos]; exact readAt_span_body _ _ _
          simp only [hb]
          have htag := (h.ok s (by simp)).2 hd'
          obtain ⟨r, hbz⟩ := idxBusy_some (m := m) (pos := st.pos + 4) (fnum := fnum) htag
          simp only [hbz]
          cases r with
          | true =>
            simp only
            exact reapIdxLoop_none fuel _ _ _
              (h1.keep (st' := ⟨st.file, st.pos + 4 + s.body.length, st.freeAt, st.pos, st.freeAtSize, bud⟩) rfl rfl (Or.inr ⟨hd', rfl, rfl⟩)) hfuel hbd
          | false =>
            simp only
            have hnb : ¬ busyB m fnum (st.pos, s.body) := by
              unfold busyB; simp only; rw [hbz]; simp
            by_cases hgt : st.freeAt > st.busyAt
            · simp only [hgt, if_true]
              by_cases hfs : st.freeAtSize + 4 + s.body.length ≥ two31
              · simp only [hfs, if_true]
                have : (st.pos : Int).toNat = st.pos := by simp
                simp only [this]
                exact reapIdxLoop_none fuel _ _ _
                  (h1.kill (st' := ⟨setDeleted st.file st.pos s.body.length, st.pos + 4 + s.body.length, st.pos,
                    st.busyAt, s.body.length, bud⟩) hd' hnb rfl rfl rfl rfl rfl) hfuel hbd
              · simp only [hfs, if_false]
                obtain ⟨done', hm⟩ := h1.merge (s := s)
                  (st' := ⟨setDeleted st.file st.freeAt.toNat (st.freeAtSize + 4 + s.body.length),
                    st.pos + 4 + s.body.length, st.freeAt, st.busyAt,
                    st.freeAtSize + 4 + s.body.length, bud⟩)
                  hgt (fun _ => hnb)
                  (by show st.freeAtSize + 4 + s.body.length < two31; omega) rfl rfl rfl rfl rfl
                exact reapIdxLoop_none fuel _ _ _ hm hfuel hbd
            · simp only [hgt, if_false]
              have : (st.pos : Int).toNat = st.pos := by simp
              simp only [this]
              exact reapIdxLoop_none fuel _ _ _
                (h1.kill (st' := ⟨setDeleted st.file st.pos s.body.length, st.pos + 4 + s.body.length, st.pos,
                  st.busyAt, s.body.length, bud⟩) hd' hnb rfl rfl rfl rfl rfl) hfuel hbd


theorem reapIndexRecords_none {m : Mem} {fnum : Nat} {ss0 : List GSpan}
    (hok : ∀ s ∈ ss0, IdxSpanOK m.bits s) :
    ((reapIndexRecords m fnum (gbytes ss0) none).1 = .stale ∨
      (reapIndexRecords m fnum (gbytes ss0) none).1 = .kept) ∧
    (reapIndexRecords m fnum (gbytes ss0) none).2.2 = none := by
  unfold reapIndexRecords
  by_cases hem : (gbytes ss0).isEmpty = true
  · rw [if_pos hem]; exact ⟨Or.inl rfl, rfl⟩
  · rw [if_neg hem]
    have h0 : LoopInv m fnum m.bits ss0 { file := gbytes ss0, budget := none } [] ss0 :=
      ⟨rfl, rfl, ⟨[], rfl, rfl, by simp, by simp [liveAt]⟩, hok, by simp, by simp⟩
    obtain ⟨k1, k2⟩ := reapIdxLoop_none ((gbytes ss0).length + 2) _ [] ss0 h0
      (by have := gbytes_length_ge ss0; omega) rfl
    cases hres : reapIdxLoop m fnum ((gbytes ss0).length + 2) { file := gbytes ss0, budget := none } with
    | mk r st =>
    rw [hres] at k1 k2
    simp only at k1 k2 ⊢
    subst k1
    simp only
    split
    · split
      · exact ⟨Or.inl rfl, k2⟩
      · exact ⟨Or.inr rfl, k2⟩
    · exact ⟨Or.inr rfl, k2⟩

end Sth.C11E
