/-
C03 over histories with GC cycles — the primary side of a crash image when the primary header's first file
has advanced.
Core Lean only.
-/
import Sth.Lemmas.C03Defs4
import Sth.Lemmas.C03Pri

namespace Sth

structure PFoldSt4 (pf : Nat) (m : Mem) (d : Disk) : Prop where
  le : pf ≤ m.pfileNum
  gone : ∀ f, f < pf → d.pfiles.get? f = none
  all : ∀ f, pf ≤ f → f ≤ m.pfileNum → d.pfiles.get? f ≠ none
  noFiles : ∀ f, m.pfileNum < f → d.pfiles.get? f = none
  sorted : NMap.Sorted d.pfiles

theorem pstep_shape4 {pf : Nat} {m m' : Mem} {d d' : Disk} {r : PRec} (h : pstepMh (m, d) r = some (m', d'))
    (hst : PFoldSt4 pf m d) :
    ∃ fn, (fn = m.pfileNum ∨ fn = m.pfileNum + 1) ∧ m'.pfileNum = fn ∧
      (∀ f, d'.pfiles.get? f =
        if f = fn then some (fileOf d.pfiles fn ++ recBytes r) else d.pfiles.get? f) ∧
      PFoldSt4 pf m' d' ∧ d' = { d with pfiles := d'.pfiles } := by
  unfold pstepMh at h
  simp only at h
  split at h
  · cases h
  · by_cases hroll : m.plength ≥ m.pmax
    · simp only [hroll, if_true, Option.some.injEq, Prod.mk.injEq] at h
      obtain ⟨rfl, rfl⟩ := h
      have hnone : d.pfiles.get? (m.pfileNum + 1) = none := hst.noFiles _ (by omega)
      have hget : ∀ f, ((d.pfiles.set (m.pfileNum + 1) []).set (m.pfileNum + 1)
          (fileOf (d.pfiles.set (m.pfileNum + 1) []) (m.pfileNum + 1) ++
            (le32 (r.key.length + r.val.length) ++ r.key ++ r.val))).get? f =
          if f = m.pfileNum + 1 then some (fileOf d.pfiles (m.pfileNum + 1) ++ recBytes r)
          else d.pfiles.get? f := by
        intro f
        by_cases hf : f = m.pfileNum + 1
        · rw [if_pos hf, hf, NMap.get?_set_eq, fileOf_some (NMap.get?_set_eq _ _ _), fileOf_none hnone]
          rfl
        · rw [if_neg hf, NMap.get?_set_ne _ _ hf, NMap.get?_set_ne _ _ hf]
      have hle := hst.le
      refine ⟨m.pfileNum + 1, Or.inr rfl, rfl, hget, ⟨?_, ?_, ?_, ?_, ?_⟩, rfl⟩
      · show pf ≤ m.pfileNum + 1; omega
      · intro f hf
        simp only
        rw [hget, if_neg (by omega)]
        exact hst.gone f hf
      · intro f hf1 hf
        simp only at hf ⊢
        rw [hget]
        split
        · simp
        · exact hst.all f hf1 (by omega)
      · intro f hf
        simp only at hf ⊢
        rw [hget, if_neg (by omega)]
        exact hst.noFiles f (by omega)
      · exact NMap.sorted_set _ _ (NMap.sorted_set _ _ hst.sorted)
    · simp only [hroll, if_false, Option.some.injEq, Prod.mk.injEq] at h
      obtain ⟨rfl, rfl⟩ := h
      have hget : ∀ f, (d.pfiles.set m.pfileNum (fileOf d.pfiles m.pfileNum ++
            (le32 (r.key.length + r.val.length) ++ r.key ++ r.val))).get? f =
          if f = m.pfileNum then some (fileOf d.pfiles m.pfileNum ++ recBytes r)
          else d.pfiles.get? f := fun f => NMap.get?_set _ _ _ _
      have hle := hst.le
      refine ⟨m.pfileNum, Or.inl rfl, rfl, hget, ⟨hst.le, ?_, ?_, ?_, ?_⟩, rfl⟩
      · intro f hf
        simp only
        rw [hget, if_neg (by omega)]
        exact hst.gone f hf
      · intro f hf1 hf
        simp only at hf ⊢
        rw [hget]
        split
        · simp
        · exact hst.all f hf1 hf
      · intro f hf
        simp only at hf ⊢
        rw [hget, if_neg (by omega)]
        exact hst.noFiles f hf
      · exact NMap.sorted_set _ _ hst.sorted

theorem pfold_seg4 {pf : Nat} : ∀ (recs : List PRec) (m m' : Mem) (d d' : Disk),
    recs.foldlM pstepMh (m, d) = some (m', d') → PFoldSt4 pf m d →
    m.pfileNum ≤ m'.pfileNum ∧ (∀ f, f < m.pfileNum → d'.pfiles.get? f = d.pfiles.get? f) ∧
    (∃ g, d'.pfiles.get? m.pfileNum = some (fileOf d.pfiles m.pfileNum ++ g)) ∧ PFoldSt4 pf m' d' ∧
    d' = { d with pfiles := d'.pfiles }
  | [], m, m', d, d', h, hst => by
    simp only [List.foldlM, pure, Option.some.injEq, Prod.mk.injEq] at h
    obtain ⟨rfl, rfl⟩ := h
    refine ⟨Nat.le_refl _, fun _ _ => rfl, ⟨[], ?_⟩, hst, rfl⟩
    rw [List.append_nil]
    exact get_of_ne_none' (hst.all _ hst.le (Nat.le_refl _))
  | r :: recs, m, m', d, d', h, hst => by
    rw [List.foldlM_cons] at h
    cases hs : pstepMh (m, d) r with
    | none => rw [hs] at h; cases h
    | some md =>
      obtain ⟨m1, d1⟩ := md
      rw [hs] at h
      obtain ⟨fn, hfn, e1, e2, e3, e4⟩ := pstep_shape4 hs hst
      obtain ⟨i1, i2, ⟨g, i3⟩, i4, i5⟩ := pfold_seg4 recs m1 m' d1 d' h e3
      rw [e1] at i1 i2 i3
      refine ⟨by omega, ?_, ?_, i4, ?_⟩
      · intro f hf
        rw [i2 f (by omega), e2, if_neg (by omega)]
      · rcases hfn with hfn | hfn
        · subst hfn
          refine ⟨recBytes r ++ g, ?_⟩
          rw [i3]
          have : fileOf d1.pfiles m.pfileNum = fileOf d.pfiles m.pfileNum ++ recBytes r := by
            unfold fileOf; rw [e2, if_pos rfl]; rfl
          rw [this, List.append_assoc]
        · refine ⟨[], ?_⟩
          rw [i2 _ (by omega), e2, if_neg (by omega), List.append_nil]
          exact get_of_ne_none' (hst.all _ hst.le (Nat.le_refl _))
      · rw [i5, e4]

/-- what `priFlush` does to the disk: only the primary files (an ordered family from the header's first
    file) and the CID file (extended) change -/
theorem priFlush_seg4 {pf : Nat} {m m1 : Mem} {d d1 : Disk} (h : priFlush m d = some (m1, d1))
    (hs : NMap.Sorted d.pfiles)
    (hst : m.kind = .mh → PFoldSt4 pf m d) :
    d1 = { d with pfiles := d1.pfiles, cidfile := d1.cidfile } ∧ NMap.Sorted d1.pfiles ∧
      SegOK4' d.pfiles d1.pfiles ∧ OptExt d.cidfile d1.cidfile ∧
      (m.kind = .mh → ∃ P', SegOK4 d.pfiles d1.pfiles pf m.pfileNum P' ∧ d1.cidfile = d.cidfile ∧
        PFoldSt4 pf m1 d1) ∧
      (m.kind = .cid → d1.pfiles = d.pfiles) := by
  by_cases hne : m.pnext.isEmpty = true
  · rw [priFlush_empty hne] at h
    simp only [Option.some.injEq, Prod.mk.injEq] at h
    obtain ⟨rfl, rfl⟩ := h
    refine ⟨rfl, hs, Or.inl ⟨rfl, hs⟩, Or.inl rfl, ?_, fun _ => rfl⟩
    intro hk
    have := hst hk
    refine ⟨m.pfileNum, ⟨hs, this.le, Nat.le_refl _, this.gone, this.gone, this.all, this.noFiles,
      this.all, this.noFiles, fun _ _ => rfl, ⟨[], ?_⟩⟩, rfl, this⟩
    rw [List.append_nil]
    exact get_of_ne_none' (this.all _ this.le (Nat.le_refl _))
  · have hne' : m.pnext.isEmpty = false := by simpa using hne
    rcases kind_cases m with hk | hk
    · rw [priFlush_mh_eq hk hne'] at h
      have hst0 : PFoldSt4 pf { m with pcur := m.pnext, pnext := [] } d :=
        ⟨(hst hk).le, (hst hk).gone, (hst hk).all, (hst hk).noFiles, hs⟩
      obtain ⟨i1, i2, i3, i4, i5⟩ := pfold_seg4 _ _ _ _ _ h hst0
      have hseg : SegOK4 d.pfiles d1.pfiles pf m.pfileNum m1.pfileNum :=
        ⟨i4.sorted, (hst hk).le, i1, (hst hk).gone, i4.gone, (hst hk).all, (hst hk).noFiles, i4.all,
          i4.noFiles, i2, i3⟩
      have hcid : d1.cidfile = d.cidfile := by rw [i5]
      refine ⟨?_, i4.sorted, Or.inr ⟨_, _, _, hseg⟩, Or.inl hcid, fun _ => ⟨_, hseg, hcid, i4⟩, ?_⟩
      · rw [i5]
      · intro hk'; rw [hk] at hk'; cases hk'
    · rw [priFlush_cid_eq hk hne'] at h
      simp only [Option.some.injEq, Prod.mk.injEq] at h
      obtain ⟨rfl, rfl⟩ := h
      refine ⟨rfl, hs, Or.inl ⟨rfl, hs⟩, Or.inr ⟨_, rfl⟩, ?_, fun _ => rfl⟩
      intro hk'; rw [hk] at hk'; cases hk'

/-! ### a cut through an ordered family keeps files `first..M`, each an extension of the old file -/

theorem SegOK4.ext_all {fs fs' : NMap Bytes} {first P P' : Nat} (h : SegOK4 fs fs' first P P') :
    ∀ f, first ≤ f → f ≤ P' → ∃ j, fs'.get? f = some (fileOf fs f ++ j) := by
  intro f hf1 hf
  rcases Nat.lt_trichotomy f P with hlt | heq | hgt
  · refine ⟨[], ?_⟩
    rw [h.low f hlt, List.append_nil]
    exact get_of_ne_none' (h.all f hf1 (by omega))
  · subst heq; exact h.ext
  · rw [fileOf_none (h.above f hgt)]
    cases hg : fs'.get? f with
    | none => exact absurd hg (h.all' f hf1 hf)
    | some x => exact ⟨x, rfl⟩

theorem cutImg_below4 {fs fs' fi : NMap Bytes} {first P P' : Nat} (hseg : SegOK4 fs fs' first P P')
    (hc : CutImg fs fs' fi) : ∀ f, f < first → fi.get? f = none := by
  obtain ⟨nc, h1, h2, h3, h4⟩ := hc
  intro f hf
  rcases Nat.lt_trichotomy f nc with hlt | heq | hgt
  · rw [h1 f hlt]; exact hseg.gone' f hf
  · subst heq
    rcases h2 with h2 | ⟨g, t, e1, _⟩
    · rw [h2]; exact hseg.gone f hf
    · rw [hseg.gone' f hf] at e1; cases e1
  · by_cases hf1 : f = nc + 1
    · subst hf1
      rcases h3 with h3 | ⟨_, _, e3, _⟩
      · rw [h3]; exact hseg.gone _ hf
      · exact absurd (hseg.gone' _ hf) e3
    · rw [h4 f (by omega)]; exact hseg.gone f hf

theorem cutImg_ext4 {fs fs' fi : NMap Bytes} {first P P' : Nat} (hseg : SegOK4 fs fs' first P P')
    (hc : CutImg fs fs' fi) :
    ∃ M, P ≤ M ∧ M ≤ P' ∧ (∀ f, first ≤ f → f ≤ M → ∃ j, fi.get? f = some (fileOf fs f ++ j)) ∧
      (∀ f, M < f → fi.get? f = none) := by
  obtain ⟨nc, h1, h2, h3, h4⟩ := hc
  have hP' : ∀ f, fs'.get? f ≠ none → f ≤ P' := by
    intro f hf
    rcases Nat.lt_or_ge P' f with h | h
    · exact absurd (hseg.above' f h) hf
    · exact h
  have hfs' := hseg.ext_all
  have hlo := hseg.lo
  have hle := hseg.le
  have hold : ∀ f, first ≤ f → f ≤ P → fs.get? f = some (fileOf fs f ++ []) := by
    intro f hf1 hf
    rw [List.append_nil]; exact get_of_ne_none' (hseg.all f hf1 hf)
  have hat : ∃ j, fi.get? nc = some (fileOf fs nc ++ j) ∨ (fi.get? nc = none ∧ fs.get? nc = none) := by
    rcases h2 with h2 | ⟨g, t, _, e2⟩
    · cases hg : fs.get? nc with
      | none => exact ⟨[], Or.inr ⟨by rw [h2, hg], rfl⟩⟩
      | some x =>
        refine ⟨[], Or.inl ?_⟩
        rw [h2, hg, fileOf_some hg, List.append_nil]
    · exact ⟨g.take t, Or.inl e2⟩
  by_cases hcP : nc ≤ P
  · -- the cut is at or below the old current file: all old files are there
    have hP : ∀ f, first ≤ f → f ≤ P → ∃ j, fi.get? f = some (fileOf fs f ++ j) := by
      intro f hf1 hf
      rcases Nat.lt_trichotomy f nc with hlt | heq | hgt
      · rw [h1 f hlt]; exact hfs' f hf1 (by omega)
      · subst heq
        obtain ⟨j, hj | ⟨_, hj⟩⟩ := hat
        · exact ⟨j, hj⟩
        · exact absurd hj (hseg.all f hf1 hf)
      · by_cases hfn : f = nc + 1
        · subst hfn
          rcases h3 with h3 | ⟨_, e1, _, _⟩
          · exact ⟨[], by rw [h3]; exact hold _ hf1 hf⟩
          · exact absurd e1 (hseg.all _ hf1 hf)
        · exact ⟨[], by rw [h4 f (by omega)]; exact hold f hf1 hf⟩
    have habove : ∀ f, P + 1 < f → fi.get? f = none := by
      intro f hf
      rw [h4 f (by omega)]; exact hseg.above f (by omega)
    by_cases hnP : nc = P
    · subst hnP
      rcases h3 with h3 | ⟨_, e1, e3, e4⟩
      · refine ⟨nc, Nat.le_refl _, hseg.le, hP, ?_⟩
        intro f hf
        by_cases hf1 : f = nc + 1
        · rw [hf1, h3]; exact hseg.above _ (by omega)
        · exact habove f (by omega)
      · refine ⟨nc + 1, by omega, hP' _ e3, ?_, habove⟩
        intro f hf1 hf
        by_cases hfn : f = nc + 1
        · exact ⟨[], by rw [hfn, e4, fileOf_none e1]; rfl⟩
        · exact hP f hf1 (by omega)
    · refine ⟨P, Nat.le_refl _, hseg.le, hP, ?_⟩
      intro f hf
      by_cases hf1 : f = P + 1
      · rw [hf1]
        by_cases hf2 : P + 1 = nc + 1
        · omega
        · rw [h4 _ (by omega)]; exact hseg.above _ (by omega)
      · exact habove f (by omega)
  · -- the cut is above the old current file
    have hcP' : P < nc := by omega
    have hnone_above : ∀ f, nc + 1 < f → fi.get? f = none := by
      intro f hf
      rw [h4 f hf]; exact hseg.above f (by omega)
    have hfsnc : fs.get? nc = none := hseg.above nc hcP'
    obtain ⟨j, hj | ⟨hj, _⟩⟩ := hat
    · -- file nc exists in the image
      have hncP' : nc ≤ P' := by
        rcases h2 with h2 | ⟨g, t, e1, _⟩
        · rw [h2, hfsnc] at hj; cases hj
        · rcases Nat.lt_or_ge P' nc with h | h
          · rw [hseg.above' nc h] at e1; cases e1
          · exact h
      have hlow : ∀ f, first ≤ f → f ≤ nc → ∃ j, fi.get? f = some (fileOf fs f ++ j) := by
        intro f hf1 hf
        rcases Nat.lt_or_ge f nc with hlt | hge
        · rw [h1 f hlt]; exact hfs' f hf1 (by omega)
        · have : f = nc := by omega
          subst this; exact ⟨j, hj⟩
      rcases h3 with h3 | ⟨_, e1, e3, e4⟩
      · refine ⟨nc, by omega, hncP', hlow, ?_⟩
        intro f hf
        by_cases hf1 : f = nc + 1
        · rw [hf1, h3]; exact hseg.above _ (by omega)
        · exact hnone_above f (by omega)
      · refine ⟨nc + 1, by omega, hP' _ e3, ?_, hnone_above⟩
        intro f hf1 hf
        by_cases hfn : f = nc + 1
        · exact ⟨[], by rw [hfn, e4, fileOf_none e1]; rfl⟩
        · exact hlow f hf1 (by omega)
    · -- file nc does not exist in the image
      have hn1 : fi.get? (nc + 1) = none := by
        rcases h3 with h3 | ⟨e0, _, _, _⟩
        · rw [h3]; exact hseg.above _ (by omega)
        · exact absurd hj e0
      refine ⟨min (nc - 1) P', by omega, by omega, ?_, ?_⟩
      · intro f hf1 hf
        rw [h1 f (by omega)]; exact hfs' f hf1 (by omega)
      · intro f hf
        rcases Nat.lt_trichotomy f nc with hlt | heq | hgt
        · rw [h1 f hlt]; exact hseg.above' f (by omega)
        · rw [heq]; exact hj
        · by_cases hf1 : f = nc + 1
          · rw [hf1]; exact hn1
          · exact hnone_above f (by omega)

end Sth
