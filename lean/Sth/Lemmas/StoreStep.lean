/-
The five keyed store calls against the specification map (C01, layer 1): outputs agree and the
observational invariant is preserved. No assumption on disk contents beyond the observations.
Core Lean only.
-/
import Sth.Lemmas.StoreInv

namespace Sth

/-! ### small state updates -/

def setNext (m : Mem) (b : Nat) (rl : RecordList) : Mem := { m with inext := m.inext.set b rl }
def addFree (m : Mem) (blk : Block) : Mem := { m with flpool := m.flpool ++ [blk] }

theorem priGet_setNext (m : Mem) (d : Disk) (b : Nat) (rl : RecordList) :
    priGet (setNext m b rl) d = priGet m d := rfl
theorem priGet_addFree (m : Mem) (d : Disk) (blk : Block) : priGet (addFree m blk) d = priGet m d := rfl
theorem below_setNext (m : Mem) (b : Nat) (rl : RecordList) : Below (setNext m b rl) = Below m := rfl
theorem below_addFree (m : Mem) (blk : Block) : Below (addFree m blk) = Below m := rfl
theorem idxRecords_addFree (m : Mem) (d : Disk) (blk : Block) :
    idxRecords (addFree m blk) d = idxRecords m d := rfl
theorem idxRecords_setNext' (m : Mem) (d : Disk) (b : Nat) (rl : RecordList) (b' : Nat) :
    idxRecords (setNext m b rl) d b' = if b' = b then .ok (some rl) else idxRecords m d b' :=
  idxRecords_setNext m d b rl b'

/-! ### index write equations -/

theorem idxPut_eq {m : Mem} {d : Disk} {dig sk : Bytes} {b : Nat} {recs : Option RecordList}
    {loc : Block} {rl : RecordList}
    (hb : bucketOfKey m.bits dig = some b) (hs : stripKey m.bits dig = some sk)
    (hr : idxRecords m d b = .ok recs) (hp : indexPut (fullOf m d) recs sk loc = .set rl) :
    idxPut m d dig loc = .ok (setNext m b (normRL rl)) := by
  unfold idxPut
  simp only [hb, hr, hs, Option.getD_some, hp]
  rfl

theorem idxUpdate_eq {m : Mem} {d : Disk} {dig sk : Bytes} {b : Nat} {recs : Option RecordList}
    {loc : Block} {rl : RecordList}
    (hb : bucketOfKey m.bits dig = some b) (hs : stripKey m.bits dig = some sk)
    (hr : idxRecords m d b = .ok recs) (hp : indexUpdate recs sk loc = some rl) :
    idxUpdate m d dig loc = .ok (setNext m b (normRL rl)) := by
  unfold idxUpdate
  simp only [hb, hr, hs, Option.getD_some, hp]
  rfl

theorem idxRemove_eq {m : Mem} {d : Disk} {dig sk : Bytes} {b : Nat} {recs : Option RecordList}
    {rl : RecordList}
    (hb : bucketOfKey m.bits dig = some b) (hs : stripKey m.bits dig = some sk)
    (hr : idxRecords m d b = .ok recs) (hp : indexRemove recs sk = some rl) :
    idxRemove m d dig = .ok (setNext m b (normRL rl), true) := by
  unfold idxRemove
  simp only [hb, hr, hs, Option.getD_some, hp]
  rfl

theorem idxGet_short {m : Mem} {d : Disk} {dig : Bytes} (h : dig.length < 4) :
    idxGet m d dig = .error .keyTooShort := by
  unfold idxGet bucketOfKey
  simp only [h, if_true]

/-! ### malformed keys -/

theorem keyClass_err {kind : PKind} {k : Bytes} {e : Err} (h : keyClass kind k = .error e) :
    (indexKeyOf kind k = none ∧ e = .badKey) ∨
      (∃ dig, indexKeyOf kind k = some dig ∧ dig.length < 4 ∧ e = .keyTooShort) := by
  unfold keyClass at h
  cases hi : indexKeyOf kind k with
  | none => simp only [hi] at h; cases h; exact Or.inl ⟨rfl, rfl⟩
  | some dig =>
    simp only [hi] at h
    split at h
    · cases h; exact Or.inr ⟨dig, rfl, by assumption, rfl⟩
    · cases h

theorem storeGet_bad {m : Mem} {d : Disk} {k : Bytes} {e : Err} (h : keyClass m.kind k = .error e) :
    storeGet m d k = (m, .err e) := by
  rcases keyClass_err h with ⟨h1, rfl⟩ | ⟨dig, h1, h2, rfl⟩
  · unfold storeGet; simp only [h1]
  · unfold storeGet; simp only [h1, idxGet_short h2]

theorem storeHas_bad {m : Mem} {d : Disk} {k : Bytes} {e : Err} (h : keyClass m.kind k = .error e) :
    storeHas m d k = .err e := by
  rcases keyClass_err h with ⟨h1, rfl⟩ | ⟨dig, h1, h2, rfl⟩
  · unfold storeHas; simp only [h1]
  · unfold storeHas; simp only [h1, idxGet_short h2]

theorem storeGetSize_bad {m : Mem} {d : Disk} {k : Bytes} {e : Err} (h : keyClass m.kind k = .error e) :
    storeGetSize m d k = .err e := by
  rcases keyClass_err h with ⟨h1, rfl⟩ | ⟨dig, h1, h2, rfl⟩
  · unfold storeGetSize; simp only [h1]
  · unfold storeGetSize; simp only [h1, idxGet_short h2]

theorem storePut_bad {m : Mem} {d : Disk} {k v : Bytes} {e : Err} (h : keyClass m.kind k = .error e) :
    storePut m d k v = (m, .err e) := by
  rcases keyClass_err h with ⟨h1, rfl⟩ | ⟨dig, h1, h2, rfl⟩
  · unfold storePut; simp only [h1]
  · unfold storePut; simp only [h1, idxGet_short h2]

theorem storeRemove_bad {m : Mem} {d : Disk} {k : Bytes} {e : Err} (h : keyClass m.kind k = .error e) :
    storeRemove m d k = (m, .err e) := by
  rcases keyClass_err h with ⟨h1, rfl⟩ | ⟨dig, h1, h2, rfl⟩
  · unfold storeRemove; simp only [h1]
  · unfold storeRemove; simp only [h1, idxGet_short h2]

/-! ### lookup of a well-formed key -/

abbrev SInv (U : List (Bytes × Bytes)) (m : Mem) (d : Disk) (spec : Spec) : Prop :=
  AInv m.kind m.bits U (priGet m d) (idxRecords m d) (Below m) spec

/-- what the index + primary lookup of a well-formed key yields -/
inductive Looked (U : List (Bytes × Bytes)) (m : Mem) (d : Disk) (spec : Spec) (key dig : Bytes) : Prop
  | present (val : Bytes) (b : Nat) (pre : RecordList) (e : Entry) (post : RecordList)
      (hs : Spec.get spec dig = some (key, val))
      (hb : bucketOfKey m.bits dig = some b)
      (hr : idxRecords m d b = .ok (some (pre ++ e :: post)))
      (ho : OInv (ownOf m.kind m.bits (priGet m d)) (pre ++ e :: post))
      (hB : ∀ x ∈ pre ++ e :: post, BlockOK m.kind m.bits U (priGet m d) (Below m) spec b x.blk)
      (hp : priGet m d e.blk = .got key val)
      (hown : ownOf m.kind m.bits (priGet m d) e.blk = some (dig.drop (m.bits / 8)))
      (hsz : e.blk.size = key.length + val.length)
      (hg : idxGet m d dig = .ok (some e.blk)) : Looked U m d spec key dig
  | absent (b : Nat) (orl : Option RecordList)
      (hs : Spec.get spec dig = none)
      (hb : bucketOfKey m.bits dig = some b)
      (hr : idxRecords m d b = .ok orl)
      (ho : OInv (ownOf m.kind m.bits (priGet m d)) (orl.getD []))
      (hB : ∀ x ∈ orl.getD [], BlockOK m.kind m.bits U (priGet m d) (Below m) spec b x.blk)
      (hg : idxGet m d dig = .ok none ∨ ∃ blk k' v' dig', idxGet m d dig = .ok (some blk) ∧
        priGet m d blk = .got k' v' ∧ indexKeyOf m.kind k' = some dig' ∧ dig' ≠ dig) :
      Looked U m d spec key dig

theorem lookup {U : List (Bytes × Bytes)} {m : Mem} {d : Disk} {spec : Spec}
    (hU : Univ m.kind U) (h31 : m.bits ≤ 31) (hI : SInv U m d spec) {key dig : Bytes}
    (hk : (key, dig) ∈ U) : Looked U m d spec key dig := by
  have hd := hU.dig hk
  cases hs : Spec.get spec dig with
  | some kv =>
    obtain ⟨key', val⟩ := kv
    obtain ⟨rfl, b, pre, e, post, h1, h2, h3, h4, h5, h6, h7, h8⟩ := hI.present hU h31 hk hs
    refine .present val b pre e post hs h1 h2 h3 h4 h5 h6 h7 ?_
    rw [idxGet_eq h1 (stripKey_of_bucket m.bits h31 dig b h1).1 h2]
    simp only [Option.bind_some, h8]
  | none =>
    obtain ⟨b, hb⟩ := bucketOfKey_isSome (bits := m.bits) hd.2.1
    obtain ⟨orl, g1, g2, g3, g4⟩ := hI.absent hU (b := b) hs (dig.drop (m.bits / 8))
    refine .absent b orl hs hb g1 g2 g3 ?_
    rw [idxGet_eq hb (stripKey_of_bucket m.bits h31 dig b hb).1 g1]
    cases orl with
    | none => left; rfl
    | some rl =>
      simp only [Option.bind_some]
      cases hg : rlGet rl (dig.drop (m.bits / 8)) with
      | none => left; rfl
      | some blk =>
        right
        obtain ⟨k', v', dig', e1, e2, e3⟩ := g4 rl rfl blk hg
        exact ⟨blk, k', v', dig', rfl, e1, e2, e3⟩

/-! ### read-only calls -/

section
variable {U : List (Bytes × Bytes)} {m : Mem} {d : Disk} {spec : Spec}

theorem storeGet_ok (hU : Univ m.kind U) (h31 : m.bits ≤ 31) (hI : SInv U m d spec) {key dig : Bytes}
    (hk : (key, dig) ∈ U) :
    storeGet m d key = (m, match Spec.get spec dig with
      | some (_, v) => .found v
      | none => .absent) := by
  have hik := (hU.dig hk).1
  cases lookup hU h31 hI hk with
  | present val b pre e post hs hb hr ho hB hp hown hsz hg =>
    unfold storeGet
    simp only [hik, hg, gpkd_hit hp hik, hs]
  | absent b orl hs hb hr ho hB hg =>
    unfold storeGet
    rcases hg with hg | ⟨blk, k', v', dig', hg, e1, e2, e3⟩
    · simp only [hik, hg, hs]
    · simp only [hik, hg, gpkd_miss e1 e2 e3, hs]

theorem storeHas_ok (hU : Univ m.kind U) (h31 : m.bits ≤ 31) (hI : SInv U m d spec) {key dig : Bytes}
    (hk : (key, dig) ∈ U) :
    storeHas m d key = .val (Spec.get spec dig).isSome := by
  have hik := (hU.dig hk).1
  cases lookup hU h31 hI hk with
  | present val b pre e post hs hb hr ho hB hp hown hsz hg =>
    unfold storeHas priGetIndexKey
    simp only [hik, hg, hp, hs, Option.isSome_some, decide_true]
  | absent b orl hs hb hr ho hB hg =>
    unfold storeHas priGetIndexKey
    rcases hg with hg | ⟨blk, k', v', dig', hg, e1, e2, e3⟩
    · simp only [hik, hg, hs, Option.isSome_none]
    · simp only [hik, hg, e1, e2, e3, hs, Option.isSome_none, decide_false]

theorem storeGetSize_ok (hU : Univ m.kind U) (h31 : m.bits ≤ 31) (hI : SInv U m d spec)
    {key dig : Bytes} (hk : (key, dig) ∈ U) :
    storeGetSize m d key = match Spec.get spec dig with
      | some (_, v) => .found v.length
      | none => .absent := by
  have hik := (hU.dig hk).1
  cases lookup hU h31 hI hk with
  | present val b pre e post hs hb hr ho hB hp hown hsz hg =>
    unfold storeGetSize priGetIndexKey
    simp only [hik, hg, hp, hs, if_true, hsz, Nat.add_sub_cancel_left]
  | absent b orl hs hb hr ho hB hg =>
    unfold storeGetSize priGetIndexKey
    rcases hg with hg | ⟨blk, k', v', dig', hg, e1, e2, e3⟩
    · simp only [hik, hg, hs]
    · simp only [hik, hg, e1, e2, e3, hs, if_false]

end

end Sth
