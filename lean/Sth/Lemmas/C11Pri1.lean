import Sth.Lemmas.C11Reach

/-!
C11, primary side (1): what applying freelist entries does to the record spans, exactly — every
record span named (offset and size) by an applied entry is marked deleted and its file recorded as
affected, no other span changes.  Core Lean only.
-/

namespace Sth.C11

/-- how applying the freelist entries `K` changes the record spans; `aff` = the affected files -/
structure Kills (m : Mem) (pf : Nat) (K : Block → Prop) (psp psp' : Nat → List GSpan)
    (aff : List Nat) : Prop where
  sub : ∀ g x, x ∈ liveAt 0 (psp' g) → x ∈ liveAt 0 (psp g)
  kept : ∀ g x, pf ≤ g → g ≤ m.pfileNum → x ∈ liveAt 0 (psp g) →
    x ∈ liveAt 0 (psp' g) ∨ (K ⟨m.pmax * g + x.1, x.2.length⟩ ∧ g ∈ aff)
  dead : ∀ g x, pf ≤ g → g ≤ m.pfileNum → x ∈ liveAt 0 (psp' g) →
    ¬ K ⟨m.pmax * g + x.1, x.2.length⟩
  same : ∀ g, liveAt 0 (psp g) = [] → psp' g = psp g
  len : ∀ g, (gbytes (psp' g)).length = (gbytes (psp g)).length

theorem Kills.refl {m : Mem} {pf : Nat} {K : Block → Prop} {psp : Nat → List GSpan} {aff : List Nat}
    (h : ∀ g x, pf ≤ g → g ≤ m.pfileNum → x ∈ liveAt 0 (psp g) →
      ¬ K ⟨m.pmax * g + x.1, x.2.length⟩) : Kills m pf K psp psp aff :=
  ⟨fun _ _ h => h, fun _ _ _ _ h => Or.inl h, h, fun _ _ => rfl, fun _ => rfl⟩

theorem Kills.trans {m : Mem} {pf : Nat} {K1 K2 : Block → Prop} {psp psp1 psp2 : Nat → List GSpan}
    {aff1 aff2 : List Nat} (h1 : Kills m pf K1 psp psp1 aff1) (h2 : Kills m pf K2 psp1 psp2 aff2)
    (ha : ∀ g ∈ aff1, g ∈ aff2) : Kills m pf (fun b => K1 b ∨ K2 b) psp psp2 aff2 := by
  refine ⟨fun g x hx => h1.sub g x (h2.sub g x hx), ?_, ?_, ?_, fun g => by rw [h2.len, h1.len]⟩
  · intro g x g1 g2 hx
    rcases h1.kept g x g1 g2 hx with h | ⟨h, h'⟩
    · rcases h2.kept g x g1 g2 h with h3 | ⟨h3, h4⟩
      · exact Or.inl h3
      · exact Or.inr ⟨Or.inr h3, h4⟩
    · exact Or.inr ⟨Or.inl h, ha g h'⟩
  · intro g x g1 g2 hx hk
    rcases hk with hk | hk
    · exact h1.dead g x g1 g2 (h2.sub g x hx) hk
    · exact h2.dead g x g1 g2 hx hk
  · intro g hg
    have e := h1.same g hg
    rw [h2.same g (by rw [e]; exact hg), e]

theorem Kills.mono {m : Mem} {pf : Nat} {K K' : Block → Prop} {psp psp' : Nat → List GSpan}
    {aff : List Nat} (h : Kills m pf K psp psp' aff) (hk : ∀ b, K b ↔ K' b) :
    Kills m pf K' psp psp' aff :=
  ⟨h.sub, fun g x g1 g2 hx => (h.kept g x g1 g2 hx).imp id (fun ⟨a, b⟩ => ⟨(hk _).mp a, b⟩),
    fun g x g1 g2 hx hc => h.dead g x g1 g2 hx ((hk _).mpr hc), h.same, h.len⟩

/-- a span marked deleted is not a record span -/
theorem liveAt_kill_not {a b : List GSpan} {body : Bytes} {x : Nat × Bytes}
    (hx : x ∈ liveAt 0 (a ++ (⟨true, body⟩ : GSpan) :: b)) : x.1 ≠ (gbytes a).length := by
  rw [liveAt_append] at hx
  simp only [List.mem_append] at hx
  rcases hx with hx | hx
  · have := (liveAt_bound (ss := a) (base := 0) (off := x.1) (body := x.2) hx).2
    omega
  · simp only [liveAt, if_true, GSpan.bytes_length] at hx
    have := (liveAt_bound (ss := b) (off := x.1) (body := x.2) hx).1
    omega

section
variable {c : Cfg} {U : List (Bytes × Bytes)} {cfg : Cfg} {m : Mem} {d : Disk} {spec : Spec}
  {n B : Nat} {pf : Nat} {psp : Nat → List GSpan}

/-- a record span and a word with the deleted bit cannot start at the same offset -/
theorem live_not_deadMark {ss : List GSpan} {lp : Nat} {body : Bytes} (hx : (lp, body) ∈ liveAt 0 ss)
    (hlen : body.length < two31) (hd : DeadMark ss lp) : False := by
  obtain ⟨raw, r1, r2⟩ := hd.read
  rw [(span_reads hx hlen).1] at r1
  cases r1
  omega

/-- marking a record span deleted, with the new span lists exposed -/
theorem kill_step' (hl : PriLog m d pf psp) {f lp : Nat} {body : Bytes} (h1 : pf ≤ f)
    (h2 : f ≤ m.pfileNum) {a b : List GSpan} (hs : psp f = a ++ (⟨false, body⟩ : GSpan) :: b)
    (e : (gbytes a).length = lp)
    (hne : ∀ blk, IsEnt m d blk → blk.off ≠ m.pmax * f + lp) :
    setDeleted (gbytes (psp f)) lp body.length = gbytes (a ++ (⟨true, body⟩ : GSpan) :: b) ∧
      PriLog m { d with pfiles := d.pfiles.set f (gbytes (a ++ (⟨true, body⟩ : GSpan) :: b)) } pf
        (fun f' => if f' = f then a ++ (⟨true, body⟩ : GSpan) :: b else psp f') ∧
      (∀ blk body', IsEnt m d blk → OnDisk m pf psp blk body' →
        OnDisk m pf (fun f' => if f' = f then a ++ (⟨true, body⟩ : GSpan) :: b else psp f') blk body') ∧
      (∀ fb, FreeLoc m pf psp fb →
        FreeLoc m pf (fun f' => if f' = f then a ++ (⟨true, body⟩ : GSpan) :: b else psp f') fb) := by
  have hlen : body.length < two31 := hl.ok f h1 h2 ⟨false, body⟩ (by rw [hs]; simp)
  refine ⟨?_, ?_, ?_, ?_⟩
  · rw [hs, ← e, gbytes_append, gbytes_cons, setDeleted_kill, gbytes_append, gbytes_cons]
  · constructor
    · exact hl.le
    · intro f' hf'
      show (d.pfiles.set f _).get? f' = none
      rw [NMap.get?_set_ne _ _ (by omega)]
      exact hl.gone f' hf'
    · intro f' g1 g2
      show (d.pfiles.set f _).get? f' = _
      by_cases hff : f' = f
      · rw [hff, NMap.get?_set_eq]; simp
      · rw [NMap.get?_set_ne _ _ hff, if_neg hff]; exact hl.files f' g1 g2
    · intro f' g1 g2 s hs'
      by_cases hff : f' = f
      · simp only [hff, if_true, List.mem_append, List.mem_cons] at hs'
        rcases hs' with hs' | rfl | hs'
        · exact hl.ok f h1 h2 s (by rw [hs]; simp [hs'])
        · exact hlen
        · exact hl.ok f h1 h2 s (by rw [hs]; simp [hs'])
      · simp only [hff, if_false] at hs'
        exact hl.ok f' g1 g2 s hs'
    · intro f' g1 g2 x hx'
      by_cases hff : f' = f
      · simp only [hff, if_true] at hx'
        exact hl.starts f h1 h2 x (by rw [hs]; exact liveAt_kill_sub hx')
      · simp only [hff, if_false] at hx'
        exact hl.starts f' g1 g2 x hx'
  · rintro blk body' hent ⟨f', lp', e1, e2, e3, e4, e5⟩
    refine ⟨f', lp', e1, e2, e3, ?_, e5⟩
    by_cases hff : f' = f
    · subst hff
      simp only [if_true]
      rw [hs] at e4
      apply liveAt_kill_other e4
      intro hc
      simp only at hc
      exact hne blk hent (by rw [e1, hc, e])
    · simp only [hff, if_false]; exact e4
  · intro fb hfb
    apply freeLoc_mono hfb (Nat.le_refl _)
    intro f' lp' g1 g2 hst
    right
    by_cases hff : f' = f
    · subst hff
      unfold FSt at hst ⊢
      simp only [if_true]
      rw [hs] at hst
      rcases hst with ⟨k1, k2⟩ | ⟨body', k⟩ | k
      · exact Or.inl ⟨k1, by rw [gbytes_kill_length]; exact k2⟩
      · by_cases hlp : lp' = (gbytes a).length
        · right; right
          rw [hlp]
          exact DeadMark.killed hlen
        · right; left
          exact ⟨body', liveAt_kill_other k (by simpa using hlp)⟩
      · exact Or.inr (Or.inr k.kill)
    · unfold FSt at hst ⊢
      simp only [hff, if_false]
      exact hst

/-- applying one freelist entry, with its exact effect on the record spans -/
theorem delStep_f (hS : GState c U cfg m d spec n B pf psp) (hn : n < 1073741824)
    (hpn : m.pnext = []) {fb : Block} (hfb : FreeOK m d pf psp fb) (aff : List Nat) :
    ∃ psp', GState c U cfg m { d with pfiles := (delStep m.pmax (d.pfiles, aff) fb).1 } spec n B pf psp' ∧
      Kills m pf (fun b => b = fb) psp psp' (delStep m.pmax (d.pfiles, aff) fb).2 ∧
      (∀ g ∈ aff, g ∈ (delStep m.pmax (d.pfiles, aff) fb).2) := by
  have hG := hS.g
  have hk : m.kind = .mh := hG.kind
  have hp : 1 ≤ m.pmax := hG.pmax1
  obtain ⟨q1, q2, q3, q4, q5⟩ := hfb
  rcases q3 with ⟨r, hr, _⟩ | ⟨f, lp, e1, e2, q⟩
  · rw [hpn] at hr; cases hr
  have hf32 : f < two32 := by
    unfold Below at q1
    simp only [hk] at q1
    obtain ⟨f', lp', x1, x2, x3⟩ := q1
    obtain ⟨rfl, rfl⟩ := divmod_unique (by rw [← e1, ← x1]) e2 x2
    have : m.precFileNum ≤ n := hG.cntF
    unfold two32
    rcases x3 with x3 | ⟨x3, _⟩ <;> omega
  have hloc : localizePri m.pmax fb.off = (lp, f) := by rw [e1]; exact localizePri_eq hp e2 hf32
  -- a record span named by `fb` lies in file `f` at `lp`
  have hnamed : ∀ g x, pf ≤ g → g ≤ m.pfileNum → x ∈ liveAt 0 (psp g) →
      (⟨m.pmax * g + x.1, x.2.length⟩ : Block) = fb → g = f ∧ x.1 = lp ∧ x.2.length = fb.size := by
    intro g x g1 g2 hx hb
    have hoff : m.pmax * g + x.1 = m.pmax * f + lp := by rw [← e1, ← hb]
    have := divmod_unique hoff (hS.log.starts g g1 g2 x hx) e2
    exact ⟨this.1, this.2, by rw [← hb]⟩
  -- the cases in which nothing changes
  have hsame : (∀ g x, pf ≤ g → g ≤ m.pfileNum → x ∈ liveAt 0 (psp g) →
        ¬ ((⟨m.pmax * g + x.1, x.2.length⟩ : Block) = fb)) →
      ∃ psp', GState c U cfg m { d with pfiles := d.pfiles } spec n B pf psp' ∧
        Kills m pf (fun b => b = fb) psp psp' aff ∧ (∀ g ∈ aff, g ∈ aff) :=
    fun h => ⟨psp, hS, Kills.refl h, fun _ h => h⟩
  unfold delStep
  simp only [hloc]
  rcases q with q | ⟨g1, g2, q⟩
  · -- the file has been unlinked
    rw [hS.log.gone f q]
    apply hsame
    intro g x k1 k2 hx hb
    have := (hnamed g x k1 k2 hx hb).1
    omega
  have hfile := hS.log.files f g1 g2
  rw [hfile]
  simp only
  by_cases hgt : lp > (gbytes (psp f)).length
  · rw [if_pos hgt]
    apply hsame
    intro g x k1 k2 hx hb
    obtain ⟨rfl, h2, _⟩ := hnamed g x k1 k2 hx hb
    have := (liveAt_bound (off := x.1) (body := x.2) hx).2
    omega
  rw [if_neg hgt]
  rcases q with ⟨k1, k2⟩ | ⟨body, k⟩ | k
  · -- beyond the end of a closed file
    have : lp = (gbytes (psp f)).length := by omega
    rw [this, readU32_end]
    apply hsame
    intro g x k3 k4 hx hb
    obtain ⟨rfl, h2, _⟩ := hnamed g x k3 k4 hx hb
    have := (liveAt_bound (off := x.1) (body := x.2) hx).2
    omega
  · -- a record span: marked deleted if the size matches
    have hblen : body.length < two31 := hS.log.ok f g1 g2 ⟨false, body⟩ (by
      obtain ⟨a, b, e, _⟩ := liveAt_split (psp f) 0 lp body k
      rw [e]; simp)
    rw [(span_reads k hblen).1]
    simp only
    rw [if_neg (by omega)]
    by_cases hsz : body.length ≠ fb.size
    · rw [if_pos hsz]
      apply hsame
      intro g x k3 k4 hx hb
      obtain ⟨rfl, h2, h3⟩ := hnamed g x k3 k4 hx hb
      have hx' : (lp, x.2) ∈ liveAt 0 (psp g) := by rw [← h2]; exact hx
      have := liveAt_off_unique hx' k
      rw [this] at h3
      exact hsz h3
    · rw [if_neg hsz]
      simp only
      obtain ⟨a, b, hs, e0⟩ := liveAt_split (psp f) 0 lp body k
      simp only [Nat.zero_add] at e0
      have e : (gbytes a).length = lp := e0.symm
      obtain ⟨s1, s2, s3, s4⟩ := kill_step' hS.log g1 g2 hs e
        (fun blk hb => by rw [← e1]; exact q2 blk hb)
      rw [s1]
      refine ⟨fun f' => if f' = f then a ++ (⟨true, body⟩ : GSpan) :: b else psp f', ?_, ?_, ?_⟩
      · have hb4 := (liveAt_bound k).2
        obtain ⟨x1, x2, x3⟩ := ginv_disk_step
          (d' := { d with pfiles := d.pfiles.set f (gbytes (a ++ (⟨true, body⟩ : GSpan) :: b)) })
          hG hn hS.log hS.ent hS.fl rfl rfl rfl rfl hS.hdr s2 s3
          (fun fb' hfb' => s4 fb' hfb'.2.2.1)
          (by
            show (fileOf (d.pfiles.set f (gbytes (a ++ (⟨true, body⟩ : GSpan) :: b))) m.pfileNum).length =
              m.plength
            by_cases hff : m.pfileNum = f
            · subst hff
              rw [fileOf_some (NMap.get?_set_eq _ _ _), ← s1, setDeleted_length _ _ _ (by omega)]
              have hpl : (fileOf d.pfiles m.pfileNum).length = m.plength := hG.plen
              rw [fileOf_some hfile] at hpl
              exact hpl
            · have : fileOf (d.pfiles.set f (gbytes (a ++ (⟨true, body⟩ : GSpan) :: b))) m.pfileNum =
                  fileOf d.pfiles m.pfileNum := by
                unfold fileOf; rw [NMap.get?_set_ne _ _ hff]
              rw [this]; exact hG.plen)
          (by
            intro f' hf'
            show (d.pfiles.set f (gbytes (a ++ (⟨true, body⟩ : GSpan) :: b))).get? f' = none
            rw [NMap.get?_set_ne _ _ (by omega)]
            exact hG.pno f' hf')
        exact ⟨x1, hS.hdr, s2, x2, x3⟩
      · -- the exact effect
        have hfaff : f ∈ (if aff.contains f = true then aff else aff ++ [f]) := by
          split
          · rename_i hc; exact List.contains_iff_mem.mp hc
          · simp
        refine ⟨?_, ?_, ?_, ?_, ?_⟩
        · intro g x hx
          by_cases hgf : g = f
          · subst hgf
            simp only [if_true] at hx
            rw [hs]; exact liveAt_kill_sub hx
          · simp only [hgf, if_false] at hx; exact hx
        · intro g x k3 k4 hx
          by_cases hgf : g = f
          · subst hgf
            simp only [if_true]
            rw [hs] at hx
            by_cases hlp : x.1 = (gbytes a).length
            · right
              have hx' : (lp, x.2) ∈ liveAt 0 (psp g) := by rw [hs, ← e, ← hlp]; exact hx
              have hb := liveAt_off_unique hx' k
              refine ⟨?_, hfaff⟩
              have h1 : m.pmax * g + x.1 = fb.off := by rw [hlp, e, e1]
              have h2 : x.2.length = fb.size := by
                rw [hb]
                exact Classical.not_not.mp hsz
              cases fb
              simp only at h1 h2
              simp only [h1, h2]
            · exact Or.inl (liveAt_kill_other hx hlp)
          · simp only [hgf, if_false]; exact Or.inl hx
        · intro g x k3 k4 hx hb
          by_cases hgf : g = f
          · subst hgf
            simp only [if_true] at hx
            have hx0 : x ∈ liveAt 0 (psp g) := by rw [hs]; exact liveAt_kill_sub hx
            have := (hnamed g x k3 k4 hx0 hb).2.1
            exact liveAt_kill_not hx (by rw [this, e])
          · simp only [hgf, if_false] at hx
            exact hgf (hnamed g x k3 k4 hx hb).1
        · intro g hg
          by_cases hgf : g = f
          · subst hgf
            rw [hg] at k; cases k
          · simp only [hgf, if_false]
        · intro g
          by_cases hgf : g = f
          · subst hgf
            simp only [if_true]
            rw [hs, gbytes_kill_length]
          · simp only [hgf, if_false]
      · intro g hg
        split
        · exact hg
        · simp [hg]
  · -- a word with the deleted bit
    obtain ⟨raw, r1, r2⟩ := k.read
    rw [r1]
    simp only
    rw [if_pos r2]
    apply hsame
    intro g x k3 k4 hx hb
    obtain ⟨rfl, h2, _⟩ := hnamed g x k3 k4 hx hb
    have hx' : (lp, x.2) ∈ liveAt 0 (psp g) := by rw [← h2]; exact hx
    have hlen : x.2.length < two31 := hS.log.ok g k3 k4 ⟨false, x.2⟩ (by
      obtain ⟨a, b, e, _⟩ := liveAt_split (psp g) 0 lp x.2 hx'
      rw [e]; simp)
    exact live_not_deadMark hx' hlen k

/-- applying a batch of freelist entries, with its exact effect -/
theorem delFold_f (hn : n < 1073741824) (hpn : m.pnext = []) :
    ∀ (batch : List Block) (d : Disk) (psp : Nat → List GSpan) (aff : List Nat),
      GState c U cfg m d spec n B pf psp →
      (∀ d' psp', GState c U cfg m d' spec n B pf psp' → d'.freeGc = d.freeGc →
        ∀ fb ∈ batch, FreeOK m d' pf psp' fb) →
      ∃ psp', GState c U cfg m { d with pfiles := (batch.foldl (delStep m.pmax) (d.pfiles, aff)).1 }
          spec n B pf psp' ∧
        Kills m pf (fun b => b ∈ batch) psp psp' (batch.foldl (delStep m.pmax) (d.pfiles, aff)).2 ∧
        (∀ g ∈ aff, g ∈ (batch.foldl (delStep m.pmax) (d.pfiles, aff)).2)
  | [], d, psp, aff, hS, _ =>
    ⟨psp, hS, Kills.refl (fun _ _ _ _ _ h => by cases h), fun _ h => h⟩
  | fb :: batch, d, psp, aff, hS, hb => by
    obtain ⟨psp1, h1, k1, a1⟩ := delStep_f hS hn hpn (hb d psp hS rfl fb (by simp)) aff
    rw [List.foldl_cons]
    obtain ⟨psp2, h2, k2, a2⟩ := delFold_f hn hpn batch
      { d with pfiles := (delStep m.pmax (d.pfiles, aff) fb).1 } psp1
      (delStep m.pmax (d.pfiles, aff) fb).2 h1
      (fun d' psp' hS' hgc fb' hfb' => hb d' psp' hS' hgc fb' (by simp [hfb']))
    refine ⟨psp2, h2, ?_, fun g hg => a2 g (a1 g hg)⟩
    exact (k1.trans k2 a2).mono (fun b => by simp)

end

end Sth.C11
