import Sth.Lemmas.C04M2

/-! C04, milestone 3: the run theorems with index GC, primary GC and reopen at arbitrary positions. -/

namespace Sth

/-- the file counters of a state: the number of the newest primary file a record was allocated in, and
    the number of the newest index file plus the number of buckets waiting to be flushed -/
def gcCnt (s : SState) : Nat := max s.m.precFileNum (s.m.ifileNum + s.m.inext.length)

/-- the file counters stay below 2^28 in every state the run passes through (the state after the last
    call excepted).  File numbers are 32-bit and block offsets 64-bit in the store; one primary GC
    cycle can open up to two new files per closed file (relocation), i.e. at most triple the counter,
    so 2^28 before a call keeps every number inside the call below 2^30. -/
def GcCountersOK : SState → List SOp → Prop
  | _, [] => True
  | s, op :: ops => gcCnt s < 268435456 ∧ GcCountersOK (stepS s op).1 ops

instance : ∀ (s : SState) (ops : List SOp), Decidable (GcCountersOK s ops)
  | _, [] => isTrue trivial
  | s, op :: ops =>
    have := instDecidableGcCountersOK (stepS s op).1 ops
    (inferInstance : Decidable (gcCnt s < 268435456 ∧ GcCountersOK (stepS s op).1 ops))

/-- how far one call can move the file counters: a primary GC cycle opens at most two new files per
    closed file, every other call at most one -/
def gcNext (op : SOp) (n : Nat) : Nat :=
  match op with
  | .pgc .. => 3 * n
  | _ => n + 1

section
variable {c : Cfg} {U : List (Bytes × Bytes)} {s : SState} {spec : Spec} {n B : Nat}

/-- the counter bound of the invariant can always be taken to be the actual counter -/
theorem GInv.tight (h : GInv c U s spec n B) : GInv c U s spec (gcCnt s) B :=
  { h with cntF := Nat.le_max_left _ _, cntI := Nat.le_max_right _ _ }

/-- the C01 invariant, the index-log invariant and the primary-log invariant together -/
theorem GInv.of_inv (hc : c.Legal) (hk : c.kind = .mh) (hI : Inv c U s spec n B) (hY : YInv c s)
    (hZ : ZInv s.m s.d) : GInv c U s spec n B := by
  have hkind : s.m.kind = .mh := by rw [hI.kind, hk]
  obtain ⟨q1, q2, q3⟩ := hI.p.mh hkind
  have hp : s.m.pmax = c.pfs := by rw [hY.pmax]; unfold hdrPfs; simp only [hk]
  exact
    { kmh := hk, kind := hkind, imm := hI.imm, bits8 := hI.bits8, bits31 := hI.bits31, a := hI.a,
      pmax1 := hI.p.pmax hkind,
      pmaxle := by
        rw [hp]
        have := hc.2.2.2.2.2
        unfold defaultMax at this
        exact this,
      recs := by
        intro r hr
        have := hI.p.recs r hr
        rw [hkind] at this
        exact this,
      nextBelow := hI.p.nextBelow, alloc := q1, plen := q2, pno := q3, i := hI.i,
      cntF := (hI.cnt.mh hkind).1, cntI := hI.cnt.idx, nodup := hI.nodup, w := hI.w, y := hY,
      z := hZ }

/-- the fresh multihash store satisfies the GC invariant -/
theorem ginv_init (hc : c.Legal) (hk : c.kind = .mh) (hi : initS c = some s) :
    GInv c U s [] 0 0 := by
  have hI := inv_init c hc U s hi
  have hY := yinv_init c hc s hi
  apply GInv.of_inv hc hk hI hY
  have hA : SInv U s.m s.d [] := hI.a
  rw [initS_mh c hc hk] at hi
  cases hi
  refine ⟨0, fun _ => [], rfl, ⟨Nat.le_refl _, fun f hf => by omega, ?_, ?_, ?_⟩, ?_, ?_⟩
  · intro f _ hf
    have hf' : f ≤ 0 := hf
    have : f = 0 := by omega
    subst this
    rfl
  · intro f _ _ x hx; cases hx
  · intro f _ _ x hx; simp [liveAt] at hx
  · rintro blk ⟨b, rl, e, hr, he, rfl⟩
    obtain ⟨key, val, dig, _, _, _, _, h5⟩ := (ent_blockOK hA hr he).1.ex
    cases h5
  · refine ⟨[], [], rfl, Or.inl ⟨rfl, rfl⟩, ?_⟩
    intro fb hfb
    cases hfb

/-- one step on a multihash store, for every call -/
theorem step_g (hc : c.Legal) (hU : Univ c.kind U) (hG : GInv c U s spec n B)
    (hn : n < 268435456) (op : SOp)
    (hkey : ∀ k, op.keyOf = some k → ∀ dig, keyClass c.kind k = .ok dig → (k, dig) ∈ U)
    (hB : B + op.bytes < two31) :
    (stepS s op).2 = (specStep c.kind c.imm spec op).2 ∧
      ∃ n', GInv c U (stepS s op).1 (specStep c.kind c.imm spec op).1 n' (B + op.bytes) ∧
        n' ≤ gcNext op n := by
  cases op with
  | put k v =>
    obtain ⟨h1, h2⟩ := step_put_g hU hG k v (hkey k rfl) (by omega) hB
    exact ⟨h1, n + 1, h2, Nat.le_refl _⟩
  | rm k =>
    obtain ⟨h1, h2⟩ := step_rm_g hU hG k (hkey k rfl)
    exact ⟨h1, n + 1, h2, Nat.le_refl _⟩
  | get k =>
    obtain ⟨h1, h2⟩ := step_read_g hU hG (.get k) (Or.inl ⟨k, rfl⟩) hkey
    rw [h1, h2]
    exact ⟨rfl, n, hG, Nat.le_succ n⟩
  | has k =>
    obtain ⟨h1, h2⟩ := step_read_g hU hG (.has k) (Or.inr (Or.inl ⟨k, rfl⟩)) hkey
    rw [h1, h2]
    exact ⟨rfl, n, hG, Nat.le_succ n⟩
  | size k =>
    obtain ⟨h1, h2⟩ := step_read_g hU hG (.size k) (Or.inr (Or.inr ⟨k, rfl⟩)) hkey
    rw [h1, h2]
    exact ⟨rfl, n, hG, Nat.le_succ n⟩
  | flush order =>
    obtain ⟨m', d', f1, f2, _⟩ := flush_g hU hG (by omega) hB order
    simp only [stepS, f1, specStep, true_and]
    exact ⟨n, f2, Nat.le_succ n⟩
  | iter order =>
    obtain ⟨m', d', f1, f2, f3⟩ := flush_g hU hG (by omega) hB order
    have hU' : Univ m'.kind U := GInv.univ (s := ⟨s.cfg, m', d'⟩) hU f2
    obtain ⟨L, l1, l2⟩ := storeIter_ok hU' f2.bits31 f2.a f2.i f3 f2.nodup
    simp only [stepS, f1, l1, specStep]
    exact ⟨by rw [l2], n, f2, Nat.le_succ n⟩
  | reopen order us =>
    obtain ⟨m', d', r1, r2⟩ := step_reopen_g hc hU hG (by omega) hB order us
    rw [r1]
    simp only [specStep, true_and]
    exact ⟨n, r2, Nat.le_succ n⟩
  | igc sf bud =>
    obtain ⟨g, d', r1, r2⟩ := step_igc_g hG (by omega) sf bud
    rw [r1]
    simp only [specStep, true_and]
    exact ⟨n, r2, Nat.le_succ n⟩
  | pgc lowUse bud =>
    obtain ⟨k', g1, g2, g3, _⟩ := step_pgc_g hU hG (by omega) lowUse bud
    rw [g3]
    simp only [specStep, true_and]
    exact ⟨k', g1, g2⟩

end

/-- the run lemma for a multihash store: every call, GC cycles and reopens at arbitrary positions -/
theorem run_g {c : Cfg} {U : List (Bytes × Bytes)} (hc : c.Legal) (hU : Univ c.kind U) :
    ∀ (ops : List SOp) (s : SState) (spec : Spec) (n B : Nat),
    GInv c U s spec n B →
    (∀ op ∈ ops, ∀ k, op.keyOf = some k → ∀ dig, keyClass c.kind k = .ok dig → (k, dig) ∈ U) →
    GcCountersOK s ops → B + (ops.map SOp.bytes).sum < two31 →
    (runS s ops).2 = (specRun c.kind c.imm spec ops).2 ∧
      ∃ n', GInv c U (runS s ops).1 (specRun c.kind c.imm spec ops).1 n'
        (B + (ops.map SOp.bytes).sum)
  | [], _, _, n, _, hG, _, _, _ => ⟨rfl, n, hG⟩
  | op :: ops, s, spec, n, B, hG, hk, hb, hB => by
    simp only [List.map_cons, List.sum_cons] at hB ⊢
    obtain ⟨hb1, hb2⟩ := hb
    obtain ⟨h1, n1, h2, _⟩ := step_g hc hU hG.tight hb1 op (hk op (by simp)) (by omega)
    obtain ⟨i1, n2, i2⟩ := run_g hc hU ops (stepS s op).1 (specStep c.kind c.imm spec op).1 n1
      (B + op.bytes) h2 (fun o ho => hk o (by simp [ho])) hb2 (by omega)
    refine ⟨by rw [runS_cons, specRun_cons, h1, i1], n2, ?_⟩
    rw [runS_cons_fst, specRun_cons_fst]
    have e2 : B + (op.bytes + (ops.map SOp.bytes).sum) = B + op.bytes + (ops.map SOp.bytes).sum := by
      omega
    rw [e2]
    exact i2

/-! ### a bound on the calls alone -/

/-- the counter budget of a history, computed from the calls alone: start from `n`, add one per call,
    triple at every primary GC cycle; the budget before every call must stay below 2^28 -/
def GcBudgetOK : Nat → List SOp → Prop
  | _, [] => True
  | n, op :: ops => n < 268435456 ∧ GcBudgetOK (gcNext op n) ops

instance : ∀ (n : Nat) (ops : List SOp), Decidable (GcBudgetOK n ops)
  | _, [] => isTrue trivial
  | n, op :: ops =>
    have := instDecidableGcBudgetOK (gcNext op n) ops
    (inferInstance : Decidable (n < 268435456 ∧ GcBudgetOK (gcNext op n) ops))

theorem gcNext_mono (op : SOp) {n n' : Nat} (h : n ≤ n') : gcNext op n ≤ gcNext op n' := by
  cases op <;> simp only [gcNext] <;> omega

theorem GcBudgetOK.mono : ∀ (ops : List SOp) {n n' : Nat}, n ≤ n' → GcBudgetOK n' ops → GcBudgetOK n ops
  | [], _, _, _, _ => trivial
  | op :: ops, _, _, h, ⟨h1, h2⟩ => ⟨by omega, GcBudgetOK.mono ops (gcNext_mono op h) h2⟩

/-- the budget of the calls bounds the counters of the run -/
theorem countersOK_of_budget {c : Cfg} {U : List (Bytes × Bytes)} (hc : c.Legal)
    (hU : Univ c.kind U) :
    ∀ (ops : List SOp) (s : SState) (spec : Spec) (n B : Nat),
    GInv c U s spec n B →
    (∀ op ∈ ops, ∀ k, op.keyOf = some k → ∀ dig, keyClass c.kind k = .ok dig → (k, dig) ∈ U) →
    GcBudgetOK n ops → B + (ops.map SOp.bytes).sum < two31 → GcCountersOK s ops
  | [], _, _, _, _, _, _, _, _ => trivial
  | op :: ops, s, spec, n, B, hG, hk, hb, hB => by
    simp only [List.map_cons, List.sum_cons] at hB
    obtain ⟨hb1, hb2⟩ := hb
    obtain ⟨_, n1, h2, h3⟩ := step_g hc hU hG hb1 op (hk op (by simp)) (by omega)
    refine ⟨?_, countersOK_of_budget hc hU ops (stepS s op).1 (specStep c.kind c.imm spec op).1 n1
      (B + op.bytes) h2 (fun o ho => hk o (by simp [ho])) (GcBudgetOK.mono ops h3 hb2) (by omega)⟩
    have h4 : s.m.precFileNum ≤ n := hG.cntF
    have h5 : s.m.ifileNum + s.m.inext.length ≤ n := hG.cntI
    unfold gcCnt
    exact Nat.lt_of_le_of_lt (Nat.max_le.mpr ⟨h4, h5⟩) hb1

/-! ### CID stores: primary GC does nothing -/

section
variable {c : Cfg} {U : List (Bytes × Bytes)} {s : SState} {spec : Spec} {n B : Nat}

theorem step_ok4_cid (hc : c.Legal) (hcid : c.kind = .cid) (hU : Univ c.kind U)
    (hI : Inv c U s spec n B) (hX : YInv c s) (op : SOp)
    (hkey : ∀ k, op.keyOf = some k → ∀ dig, keyClass c.kind k = .ok dig → (k, dig) ∈ U)
    (hn : n + 1 < 1073741824) (hB : B + op.bytes < two31) :
    (stepS s op).2 = (specStep c.kind c.imm spec op).2 ∧
      Inv c U (stepS s op).1 (specStep c.kind c.imm spec op).1 (n + 1) (B + op.bytes) ∧
      YInv c (stepS s op).1 := by
  by_cases hop : op.isC04a = true
  · exact step_ok4a hc hU hI hX op hop hkey hn hB
  · cases op with
    | pgc lowUse bud =>
      have hkind : s.m.kind = .cid := by rw [hI.kind, hcid]
      have : stepS s (.pgc lowUse bud) = (s, .gc) := by simp only [stepS, hkind]
      rw [this]
      simp only [specStep, true_and]
      exact ⟨hI.mono (by omega) (by omega), hX⟩
    | _ => exact absurd rfl hop

end

theorem run_cid {c : Cfg} {U : List (Bytes × Bytes)} (hc : c.Legal) (hcid : c.kind = .cid)
    (hU : Univ c.kind U) :
    ∀ (ops : List SOp) (s : SState) (spec : Spec) (n B : Nat),
    Inv c U s spec n B → YInv c s →
    (∀ op ∈ ops, ∀ k, op.keyOf = some k → ∀ dig, keyClass c.kind k = .ok dig → (k, dig) ∈ U) →
    n + ops.length < 1073741824 → B + (ops.map SOp.bytes).sum < two31 →
    (runS s ops).2 = (specRun c.kind c.imm spec ops).2 ∧
      Inv c U (runS s ops).1 (specRun c.kind c.imm spec ops).1 (n + ops.length)
        (B + (ops.map SOp.bytes).sum) ∧ YInv c (runS s ops).1
  | [], _, _, _, _, hI, hX, _, _, _ => ⟨rfl, hI, hX⟩
  | op :: ops, s, spec, n, B, hI, hX, hk, hn, hB => by
    simp only [List.length_cons, List.map_cons, List.sum_cons] at hn hB ⊢
    obtain ⟨h1, h2, h3⟩ := step_ok4_cid hc hcid hU hI hX op (hk op (by simp)) (by omega) (by omega)
    obtain ⟨i1, i2, i3⟩ := run_cid hc hcid hU ops (stepS s op).1 (specStep c.kind c.imm spec op).1
      (n + 1) (B + op.bytes) h2 h3 (fun o ho => hk o (by simp [ho])) (by omega) (by omega)
    refine ⟨by rw [runS_cons, specRun_cons, h1, i1], ?_, by rw [runS_cons_fst]; exact i3⟩
    rw [runS_cons_fst, specRun_cons_fst]
    have e1 : n + (ops.length + 1) = n + 1 + ops.length := by omega
    have e2 : B + (op.bytes + (ops.map SOp.bytes).sum) = B + op.bytes + (ops.map SOp.bytes).sum := by
      omega
    rw [e1, e2]
    exact i2

/-! ### the theorems -/

/-- CID stores: no bound beyond `SizesOK` -/
theorem store_refines_map_gc_cid (c : Cfg) (hc : c.Legal) (hcid : c.kind = .cid) (ops : List SOp)
    (hk : KeysOK c.kind ops) (hs : SizesOK ops) (s : SState) (hi : initS c = some s) :
    (runS s ops).2 = (specRun c.kind c.imm [] ops).2 := by
  have hU := univ_of_keysOK hk (keysExact_all c.kind ops)
  refine (run_cid hc hcid hU ops s [] 0 0 (inv_init c hc _ s hi) (yinv_init c hc s hi) ?_ ?_ ?_).1
  · intro op ho k hkey dig hcls
    exact mem_digestsOf ho hkey hcls
  · have := hs.1; omega
  · have := hs.2.1; omega

/-- multihash stores: the run keeps the GC invariant -/
theorem store_refines_map_gc_mh (c : Cfg) (hc : c.Legal) (hmh : c.kind = .mh) (ops : List SOp)
    (hk : KeysOK c.kind ops) (hs : SizesOK ops) (s : SState) (hi : initS c = some s)
    (hb : GcCountersOK s ops) :
    (runS s ops).2 = (specRun c.kind c.imm [] ops).2 ∧
      ∃ n', GInv c (digestsOf c.kind ops) (runS s ops).1 (specRun c.kind c.imm [] ops).1 n'
        (0 + (ops.map SOp.bytes).sum) := by
  have hU := univ_of_keysOK hk (keysExact_all c.kind ops)
  refine run_g hc hU ops s [] 0 0 (ginv_init hc hmh hi) ?_ hb ?_
  · intro op ho k hkey dig hcls
    exact mem_digestsOf ho hkey hcls
  · have := hs.2.1; omega

/-- the store with index GC cycles, primary GC cycles and reopens at arbitrary positions refines the
    map, provided the file counters stay below 2^28 along the run -/
theorem store_refines_map_gc (c : Cfg) (hc : c.Legal) (ops : List SOp)
    (hk : KeysOK c.kind ops) (hs : SizesOK ops) (s : SState) (hi : initS c = some s)
    (hb : GcCountersOK s ops) :
    (runS s ops).2 = (specRun c.kind c.imm [] ops).2 := by
  rcases (by cases c.kind <;> simp : c.kind = .mh ∨ c.kind = .cid) with hkind | hkind
  · exact (store_refines_map_gc_mh c hc hkind ops hk hs s hi hb).1
  · exact store_refines_map_gc_cid c hc hkind ops hk hs s hi

/-- the budget of the calls implies the bound on the counters -/
theorem gcCountersOK_of_budget (c : Cfg) (hc : c.Legal) (hmh : c.kind = .mh) (ops : List SOp)
    (hk : KeysOK c.kind ops) (hs : SizesOK ops) (s : SState) (hi : initS c = some s)
    (hb : GcBudgetOK 0 ops) : GcCountersOK s ops := by
  have hU := univ_of_keysOK hk (keysExact_all c.kind ops)
  refine countersOK_of_budget hc hU ops s [] 0 0 (ginv_init hc hmh hi) ?_ hb ?_
  · intro op ho k hkey dig hcls
    exact mem_digestsOf ho hkey hcls
  · have := hs.2.1; omega

/-- the same with the bound stated on the calls alone -/
theorem store_refines_map_gc_budget (c : Cfg) (hc : c.Legal) (ops : List SOp)
    (hk : KeysOK c.kind ops) (hs : SizesOK ops) (s : SState) (hi : initS c = some s)
    (hb : GcBudgetOK 0 ops) :
    (runS s ops).2 = (specRun c.kind c.imm [] ops).2 := by
  rcases (by cases c.kind <;> simp : c.kind = .mh ∨ c.kind = .cid) with hkind | hkind
  · exact (store_refines_map_gc_mh c hc hkind ops hk hs s hi
      (gcCountersOK_of_budget c hc hkind ops hk hs s hi hb)).1
  · exact store_refines_map_gc_cid c hc hkind ops hk hs s hi

end Sth
