import Sth.Lemmas.C04PGC3

/-! C04, milestone 2: a primary GC cycle stutters (invariant level). -/

namespace Sth

section
variable {c : Cfg} {U : List (Bytes × Bytes)} {s : SState} {spec : Spec} {k B : Nat}

/-- every key of the specification has an index entry whose block reads its record -/
theorem GInv.live (hG : GInv c U s spec k B) {dig key val : Bytes}
    (h : Spec.get spec dig = some (key, val)) :
    ∃ blk, IsEnt s.m s.d blk ∧ priGet s.m s.d blk = .got key val := by
  obtain ⟨b, rl, e, _, h2, h3, h4, _⟩ := hG.a.complete dig key val h
  exact ⟨e.blk, ⟨b, rl, e, h2, h3, rfl⟩, h4⟩

/-- A primary GC cycle (two hand-over passes, deleteRecords, reapRecords with relocation, the deadline
    at any poll, a flush error) on a multihash store: (a) the invariant is kept for the SAME
    specification map, (b) every read returns what it returned before, (c) every key of the map still
    has an index entry whose record is readable (no live record was marked deleted). -/
theorem primaryGC_stutters (hU : Univ c.kind U) (hG : GInv c U s spec k B)
    (hk : 3 * k < 1073741824) (lowUse : Nat) (budget : Budget) :
    (stepS s (.pgc lowUse budget)).2 = .gc ∧
    (∃ k', GInv c U (stepS s (.pgc lowUse budget)).1 spec k' B ∧ k' ≤ 3 * k) ∧
    (∀ op : SOp, ((∃ key, op = .get key) ∨ (∃ key, op = .has key) ∨ (∃ key, op = .size key)) →
      (∀ key, op.keyOf = some key → ∀ dig, keyClass c.kind key = .ok dig → (key, dig) ∈ U) →
      (stepS (stepS s (.pgc lowUse budget)).1 op).2 = (stepS s op).2 ∧
      (stepS (stepS s (.pgc lowUse budget)).1 op).1 = (stepS s (.pgc lowUse budget)).1) ∧
    (∀ dig key val, Spec.get spec dig = some (key, val) →
      ∃ blk, IsEnt (stepS s (.pgc lowUse budget)).1.m (stepS s (.pgc lowUse budget)).1.d blk ∧
        priGet (stepS s (.pgc lowUse budget)).1.m (stepS s (.pgc lowUse budget)).1.d blk =
          .got key val) := by
  obtain ⟨k', g1, g2, g3, _⟩ := step_pgc_g hU hG hk lowUse budget
  refine ⟨g3, ⟨k', g1, g2⟩, ?_, fun dig key val h => g1.live h⟩
  intro op hop hkey
  obtain ⟨r1, _⟩ := step_read_g hU g1 op hop hkey
  obtain ⟨r2, _⟩ := step_read_g hU hG op hop hkey
  rw [r1, r2]
  exact ⟨rfl, rfl⟩

end

end Sth
