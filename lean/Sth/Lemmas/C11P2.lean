import Sth.Lemmas.C11P1

/-!
C11 Q3c without `PassesOK` (2): the size invariant `BInv` along EVERY history (the steps other than the
primary GC cycle are those of Sth/Lemmas/C11B3.lean; the cycle is `primaryGC_b_all`).  Core Lean only.
-/

namespace Sth.C11P

open Sth.C11 Sth.C13H Sth.C13X Sth.C11D Sth.C11B

section
variable {c : Cfg} {U : List (Bytes × Bytes)} {s : SState} {spec : Spec} {n B R : Nat}

/-- every step keeps the size invariant -/
theorem step_b_all (hc : c.Legal) (hU : Univ c.kind U) (hG : GInv c U s spec n B) (hC : CovS s)
    (hn : n < 268435456) (op : SOp)
    (hkey : ∀ k, op.keyOf = some k → ∀ dig, keyClass c.kind k = .ok dig → (k, dig) ∈ U)
    (hB : B + op.bytes < two31) (hI : BInv R s.m s.d)
    (hop : ∀ k v, op = .put k v → k.length + v.length ≤ R) (h31 : s.m.pmax + 4 + R ≤ two31) :
    BInv R (stepS s op).1.m (stepS s op).1.d := by
  cases op with
  | pgc lowUse bud =>
    obtain ⟨pf, psp, hS⟩ := hstate_of hG hC
    obtain ⟨cfg', m, d⟩ := s
    have hkind : m.kind = .mh := hG.kind
    unfold stepS
    simp only [hkind]
    cases hp : primaryGC m d lowUse bud with
    | none => exact hI
    | some res => exact primaryGC_b_all hU hS (by omega) lowUse bud hI h31 hp
  | put k v => exact step_b hc hU hG hC hn _ hkey hB hI hop h31 trivial
  | rm k => exact step_b hc hU hG hC hn _ hkey hB hI hop h31 trivial
  | get k => exact step_b hc hU hG hC hn _ hkey hB hI hop h31 trivial
  | has k => exact step_b hc hU hG hC hn _ hkey hB hI hop h31 trivial
  | size k => exact step_b hc hU hG hC hn _ hkey hB hI hop h31 trivial
  | flush order => exact step_b hc hU hG hC hn _ hkey hB hI hop h31 trivial
  | iter order => exact step_b hc hU hG hC hn _ hkey hB hI hop h31 trivial
  | reopen order us => exact step_b hc hU hG hC hn _ hkey hB hI hop h31 trivial
  | igc sf bud => exact step_b hc hU hG hC hn _ hkey hB hI hop h31 trivial

end

theorem run_b_all {c : Cfg} {U : List (Bytes × Bytes)} {R : Nat} (hc : c.Legal) (hU : Univ c.kind U)
    (h31 : c.pfs + 4 + R ≤ two31) :
    ∀ (ops : List SOp) (s : SState) (spec : Spec) (n B : Nat),
    GInv c U s spec n B → CovS s → BInv R s.m s.d →
    (∀ op ∈ ops, ∀ k, op.keyOf = some k → ∀ dig, keyClass c.kind k = .ok dig → (k, dig) ∈ U) →
    GcCountersOK s ops → B + (ops.map SOp.bytes).sum < two31 →
    (∀ k v, SOp.put k v ∈ ops → k.length + v.length ≤ R) →
    BInv R (runS s ops).1.m (runS s ops).1.d
  | [], _, _, _, _, _, _, hI, _, _, _, _ => hI
  | op :: ops, s, spec, n, B, hG, hC, hI, hk, hb, hB, hop => by
    simp only [List.map_cons, List.sum_cons] at hB
    obtain ⟨hb1, hb2⟩ := hb
    have hpm : s.m.pmax = c.pfs := by
      have := hG.y.pmax
      unfold hdrPfs at this
      rw [hG.kmh] at this
      exact this
    have hC' : CovS (stepS s op).1 :=
      step_cov hc hU hG.tight hC hb1 op (hk op (by simp)) (by omega)
    have hI' := step_b_all hc hU hG.tight hC hb1 op (hk op (by simp)) (by omega) hI
      (fun k v e => hop k v (by rw [e]; simp)) (by rw [hpm]; exact h31)
    obtain ⟨_, n1, h2, _⟩ := step_g hc hU hG.tight hb1 op (hk op (by simp)) (by omega)
    rw [runS_cons1]
    exact run_b_all hc hU h31 ops (stepS s op).1 (specStep c.kind c.imm spec op).1 n1 (B + op.bytes) h2
      hC' hI' (fun o ho => hk o (by simp [ho])) hb2 (by omega)
      (fun k v h => hop k v (by simp [h]))

/-- the size invariant in every reachable state, whatever cuts its primary GC cycles short -/
theorem binv_reachable_all (c : Cfg) (hc : c.Legal) (hmh : c.kind = .mh) (ops : List SOp)
    (hk : KeysOK c.kind ops) (hs : SizesOK ops) (s0 : SState) (hi : initS c = some s0)
    (hb : GcCountersOK s0 ops) (hrec : RecBoundOK c ops) :
    BInv (maxRec ops) (runS s0 ops).1.m (runS s0 ops).1.d := by
  have hU := univ_of_keysOK hk (keysExact_all c.kind ops)
  exact run_b_all hc hU hrec ops s0 [] 0 0 (ginv_init hc hmh hi) (covS_init c hc hmh hi)
    (binv_init c hc hmh hi _) (fun op ho k hkey dig hcls => mem_digestsOf ho hkey hcls) hb
    (by have := hs.2.1; omega) (fun k v h => maxRec_put h)

end Sth.C11P
