import Sth.Props.C11D

/-!
C11 Q3c (1): the size invariant — pooled records and record spans no larger than the largest record put,
primary files shorter than file limit + 4 + that size, visited files stable — definitions and the pure
facts about the memory-only calls.  Core Lean only.
-/

namespace Sth.C11B

open Sth.C11 Sth.C13H Sth.C13X Sth.C11D

/-- body size of a pooled record -/
def psz (r : PRec) : Nat := r.key.length + r.val.length

/-- the size invariant with bound `R` on record bodies -/
structure BInv (R : Nat) (m : Mem) (d : Disk) : Prop where
  pz : ∀ r ∈ m.pnext, psz r ≤ R
  sz : ∀ g x, x ∈ lv d g → x.2.length ≤ R
  fl : ∀ g, (fileOf d.pfiles g).length < m.pmax + 4 + R
  vs : ∀ f ∈ m.visited, f < m.pfileNum ∧ (lv d f = [] → fileOf d.pfiles f = [])

theorem BInv.congr {R : Nat} {m m' : Mem} {d d' : Disk} (h : BInv R m d) (h1 : m'.pnext = m.pnext)
    (h2 : m'.visited = m.visited) (h3 : m'.pmax = m.pmax) (h4 : m'.pfileNum = m.pfileNum)
    (h5 : d'.pfiles = d.pfiles) : BInv R m' d' := by
  have hlv : ∀ g, lv d' g = lv d g := fun g => by unfold lv; rw [h5]
  refine ⟨by rw [h1]; exact h.pz, fun g x hx => h.sz g x (by rw [← hlv]; exact hx),
    fun g => by rw [h3, h5]; exact h.fl g, ?_⟩
  intro f hf
  rw [h2] at hf
  rw [h4, hlv, h5]
  exact h.vs f hf

/-- the parts of the memory state the size invariant looks at are unchanged -/
def PF (m m' : Mem) : Prop :=
  m'.pnext = m.pnext ∧ m'.visited = m.visited ∧ m'.pmax = m.pmax ∧ m'.pfileNum = m.pfileNum

theorem PF.refl (m : Mem) : PF m m := ⟨rfl, rfl, rfl, rfl⟩

theorem PF.trans {a b c : Mem} (h1 : PF a b) (h2 : PF b c) : PF a c :=
  ⟨h2.1.trans h1.1, h2.2.1.trans h1.2.1, h2.2.2.1.trans h1.2.2.1, h2.2.2.2.trans h1.2.2.2⟩

theorem idxPut_pf {m m' : Mem} {d : Disk} {ik : Bytes} {loc : Block}
    (h : idxPut m d ik loc = .ok m') : PF m m' := by
  unfold idxPut at h
  repeat' split at h
  all_goals first
    | (cases h; done)
    | (cases h; exact ⟨rfl, rfl, rfl, rfl⟩)

theorem idxUpdate_pf {m m' : Mem} {d : Disk} {ik : Bytes} {loc : Block}
    (h : idxUpdate m d ik loc = .ok m') : PF m m' := by
  unfold idxUpdate at h
  repeat' split at h
  all_goals first
    | (cases h; done)
    | (cases h; exact ⟨rfl, rfl, rfl, rfl⟩)

theorem idxRemove_pf {m m' : Mem} {d : Disk} {ik : Bytes} {b : Bool}
    (h : idxRemove m d ik = .ok (m', b)) : PF m m' := by
  unfold idxRemove at h
  repeat' split at h
  all_goals first
    | (cases h; done)
    | (cases h; exact ⟨rfl, rfl, rfl, rfl⟩)

theorem getPrimaryKeyData_pf {m m' : Mem} {d : Disk} {blk : Block} {ik : Bytes} {o : Option Bytes}
    (h : getPrimaryKeyData m d blk ik = .ok (m', o)) : PF m m' := by
  have hdrop : ∀ {x : Mem × Option Bytes}, (match idxRemove m d ik with
      | .error _ => (.error .other : Except Err (Mem × Option Bytes))
      | .ok (m', _) => .ok (m', none)) = .ok x → PF m x.1 := by
    intro x hx
    cases hr : idxRemove m d ik with
    | error e => rw [hr] at hx; cases hx
    | ok p =>
      obtain ⟨m2, b⟩ := p
      rw [hr] at hx
      cases hx
      exact idxRemove_pf hr
  unfold getPrimaryKeyData at h
  simp only at h
  cases hp : priGet m d blk with
  | err => rw [hp] at h; exact hdrop h
  | nilKey => rw [hp] at h; exact hdrop h
  | got k v =>
    rw [hp] at h
    simp only at h
    cases hk : indexKeyOf m.kind k with
    | none => rw [hk] at h; exact hdrop h
    | some sk =>
      rw [hk] at h
      simp only at h
      split at h <;> (cases h; exact PF.refl _)

theorem priPut_pf (m : Mem) (key val : Bytes) :
    (priPut m key val).1.visited = m.visited ∧ (priPut m key val).1.pmax = m.pmax ∧
    (priPut m key val).1.pfileNum = m.pfileNum ∧
    ∃ blk, (priPut m key val).1.pnext = m.pnext ++ [⟨blk, key, val⟩] := by
  unfold priPut
  split
  · exact ⟨rfl, rfl, rfl, _, rfl⟩
  · exact ⟨rfl, rfl, rfl, _, rfl⟩

/-- what a call that only changes the memory state does to the pooled records -/
def PFput (m m' : Mem) (k v : Bytes) : Prop :=
  m'.visited = m.visited ∧ m'.pmax = m.pmax ∧ m'.pfileNum = m.pfileNum ∧
  (m'.pnext = m.pnext ∨ ∃ blk, m'.pnext = m.pnext ++ [⟨blk, k, v⟩])

theorem PF.put {m m' : Mem} (h : PF m m') (k v : Bytes) : PFput m m' k v :=
  ⟨h.2.1, h.2.2.1, h.2.2.2, Or.inl h.1⟩

theorem storePut_pf (m : Mem) (d : Disk) (k v : Bytes) : PFput m (storePut m d k v).1 k v := by
  unfold storePut
  cases hik : indexKeyOf m.kind k with
  | none => exact (PF.refl m).put k v
  | some ik =>
    simp only
    -- after the lookup of the previous record
    have htail : ∀ (m1 : Mem) (pb : Option Block) (st : Option Bytes), PF m m1 →
        PFput m (match st with
          | some sv =>
            if m1.imm then (m1, PutRes3.err .keyExists)
            else if v = sv then (m1, .ok)
            else
              match idxUpdate (priPut m1 k v).1 d ik (priPut m1 k v).2 with
              | .error e => ((priPut m1 k v).1, .err e)
              | .ok m3 => ({ m3 with flpool := m3.flpool ++ [pb.getD default] }, .ok)
          | none =>
            match idxPut (priPut m1 k v).1 d ik (priPut m1 k v).2 with
            | .error e => ((priPut m1 k v).1, .err e)
            | .ok m3 => (m3, .ok)).1 k v := by
      intro m1 pb st h1
      obtain ⟨p1, p2, p3, blk, p4⟩ := priPut_pf m1 k v
      have hput : ∀ m3, PF (priPut m1 k v).1 m3 → PFput m m3 k v := by
        intro m3 h3
        refine ⟨by rw [h3.2.1, p1, h1.2.1], by rw [h3.2.2.1, p2, h1.2.2.1],
          by rw [h3.2.2.2, p3, h1.2.2.2], Or.inr ⟨blk, by rw [h3.1, p4, h1.1]⟩⟩
      cases st with
      | some sv =>
        simp only
        split
        · exact h1.put k v
        · split
          · exact h1.put k v
          · cases hu : idxUpdate (priPut m1 k v).1 d ik (priPut m1 k v).2 with
            | error e => exact hput _ (PF.refl _)
            | ok m3 =>
              have h3 := idxUpdate_pf hu
              exact hput _ ⟨h3.1, h3.2.1, h3.2.2.1, h3.2.2.2⟩
      | none =>
        simp only
        cases hu : idxPut (priPut m1 k v).1 d ik (priPut m1 k v).2 with
        | error e => exact hput _ (PF.refl _)
        | ok m3 => exact hput _ (idxPut_pf hu)
    cases idxGet m d ik with
    | error e => exact (PF.refl m).put k v
    | ok prev =>
      cases prev with
      | none => exact htail m none none (PF.refl m)
      | some blk =>
        simp only
        cases hgp : getPrimaryKeyData m d blk ik with
        | error e => exact (PF.refl m).put k v
        | ok p =>
          obtain ⟨m2, sv⟩ := p
          exact htail m2 (some blk) sv (getPrimaryKeyData_pf hgp)

theorem storeRemove_pf (m : Mem) (d : Disk) (k : Bytes) : PF m (storeRemove m d k).1 := by
  unfold storeRemove
  cases hik : indexKeyOf m.kind k with
  | none => exact PF.refl m
  | some ik =>
    simp only
    cases hg : idxGet m d ik with
    | error e => exact PF.refl m
    | ok prev =>
      cases prev with
      | none => exact PF.refl m
      | some blk =>
        simp only
        cases hgp : getPrimaryKeyData m d blk ik with
        | error e => exact PF.refl m
        | ok p =>
          obtain ⟨m1, o⟩ := p
          have h1 := getPrimaryKeyData_pf hgp
          cases o with
          | none => exact h1
          | some x =>
            simp only
            cases hr : idxRemove m1 d ik with
            | error e => exact h1
            | ok q =>
              obtain ⟨m2, rem⟩ := q
              have h2 := idxRemove_pf hr
              simp only
              split
              · exact h1.trans ⟨h2.1, h2.2.1, h2.2.2.1, h2.2.2.2⟩
              · exact h1.trans h2

theorem storeGet_pf (m : Mem) (d : Disk) (k : Bytes) : PF m (storeGet m d k).1 := by
  unfold storeGet
  cases hik : indexKeyOf m.kind k with
  | none => exact PF.refl m
  | some ik =>
    simp only
    cases hg : idxGet m d ik with
    | error e => exact PF.refl m
    | ok prev =>
      cases prev with
      | none => exact PF.refl m
      | some blk =>
        simp only
        cases hgp : getPrimaryKeyData m d blk ik with
        | error e => exact PF.refl m
        | ok p =>
          obtain ⟨m1, o⟩ := p
          have h1 := getPrimaryKeyData_pf hgp
          cases o with
          | none => exact h1
          | some x => exact h1

/-- OpenStore starts with an empty visited set -/
theorem openStore_visited {c : Cfg} {d d' : Disk} {m' : Mem} (h : openStore c d = (d', .ok m')) :
    m'.visited = [] := by
  unfold openStore at h
  simp only at h
  repeat' split at h
  all_goals first
    | (cases h; done)
    | (cases h; rfl)

end Sth.C11B
