/-
C07 — where the flushes put the bytes: every record `priFlush` writes sits at its predicted location
(`RecAt`), every record list `idxFlush` writes sits at the position entered in the bucket table
(`BucketAt`), and what sat somewhere before still does.
Core Lean only.
-/
import Sth.Lemmas.C07Sem
import Sth.Lemmas.C02

namespace Sth

/-! ### primary flush -/

theorem pstepMh_at {m m' : Mem} {d d' : Disk} {r : PRec} (hp : 1 ≤ m.pmax)
    (hlen : (fileOf d.pfiles m.pfileNum).length = m.plength)
    (hr : RecOK .mh r)
    (hb : r.blk = ⟨m.pmax * (if m.plength ≥ m.pmax then m.pfileNum + 1 else m.pfileNum) +
      (if m.plength ≥ m.pmax then 0 else m.plength), r.key.length + r.val.length⟩)
    (hf : (if m.plength ≥ m.pmax then m.pfileNum + 1 else m.pfileNum) < two32)
    (h : pstepMh (m, d) r = some (m', d')) : RecAt .mh m.pmax 0 d' r.blk r.key r.val := by
  have hsz : r.blk.size = r.key.length + r.val.length := by rw [hb]
  unfold pstepMh at h
  simp only at h
  split at h
  · cases h
  · by_cases hroll : m.plength ≥ m.pmax
    · simp only [if_pos hroll] at hb hf
      simp only [hroll, if_true, Option.some.injEq, Prod.mk.injEq] at h
      obtain ⟨rfl, rfl⟩ := h
      refine ⟨hsz, hr, m.pfileNum + 1, 0, [], [], hp, by omega, hf, Nat.zero_le _, by rw [hb], ?_, rfl⟩
      simp only [NMap.get?_set_eq, fileOf_some (NMap.get?_set_eq _ _ _), List.nil_append,
        List.append_nil]
      rfl
    · simp only [if_neg hroll] at hb hf
      simp only [hroll, if_false, Option.some.injEq, Prod.mk.injEq] at h
      obtain ⟨rfl, rfl⟩ := h
      refine ⟨hsz, hr, m.pfileNum, m.plength, fileOf d.pfiles m.pfileNum, [], hp, by omega, hf,
        Nat.zero_le _, by rw [hb], ?_, hlen⟩
      simp only [NMap.get?_set_eq, List.append_nil]
      rfl

theorem pfold_at : ∀ (recs : List PRec) (m : Mem) (d : Disk) (efn elen : Nat),
    1 ≤ m.pmax → allocMh m.pmax m.pfileNum m.plength recs efn elen →
    (fileOf d.pfiles m.pfileNum).length = m.plength →
    (∀ f, m.pfileNum < f → d.pfiles.get? f = none) →
    efn < two32 → (∀ r ∈ recs, RecOK .mh r) →
    ∀ m' d', recs.foldlM pstepMh (m, d) = some (m', d') →
      FilesExt d.pfiles d'.pfiles ∧ ∀ r ∈ recs, RecAt .mh m.pmax 0 d' r.blk r.key r.val
  | [], m, d, efn, elen, _, _, _, _, _, _ => by
    intro m' d' h
    simp only [List.foldlM, pure, Option.some.injEq, Prod.mk.injEq] at h
    obtain ⟨rfl, rfl⟩ := h
    exact ⟨FilesExt.refl _, by simp⟩
  | r :: rs, m, d, efn, elen, hp, ha, hlen, hno, hf, hr => by
    intro m' d' h
    have hle := allocMh_le ha.2
    obtain ⟨files1, h1, h2, h3, h4, _⟩ := pstepMh_ok hp hlen hno (hr r (by simp)) ha.1 (by omega)
    have a2 := pstepMh_at hp hlen (hr r (by simp)) ha.1 (by omega) h1
    rw [List.foldlM_cons, h1] at h
    obtain ⟨g1, g2⟩ := pfold_at rs
      { m with pfileNum := (if m.plength ≥ m.pmax then m.pfileNum + 1 else m.pfileNum),
               plength := (if m.plength ≥ m.pmax then 0 else m.plength) + 4 +
                 (r.key.length + r.val.length) }
      { d with pfiles := files1 } efn elen hp ha.2 h3 h4 hf (fun x hx => hr x (by simp [hx])) m' d' h
    refine ⟨h2.trans g1, ?_⟩
    intro x hx
    simp only [List.mem_cons] at hx
    rcases hx with rfl | hx
    · exact a2.mono_mh g1
    · exact g2 x hx

theorem cid_at : ∀ (recs : List PRec) (F T : Bytes) (elen : Nat),
    allocCid F.length recs elen → (∀ r ∈ recs, RecOK .cid r) →
    ∀ r ∈ recs, ∀ (d : Disk) (pmax : Nat), d.cidfile = some (F ++ recs.flatMap recBytes ++ T) →
      RecAt .cid pmax 0 d r.blk r.key r.val
  | [], _, _, _, _, _ => by simp
  | r :: rs, F, T, elen, ha, hr => by
    have hl : (F ++ recBytes r).length = F.length + 4 + (r.key.length + r.val.length) := by
      simp [recBytes_length]; omega
    have ih := cid_at rs (F ++ recBytes r) T elen (by rw [hl]; exact ha.2)
      (fun x hx => hr x (by simp [hx]))
    intro x hx d pmax hd
    simp only [List.mem_cons] at hx
    rcases hx with rfl | hx
    · refine ⟨by rw [ha.1], hr x (by simp), F, rs.flatMap recBytes ++ T, ?_, by rw [ha.1]⟩
      rw [hd]
      simp [List.append_assoc]
    · apply ih x hx d pmax
      rw [hd]
      simp [List.append_assoc]

/-- the primary flush puts every pooled record at its predicted location and moves nothing -/
theorem priFlush_at {m : Mem} {d : Disk} (h : PInv m d) (hfn : m.kind = .mh → m.precFileNum < two32)
    {m' : Mem} {d' : Disk} (hfl : priFlush m d = some (m', d')) :
    (∀ r ∈ m.pnext, RecAt m.kind m.pmax 0 d' r.blk r.key r.val) ∧
      (∀ blk k v, RecAt m.kind m.pmax 0 d blk k v → RecAt m.kind m.pmax 0 d' blk k v) := by
  by_cases hne : m.pnext.isEmpty = true
  · have hnil : m.pnext = [] := List.isEmpty_iff.mp hne
    rw [priFlush_empty hne] at hfl
    simp only [Option.some.injEq, Prod.mk.injEq] at hfl
    obtain ⟨rfl, rfl⟩ := hfl
    exact ⟨by rw [hnil]; simp, fun _ _ _ hr => hr⟩
  · have hne' : m.pnext.isEmpty = false := by simpa using hne
    rcases kind_cases m with hk | hk
    · obtain ⟨ha, hlen, hno⟩ := h.mh hk
      have hp := h.pmax hk
      rw [priFlush_mh_eq hk hne'] at hfl
      obtain ⟨g1, g2⟩ := pfold_at m.pnext { m with pcur := m.pnext, pnext := [] } d
        m.precFileNum m.precPos hp ha hlen hno (hfn hk)
        (fun r hr => by have := h.recs r hr; rw [hk] at this; exact this) m' d' hfl
      rw [hk]
      exact ⟨g2, fun blk k v hr => hr.mono_mh g1⟩
    · have ha := h.cid hk
      rw [priFlush_cid_eq hk hne'] at hfl
      simp only [Option.some.injEq, Prod.mk.injEq] at hfl
      obtain ⟨rfl, rfl⟩ := hfl
      rw [hk]
      refine ⟨?_, ?_⟩
      · intro r hr
        apply cid_at m.pnext (d.cidfile.getD []) [] m.precPos ha
          (fun r hr => by have := h.recs r hr; rw [hk] at this; exact this) r hr
        simp
      · intro blk k v hr
        apply hr.mono_cid
        intro file hf
        exact ⟨m.pnext.flatMap recBytes, by simp [hf]⟩

/-! ### index flush -/

/-- every non-empty bucket of the table points at a record list tagged with it -/
def TagInv (m : Mem) (d : Disk) : Prop :=
  ∀ b, (m.buckets.get? b).getD 0 ≠ 0 →
    ∃ rl, BucketAt d.ifiles m.imax 0 b ((m.buckets.get? b).getD 0) rl

/-- what a pooled record list must satisfy to be written out and found again by the check -/
def TagOK (b : Nat) (rl : RecordList) : Prop :=
  FlushOK rl ∧ (encodeRL rl).length + 4 < two31 ∧ b < two32

theorem istep_at {pool : NMap RecordList} {m : Mem} {d : Disk} {blks : List (Nat × Nat)} {b : Nat}
    {rl : RecordList} (hg : pool.get? b = some rl) (hok : TagOK b rl) (hp : 1 ≤ m.imax)
    (hlen : (fileOf d.ifiles m.ifileNum).length = m.ilength)
    (hno : ∀ f, m.ifileNum < f → d.ifiles.get? f = none) (hf : m.ifileNum + 1 < two32) :
    ∃ pos, (iflushStep pool (m, d, blks) b).2.2 = blks ++ [(b, pos)] ∧
      BucketAt (iflushStep pool (m, d, blks) b).2.1.ifiles m.imax 0 b pos rl := by
  by_cases hroll : m.ilength ≥ m.imax
  · have hnone : d.ifiles.get? (m.ifileNum + 1) = none := hno _ (by omega)
    rw [istep_roll hg hroll hnone]
    refine ⟨_, rfl, m.ifileNum + 1, 0, [], [], hp, by omega, hf, Nat.zero_le _, rfl, ?_, rfl, hok.1,
      hok.2.1, hok.2.2⟩
    simp only [NMap.get?_set_eq, fileOf_some (NMap.get?_set_eq _ _ _), List.nil_append,
      List.append_nil]
  · rw [istep_noroll hg hroll]
    refine ⟨_, rfl, m.ifileNum, m.ilength, fileOf d.ifiles m.ifileNum, [], hp, by omega, by omega,
      Nat.zero_le _, rfl, ?_, hlen, hok.1, hok.2.1, hok.2.2⟩
    simp only [NMap.get?_set_eq, List.append_nil]

theorem ifold_at {pool : NMap RecordList} (hwf : ∀ b rl, pool.get? b = some rl → TagOK b rl) :
    ∀ (order : List Nat) (m : Mem) (d : Disk) (blks : List (Nat × Nat)),
    1 ≤ m.imax → (fileOf d.ifiles m.ifileNum).length = m.ilength →
    (∀ f, m.ifileNum < f → d.ifiles.get? f = none) → m.ifileNum + order.length < two32 →
    (∀ x ∈ blks, ∃ rl, BucketAt d.ifiles m.imax 0 x.1 x.2 rl) →
    ∀ x ∈ (order.foldl (iflushStep pool) (m, d, blks)).2.2,
      ∃ rl, BucketAt (order.foldl (iflushStep pool) (m, d, blks)).2.1.ifiles m.imax 0 x.1 x.2 rl
  | [], _, _, _, _, _, _, _, hb => hb
  | b :: order, m, d, blks, hp, hlen, hno, hf, hb => by
    simp only [List.length_cons] at hf
    rw [List.foldl_cons]
    cases hg : pool.get? b with
    | none =>
      rw [iflushStep_none hg]
      exact ifold_at hwf order m d blks hp hlen hno (by omega) hb
    | some rl =>
      obtain ⟨fn1, len1, files1, pos, s1, s2, s3, s4, s5, _⟩ :=
        istep_ok (blks := blks) hg (hwf b rl hg).1 hp hlen hno (by omega)
      obtain ⟨pos', t1, t2⟩ := istep_at (blks := blks) hg (hwf b rl hg) hp hlen hno (by omega)
      rw [s1] at t1 t2 ⊢
      simp only at t1 t2
      have hpos : pos' = pos := by
        have := List.append_cancel_left t1
        simp only [List.cons.injEq, Prod.mk.injEq, and_true, true_and] at this
        exact this.symm
      subst hpos
      exact ifold_at hwf order { m with ifileNum := fn1, ilength := len1 } { d with ifiles := files1 }
        (blks ++ [(b, pos')]) hp s3 s4 (by simp only; omega) (by
          intro x hx
          simp only [List.mem_append, List.mem_singleton] at hx
          rcases hx with hx | rfl
          · obtain ⟨rl0, h0⟩ := hb x hx
            exact ⟨rl0, h0.mono s2⟩
          · exact ⟨rl, t2⟩)

/-- the index flush keeps the table pointing at tagged record lists -/
theorem idxFlush_tag {m : Mem} {d : Disk} {order : List Nat} (h : IInv m d)
    (hwf : ∀ b rl, m.inext.get? b = some rl → TagOK b rl)
    (hfn : m.ifileNum + order.length < two32) (hT : TagInv m d) :
    TagInv (idxFlush m d order).1 (idxFlush m d order).2 := by
  by_cases hne : m.inext.isEmpty = true
  · rw [idxFlush_empty hne]; exact hT
  · have hne' : m.inext.isEmpty = false := by simpa using hne
    obtain ⟨fn, len, files, blks, g1, g2, _, _, _, _, _, _⟩ :=
      ifold_ok (fun b rl hb => (hwf b rl hb).1) order { m with icur := m.inext, inext := [] } d []
        h.imax h.len h.noFiles hfn (by simp)
    have hat := ifold_at hwf order { m with icur := m.inext, inext := [] } d [] h.imax h.len h.noFiles
      hfn (by simp)
    rw [idxFlush_eq hne']
    rw [g1] at hat ⊢
    simp only at hat ⊢
    intro b hb
    simp only at hb ⊢
    rcases setAll_get? blks m.buckets b with ⟨_, h2⟩ | ⟨pos, h1, h2⟩
    · rw [h2] at hb ⊢
      obtain ⟨rl, hr⟩ := hT b hb
      exact ⟨rl, hr.mono g2⟩
    · rw [h2]
      exact hat (b, pos) h1

end Sth
