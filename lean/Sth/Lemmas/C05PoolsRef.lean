/-
C05 (pools layer) — L3: the pools layer implements the atomic index of Sth/Model/Conc.lean.

Instance: the opaque value of a bucket is the part of Conc's exact-key index that lives in the bucket
(`IV = List (Key × Nat)`); the mutators are Conc's three index sections (`IdxOp`): Index.Put (a no-op when the key is
present), Index.Update (nothing when the key is absent), Index.Remove.  `bk : Key → Bucket` is any bucket function.
The abstraction is `absLookup bk s k = Conc.lookup (view s (bk k)) k`; `Rel bk s idx` says Conc's index `idx` and the
pools state agree on every key.  `refine_sec`: a mutator section is exactly Conc's index section (`IdxOp.conc`, the
expressions of `Conc.step`), every other section (reader, all flush sections) is a stutter; `refine_read`: an
Index.Get returns Conc's `lookup` at its info section.
-/
import Sth.Lemmas.C05
import Sth.Lemmas.C05PoolsRyw

namespace Sth.ConcPools

abbrev IV := List (Conc.Key × Nat)

/-- Conc's index sections as mutator codes -/
inductive IdxOp where
  | put (k : Conc.Key) (loc : Nat)       -- Index.Put   (Conc: putStored _ _ none _)
  | update (k : Conc.Key) (loc : Nat)    -- Index.Update (Conc: putStored _ _ (some _) _)
  | remove (k : Conc.Key)                -- Index.Remove (Conc: rmRead)
deriving DecidableEq, Repr

def IdxOp.key : IdxOp → Conc.Key
  | .put k _ => k
  | .update k _ => k
  | .remove k => k

/-- what the mutator stores, from the record list it finds in its bucket -/
def IdxOp.ap : IdxOp → Option IV → Option IV
  | .put k loc, old =>
    if (Conc.lookup (old.getD []) k).isSome then none else some (Conc.setIdx (old.getD []) k loc)
  | .update k loc, old =>
    if (Conc.lookup (old.getD []) k).isSome then some (Conc.setIdx (old.getD []) k loc) else none
  | .remove k, old =>
    if (Conc.lookup (old.getD []) k).isSome then some (Conc.delIdx (old.getD []) k) else none

/-- what the corresponding section of `Conc.step` does to Conc's index (the expressions of Conc.lean) -/
def IdxOp.conc : IdxOp → List (Conc.Key × Nat) → List (Conc.Key × Nat)
  | .put k loc, idx => if (Conc.lookup idx k).isSome then idx else Conc.setIdx idx k loc
  | .update k loc, idx => if (Conc.lookup idx k).isSome then Conc.setIdx idx k loc else idx
  | .remove k, idx => Conc.delIdx idx k

/-- the abstract lookup of the pools state -/
def absLookup (bk : Conc.Key → Bucket) (s : State IdxOp IV) (k : Conc.Key) : Option Nat :=
  Conc.lookup ((view s (bk k)).getD []) k

/-- Conc's index and the pools state agree on every key -/
def Rel (bk : Conc.Key → Bucket) (s : State IdxOp IV) (idx : List (Conc.Key × Nat)) : Prop :=
  ∀ k, Conc.lookup idx k = absLookup bk s k

/-- the mutator on the bucket's list and Conc's section on the whole index agree on every key of the bucket, and
    Conc's section leaves every other key alone -/
theorem idxOp_agree (u : IdxOp) (old : Option IV) (idx : List (Conc.Key × Nat)) (k : Conc.Key)
    (h : ∀ k', k' = k ∨ k' = u.key → Conc.lookup idx k' = Conc.lookup (old.getD []) k') :
    Conc.lookup (u.conc idx) k = Conc.lookup ((applyU IdxOp.ap u old).getD []) k := by
  have hk := h k (Or.inl rfl)
  have hu := h u.key (Or.inr rfl)
  cases u with
  | put k0 loc =>
    simp only [IdxOp.key] at hu
    simp only [IdxOp.conc, applyU, IdxOp.ap, hu]
    split
    · simp [hk]
    · simp only [Option.some_or, Option.getD_some, Conc.lookup_setIdx, hk]
  | update k0 loc =>
    simp only [IdxOp.key] at hu
    simp only [IdxOp.conc, applyU, IdxOp.ap, hu]
    split
    · simp only [Option.some_or, Option.getD_some, Conc.lookup_setIdx, hk]
    · simp [hk]
  | remove k0 =>
    simp only [IdxOp.key] at hu
    simp only [IdxOp.conc, applyU, IdxOp.ap]
    split
    · simp only [Option.some_or, Option.getD_some, Conc.lookup_delIdx, hk]
    · rename_i hn
      simp only [Option.none_or, Conc.lookup_delIdx]
      split
      · rename_i hkk; subst hkk
        cases hl : Conc.lookup (old.getD []) k with
        | none => rfl
        | some x => rw [hl] at hn; simp at hn
      · exact hk

/-- Conc's section on key `u.key` leaves every other key alone -/
theorem idxOp_frame (u : IdxOp) (idx : List (Conc.Key × Nat)) (k : Conc.Key) (h : k ≠ u.key) :
    Conc.lookup (u.conc idx) k = Conc.lookup idx k := by
  cases u with
  | put k0 loc =>
    simp only [IdxOp.key] at h
    simp only [IdxOp.conc]; split
    · rfl
    · rw [Conc.lookup_setIdx, if_neg h]
  | update k0 loc =>
    simp only [IdxOp.key] at h
    simp only [IdxOp.conc]; split
    · rw [Conc.lookup_setIdx, if_neg h]
    · rfl
  | remove k0 =>
    simp only [IdxOp.key] at h
    simp only [IdxOp.conc]; rw [Conc.lookup_delIdx, if_neg h]

/-- REFINEMENT, one section.  From a reachable state of the correct protocol related to Conc's index `idx`:
    a mutator section on the bucket of its key is EXACTLY Conc's index section (`u.conc idx`), and the record list it
    found answers Conc's test `(lookup idx k).isSome`; every other section is a stutter. -/
theorem refine_sec (bk : Conc.Key → Bucket) {s s' : State IdxOp IV} {i : Nat} {t : Thread IdxOp IV}
    {idx : List (Conc.Key × Nat)} (hs : Inv s) (ht : s.threads[i]? = some t) (h : SecC IdxOp.ap s i t s')
    (hr : Rel bk s idx) :
    match t.pc, t.prog with
    | .idle, .upd b u :: _ =>
      b = bk u.key → Rel bk s' (u.conc idx) ∧
        (Conc.lookup idx u.key).isSome = (Conc.lookup ((view s b).getD []) u.key).isSome
    | _, _ => Rel bk s' idx := by
  have hv := view_sec hs ht h
  have key : ∀ (b : Bucket) (u : IdxOp) (rest : List (Op IdxOp)), t.pc = .idle → t.prog = .upd b u :: rest →
      b = bk u.key → Rel bk s' (u.conc idx) ∧
        (Conc.lookup idx u.key).isSome = (Conc.lookup ((view s b).getD []) u.key).isSome := by
    intro b u rest hpc hp hb
    simp only [hpc, hp] at hv
    refine ⟨?_, by rw [hr u.key, absLookup, ← hb]⟩
    intro k
    unfold absLookup
    rw [hv (bk k)]
    by_cases hkb : bk k = b
    · rw [if_pos hkb]
      apply idxOp_agree
      intro k' hk'
      rw [hr k', absLookup]
      rcases hk' with rfl | rfl
      · rw [hkb]
      · rw [← hb]
    · rw [if_neg hkb]
      rw [idxOp_frame u idx k (by intro e; apply hkb; rw [e, hb]), hr k]; rfl
  have stutter : (∀ b', view s' b' = view s b') → Rel bk s' idx := by
    intro hvv k
    rw [hr k]; unfold absLookup; rw [hvv]
  cases h with
  | updSome b u rest v hpc hp hap => simp only [hpc, hp]; exact key b u rest hpc hp
  | updNone b u rest hpc hp hap => simp only [hpc, hp]; exact key b u rest hpc hp
  | info b rest hpc hp => simp only [hpc, hp] at hv ⊢; exact stutter hv
  | flushEmpty rest hpc hp hl he => simp only [hpc, hp] at hv ⊢; exact stutter hv
  | flushSwap rest hpc hp hl he => simp only [hpc, hp] at hv ⊢; exact stutter hv
  | readDone b inf hpc => simp only [hpc] at hv ⊢; exact stutter hv
  | append hpc => simp only [hpc] at hv ⊢; exact stutter hv
  | publish blks hpc => simp only [hpc] at hv ⊢; exact stutter hv
  | release hpc => simp only [hpc] at hv ⊢; exact stutter hv

/-- an Index.Get of key `k` whose info section runs now will return Conc's `lookup idx k` of this moment -/
theorem refine_read (bk : Conc.Key → Bucket) {s : State IdxOp IV} {idx : List (Conc.Key × Nat)} (hr : Rel bk s idx)
    (k : Conc.Key) : Conc.lookup ((infoVal s.file (infoOf s (bk k))).getD []) k = Conc.lookup idx k := by
  rw [infoVal_infoOf, hr k]; rfl

/-! ### the run-level statement -/

/-- programs address the bucket of their key -/
def WellBucketed (bk : Conc.Key → Bucket) (s : State IdxOp IV) : Prop :=
  ∀ t ∈ s.threads, ∀ op ∈ t.prog, ∀ b u, op = .upd b u → b = bk u.key

/-- executable check of `WellBucketed` -/
def wellBucketedB (bk : Conc.Key → Bucket) (s : State IdxOp IV) : Bool :=
  s.threads.all fun t => t.prog.all fun op => match op with | .upd b u => b == bk u.key | _ => true

theorem wellBucketed_of_B (bk : Conc.Key → Bucket) (s : State IdxOp IV) (h : wellBucketedB bk s = true) :
    WellBucketed bk s := by
  intro t ht op hop b u he
  simp only [wellBucketedB, List.all_eq_true] at h
  have := h t ht op hop
  subst he
  simpa using this

/-- all mutator codes of the schedule, in the order of their sections -/
def updsAll (ap : IdxOp → Option IV → Option IV) : State IdxOp IV → List Nat → List IdxOp
  | _, [] => []
  | s, i :: r =>
    (match s.threads[i]? with
     | some t => (match t.pc, t.prog with | .idle, .upd _ u :: _ => [u] | _, _ => [])
     | none => []) ++ updsAll ap (stepD ap s i) r

theorem wellBucketed_stepD (bk : Conc.Key → Bucket) {s : State IdxOp IV} (hs : Inv s) (hw : WellBucketed bk s)
    (i : Nat) : WellBucketed bk (stepD IdxOp.ap s i) := by
  unfold stepD
  cases h : step IdxOp.ap s i with
  | none => exact hw
  | some s' =>
    obtain ⟨t, ht, hsec⟩ := step_secC hs.fl1 hs.fl2 h
    obtain ⟨t', hthr, hc⟩ := prog_own hsec
    intro u hu op hop
    simp only [Option.getD_some] at hu
    rw [hthr] at hu
    rcases List.mem_or_eq_of_mem_set hu with hu | rfl
    · exact hw u hu op hop
    · have htm := List.mem_of_getElem? ht
      rcases hc with ⟨h1, _⟩ | ⟨_, h1, _⟩
      · rw [h1] at hop; exact hw t htm op hop
      · rw [h1] at hop; exact hw t htm op (List.mem_of_mem_tail hop)

/-- REFINEMENT, whole run: along every schedule the pools state is related to Conc's index after the same index
    sections, in the same order -/
theorem refine_run (bk : Conc.Key → Bucket) {s : State IdxOp IV} (hs : Inv s) (hw : WellBucketed bk s)
    {idx : List (Conc.Key × Nat)} (hr : Rel bk s idx) (sched : List Nat) :
    Rel bk (run IdxOp.ap s sched) ((updsAll IdxOp.ap s sched).foldl (fun idx u => u.conc idx) idx) := by
  induction sched generalizing s idx with
  | nil => exact hr
  | cons i r ih =>
    rw [run_cons]
    simp only [updsAll, List.foldl_append]
    refine ih (inv_stepD hs i) (wellBucketed_stepD bk hs hw i) ?_
    unfold stepD
    cases h : step IdxOp.ap s i with
    | none =>
      simp only [Option.getD_none]
      cases ht : s.threads[i]? with
      | none => exact hr
      | some t =>
        simp only []
        split
        · rename_i b u rest hpc hp
          obtain ⟨s', hs'⟩ := step_upd_isSome (ap := IdxOp.ap) ht hpc hp
          rw [h] at hs'; cases hs'
        · exact hr
    | some s' =>
      obtain ⟨t, ht, hsec⟩ := step_secC hs.fl1 hs.fl2 h
      have := refine_sec bk hs ht hsec hr
      simp only [Option.getD_some, ht]
      split
      · rename_i b u rest hpc hp
        simp only [hpc, hp] at this
        have hb : b = bk u.key := hw t (List.mem_of_getElem? ht) (.upd b u) (by rw [hp]; simp) b u rfl
        exact (this hb).1
      · rename_i hn
        split at this
        · rename_i b u rest hpc hp
          exact absurd hp (hn b u rest hpc)
        · exact this

end Sth.ConcPools
