/-
C03, crashes while OpenStore runs — the step list of Sth/Model/CrashImageOpen.lean ends in the directory
the model's open returns.
Core Lean only.
-/
import Sth.Model.CrashImageOpen

namespace Sth.C03O

theorem getLast?_cons_append_singleton {α : Type} (a : α) (l : List α) (b : α) :
    (a :: l ++ [b]).getLast? = some b := by
  rw [List.getLast?_append]; simp

theorem openPrimarySteps_last {c : Cfg} {d dP : Disk} {a b e : Nat}
    (h : openPrimary c d = .ok (dP, a, b, e)) : (openPrimarySteps c d).getLast? = some dP := by
  unfold openPrimary at h
  unfold openPrimarySteps
  cases hk : c.kind with
  | cid =>
    simp only [hk] at h ⊢
    cases h; rfl
  | mh =>
    simp only [hk] at h ⊢
    by_cases hmax : (if c.pfs = 0 then defaultMax else c.pfs) > defaultMax
    · rw [if_pos hmax] at h; cases h
    · rw [if_neg hmax] at h ⊢
      cases hp : d.phdr with
      | none =>
        simp only [hp] at h ⊢
        cases h; rfl
      | some hd =>
        simp only [hp] at h ⊢
        by_cases hm : hd.max ≠ (if c.pfs = 0 then defaultMax else c.pfs)
        · rw [if_pos hm] at h; cases h
        · rw [if_neg hm] at h ⊢
          cases h; rfl

theorem openIndexSteps_last {c : Cfg} {p : Nat} {d dI : Disk} {bits imax last : Nat} {bk : NMap Nat}
    (h : openIndex c p d = .ok (dI, bits, imax, bk, last)) :
    (openIndexSteps c p d).getLast? = some dI := by
  unfold openIndex at h
  unfold openIndexSteps
  by_cases h1 : c.bits ≠ 0 ∧ (c.bits > 31 ∨ c.bits < 8)
  · rw [if_pos h1] at h; cases h
  · rw [if_neg h1] at h ⊢
    by_cases h2 : c.ifs > defaultMax
    · rw [if_pos h2] at h; cases h
    · rw [if_neg h2] at h ⊢
      cases hh : d.ihdr with
      | none =>
        simp only [hh] at h ⊢
        cases h; rfl
      | some hd =>
        simp only [hh] at h ⊢
        by_cases h3 : hd.bits ≠ (if c.bits = 0 then hd.bits else c.bits)
        · rw [if_pos h3] at h; cases h
        · rw [if_neg h3] at h ⊢
          by_cases h4 : hd.max ≠ (if c.ifs = 0 then hd.max else c.ifs)
          · rw [if_pos h4] at h; cases h
          · rw [if_neg h4] at h ⊢
            cases hsn : d.snap with
            | none =>
              simp only [hsn, Bool.false_eq_true, if_false] at h ⊢
              cases hs : scanIndex (2 ^ (if c.bits = 0 then hd.bits else c.bits))
                  (if c.ifs = 0 then hd.max else c.ifs) d.ifiles hd.first with
              | none => simp only [hs] at h; cases h
              | some r =>
                obtain ⟨files, bk', last'⟩ := r
                simp only [hs] at h ⊢
                by_cases h5 : c.kind = .mh ∧ hd.pfs ≠ p
                · rw [if_pos h5] at h; cases h
                · rw [if_neg h5] at h ⊢
                  cases h
                  exact getLast?_cons_append_singleton _ _ _
            | some sn =>
              simp only [hsn] at h ⊢
              by_cases hu : (sn.size == 8 * 2 ^ (if c.bits = 0 then hd.bits else c.bits)) = true
              · simp only [hu, if_true] at h ⊢
                by_cases h5 : c.kind = .mh ∧ hd.pfs ≠ p
                · rw [if_pos h5] at h; cases h
                · rw [if_neg h5] at h ⊢
                  cases h; rfl
              · simp only [hu, Bool.false_eq_true, if_false] at h ⊢
                cases hs : scanIndex (2 ^ (if c.bits = 0 then hd.bits else c.bits))
                    (if c.ifs = 0 then hd.max else c.ifs) d.ifiles hd.first with
                | none => simp only [hs] at h; cases h
                | some r =>
                  obtain ⟨files, bk', last'⟩ := r
                  simp only [hs] at h ⊢
                  by_cases h5 : c.kind = .mh ∧ hd.pfs ≠ p
                  · rw [if_pos h5] at h; cases h
                  · rw [if_neg h5] at h ⊢
                    cases h
                    exact getLast?_cons_append_singleton _ _ _

/-- when the open succeeds, the last entry of the step list is the directory it returns -/
theorem openSteps_last {c : Cfg} {d dr : Disk} {mr : Mem} (h : openStoreR c d = (dr, .ok mr)) :
    (openSteps c d).getLast? = some dr := by
  unfold openStoreR openStore at h
  unfold openSteps
  simp only at h ⊢
  cases hp : openPrimary c { openFreelist d with free := some ((openFreelist d).free.getD []) } with
  | error e => rw [hp] at h; cases h
  | ok r =>
    obtain ⟨dP, pmax, pfn, plen⟩ := r
    rw [hp] at h
    simp only at h ⊢
    cases hi : openIndex c pmax dP with
    | error e => rw [hi] at h; cases h
    | ok r2 =>
      obtain ⟨dI, bits, imax, bk, last⟩ := r2
      rw [hi] at h
      simp only [Prod.mk.injEq, Except.ok.injEq] at h
      obtain ⟨rfl, _⟩ := h
      have hl := openIndexSteps_last hi
      rw [List.getLast?_append, hl]
      rfl

end Sth.C03O
