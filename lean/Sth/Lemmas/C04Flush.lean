/-
C04 — `idxFlush` maintains the span log: every record is appended as a live span whose position lies
beyond every earlier record, and the table is pointed at it.
Core Lean only.
-/
import Sth.Lemmas.C04Idx
import Sth.Lemmas.C02Flush

namespace Sth

/-- the span of an index record -/
def recSpan (b : Nat) (rl : RecordList) : GSpan := ⟨false, le32 b ++ encodeRL rl⟩

theorem recSpan_bytes (b : Nat) (rl : RecordList) : (recSpan b rl).bytes = idxRecBytes b rl := by
  unfold recSpan GSpan.bytes GSpan.raw idxRecBytes le32
  simp [leEnc_length, List.append_assoc]
  congr 1
  omega

theorem recSpan_ok {bits : Nat} {b : Nat} {rl : RecordList} (h31 : bits ≤ 31) (h : RecLogOK bits (b, rl)) :
    IdxSpanOK bits (recSpan b rl) ∧ leDec ((recSpan b rl).body.take 4) = b := by
  have hB : (le32 b).length = 4 := leEnc_length 4 _
  have hb : b < 2 ^ bits := h.1
  have hs : (encodeRL rl).length + 4 < two31 := h.2
  have hb32 : b < 256 ^ 4 := by
    have : 2 ^ bits ≤ 2 ^ 31 := Nat.pow_le_pow_right (by omega) h31
    omega
  have htag : leDec ((recSpan b rl).body.take 4) = b := by
    unfold recSpan
    simp only
    rw [List.take_left' hB]
    exact leDec_leEnc 4 _ hb32
  refine ⟨⟨?_, fun _ => by rw [htag]; exact hb⟩, htag⟩
  unfold recSpan
  simp only [List.length_append, hB]
  omega

/-- the table after the sets of a flush so far -/
def tblOf (bk : NMap Nat) (blks : List (Nat × Nat)) (b : Nat) : Nat := ((setAll bk blks).get? b).getD 0

theorem tblOf_snoc (bk : NMap Nat) (blks : List (Nat × Nat)) (b pos b' : Nat) :
    tblOf bk (blks ++ [(b, pos)]) b' = if b' = b then pos else tblOf bk blks b' := by
  unfold tblOf
  rw [setAll_snoc, NMap.get?_set]
  split <;> rfl

/-- appending one record at the end of the current file (`roll = false`) or as the first record of
    the next file (`roll = true`) -/
theorem IdxLogT.append {bits imax N : Nat} {files : NMap Bytes} {T : Nat → Nat} {first : Nat}
    {sp : Nat → List GSpan} (h : IdxLogT bits imax N files T first sp) (h31 : bits ≤ 31)
    (hp : 1 ≤ imax) {b : Nat} {rl : RecordList} (hok : RecLogOK bits (b, rl)) (roll : Bool)
    (hroll : roll = false → (gbytes (sp N)).length < imax)
    {files' : NMap Bytes}
    (hfiles : ∀ f, files'.get? f =
      if roll then (if f = N + 1 then some (idxRecBytes b rl) else files.get? f)
      else (if f = N then some (gbytes (sp N) ++ idxRecBytes b rl) else files.get? f)) :
    IdxLogT bits imax (if roll then N + 1 else N) files'
      (fun b' => if b' = b then
        (if roll then (N + 1) * imax + 0 + 4 else N * imax + (gbytes (sp N)).length + 4) else T b')
      first
      (fun f => if roll then (if f = N + 1 then [recSpan b rl] else sp f)
        else (if f = N then sp N ++ [recSpan b rl] else sp f)) := by
  obtain ⟨hsok, htag⟩ := recSpan_ok h31 hok
  have hle := h.le
  -- every old record lies before the new position
  have hold : ∀ f, first ≤ f → f ≤ N → ∀ x ∈ liveAt 0 (sp f),
      f * imax + x.1 + 4 <
        (if roll then (N + 1) * imax + 0 + 4 else N * imax + (gbytes (sp N)).length + 4) := by
    intro f hf1 hf2 x hx
    have hoff := (h.t2 f hf1 hf2 x hx).1
    cases roll with
    | true =>
      simp only [if_true]
      have : (f + 1) * imax ≤ (N + 1) * imax := Nat.mul_le_mul_right _ (by omega)
      rw [Nat.add_mul] at this
      omega
    | false =>
      simp only [Bool.false_eq_true, if_false]
      by_cases hfN : f = N
      · subst hfN
        have := (liveAt_bound (off := x.1) (body := x.2) (by simpa using hx)).2
        omega
      · have : (f + 1) * imax ≤ N * imax := Nat.mul_le_mul_right _ (by omega)
        rw [Nat.add_mul] at this
        omega
  cases roll with
  | true =>
    simp only [if_true] at hfiles hold ⊢
    constructor
    · omega
    · intro f hf
      rw [hfiles, if_neg (by omega)]; exact h.gone f hf
    · intro f hf1 hf2
      rw [hfiles]
      by_cases hff : f = N + 1
      · simp only [hff, if_true, gbytes_cons, gbytes_nil, List.append_nil, recSpan_bytes]
      · simp only [hff, if_false]; exact h.files f hf1 (by omega)
    · intro f hf1 hf2 s hs
      by_cases hff : f = N + 1
      · simp only [hff, if_true, List.mem_singleton] at hs; rw [hs]; exact hsok
      · simp only [hff, if_false] at hs; exact h.ok f hf1 (by omega) s hs
    · intro b' hb'
      by_cases hbb : b' = b
      · subst hbb
        refine ⟨N + 1, 0, (recSpan b' rl).body, by omega, Nat.le_refl _, ?_, htag, by simp⟩
        simp [liveAt, recSpan]
      · simp only [hbb, if_false] at hb' ⊢
        obtain ⟨f, off, body, g1, g2, g3, g4, g5⟩ := h.t1 b' hb'
        refine ⟨f, off, body, g1, by omega, ?_, g4, g5⟩
        rw [if_neg (by omega)]; exact g3
    · intro f hf1 hf2 x hx
      by_cases hff : f = N + 1
      · simp only [hff, if_true] at hx
        simp [liveAt, recSpan] at hx
        subst hff
        rw [hx]
        simp only
        have : leDec (List.take 4 (le32 b ++ encodeRL rl)) = b := htag
        rw [this]
        simp only [if_true]
        omega
      · simp only [hff, if_false] at hx
        have hf2' : f ≤ N := by omega
        obtain ⟨t1, t2⟩ := h.t2 f hf1 hf2' x hx
        refine ⟨t1, ?_⟩
        by_cases hbb : leDec (x.2.take 4) = b
        · simp only [hbb, if_true]
          have := hold f hf1 hf2' x hx
          omega
        · simp only [hbb, if_false]; exact t2
  | false =>
    simp only [Bool.false_eq_true, if_false] at hfiles hold ⊢
    have hlen := hroll rfl
    constructor
    · exact hle
    · intro f hf
      rw [hfiles, if_neg (by omega)]; exact h.gone f hf
    · intro f hf1 hf2
      rw [hfiles]
      by_cases hff : f = N
      · simp only [hff, if_true, gbytes_append, gbytes_cons, gbytes_nil, List.append_nil, recSpan_bytes]
      · simp only [hff, if_false]; exact h.files f hf1 hf2
    · intro f hf1 hf2 s hs
      by_cases hff : f = N
      · simp only [hff, if_true, List.mem_append, List.mem_singleton] at hs
        rcases hs with hs | hs
        · exact h.ok N (by omega) (Nat.le_refl _) s hs
        · rw [hs]; exact hsok
      · simp only [hff, if_false] at hs; exact h.ok f hf1 hf2 s hs
    · intro b' hb'
      by_cases hbb : b' = b
      · subst hbb
        refine ⟨N, (gbytes (sp N)).length, (recSpan b' rl).body, hle, Nat.le_refl _, ?_, htag, by simp⟩
        simp only [if_true]
        have := liveAt_snoc_live (sp N) (recSpan b' rl).body 0
        simp only [Nat.zero_add] at this
        show _ ∈ liveAt 0 (sp N ++ [recSpan b' rl])
        unfold recSpan at this ⊢
        rw [this]
        simp
      · simp only [hbb, if_false] at hb' ⊢
        obtain ⟨f, off, body, g1, g2, g3, g4, g5⟩ := h.t1 b' hb'
        refine ⟨f, off, body, g1, g2, ?_, g4, g5⟩
        by_cases hff : f = N
        · subst hff
          simp only [if_true]
          rw [liveAt_append]
          exact List.mem_append_left _ g3
        · simp only [hff, if_false]; exact g3
    · intro f hf1 hf2 x hx
      have hcase : x ∈ liveAt 0 (sp f) ∨ (f = N ∧ x = ((gbytes (sp N)).length, (recSpan b rl).body)) := by
        by_cases hff : f = N
        · subst hff
          simp only [if_true] at hx
          have := liveAt_snoc_live (sp f) (recSpan b rl).body 0
          simp only [Nat.zero_add] at this
          unfold recSpan at this hx
          rw [this] at hx
          simp only [List.mem_append, List.mem_singleton] at hx
          rcases hx with hx | hx
          · exact Or.inl hx
          · exact Or.inr ⟨rfl, hx⟩
        · simp only [hff, if_false] at hx; exact Or.inl hx
      rcases hcase with hx' | ⟨hff, hx'⟩
      · obtain ⟨t1, t2⟩ := h.t2 f hf1 hf2 x hx'
        refine ⟨t1, ?_⟩
        by_cases hbb : leDec (x.2.take 4) = b
        · simp only [hbb, if_true]
          have := hold f hf1 hf2 x hx'
          omega
        · simp only [hbb, if_false]; exact t2
      · subst hff
        rw [hx']
        simp only
        rw [htag]
        simp only [if_true]
        omega

end Sth

namespace Sth

/-- the fold of `idxFlush` keeps `bits` and `buckets` -/
theorem ifold_keep (pool : NMap RecordList) : ∀ (order : List Nat) (acc : Mem × Disk × List (Nat × Nat)),
    (order.foldl (iflushStep pool) acc).1.bits = acc.1.bits ∧
    (order.foldl (iflushStep pool) acc).1.buckets = acc.1.buckets ∧
    (order.foldl (iflushStep pool) acc).1.imax = acc.1.imax
  | [], _ => ⟨rfl, rfl, rfl⟩
  | b :: order, acc => by
    rw [List.foldl_cons]
    obtain ⟨i1, i2, i3⟩ := ifold_keep pool order (iflushStep pool acc b)
    rw [i1, i2, i3]
    obtain ⟨am, ad, ab⟩ := acc
    cases hg : pool.get? b with
    | none => rw [iflushStep_none hg]; exact ⟨rfl, rfl, rfl⟩
    | some rl =>
      by_cases hroll : am.ilength ≥ am.imax
      · unfold iflushStep; simp [hg, hroll]
      · unfold iflushStep; simp [hg, hroll]

/-- the state of the flush fold against the span log -/
structure LogFold4 (bits : Nat) (bk0 : NMap Nat) (first : Nat) (sp : Nat → List GSpan) (m : Mem)
    (d : Disk) (blks : List (Nat × Nat)) : Prop where
  log : IdxLogT bits m.imax m.ifileNum d.ifiles (tblOf bk0 blks) first sp
  len : (fileOf d.ifiles m.ifileNum).length = m.ilength
  noFiles : ∀ f, m.ifileNum < f → d.ifiles.get? f = none

theorem istep_log4 {bits : Nat} {bk0 : NMap Nat} {first : Nat} {pool : NMap RecordList} {m : Mem}
    {d : Disk} {blks : List (Nat × Nat)} {sp : Nat → List GSpan} {b : Nat} {rl : RecordList}
    (h31 : bits ≤ 31) (hp : 1 ≤ m.imax)
    (hg : pool.get? b = some rl) (hok : RecLogOK bits (b, rl)) (h : LogFold4 bits bk0 first sp m d blks) :
    ∃ sp', LogFold4 bits bk0 first sp' (iflushStep pool (m, d, blks) b).1
      (iflushStep pool (m, d, blks) b).2.1 (iflushStep pool (m, d, blks) b).2.2 ∧
      (iflushStep pool (m, d, blks) b).1.imax = m.imax := by
  have hlast := h.log.files m.ifileNum h.log.le (Nat.le_refl _)
  have hlen : (gbytes (sp m.ifileNum)).length = m.ilength := by rw [← h.len, fileOf_some hlast]
  by_cases hroll : m.ilength ≥ m.imax
  · have hnone : d.ifiles.get? (m.ifileNum + 1) = none := h.noFiles _ (by omega)
    rw [istep_roll hg hroll hnone]
    have hfiles : ∀ f, (rollFiles d.ifiles (m.ifileNum + 1) (idxRecBytes b rl)).get? f =
        if true then (if f = m.ifileNum + 1 then some (idxRecBytes b rl) else d.ifiles.get? f)
        else (if f = m.ifileNum then some (gbytes (sp m.ifileNum) ++ idxRecBytes b rl)
          else d.ifiles.get? f) := by
      intro f
      simp only [if_true]
      by_cases hff : f = m.ifileNum + 1
      · rw [if_pos hff, hff, NMap.get?_set_eq, fileOf_some (NMap.get?_set_eq _ _ _)]; simp
      · rw [if_neg hff, NMap.get?_set_ne _ _ hff, NMap.get?_set_ne _ _ hff]
    have := h.log.append h31 hp hok true (by intro hc; cases hc) hfiles
    simp only [if_true] at this
    refine ⟨fun f => if f = m.ifileNum + 1 then [recSpan b rl] else sp f, ⟨?_, ?_, ?_⟩, rfl⟩
    · have e : tblOf bk0 (blks ++ [(b, (m.ifileNum + 1) * m.imax + 0 + 4)]) =
          fun b' => if b' = b then (m.ifileNum + 1) * m.imax + 0 + 4 else tblOf bk0 blks b' := by
        funext b'; exact tblOf_snoc _ _ _ _ _
      show IdxLogT bits m.imax (m.ifileNum + 1) _ (tblOf bk0 (blks ++ [_])) first _
      rw [e]
      exact this
    · show (fileOf (rollFiles d.ifiles (m.ifileNum + 1) (idxRecBytes b rl)) (m.ifileNum + 1)).length = _
      rw [fileOf_some (NMap.get?_set_eq _ _ _), fileOf_some (NMap.get?_set_eq _ _ _)]
      simp
    · intro f hf
      show (rollFiles d.ifiles (m.ifileNum + 1) (idxRecBytes b rl)).get? f = none
      simp only at hf
      rw [NMap.get?_set_ne _ _ (by omega), NMap.get?_set_ne _ _ (by omega)]
      exact h.noFiles f (by omega)
  · rw [istep_noroll hg hroll]
    have hfiles : ∀ f, (d.ifiles.set m.ifileNum (fileOf d.ifiles m.ifileNum ++ idxRecBytes b rl)).get? f =
        if false then (if f = m.ifileNum + 1 then some (idxRecBytes b rl) else d.ifiles.get? f)
        else (if f = m.ifileNum then some (gbytes (sp m.ifileNum) ++ idxRecBytes b rl)
          else d.ifiles.get? f) := by
      intro f
      simp only [Bool.false_eq_true, if_false]
      by_cases hff : f = m.ifileNum
      · rw [if_pos hff, hff, NMap.get?_set_eq, fileOf_some hlast]
      · rw [if_neg hff, NMap.get?_set_ne _ _ hff]
    have := h.log.append h31 hp hok false (by intro _; rw [hlen]; omega) hfiles
    simp only [Bool.false_eq_true, if_false] at this
    refine ⟨fun f => if f = m.ifileNum then sp m.ifileNum ++ [recSpan b rl] else sp f,
      ⟨?_, ?_, ?_⟩, rfl⟩
    · have e : tblOf bk0 (blks ++ [(b, m.ifileNum * m.imax + m.ilength + 4)]) =
          fun b' => if b' = b then m.ifileNum * m.imax + (gbytes (sp m.ifileNum)).length + 4
            else tblOf bk0 blks b' := by
        funext b'; rw [hlen]; exact tblOf_snoc _ _ _ _ _
      show IdxLogT bits m.imax m.ifileNum _ (tblOf bk0 (blks ++ [_])) first _
      rw [e]
      exact this
    · show (fileOf (d.ifiles.set m.ifileNum _) m.ifileNum).length = _
      rw [fileOf_some (NMap.get?_set_eq _ _ _)]
      simp [h.len]
    · intro f hf
      show (d.ifiles.set m.ifileNum _).get? f = none
      simp only at hf
      rw [NMap.get?_set_ne _ _ (by omega)]
      exact h.noFiles f hf

theorem ifold_log4 {bits : Nat} {bk0 : NMap Nat} {first : Nat} {pool : NMap RecordList}
    (h31 : bits ≤ 31) (hpool : ∀ b rl, pool.get? b = some rl → RecLogOK bits (b, rl)) :
    ∀ (order : List Nat) (m : Mem) (d : Disk) (blks : List (Nat × Nat)) (sp : Nat → List GSpan),
      1 ≤ m.imax → LogFold4 bits bk0 first sp m d blks →
      ∃ sp', LogFold4 bits bk0 first sp' (order.foldl (iflushStep pool) (m, d, blks)).1
          (order.foldl (iflushStep pool) (m, d, blks)).2.1
          (order.foldl (iflushStep pool) (m, d, blks)).2.2
  | [], m, d, blks, sp, _, h => ⟨sp, h⟩
  | b :: order, m, d, blks, sp, hp, h => by
    rw [List.foldl_cons]
    cases hg : pool.get? b with
    | none =>
      rw [iflushStep_none hg]
      exact ifold_log4 h31 hpool order m d blks sp hp h
    | some rl =>
      obtain ⟨sp1, h1, e1⟩ := istep_log4 h31 hp hg (hpool b rl hg) h
      exact ifold_log4 h31 hpool order _ _ _ sp1
        (by show 1 ≤ (iflushStep pool (m, d, blks) b).1.imax; rw [e1]; exact hp) h1

/-- `idxFlush` maintains the span log -/
theorem idxFlush_log4 {m : Mem} {d : Disk} {order : List Nat} {first : Nat} {sp : Nat → List GSpan}
    (hI : IInv m d) (hL : IdxLog m d first sp) (h31 : m.bits ≤ 31)
    (hpool : ∀ b rl, m.inext.get? b = some rl → RecLogOK m.bits (b, rl)) :
    ∃ sp', IdxLog (idxFlush m d order).1 (idxFlush m d order).2 first sp' := by
  by_cases hne : m.inext.isEmpty = true
  · rw [idxFlush_empty hne]
    exact ⟨sp, hL⟩
  · have hne' : m.inext.isEmpty = false := by simpa using hne
    have h0 : LogFold4 m.bits m.buckets first sp { m with icur := m.inext, inext := [] } d [] :=
      ⟨hL, hI.len, hI.noFiles⟩
    obtain ⟨sp', h1⟩ := ifold_log4 h31 hpool order { m with icur := m.inext, inext := [] } d [] sp
      hI.imax h0
    obtain ⟨k1, k2, k3⟩ := ifold_keep m.inext order ({ m with icur := m.inext, inext := [] }, d, [])
    rw [idxFlush_eq hne']
    refine ⟨sp', ?_⟩
    have hl := h1.log
    show IdxLogT (order.foldl (iflushStep m.inext) _).1.bits (order.foldl (iflushStep m.inext) _).1.imax
      (order.foldl (iflushStep m.inext) _).1.ifileNum _
      (fun b => ((setAll (order.foldl (iflushStep m.inext) _).1.buckets _).get? b).getD 0) first sp'
    rw [k1, k2]
    exact hl

end Sth
