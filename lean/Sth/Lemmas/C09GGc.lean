/-
C09 with primary GC cycles in the history (multihash primary; C04's parallel invariant `GInv`): records
have been relocated, primary files truncated and unlinked, the primary header's first file advanced, the
freelist handed over.  The closed directory of any state satisfying `GInv` gives the reference state of
C09GCore — with empty pools the C01 invariant follows from `GInv` — and the reopened state after the
translation satisfies `GInv` for the new configuration: the new index holds the SAME blocks, so the
primary's part of the invariant (`ZInv`) carries over.
Core Lean only.
-/
import Sth.Lemmas.C09GIgc

namespace Sth.C09G

open Sth.C09

/-! ### counters of a run in two parts -/

theorem gcCountersOK_append : ∀ (a b : List SOp) (s : SState),
    GcCountersOK s (a ++ b) ↔ GcCountersOK s a ∧ GcCountersOK (runS s a).1 b
  | [], b, s => by simp [GcCountersOK, runS]
  | op :: a, b, s => by
    have ih := gcCountersOK_append a b (stepS s op).1
    simp only [List.cons_append, GcCountersOK, runS_cons_fst]
    rw [ih]
    exact and_assoc.symm

/-! ### with empty primary pools the GC invariant gives the C01 invariant -/

section
variable {c : Cfg} {U : List (Bytes × Bytes)} {s : SState} {spec : Spec} {n B : Nat}

theorem inv_of_ginv (hG : GInv c U s spec n B) (hpc : s.m.pcur = []) : Inv c U s spec n B := by
  have hk : s.m.kind = .mh := hG.kind
  have hne : s.m.kind ≠ .cid := by rw [hk]; intro x; cases x
  refine ⟨by rw [hk, hG.kmh], hG.imm, hG.bits8, hG.bits31, hG.a, ?_, hG.i, ?_, hG.nodup, hG.w⟩
  · refine ⟨fun _ => hG.pmax1, ?_, hG.nextBelow, ?_, fun _ => ⟨hG.alloc, hG.plen, hG.pno⟩,
      fun x => absurd x hne⟩
    · intro r hr
      rw [hk]; exact hG.recs r hr
    · intro r hr
      rw [hpc] at hr; cases hr
  · exact ⟨fun _ => ⟨hG.cntF, hG.pmaxle⟩, fun x => absurd x hne, hG.cntI⟩

theorem shape_of_ginv (hG : GInv c U s spec n B) : DShape c s.d := by
  obtain ⟨pf, psp, _, _, _, L1, L2, f1, _, _⟩ := hG.z
  refine ⟨⟨_, f1, ?_⟩, ?_⟩
  · rw [flat_len]; omega
  · intro hk
    rw [hG.kmh] at hk; cases hk

end

/-! ### the closed directory of a state satisfying the GC invariant -/

section
variable {c c' : Cfg} {U : List (Bytes × Bytes)} {s : SState} {spec : Spec} {n B : Nat}

/-- Close on the GC invariant: the closed directory, what refusals need (`ClosedY`), the reference state
    (`RefOK`) and the GC invariant of the reference state -/
theorem ref_of_ginv (hc' : c'.Legal) (hkind : c'.kind = c.kind) (hpfs : c'.pfs = c.pfs)
    (hU : Univ c.kind U) (hG : GInv c U s spec n B) (hn : n < 1073741824) (hB : B < two31)
    (ord : List Nat) (us : Bool) :
    ∃ d P first pfn plen N ifiles bk, C09.closedDisk s ord us = some d ∧ ClosedY c d P ∧
      RefOK c c' U spec n B d first pfn plen N ifiles bk ∧
      GInv c U ⟨c, refMem c c' bk N (fileOf ifiles N).length pfn plen, { d with ifiles := ifiles }⟩
        spec n B := by
  have hmh : c.kind = .mh := hG.kmh
  obtain ⟨m1, d1, p1, hG1, hp1, hi1, _⟩ := priFlush_g hU hG hn
  obtain ⟨f1, f2⟩ := fixOrder_ok ord s.m.inext
  obtain ⟨m2, d2, i1, hG2, hin, hpn2, _⟩ := idxFlush_g (s := ⟨s.cfg, m1, d1⟩) hU hG1 hn hB
    (order := fixOrder ord s.m.inext.keys) (by rw [hi1]; exact f1) (by rw [hi1]; exact f2)
  have hpn : m2.pnext = [] := by rw [hpn2]; exact hp1
  obtain ⟨fr, hcl, hfr⟩ := storeClose_eq4 p1 i1
  have hcfg : s.cfg = c := hG.y.cfg
  rw [hcfg] at hG2
  have hk2 : m2.kind = .mh := hG2.kind
  have h1 : C09.closedDisk s ord us = some
      (if us = true then
        ({ d2 with snap := some ⟨8 * 2 ^ m2.bits, m2.buckets.filter (·.2 ≠ 0)⟩, free := fr } : Disk)
       else { d2 with snap := none, free := fr }) := by
    unfold C09.closedDisk
    rw [hcl]
  have hsh := closed_shape (shape_of_ginv hG) h1
  -- name the closed directory and record what it shares with `d2`
  obtain ⟨d, hd, e1, e2, e3, e4, e5, e6, e7, hsnap⟩ : ∃ d,
      (if us = true then
        ({ d2 with snap := some ⟨8 * 2 ^ m2.bits, m2.buckets.filter (·.2 ≠ 0)⟩, free := fr } : Disk)
       else { d2 with snap := none, free := fr }) = d ∧
      d.pfiles = d2.pfiles ∧ d.cidfile = d2.cidfile ∧ d.ifiles = d2.ifiles ∧ d.ihdr = d2.ihdr ∧
      d.phdr = d2.phdr ∧ d.free = fr ∧ d.freeGc = d2.freeGc ∧
      (d.snap = some ⟨8 * 2 ^ m2.bits, m2.buckets.filter (·.2 ≠ 0)⟩ ∨ d.snap = none) := by
    cases us with
    | true => exact ⟨_, rfl, rfl, rfl, rfl, rfl, rfl, rfl, rfl, Or.inl rfl⟩
    | false => exact ⟨_, rfl, rfl, rfl, rfl, rfl, rfl, rfl, rfl, Or.inr rfl⟩
  rw [hd] at h1 hsh
  -- refusals / primary open
  obtain ⟨pf, q1, q2, q3⟩ := hG2.y.phdr hmh
  have hY : ClosedY c d m2.pfileNum := by
    obtain ⟨first, sp, hih, _⟩ := hG2.y.ilog
    refine ⟨hsh, ⟨first, by rw [e4]; exact hih⟩, fun _ => ⟨pf, by rw [e5]; exact q1, q2,
      by rw [e1]; exact q3, ?_⟩⟩
    rw [e1]
    exact hG2.pno _ (by show m2.pfileNum < m2.pfileNum + 1; omega)
  obtain ⟨pfn, plen, o1, o2, _⟩ := hY.openPrimary hc' hkind (fun _ => hpfs)
  obtain ⟨a2, a3⟩ := o2 hmh
  -- the old table
  obtain ⟨first, ifiles, bk, l0, l1, l2, l3, l4⟩ := load4 (c := c) hG2.i hG2.y e3 e4 hsnap
  have halloc : m2.pfileNum = m2.precFileNum ∧ m2.plength = m2.precPos := by
    have := hG2.alloc
    have e : m2.pnext = [] := hpn
    simp only [e] at this
    exact this
  have hplen : (fileOf d2.pfiles m2.pfileNum).length = m2.plength := hG2.plen
  have hne : m2.kind ≠ .cid := by rw [hk2]; intro x; cases x
  have hr : Reopened m2 d2 (refMem c c' bk m2.ifileNum (fileOf ifiles m2.ifileNum).length pfn plen)
      { d with ifiles := ifiles } := by
    refine ⟨by show c'.kind = m2.kind; rw [hkind, hmh, hk2], hG2.imm.symm, hG2.y.bits.symm,
      hG2.y.imax.symm, (hdrPfs_eq hkind (fun _ => hpfs)).trans hG2.y.pmax.symm, rfl, rfl, rfl, rfl, rfl,
      rfl, l3, l4, l2, e1, ?_, ?_, ?_, ?_, ?_, e4, e5⟩
    · intro file hf
      show d.cidfile = some file
      rw [e2]; exact hf
    · show d.cidfile.getD [] = d2.cidfile.getD []
      rw [e2]
    · intro _
      show pfn = m2.precFileNum
      rw [a2]; exact halloc.1
    · show plen = m2.precPos
      rw [a3, e1, hplen]; exact halloc.2
    · intro _
      show pfn = m2.pfileNum ∧ plen = m2.plength
      rw [a2, a3, e1]
      exact ⟨rfl, hplen⟩
  obtain ⟨f, hf, _⟩ := hsh.free
  have hfree : ({ d with ifiles := ifiles } : Disk).free =
      some (d2.free.getD [] ++ m2.flpool.flatMap blockBytes) := by
    show d.free = _
    rw [hf, ← hfr, ← e6, hf]
    rfl
  have hGR := reopen_g hU hG2 hn hin hpn hr rfl hfree e7
  refine ⟨d, m2.pfileNum, first, pfn, plen, m2.ifileNum, ifiles, bk, h1, hY, ?_, hGR⟩
  refine ⟨l0, l1, l3, inv_of_ginv hGR rfl, hsh, o1, ?_⟩
  intro _
  rw [a2]
  exact ⟨pf, by rw [e5, hpfs]; exact q1, q2, by rw [e1]; exact q3⟩

end

/-! ### the GC invariant of the reopened state after the translation -/

section
variable {c c' : Cfg} {U : List (Bytes × Bytes)} {spec : Spec} {n B : Nat} {d : Disk}
  {first pfn plen N : Nat} {ifiles : NMap Bytes} {bk : NMap Nat}

theorem translate_ginv (hc' : c'.Legal) (hkind : c'.kind = c.kind) {ia : Nat}
    (hia : (ia = 0 ∧ c'.ifs = defaultMax) ∨ (ia = c'.ifs ∧ c'.ifs = c.ifs))
    (hpfs : c'.pfs = c.pfs) (hbits : c'.bits ≠ c.bits) (hU : Univ c.kind U)
    (hR : RefOK c c' U spec n B d first pfn plen N ifiles bk)
    (hGR : GInv c U ⟨c, refMem c c' bk N (fileOf ifiles N).length pfn plen, { d with ifiles := ifiles }⟩
      spec n B)
    (hsn : spec.length ≤ n) (hn : n < 1073741824) (hB : B < two31) (order : List Nat) :
    ∃ m' d' keys, openStoreT { c' with ifs := ia } d order = (d', .ok m', keys) ∧
      GInv c' U ⟨c', m', d'⟩ spec n B ∧
      d'.pfiles = d.pfiles ∧ d'.cidfile = d.cidfile ∧ d'.free = d.free ∧ d'.phdr = d.phdr ∧
      d'.freeGc = d.freeGc ∧ d'.ihdr = some ⟨c'.bits, c'.ifs, 0, hdrPfs c'⟩ := by
  have hmh : c.kind = .mh := hGR.kmh
  have hmh' : c'.kind = .mh := by rw [hkind]; exact hmh
  obtain ⟨bk', fn, files, keys, t1, hI', hY', hent⟩ :=
    translate_core hc' hkind hia (hdrPfs_eq hkind (fun _ => hpfs)) hbits hU hR hsn hn hB order
  refine ⟨_, _, keys, t1, ?_, rfl, rfl, rfl, rfl, rfl, rfl⟩
  apply GInv.of_inv hc' hmh' hI' hY'
  -- the primary's part: same files, same pools (empty), and the new entries are old entries
  obtain ⟨pf, psp, zh, zl, ze, zf⟩ := hGR.z
  refine ⟨pf, psp, zh, ⟨zl.le, zl.gone, zl.files, zl.ok, zl.starts⟩, ?_, ?_⟩
  · intro blk hb
    obtain ⟨key, val, q1, q2⟩ := ze blk (hent blk hb)
    refine ⟨key, val, q1, ?_⟩
    rcases q2 with ⟨r, hr, _⟩ | q2
    · cases hr
    · exact Or.inr q2
  · obtain ⟨L1, L2, g1, g2, g3⟩ := zf
    refine ⟨L1, L2, g1, g2, ?_⟩
    intro fb hfb
    obtain ⟨q1, q2, q3, q4, q5⟩ := g3 fb hfb
    exact ⟨q1, fun blk hb => q2 blk (hent blk hb), q3, q4, q5⟩

end

/-! ### the runs: multihash primary -/

/-- the state after a run with GC cycles of both kinds, with a counter bound that also covers the size of
    the map (the translation pools at most one bucket per key) -/
theorem reach_g {c : Cfg} {U : List (Bytes × Bytes)} (hc : c.Legal) (hmh : c.kind = .mh)
    (hU : Univ c.kind U) (ops : List SOp)
    (hkeys : ∀ op ∈ ops, ∀ k, op.keyOf = some k → ∀ dig, keyClass c.kind k = .ok dig → (k, dig) ∈ U)
    (hlen : ops.length < 1073741824) (hB : 0 + (ops.map SOp.bytes).sum < two31) (s0 : SState)
    (hi : initS c = some s0) (hb : GcCountersOK s0 ops) (hcnt : gcCnt (runS s0 ops).1 < 268435456) :
    ∃ n, GInv c U (runS s0 ops).1 (specRun c.kind c.imm [] ops).1 n (0 + (ops.map SOp.bytes).sum) ∧
      n < 1073741824 ∧ (specRun c.kind c.imm [] ops).1.length ≤ n := by
  obtain ⟨_, n', hG⟩ := run_g hc hU ops s0 [] 0 0 (ginv_init hc hmh hi) hkeys hb hB
  have hsl : (specRun c.kind c.imm [] ops).1.length ≤ ops.length := by
    have := specRun_length c.kind c.imm ops []
    simpa using this
  refine ⟨max (gcCnt (runS s0 ops).1) ops.length, hG.tight.mono (Nat.le_max_left _ _) (Nat.le_refl _),
    ?_, Nat.le_trans hsl (Nat.le_max_right _ _)⟩
  exact Nat.max_lt.mpr ⟨by omega, hlen⟩

theorem translate_refines_gc_arg (c : Cfg) (hc : c.Legal) (hmh : c.kind = .mh) (c' : Cfg)
    (hc' : c'.Legal) (hkind : c'.kind = c.kind) {ia : Nat}
    (hia : (ia = 0 ∧ c'.ifs = defaultMax) ∨ (ia = c'.ifs ∧ c'.ifs = c.ifs))
    (hpfs : c'.pfs = c.pfs) (hbits : c'.bits ≠ c.bits)
    (ops ops2 : List SOp) (hk : KeysOK c.kind (ops ++ ops2)) (hs : SizesOK (ops ++ ops2)) (s0 : SState)
    (hi : initS c = some s0) (ord order : List Nat) (us : Bool)
    (hb : GcCountersOK s0 (ops ++ [.reopen ord us])) :
    ∃ d m' d' keys, C09.closedDisk (runS s0 ops).1 ord us = some d ∧
      openStoreT { c' with ifs := ia } d order = (d', .ok m', keys) ∧
      (GcCountersOK ⟨c', m', d'⟩ ops2 →
        (runS ⟨c', m', d'⟩ ops2).2 =
          (specRun c.kind c'.imm (specRun c.kind c.imm [] ops).1 ops2).2) ∧
      d'.pfiles = d.pfiles ∧ d'.cidfile = d.cidfile ∧ d'.free = d.free ∧ d'.phdr = d.phdr ∧
      d'.freeGc = d.freeGc ∧ d'.ihdr = some ⟨c'.bits, c'.ifs, 0, hdrPfs c'⟩ := by
  have hU := univ_of_keysOK hk (keysExact_all c.kind (ops ++ ops2))
  have hlen : ops.length + ops2.length < 1073741824 := by
    have := hs.1; rw [List.length_append] at this; exact this
  have hsum : (ops.map SOp.bytes).sum + (ops2.map SOp.bytes).sum < two31 := by
    have := hs.2.1; rw [List.map_append, List.sum_append] at this; exact this
  obtain ⟨hb1, hb2, _⟩ := (gcCountersOK_append ops [.reopen ord us] s0).mp hb
  obtain ⟨n, hG, hn, hsl⟩ := reach_g hc hmh hU ops
    (fun op ho k hkey dig hcls => mem_digestsOf (List.mem_append_left _ ho) hkey hcls)
    (by omega) (by omega) s0 hi hb1 hb2
  obtain ⟨d, P, first, pfn, plen, N, ifiles, bk, h1, _, hR, hGR⟩ :=
    ref_of_ginv hc' hkind hpfs hU hG hn (by omega) ord us
  obtain ⟨m', d', keys, t1, hG', q1, q2, q3, q4, q5, q6⟩ :=
    translate_ginv hc' hkind hia hpfs hbits hU hR hGR hsl hn (by omega) order
  refine ⟨d, m', d', keys, h1, t1, ?_, q1, q2, q3, q4, q5, q6⟩
  intro hb3
  have hU' : Univ c'.kind (digestsOf c.kind (ops ++ ops2)) := by rw [hkind]; exact hU
  obtain ⟨r1, _⟩ := run_g hc' hU' ops2 ⟨c', m', d'⟩ _ _ _ hG'
    (fun op ho k hkey dig hcls =>
      mem_digestsOf (List.mem_append_right _ ho) hkey (by rw [← hkind]; exact hcls))
    hb3 (by omega)
  rw [hkind] at r1
  exact r1

/-! ### refusals and the unchanged bit size on the GC invariant -/

theorem mismatch_refused_gc (c : Cfg) (hc : c.Legal) (hmh : c.kind = .mh) (ops : List SOp)
    (hk : KeysOK c.kind ops) (hs : SizesOK ops) (s0 : SState)
    (hi : initS c = some s0) (ord : List Nat) (us : Bool)
    (hb : GcCountersOK s0 (ops ++ [.reopen ord us])) :
    ∃ d, C09.closedDisk (runS s0 ops).1 ord us = some d ∧ openFreelist d = d ∧
      (∀ (c' : Cfg) (order : List Nat), c'.Legal → c'.kind = c.kind →
        c'.pfs = c.pfs → c'.ifs ≠ c.ifs →
        openStoreT c' d order = (d, .error .wrongIndexFileSize, [])) ∧
      (∀ (c' : Cfg) (order : List Nat), c'.Legal → c'.kind = c.kind →
        c'.pfs ≠ c.pfs →
        openStoreT c' d order = (d, .error .wrongPrimaryFileSize, [])) := by
  have hU := univ_of_keysOK hk (keysExact_all c.kind ops)
  obtain ⟨hb1, hb2, _⟩ := (gcCountersOK_append ops [.reopen ord us] s0).mp hb
  obtain ⟨n, hG, hn, _⟩ := reach_g hc hmh hU ops
    (fun op ho k hkey dig hcls => mem_digestsOf ho hkey hcls)
    (by have := hs.1; omega) (by have := hs.2.1; omega) s0 hi hb1 hb2
  obtain ⟨d, P, _, _, _, _, _, _, h1, hY, _, _⟩ :=
    ref_of_ginv (c' := c) hc rfl rfl hU hG hn (by have := hs.2.1; omega) ord us
  refine ⟨d, h1, openFreelist_id hY.shape, ?_, ?_⟩
  · intro c' order hc' hkind hp hne
    exact hY.refuse_ifs hc' hkind (fun _ => hp) hne order
  · intro c' order hc' hkind hne
    exact hY.refuse_pfs hkind hmh hc'.2.2.2.2.1 hc'.2.2.2.2.2 hne order

theorem same_bits_gc (c : Cfg) (hc : c.Legal) (hmh : c.kind = .mh) (ops : List SOp)
    (hk : KeysOK c.kind ops) (hs : SizesOK ops) (s0 : SState)
    (hi : initS c = some s0) (ord order : List Nat) (us : Bool)
    (hb : GcCountersOK s0 (ops ++ [.reopen ord us])) :
    ∃ d m' d', C09.closedDisk (runS s0 ops).1 ord us = some d ∧
      openStoreT c d order = (d', .ok m', []) ∧
      stepS (runS s0 ops).1 (.reopen ord us) = (⟨c, m', d'⟩, .gc) ∧
      ∀ (c' : Cfg) (order' : List Nat), c'.bits = c.bits →
        openStoreT c' d order' = ((openStore c' d).1, (openStore c' d).2, []) := by
  have hU := univ_of_keysOK hk (keysExact_all c.kind ops)
  obtain ⟨hb1, hb2, _⟩ := (gcCountersOK_append ops [.reopen ord us] s0).mp hb
  obtain ⟨n, hG, hn, _⟩ := reach_g hc hmh hU ops
    (fun op ho k hkey dig hcls => mem_digestsOf ho hkey hcls)
    (by have := hs.1; omega) (by have := hs.2.1; omega) s0 hi hb1 hb2
  have hB : 0 + (ops.map SOp.bytes).sum < two31 := by have := hs.2.1; omega
  obtain ⟨d, P, _, _, _, _, _, _, h1, hY, _, _⟩ :=
    ref_of_ginv (c' := c) hc rfl rfl hU hG hn hB ord us
  obtain ⟨m', d', r1, _⟩ := step_reopen_g hc hU hG hn hB ord us
  have hcfg : (runS s0 ops).1.cfg = c := hG.y.cfg
  rw [stepS_reopen_eq h1, hcfg] at r1
  refine ⟨d, m', d', h1, ?_, ?_, fun c' order' hb => hY.same_bits hb order'⟩
  · rw [hY.same_bits rfl order]
    cases ho : openStore c d with
    | mk dd r =>
      rw [ho] at r1
      cases r with
      | error e => simp only [Prod.mk.injEq] at r1; cases r1.2
      | ok mm =>
        simp only [Prod.mk.injEq, SState.mk.injEq] at r1
        obtain ⟨⟨_, rfl, rfl⟩, _⟩ := r1
        rfl
  · rw [stepS_reopen_eq h1, hcfg]
    exact r1

/-! ### CID stores: primary GC does nothing, so every history is covered by the index-GC development -/

theorem run_shape_cid {c : Cfg} {U : List (Bytes × Bytes)} (hc : c.Legal) (hcid : c.kind = .cid)
    (hU : Univ c.kind U) :
    ∀ (ops : List SOp) (s : SState) (spec : Spec) (n B : Nat),
    Inv c U s spec n B → YInv c s → DShape c s.d →
    (∀ op ∈ ops, ∀ k, op.keyOf = some k → ∀ dig, keyClass c.kind k = .ok dig → (k, dig) ∈ U) →
    n + ops.length < 1073741824 → B + (ops.map SOp.bytes).sum < two31 →
    DShape c (runS s ops).1.d
  | [], _, _, _, _, _, _, hD, _, _, _ => hD
  | op :: ops, s, spec, n, B, hI, hX, hD, hk, hn, hB => by
    simp only [List.length_cons, List.map_cons, List.sum_cons] at hn hB
    obtain ⟨_, h2, h3⟩ := step_ok4_cid hc hcid hU hI hX op (hk op (by simp)) (by omega) (by omega)
    rw [runS_cons_fst]
    refine run_shape_cid hc hcid hU ops (stepS s op).1 (specStep c.kind c.imm spec op).1 (n + 1)
      (B + op.bytes) h2 h3 ?_ (fun o ho => hk o (by simp [ho])) (by omega) (by omega)
    by_cases hop : op.isC04a = true
    · exact step_shape4 hI hX (by omega) hD op hop
    · cases op with
      | pgc lowUse bud =>
        have hkind : s.m.kind = .cid := by rw [hI.kind, hcid]
        have : stepS s (.pgc lowUse bud) = (s, .gc) := by simp only [stepS, hkind]
        rw [this]; exact hD
      | _ => exact absurd rfl hop

theorem translate_refines_gc_cid_arg (c : Cfg) (hc : c.Legal) (hcid : c.kind = .cid) (c' : Cfg)
    (hc' : c'.Legal) (hkind : c'.kind = c.kind) {ia : Nat}
    (hia : (ia = 0 ∧ c'.ifs = defaultMax) ∨ (ia = c'.ifs ∧ c'.ifs = c.ifs))
    (hbits : c'.bits ≠ c.bits)
    (ops ops2 : List SOp) (hk : KeysOK c.kind (ops ++ ops2)) (hs : SizesOK (ops ++ ops2)) (s0 : SState)
    (hi : initS c = some s0) (ord order : List Nat) (us : Bool) :
    ∃ d m' d' keys, C09.closedDisk (runS s0 ops).1 ord us = some d ∧
      openStoreT { c' with ifs := ia } d order = (d', .ok m', keys) ∧
      (runS ⟨c', m', d'⟩ ops2).2 =
        (specRun c.kind c'.imm (specRun c.kind c.imm [] ops).1 ops2).2 ∧
      d'.pfiles = d.pfiles ∧ d'.cidfile = d.cidfile ∧ d'.free = d.free ∧ d'.phdr = d.phdr ∧
      d'.freeGc = d.freeGc ∧ d'.ihdr = some ⟨c'.bits, c'.ifs, 0, hdrPfs c'⟩ := by
  have hU := univ_of_keysOK hk (keysExact_all c.kind (ops ++ ops2))
  have hlen : ops.length + ops2.length < 1073741824 := by
    have := hs.1; rw [List.length_append] at this; exact this
  have hsum : (ops.map SOp.bytes).sum + (ops2.map SOp.bytes).sum < two31 := by
    have := hs.2.1; rw [List.map_append, List.sum_append] at this; exact this
  have hpfs : c.kind = .mh → c'.pfs = c.pfs := fun x => by rw [hcid] at x; cases x
  have hkeys : ∀ op ∈ ops, ∀ k, op.keyOf = some k → ∀ dig, keyClass c.kind k = .ok dig →
      (k, dig) ∈ digestsOf c.kind (ops ++ ops2) :=
    fun op ho k hkey dig hcls => mem_digestsOf (List.mem_append_left _ ho) hkey hcls
  obtain ⟨_, hI, hX⟩ := run_cid hc hcid hU ops s0 [] 0 0 (inv_init c hc _ s0 hi) (yinv_init c hc s0 hi)
    hkeys (by omega) (by omega)
  have hD := run_shape_cid hc hcid hU ops s0 [] 0 0 (inv_init c hc _ s0 hi) (yinv_init c hc s0 hi)
    (shape_init c hc s0 hi) hkeys (by omega) (by omega)
  have hsl : (specRun c.kind c.imm [] ops).1.length ≤ 0 + ops.length := by
    have := specRun_length c.kind c.imm ops []
    simpa using this
  obtain ⟨m2, d2, d, h1, hC⟩ := closed4_of_reach hU hI hX hD (by omega) (by omega) ord us
  obtain ⟨first, pfn, plen, ifiles, bk, hR⟩ := hC.ref hc' hkind hpfs
  obtain ⟨bk', fn, files, keys, t1, hI', hY', _⟩ :=
    translate_core hc' hkind hia (hdrPfs_eq hkind hpfs) hbits hU hR hsl (by omega) (by omega) order
  have hU' : Univ c'.kind (digestsOf c.kind (ops ++ ops2)) := by rw [hkind]; exact hU
  obtain ⟨r1, _, _⟩ := run_cid hc' (by rw [hkind]; exact hcid) hU' ops2 _ _ _ _ hI' hY'
    (fun op ho k hkey dig hcls =>
      mem_digestsOf (List.mem_append_right _ ho) hkey (by rw [← hkind]; exact hcls))
    (by omega) (by omega)
  rw [hkind] at r1
  exact ⟨d, _, _, keys, h1, t1, r1, rfl, rfl, rfl, rfl, rfl, rfl⟩

/-- both primaries, every history: index GC cycles, primary GC cycles, reopens anywhere before and after
    the bit-size change; the counter bounds are only used for the multihash primary -/
theorem translate_refines_gc_all (c : Cfg) (hc : c.Legal) (c' : Cfg) (hc' : c'.Legal)
    (hkind : c'.kind = c.kind) {ia : Nat}
    (hia : (ia = 0 ∧ c'.ifs = defaultMax) ∨ (ia = c'.ifs ∧ c'.ifs = c.ifs))
    (hpfs : c.kind = .mh → c'.pfs = c.pfs) (hbits : c'.bits ≠ c.bits)
    (ops ops2 : List SOp) (hk : KeysOK c.kind (ops ++ ops2)) (hs : SizesOK (ops ++ ops2)) (s0 : SState)
    (hi : initS c = some s0) (ord order : List Nat) (us : Bool)
    (hb : GcCountersOK s0 (ops ++ [.reopen ord us])) :
    ∃ d m' d' keys, C09.closedDisk (runS s0 ops).1 ord us = some d ∧
      openStoreT { c' with ifs := ia } d order = (d', .ok m', keys) ∧
      (GcCountersOK ⟨c', m', d'⟩ ops2 →
        (runS ⟨c', m', d'⟩ ops2).2 =
          (specRun c.kind c'.imm (specRun c.kind c.imm [] ops).1 ops2).2) ∧
      d'.pfiles = d.pfiles ∧ d'.cidfile = d.cidfile ∧ d'.free = d.free ∧ d'.phdr = d.phdr ∧
      d'.freeGc = d.freeGc ∧ d'.ihdr = some ⟨c'.bits, c'.ifs, 0, hdrPfs c'⟩ := by
  rcases (by cases c.kind <;> simp : c.kind = .mh ∨ c.kind = .cid) with hkk | hkk
  · exact translate_refines_gc_arg c hc hkk c' hc' hkind hia (hpfs hkk) hbits ops ops2 hk hs s0 hi ord
      order us hb
  · obtain ⟨d, m', d', keys, h1, h2, h3, h4⟩ :=
      translate_refines_gc_cid_arg c hc hkk c' hc' hkind hia hbits ops ops2 hk hs s0 hi ord order us
    exact ⟨d, m', d', keys, h1, h2, fun _ => h3, h4⟩

end Sth.C09G
