/-
C09 with index GC cycles in the history (both primaries): the closed directory of a state reachable by
calls other than primary GC — index header's first file possibly advanced, index files with deleted,
merged and truncated spans, resume points — gives the reference state of C09GCore; refusals and the
unchanged-bit-size case on such directories; the run theorems.
Core Lean only.
-/
import Sth.Lemmas.C09GCore

namespace Sth.C09G

open Sth.C09

/-! ### the directory shape along histories with index GC -/

section
variable {c : Cfg} {U : List (Bytes × Bytes)} {s : SState} {spec : Spec} {n B : Nat}

theorem step_shape4 (hI : Inv c U s spec n B) (hX : YInv c s) (hn : n < 1073741824)
    (hD : DShape c s.d) (op : SOp) (hop : op.isC04a = true) : DShape c (stepS s op).1.d := by
  cases op with
  | igc sf bud =>
    obtain ⟨g, d', r1, _, _, _, _, f2, _, f4, _⟩ := step_igc hI hX hn sf bud
    rw [r1]
    exact ⟨by show ∃ f, d'.free = some f ∧ _; rw [f4]; exact hD.free,
      fun hk => by show d'.cidfile ≠ none; rw [f2]; exact hD.cid hk⟩
  | pgc a b => cases hop
  | put k v => exact step_shape hD hX.cfg _ rfl
  | get k => exact step_shape hD hX.cfg _ rfl
  | has k => exact step_shape hD hX.cfg _ rfl
  | size k => exact step_shape hD hX.cfg _ rfl
  | rm k => exact step_shape hD hX.cfg _ rfl
  | flush o => exact step_shape hD hX.cfg _ rfl
  | iter o => exact step_shape hD hX.cfg _ rfl
  | reopen o us => exact step_shape hD hX.cfg _ rfl

end

theorem run_shape4 {c : Cfg} {U : List (Bytes × Bytes)} (hc : c.Legal) (hU : Univ c.kind U) :
    ∀ (ops : List SOp) (s : SState) (spec : Spec) (n B : Nat),
    Inv c U s spec n B → YInv c s → DShape c s.d → (∀ op ∈ ops, op.isC04a = true) →
    (∀ op ∈ ops, ∀ k, op.keyOf = some k → ∀ dig, keyClass c.kind k = .ok dig → (k, dig) ∈ U) →
    n + ops.length < 1073741824 → B + (ops.map SOp.bytes).sum < two31 →
    DShape c (runS s ops).1.d
  | [], _, _, _, _, _, _, hD, _, _, _, _ => hD
  | op :: ops, s, spec, n, B, hI, hX, hD, ha, hk, hn, hB => by
    simp only [List.length_cons, List.map_cons, List.sum_cons] at hn hB
    obtain ⟨_, h2, h3⟩ := step_ok4a hc hU hI hX op (ha op (by simp)) (hk op (by simp)) (by omega)
      (by omega)
    rw [runS_cons_fst]
    exact run_shape4 hc hU ops (stepS s op).1 (specStep c.kind c.imm spec op).1 (n + 1) (B + op.bytes)
      h2 h3 (step_shape4 hI hX (by omega) hD op (ha op (by simp))) (fun o ho => ha o (by simp [ho]))
      (fun o ho => hk o (by simp [ho])) (by omega) (by omega)

/-! ### what refusals and the plain open need to know about a closed directory -/

/-- `d` is a closed directory of a store created with `c`; `P` = number of the last primary file -/
structure ClosedY (c : Cfg) (d : Disk) (P : Nat) : Prop where
  shape : DShape c d
  hdr : ∃ first, d.ihdr = some ⟨c.bits, c.ifs, first, hdrPfs c⟩
  pri : c.kind = .mh → ∃ pf, d.phdr = some ⟨c.pfs, pf⟩ ∧ pf ≤ P ∧
    (∀ f, pf ≤ f → f ≤ P → d.pfiles.get? f ≠ none) ∧ d.pfiles.get? (P + 1) = none

section
variable {c : Cfg} {d : Disk} {P : Nat}

/-- the primary opens on the closed directory, with the same header limit, and changes nothing -/
theorem ClosedY.openPrimary (h : ClosedY c d P) {c' : Cfg} (hc' : c'.Legal)
    (hk : c'.kind = c.kind) (hp : c.kind = .mh → c'.pfs = c.pfs) :
    ∃ pfn plen, Sth.openPrimary c' d = .ok (d, hdrPfs c', pfn, plen) ∧
      (c.kind = .mh → pfn = P ∧ plen = (fileOf d.pfiles P).length) ∧
      (c.kind = .cid → pfn = 0 ∧ plen = (d.cidfile.getD []).length) := by
  obtain ⟨pf, hpf1, hpf2, hpf3, hpf4⟩ : ∃ pf, (c'.kind = .mh → d.phdr = some ⟨c'.pfs, pf⟩) ∧
      (c'.kind = .mh → pf ≤ P) ∧ (c'.kind = .mh → ∀ f, pf ≤ f → f ≤ P → d.pfiles.get? f ≠ none) ∧
      (c'.kind = .mh → d.pfiles.get? (P + 1) = none) := by
    rcases (by cases c.kind <;> simp : c.kind = .mh ∨ c.kind = .cid) with hkk | hkk
    · obtain ⟨pf, q1, q2, q3, q4⟩ := h.pri hkk
      exact ⟨pf, fun _ => by rw [hp hkk]; exact q1, fun _ => q2, fun _ => q3, fun _ => q4⟩
    · have hne : c'.kind ≠ .mh := by rw [hk, hkk]; intro x; cases x
      exact ⟨0, fun x => absurd x hne, fun x => absurd x hne, fun x => absurd x hne,
        fun x => absurd x hne⟩
  obtain ⟨cf, pfn, plen, o1, o2, o3⟩ := openPrimary_ok4 c' hc' d P pf hpf1 hpf2 hpf3 hpf4
  have hcf : cf = d.cidfile := by
    cases hkk : c.kind with
    | mh => exact (o2 (by rw [hk]; exact hkk)).1
    | cid =>
      rw [(o3 (by rw [hk]; exact hkk)).1]
      cases hcd : d.cidfile with
      | none => exact absurd hcd (h.shape.cid hkk)
      | some f => rfl
  refine ⟨pfn, plen, ?_, ?_, ?_⟩
  · rw [o1, hcf]
  · intro hkk
    exact (o2 (by rw [hk]; exact hkk)).2
  · intro hkk
    exact (o3 (by rw [hk]; exact hkk)).2

/-- a different primary file-size limit (multihash primary): refused, directory untouched -/
theorem ClosedY.refuse_pfs (h : ClosedY c d P) {c' : Cfg} (hk : c'.kind = c.kind)
    (hmh : c.kind = .mh) (h1 : 1 ≤ c'.pfs) (h2 : c'.pfs ≤ defaultMax) (hne : c'.pfs ≠ c.pfs)
    (order : List Nat) :
    openStoreT c' d order = (d, .error .wrongPrimaryFileSize, []) := by
  obtain ⟨pf, hph, _⟩ := h.pri hmh
  have hop : Sth.openPrimary c' d = .error .wrongPrimaryFileSize := by
    have p0 : c'.pfs ≠ 0 := by omega
    have p1 : ¬ c'.pfs > defaultMax := by omega
    have p2 : c.pfs ≠ c'.pfs := fun e => hne e.symm
    unfold Sth.openPrimary
    simp only [hk, hmh, p0, if_false, p1, hph, ne_eq, p2, not_false_eq_true, if_true]
  unfold openStoreT
  simp only [openFreelist_id h.shape, hop]

/-- a different index file-size limit: refused with `wrongIndexFileSize`, directory untouched — whether
    or not the bit size differs as well -/
theorem ClosedY.refuse_ifs (h : ClosedY c d P) {c' : Cfg} (hc' : c'.Legal)
    (hk : c'.kind = c.kind) (hp : c.kind = .mh → c'.pfs = c.pfs) (hne : c'.ifs ≠ c.ifs)
    (order : List Nat) :
    openStoreT c' d order = (d, .error .wrongIndexFileSize, []) := by
  obtain ⟨pfn, plen, o1, _, _⟩ := h.openPrimary hc' hk hp
  obtain ⟨first, hh⟩ := h.hdr
  obtain ⟨b8, b31, i1, i2, _, _⟩ := hc'
  have hne' : (⟨c.bits, c.ifs, first, hdrPfs c⟩ : IdxHeader).max ≠ c'.ifs := fun e => hne e.symm
  unfold openStoreT
  simp only [openFreelist_id h.shape, o1]
  by_cases hb : c.bits = c'.bits
  · rw [openIndex_wrongIfs (hdrPfs c') b8 b31 i2 (by omega) hh hb hne']
  · rw [openIndex_wrongBits (hdrPfs c') b8 b31 i2 hh hb]
    simp only
    rw [translate_wrongIfs c'.kind (hdrPfs c') pfn plen c'.bits order (by omega) hh hne']

/-- with the bit size of the index header, `openStoreT` is plain `openStore` and translates nothing -/
theorem ClosedY.same_bits (h : ClosedY c d P) {c' : Cfg} (hb : c'.bits = c.bits)
    (order : List Nat) :
    openStoreT c' d order = ((openStore c' d).1, (openStore c' d).2, []) := by
  obtain ⟨first, hh0⟩ := h.hdr
  have := openStoreT_noTranslate c' d order (by
    intro d1 pm pfn plen hp
    apply openIndex_not_wrongBits
    intro hd hh
    obtain ⟨_, p2, _⟩ := openPrimary_frame hp
    rw [p2, openFreelist_id h.shape, hh0] at hh
    cases hh
    exact Or.inr hb.symm)
  rw [this]
  unfold openStoreR
  rw [openFreelist_id h.shape]

end

/-! ### the closed directory of a state reachable without primary GC -/

structure Closed4 (c : Cfg) (U : List (Bytes × Bytes)) (spec : Spec) (n B : Nat) (m2 : Mem) (d2 d : Disk) :
    Prop where
  inv : Inv c U ⟨c, m2, d2⟩ spec n B
  yinv : YInv c ⟨c, m2, d2⟩
  inext : m2.inext = []
  pnext : m2.pnext = []
  shape : DShape c d
  pfiles : d.pfiles = d2.pfiles
  cidfile : d.cidfile = d2.cidfile
  ifiles : d.ifiles = d2.ifiles
  ihdr : d.ihdr = d2.ihdr
  phdr : d.phdr = d2.phdr
  snap : d.snap = some ⟨8 * 2 ^ m2.bits, m2.buckets.filter (·.2 ≠ 0)⟩ ∨ d.snap = none

section
variable {c : Cfg} {U : List (Bytes × Bytes)} {s : SState} {spec : Spec} {n B : Nat}

theorem closed4_of_reach (hU : Univ c.kind U) (hI : Inv c U s spec n B) (hX : YInv c s)
    (hD : DShape c s.d) (hn : n < 1073741824) (hB : B < two31) (ord : List Nat) (us : Bool) :
    ∃ m2 d2 d, C09.closedDisk s ord us = some d ∧ Closed4 c U spec n B m2 d2 d := by
  obtain ⟨m1, d1, m2, d2, p1, i1, hI2, hX2, hin, hpn, _⟩ := flushBoth_inv4 hU hI hX hn hB ord
  obtain ⟨fr, hcl, _⟩ := storeClose_eq p1 i1
  have hcfg : s.cfg = c := hX.cfg
  rw [hcfg] at hI2 hX2
  have h1 : C09.closedDisk s ord us = some
      (if us = true then
        ({ d2 with snap := some ⟨8 * 2 ^ m2.bits, m2.buckets.filter (·.2 ≠ 0)⟩, free := fr } : Disk)
       else { d2 with snap := none, free := fr }) := by
    unfold C09.closedDisk
    rw [hcl]
  refine ⟨m2, d2, _, h1, ?_⟩
  have hsh := closed_shape hD h1
  cases us with
  | true => exact ⟨hI2, hX2, hin, hpn, hsh, rfl, rfl, rfl, rfl, rfl, Or.inl rfl⟩
  | false => exact ⟨hI2, hX2, hin, hpn, hsh, rfl, rfl, rfl, rfl, rfl, Or.inr rfl⟩

end

section
variable {c : Cfg} {U : List (Bytes × Bytes)} {spec : Spec} {n B : Nat} {m2 : Mem} {d2 d : Disk}

theorem Closed4.closedY (h : Closed4 c U spec n B m2 d2 d) : ClosedY c d m2.pfileNum := by
  obtain ⟨first, sp, hih, _⟩ := h.yinv.ilog
  refine ⟨h.shape, ⟨first, by rw [h.ihdr]; exact hih⟩, ?_⟩
  intro hk
  obtain ⟨pf, q1, q2, q3⟩ := h.yinv.phdr hk
  refine ⟨pf, by rw [h.phdr]; exact q1, q2, by rw [h.pfiles]; exact q3, ?_⟩
  rw [h.pfiles]
  exact (h.inv.p.mh (by rw [h.inv.kind]; exact hk)).2.2 _ (by show m2.pfileNum < m2.pfileNum + 1; omega)

/-- loading the old bucket table from the closed directory: snapshot, or rescan of the span log from the
    header's first file -/
theorem load4 {c : Cfg} {m2 : Mem} {d2 d : Disk} (hIi : IInv m2 d2) (hY : YInv c ⟨c, m2, d2⟩)
    (e1 : d.ifiles = d2.ifiles) (e2 : d.ihdr = d2.ihdr)
    (hsnap : d.snap = some ⟨8 * 2 ^ m2.bits, m2.buckets.filter (·.2 ≠ 0)⟩ ∨ d.snap = none) :
    ∃ first ifiles bk, d.ihdr = some ⟨c.bits, c.ifs, first, hdrPfs c⟩ ∧
      loadOld d c.bits c.ifs first = some (ifiles, bk) ∧
      (∀ f, ifiles.get? f = d2.ifiles.get? f) ∧ NMap.Sorted bk ∧
      ∀ b, (bk.get? b).getD 0 = (m2.buckets.get? b).getD 0 := by
  have hbits : m2.bits = c.bits := hY.bits
  have himax : m2.imax = c.ifs := hY.imax
  obtain ⟨first, sp, hih, hl⟩ := hY.ilog
  have hl' : IdxLogT c.bits c.ifs m2.ifileNum d2.ifiles (tbl m2) first sp := by
    have : IdxLogT m2.bits m2.imax m2.ifileNum d2.ifiles (tbl m2) first sp := hl
    rw [hbits, himax] at this; exact this
  refine ⟨first, ?_⟩
  rcases hsnap with hs | hs
  · refine ⟨d.ifiles, m2.buckets.filter (·.2 ≠ 0), by rw [e2]; exact hih, ?_, ?_,
      NMap.sorted_filter _ hIi.sorted, NMap.get?_filter_nz hIi.sorted⟩
    · unfold loadOld
      simp only [hs, hbits, beq_self_eq_true, if_true, Option.map_some, Option.getD_some]
    · intro f; rw [e1]
  · have hino : d.ifiles.get? (m2.ifileNum + 1) = none := by
      rw [e1]; exact hIi.noFiles _ (by omega)
    obtain ⟨files', s1, s2⟩ := scanIndex_spans (bits := c.bits) (max := c.ifs) hl'.le
      (by intro f h1 h2; rw [e1]; exact hl'.files f h1 h2) hino hl'.ok
    refine ⟨files', setAll [] (rangeLive c.ifs sp first (m2.ifileNum + 1 - first)),
      by rw [e2]; exact hih, ?_, ?_, ?_, ?_⟩
    · unfold loadOld
      simp only [hs, Bool.false_eq_true, if_false, s1, Option.map_some]
    · intro f; rw [s2, e1]
    · unfold setAll
      generalize rangeLive c.ifs sp first (m2.ifileNum + 1 - first) = l
      have : ∀ (l : List (Nat × Nat)) (bk : NMap Nat), NMap.Sorted bk →
          NMap.Sorted (l.foldl (fun bk x => bk.set x.1 x.2) bk) := by
        intro l
        induction l with
        | nil => intro bk h; exact h
        | cons x l ih => intro bk h; exact ih _ (NMap.sorted_set _ _ h)
      exact this l [] NMap.sorted_nil
    · intro b; exact scan_tbl hl' b

theorem Closed4.load (hC : Closed4 c U spec n B m2 d2 d) :
    ∃ first ifiles bk, d.ihdr = some ⟨c.bits, c.ifs, first, hdrPfs c⟩ ∧
      loadOld d c.bits c.ifs first = some (ifiles, bk) ∧
      (∀ f, ifiles.get? f = d2.ifiles.get? f) ∧ NMap.Sorted bk ∧
      ∀ b, (bk.get? b).getD 0 = (m2.buckets.get? b).getD 0 :=
  load4 hC.inv.i hC.yinv hC.ifiles hC.ihdr hC.snap

/-- the reference state on the closed directory -/
theorem Closed4.ref {c' : Cfg} (hc' : c'.Legal) (hkind : c'.kind = c.kind)
    (hpfs : c.kind = .mh → c'.pfs = c.pfs) (hC : Closed4 c U spec n B m2 d2 d) :
    ∃ first pfn plen ifiles bk, RefOK c c' U spec n B d first pfn plen m2.ifileNum ifiles bk := by
  have hY := hC.closedY
  obtain ⟨pfn, plen, o1, o2, o3⟩ := hY.openPrimary hc' hkind hpfs
  obtain ⟨first, ifiles, bk, l0, l1, l2, l3, l4⟩ := hC.load
  have hIp : PInv m2 d2 := hC.inv.p
  have hkind2 : m2.kind = c.kind := hC.inv.kind
  have hpn := hC.pnext
  have halloc : m2.kind = .mh → m2.pfileNum = m2.precFileNum ∧ m2.plength = m2.precPos := by
    intro hk
    have := (hIp.mh hk).1
    rw [hpn] at this
    exact this
  have hr : Reopened m2 d2 (refMem c c' bk m2.ifileNum (fileOf ifiles m2.ifileNum).length pfn plen)
      { d with ifiles := ifiles } := by
    refine ⟨hkind.trans hkind2.symm, hC.inv.imm.symm, hC.yinv.bits.symm, hC.yinv.imax.symm,
      (hdrPfs_eq hkind hpfs).trans hC.yinv.pmax.symm, rfl, rfl, rfl, rfl, rfl, rfl, l3, l4, l2,
      hC.pfiles, ?_, ?_, ?_, ?_, ?_, hC.ihdr, hC.phdr⟩
    · intro file hf
      show d.cidfile = some file
      rw [hC.cidfile]; exact hf
    · show d.cidfile.getD [] = d2.cidfile.getD []
      rw [hC.cidfile]
    · intro hk
      show pfn = m2.precFileNum
      rw [(o2 (by rw [← hkind2]; exact hk)).1]
      exact (halloc hk).1
    · show plen = m2.precPos
      rcases kind_cases m2 with hk | hk
      · rw [(o2 (by rw [← hkind2]; exact hk)).2, hC.pfiles, (hIp.mh hk).2.1]
        exact (halloc hk).2
      · rw [(o3 (by rw [← hkind2]; exact hk)).2, hC.cidfile]
        have := hIp.cid hk
        rw [hpn] at this
        exact this
    · intro hk
      show pfn = m2.pfileNum ∧ plen = m2.plength
      obtain ⟨a2, a3⟩ := o2 (by rw [← hkind2]; exact hk)
      rw [a2, a3, hC.pfiles]
      exact ⟨rfl, (hIp.mh hk).2.1⟩
  refine ⟨first, pfn, plen, ifiles, bk, l0, l1, l3, reopen_inv_I hC.inv hC.inext hC.pnext hr, hC.shape,
    o1, ?_⟩
  intro hk
  have hkc : c.kind = .mh := by rw [← hkind]; exact hk
  obtain ⟨pf, q1, q2, q3, _⟩ := hY.pri hkc
  rw [(o2 hkc).1]
  exact ⟨pf, by rw [hpfs hkc]; exact q1, q2, q3⟩

end

/-! ### the run before and the run after -/

/-- every reachable state (no primary GC): invariants and directory shape, for a key universe `U` that may
    cover later calls as well -/
theorem reach4 {c : Cfg} {U : List (Bytes × Bytes)} (hc : c.Legal) (hU : Univ c.kind U) (ops : List SOp)
    (ha : ∀ op ∈ ops, op.isC04a = true)
    (hkeys : ∀ op ∈ ops, ∀ k, op.keyOf = some k → ∀ dig, keyClass c.kind k = .ok dig → (k, dig) ∈ U)
    (hn : 0 + ops.length < 1073741824) (hB : 0 + (ops.map SOp.bytes).sum < two31) (s0 : SState)
    (hi : initS c = some s0) :
    Inv c U (runS s0 ops).1 (specRun c.kind c.imm [] ops).1 (0 + ops.length)
        (0 + (ops.map SOp.bytes).sum) ∧
      YInv c (runS s0 ops).1 ∧ DShape c (runS s0 ops).1.d := by
  obtain ⟨_, hI, hX⟩ := run_ok4a hc hU ops s0 [] 0 0 (inv_init c hc _ s0 hi) (yinv_init c hc s0 hi) ha
    hkeys hn hB
  exact ⟨hI, hX, run_shape4 hc hU ops s0 [] 0 0 (inv_init c hc _ s0 hi) (yinv_init c hc s0 hi)
    (shape_init c hc s0 hi) ha hkeys hn hB⟩

theorem translate_refines_igc_arg (c : Cfg) (hc : c.Legal) (c' : Cfg) (hc' : c'.Legal)
    (hkind : c'.kind = c.kind) {ia : Nat}
    (hia : (ia = 0 ∧ c'.ifs = defaultMax) ∨ (ia = c'.ifs ∧ c'.ifs = c.ifs))
    (hpfs : c.kind = .mh → c'.pfs = c.pfs) (hbits : c'.bits ≠ c.bits)
    (ops ops2 : List SOp) (ha : ∀ op ∈ ops, op.isC04a = true) (ha2 : ∀ op ∈ ops2, op.isC04a = true)
    (hk : KeysOK c.kind (ops ++ ops2)) (hs : SizesOK (ops ++ ops2)) (s0 : SState)
    (hi : initS c = some s0) (ord order : List Nat) (us : Bool) :
    ∃ d m' d' keys, C09.closedDisk (runS s0 ops).1 ord us = some d ∧
      openStoreT { c' with ifs := ia } d order = (d', .ok m', keys) ∧
      (runS ⟨c', m', d'⟩ ops2).2 =
        (specRun c.kind c'.imm (specRun c.kind c.imm [] ops).1 ops2).2 ∧
      d'.pfiles = d.pfiles ∧ d'.cidfile = d.cidfile ∧ d'.free = d.free ∧ d'.phdr = d.phdr ∧
      d'.freeGc = d.freeGc ∧ d'.ihdr = some ⟨c'.bits, c'.ifs, 0, hdrPfs c'⟩ := by
  have hU := univ_of_keysOK hk (keysExact_all c.kind (ops ++ ops2))
  have hlen : ops.length + ops2.length < 1073741824 := by
    have := hs.1; rw [List.length_append] at this; exact this
  have hsum : (ops.map SOp.bytes).sum + (ops2.map SOp.bytes).sum < two31 := by
    have := hs.2.1; rw [List.map_append, List.sum_append] at this; exact this
  obtain ⟨hI, hX, hD⟩ := reach4 hc hU ops ha
    (fun op ho k hkey dig hcls => mem_digestsOf (List.mem_append_left _ ho) hkey hcls)
    (by omega) (by omega) s0 hi
  have hsl : (specRun c.kind c.imm [] ops).1.length ≤ 0 + ops.length := by
    have := specRun_length c.kind c.imm ops []
    simpa using this
  obtain ⟨m2, d2, d, h1, hC⟩ := closed4_of_reach hU hI hX hD (by omega) (by omega) ord us
  obtain ⟨first, pfn, plen, ifiles, bk, hR⟩ := hC.ref hc' hkind hpfs
  obtain ⟨bk', fn, files, keys, t1, hI', hY', _⟩ :=
    translate_core hc' hkind hia (hdrPfs_eq hkind hpfs) hbits hU hR hsl (by omega) (by omega) order
  have hU' : Univ c'.kind (digestsOf c.kind (ops ++ ops2)) := by rw [hkind]; exact hU
  obtain ⟨r1, _, _⟩ := run_ok4a hc' hU' ops2 _ _ _ _ hI' hY' ha2
    (fun op ho k hkey dig hcls =>
      mem_digestsOf (List.mem_append_right _ ho) hkey (by rw [← hkind]; exact hcls))
    (by omega) (by omega)
  rw [hkind] at r1
  exact ⟨d, _, _, keys, h1, t1, r1, rfl, rfl, rfl, rfl, rfl, rfl⟩

/-- C09 with index GC, lemma level -/
theorem translate_refines_igc (c : Cfg) (hc : c.Legal) (c' : Cfg) (hc' : c'.Legal)
    (hkind : c'.kind = c.kind) (hifs : c'.ifs = c.ifs) (hpfs : c.kind = .mh → c'.pfs = c.pfs)
    (hbits : c'.bits ≠ c.bits)
    (ops ops2 : List SOp) (ha : ∀ op ∈ ops, op.isC04a = true) (ha2 : ∀ op ∈ ops2, op.isC04a = true)
    (hk : KeysOK c.kind (ops ++ ops2)) (hs : SizesOK (ops ++ ops2)) (s0 : SState)
    (hi : initS c = some s0) (ord order : List Nat) (us : Bool) :
    ∃ d m' d' keys, C09.closedDisk (runS s0 ops).1 ord us = some d ∧
      openStoreT c' d order = (d', .ok m', keys) ∧
      (runS ⟨c', m', d'⟩ ops2).2 =
        (specRun c.kind c'.imm (specRun c.kind c.imm [] ops).1 ops2).2 ∧
      d'.pfiles = d.pfiles ∧ d'.cidfile = d.cidfile ∧ d'.free = d.free ∧ d'.phdr = d.phdr ∧
      d'.freeGc = d.freeGc ∧ d'.ihdr = some ⟨c'.bits, c'.ifs, 0, hdrPfs c'⟩ :=
  translate_refines_igc_arg c hc c' hc' hkind (Or.inr ⟨rfl, hifs⟩) hpfs hbits ops ops2 ha ha2 hk hs s0
    hi ord order us

/-- per key: Get / Has / GetSize answer after the translation what they answered before the Close -/
theorem translate_reads_igc (c : Cfg) (hc : c.Legal) (c' : Cfg) (hc' : c'.Legal)
    (hkind : c'.kind = c.kind) (hifs : c'.ifs = c.ifs) (hpfs : c.kind = .mh → c'.pfs = c.pfs)
    (hbits : c'.bits ≠ c.bits) (ops : List SOp) (ha : ∀ op ∈ ops, op.isC04a = true) (k : Bytes)
    (hk : KeysOK c.kind (ops ++ [.get k, .has k, .size k]))
    (hs : SizesOK (ops ++ [.get k, .has k, .size k])) (s0 : SState)
    (hi : initS c = some s0) (ord order : List Nat) (us : Bool) :
    ∃ d m' d' keys, C09.closedDisk (runS s0 ops).1 ord us = some d ∧
      openStoreT c' d order = (d', .ok m', keys) ∧
      (runS ⟨c', m', d'⟩ [.get k, .has k, .size k]).2 =
        (runS (runS s0 ops).1 [.get k, .has k, .size k]).2 := by
  have ha2 : ∀ op ∈ [SOp.get k, .has k, .size k], op.isC04a = true := by
    intro op ho
    simp only [List.mem_cons, List.not_mem_nil, or_false] at ho
    rcases ho with rfl | rfl | rfl <;> rfl
  obtain ⟨d, m', d', keys, h1, h2, h3, _⟩ :=
    translate_refines_igc c hc c' hc' hkind hifs hpfs hbits ops _ ha ha2 hk hs s0 hi ord order us
  refine ⟨d, m', d', keys, h1, h2, ?_⟩
  rw [h3]
  have hU := univ_of_keysOK hk (keysExact_all c.kind (ops ++ [.get k, .has k, .size k]))
  have hlen : ops.length + 3 < 1073741824 := by
    have := hs.1; rw [List.length_append] at this; exact this
  have hsum : (ops.map SOp.bytes).sum + 0 < two31 := by
    have := hs.2.1; rw [List.map_append, List.sum_append] at this; exact this
  obtain ⟨hI, hX, _⟩ := reach4 hc hU ops ha
    (fun op ho k hkey dig hcls => mem_digestsOf (List.mem_append_left _ ho) hkey hcls)
    (by omega) (by omega) s0 hi
  obtain ⟨r1, _, _⟩ := run_ok4a hc hU [.get k, .has k, .size k] (runS s0 ops).1 _ _ _ hI hX ha2
    (fun op ho k hkey dig hcls => mem_digestsOf (List.mem_append_right _ ho) hkey hcls)
    (by simp only [List.length_cons, List.length_nil]; omega)
    (by simp only [List.map_cons, List.map_nil, List.sum_cons, List.sum_nil, SOp.bytes]; omega)
  rw [r1]
  rfl

/-! ### refusals and the unchanged bit size -/

theorem mismatch_refused_igc (c : Cfg) (hc : c.Legal) (ops : List SOp)
    (ha : ∀ op ∈ ops, op.isC04a = true) (hk : KeysOK c.kind ops) (hs : SizesOK ops) (s0 : SState)
    (hi : initS c = some s0) (ord : List Nat) (us : Bool) :
    ∃ d, C09.closedDisk (runS s0 ops).1 ord us = some d ∧ openFreelist d = d ∧
      (∀ (c' : Cfg) (order : List Nat), c'.Legal → c'.kind = c.kind →
        (c.kind = .mh → c'.pfs = c.pfs) → c'.ifs ≠ c.ifs →
        openStoreT c' d order = (d, .error .wrongIndexFileSize, [])) ∧
      (∀ (c' : Cfg) (order : List Nat), c'.Legal → c'.kind = c.kind → c.kind = .mh →
        c'.pfs ≠ c.pfs →
        openStoreT c' d order = (d, .error .wrongPrimaryFileSize, [])) := by
  have hU := univ_of_keysOK hk (keysExact_all c.kind ops)
  obtain ⟨hI, hX, hD⟩ := reach4 hc hU ops ha
    (fun op ho k hkey dig hcls => mem_digestsOf ho hkey hcls)
    (by have := hs.1; omega) (by have := hs.2.1; omega) s0 hi
  obtain ⟨m2, d2, d, h1, hC⟩ := closed4_of_reach hU hI hX hD (by have := hs.1; omega)
    (by have := hs.2.1; omega) ord us
  have hY := hC.closedY
  refine ⟨d, h1, openFreelist_id hY.shape, ?_, ?_⟩
  · intro c' order hc' hkind hp hne
    exact hY.refuse_ifs hc' hkind hp hne order
  · intro c' order hc' hkind hmh hne
    exact hY.refuse_pfs hkind hmh hc'.2.2.2.2.1 hc'.2.2.2.2.2 hne order

theorem same_bits_igc (c : Cfg) (hc : c.Legal) (ops : List SOp)
    (ha : ∀ op ∈ ops, op.isC04a = true) (hk : KeysOK c.kind ops) (hs : SizesOK ops) (s0 : SState)
    (hi : initS c = some s0) (ord order : List Nat) (us : Bool) :
    ∃ d m' d', C09.closedDisk (runS s0 ops).1 ord us = some d ∧
      openStoreT c d order = (d', .ok m', []) ∧
      stepS (runS s0 ops).1 (.reopen ord us) = (⟨c, m', d'⟩, .gc) ∧
      ∀ (c' : Cfg) (order' : List Nat), c'.bits = c.bits →
        openStoreT c' d order' = ((openStore c' d).1, (openStore c' d).2, []) := by
  have hU := univ_of_keysOK hk (keysExact_all c.kind ops)
  have hn : 0 + ops.length < 1073741824 := by have := hs.1; omega
  have hB : 0 + (ops.map SOp.bytes).sum < two31 := by have := hs.2.1; omega
  obtain ⟨hI, hX, hD⟩ := reach4 hc hU ops ha
    (fun op ho k hkey dig hcls => mem_digestsOf ho hkey hcls) hn hB s0 hi
  obtain ⟨m2, d2, d, h1, hC⟩ := closed4_of_reach hU hI hX hD hn hB ord us
  have hY := hC.closedY
  obtain ⟨m', d', r1, _⟩ := step_reopen4 hc hU hI hX hn hB ord us
  have hcfg : (runS s0 ops).1.cfg = c := hX.cfg
  rw [stepS_reopen_eq h1, hcfg] at r1
  refine ⟨d, m', d', h1, ?_, ?_, fun c' order' hb => hY.same_bits hb order'⟩
  · rw [hY.same_bits rfl order]
    cases ho : openStore c d with
    | mk dd r =>
      rw [ho] at r1
      cases r with
      | error e => simp only [Prod.mk.injEq] at r1; cases r1.2
      | ok mm =>
        simp only [Prod.mk.injEq, SState.mk.injEq] at r1
        obtain ⟨⟨_, rfl, rfl⟩, _⟩ := r1
        rfl
  · rw [stepS_reopen_eq h1, hcfg]
    exact r1

end Sth.C09G
