import Sth.Lemmas.C11Pri6

/-!
C11, no growth: no GC cycle of either kind ever makes a file longer (pure facts about the collectors,
no invariant needed); the only way the primary grows in a cycle is the cycle's own flush of what was
pending before.  Core Lean only.
-/

namespace Sth.C11

/-- no file is longer in `fs'` than in `fs` (an absent file counts as empty) -/
def Shrinks (fs fs' : NMap Bytes) : Prop := ∀ g, (fileOf fs' g).length ≤ (fileOf fs g).length

theorem Shrinks.refl (fs : NMap Bytes) : Shrinks fs fs := fun _ => Nat.le_refl _

theorem Shrinks.trans {a b c : NMap Bytes} (h1 : Shrinks a b) (h2 : Shrinks b c) : Shrinks a c :=
  fun g => Nat.le_trans (h2 g) (h1 g)

theorem Shrinks.set {fs : NMap Bytes} {n : Nat} {v : Bytes} (h : v.length ≤ (fileOf fs n).length) :
    Shrinks fs (fs.set n v) := by
  intro g
  by_cases hg : g = n
  · subst hg
    rw [fileOf_some (NMap.get?_set_eq _ _ _)]; exact h
  · unfold fileOf
    rw [NMap.get?_set_ne _ _ hg]
    exact Nat.le_refl _

theorem Shrinks.del (fs : NMap Bytes) (n : Nat) : Shrinks fs (fs.del n) := by
  intro g
  by_cases hg : g = n
  · subst hg
    unfold fileOf
    rw [NMap.get?_del_eq]
    simp
  · unfold fileOf
    rw [NMap.get?_del_ne _ hg]
    exact Nat.le_refl _

theorem readU32_some_le {f : Bytes} {p r : Nat} (h : readU32 f p = some r) : p + 4 ≤ f.length := by
  unfold readU32 readAt at h
  simp only at h
  split at h
  · rename_i hl
    simp only [List.length_take, List.length_drop] at hl
    omega
  · cases h

/-! ### index GC -/

/-- what the scan of reapIndexRecords keeps: the length `L` of the file, and that the deleted span it
    extends starts inside the file -/
def IdxScanOK (st : ReapSt) (L : Nat) : Prop :=
  st.busyAt ≥ -1 ∧ st.file.length = L ∧ (st.freeAt ≥ 0 → st.freeAt.toNat + 4 ≤ L)

/-- the scan of reapIndexRecords rewrites size words in place: the file keeps its length -/
theorem reapIdxLoop_length (m : Mem) (fnum : Nat) {L : Nat} : ∀ (fuel : Nat) (st : ReapSt),
    IdxScanOK st L → (reapIdxLoop m fnum fuel st).2.file.length = L := by
  intro fuel
  induction fuel with
  | zero => intro st hq; exact hq.2.1
  | succ fuel ih =>
    intro st hq
    obtain ⟨hb, hl, hf⟩ := hq
    rw [reapIdxLoop]
    cases hp : poll st.budget with
    | mk e bud =>
    simp only
    split
    · exact hl
    cases hr : readU32 st.file st.pos with
    | none => exact hl
    | some raw =>
      have hpos : st.pos + 4 ≤ L := by rw [← hl]; exact readU32_some_le hr
      simp only
      have hfree : st.freeAt > st.busyAt → st.freeAt.toNat + 4 ≤ L := fun h => hf (by omega)
      have hsd : ∀ n, st.freeAt > st.busyAt → (setDeleted st.file st.freeAt.toNat n).length = L :=
        fun n h => by rw [setDeleted_length _ _ _ (by rw [hl]; exact hfree h)]; exact hl
      have hsp : ∀ n, (setDeleted st.file st.pos n).length = L :=
        fun n => by rw [setDeleted_length _ _ _ (by rw [hl]; exact hpos)]; exact hl
      split
      · -- an already deleted span
        split
        · rename_i hgt
          split
          · exact ih _ ⟨hb, hl, fun _ => hpos⟩
          · exact ih _ ⟨hb, hsd _ hgt, fun _ => hfree hgt⟩
        · exact ih _ ⟨hb, hl, fun _ => hpos⟩
      · -- a record
        cases hd : readAt st.file (st.pos + 4) raw with
        | none => exact hl
        | some data =>
          simp only
          cases hbz : idxBusy m (leDec (data.take 4)) (st.pos + 4) fnum with
          | none => exact hl
          | some bz =>
            cases bz with
            | true =>
              simp only
              exact ih _ ⟨by simp only; omega, hl, hf⟩
            | false =>
              simp only
              split
              · rename_i hgt
                split
                · exact ih _ ⟨hb, hsp _, fun _ => hpos⟩
                · exact ih _ ⟨hb, hsd _ hgt, fun _ => hfree hgt⟩
              · exact ih _ ⟨hb, hsp _, fun _ => hpos⟩

/-- reapIndexRecords never returns a longer file -/
theorem reapIndexRecords_length (m : Mem) (fnum : Nat) (file : Bytes) (b : Budget) :
    (reapIndexRecords m fnum file b).2.1.length ≤ file.length := by
  unfold reapIndexRecords
  split
  · exact Nat.le_refl _
  have hl := reapIdxLoop_length m fnum (L := file.length) (file.length + 2)
    { file := file, budget := b } ⟨by show (-1 : Int) ≥ -1; decide, rfl, fun h => by
      have h' : (-1 : Int) ≥ 0 := h
      exact absurd h' (by decide)⟩
  cases hr : reapIdxLoop m fnum (file.length + 2) { file := file, budget := b } with
  | mk r st =>
  rw [hr] at hl
  simp only at hl ⊢
  cases r with
  | kept =>
    simp only
    split
    · show (truncateTo st.file _).length ≤ _
      unfold truncateTo
      rw [List.length_take, hl]
      exact Nat.min_le_right _ _
    · exact Nat.le_of_eq hl
  | stale => exact Nat.le_of_eq hl
  | deadline => exact Nat.le_of_eq hl
  | err => exact Nat.le_of_eq hl

theorem tff_go_shrinks {last : Nat} {bs : List Nat} : ∀ (fuel n : Nat) (h : IdxHeader) (d : Disk)
    (b : Budget) (fs : NMap Bytes), fs = d.ifiles →
    Shrinks fs (truncateFreeFiles.go last bs fuel n h d b).2.1.ifiles := by
  intro fuel
  induction fuel with
  | zero => intro n h d b fs hfs; subst hfs; exact Shrinks.refl _
  | succ fuel ih =>
    intro n h d b fs hfs
    subst hfs
    unfold truncateFreeFiles.go
    split
    · exact Shrinks.refl _
    split
    · exact ih _ _ _ _ _ rfl
    cases hp : poll b with
    | mk e b' =>
    simp only
    split
    · exact Shrinks.refl _
    cases hg : d.ifiles.get? n with
    | none => exact ih _ _ _ _ _ rfl
    | some file =>
      simp only
      repeat' split
      all_goals first
        | exact ih _ _ _ _ _ rfl
        | exact (Shrinks.del d.ifiles n).trans (ih _ _ _ _ _ rfl)
        | exact (Shrinks.set (by simp)).trans (ih _ _ _ _ _ rfl)

theorem igc_go_shrinks {last start : Nat} : ∀ (fuel n : Nat) (sf : Bool) (h : IdxHeader) (m : Mem)
    (d : Disk) (b : Budget) (fs : NMap Bytes), fs = d.ifiles →
    Shrinks fs (indexGC.go last start fuel n sf h m d b).2.2.1.ifiles := by
  intro fuel
  induction fuel with
  | zero => intro n sf h m d b fs hfs; subst hfs; exact Shrinks.refl _
  | succ fuel ih =>
    intro n sf h m d b fs hfs
    subst hfs
    unfold indexGC.go
    split
    · exact Shrinks.refl _
    cases hg : d.ifiles.get? n with
    | none => exact Shrinks.refl _
    | some file =>
    simp only
    have hlen := reapIndexRecords_length m n file b
    cases hr : reapIndexRecords m n file b with
    | mk r rest =>
    obtain ⟨file', b'⟩ := rest
    rw [hr] at hlen
    simp only at hlen ⊢
    have hset : Shrinks d.ifiles (d.ifiles.set n file') :=
      Shrinks.set (by rw [fileOf_some hg]; exact hlen)
    have hd := hset.trans (Shrinks.del (d.ifiles.set n file') n)
    cases r with
    | deadline => exact hset
    | err => exact hset
    | stale =>
      simp only
      by_cases hfirst : h.first = n
      · simp only [hfirst, and_self, if_true]
        repeat' split
        all_goals first
          | exact hd
          | exact hd.trans (ih _ _ _ _ _ _ _ rfl)
      · simp only [hfirst, and_false, if_false]
        repeat' split
        all_goals first
          | exact hset
          | exact hset.trans (ih _ _ _ _ _ _ _ rfl)
    | kept =>
      simp only
      have hne : ¬ (Reap.kept = Reap.stale ∧ h.first = n) := by rintro ⟨h, _⟩; cases h
      simp only [hne, if_false]
      repeat' split
      all_goals first
        | exact hset
        | exact hset.trans (ih _ _ _ _ _ _ _ rfl)

/-- no index GC cycle — any `scanFree`, any budget, any state — makes an index file longer -/
theorem indexGC_shrinks (m : Mem) (d : Disk) (sf : Bool) (b : Budget) :
    Shrinks d.ifiles (indexGC m d sf b).2.2.1.ifiles := by
  have h0 : Shrinks d.ifiles (if sf = true then truncateFreeFiles m d b else (GcOut.ok, d, b)).2.1.ifiles := by
    cases sf with
    | false => exact Shrinks.refl _
    | true =>
      simp only [if_true]
      unfold truncateFreeFiles
      cases hd : d.ihdr with
      | none => exact Shrinks.refl _
      | some h =>
        simp only
        split
        · exact Shrinks.refl _
        · exact tff_go_shrinks _ _ _ _ _ _ rfl
  refine h0.trans ?_
  unfold indexGC
  cases hr : (if sf = true then truncateFreeFiles m d b else (GcOut.ok, d, b)) with
  | mk r0 rest =>
  obtain ⟨d1, bud⟩ := rest
  simp only
  split
  · exact Shrinks.refl _
  · cases hd : d1.ihdr with
    | none => exact Shrinks.refl _
    | some h =>
      simp only
      split
      · exact Shrinks.refl _
      · exact igc_go_shrinks _ _ _ _ _ _ _ _ rfl

/-! ### primary GC -/

theorem delStep_shrinks (pmax : Nat) (acc : NMap Bytes × List Nat) (fr : Block) :
    Shrinks acc.1 (delStep pmax acc fr).1 := by
  obtain ⟨files, aff⟩ := acc
  unfold delStep
  simp only
  cases hg : files.get? (localizePri pmax fr.off).2 with
  | none => exact Shrinks.refl _
  | some file =>
    simp only
    split
    · exact Shrinks.refl _
    cases hr : readU32 file (localizePri pmax fr.off).1 with
    | none => exact Shrinks.refl _
    | some raw =>
      simp only
      split
      · exact Shrinks.refl _
      split
      · exact Shrinks.refl _
      · apply Shrinks.set
        rw [fileOf_some hg, setDeleted_length _ _ _ (readU32_some_le hr)]
        exact Nat.le_refl _

theorem delFold_shrinks (pmax : Nat) : ∀ (batch : List Block) (acc : NMap Bytes × List Nat),
    Shrinks acc.1 (batch.foldl (delStep pmax) acc).1
  | [], _ => Shrinks.refl _
  | fb :: batch, acc => by
    rw [List.foldl_cons]
    exact (delStep_shrinks pmax acc fb).trans (delFold_shrinks pmax batch _)

/-- what the scan of reapRecords keeps -/
def PriScanOK (st : PReap) (L : Nat) : Prop :=
  st.busyAt ≥ -1 ∧ st.file.length = L ∧ (st.freeAt ≥ 0 → st.freeAt.toNat + 4 ≤ L)

theorem reapPriLoop_length {L : Nat} : ∀ (fuel : Nat) (st : PReap),
    PriScanOK st L → (reapPriLoop fuel st).file.length = L := by
  intro fuel
  induction fuel with
  | zero => intro st hq; exact hq.2.1
  | succ fuel ih =>
    intro st hq
    obtain ⟨hb, hl, hf⟩ := hq
    rw [reapPriLoop]
    cases hr : readU32 st.file st.pos with
    | none => exact hl
    | some raw =>
      have hpos : st.pos + 4 ≤ L := by rw [← hl]; exact readU32_some_le hr
      simp only
      have hfree : st.freeAt > st.busyAt → st.freeAt.toNat + 4 ≤ L := fun h => hf (by omega)
      have hsd : ∀ n, st.freeAt > st.busyAt → (setDeleted st.file st.freeAt.toNat n).length = L :=
        fun n h => by rw [setDeleted_length _ _ _ (by rw [hl]; exact hfree h)]; exact hl
      split
      · split
        · rename_i hgt
          split
          · exact ih _ ⟨hb, hl, fun _ => hpos⟩
          · exact ih _ ⟨hb, hsd _ hgt, fun _ => hfree hgt⟩
        · exact ih _ ⟨hb, hl, fun _ => hpos⟩
      · exact ih _ ⟨by simp only; omega, hl, hf⟩

/-- reapRecords never makes a primary file longer -/
theorem reapRecords_shrinks (m : Mem) (d : Disk) (n lowUse : Nat) :
    Shrinks d.pfiles (reapRecords m d n lowUse).2.2.1.pfiles := by
  unfold reapRecords
  cases hg : d.pfiles.get? n with
  | none => exact Shrinks.refl _
  | some file =>
    simp only
    have hl := reapPriLoop_length (L := file.length) (file.length + 2) { file := file }
      ⟨by show (-1 : Int) ≥ -1; decide, rfl, fun h => by
        have h' : (-1 : Int) ≥ 0 := h
        exact absurd h' (by decide)⟩
    generalize reapPriLoop (file.length + 2) { file := file } = st at hl ⊢
    have hset : ∀ v : Bytes, v.length ≤ file.length → Shrinks d.pfiles (d.pfiles.set n v) :=
      fun v hv => Shrinks.set (by rw [fileOf_some hg]; exact hv)
    have h1 : (truncateTo st.file st.freeAt.toNat).length ≤ file.length := by
      unfold truncateTo
      rw [List.length_take, hl]
      exact Nat.min_le_right _ _
    repeat' split
    all_goals first
      | exact Shrinks.refl _
      | exact hset _ h1
      | exact hset _ (Nat.le_of_eq hl)

/-- the loop over the closed files never makes a primary file longer -/
theorem pgcGo_shrinks (lowUse : Nat) : ∀ (fuel n : Nat) (h : PriHeader) (m : Mem) (d : Disk)
    (b : Budget) (recl : Nat) (fs : NMap Bytes), fs = d.pfiles →
    Shrinks fs (primaryGC.go lowUse fuel n h m d b recl).2.2.1.pfiles := by
  intro fuel
  induction fuel with
  | zero => intro n h m d b recl fs hfs; subst hfs; exact Shrinks.refl _
  | succ fuel ih =>
    intro n h m d b recl fs hfs
    subst hfs
    unfold primaryGC.go
    split
    · exact Shrinks.refl _
    split
    · exact ih _ _ _ _ _ _ _ rfl
    have hsh := reapRecords_shrinks m d n lowUse
    cases hr : reapRecords m d n lowUse with
    | mk r rest =>
    obtain ⟨m1, d1, got⟩ := rest
    rw [hr] at hsh
    simp only at hsh ⊢
    have hd := hsh.trans (Shrinks.del d1.pfiles n)
    cases r with
    | err => exact hsh
    | dead =>
      simp only
      repeat' split
      all_goals first
        | exact hsh
        | exact hd
        | exact hsh.trans (ih _ _ _ _ _ _ _ rfl)
        | exact hd.trans (ih _ _ _ _ _ _ _ rfl)
    | kept =>
      simp only
      repeat' split
      all_goals first
        | exact hsh
        | exact hd
        | exact hsh.trans (ih _ _ _ _ _ _ _ rfl)
        | exact hd.trans (ih _ _ _ _ _ _ _ rfl)

/-- a hand-over pass on a flushed primary never makes a primary file longer and leaves it flushed -/
theorem freelistPass_shrinks {m : Mem} {d : Disk} (hpn : m.pnext = []) (b : Budget) :
    Shrinks d.pfiles (freelistPass m d b).2.2.1.pfiles ∧ (freelistPass m d b).2.1.pnext = [] := by
  obtain ⟨fl, fr, g, e0⟩ := toGC_shape m d
  have hpn0 : ({ m with flpool := fl } : Mem).pnext = [] := hpn
  unfold freelistPass
  rw [e0]
  simp only
  rw [priFlush_nil hpn0]
  simp only
  cases hparse : parseFreeList (((g : Option Bytes).getD []).length + 1) ((g : Option Bytes).getD []) [] with
  | mk entries complete =>
  simp only
  have hdel : Shrinks d.pfiles (deleteRecords m.pmax d.pfiles entries).1 := by
    rw [deleteRecords_eq]
    exact delFold_shrinks m.pmax _ (d.pfiles, [])
  repeat' split
  all_goals first
    | exact ⟨Shrinks.refl _, hpn⟩
    | exact ⟨hdel, hpn⟩

/-- a primary GC cycle on a flushed primary — any threshold, any budget — never makes a primary file
    longer -/
theorem primaryGC_shrinks {m : Mem} {d : Disk} (hpn : m.pnext = []) (lowUse : Nat) (b : Budget)
    {res : PgcRes × Mem × Disk × Budget} (hres : primaryGC m d lowUse b = some res) :
    Shrinks d.pfiles res.2.2.1.pfiles := by
  unfold primaryGC at hres
  obtain ⟨h1, h1'⟩ := freelistPass_shrinks (d := d) hpn b
  cases hf1 : freelistPass m d b with
  | mk r1 rest =>
  obtain ⟨m1, d1, b1, aff1⟩ := rest
  rw [hf1] at hres h1 h1'
  simp only at hres h1 h1'
  cases r1 with
  | flushErr => cases hres
  | deadline => simp only [Option.some.injEq] at hres; subst hres; exact h1
  | err => simp only [Option.some.injEq] at hres; subst hres; exact h1
  | ok =>
  obtain ⟨h2, _⟩ := freelistPass_shrinks (d := d1) h1' b1
  cases hf2 : freelistPass m1 d1 b1 with
  | mk r2 rest =>
  obtain ⟨m2, d2, b2, aff2⟩ := rest
  rw [hf2] at hres h2
  simp only at hres h2
  cases r2 with
  | flushErr => cases hres
  | deadline => simp only [Option.some.injEq] at hres; subst hres; exact h1.trans h2
  | err => simp only [Option.some.injEq] at hres; subst hres; exact h1.trans h2
  | ok =>
  cases hh : d2.phdr with
  | none =>
    rw [hh] at hres
    simp only [Option.some.injEq] at hres
    subst hres
    exact h1.trans h2
  | some h =>
    rw [hh] at hres
    simp only [Option.some.injEq] at hres
    subst hres
    exact (h1.trans h2).trans (pgcGo_shrinks lowUse _ _ _ _ _ _ _ _ rfl)

/-! ### what a cycle adds to the pool: the relocated records -/

/-- the bytes a pooled record will occupy in a primary file -/
def recBytes (r : PRec) : Nat := 4 + r.key.length + r.val.length

def pendingBytes (m : Mem) : Nat := (m.pnext.map recBytes).sum

theorem putMem_pnext (m : Mem) (key val : Bytes) :
    (putMem m key val).pnext = m.pnext ++ [⟨nextBlk m (key.length + val.length), key, val⟩] := by
  unfold putMem; split <;> rfl

/-- one relocation pools exactly one record: a copy of the span (size word + body) it relocates -/
theorem relocate_pool {m m' : Mem} {d : Disk} {fnum at_ bs : Nat} {file : Bytes}
    (h : relocate m d fnum file at_ bs = some m') :
    ∃ size r, readU32 file at_ = some size ∧ readAt file (at_ + 4) size = some (r.key ++ r.val) ∧
      m'.pnext = m.pnext ++ [r] ∧ recBytes r = 4 + size := by
  unfold relocate at h
  cases h1 : readU32 file at_ with
  | none => simp [h1] at h
  | some size =>
    simp only [h1] at h
    cases h2 : readAt file (at_ + 4) size with
    | none => simp [h2] at h
    | some data =>
      simp only [h2] at h
      cases h3 : readNode .mh data with
      | none => simp [h3] at h
      | some kv =>
        obtain ⟨key, val⟩ := kv
        simp only [h3] at h
        have hsplit : data = key ++ val := readNode_mh_split h3
        have hsize : key.length + val.length = size := by
          have : data.length = size := by
            unfold readAt at h2
            simp only at h2
            split at h2
            · rename_i hl
              cases h2
              exact hl
            · cases h2
          rw [← this, hsplit, List.length_append]
        cases h4 : indexKeyOf .mh key with
        | none => simp [h4] at h
        | some ik =>
          simp only [h4, priPut_eq, Option.some.injEq] at h
          refine ⟨size, ⟨nextBlk m (key.length + val.length), key, val⟩, rfl,
            (by show readAt file (at_ + 4) size = some (key ++ val); rw [← hsplit]; exact h2), ?_,
            by unfold recBytes; simp only; omega⟩
          cases hrel : idxRelocate (putMem m key val) d ik
              ⟨(putMem m key val).pmax * fnum + at_, bs⟩ (nextBlk m (key.length + val.length)) with
          | ok m3 =>
            rw [hrel] at h
            simp only at h
            obtain ⟨_, _, _, _, _, _, _, _, rfl⟩ := idxRelocate_ok_inv hrel
            subst h
            exact putMem_pnext m key val
          | error e =>
            rw [hrel] at h
            simp only at h
            subst h
            exact putMem_pnext m key val

/-- reapRecords pools at most two records -/
theorem reapRecords_pool (m : Mem) (d : Disk) (n lowUse : Nat) :
    ∃ L : List PRec, (reapRecords m d n lowUse).2.1.pnext = m.pnext ++ L ∧ L.length ≤ 2 := by
  unfold reapRecords
  cases d.pfiles.get? n with
  | none => exact ⟨[], (List.append_nil _).symm, Nat.zero_le _⟩
  | some file =>
    simp only
    repeat' split
    all_goals first
      | exact ⟨[], (List.append_nil _).symm, Nat.zero_le _⟩
      | (obtain ⟨sz1, r1, q1, q2, e1, q3⟩ := relocate_pool ‹relocate m _ _ _ _ _ = some _›
         first
           | exact ⟨[r1], e1, Nat.le_succ 1⟩
           | (rename_i m2 hr2
              obtain ⟨sz2, r2, q4, q5, e2, q6⟩ := relocate_pool hr2
              exact ⟨[r1, r2], (by rw [e2, e1, List.append_assoc]; rfl), Nat.le_refl 2⟩))

end Sth.C11
