/-
C01 — the store refines a map: global invariant, one step, the run, and the initial state.
Core Lean only.
-/
import Sth.Lemmas.StoreIter

namespace Sth

/-! ### the global invariant -/

structure Inv (c : Cfg) (U : List (Bytes × Bytes)) (s : SState) (spec : Spec) (n B : Nat) : Prop where
  kind : s.m.kind = c.kind
  imm : s.m.imm = c.imm
  bits8 : 8 ≤ s.m.bits
  bits31 : s.m.bits ≤ 31
  a : SInv U s.m s.d spec
  p : PInv s.m s.d
  i : IInv s.m s.d
  cnt : Cnt s.m n B
  nodup : (spec.map (·.1)).Nodup
  w : specW spec ≤ B

theorem Cnt.mono {m : Mem} {n B n' B' : Nat} (h : Cnt m n B) (hn : n ≤ n') (hB : B ≤ B') : Cnt m n' B' :=
  ⟨fun hk => ⟨Nat.le_trans (h.mh hk).1 hn, (h.mh hk).2⟩, fun hk => Nat.le_trans (h.cid hk) hB,
    Nat.le_trans h.idx hn⟩

theorem Inv.mono {c : Cfg} {U : List (Bytes × Bytes)} {s : SState} {spec : Spec} {n B n' B' : Nat}
    (h : Inv c U s spec n B) (hn : n ≤ n') (hB : B ≤ B') : Inv c U s spec n' B' :=
  ⟨h.kind, h.imm, h.bits8, h.bits31, h.a, h.p, h.i, h.cnt.mono hn hB, h.nodup, Nat.le_trans h.w hB⟩

/-! ### specification map: duplicates and weight -/

theorem specW_filter_le (spec : Spec) (p : Bytes × Bytes × Bytes → Bool) :
    specW (spec.filter p) ≤ specW spec := by
  unfold specW
  induction spec with
  | nil => simp
  | cons x xs ih =>
    simp only [List.filter_cons]
    split
    · simp only [List.map_cons, List.sum_cons]; omega
    · simp only [List.map_cons, List.sum_cons]; omega

theorem specW_set (spec : Spec) (dig k v : Bytes) :
    specW (Spec.set spec dig k v) ≤ specW spec + (k.length + 17) := by
  have := specW_filter_le spec (fun x => decide (x.1 ≠ dig))
  unfold Spec.set
  unfold specW at this ⊢
  simp only [List.map_cons, List.sum_cons]
  omega

theorem nodup_del {spec : Spec} (h : (spec.map (·.1)).Nodup) (dig : Bytes) :
    ((Spec.del spec dig).map (·.1)).Nodup :=
  h.sublist ((List.filter_sublist (l := spec)).map _)

theorem nodup_set {spec : Spec} (h : (spec.map (·.1)).Nodup) (dig k v : Bytes) :
    ((Spec.set spec dig k v).map (·.1)).Nodup := by
  unfold Spec.set
  simp only [List.map_cons, List.nodup_cons]
  refine ⟨?_, nodup_del h dig⟩
  intro hm
  obtain ⟨x, hx, heq⟩ := List.mem_map.mp hm
  have := (List.mem_filter.mp hx).2
  simp only [ne_eq, decide_not, Bool.not_eq_eq_eq_not, Bool.not_true, decide_eq_false_iff_not] at this
  exact this heq

/-! ### flush orders -/

theorem fixOrder_ok {α : Type} (order : List Nat) (pool : NMap α) :
    (∀ b v, pool.get? b = some v → b ∈ fixOrder order pool.keys) ∧
      (fixOrder order pool.keys).length = pool.length := by
  have hk : pool.keys.length = pool.length := by unfold NMap.keys; simp
  unfold fixOrder
  split
  · rename_i hc
    refine ⟨?_, by rw [hc.1, hk]⟩
    intro b v hb
    have h1 := NMap.mem_keys_of_get? hb
    have h2 := hc.2.1
    rw [List.all_eq_true] at h2
    have := h2 b h1
    simpa using this
  · exact ⟨fun b v hb => NMap.mem_keys_of_get? hb, hk⟩

/-! ### hypotheses on the new record of a put -/

theorem mul_bound {a b : Nat} (ha : a ≤ 1073741824) (hb : b ≤ 1073741824) : a * b < two64 := by
  have : a * b ≤ 1073741824 * 1073741824 := Nat.mul_le_mul ha hb
  unfold two64
  omega

theorem putPre_of_inv {c : Cfg} {U : List (Bytes × Bytes)} {s : SState} {spec : Spec} {n B : Nat}
    (h : Inv c U s spec n B) {key val : Bytes} (hn : n + 1 < 1073741824)
    (hB : B + (key.length + val.length + 17) < two31) : PutPre s.m key val := by
  refine ⟨h.p.pmax, h.p.nextBelow, by omega, ?_⟩
  unfold nextBlk
  rcases kind_cases s.m with hk | hk
  · simp only [hk]
    obtain ⟨c1, c2⟩ := h.cnt.mh hk
    have hp := h.p.pmax hk
    have h1 : nextFile s.m + 1 ≤ 1073741824 := by unfold nextFile; split <;> omega
    have h2 := nextPos_lt hp
    have h3 : s.m.pmax * nextFile s.m + nextPos s.m < s.m.pmax * (nextFile s.m + 1) := by
      rw [Nat.mul_add]; omega
    have := mul_bound c2 h1
    omega
  · simp only [hk]
    have := h.cnt.cid hk
    unfold two31 at hB
    unfold two64
    omega

end Sth

namespace Sth

section
variable {c : Cfg} {U : List (Bytes × Bytes)} {s : SState} {spec : Spec} {n B : Nat}

/-! ### read-only calls -/

theorem step_get (hU : Univ c.kind U) (hI : Inv c U s spec n B) (k : Bytes)
    (hkey : ∀ dig, keyClass c.kind k = .ok dig → (k, dig) ∈ U) :
    stepS s (.get k) = (s, (specStep c.kind c.imm spec (.get k)).2) ∧
      (specStep c.kind c.imm spec (.get k)).1 = spec := by
  have hU' : Univ s.m.kind U := by rw [hI.kind]; exact hU
  cases hcls : keyClass c.kind k with
  | error e =>
    have := storeGet_bad (m := s.m) (d := s.d) (k := k) (e := e) (by rw [hI.kind]; exact hcls)
    simp only [stepS, this, specStep, hcls, and_self]
  | ok dig =>
    have := storeGet_ok hU' hI.bits31 hI.a (hkey dig hcls)
    cases hs : Spec.get spec dig with
    | none =>
      rw [hs] at this
      simp only [stepS, this, specStep, hcls, hs, and_self]
    | some kv =>
      rw [hs] at this
      simp only [stepS, this, specStep, hcls, hs, and_self]

theorem step_has (hU : Univ c.kind U) (hI : Inv c U s spec n B) (k : Bytes)
    (hkey : ∀ dig, keyClass c.kind k = .ok dig → (k, dig) ∈ U) :
    stepS s (.has k) = (s, (specStep c.kind c.imm spec (.has k)).2) ∧
      (specStep c.kind c.imm spec (.has k)).1 = spec := by
  have hU' : Univ s.m.kind U := by rw [hI.kind]; exact hU
  cases hcls : keyClass c.kind k with
  | error e =>
    have := storeHas_bad (m := s.m) (d := s.d) (k := k) (e := e) (by rw [hI.kind]; exact hcls)
    simp only [stepS, this, specStep, hcls, and_self]
  | ok dig =>
    have := storeHas_ok hU' hI.bits31 hI.a (hkey dig hcls)
    simp only [stepS, this, specStep, hcls, and_self]

theorem step_size (hU : Univ c.kind U) (hI : Inv c U s spec n B) (k : Bytes)
    (hkey : ∀ dig, keyClass c.kind k = .ok dig → (k, dig) ∈ U) :
    stepS s (.size k) = (s, (specStep c.kind c.imm spec (.size k)).2) ∧
      (specStep c.kind c.imm spec (.size k)).1 = spec := by
  have hU' : Univ s.m.kind U := by rw [hI.kind]; exact hU
  cases hcls : keyClass c.kind k with
  | error e =>
    have := storeGetSize_bad (m := s.m) (d := s.d) (k := k) (e := e) (by rw [hI.kind]; exact hcls)
    simp only [stepS, this, specStep, hcls, and_self]
  | ok dig =>
    have := storeGetSize_ok hU' hI.bits31 hI.a (hkey dig hcls)
    cases hs : Spec.get spec dig with
    | none =>
      rw [hs] at this
      simp only [stepS, this, specStep, hcls, hs, and_self]
    | some kv =>
      rw [hs] at this
      simp only [stepS, this, specStep, hcls, hs, and_self]

end

end Sth

namespace Sth

/-! ### frames of the in-memory updates -/

/-- `m'` agrees with `m` on everything but the index pool and the freelist pool -/
structure Frame (m m' : Mem) : Prop where
  kind : m'.kind = m.kind
  imm : m'.imm = m.imm
  bits : m'.bits = m.bits
  imax : m'.imax = m.imax
  icur : m'.icur = m.icur
  buckets : m'.buckets = m.buckets
  ifileNum : m'.ifileNum = m.ifileNum
  ilength : m'.ilength = m.ilength
  pmax : m'.pmax = m.pmax
  pnext : m'.pnext = m.pnext
  pcur : m'.pcur = m.pcur
  pfileNum : m'.pfileNum = m.pfileNum
  plength : m'.plength = m.plength
  precFileNum : m'.precFileNum = m.precFileNum
  precPos : m'.precPos = m.precPos

theorem frame_setNext (m : Mem) (b : Nat) (rl : RecordList) : Frame m (setNext m b rl) :=
  ⟨rfl, rfl, rfl, rfl, rfl, rfl, rfl, rfl, rfl, rfl, rfl, rfl, rfl, rfl, rfl⟩

theorem frame_addFree_setNext (m : Mem) (b : Nat) (rl : RecordList) (blk : Block) :
    Frame m (addFree (setNext m b rl) blk) :=
  ⟨rfl, rfl, rfl, rfl, rfl, rfl, rfl, rfl, rfl, rfl, rfl, rfl, rfl, rfl, rfl⟩

theorem PInv.of_frame {m m' : Mem} {d : Disk} (h : PInv m d) (f : Frame m m') : PInv m' d :=
  h.frame f.kind f.pmax f.pnext f.pcur f.pfileNum f.plength f.precFileNum f.precPos

theorem IInv.of_frame {m m' : Mem} {d : Disk} (h : IInv m d) (f : Frame m m') : IInv m' d :=
  h.frame f.imax f.icur f.buckets f.ifileNum f.ilength

section
variable {c : Cfg} {U : List (Bytes × Bytes)} {s : SState} {spec : Spec} {n B : Nat}

theorem inv_put (hU : Univ c.kind U) (hI : Inv c U s spec n B) {k v dig : Bytes} (hk : (k, dig) ∈ U)
    (hB : B + (k.length + v.length + 17) < two31) {m' : Mem}
    (hf : Frame (putMem s.m k v) m') (hlen : m'.inext.length ≤ s.m.inext.length + 1)
    (hA : AInv s.m.kind s.m.bits U (priGet m' s.d) (idxRecords m' s.d) (Below m')
      (Spec.set spec dig k v)) :
    Inv c U { s with m := m' } (Spec.set spec dig k v) (n + 1) (B + (k.length + v.length + 17)) := by
  have hkind : m'.kind = s.m.kind := by rw [hf.kind, putMem_kind]
  have hbits : m'.bits = s.m.bits := by rw [hf.bits, putMem_bits]
  have hrec : RecOK s.m.kind ⟨nextBlk s.m (k.length + v.length), k, v⟩ := by
    refine ⟨?_, by show k.length + v.length < two31; omega⟩
    rw [hI.kind]
    exact readNode_append c.kind k v (hU.exact _ hk)
  refine ⟨by rw [hkind]; exact hI.kind, by rw [hf.imm, putMem_imm]; exact hI.imm,
    by rw [hbits]; exact hI.bits8, by rw [hbits]; exact hI.bits31, ?_, ?_, ?_, ?_,
    nodup_set hI.nodup _ _ _, ?_⟩
  · show AInv m'.kind m'.bits U _ _ _ _
    rw [hkind, hbits]
    exact hA
  · exact (hI.p.putMem k v hrec).of_frame hf
  · have : IInv (putMem s.m k v) s.d :=
      hI.i.frame (putMem_imax _ _ _) (putMem_icur _ _ _) (putMem_buckets _ _ _)
        (putMem_ifileNum _ _ _) (putMem_ilength _ _ _)
    exact this.of_frame hf
  · have hc := hI.cnt
    constructor
    · intro hk'
      have hk'' : s.m.kind = .mh := by rw [← hkind]; exact hk'
      show m'.precFileNum ≤ n + 1 ∧ m'.pmax ≤ 1073741824
      rw [hf.precFileNum, hf.pmax, putMem_pmax, (putMem_prec_mh hk'' k v).1]
      refine ⟨?_, (hc.mh hk'').2⟩
      have := (hc.mh hk'').1
      unfold nextFile
      split <;> omega
    · intro hk'
      have hk'' : s.m.kind = .cid := by rw [← hkind]; exact hk'
      show m'.precPos ≤ _
      rw [hf.precPos, (putMem_prec_cid hk'' k v).2]
      have := hc.cid hk''
      omega
    · show m'.ifileNum + m'.inext.length ≤ n + 1
      rw [hf.ifileNum, putMem_ifileNum]
      have := hc.idx
      omega
  · have := specW_set spec dig k v
    have := hI.w
    omega

theorem inv_rm (hI : Inv c U s spec n B) {dig : Bytes} {m' : Mem}
    (hf : Frame s.m m') (hlen : m'.inext.length ≤ s.m.inext.length + 1)
    (hA : AInv s.m.kind s.m.bits U (priGet m' s.d) (idxRecords m' s.d) (Below m')
      (Spec.del spec dig)) :
    Inv c U { s with m := m' } (Spec.del spec dig) (n + 1) B := by
  refine ⟨by rw [hf.kind]; exact hI.kind, by rw [hf.imm]; exact hI.imm,
    by rw [hf.bits]; exact hI.bits8, by rw [hf.bits]; exact hI.bits31, ?_, hI.p.of_frame hf,
    hI.i.of_frame hf, ?_, nodup_del hI.nodup _, ?_⟩
  · show AInv m'.kind m'.bits U _ _ _ _
    rw [hf.kind, hf.bits]
    exact hA
  · have hc := hI.cnt
    constructor
    · intro hk'
      show m'.precFileNum ≤ n + 1 ∧ m'.pmax ≤ 1073741824
      rw [hf.precFileNum, hf.pmax]
      have := hc.mh (by rw [← hf.kind]; exact hk')
      omega
    · intro hk'
      show m'.precPos ≤ _
      rw [hf.precPos]
      exact hc.cid (by rw [← hf.kind]; exact hk')
    · show m'.ifileNum + m'.inext.length ≤ n + 1
      rw [hf.ifileNum]
      have := hc.idx
      omega
  · exact Nat.le_trans (specW_filter_le _ _) hI.w

end

end Sth

namespace Sth

section
variable {c : Cfg} {U : List (Bytes × Bytes)} {s : SState} {spec : Spec} {n B : Nat}

/-! ### Put -/

theorem step_put (hU : Univ c.kind U) (hI : Inv c U s spec n B) (k v : Bytes)
    (hkey : ∀ dig, keyClass c.kind k = .ok dig → (k, dig) ∈ U)
    (hn : n + 1 < 1073741824) (hB : B + (k.length + v.length + 17) < two31) :
    (stepS s (.put k v)).2 = (specStep c.kind c.imm spec (.put k v)).2 ∧
      Inv c U (stepS s (.put k v)).1 (specStep c.kind c.imm spec (.put k v)).1 (n + 1)
        (B + (k.length + v.length + 17)) := by
  have hU' : Univ s.m.kind U := by rw [hI.kind]; exact hU
  have hI' : Inv c U s spec (n + 1) (B + (k.length + v.length + 17)) := hI.mono (by omega) (by omega)
  cases hcls : keyClass c.kind k with
  | error e =>
    have := storePut_bad (m := s.m) (d := s.d) (k := k) (v := v) (e := e) (by rw [hI.kind]; exact hcls)
    simp only [stepS, this, specStep, hcls, true_and]
    exact hI'
  | ok dig =>
    have hk := hkey dig hcls
    have hpre := putPre_of_inv hI (key := k) (val := v) hn hB
    cases hs : Spec.get spec dig with
    | none =>
      obtain ⟨b, rl, h1, h2, _⟩ := storePut_absent hU' hI.bits8 hI.bits31 hI.a hpre hk hs
      simp only [stepS, h1, specStep, hcls, hs, true_and]
      apply inv_put hU hI hk hB (frame_setNext _ _ _) _ h2
      show ((putMem s.m k v).inext.set b rl).length ≤ _
      rw [putMem_inext]
      exact NMap.length_set_le _ _ _
    | some kv =>
      obtain ⟨key0, old⟩ := kv
      obtain ⟨p1, p2, p3⟩ := storePut_present (val := v) hU' hI.bits31 hI.a hk hs
      by_cases himm : s.m.imm = true
      · have himm' : c.imm = true := by rw [← hI.imm]; exact himm
        simp only [stepS, p1 himm, specStep, hcls, hs, himm', if_true, true_and]
        exact hI'
      · have himm0 : s.m.imm = false := by simpa using himm
        have himm' : c.imm = false := by rw [← hI.imm]; exact himm0
        by_cases hv : v = old
        · subst hv
          simp only [stepS, p2 himm0 rfl, specStep, hcls, hs, himm', if_true, Bool.false_eq_true,
            if_false, true_and]
          exact hI'
        · have hv' : ¬ old = v := fun h => hv h.symm
          obtain ⟨b, rl, blk, h1, h2, _⟩ := p3 himm0 hv hpre
          simp only [stepS, h1, specStep, hcls, hs, himm', hv', Bool.false_eq_true, if_false, true_and]
          apply inv_put hU hI hk hB (frame_addFree_setNext _ _ _ _) _ h2
          show ((putMem s.m k v).inext.set b rl).length ≤ _
          rw [putMem_inext]
          exact NMap.length_set_le _ _ _

/-! ### Remove -/

theorem step_rm (hU : Univ c.kind U) (hI : Inv c U s spec n B) (k : Bytes)
    (hkey : ∀ dig, keyClass c.kind k = .ok dig → (k, dig) ∈ U) :
    (stepS s (.rm k)).2 = (specStep c.kind c.imm spec (.rm k)).2 ∧
      Inv c U (stepS s (.rm k)).1 (specStep c.kind c.imm spec (.rm k)).1 (n + 1) B := by
  have hU' : Univ s.m.kind U := by rw [hI.kind]; exact hU
  have hI' : Inv c U s spec (n + 1) B := hI.mono (by omega) (Nat.le_refl _)
  cases hcls : keyClass c.kind k with
  | error e =>
    have := storeRemove_bad (m := s.m) (d := s.d) (k := k) (e := e) (by rw [hI.kind]; exact hcls)
    simp only [stepS, this, specStep, hcls, true_and]
    exact hI'
  | ok dig =>
    have hk := hkey dig hcls
    obtain ⟨r1, r2⟩ := storeRemove_ok hU' hI.bits31 hI.a hk
    cases hs : Spec.get spec dig with
    | none =>
      simp only [stepS, r1 hs, specStep, hcls, hs, true_and]
      exact hI'
    | some kv =>
      obtain ⟨b, rl, blk, h1, h2, _⟩ := r2 kv hs
      simp only [stepS, h1, specStep, hcls, hs, true_and]
      apply inv_rm hI (frame_addFree_setNext _ _ _ _) _ h2
      exact NMap.length_set_le _ _ _

/-! ### Flush and iteration -/

theorem flush_of_inv (hU : Univ c.kind U) (hI : Inv c U s spec n B) (hn : n < 1073741824)
    (hB : B < two31) (order : List Nat) :
    ∃ m' d', storeFlush s.m s.d (fixOrder order s.m.inext.keys) = some (m', d') ∧
      Inv c U { s with m := m', d := d' } spec n B ∧ m'.inext = [] := by
  have hU' : Univ s.m.kind U := by rw [hI.kind]; exact hU
  obtain ⟨f1, f2⟩ := fixOrder_ok order s.m.inext
  obtain ⟨m', d', g1, g2, g3, g4, g5, g6, g7, g8, g9⟩ :=
    storeFlush_ok hU' hI.bits31 hI.a hI.p hI.i hI.cnt hn hB hI.w f1 f2
  refine ⟨m', d', g1, ⟨by rw [g2]; exact hI.kind, by rw [g3]; exact hI.imm, by rw [g4]; exact hI.bits8,
    by rw [g4]; exact hI.bits31, g5, g6, g7, g8, hI.nodup, hI.w⟩, g9⟩

theorem step_flush (hU : Univ c.kind U) (hI : Inv c U s spec n B) (hn : n + 1 < 1073741824)
    (hB : B < two31) (order : List Nat) :
    (stepS s (.flush order)).2 = (specStep c.kind c.imm spec (.flush order)).2 ∧
      Inv c U (stepS s (.flush order)).1 (specStep c.kind c.imm spec (.flush order)).1 (n + 1) B := by
  obtain ⟨m', d', h1, h2, _⟩ := flush_of_inv hU hI (by omega) hB order
  simp only [stepS, h1, specStep, true_and]
  exact h2.mono (by omega) (Nat.le_refl _)

theorem step_iter (hU : Univ c.kind U) (hI : Inv c U s spec n B) (hn : n + 1 < 1073741824)
    (hB : B < two31) (order : List Nat) :
    (stepS s (.iter order)).2 = (specStep c.kind c.imm spec (.iter order)).2 ∧
      Inv c U (stepS s (.iter order)).1 (specStep c.kind c.imm spec (.iter order)).1 (n + 1) B := by
  obtain ⟨m', d', h1, h2, h3⟩ := flush_of_inv hU hI (by omega) hB order
  have hU' : Univ m'.kind U := by rw [h2.kind]; exact hU
  obtain ⟨L, l1, l2⟩ := storeIter_ok hU' h2.bits31 h2.a h2.i h3 h2.nodup
  simp only [stepS, h1, l1, specStep]
  refine ⟨?_, h2.mono (by omega) (Nat.le_refl _)⟩
  rw [l2]

/-! ### one step -/

theorem step_ok (hU : Univ c.kind U) (hI : Inv c U s spec n B) (op : SOp) (hop : op.isC01 = true)
    (hkey : ∀ k, op.keyOf = some k → ∀ dig, keyClass c.kind k = .ok dig → (k, dig) ∈ U)
    (hn : n + 1 < 1073741824) (hB : B + op.bytes < two31) :
    (stepS s op).2 = (specStep c.kind c.imm spec op).2 ∧
      Inv c U (stepS s op).1 (specStep c.kind c.imm spec op).1 (n + 1) (B + op.bytes) := by
  cases op with
  | put k v => exact step_put hU hI k v (hkey k rfl) hn hB
  | get k =>
    obtain ⟨h1, h2⟩ := step_get hU hI k (hkey k rfl)
    rw [h1, h2]
    exact ⟨rfl, hI.mono (by omega) (by omega)⟩
  | has k =>
    obtain ⟨h1, h2⟩ := step_has hU hI k (hkey k rfl)
    rw [h1, h2]
    exact ⟨rfl, hI.mono (by omega) (by omega)⟩
  | size k =>
    obtain ⟨h1, h2⟩ := step_size hU hI k (hkey k rfl)
    rw [h1, h2]
    exact ⟨rfl, hI.mono (by omega) (by omega)⟩
  | rm k => exact step_rm hU hI k (hkey k rfl)
  | flush order => exact step_flush hU hI hn hB order
  | iter order => exact step_iter hU hI hn hB order
  | igc a b => cases hop
  | pgc a b => cases hop
  | reopen a b => cases hop

end

end Sth

namespace Sth

/-! ### the run -/

theorem runS_cons (s : SState) (op : SOp) (ops : List SOp) :
    (runS s (op :: ops)).2 = (stepS s op).2 :: (runS (stepS s op).1 ops).2 := rfl

theorem specRun_cons (kind : PKind) (imm : Bool) (m : Spec) (op : SOp) (ops : List SOp) :
    (specRun kind imm m (op :: ops)).2 =
      (specStep kind imm m op).2 :: (specRun kind imm (specStep kind imm m op).1 ops).2 := rfl

theorem run_ok {c : Cfg} {U : List (Bytes × Bytes)} (hU : Univ c.kind U) :
    ∀ (ops : List SOp) (s : SState) (spec : Spec) (n B : Nat),
    Inv c U s spec n B → (∀ op ∈ ops, op.isC01 = true) →
    (∀ op ∈ ops, ∀ k, op.keyOf = some k → ∀ dig, keyClass c.kind k = .ok dig → (k, dig) ∈ U) →
    n + ops.length < 1073741824 → B + (ops.map SOp.bytes).sum < two31 →
    (runS s ops).2 = (specRun c.kind c.imm spec ops).2
  | [], _, _, _, _, _, _, _, _, _ => rfl
  | op :: ops, s, spec, n, B, hI, ha, hk, hn, hB => by
    simp only [List.length_cons, List.map_cons, List.sum_cons] at hn hB
    obtain ⟨h1, h2⟩ := step_ok hU hI op (ha op (by simp)) (hk op (by simp)) (by omega) (by omega)
    have ih := run_ok hU ops (stepS s op).1 (specStep c.kind c.imm spec op).1 (n + 1) (B + op.bytes) h2
      (fun o ho => ha o (by simp [ho])) (fun o ho => hk o (by simp [ho])) (by omega) (by omega)
    rw [runS_cons, specRun_cons, h1, ih]

/-! ### the key universe of an operation list -/

/-- every well-formed key is exactly one multihash / CID: parsing it as a stored record gives the key
    back and no trailing bytes (`keysExact_all`: always true since the repair of defect D30 — both
    `multihash.Decode` and the repaired `CIDPrimary.IndexKey` reject trailing bytes) -/
def KeysExact (kind : PKind) (ops : List SOp) : Prop :=
  ∀ p ∈ digestsOf kind ops, readNode kind p.1 = some (p.1, [])

instance (kind : PKind) (ops : List SOp) : Decidable (KeysExact kind ops) := by
  unfold KeysExact; exact inferInstance

theorem digestsOf_cls {kind : PKind} {ops : List SOp} {p : Bytes × Bytes} (h : p ∈ digestsOf kind ops) :
    keyClass kind p.1 = .ok p.2 := by
  unfold digestsOf at h
  obtain ⟨op, _, hop⟩ := List.mem_filterMap.mp h
  cases hk : op.keyOf with
  | none => simp [hk] at hop
  | some k =>
    simp only [hk] at hop
    cases hc : keyClass kind k with
    | error e => simp [hc] at hop
    | ok dig =>
      simp only [hc, Option.some.injEq] at hop
      subst hop
      exact hc

theorem mem_digestsOf {kind : PKind} {ops : List SOp} {op : SOp} {k dig : Bytes} (ho : op ∈ ops)
    (hk : op.keyOf = some k) (hc : keyClass kind k = .ok dig) : (k, dig) ∈ digestsOf kind ops := by
  unfold digestsOf
  exact List.mem_filterMap.mpr ⟨op, ho, by simp only [hk, hc]⟩

theorem keysExact_mh (ops : List SOp) : KeysExact .mh ops := by
  intro p hp
  exact readNode_mh_exact p.1 p.2 (keyClass_ok (digestsOf_cls hp)).1

theorem keysExact_all (kind : PKind) (ops : List SOp) : KeysExact kind ops := by
  intro p hp
  exact readNode_exact kind p.1 p.2 (keyClass_ok (digestsOf_cls hp)).1

theorem univ_of_keysOK {kind : PKind} {ops : List SOp} (hk : KeysOK kind ops) (hx : KeysExact kind ops) :
    Univ kind (digestsOf kind ops) :=
  ⟨fun _ hp => digestsOf_cls hp, hk.1, hk.2.1, hk.2.2, hx⟩

/-! ### the freshly opened store -/

theorem initS_mh (c : Cfg) (hc : c.Legal) (hk : c.kind = .mh) :
    initS c = some ⟨c,
      { kind := c.kind, imm := c.imm, bits := c.bits, imax := c.ifs, buckets := [], ifileNum := 0,
        ilength := 0, pmax := c.pfs, pfileNum := 0, plength := 0, precFileNum := 0, precPos := 0 },
      { ihdr := some ⟨c.bits, c.ifs, 0, c.pfs⟩, ifiles := [(0, [])], phdr := some ⟨c.pfs, 0⟩,
        pfiles := [(0, [])], free := some [] }⟩ := by
  obtain ⟨h1, h2, h3, h4, h5, h6⟩ := hc
  have hb : c.bits ≠ 0 := by omega
  have hi : c.ifs ≠ 0 := by omega
  have hp : c.pfs ≠ 0 := by omega
  have hb' : ¬ (c.bits > 31 ∨ c.bits < 8) := by omega
  have hi' : ¬ c.ifs > defaultMax := by omega
  have hp' : ¬ c.pfs > defaultMax := by omega
  simp [initS, openStore, openPrimary, openIndex, hk, hb, hi, hp, hb', hi', hp', NMap.has, NMap.get?,
    NMap.set, fileOf]

theorem initS_cid (c : Cfg) (hc : c.Legal) (hk : c.kind = .cid) :
    initS c = some ⟨c,
      { kind := c.kind, imm := c.imm, bits := c.bits, imax := c.ifs, buckets := [], ifileNum := 0,
        ilength := 0, pmax := 0, pfileNum := 0, plength := 0, precFileNum := 0, precPos := 0 },
      { ihdr := some ⟨c.bits, c.ifs, 0, 0⟩, ifiles := [(0, [])], cidfile := some [],
        free := some [] }⟩ := by
  obtain ⟨h1, h2, h3, h4, h5, h6⟩ := hc
  have hb : c.bits ≠ 0 := by omega
  have hi : c.ifs ≠ 0 := by omega
  have hb' : ¬ (c.bits > 31 ∨ c.bits < 8) := by omega
  have hi' : ¬ c.ifs > defaultMax := by omega
  simp [initS, openStore, openPrimary, openIndex, hk, hb, hi, hb', hi', NMap.has, NMap.get?,
    NMap.set, fileOf]

end Sth

namespace Sth

theorem get?_single_none {α : Type} (v : α) (f : Nat) (h : 0 < f) : NMap.get? [(0, v)] f = none := by
  simp only [NMap.get?_cons, NMap.get?_nil]
  rw [if_neg (by omega)]

theorem inv_init (c : Cfg) (hc : c.Legal) (U : List (Bytes × Bytes)) (s : SState)
    (hi : initS c = some s) : Inv c U s [] 0 0 := by
  have hc' := hc
  obtain ⟨h1, h2, h3, h4, h5, h6⟩ := hc'
  have hA : ∀ (m : Mem) (d : Disk), m.inext = [] → m.icur = [] → m.buckets = [] →
      SInv U m d [] := by
    intro m d e1 e2 e3
    constructor
    · intro b
      refine ⟨none, ?_, OInv.nil _, by simp⟩
      unfold idxRecords
      rw [e1, e2, e3]
      simp only [NMap.get?_nil, Option.getD_none, readDiskBucket_zero]
    · intro dig key val h
      simp [Spec.get] at h
  rcases (by cases c.kind <;> simp : c.kind = .mh ∨ c.kind = .cid) with hk | hk
  · rw [initS_mh c hc hk] at hi
    cases hi
    refine ⟨rfl, rfl, h1, h2, hA _ _ rfl rfl rfl, ?_, ?_, ?_, by simp, by simp [specW]⟩
    · refine ⟨fun _ => h5, fun r hr => (by cases hr), fun r hr => (by cases hr), fun r hr => (by cases hr),
        fun _ => ⟨⟨rfl, rfl⟩, rfl, fun f hf => get?_single_none _ f hf⟩, ?_⟩
      intro hk'
      have : c.kind = .cid := hk'
      rw [hk] at this
      cases this
    · exact ⟨h3, fun b rl hb => (by cases hb), rfl, fun f hf => get?_single_none _ f hf,
        NMap.sorted_nil⟩
    · refine ⟨fun _ => ⟨Nat.le_refl _, h6⟩, fun _ => Nat.le_refl _, Nat.le_refl _⟩
  · rw [initS_cid c hc hk] at hi
    cases hi
    refine ⟨rfl, rfl, h1, h2, hA _ _ rfl rfl rfl, ?_, ?_, ?_, by simp, by simp [specW]⟩
    · refine ⟨?_, fun r hr => (by cases hr), fun r hr => (by cases hr), fun r hr => (by cases hr),
        ?_, fun _ => rfl⟩
      · intro hk'
        have : c.kind = .mh := hk'
        rw [hk] at this
        cases this
      · intro hk'
        have : c.kind = .mh := hk'
        rw [hk] at this
        cases this
    · exact ⟨h3, fun b rl hb => (by cases hb), rfl, fun f hf => get?_single_none _ f hf,
        NMap.sorted_nil⟩
    · refine ⟨?_, fun _ => Nat.le_refl _, Nat.le_refl _⟩
      intro hk'
      have : c.kind = .mh := hk'
      rw [hk] at this
      cases this

theorem init_exists (c : Cfg) (hc : c.Legal) : ∃ s, initS c = some s := by
  rcases (by cases c.kind <;> simp : c.kind = .mh ∨ c.kind = .cid) with hk | hk
  · exact ⟨_, initS_mh c hc hk⟩
  · exact ⟨_, initS_cid c hc hk⟩

/-- the store refines the map, for key sets in which every well-formed key is exactly one
    multihash / CID (no trailing bytes) -/
theorem store_refines_map_exact (c : Cfg) (hc : c.Legal) (ops : List SOp)
    (ha : ∀ op ∈ ops, op.isC01 = true) (hk : KeysOK c.kind ops) (hx : KeysExact c.kind ops)
    (hs : SizesOK ops) (s : SState) (hi : initS c = some s) :
    (runS s ops).2 = (specRun c.kind c.imm [] ops).2 := by
  have hU := univ_of_keysOK hk hx
  apply run_ok hU ops s [] 0 0 (inv_init c hc _ s hi) ha
  · intro op ho k hkey dig hcls
    exact mem_digestsOf ho hkey hcls
  · have := hs.1; omega
  · have := hs.2.1; omega

/-- the store refines the map for the multihash primary, under the property's premises alone -/
theorem store_refines_map_mh (c : Cfg) (hc : c.Legal) (hkind : c.kind = .mh) (ops : List SOp)
    (ha : ∀ op ∈ ops, op.isC01 = true) (hk : KeysOK c.kind ops)
    (hs : SizesOK ops) (s : SState) (hi : initS c = some s) :
    (runS s ops).2 = (specRun c.kind c.imm [] ops).2 :=
  store_refines_map_exact c hc ops ha hk (by rw [hkind]; exact keysExact_mh ops) hs s hi

/-- the store refines the map: every call returns what the same call returns on an in-memory map -/
theorem store_refines_map (c : Cfg) (hc : c.Legal) (ops : List SOp)
    (ha : ∀ op ∈ ops, op.isC01 = true) (hk : KeysOK c.kind ops)
    (hs : SizesOK ops) (s : SState) (hi : initS c = some s) :
    (runS s ops).2 = (specRun c.kind c.imm [] ops).2 :=
  store_refines_map_exact c hc ops ha hk (keysExact_all c.kind ops) hs s hi

end Sth
