/-
C07 — the bucket table a reopen would reconstruct (`recoveredBuckets`): by rescanning the index log in
every reachable state, and from the snapshot a clean Close saves.
Core Lean only.
-/
import Sth.Lemmas.C07Inv

namespace Sth

section
variable {c : Cfg} {U : List (Bytes × Bytes)} {s : SState} {spec : Spec} {n B : Nat}

/-- without a snapshot `recoveredBuckets` rescans the index log, and finds the live table -/
theorem recovered_rescan (hc : c.Legal) (hI : Inv c U s spec n B) (hX : XInv c s)
    (hsn : s.d.snap = none) :
    ∃ T, recoveredBuckets s.d = some T ∧ T.filter (·.2 ≠ 0) = s.m.buckets.filter (·.2 ≠ 0) := by
  obtain ⟨lg, hl⟩ := hX.log
  have hfiles : ∀ f, f ≤ s.m.ifileNum → s.d.ifiles.get? f = some (logBytes (lg f)) := hl.files
  have hrecs : ∀ f, f ≤ s.m.ifileNum → ∀ r ∈ lg f, RecLogOK c.bits r := by
    intro f hf r hr
    rw [← hX.bits]
    exact hl.recs f hf r hr
  have hno : s.d.ifiles.get? (s.m.ifileNum + 1) = none := hI.i.noFiles _ (by omega)
  obtain ⟨files', s1, _⟩ := scanIndex_log (max := c.ifs) hc.2.1 hfiles hno hrecs
  refine ⟨scanTo c.ifs lg s.m.ifileNum, ?_, ?_⟩
  · unfold recoveredBuckets
    simp only [hX.ihdr, hsn, s1, Option.map_some]
  · apply NMap.filter_nz_eq (scanTo_sorted _ _ _) hI.i.sorted
    intro k
    have := hl.table k
    rw [hX.imax] at this
    exact this.symm

/-- a clean Close leaves a disk from which `recoveredBuckets` returns the saved snapshot; the rescan of the
    same disk with the snapshot dropped and the table of the reopened store (either way) agree with it
    on the non-zero entries -/
theorem recovered_after_close (hc : c.Legal) (hU : Univ c.kind U) (hI : Inv c U s spec n B)
    (hX : XInv c s) (hn : n < 1073741824) (hB : B < two31) (order : List Nat) :
    ∃ st T, storeClose { disk := s.d, mem := some s.m } (fixOrder order s.m.inext.keys) = some st ∧
      (∃ sn, st.disk.snap = some sn ∧ sn.nz = T) ∧
      recoveredBuckets st.disk = some T ∧
      (∃ T', recoveredBuckets { st.disk with snap := none } = some T' ∧
        T'.filter (·.2 ≠ 0) = T.filter (·.2 ≠ 0)) ∧
      ∀ us, (stepS s (.reopen order us)).1.m.buckets.filter (·.2 ≠ 0) = T.filter (·.2 ≠ 0) := by
  obtain ⟨m1, d1, m2, d2, p1, i1, hI2, hX2, _, _, _, _, _⟩ := flushBoth_inv hU hI hX hn hB order
  obtain ⟨fr, hcl, _⟩ := storeClose_eq p1 i1
  have hnz : (m2.buckets.filter (·.2 ≠ 0)).filter (·.2 ≠ 0) = m2.buckets.filter (·.2 ≠ 0) := by
    rw [List.filter_filter]
    simp
  refine ⟨_, m2.buckets.filter (·.2 ≠ 0), hcl, ⟨_, rfl, rfl⟩, ?_, ?_, ?_⟩
  · unfold recoveredBuckets
    have e1 : d2.ihdr = some ⟨c.bits, c.ifs, 0, hdrPfs c⟩ := hX2.ihdr
    have e2 : m2.bits = c.bits := hX2.bits
    simp only [e1, e2, if_true]
  · have hI3 := hI2.frame_ff m2.flpool fr none
    have hX3 := hX2.frame_ff m2.flpool fr none
    obtain ⟨T', t1, t2⟩ := recovered_rescan hc hI3 hX3 rfl
    refine ⟨T', t1, ?_⟩
    rw [hnz]
    exact t2
  · intro us
    obtain ⟨m1', d1', m2', d2', m', d', p1', i1', r1, hI', _, _, _, q3⟩ :=
      step_reopen hc hU hI hX hn hB order us
    rw [p1] at p1'
    simp only [Option.some.injEq, Prod.mk.injEq] at p1'
    obtain ⟨rfl, rfl⟩ := p1'
    rw [i1] at i1'
    simp only [Prod.mk.injEq] at i1'
    obtain ⟨rfl, rfl⟩ := i1'
    rw [r1, hnz]
    exact NMap.filter_nz_eq hI'.i.sorted hI2.i.sorted q3

end

end Sth
