/-
C04 — index GC: truncateFreeFiles and the reap loop of Index.gc preserve the span log, every read
through the bucket table, the current file and everything outside the index files; any poll may hit
the deadline.
Core Lean only.
-/
import Sth.Lemmas.C04Idx

namespace Sth

/-- the disk during an index GC cycle, against the disk `d0` it started from -/
structure GI (m : Mem) (d0 d : Disk) (hb hm hp : Nat) : Prop where
  log : ∃ first sp, d.ihdr = some ⟨hb, hm, first, hp⟩ ∧ IdxLog m d first sp
  reads : ∀ b, readDiskBucket d.ifiles m.imax (tbl m b) = readDiskBucket d0.ifiles m.imax (tbl m b)
  noFiles : ∀ f, m.ifileNum < f → d.ifiles.get? f = none
  last : d.ifiles.get? m.ifileNum = d0.ifiles.get? m.ifileNum
  frame : d.pfiles = d0.pfiles ∧ d.cidfile = d0.cidfile ∧ d.phdr = d0.phdr ∧ d.free = d0.free ∧
    d.freeGc = d0.freeGc ∧ d.snap = d0.snap

theorem busyB_tbl {m : Mem} {n : Nat} {x : Nat × Bytes} (h : busyB m n x) :
    tbl m (leDec (x.2.take 4)) ≠ 0 ∧ (localizeIdx m.imax (tbl m (leDec (x.2.take 4)))).2 = n := by
  unfold busyB idxBusy at h
  split at h
  · cases h
  · simp only [Option.some.injEq, decide_eq_true_eq] at h
    have e : (m.buckets.get? (leDec (x.2.take 4))).getD 0 = tbl m (leDec (x.2.take 4)) := rfl
    rw [e] at h
    refine ⟨?_, h.1⟩
    intro h0
    rw [h0] at h
    simp [localizeIdx] at h

section
variable {m : Mem} {d0 d : Disk} {hb hm hp : Nat}

/-- the file a GC pass may touch lies strictly between the header's first file and the current one -/
theorem GI.range (h : GI m d0 d hb hm hp) {first : Nat} {h' : IdxHeader} (hd : d.ihdr = some h')
    (hf : h'.first = first) {n : Nat} {file : Bytes} (hg : d.ifiles.get? n = some file)
    (hn : n ≠ m.ifileNum) :
    ∃ sp, h' = ⟨hb, hm, first, hp⟩ ∧ IdxLog m d first sp ∧ first ≤ n ∧ n < m.ifileNum ∧
      file = gbytes (sp n) := by
  obtain ⟨first', sp, e1, e2⟩ := h.log
  rw [hd] at e1
  cases e1
  simp only at hf
  subst hf
  have h1 : first' ≤ n := by
    rcases Nat.lt_or_ge n first' with hlt | hge
    · rw [e2.gone n hlt] at hg; cases hg
    · exact hge
  have h2 : n ≤ m.ifileNum := by
    rcases Nat.lt_or_ge m.ifileNum n with hlt | hge
    · rw [h.noFiles n hlt] at hg; cases hg
    · exact hge
  refine ⟨sp, rfl, e2, h1, by omega, ?_⟩
  rw [e2.files n h1 h2] at hg
  cases hg
  rfl

theorem GI.setFile (h : GI m d0 d hb hm hp) (hp1 : 1 ≤ m.imax) (hN : m.ifileNum < two32)
    {first : Nat} {sp : Nat → List GSpan} (hd : d.ihdr = some ⟨hb, hm, first, hp⟩)
    (hl : IdxLog m d first sp) {n : Nat} (h1 : first ≤ n) (h2 : n < m.ifileNum) {ss' : List GSpan}
    (hR : Reaped m n m.bits (sp n) ss') :
    GI m d0 { d with ifiles := d.ifiles.set n (gbytes ss') } hb hm hp ∧
      IdxLog m { d with ifiles := d.ifiles.set n (gbytes ss') } first
        (fun f => if f = n then ss' else sp f) := by
  have hl' := hl.update hp1 hN h1 (by omega) hR
  refine ⟨⟨⟨first, _, hd, hl'⟩, ?_, ?_, ?_, h.frame⟩, hl'⟩
  · intro b
    rw [← h.reads b]
    apply hl.read_eq hl' hp1 hN
    intro f off body g1 g2 g3 g4
    refine ⟨g1, ?_⟩
    by_cases hfn : f = n
    · subst hfn
      simp only [if_true]
      apply hR.busy _ g3
      have ht := hl.t2 f g1 g2 _ g3
      have hg := hl.tag_lt g1 g2 g3
      exact busy_of_tbl hp1 (by omega) ht.1 hg.1 g4
    · simp only [hfn, if_false]; exact g3
  · intro f hf
    show (d.ifiles.set n (gbytes ss')).get? f = none
    rw [NMap.get?_set_ne _ _ (by omega)]
    exact h.noFiles f hf
  · show (d.ifiles.set n (gbytes ss')).get? m.ifileNum = _
    rw [NMap.get?_set_ne _ _ (by omega)]
    exact h.last

end

end Sth

namespace Sth

section
variable {m : Mem} {d0 d : Disk} {hb hm hp : Nat}

theorem GI.dropFile (h : GI m d0 d hb hm hp) (hp1 : 1 ≤ m.imax) (hN : m.ifileNum < two32)
    {first : Nat} {sp : Nat → List GSpan} (hl : IdxLog m d first sp) (hlt : first < m.ifileNum)
    (hnb : ∀ f off body, first ≤ f → f ≤ m.ifileNum → (off, body) ∈ liveAt 0 (sp f) →
      tbl m (leDec (body.take 4)) = f * m.imax + off + 4 → f ≠ first) :
    GI m d0 { d with ihdr := some ⟨hb, hm, first + 1, hp⟩, ifiles := d.ifiles.del first } hb hm hp := by
  have hl' := hl.dropFirst hlt hnb (some ⟨hb, hm, first + 1, hp⟩)
  refine ⟨⟨first + 1, sp, rfl, hl'⟩, ?_, ?_, ?_, h.frame⟩
  · intro b
    rw [← h.reads b]
    apply hl.read_eq hl' hp1 hN
    intro f off body g1 g2 g3 g4
    have := hnb f off body g1 g2 g3 g4
    exact ⟨by omega, g3⟩
  · intro f hf
    show (d.ifiles.del first).get? f = none
    rw [NMap.get?_del_ne _ (by omega)]
    exact h.noFiles f hf
  · show (d.ifiles.del first).get? m.ifileNum = _
    rw [NMap.get?_del_ne _ (by omega)]
    exact h.last

/-- no bucket points into file `n` -/
def NotBusy (m : Mem) (first : Nat) (sp : Nat → List GSpan) (n : Nat) : Prop :=
  ∀ f off body, first ≤ f → f ≤ m.ifileNum → (off, body) ∈ liveAt 0 (sp f) →
    tbl m (leDec (body.take 4)) = f * m.imax + off + 4 → f ≠ n

theorem notBusy_of_set (hp1 : 1 ≤ m.imax) (hN : m.ifileNum < two32) {busySet : List Nat}
    (hbs : ∀ b, tbl m b ≠ 0 → busySet.contains (localizeIdx m.imax (tbl m b)).2 = true)
    {first : Nat} {sp : Nat → List GSpan} (hl : IdxLog m d first sp) {n : Nat}
    (hn : busySet.contains n = false) : NotBusy m first sp n := by
  intro f off body g1 g2 g3 g4 hfn
  have ht := hl.t2 f g1 g2 _ g3
  have := hbs (leDec (body.take 4)) (by rw [g4]; omega)
  rw [g4, localizeIdx_eq hp1 ht.1 (by omega)] at this
  simp only at this
  rw [hfn, hn] at this
  cases this

theorem reaped_nil_of_notBusy (hp1 : 1 ≤ m.imax) (hN : m.ifileNum < two32) {first : Nat}
    {sp : Nat → List GSpan} (hl : IdxLog m d first sp) {n : Nat} (h1 : first ≤ n)
    (h2 : n ≤ m.ifileNum) (hnb : NotBusy m first sp n) : Reaped m n m.bits (sp n) [] := by
  refine ⟨by simp, by simp [liveAt], ?_⟩
  intro x hx hb
  exfalso
  obtain ⟨t1, t2⟩ := busyB_tbl hb
  have ht := hl.t2 n h1 h2 x hx
  -- the table entry of the record's tag is a record position in file n
  obtain ⟨f, off, body, g1, g2, g3, g4, g5⟩ := hl.t1 _ t1
  have ho := (hl.t2 f g1 g2 _ g3).1
  rw [g5, localizeIdx_eq hp1 ho (by omega)] at t2
  simp only at t2
  exact hnb f off body g1 g2 g3 (by rw [g4]; exact g5) t2

/-- truncateFreeFiles -/
theorem tff_go_ok (hp1 : 1 ≤ m.imax) (hN : m.ifileNum < two32) {busySet : List Nat}
    (hbs : ∀ b, tbl m b ≠ 0 → busySet.contains (localizeIdx m.imax (tbl m b)).2 = true) :
    ∀ (fuel n : Nat) (h : IdxHeader) (d : Disk) (budget : Budget),
      GI m d0 d hb hm hp → d.ihdr = some h →
      GI m d0 (truncateFreeFiles.go m.ifileNum busySet fuel n h d budget).2.1 hb hm hp
  | 0, _, _, _, _, hG, _ => by rw [truncateFreeFiles.go]; exact hG
  | fuel + 1, n, h, d, budget, hG, hd => by
    rw [truncateFreeFiles.go]
    by_cases hnl : n = m.ifileNum
    · rw [if_pos hnl]; exact hG
    · rw [if_neg hnl]
      by_cases hbz : busySet.contains n = true
      · rw [if_pos hbz]; exact tff_go_ok hp1 hN hbs fuel _ _ _ _ hG hd
      · rw [if_neg hbz]
        have hbz' : busySet.contains n = false := by simpa using hbz
        cases hpl : poll budget with
        | mk expired bud =>
        simp only
        by_cases hexp : expired = true
        · rw [if_pos hexp]; exact hG
        · rw [if_neg hexp]
          cases hg : d.ifiles.get? n with
          | none => simp only; exact tff_go_ok hp1 hN hbs fuel _ _ _ _ hG hd
          | some file =>
            simp only
            obtain ⟨sp, e1, hl, r1, r2, r3⟩ := hG.range hd rfl hg hnl
            have hnb := notBusy_of_set (d := d) hp1 hN hbs hl hbz'
            by_cases hfn : h.first = n
            · rw [if_pos hfn]
              have hG' := hG.dropFile hp1 hN hl (by omega)
                (by intro f off body g1 g2 g3 g4; rw [hfn]; exact hnb f off body g1 g2 g3 g4)
              have e2 : ({ h with first := h.first + 1 } : IdxHeader) = ⟨hb, hm, h.first + 1, hp⟩ := by
                rw [e1]
              rw [e2, ← hfn]
              exact tff_go_ok hp1 hN hbs fuel _ _ _ _ hG' rfl
            · rw [if_neg hfn]
              by_cases hem : file.isEmpty = true
              · rw [if_pos hem]; exact tff_go_ok hp1 hN hbs fuel _ _ _ _ hG hd
              · rw [if_neg hem]
                have hd' : d.ihdr = some ⟨hb, hm, h.first, hp⟩ := by rw [hd, e1]
                obtain ⟨hG', _⟩ := hG.setFile hp1 hN hd' hl r1 r2
                  (reaped_nil_of_notBusy hp1 hN hl r1 (by omega) hnb)
                exact tff_go_ok hp1 hN hbs fuel _ _ _ _ hG' hd

theorem busySet_ok (m : Mem) :
    ∀ b, tbl m b ≠ 0 →
      (m.buckets.filterMap fun (x : Nat × Nat) =>
        if x.2 = 0 then none else some (localizeIdx m.imax x.2).2).contains
          (localizeIdx m.imax (tbl m b)).2 = true := by
  intro b hb
  simp only [List.contains_iff_mem, List.mem_filterMap]
  cases hg : m.buckets.get? b with
  | none => unfold tbl at hb; rw [hg] at hb; simp at hb
  | some p =>
    have hp : tbl m b = p := by unfold tbl; rw [hg]; rfl
    refine ⟨(b, p), NMap.mem_of_get? hg, ?_⟩
    rw [hp] at hb ⊢
    simp only [hb, if_false]

theorem truncateFreeFiles_ok (hp1 : 1 ≤ m.imax) (hN : m.ifileNum < two32) (budget : Budget)
    (hG : GI m d0 d hb hm hp) : GI m d0 (truncateFreeFiles m d budget).2.1 hb hm hp := by
  unfold truncateFreeFiles
  cases hd : d.ihdr with
  | none => exact hG
  | some h =>
    simp only
    split
    · exact hG
    · exact tff_go_ok hp1 hN (busySet_ok m) _ _ _ _ _ hG hd

end

end Sth

namespace Sth

section
variable {m : Mem} {d0 : Disk} {hb hm hp : Nat}

/-- the reap loop of Index.gc -/
theorem igc_go_ok (hp1 : 1 ≤ m.imax) (hN : m.ifileNum < two32) (start : Nat) :
    ∀ (fuel n : Nat) (seenFirst : Bool) (h : IdxHeader) (d : Disk) (budget : Budget),
      GI m d0 d hb hm hp → d.ihdr = some h →
      GI m d0 (indexGC.go m.ifileNum start fuel n seenFirst h m d budget).2.2.1 hb hm hp ∧
        ∃ g, (indexGC.go m.ifileNum start fuel n seenFirst h m d budget).2.1 = { m with gcResume := g }
  | 0, _, _, _, _, _, hG, _ => by rw [indexGC.go]; exact ⟨hG, m.gcResume, rfl⟩
  | fuel + 1, n, seenFirst, h, d, budget, hG, hd => by
    rw [indexGC.go]
    by_cases hnl : n = m.ifileNum
    · rw [if_pos hnl]; exact ⟨hG, m.gcResume, rfl⟩
    · rw [if_neg hnl]
      cases hg : d.ifiles.get? n with
      | none => exact ⟨hG, m.gcResume, rfl⟩
      | some file =>
        simp only
        obtain ⟨sp, e1, hl, r1, r2, r3⟩ := hG.range hd rfl hg hnl
        have hd' : d.ihdr = some ⟨hb, hm, h.first, hp⟩ := by rw [hd, e1]
        obtain ⟨ss', q1, q2, q3⟩ := reapIndexRecords_ok (fnum := n)
          (hl.ok n r1 (by omega)) budget
        rw [← r3] at q1 q3
        obtain ⟨hG1, hl1⟩ := hG.setFile hp1 hN hd' hl r1 r2 q2
        rw [← q1] at hG1 hl1
        cases hres : reapIndexRecords m n file budget with
        | mk r rest =>
        obtain ⟨file', bud⟩ := rest
        rw [hres] at hG1 hl1 q3
        simp only at hG1 hl1 q3 ⊢
        have hd1 : ({ d with ifiles := d.ifiles.set n file' } : Disk).ihdr = some h := hd
        -- the continuation after a file that was kept or found stale
        have hcont : ∀ (h2 : IdxHeader) (d2 : Disk) (sf : Bool), GI m d0 d2 hb hm hp →
            d2.ihdr = some h2 →
            GI m d0 (if n + 1 = m.ifileNum then
                if sf = true then (GcOut.ok, m, d2, bud)
                else if h2.first = start then (GcOut.ok, m, d2, bud)
                else indexGC.go m.ifileNum start fuel h2.first sf h2 m d2 bud
              else if n + 1 = start then (GcOut.ok, m, d2, bud)
              else indexGC.go m.ifileNum start fuel (n + 1) sf h2 m d2 bud).2.2.1 hb hm hp ∧
            ∃ g, (if n + 1 = m.ifileNum then
                if sf = true then (GcOut.ok, m, d2, bud)
                else if h2.first = start then (GcOut.ok, m, d2, bud)
                else indexGC.go m.ifileNum start fuel h2.first sf h2 m d2 bud
              else if n + 1 = start then (GcOut.ok, m, d2, bud)
              else indexGC.go m.ifileNum start fuel (n + 1) sf h2 m d2 bud).2.1 =
                { m with gcResume := g } := by
          intro h2 d2 sf hG2 hd2
          repeat' split
          all_goals first
            | exact ⟨hG2, m.gcResume, rfl⟩
            | exact igc_go_ok hp1 hN start fuel _ _ _ _ _ hG2 hd2
        cases r with
        | deadline => exact ⟨hG1, some n, rfl⟩
        | err => exact ⟨hG1, m.gcResume, rfl⟩
        | kept =>
          simp only [reduceCtorEq, false_and, if_false]
          exact hcont h _ seenFirst hG1 hd1
        | stale =>
          simp only [true_and]
          by_cases hfn : h.first = n
          · subst hfn
            simp only [if_true]
            have hss : ss' = [] := q3 rfl
            have hlt : h.first < m.ifileNum := by omega
            have hG2 := hG1.dropFile hp1 hN hl1 hlt (by
              intro f off body g1 g2 g3 g4 hc
              rw [hc] at g3
              simp only [if_true, hss, liveAt] at g3
              cases g3)
            have e2 : ({ h with first := h.first + 1 } : IdxHeader) = ⟨hb, hm, h.first + 1, hp⟩ := by
              rw [e1]
            rw [e2]
            exact hcont ⟨hb, hm, h.first + 1, hp⟩ _ true hG2 rfl
          · simp only [hfn, if_false]
            exact hcont h _ seenFirst hG1 hd1

end

end Sth

namespace Sth

theorem IdxLog.of_gcResume {m : Mem} {d : Disk} {first : Nat} {sp : Nat → List GSpan}
    (hl : IdxLog m d first sp) (g : Option Nat) : IdxLog { m with gcResume := g } d first sp :=
  ⟨hl.le, hl.gone, hl.files, hl.ok, hl.t1, hl.t2⟩

theorem GI.of_gcResume {m : Mem} {d0 d : Disk} {hb hm hp : Nat} (h : GI m d0 d hb hm hp)
    (g : Option Nat) : GI { m with gcResume := g } d0 d hb hm hp := by
  obtain ⟨first, sp, e1, e2⟩ := h.log
  exact ⟨⟨first, sp, e1, e2.of_gcResume g⟩, h.reads, h.noFiles, h.last, h.frame⟩

/-- Index.gc: the disk afterwards is a reaped version of the disk before; the memory state only
    changes in the resume point -/
theorem indexGC_ok {m : Mem} {d : Disk} {hb hm hp : Nat} (hp1 : 1 ≤ m.imax) (hN : m.ifileNum < two32)
    (hG : GI m d d hb hm hp) (scanFree : Bool) (budget : Budget) :
    GI m d (indexGC m d scanFree budget).2.2.1 hb hm hp ∧
      ∃ g, (indexGC m d scanFree budget).2.1 = { m with gcResume := g } := by
  unfold indexGC
  have h1 : GI m d (if scanFree = true then truncateFreeFiles m d budget
      else (GcOut.ok, d, budget)).2.1 hb hm hp := by
    split
    · exact truncateFreeFiles_ok hp1 hN budget hG
    · exact hG
  cases hr : (if scanFree = true then truncateFreeFiles m d budget else (GcOut.ok, d, budget)) with
  | mk r0 rest =>
  obtain ⟨d1, bud⟩ := rest
  rw [hr] at h1
  simp only at h1 ⊢
  split
  · exact ⟨h1, m.gcResume, rfl⟩
  · cases hd : d1.ihdr with
    | none => exact ⟨h1, m.gcResume, rfl⟩
    | some h =>
      simp only
      split
      · exact ⟨h1, m.gcResume, rfl⟩
      · have h2 := h1.of_gcResume none
        obtain ⟨k1, g, k2⟩ := igc_go_ok (m := { m with gcResume := none }) (d0 := d) hp1 hN
          (m.gcResume.getD h.first) (2 * (m.ifileNum - h.first) + 4) (m.gcResume.getD h.first) false h
          d1 bud h2 hd
        refine ⟨?_, g, k2⟩
        have := k1.of_gcResume m.gcResume
        exact this

end Sth
