/-
C10 widened (U1) — the removal pool of remapIndex over all index files: it holds exactly the buckets
whose current list has a rejected entry, each with that list minus the rejected entries.
Core Lean only.
-/
import Sth.Lemmas.C10BRemap

namespace Sth

namespace C10B

/-! ### folds of `NMap.set` -/

theorem NMap.mem_set {α : Type} : ∀ (m : NMap α) (k : Nat) (v : α) (y : Nat × α),
    y ∈ m.set k v → y = (k, v) ∨ y ∈ m
  | [], k, v, y, h => by simp [NMap.set] at h; exact Or.inl h
  | (k', v') :: rest, k, v, y, h => by
    unfold NMap.set at h
    split at h
    · simp only [List.mem_cons] at h ⊢
      rcases h with h | h | h
      · exact Or.inl h
      · exact Or.inr (Or.inl h)
      · exact Or.inr (Or.inr h)
    · split at h
      · simp only [List.mem_cons] at h ⊢
        rcases h with h | h
        · exact Or.inl h
        · exact Or.inr (Or.inr h)
      · simp only [List.mem_cons] at h ⊢
        rcases h with h | h
        · exact Or.inr (Or.inl h)
        · rcases NMap.mem_set rest k v y h with h' | h'
          · exact Or.inl h'
          · exact Or.inr (Or.inr h')

/-- merge a file's pool into the pool -/
def mergePool {α : Type} (p : NMap α) (rm : List (Nat × α)) : NMap α :=
  rm.foldl (fun p x => p.set x.1 x.2) p

theorem mergePool_mem {α : Type} : ∀ (rm : List (Nat × α)) (p : NMap α) (y : Nat × α),
    y ∈ mergePool p rm → y ∈ rm ∨ y ∈ p
  | [], _, _, h => Or.inr h
  | x :: rm, p, y, h => by
    rcases mergePool_mem rm (p.set x.1 x.2) y h with h' | h'
    · exact Or.inl (List.mem_cons_of_mem _ h')
    · rcases NMap.mem_set p x.1 x.2 y h' with h'' | h''
      · left; rw [h'']; simp
      · exact Or.inr h''

theorem mergePool_keep {α : Type} : ∀ (rm : List (Nat × α)) (p : NMap α) (b : Nat) (x : α),
    p.get? b = some x → (∀ y, (b, y) ∈ rm → y = x) → (mergePool p rm).get? b = some x
  | [], _, _, _, h, _ => h
  | z :: rm, p, b, x, h, hu => by
    apply mergePool_keep rm (p.set z.1 z.2) b x
    · rw [NMap.get?_set]
      split
      · rename_i hb
        have := hu z.2 (by rw [hb]; simp)
        rw [this]
      · exact h
    · intro y hy; exact hu y (List.mem_cons_of_mem _ hy)

theorem mergePool_get {α : Type} : ∀ (rm : List (Nat × α)) (p : NMap α) (b : Nat) (x : α),
    (b, x) ∈ rm → (∀ y, (b, y) ∈ rm → y = x) → (mergePool p rm).get? b = some x
  | [], _, _, _, h, _ => by cases h
  | z :: rm, p, b, x, h, hu => by
    have hu' : ∀ y, (b, y) ∈ rm → y = x := fun y hy => hu y (List.mem_cons_of_mem _ hy)
    by_cases hz : z.1 = b
    · have : z.2 = x := hu z.2 (by rw [← hz]; simp)
      exact mergePool_keep rm (p.set z.1 z.2) b x (by rw [hz, this, NMap.get?_set_eq]) hu'
    · simp only [List.mem_cons] at h
      rcases h with h | h
      · exact absurd (by rw [← h]) hz
      · exact mergePool_get rm (p.set z.1 z.2) b x h hu'

theorem mergePool_sorted {α : Type} : ∀ (rm : List (Nat × α)) (p : NMap α), NMap.Sorted p →
    NMap.Sorted (mergePool p rm)
  | [], _, h => h
  | z :: rm, p, h => mergePool_sorted rm (p.set z.1 z.2) (NMap.sorted_set _ _ h)

theorem nodup_subset_length : ∀ (l l' : List Nat), l.Nodup → (∀ x ∈ l, x ∈ l') → l.length ≤ l'.length
  | [], _, _, _ => Nat.zero_le _
  | a :: t, l', hnd, hs => by
    rw [List.nodup_cons] at hnd
    have ha : a ∈ l' := hs a (by simp)
    have := nodup_subset_length t (l'.erase a) hnd.2 (by
      intro x hx
      have hne : x ≠ a := fun e => hnd.1 (e ▸ hx)
      exact (List.mem_erase_of_ne hne).mpr (hs x (List.mem_cons_of_mem _ hx)))
    rw [List.length_erase_of_mem ha] at this
    have hpos : 0 < l'.length := List.length_pos_of_mem ha
    simp only [List.length_cons]
    omega

/-! ### the pool of one file and of all files -/

section
variable {remap : Nat → Option Nat} {imax : Nat} {cur : Nat → Option RecordList}

/-- every element of a pool is a bucket with a rejected entry, with its kept list -/
def Sound (remap : Nat → Option Nat) (cur : Nat → Option RecordList) (p : NMap RecordList) : Prop :=
  ∀ y ∈ p, ∃ rl, cur y.1 = some rl ∧ allGood remap rl = false ∧ y.2 = keptRL remap rl

theorem sound_nil : Sound remap cur ([] : NMap RecordList) := fun y hy => by cases hy

theorem poolStep_sound (f : Nat) (p : NMap RecordList) (bp : Nat × Nat) (h : Sound remap cur p) :
    Sound remap cur (poolStep remap imax f cur p bp) := by
  unfold poolStep
  split
  · exact h
  · split
    · exact h
    · split
      · rename_i rl hc
        split
        · exact h
        · rename_i hg
          intro y hy
          rcases NMap.mem_set _ _ _ y hy with rfl | hy'
          · exact ⟨rl, hc, by simpa using hg, rfl⟩
          · exact h y hy'
      · exact h

theorem filePool_sound (f : Nat) : ∀ (S : List (Nat × Nat)) (p : NMap RecordList), Sound remap cur p →
    Sound remap cur (S.foldl (poolStep remap imax f cur) p)
  | [], _, h => h
  | x :: S, p, h => filePool_sound f S _ (poolStep_sound f p x h)

theorem filePool_sorted (f : Nat) : ∀ (S : List (Nat × Nat)) (p : NMap RecordList), NMap.Sorted p →
    NMap.Sorted (S.foldl (poolStep remap imax f cur) p)
  | [], _, h => h
  | x :: S, p, h => by
    apply filePool_sorted f S
    unfold poolStep
    split
    · exact h
    · split
      · exact h
      · split
        · split
          · exact h
          · exact NMap.sorted_set _ _ h
        · exact h

theorem poolStep_keep (f : Nat) (p : NMap RecordList) (bp : Nat × Nat) (b : Nat) (rl : RecordList)
    (hc : cur b = some rl) (h : p.get? b = some (keptRL remap rl)) :
    (poolStep remap imax f cur p bp).get? b = some (keptRL remap rl) := by
  unfold poolStep
  split
  · exact h
  · split
    · exact h
    · split
      · rename_i rl' hc'
        split
        · exact h
        · rw [NMap.get?_set]
          split
          · rename_i hb
            rw [← hb, hc] at hc'
            cases hc'
            rfl
          · exact h
      · exact h

theorem filePool_keep (f : Nat) (b : Nat) (rl : RecordList) (hc : cur b = some rl) :
    ∀ (S : List (Nat × Nat)) (p : NMap RecordList), p.get? b = some (keptRL remap rl) →
      (S.foldl (poolStep remap imax f cur) p).get? b = some (keptRL remap rl)
  | [], _, h => h
  | x :: S, p, h => filePool_keep f b rl hc S _ (poolStep_keep f p x b rl hc h)

theorem filePool_get (f : Nat) (b pos : Nat) (rl : RecordList) (hc : cur b = some rl) (h0 : pos ≠ 0)
    (hf : (localizeIdx imax pos).2 = f) (hbad : allGood remap rl = false) :
    ∀ (S : List (Nat × Nat)) (p : NMap RecordList), (b, pos) ∈ S →
      (S.foldl (poolStep remap imax f cur) p).get? b = some (keptRL remap rl)
  | [], _, h => by cases h
  | x :: S, p, h => by
    simp only [List.mem_cons] at h
    rcases h with h | h
    · apply filePool_keep f b rl hc S
      rw [← h]
      unfold poolStep
      simp only [h0, if_false, hf, ne_eq, not_true_eq_false, hc, hbad, Bool.false_eq_true]
      exact NMap.get?_set_eq _ _ _
    · exact filePool_get f b pos rl hc h0 hf hbad S _ h

/-- the pool after all files `fl` -/
def totalPool (remap : Nat → Option Nat) (imax : Nat) (cur : Nat → Option RecordList) (T : List (Nat × Nat))
    (fl : List Nat) (p : NMap RecordList) : NMap RecordList :=
  fl.foldl (fun p f => mergePool p (T.foldl (poolStep remap imax f cur) [])) p

theorem totalPool_sound (T : List (Nat × Nat)) : ∀ (fl : List Nat) (p : NMap RecordList), Sound remap cur p →
    Sound remap cur (totalPool remap imax cur T fl p)
  | [], _, h => h
  | f :: fl, p, h => by
    apply totalPool_sound T fl
    intro y hy
    rcases mergePool_mem _ _ y hy with h' | h'
    · exact filePool_sound f T [] sound_nil y h'
    · exact h y h'

theorem totalPool_sorted (T : List (Nat × Nat)) : ∀ (fl : List Nat) (p : NMap RecordList), NMap.Sorted p →
    NMap.Sorted (totalPool remap imax cur T fl p)
  | [], _, h => h
  | f :: fl, p, h => totalPool_sorted T fl _ (mergePool_sorted _ _ h)

theorem sound_unique {p : NMap RecordList} (h : Sound remap cur p) (b : Nat) (rl : RecordList)
    (hc : cur b = some rl) : ∀ y, (b, y) ∈ p → y = keptRL remap rl := by
  intro y hy
  obtain ⟨rl', h1, _, h3⟩ := h (b, y) hy
  simp only at h1 h3
  rw [hc] at h1
  cases h1
  exact h3

theorem totalPool_keep (T : List (Nat × Nat)) (b : Nat) (rl : RecordList) (hc : cur b = some rl) :
    ∀ (fl : List Nat) (p : NMap RecordList), p.get? b = some (keptRL remap rl) →
      (totalPool remap imax cur T fl p).get? b = some (keptRL remap rl)
  | [], _, h => h
  | f :: fl, p, h => by
    apply totalPool_keep T b rl hc fl
    exact mergePool_keep _ _ b _ h (sound_unique (filePool_sound f T [] sound_nil) b rl hc)

theorem totalPool_get (T : List (Nat × Nat)) (b pos : Nat) (rl : RecordList) (hc : cur b = some rl)
    (h0 : pos ≠ 0) (hbad : allGood remap rl = false) (hT : (b, pos) ∈ T) :
    ∀ (fl : List Nat) (p : NMap RecordList), (localizeIdx imax pos).2 ∈ fl →
      (totalPool remap imax cur T fl p).get? b = some (keptRL remap rl)
  | [], _, h => by cases h
  | f :: fl, p, h => by
    simp only [List.mem_cons] at h
    by_cases hf : (localizeIdx imax pos).2 = f
    · apply totalPool_keep T b rl hc fl
      have hg := filePool_get (remap := remap) (cur := cur) f b pos rl hc h0 hf hbad T [] hT
      exact mergePool_get _ _ b _ (NMap.mem_of_get? hg)
        (sound_unique (filePool_sound f T [] sound_nil) b rl hc)
    · rcases h with h | h
      · exact absurd h hf
      · exact totalPool_get T b pos rl hc h0 hbad hT fl _ h

end

end C10B

end Sth
