import Sth.Lemmas.C11Pri4

/-!
C11, primary side (5): a complete primary GC cycle releases a closed file all of whose records are
superseded and recorded (invariant level).  Core Lean only.
-/

namespace Sth.C11

theorem liveAt_nil_dead : ∀ (ss : List GSpan) (base : Nat), liveAt base ss = [] → ∀ s ∈ ss, s.dead = true
  | [], _, _, _, h => by cases h
  | s :: ss, base, h, t, ht => by
    unfold liveAt at h
    cases hd : s.dead with
    | false => simp [hd] at h
    | true =>
      simp only [hd, if_true] at h
      simp only [List.mem_cons] at ht
      rcases ht with rfl | ht
      · exact hd
      · exact liveAt_nil_dead ss _ h t ht

section
variable {c : Cfg} {U : List (Bytes × Bytes)} {cfg : Cfg} {spec : Spec} {B : Nat}
  {m : Mem} {d : Disk} {k pf : Nat} {psp : Nat → List GSpan}

/-- a record span an index entry names holds a well-formed record (flushed primary) -/
theorem ent_recspan (hU : Univ c.kind U) (hS : GState c U cfg m d spec k B pf psp) (hpn : m.pnext = [])
    {g : Nat} {x : Nat × Bytes} (g1 : pf ≤ g) (g2 : g ≤ m.pfileNum) (hx : x ∈ liveAt 0 (psp g))
    (he : IsEnt m d ⟨m.pmax * g + x.1, x.2.length⟩) : RecSpan x.2 := by
  have hU' := hS.g.univ hU
  have hk : m.kind = .mh := hS.g.kind
  obtain ⟨b, rl, e, hr, hm, hblk⟩ := he
  obtain ⟨hB, _⟩ := ent_blockOK hS.g.a hr hm
  obtain ⟨k1, v1, dig, a1, a2, _, _, _⟩ := hB.own hU' hS.g.bits31
  obtain ⟨k1', v1', p1, bk⟩ := hS.ent e.blk ⟨b, rl, e, hr, hm, rfl⟩
  rw [p1] at a1
  cases a1
  rcases bk with ⟨r, hr', _⟩ | ⟨f', lp', y1, y2, y3, y4, y5⟩
  · rw [hpn] at hr'; cases hr'
  · have hlp : lp' < m.pmax := hS.log.starts f' y2 y3 _ y4
    have hat : x.1 < m.pmax := hS.log.starts g g1 g2 _ hx
    have hoff : m.pmax * f' + lp' = m.pmax * g + x.1 := by rw [← y1, hblk]
    obtain ⟨rfl, rfl⟩ := divmod_unique hoff hlp hat
    have hbody : k1 ++ v1 = x.2 := liveAt_off_unique y4 (by exact hx)
    have p2 := readNode_append m.kind k1 v1 (hU'.exact _ a2)
    rw [hk, hbody] at p2
    have p3 := (hU'.dig a2).1
    rw [hk] at p3
    exact ⟨k1, v1, dig, p2, p3⟩

/-- P1 at invariant level.  A flushed multihash store in a state satisfying the GC invariant; `f` a
    closed file (`pf ≤ f < pfileNum`) such that (coverage) every record span of every closed file is
    named by an index entry or recorded on the freelist (file, hand-over file or pool), no index entry
    names a record span of `f`, `f` is shorter than 2^31 bytes, and `f`, if it is in the visited set and
    has no record span left, is empty.  Then ONE complete primary GC cycle — any threshold — leaves `f`
    unlinked or with length zero, and unlinked when `f` is the header's first file (and the cycle
    visits it: it is not in the visited set, or still had a record span). -/
theorem pgc_releases_core (hU : Univ c.kind U) (hS : GState c U cfg m d spec k B pf psp)
    (hk : 3 * k < 1073741824) (hpn : m.pnext = []) {f : Nat} (h1 : pf ≤ f) (h2 : f < m.pfileNum)
    (hcov : ∀ g, pf ≤ g → g < m.pfileNum → ∀ x ∈ liveAt 0 (psp g),
      IsEnt m d ⟨m.pmax * g + x.1, x.2.length⟩ ∨
        (⟨m.pmax * g + x.1, x.2.length⟩ : Block) ∈ recordedG ⟨cfg, m, d⟩)
    (hnoent : ∀ x ∈ liveAt 0 (psp f), ¬ IsEnt m d ⟨m.pmax * f + x.1, x.2.length⟩)
    (hvis : f ∈ m.visited → liveAt 0 (psp f) = [] → psp f = [])
    (hlen : (gbytes (psp f)).length < two31) (lowUse : Nat) :
    ∃ res, primaryGC m d lowUse none = some res ∧ Released res.2.2.1.pfiles f ∧
      (pf = f → (f ∉ m.visited ∨ liveAt 0 (psp f) ≠ []) → res.2.2.1.pfiles.get? f = none) := by
  obtain ⟨m1, d1, aff1, m2, d2, aff2, psp2, p1, p2, hS2, hA, hpn2, e1, e2, e3, e4, e5⟩ :=
    passes_f hS (by omega) hpn
  have hhdr : d2.phdr = some ⟨m.pmax, pf⟩ := by rw [e5]; exact hS.hdr
  -- after the passes file `f` has no record span
  have hdeadf : liveAt 0 (psp2 f) = [] := by
    cases hl : liveAt 0 (psp2 f) with
    | nil => rfl
    | cons x l =>
      exfalso
      have hx2 : x ∈ liveAt 0 (psp2 f) := by rw [hl]; simp
      have hx := hA.sub f x hx2
      have hnr := hA.surv f x h1 (by show f ≤ m.pfileNum; omega) hx2
      rcases hcov f h1 h2 x hx with h | h
      · exact hnoent x hx h
      · exact hnr h
  -- every record span left in a closed file is a well-formed record
  have hwf : WfAfter d2 m.pfileNum := by
    intro g hg ss hfile hok x hx
    by_cases hgp : pf ≤ g
    · have hfile2 := hS2.log.files g hgp (by rw [e1]; omega)
      have : ss = psp2 g := by
        rw [hfile] at hfile2
        exact gbytes_inj hok (hS2.log.ok g hgp (by rw [e1]; omega)) (Option.some.inj hfile2)
      subst this
      have hx0 := hA.sub g x hx
      have hnr := hA.surv g x hgp (by show g ≤ m.pfileNum; omega) hx
      rcases hcov g hgp hg x hx0 with h | h
      · exact ent_recspan hU hS hpn hgp (by omega) hx0 h
      · exact absurd h hnr
    · rw [hS2.log.gone g (by omega)] at hfile; cases hfile
  -- the loop
  have hP : m.pfileNum ≤ k := by
    have a1 := GInv.pfile_le (s := ⟨cfg, m, d⟩) hS.g
    have a2 : m.precFileNum ≤ k := hS.g.cntF
    exact Nat.le_trans a1 a2
  have hG3 := hS2.g.visited (m2.visited.filter (fun g => !(aff1 ++ aff2).contains g))
  have hS3 : GState c U cfg { m2 with visited := m2.visited.filter (fun g => !(aff1 ++ aff2).contains g) }
      d2 spec k B pf psp2 :=
    state_with hG3 hS2.hdr (fun g g1 g2 => ⟨hS2.log.files g g1 g2, hS2.log.ok g g1 g2⟩)
  have hI : GoInv c U cfg spec B d2 (m2.visited.filter (fun g => !(aff1 ++ aff2).contains g))
      m.pfileNum m.pmax pf pf
      { m2 with visited := m2.visited.filter (fun g => !(aff1 ++ aff2).contains g) } d2 k :=
    ⟨⟨psp2, hS3⟩, Nat.le_refl _, e1, e2, by omega, fun _ _ => rfl, fun _ _ => Iff.rfl⟩
  have hres : primaryGC m d lowUse none = some (primaryGC.go lowUse (m2.pfileNum - pf + 1) pf
      ⟨m.pmax, pf⟩ { m2 with visited := m2.visited.filter (fun g => !(aff1 ++ aff2).contains g) }
      d2 none 0) := by
    unfold primaryGC
    rw [p1]
    simp only
    rw [p2]
    simp only
    rw [hhdr]
  refine ⟨_, hres, ?_⟩
  have hfile2 : d2.pfiles.get? f = some (gbytes (psp2 f)) :=
    hS2.log.files f h1 (by rw [e1]; omega)
  by_cases hfv : f ∈ m2.visited.filter (fun g => !(aff1 ++ aff2).contains g)
  · -- the file stays in the visited set: it was empty already
    have hkeep := pgcGo_visited lowUse (f := f) (m2.pfileNum - pf + 1) pf ⟨m.pmax, pf⟩
      { m2 with visited := m2.visited.filter (fun g => !(aff1 ++ aff2).contains g) } d2 none 0 hfv
    rw [List.mem_filter] at hfv
    obtain ⟨hv1, hv2⟩ := hfv
    rw [e3] at hv1
    have hnaff : f ∉ aff1 ++ aff2 := by
      intro hc
      rw [List.contains_iff_mem.mpr hc] at hv2
      cases hv2
    have hlive0 : liveAt 0 (psp f) = [] := by
      cases hl : liveAt 0 (psp f) with
      | nil => rfl
      | cons x l =>
        exfalso
        have hx : x ∈ liveAt 0 (psp f) := by rw [hl]; simp
        apply hnaff
        apply hA.died f x h1 (by show f ≤ m.pfileNum; omega) hx
        rw [hdeadf]; exact fun h => by cases h
    have hnil : psp2 f = [] := by rw [hA.same f hlive0]; exact hvis hv1 hlive0
    refine ⟨Or.inr ?_, ?_⟩
    · rw [hkeep, hfile2, hnil]; rfl
    · intro _ hc
      rcases hc with hc | hc
      · exact absurd hv1 hc
      · exact absurd hlive0 hc
  · -- the loop visits the file
    obtain ⟨fuel', pf', m', d', k', recl', q1, q2, q3⟩ :=
      pgcGo_arrives hU hwf lowUse h2 (m2.pfileNum - pf + 1) pf pf _ d2 k 0 hI h1 (by rw [e1]; omega)
    rw [q1]
    obtain ⟨psp', hS'⟩ := q2.st
    have hfv' : m'.visited.contains f = false := by
      cases hh : m'.visited.contains f
      · rfl
      · exact absurd ((q2.vis f (Nat.le_refl _)).mp (List.contains_iff_mem.mp hh)) hfv
    have hfile' : d'.pfiles.get? f = some (gbytes (psp2 f)) := by
      rw [q2.bytes f (Nat.le_refl _)]; exact hfile2
    have hok2 : ∀ s ∈ psp2 f, s.dead = true ∧ s.body.length < two31 :=
      fun s hs => ⟨liveAt_nil_dead _ _ hdeadf s hs, hS2.log.ok f h1 (by rw [e1]; omega) s hs⟩
    have hlen2 : (gbytes (psp2 f)).length < two31 := by rw [hA.len]; exact hlen
    obtain ⟨got, hrr⟩ := reapRecords_dead m' d' f lowUse hfile' hok2 hlen2
    have hnP : f ≠ m'.pfileNum := by rw [q2.pfile]; omega
    -- the disk after the visit
    have hvisit : ∃ dX, reapRecords m' d' f lowUse = (.dead, m', dX, got) ∧
        dX.pfiles.get? f = some [] := by
      rcases hrr with h | ⟨hnil, h⟩
      · exact ⟨_, h, NMap.get?_set_eq _ _ _⟩
      · refine ⟨_, h, ?_⟩
        rw [hfile', hnil]; rfl
    obtain ⟨dX, hr, hX⟩ := hvisit
    rw [pgcGo_step lowUse fuel' f ⟨m.pmax, pf'⟩ m' d' recl' hnP hfv' hr (by decide)]
    unfold Released
    rw [pgcGo_before lowUse (f := f) fuel' (f + 1) _ _ _ none _ (by omega)]
    by_cases hfirst : f = pf'
    · have hc : PReapOut.dead = PReapOut.dead ∧ f = (⟨m.pmax, pf'⟩ : PriHeader).first := ⟨rfl, hfirst⟩
      rw [if_pos hc]
      have : (dX.pfiles.del f).get? f = none := NMap.get?_del_eq _ _
      exact ⟨Or.inl this, fun _ _ => this⟩
    · have hc : ¬ (PReapOut.dead = PReapOut.dead ∧ f = (⟨m.pmax, pf'⟩ : PriHeader).first) :=
        fun h => hfirst h.2
      rw [if_neg hc]
      refine ⟨Or.inr hX, ?_⟩
      intro hpf _
      exact absurd ((q3 hpf).symm ▸ hpf.symm) hfirst

end

end Sth.C11
